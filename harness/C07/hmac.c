/* C07 (and the C04 one-shot / hex entry points): HMAC over an abstract hash.
 * -DVF_ALG_<MD5|SHA1|SHA2|GOST>  -DVF_FN_<init|update|final|oneshot|get_digest|get_digest_str|
 *                                         hash_get_digest|hash_get_digest_str>
 * SHA-2 / GOST: -DVF_BITS=<224|256|384|512>.
 * The hash primitives are replaced by the byte-stream contracts (contracts/hmac.h). */
#include "contracts/hmac.h"

#if defined(VF_ALG_MD5)
#define HCTX_T hmac_md5_ctx_t
#define HS MD5_HASH_SIZE
#define HMAC_INIT(key, kl, h)			hmac_md5_init(key, kl, h)
#define HMAC_UPDATE(h, d, n)			hmac_md5_update(h, d, n)
#define HMAC_FINAL(h, dg)			hmac_md5_final(h, dg)
#define HMAC_ONESHOT(key, kl, d, n, dg)		hmac_md5(key, kl, d, n, dg)
#define HMAC_GET(key, kl, d, n, dg)		md5_hmac_get_digest(key, kl, d, n, dg)
#define HMAC_GET_STR(key, kl, d, n, s)		md5_hmac_get_digest_str((const char *)key, kl, (const char *)d, n, s)
#define HASH_GET(d, n, dg)			md5_get_digest(d, n, dg)
#define HASH_GET_STR(d, n, s)			md5_get_digest_str((const char *)d, n, s)
#elif defined(VF_ALG_SHA1)
#define HCTX_T hmac_sha1_ctx_t
#define HS SHA1_HASH_SIZE
#define HMAC_INIT(key, kl, h)			hmac_sha1_init(key, kl, h)
#define HMAC_UPDATE(h, d, n)			hmac_sha1_update(h, d, n)
#define HMAC_FINAL(h, dg)			hmac_sha1_final(h, dg)
#define HMAC_ONESHOT(key, kl, d, n, dg)		hmac_sha1(key, kl, d, n, dg)
#define HMAC_GET(key, kl, d, n, dg)		sha1_hmac_get_digest(key, kl, d, n, dg)
#define HMAC_GET_STR(key, kl, d, n, s)		sha1_hmac_get_digest_str((const char *)key, kl, (const char *)d, n, s)
#define HASH_GET(d, n, dg)			sha1_get_digest(d, n, dg)
#define HASH_GET_STR(d, n, s)			sha1_get_digest_str((const char *)d, n, s)
#elif defined(VF_ALG_SHA2)
#define HCTX_T hmac_sha2_ctx_t
#define HS (VF_BITS / 8)
#define VF_HAS_SIZE_RET 1
#define HMAC_INIT(key, kl, h)			hmac_sha2_init(VF_BITS_ARG, key, kl, h)
#define HMAC_UPDATE(h, d, n)			hmac_sha2_update(h, d, n)
#define HMAC_FINAL(h, dg)			hmac_sha2_final(h, dg, size_ret)
#define HMAC_ONESHOT(key, kl, d, n, dg)		hmac_sha2(VF_BITS_ARG, key, kl, d, n, dg, size_ret)
#define HMAC_GET(key, kl, d, n, dg)		sha2_hmac_get_digest(VF_BITS_ARG, key, kl, d, n, dg, size_ret)
#define HMAC_GET_STR(key, kl, d, n, s)		sha2_hmac_get_digest_str(VF_BITS_ARG, (const char *)key, kl, (const char *)d, n, s, size_ret)
#define HASH_GET(d, n, dg)			sha2_get_digest(VF_BITS_ARG, d, n, dg, size_ret)
#define HASH_GET_STR(d, n, s)			sha2_get_digest_str(VF_BITS_ARG, (const char *)d, n, s, size_ret)
#elif defined(VF_ALG_GOST)
#define HCTX_T hmac_gost3411_2012_ctx_t
#define HS (VF_BITS / 8)
#define VF_HAS_SIZE_RET 1
#define HMAC_INIT(key, kl, h)			hmac_gost3411_2012_init(VF_BITS_ARG, key, kl, h)
#define HMAC_UPDATE(h, d, n)			hmac_gost3411_2012_update(h, d, n)
#define HMAC_FINAL(h, dg)			hmac_gost3411_2012_final(h, dg, size_ret)
#define HMAC_ONESHOT(key, kl, d, n, dg)		hmac_gost3411_2012(VF_BITS_ARG, key, kl, d, n, dg, size_ret)
#define HMAC_GET(key, kl, d, n, dg)		gost3411_2012_hmac_get_digest(VF_BITS_ARG, key, kl, d, n, dg, size_ret)
#define HMAC_GET_STR(key, kl, d, n, s)		gost3411_2012_hmac_get_digest_str(VF_BITS_ARG, (const char *)key, kl, (const char *)d, n, s, size_ret)
#define HASH_GET(d, n, dg)			gost3411_2012_get_digest(VF_BITS_ARG, d, n, dg, size_ret)
#define HASH_GET_STR(d, n, s)			gost3411_2012_get_digest_str(VF_BITS_ARG, (const char *)d, n, s, size_ret)
#endif

void harness(void) {
	/* ghost indices: arbitrary; ghost stream state: arbitrary except where the contract
	 * of the function under verification constrains it */
	VF_NONDET(size_t, s_k);
	VF_NONDET(size_t, d_k);
	VF_NONDET(size_t, c_k);
	VF_NONDET(size_t, s_len);
	VF_NONDET(uint8_t, s_at);
	VF_NONDET(size_t, d_n);
	VF_ASSUME(s_len <= ((size_t)1 << 62));
#ifndef VF_REPLAY
	vf_s_k = s_k; vf_d_k = d_k; vf_c_k = c_k;
	vf_s_len = s_len; vf_s_at = s_at; vf_d_n = d_n;
#if defined(VF_ALG_MD5)
	md5_memset_volatile = memset;	/* --dfcc havocs mutable statics */
#elif defined(VF_ALG_SHA1)
	sha1_memset_volatile = memset;
#elif defined(VF_ALG_SHA2)
	sha2_memset_volatile = memset;
#elif defined(VF_ALG_GOST)
	gost3411_2012_memset_volatile = memset;
#endif
#endif
#ifdef VF_HAS_SIZE_RET
	/* the bits argument: the digest size either in bits or in bytes (both are accepted) */
	VF_NONDET(size_t, bits_arg);
	VF_ASSUME(bits_arg == VF_BITS || bits_arg == VF_BITS / 8);
#define VF_BITS_ARG bits_arg
	VF_FRESH_PTR_OPT(size_t, size_ret, sizeof(size_t));
#endif
	VF_NONDET(size_t, key_len);
	VF_NONDET(size_t, data_size);
#if defined(VF_FN_init)
	VF_FRESH_PTR(uint8_t, key, key_len == 0 ? 1 : key_len);
	VF_FRESH_PTR(HCTX_T, hctx, sizeof(HCTX_T));
	HMAC_INIT(key, key_len, hctx);
#elif defined(VF_FN_update)
	VF_FRESH_PTR(HCTX_T, hctx, sizeof(HCTX_T));
	VF_FRESH_PTR_OPT(uint8_t, data, data_size);
	HMAC_UPDATE(hctx, data, data_size);
#elif defined(VF_FN_final)
	VF_FRESH_PTR(HCTX_T, hctx, sizeof(HCTX_T));
	VF_FRESH_PTR(uint8_t, digest, HS);
	HMAC_FINAL(hctx, digest);
#elif defined(VF_FN_oneshot) || defined(VF_FN_get_digest)
	VF_FRESH_PTR(uint8_t, key, key_len == 0 ? 1 : key_len);
	VF_FRESH_PTR_OPT(uint8_t, data, data_size);
	VF_FRESH_PTR(uint8_t, digest, HS);
#if defined(VF_FN_oneshot)
	HMAC_ONESHOT(key, key_len, data, data_size, digest);
#else
	HMAC_GET(key, key_len, data, data_size, digest);
#endif
#elif defined(VF_FN_get_digest_str)
	VF_FRESH_PTR(uint8_t, key, key_len == 0 ? 1 : key_len);
	VF_FRESH_PTR_OPT(uint8_t, data, data_size);
	VF_FRESH_PTR(char, str, 2 * HS + 1);
	HMAC_GET_STR(key, key_len, data, data_size, str);
	VF_NATIVE_POST(strlen(str) == 2 * HS, "hex string length");
#elif defined(VF_FN_hash_get_digest)
	VF_FRESH_PTR_OPT(uint8_t, data, data_size);
	VF_FRESH_PTR(uint8_t, digest, HS);
	HASH_GET(data, data_size, digest);
#elif defined(VF_FN_hash_get_digest_str)
	VF_FRESH_PTR_OPT(uint8_t, data, data_size);
	VF_FRESH_PTR(char, str, 2 * HS + 1);
	HASH_GET_STR(data, data_size, str);
	VF_NATIVE_POST(strlen(str) == 2 * HS, "hex string length");
#endif
	VF_CANARY("hmac harness end");
}
