/* C05 (per-call fragment): tpt_msg_queue_create / tpt_msg_queue_destroy of
 * src/threadpool/threadpool_msg_sys.c: acquire/release symmetry on every failure position
 * (calloc, pipe2, event registration). calloc/free: CBMC's model (--malloc-may-fail
 * --malloc-fail-null, --memory-leak-check); pipe2/close/epoll_ctl: stubs/sys_msg.h with a ghost
 * descriptor ledger (double close / foreign close = failed obligation). The registration goes
 * through the REAL tpt_ev_add_args2 -> tpt_ev_post of threadpool.c. Loop-free: "finite". */
#include "vf/vf.h"
#include "stubs/sys_msg.h"
#include "src/threadpool/threadpool.c"
#include "src/threadpool/threadpool_msg_sys.c"

void vf_other_threads_step(void) { }

void harness(void) {
	static tp_t tp;
	static tp_thread_t thr[1];
	VF_NONDET(uint8_t, have_tpt);
	VF_NONDET(uint32_t, flags);
	VF_NONDET(size_t, fd_count);
	VF_NONDET(int, io_fd);
	VF_NONDET(uint32_t, sflags);
	VF_NONDET(uint8_t, no_faults);
	VF_NONDET(uint8_t, destroy_null);

	tp.fd_count = fd_count; tp.s.flags = sflags;
	thr[0].tp = &tp; thr[0].io_fd = (uintptr_t)(unsigned)io_fd;
	vf_no_faults = (no_faults != 0);
	if (destroy_null) {
		tpt_msg_queue_destroy(NULL);
		VF_ASSERT(vf_close_calls == 0 && vf_fds_open == 0, "queue destroy(NULL): no effect");
	}

	tpt_msg_queue_p mq = tpt_msg_queue_create(have_tpt ? &thr[0] : NULL, flags);

	if (mq == NULL) {
		VF_ASSERT(vf_fds_open == 0, "queue create failed: no descriptor is left open");
		VF_ASSERT(vf_pipe2_calls <= 1, "queue create: one pipe at most");
		if (!have_tpt) VF_CANARY("queue: no owning thread => refused");
		if (vf_pipe2_calls == 1 && vf_close_calls == 0) VF_CANARY("queue: pipe2 failed");
		if (vf_epctl_calls >= 1 && vf_close_calls == 2) VF_CANARY("queue: registration failed, both ends closed");
		if (vf_pipe2_calls == 0) VF_CANARY("queue: calloc failed");
		/* heap: --memory-leak-check at the end of the harness */
	} else {
		tpt_msg_queue_t *q = mq;
		VF_ASSERT(have_tpt, "queue create: a queue needs an owning thread");
		VF_ASSERT(vf_fds_open == 2 && q->fd[0] != q->fd[1] &&
		    q->fd[0] >= VF_FD_BASE && q->fd[1] >= VF_FD_BASE && vf_fd_is_open[q->fd[0] - VF_FD_BASE] && vf_fd_is_open[q->fd[1] - VF_FD_BASE],
		    "queue create: holds exactly the two ends of one pipe");
		VF_ASSERT((vf_pipe2_flags & O_NONBLOCK) != 0, "queue create: the pipe is non-blocking (a full queue is EAGAIN, never a blocked sender)");
		VF_ASSERT(((vf_pipe2_flags & O_CLOEXEC) != 0) == ((flags & TP_MSG_Q_F_CLOEXEC) != 0), "queue create: close-on-exec iff requested");
		VF_ASSERT(q->udata.cb_func == tpt_msg_recv_and_process && q->udata.ident == (uintptr_t)q->fd[0] && q->udata.tpt == &thr[0],
		    "queue create: the read end is handled by the receiver on the owning thread");
		VF_ASSERT(vf_epctl_ok_calls >= 1 && vf_epctl_last_fd == q->fd[0] && vf_epctl_last_epfd == io_fd &&
		    vf_epctl_last_ptr == (void *)&q->udata && (vf_epctl_last_events & EPOLLIN) != 0 &&
		    (vf_epctl_last_events & EPOLLONESHOT) == 0,
		    "queue create: read end registered (level, persistent) with the owning thread's epoll");
		VF_ASSERT((uintptr_t)q->fd[0] < fd_count, "queue create: the descriptor is inside the pool's descriptor range");
		tpt_msg_queue_destroy(mq);
		VF_ASSERT(vf_fds_open == 0 && vf_close_calls == 2, "queue destroy: both ends closed, once each");
		VF_CANARY("queue: created and destroyed");
	}
	VF_ASSERT(!(no_faults && have_tpt && fd_count > VF_FD_BASE + 1 && vf_pipe2_calls == 1) || mq != NULL,
	    "queue create: succeeds when memory, pipe and registration are available");
	VF_CANARY("queue harness end");
}
