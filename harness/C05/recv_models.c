/* Word-wise executable models of memcpy / memmove / memmem for accesses to the receiver's read
 * buffer (tpt_msg_recv_and_process: `tpt_msg_pkt_t msg[1024]`, 32 KiB on the stack).
 *
 * Why: CBMC lowers every byte-granular access at a symbolic offset into that array of 1024
 * structs to a 32768-entry byte view (measured: ONE 8-byte load = 95 s / 5 GB); the receiver's
 * resynchronisation path does dozens of them. The array size is fixed in the source and is not
 * changed. Instead the three libc functions the receiver applies to the buffer are given as
 * executable models that read/write the buffer through its own element type at constant indices
 * (64-bit little-endian words, LP64), which is cheap. They compute exactly the C semantics for
 *   memcpy (dst, src, 32)          src inside the buffer, dst a separate packet object
 *   memmove(buf, src, n)           src inside the buffer, dst the start of the buffer
 *   memmem (h, hn, needle, 8)      h inside the buffer (FIRST occurrence, or NULL)
 * and are cross-checked natively against glibc by recv_models_selftest.c (job
 * tpmsg.recv_models.selftest). Any other use is a failed obligation ("model: ..."), never
 * silently accepted. Every call still carries the memory-safety obligations of the real
 * function (r_ok / w_ok over the exact spans) plus "only bytes that read() returned are read".
 *
 * Needs: tpt_msg_pkt_t, vf_rd_buf (start of the buffer), vf_rd_last_ret (bytes received),
 * VF_PIPE_CAP (modelled prefix of the buffer, bytes; multiple of 32). */
#ifndef VF_RECV_MODELS_C
#define VF_RECV_MODELS_C

#ifdef VF_NATIVE
#define VFM(name)	vfm_##name
#define VFM_ASSERT(c, m)	do { if (!(c)) { fprintf(stderr, "MODEL-ASSERT %s\n", m); abort(); } } while (0)
#define VFM_R_OK(p, n)	1
#define VFM_W_OK(p, n)	1
#define VFM_SAME(p, q)	1
#define VFM_OFF(p)	((size_t)((const uint8_t *)(p) - (const uint8_t *)vf_rd_buf))
#else
#define VFM(name)	name
#define VFM_ASSERT(c, m)	__CPROVER_assert((c), m)
#define VFM_R_OK(p, n)	__CPROVER_r_ok((p), (n))
#define VFM_W_OK(p, n)	__CPROVER_w_ok((p), (n))
#define VFM_SAME(p, q)	__CPROVER_same_object((p), (q))
#define VFM_OFF(p)	((size_t)__CPROVER_POINTER_OFFSET(p))
#endif
#define VFM_WORDS	(VF_PIPE_CAP / 8)

/* The models' own accesses are constant-index field accesses inside the first VF_PIPE_CAP bytes
 * of the buffer handed to read() (whose size the read() stub asserts); CBMC's automatic checks
 * are switched off for them (they only multiply the formula), the explicit obligations stay. */
#ifndef VF_NATIVE
#pragma CPROVER check push
#pragma CPROVER check disable "bounds"
#pragma CPROVER check disable "pointer"
#pragma CPROVER check disable "pointer-overflow"
#pragma CPROVER check disable "pointer-primitive"
#pragma CPROVER check disable "signed-overflow"
#pragma CPROVER check disable "undefined-shift"
#pragma CPROVER check disable "div-by-zero"
#endif

/* word c (constant) of the buffer */
static inline uint64_t vfm_Wc(const tpt_msg_pkt_t *pp, size_t c) {
	switch (c & 3) {
	case 0: return ((uint64_t)pp[c >> 2].magic);
	case 1: return ((uint64_t)pp[c >> 2].msg_cb);
	case 2: return ((uint64_t)pp[c >> 2].udata);
	default: return ((uint64_t)pp[c >> 2].chk_sum);
	}
}
static inline void vfm_Wc_set(tpt_msg_pkt_t *pp, size_t c, uint64_t v) {
	switch (c & 3) {
	case 0: pp[c >> 2].magic = (size_t)v; break;
	case 1: pp[c >> 2].msg_cb = (tpt_msg_cb)v; break;
	case 2: pp[c >> 2].udata = (void *)v; break;
	default: pp[c >> 2].chk_sum = (size_t)v; break;
	}
}
/* snapshot of the modelled prefix as words (a small local array: symbolic indexing is cheap);
 * two zero words behind it stand for "beyond the prefix" (callers mask / range-check) */
typedef struct { uint64_t w[VFM_WORDS + 2]; } vfm_snap_t;
static inline void vfm_snap(vfm_snap_t *L) {
	const tpt_msg_pkt_t *pp = (const tpt_msg_pkt_t *)vf_rd_buf;
	for (size_t c = 0; c < VFM_WORDS; c ++)
		L->w[c] = vfm_Wc(pp, c);
	L->w[VFM_WORDS] = 0;
	L->w[VFM_WORDS + 1] = 0;
}
/* unaligned little-endian 64-bit load at byte offset o (o / 8 <= VFM_WORDS) */
static inline uint64_t vfm_U(const vfm_snap_t *L, size_t o) {
	const size_t w = o / 8, s = (o % 8) * 8;
	const uint64_t lo = L->w[w], hi = L->w[w + 1];
	return ((s == 0) ? lo : ((lo >> s) | (hi << (64 - s))));
}

void *VFM(memcpy)(void *dst, const void *src, size_t n) {
	VFM_ASSERT(VFM_R_OK(src, n), "memcpy: source span readable");
	VFM_ASSERT(VFM_W_OK(dst, n), "memcpy: destination span writable");
	VFM_ASSERT(vf_rd_buf != NULL && VFM_SAME(src, vf_rd_buf) && n == sizeof(tpt_msg_pkt_t) && n == 32,
	    "model: memcpy of one packet out of the receive buffer");
#ifndef VF_NATIVE
	VFM_ASSERT(!VFM_SAME(dst, src), "memcpy: objects do not overlap");
#endif
	const size_t o = VFM_OFF(src);
	VFM_ASSERT(o <= vf_rd_last_ret && n <= vf_rd_last_ret - o, "memcpy: reads only bytes that read() returned");
	if (!(o <= VF_PIPE_CAP - 32))
		return (dst);			/* (obligation above failed) */
	vfm_snap_t L;
	vfm_snap(&L);
	tpt_msg_pkt_t *d = (tpt_msg_pkt_t *)dst;
	d->magic = (size_t)vfm_U(&L, o);
	d->msg_cb = (tpt_msg_cb)vfm_U(&L, o + 8);
	d->udata = (void *)vfm_U(&L, o + 16);
	d->chk_sum = (size_t)vfm_U(&L, o + 24);
	return (dst);
}

void *VFM(memmove)(void *dst, const void *src, size_t n) {
	VFM_ASSERT(VFM_R_OK(src, n), "memmove: source span readable");
	VFM_ASSERT(VFM_W_OK(dst, n), "memmove: destination span writable");
	VFM_ASSERT(vf_rd_buf != NULL && VFM_SAME(src, vf_rd_buf) && VFM_SAME(dst, vf_rd_buf) && VFM_OFF(dst) == 0,
	    "model: memmove inside the receive buffer, to its start");
	const size_t o = VFM_OFF(src);
	VFM_ASSERT(o <= vf_rd_last_ret && n <= vf_rd_last_ret - o, "memmove: reads only bytes that read() returned");
	if (!(o <= VF_PIPE_CAP && n <= VF_PIPE_CAP - o))
		return (dst);			/* (obligation above failed) */
	vfm_snap_t L;
	vfm_snap(&L);
	tpt_msg_pkt_t *pp = (tpt_msg_pkt_t *)dst;
	for (size_t c = 0; c < VFM_WORDS; c ++) {
		/* byte j of word c is replaced iff 8c + j < n */
		const size_t so = (o + 8 * c <= VF_PIPE_CAP) ? (o + 8 * c) : VF_PIPE_CAP;
		uint64_t v = vfm_U(&L, so);
		const uint64_t m = (8 * c >= n) ? 0 : (n - 8 * c >= 8) ? ~(uint64_t)0 : ((((uint64_t)1) << (8 * (n - 8 * c))) - 1);
		vfm_Wc_set(pp, c, (v & m) | (L.w[c] & ~m));
	}
	return (dst);
}

void *VFM(memmem)(const void *h, size_t hn, const void *nd, size_t nn) {
	VFM_ASSERT(VFM_R_OK(h, hn), "memmem: haystack span readable");
	VFM_ASSERT(VFM_R_OK(nd, nn), "memmem: needle span readable");
	VFM_ASSERT(vf_rd_buf != NULL && VFM_SAME(h, vf_rd_buf) && nn == 8,
	    "model: memmem of an 8-byte needle inside the receive buffer");
	const size_t o = VFM_OFF(h);
	VFM_ASSERT(o <= vf_rd_last_ret && hn <= vf_rd_last_ret - o, "memmem: reads only bytes that read() returned");
	const uint64_t needle = *(const uint64_t *)nd;
	vfm_snap_t L;
	vfm_snap(&L);
	/* absolute byte offsets a are constants. The result is accumulated as an INTEGER (symex
	 * propagates pointer values, and a pointer-valued if-then-else chain per call grows
	 * exponentially over the receiver's loop). */
	size_t res = (size_t)-1;
	for (size_t a = 0; a + 8 <= VF_PIPE_CAP; a ++) {
		const size_t w = a / 8, s = (a % 8) * 8;
		const uint64_t v = (s == 0) ? L.w[w] : ((L.w[w] >> s) | (L.w[w + 1] << (64 - s)));
		res = (res == (size_t)-1 && a >= o && a - o <= hn && 8 <= hn - (a - o) && v == needle) ? a : res;
	}
	if (res == (size_t)-1)
		return (NULL);
	return ((void *)((uint8_t *)vf_rd_buf + res));
}
#ifndef VF_NATIVE
#pragma CPROVER check pop
#endif
#endif
