/* Native cross-check (mode "native", NOT a deductive obligation) of the word-wise models in
 * recv_models.c against glibc memcpy / memmove / memmem on a receive buffer of the real shape
 * (1024 packets), for EVERY source offset and length inside the modelled prefix and
 * pseudo-random contents biased towards the magic byte pattern. Prints "CASES n". */
#define _GNU_SOURCE
#include <stdio.h>
#include <stdlib.h>
#include <string.h>
#include <stdint.h>
#include <stddef.h>

typedef struct thread_pool_thread_s *tpt_p;
typedef void (*tpt_msg_cb)(tpt_p tpt, void *udata);
typedef struct tpt_msg_pkt_s { size_t magic; tpt_msg_cb msg_cb; void *udata; size_t chk_sum; } tpt_msg_pkt_t;
#ifndef VF_PIPE_CAP
#define VF_PIPE_CAP 128
#endif
static void *vf_rd_buf;
static size_t vf_rd_last_ret;
#ifndef VF_NATIVE
#define VF_NATIVE
#endif
#include "harness/C05/recv_models.c"

static uint64_t rng = 88172645463325252ull;
static uint64_t rnd(void) { rng ^= rng << 13; rng ^= rng >> 7; rng ^= rng << 17; return (rng); }
static const uint8_t magic_bytes[8] = { 0x00, 0xaa, 0xdd, 0xff, 0x00, 0x00, 0x00, 0x00 };

static void fill(uint8_t *b, size_t n) {
	for (size_t i = 0; i < n; i ++)
		b[i] = (rnd() % 3 == 0) ? magic_bytes[rnd() % 8] : (uint8_t)rnd();
	for (int k = 0; k < 3; k ++) {		/* plant whole magics at random offsets */
		size_t o = rnd() % (n - 8);
		if (rnd() % 2)
			memcpy(b + o, magic_bytes, 8);
	}
}

int main(void) {
	static tpt_msg_pkt_t ref[1024], mod[1024];
	unsigned long cases = 0;
	const size_t magic = 0xffddaa00;

	if (sizeof(tpt_msg_pkt_t) != 32 || sizeof(size_t) != 8) { puts("not LP64"); return (2); }
	for (int round = 0; round < 60; round ++) {
		fill((uint8_t *)ref, VF_PIPE_CAP + 64);
		for (size_t o = 0; o <= VF_PIPE_CAP; o ++) {
			/* memmem: every haystack length */
			for (size_t hn = 0; o + hn <= VF_PIPE_CAP; hn ++) {
				memcpy(mod, ref, VF_PIPE_CAP + 64);
				vf_rd_buf = mod; vf_rd_last_ret = VF_PIPE_CAP;
				void *r0 = memmem((uint8_t *)ref + o, hn, &magic, 8);
				void *r1 = (hn >= 8) ? vfm_memmem((uint8_t *)mod + o, hn, &magic, 8) : NULL;
				size_t d0 = r0 ? (size_t)((uint8_t *)r0 - (uint8_t *)ref) : (size_t)-1;
				size_t d1 = r1 ? (size_t)((uint8_t *)r1 - (uint8_t *)mod) : (size_t)-1;
				if (hn < 8 && r0 != NULL) { printf("memmem short o=%zu hn=%zu\n", o, hn); return (1); }
				if (hn >= 8 && d0 != d1) { printf("memmem mismatch o=%zu hn=%zu libc=%zu model=%zu\n", o, hn, d0, d1); return (1); }
				cases ++;
				/* memmove to the start of the buffer, every length */
				static tpt_msg_pkt_t a[1024], b[1024];
				memcpy(a, ref, VF_PIPE_CAP + 64); memcpy(b, ref, VF_PIPE_CAP + 64);
				memmove(a, (uint8_t *)a + o, hn);
				vf_rd_buf = b; vf_rd_last_ret = VF_PIPE_CAP;
				vfm_memmove(b, (uint8_t *)b + o, hn);
				if (memcmp(a, b, VF_PIPE_CAP + 64) != 0) { printf("memmove mismatch o=%zu n=%zu\n", o, hn); return (1); }
				cases ++;
			}
			if (o + 32 <= VF_PIPE_CAP) {
				tpt_msg_pkt_t t0, t1;
				memcpy(mod, ref, VF_PIPE_CAP + 64);
				vf_rd_buf = mod; vf_rd_last_ret = VF_PIPE_CAP;
				memcpy(&t0, (uint8_t *)ref + o, 32);
				vfm_memcpy(&t1, (uint8_t *)mod + o, 32);
				if (memcmp(&t0, &t1, 32) != 0) { printf("memcpy mismatch o=%zu\n", o); return (1); }
				cases ++;
			}
		}
	}
	printf("CASES %lu\n", cases);
	return (0);
}
