/* C05 (sequential / per-call fragment): the receiver tpt_msg_recv_and_process of
 * src/threadpool/threadpool_msg_sys.c (static: reached by #include of the real .c files).
 * Plain harness, postconditions from the property text:
 *   "each message of a read is delivered exactly once, in order, on the owning thread, with the
 *    sender's argument; nothing that is not a message is delivered".
 * read() is the ASSUMED contract of stubs/sys_msg.h (returns a prefix of the ghost pipe). The
 * 1024-entry stack array of the receiver is kept as it is in the source; what is bounded is the
 * READ RESULT (<= VF_PIPE_CAP bytes < sizeof(msg), so exactly one successful read per call).
 * memcpy/memmove/memmem on that buffer: word-wise executable models, see recv_models.c.
 *
 *   VF_PART 1  deliver:   read returns k <= CAP/32 well-formed packets (symbolic callbacks incl. NULL,
 *                         symbolic arguments) plus a trailing partial packet of t < 32 arbitrary bytes
 *                         (or fails / returns less than one packet): the call log equals the
 *                         sequence of non-NULL packets, each on the owning thread
 *   VF_PART 2  garbage:   read returns r <= CAP arbitrary bytes: memory safety of the
 *                         resynchronisation, every delivered (callback, argument) is a distinct
 *                         32-byte window of the bytes read that passes the magic/checksum test,
 *                         windows in increasing order without overlap (no duplicate, nothing invented)
 *   VF_PART 3  roundtrip: a packet queued by the real tpt_msg_send (all flags/states symbolic) is
 *                         delivered by the real receiver as cb(dst, udata) exactly once
 *   VF_PART 4  resync:    k1 <= 1 good packets, 1..32 damaged bytes (magic-free), good packets at the
 *                         resulting arbitrary byte offset: every good packet is delivered once, in
 *                         order (the receiver finds the next packet, nothing is lost or invented)
 */
#include "vf/vf.h"
#include "stubs/sys_msg.h"
#include "src/threadpool/threadpool.c"
#include "src/threadpool/threadpool_msg_sys.c"
#include "harness/C05/recv_models.c"

#define VF_NPKT		(VF_PIPE_CAP / 32)
static size_t vf_cb_calls;
static tpt_p vf_log_tpt[VF_NPKT + 1];
static void *vf_log_udata[VF_NPKT + 1];
static void vf_cb(tpt_p tpt, void *udata) {
	if (vf_cb_calls < VF_NPKT + 1) { vf_log_tpt[vf_cb_calls] = tpt; vf_log_udata[vf_cb_calls] = udata; }
	vf_cb_calls ++;
}
void vf_other_threads_step(void) { }
vf_blk_t nondet_blk(void);

/* unaligned little-endian load at the CONSTANT byte offset a of the harness's copy of the input */
static inline uint64_t vf_in_U(const vf_blk_t *b, size_t a) {
	const size_t w = a / 8, s = (a % 8) * 8;
	if (s == 0) return (b->w[w]);
	return ((b->w[w] >> s) | (b->w[w + 1] << (64 - s)));
}
/* the receiver's acceptance test, on the 32-byte window at constant offset a of the input */
static inline _Bool vf_in_valid(const vf_blk_t *b, size_t a) {
	return (vf_in_U(b, a) == TPT_MSG_PKT_MAGIC && (vf_in_U(b, a + 8) ^ vf_in_U(b, a + 16)) == vf_in_U(b, a + 24));
}

void harness(void) {
	static tp_t tp;
	static tp_thread_t thr[2];
	static tpt_msg_queue_t q;
	tp_event_t ev;
	VF_NONDET(uint16_t, ev_flags);
	VF_NONDET(uint64_t, ev_data);
	VF_NONDET(int, rfd);
	VF_NONDET(int, wfd);
	struct vf_pipe *gp;

	VF_ASSERT(sizeof(tpt_msg_pkt_t) == 32 && sizeof(size_t) == 8, "LP64 packet layout");
	thr[0].tp = &tp; thr[1].tp = &tp;
	VF_ASSUME(rfd > 0 && wfd > 0 && rfd != wfd);
	q.fd[0] = rfd; q.fd[1] = wfd; q.udata.ident = (uintptr_t)rfd; q.udata.tpt = &thr[0];
	q.udata.cb_func = tpt_msg_recv_and_process;
	thr[0].msg_queue = &q;
	ev.event = TP_EV_READ; ev.flags = ev_flags; ev.fflags = 0; ev.data = ev_data;
	gp = vf_pipe_make(rfd, wfd);

#if VF_PART == 1
	/* ---------------- well-formed packets + trailing partial packet ---------------- */
	VF_NONDET(size_t, good);		/* packets 0 .. good-1 of the pipe content are well-formed */
	VF_NONDET(size_t, len);			/* bytes in the pipe */
	vf_blk_t in = nondet_blk();
	VF_ASSUME(good <= VF_NPKT && len <= VF_PIPE_CAP && len / 32 <= good);
	for (size_t j = 0; j < VF_NPKT; j ++) {
		if (j < good) {
			VF_ASSUME(in.w[4 * j] == TPT_MSG_PKT_MAGIC);
			VF_ASSUME(in.w[4 * j + 1] == 0 || in.w[4 * j + 1] == (uint64_t)(uintptr_t)vf_cb);	/* type invariant: a callable function or NULL */
			VF_ASSUME(in.w[4 * j + 3] == (in.w[4 * j + 1] ^ in.w[4 * j + 2]));
		}
	}
	gp->q = in; gp->len = len;

	tpt_msg_recv_and_process(&ev, &q.udata);

	VF_ASSERT(vf_rd_calls >= 1 && vf_rd_last_fd == rfd, "recv: reads the queue's read end");
	VF_ASSERT(vf_rd_ok_calls <= 1, "recv: one successful read (read result bounded below the buffer size)");
	const size_t r = (vf_rd_ok_calls == 1) ? vf_rd_last_ret : 0;
	const size_t k = r / 32;		/* whole packets received; r % 32 trailing bytes are a partial packet */
	size_t expect = 0;
	for (size_t j = 0; j < VF_NPKT; j ++) {
		if (j < k && in.w[4 * j + 1] != 0) {
			VF_ASSERT(expect < vf_cb_calls && vf_log_udata[expect] == (void *)in.w[4 * j + 2] && vf_log_tpt[expect] == &thr[0],
			    "recv: packet j delivered in order, with its argument, on the owning thread");
			expect ++;
		}
	}
	VF_ASSERT(vf_cb_calls == expect, "recv: exactly one delivery per non-NULL packet - NULL callbacks skipped, partial trailing packet and unread packets not delivered");
	if (vf_rd_ok_calls == 1 && k == VF_NPKT) VF_CANARY("recv: full read");
	if (vf_rd_ok_calls == 1 && k >= 2 && r % 32 != 0 && vf_cb_calls == 1) VF_CANARY("recv: NULL skipped, partial tail");
	if (vf_rd_ok_calls == 0) VF_CANARY("recv: read failed or pipe empty");
#endif

#if VF_PART == 2 || VF_PART == 4
	VF_NONDET(size_t, len);
	vf_blk_t in = nondet_blk();
	VF_ASSUME(len <= VF_PIPE_CAP);
	/* type invariant of the input: whatever passes the receiver's test carries a callable function
	 * pointer or NULL (the trust the receiver itself places in the checksum) - for EVERY byte offset */
	for (size_t a = 0; a + 32 <= VF_PIPE_CAP; a ++) {
		if (vf_in_valid(&in, a))
			VF_ASSUME(vf_in_U(&in, a + 8) == 0 || vf_in_U(&in, a + 8) == (uint64_t)(uintptr_t)vf_cb);
	}
#if VF_PART == 4
	/* k1 good packets | g damaged bytes (1 <= g <= 32: a packet was truncated, or bytes were lost,
	 * so everything behind it is shifted to an arbitrary byte offset) | good packets back to back.
	 * The damaged bytes are arbitrary except that the magic does not START inside them (otherwise
	 * the receiver is entitled to try there). */
	VF_NONDET(size_t, k1);
	VF_NONDET(size_t, g);
	VF_ASSUME(k1 <= 1 && g >= 1 && g <= 32 && len >= 32 * k1 + g);
	const size_t d0 = 32 * k1, p0 = d0 + g;
#define VF_GOOD_AT(a)	(((a) < d0 && (a) % 32 == 0) || ((a) >= p0 && ((a) - p0) % 32 == 0))
	for (size_t a = 0; a + 32 <= VF_PIPE_CAP; a ++) {
		if (VF_GOOD_AT(a) && a + 32 <= len)
			VF_ASSUME(vf_in_valid(&in, a) && vf_in_U(&in, a + 8) == (uint64_t)(uintptr_t)vf_cb);
	}
	for (size_t a = 0; a + 8 <= VF_PIPE_CAP; a ++) {
		if (a >= d0 && a < p0)
			VF_ASSUME(vf_in_U(&in, a) != TPT_MSG_PKT_MAGIC);
	}
	vf_rd_no_faults = 1;
#endif
	gp->q = in; gp->len = len;

	tpt_msg_recv_and_process(&ev, &q.udata);

	const size_t r = (vf_rd_ok_calls == 1) ? vf_rd_last_ret : 0;
	VF_ASSERT(vf_rd_ok_calls <= 1, "recv: one successful read");
	VF_ASSERT(vf_cb_calls <= r / 32, "recv: never more deliveries than whole packets received");
#if VF_PART == 2
	/* every delivery is a window of the input that passes the test; windows are taken greedily
	 * left to right, 32 bytes apart at least: in order, no overlap, nothing delivered twice */
	size_t pos = 0;
	for (size_t j = 0; j < VF_NPKT; j ++) {
		if (j < vf_cb_calls) {
			_Bool found = 0;
			for (size_t a = 0; a + 32 <= VF_PIPE_CAP; a ++) {
				if (!found && a >= pos && a + 32 <= r && vf_in_valid(&in, a) &&
				    vf_in_U(&in, a + 8) == (uint64_t)(uintptr_t)vf_cb &&
				    (void *)vf_in_U(&in, a + 16) == vf_log_udata[j]) {
					found = 1;
					pos = a + 32;
				}
			}
			VF_ASSERT(found, "recv: every delivery is a not yet consumed 32-byte window of the received bytes that passes the magic/checksum test");
			VF_ASSERT(vf_log_tpt[j] == &thr[0], "recv: delivered on the owning thread");
		}
	}
#if VF_PIPE_CAP >= 96
	if (vf_cb_calls == 2 && !vf_in_valid(&in, 0)) VF_CANARY("recv: resynchronised and delivered two");
#else
	if (vf_cb_calls == 1 && !vf_in_valid(&in, 0)) VF_CANARY("recv: resynchronised and delivered one");
#endif
	if (vf_cb_calls == 0 && r == VF_PIPE_CAP) VF_CANARY("recv: all garbage");
#else
	if (r == len) {		/* the whole content was read */
		size_t expect = 0;
		for (size_t a = 0; a + 32 <= VF_PIPE_CAP; a ++) {
			if (VF_GOOD_AT(a) && a + 32 <= len) {
				VF_ASSERT(expect < vf_cb_calls && vf_log_udata[expect] == (void *)vf_in_U(&in, a + 16) && vf_log_tpt[expect] == &thr[0],
				    "resync: every good packet before and behind the damage is delivered, in order, with its argument");
				expect ++;
			}
		}
		VF_ASSERT(vf_cb_calls == expect, "resync: nothing else is delivered");
		if (k1 == 1 && g == 5 && vf_cb_calls == 2) VF_CANARY("resync: good, 5 damaged bytes, good");
		if (k1 == 0 && g == 32 && vf_cb_calls == VF_NPKT - 1) VF_CANARY("resync: damaged first packet");
	}
#endif
#endif

#if VF_PART == 3
	/* ---------------- round trip: real sender, real receiver ---------------- */
	VF_NONDET(uint8_t, src_sel);
	VF_NONDET(uint8_t, cur_sel);
	VF_NONDET(uint32_t, flags);
	VF_NONDET(size_t, dst_state);
	VF_NONDET(uint64_t, udata_v);
	VF_NONDET(uint8_t, no_faults);
	void *udata = (void *)udata_v;
	tpt_p src = (src_sel == 0) ? NULL : (src_sel == 1) ? &thr[0] : &thr[1];
	thr[0].state = dst_state; thr[1].state = TP_THREAD_STATE_RUNNING;
	vf_current_tpt = (cur_sel == 0) ? NULL : (cur_sel == 1) ? (void *)&thr[0] : (void *)&thr[1];
	vf_no_faults = (no_faults != 0);

	int rs = tpt_msg_send(&thr[0], src, flags, vf_cb, udata);

	if (rs == 0 && vf_wr_ok_calls == 1) {
		VF_ASSERT(vf_cb_calls == 0 && gp->len == 32, "round trip: queued, not yet delivered");
		vf_rd_no_faults = 1; vf_rd_force = 32;		/* the receiver gets what the pipe holds */
		tpt_msg_recv_and_process(&ev, &q.udata);
		VF_ASSERT(vf_cb_calls == 1 && vf_log_tpt[0] == &thr[0] && vf_log_udata[0] == udata,
		    "round trip: the receiver runs cb(dst, udata) exactly once for the queued packet");
		VF_ASSERT(gp->len == 0, "round trip: the packet was consumed");
		VF_CANARY("round trip: delivered");
	}
#endif
	VF_CANARY("recv harness end");
}
