/* C05 (sequential / per-call fragment): tpt_msg_send of src/threadpool/threadpool_msg_sys.c.
 * Plain harness: the structures are private to the .c files, so the postconditions (taken from
 * the property text: "success => exactly one delivery attempt", "a send that reports failure
 * never runs the callback", direct-call options) are asserted here. Both real translation units
 * are #included: threadpool.c supplies the real accessors (tpt_get_msg_queue, tpt_is_running,
 * tpt_get_current ...) and the private thread record; nothing of it is stubbed or modelled.
 * write()/pthread_getspecific() are the ASSUMED contracts of stubs/sys_msg.h.
 * Loop-free code, every input symbolic: complete for ONE call ("finite").
 * (The round trip "packet of a successful send, fed to the real receiver" is in recv.c.) */
#include "vf/vf.h"
#include "stubs/sys_msg.h"
#include "src/threadpool/threadpool.c"
#include "src/threadpool/threadpool_msg_sys.c"

static int vf_cb_calls;
static tpt_p vf_cb_tpt;
static void *vf_cb_udata;
static void vf_cb(tpt_p tpt, void *udata) { vf_cb_calls ++; vf_cb_tpt = tpt; vf_cb_udata = udata; }
void vf_other_threads_step(void) { }
vf_blk_t nondet_blk(void);

void harness(void) {
	static tp_t tp;
	static tp_thread_t thr[2];		/* thr[0] = destination, thr[1] = some other pool thread */
	static tpt_msg_queue_t q;
	VF_NONDET(uint8_t, dst_sel);		/* 0: NULL, else &thr[0] */
	VF_NONDET(uint8_t, src_sel);		/* 0: NULL, 1: dst, else the other thread */
	VF_NONDET(uint8_t, cur_sel);		/* what tpt_get_current() yields: 0: not a pool thread, 1: dst, else other */
	VF_NONDET(uint32_t, flags);
	VF_NONDET(size_t, dst_state);
	VF_NONDET(uint8_t, have_cb);
	VF_NONDET(uint8_t, have_queue);
	VF_NONDET(uint64_t, udata_v);
	VF_NONDET(int, rfd);
	VF_NONDET(int, wfd);
	VF_NONDET(uint8_t, wfd_is_pipe);	/* 0: the queue's descriptor is not (any more) a pipe: EBADF */
	VF_NONDET(uint8_t, no_faults);
	VF_NONDET(size_t, queued0);		/* packets already queued (VF_PIPE_CAP/32 = full) */
	VF_NONDET(size_t, k);			/* ghost index into the words already queued */
	void *udata = (void *)udata_v;
	tpt_p dst = dst_sel ? &thr[0] : NULL;
	tpt_p src = (src_sel == 0) ? NULL : (src_sel == 1) ? &thr[0] : &thr[1];
	struct vf_pipe *gp = NULL;

	thr[0].tp = &tp; thr[1].tp = &tp;
	thr[0].state = dst_state;
	thr[0].msg_queue = have_queue ? &q : NULL;
	thr[1].state = TP_THREAD_STATE_RUNNING; thr[1].msg_queue = NULL;
	vf_current_tpt = (cur_sel == 0) ? NULL : (cur_sel == 1) ? (void *)&thr[0] : (void *)&thr[1];
	VF_ASSUME(rfd > 0 && wfd > 0 && rfd != wfd);
	q.fd[0] = rfd; q.fd[1] = wfd; q.udata.ident = (uintptr_t)rfd; q.udata.tpt = &thr[0];
	q.udata.cb_func = tpt_msg_recv_and_process;
	vf_no_faults = (no_faults != 0);
	VF_ASSUME(queued0 <= VF_PIPE_CAP / 32);
	VF_ASSUME(k < VF_PIPE_WORDS);
	if (wfd_is_pipe) {
		gp = vf_pipe_make(rfd, wfd);
		gp->len = queued0 * 32;
		gp->q = nondet_blk();		/* packets queued earlier: unconstrained */
	}
	const uint64_t word_k0 = gp ? gp->q.w[k] : 0;

	/* "running" as the pool defines it: the thread record is in state RUNNING or STARTING */
	const _Bool running = (dst_state == TP_THREAD_STATE_RUNNING || dst_state == TP_THREAD_STATE_STARTING);
	const _Bool self = (flags & TP_MSG_F_SELF_DIRECT) != 0 &&
	    ((src_sel == 1) || (src_sel == 0 && cur_sel == 1));

	int r = tpt_msg_send(dst, src, flags, have_cb ? vf_cb : NULL, udata);

	VF_ASSERT(vf_cb_calls <= 1, "send: the callback runs at most once");
	VF_ASSERT(vf_cb_calls == 0 || (vf_cb_tpt == dst && vf_cb_udata == udata && r == 0),
	    "send: a direct call passes (dst, udata) and reports success");
	VF_ASSERT(r == 0 || vf_cb_calls == 0, "send: a send that reports failure never runs the callback");
	VF_ASSERT(r == 0 || vf_wr_ok_calls == 0, "send: a send that reports failure queued nothing");
	VF_ASSERT(r != 0 || vf_cb_calls + vf_wr_ok_calls == 1,
	    "send: success => exactly one delivery attempt (one direct call or one packet queued, never both)");
	VF_ASSERT(vf_wr_calls <= 1, "send: at most one write");
	if (dst == NULL || !have_cb || !have_queue) {
		VF_ASSERT(r == EINVAL && vf_cb_calls == 0 && vf_wr_calls == 0, "send: NULL dst / callback / queue => EINVAL, no effect");
	} else if (self) {
		VF_ASSERT(r == 0 && vf_cb_calls == 1 && vf_wr_calls == 0, "send: SELF_DIRECT to self => one direct call, nothing written");
	} else if (!running && !(flags & TP_MSG_F_FORCE)) {
		VF_ASSERT(r == EHOSTDOWN && vf_cb_calls == 0 && vf_wr_calls == 0, "send: destination not running, no FORCE => EHOSTDOWN, no call");
	} else if (!running) {
		VF_ASSERT(r == 0 && vf_cb_calls == 1 && vf_wr_calls == 0, "send: destination not running, FORCE => one direct call");
	} else {
		VF_ASSERT(vf_wr_calls == 1 && vf_wr_last_fd == wfd && vf_wr_last_n == 32,
		    "send: running destination => one 32-byte write to the destination's queue");
		if (vf_wr_ok_calls == 1) {
			tpt_msg_pkt_t pkt;
			VF_ASSERT(r == 0 && vf_cb_calls == 0, "send: write succeeded => 0 and no direct call");
			VF_ASSERT(gp->len == queued0 * 32 + 32 && gp->wr_ok == 1, "send: queue grew by exactly one packet");
			VF_ASSERT(k >= queued0 * 4 || gp->q.w[k] == word_k0, "send: packets queued earlier are untouched");
			VF_ASSERT(sizeof(pkt) == 32, "packet is 32 bytes (LP64)");
			*(vf_pkt32_t *)&pkt = *(vf_pkt32_t *)&gp->q.w[queued0 * 4];
			VF_ASSERT(pkt.magic == TPT_MSG_PKT_MAGIC && pkt.msg_cb == vf_cb && pkt.udata == udata,
			    "send: the packet carries magic, callback and argument");
			VF_ASSERT(TPT_MSG_PKT_IS_VALID(&pkt), "send: the packet passes the receiver's magic/checksum test");
		} else if (flags & TP_MSG_F_FAIL_DIRECT) {
			VF_ASSERT(r == 0 && vf_cb_calls == 1, "send: write failed, FAIL_DIRECT => one direct call, success");
			VF_ASSERT(gp == NULL || gp->len == queued0 * 32, "send: failed write queued nothing");
		} else {
			VF_ASSERT(r != 0 && vf_cb_calls == 0, "send: write failed => non-zero error, no call");
			VF_ASSERT(gp == NULL || gp->len == queued0 * 32, "send: failed write queued nothing");
		}
		/* reachability of the interesting branches (each canary must be reachable) */
		if (vf_wr_ok_calls == 1) VF_CANARY("send: queued");
		else if (flags & TP_MSG_F_FAIL_DIRECT) VF_CANARY("send: write failed, direct");
		else if (!wfd_is_pipe) VF_CANARY("send: EBADF");
		else if (queued0 == VF_PIPE_CAP / 32) VF_CANARY("send: queue full");
		else VF_CANARY("send: write failed (other errno)");
	}
	VF_CANARY("send harness end");
}
