/* C03: ecdsa_verify / ecdsa_verify_priv_key (bn_t level) against the contracts of their callees.
 * Tests' configuration (stubs/ec_config.h).  -DVF_FN_verify | -DVF_FN_verify_priv_key.
 * Harness-owned objects: the curve is a heap object of sizeof(ec_curve_t) with unconstrained
 * content (including the never-touched precomputed base-point table), assumed well-formed
 * (VF_EC_CURVE_WF: numbers normalised, n >= 2, 1 <= m <= BN_BIT_LEN, arbitrary algo / flags / h). */
#include "contracts/ecdsa.h"

#ifndef VF_REPLAY
/* keep the nonce-reduction function in the program on every tree: it is in the job's replace list */
void *const vf_keep[] = { (void *)bn_mod_reduce };

void harness(void) {
	ec_curve_p curve = (ec_curve_p)malloc(sizeof(ec_curve_t));
	__CPROVER_assume(curve != NULL);
	VF_NONDET_OBJ(bn_t, hash);
	VF_NONDET_OBJ(bn_t, sign_r);
	VF_NONDET_OBJ(bn_t, sign_s);
	VF_ASSUME(VF_EC_CURVE_WF(*curve));
	VF_ASSUME(vf_bn_wf(hash) && vf_bn_wf(sign_r) && vf_bn_wf(sign_s));
	VF_EC_GHOST_RESET();
	int r;
#if defined(VF_FN_verify)
	VF_NONDET_OBJ(ec_point_t, pub_key);
	VF_ASSUME(VF_EC_POINT_WF(pub_key));
	r = ecdsa_verify(curve, &hash, &sign_r, &sign_s, &pub_key);
#elif defined(VF_FN_verify_priv_key)
	VF_NONDET_OBJ(bn_t, priv_key);
	VF_ASSUME(vf_bn_wf(priv_key));
	r = ecdsa_verify_priv_key(curve, &hash, &sign_r, &sign_s, &priv_key);
#else
#error "select -DVF_FN_verify or -DVF_FN_verify_priv_key"
#endif
	if (r == 0) VF_CANARY("C03 verify: accept path reachable");
	if (r == -2) VF_CANARY("C03 verify: bad-signature path reachable");
	VF_CANARY("C03 verify harness end");
}
#else
void harness(void) { }
#endif
