/* C03 / C09: byte-string verification entry points against the contracts of their callees
 * (bn_import_*_bin: "reads exactly buf[0..size)"; ecdsa_pub_key_import_*; ecdsa_verify /
 * ecdsa_verify_priv_key).  Every byte string is an exact-size object of symbolic size allocated by
 * the contract's is_fresh (or NULL).
 * -DFN=ecdsa_verify_be|ecdsa_verify_le   or   -DFN=ecdsa_verify_priv_key_be|_le -DVF_PRIV */
#include "contracts/ecdsa.h"

#ifndef VF_REPLAY
void harness(void) {
	ec_curve_p curve = (ec_curve_p)malloc(sizeof(ec_curve_t));
	__CPROVER_assume(curve != NULL);
	VF_ASSUME(VF_EC_CURVE_WF(*curve));
	VF_NONDET(size_t, hash_size);
	VF_NONDET(size_t, sign_size);
	uint8_t *hash, *sign_r, *sign_s;
	VF_EC_GHOST_RESET();
	int r;
#ifndef VF_PRIV
	VF_NONDET(size_t, pub_key_size);
	uint8_t *pub_key_x, *pub_key_y;
	r = FN(curve, hash, hash_size, sign_r, sign_s, sign_size, pub_key_x, pub_key_y, pub_key_size);
#else
	VF_NONDET(size_t, priv_key_size);
	uint8_t *priv_key;
	r = FN(curve, hash, hash_size, sign_r, sign_s, sign_size, priv_key, priv_key_size);
#endif
	if (r == 0) VF_CANARY("C03 verify bytes: accept path reachable");
	if (r == EINVAL) VF_CANARY("C03 verify bytes: EINVAL path reachable");
	VF_CANARY("C03 verify bytes harness end");
}
#else
void harness(void) { }
#endif
