/* C03 / C09: ecdsa_sign_be / ecdsa_sign_le against the contracts of their callees.
 * Inputs: exact-size objects of symbolic sizes (or NULL); outputs: exactly `bytes` bytes each.
 * -DFN=ecdsa_sign_be|ecdsa_sign_le */
#include "contracts/ecdsa.h"

#ifndef VF_REPLAY
void harness(void) {
	ec_curve_p curve = (ec_curve_p)malloc(sizeof(ec_curve_t));
	__CPROVER_assume(curve != NULL);
	VF_ASSUME(VF_EC_CURVE_WF(*curve));
	VF_NONDET(size_t, hash_size);
	VF_NONDET(size_t, priv_key_size);
	VF_NONDET(size_t, rnd_size);
	uint8_t *hash, *priv_key, *rnd, *sign_r, *sign_s;
	size_t *sign_size;
	VF_EC_GHOST_RESET();
	int r = FN(curve, hash, hash_size, priv_key, priv_key_size, rnd, rnd_size, sign_r, sign_s, sign_size);
	if (r == 0) VF_CANARY("C03 sign bytes: success path reachable");
	if (r == EINVAL) VF_CANARY("C03 sign bytes: EINVAL path reachable");
	VF_CANARY("C03 sign bytes harness end");
}
#else
void harness(void) { }
#endif
