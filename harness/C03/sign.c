/* C03: ecdsa_sign (bn_t level) against the contracts of its callees.
 * -DVF_ALIAS=0  six distinct objects;  -DVF_ALIAS=1  the documented in-place call of the byte
 * wrappers: sign_r == hash, sign_s == rnd (ecdsa_sign(curve, &r, &d, &s, &r, &s)). */
#include "contracts/ecdsa.h"

#ifndef VF_REPLAY
/* keep the nonce-reduction function in the program on every tree: it is in the job's replace list */
void *const vf_keep[] = { (void *)bn_mod_reduce };

void harness(void) {
	ec_curve_p curve = (ec_curve_p)malloc(sizeof(ec_curve_t));
	__CPROVER_assume(curve != NULL);
	VF_NONDET_OBJ(bn_t, hash);
	VF_NONDET_OBJ(bn_t, priv_key);
	VF_NONDET_OBJ(bn_t, rnd);
	VF_ASSUME(VF_EC_CURVE_WF(*curve));
	VF_ASSUME(vf_bn_wf(hash) && vf_bn_wf(priv_key) && vf_bn_wf(rnd));
	VF_EC_GHOST_RESET();
	int r;
#if VF_ALIAS == 0
	VF_NONDET_OBJ(bn_t, sign_r);
	VF_NONDET_OBJ(bn_t, sign_s);
	VF_ASSUME(VF_BN_CNT_OK(&sign_r) && VF_BN_CNT_OK(&sign_s));
	r = ecdsa_sign(curve, &hash, &priv_key, &rnd, &sign_r, &sign_s);
#else
	r = ecdsa_sign(curve, &hash, &priv_key, &rnd, &hash, &rnd);
#endif
	if (r == 0) VF_CANARY("C03 sign: success path reachable");
	VF_CANARY("C03 sign harness end");
}
#else
void harness(void) { }
#endif
