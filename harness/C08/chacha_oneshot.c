/* C08: one-shot chacha() / xchacha() = set-up + one stream call + wipe.
 * chacha_str_init / xchacha_str_init, chacha_str_data_crypt, chacha_str_final are replaced by
 * their contracts (contracts/chacha.h -DVF_CC_GHOST_LOG -DVF_CC_INIT_ABSTRACT).
 *   -DFN=chacha|xchacha -DIVLEN=8|24 -DKS=<key_size> -DBYTES=<n> -DSO / -DDO -DMODE 0 | 1 src NULL | 2 in place */
#define VF_CC_GHOST_LOG
#define VF_CC_INIT_ABSTRACT
#define VF_CC_PART_B
#include "contracts/chacha.h"

#ifndef BYTES
#define BYTES 100
#endif
#ifndef KS
#define KS 32
#endif
#ifndef SO
#define SO 0
#endif
#ifndef DO
#define DO 0
#endif
#ifndef MODE
#define MODE 0
#endif

void harness(void) {
	VF_NONDET_BYTES(srcdata, BYTES + 1);
	VF_NONDET_BYTES(keyb, VF_CC_KEY_BYTES(KS));
	VF_NONDET_BYTES(ctrb, 8);
	VF_NONDET_BYTES(ivb, IVLEN);
	VF_NONDET(uint8_t, nulls);
	VF_NONDET(size_t, rounds);
	static uint8_t sb[SO + BYTES + (BYTES == 0)] __attribute__((aligned(8)));
	static uint8_t db[DO + BYTES + (BYTES == 0)] __attribute__((aligned(8)));
	const uint8_t *counter = (nulls & 1) ? NULL : ctrb.b;
	const uint8_t *iv = (nulls & 2) ? NULL : ivb.b;
	uint8_t *src, *dst;
	unsigned i;

	for (i = 0; i < BYTES; i ++)
		sb[SO + i] = srcdata.b[i];
	src = (MODE == 1) ? NULL : sb + SO;
	dst = (MODE == 2) ? src : db + DO;
#ifndef VF_REPLAY
	vf_cc_n = 0;
	FN(keyb.b, KS, counter, iv, rounds, src, BYTES, dst);
#else
	VF_ASSUME(VF_CC_ROUNDS_OK(rounds));
	static uint8_t ref[BYTES + 1];
	static const uint8_t zero24[24] = { 0 };
	uint32_t st[16];
	if (IVLEN == 8)
		vf_chacha_state_init(st, keyb.b, VF_CC_KEY_BYTES(KS), vf_cc_le64_opt(counter), iv != NULL ? iv : zero24);
	else
		vf_xchacha_state_init(st, keyb.b, VF_CC_KEY_BYTES(KS), vf_cc_le64_opt(counter), iv != NULL ? iv : zero24,
		    (unsigned)rounds);
	FN(keyb.b, KS, counter, iv, rounds, src, BYTES, dst);
	vf_chacha_stream_xor(st, (unsigned)rounds, (MODE == 1) ? NULL : srcdata.b, BYTES, ref);
	VF_NATIVE_POST(memcmp(dst, ref, BYTES) == 0, "dst == src ^ reference key stream");
#endif
	VF_CANARY("chacha_oneshot harness end");
}
