/* C08: gost28147_blocks_encrypt / decrypt / encrypt_be / decrypt_be / mac / mac_be: ECB over
 * NB blocks equals the block cipher of RFC 5830 / RFC 8891 applied block by block, for both
 * byte conventions, through the word-wise (4-aligned) and the byte-wise path.
 * gost28147_block_encrypt / _decrypt / gost28147_mac_block are replaced by their contracts
 * (proved by the gost.block.* jobs), the block cycles being uninterpreted functions on both
 * sides here (-DVF_G_ABSTRACT_BLOCK, contracts/gost28147.h).
 *   -DFN=<function> -DVF_MAC for the two MAC functions
 *   -DNB=<blocks> -DSO / -DDO alignment residues of src / dst -DMODE 0 separate | 2 in place
 * Buffers are exactly offset + 8 * NB bytes. */
#define VF_G_ABSTRACT_BLOCK
#include "contracts/gost28147.h"

#ifndef NB
#define NB 2
#endif
#ifndef SO
#define SO 0
#endif
#ifndef DO
#define DO 0
#endif
#ifndef MODE
#define MODE 0
#endif
#define LEN	(GOST28147_BLK_SIZE * NB)

void harness(void) {
	VF_NONDET_BYTES(srcdata, LEN + 1);
	VF_NONDET_BYTES(sboxb, 128);
	VF_NONDET_OBJ(gost28147_context_t, ctxv);
	static uint8_t sb[SO + LEN + (NB == 0)] __attribute__((aligned(8)));
	static uint8_t db[DO + LEN + (NB == 0)] __attribute__((aligned(8)));
	const uint8_t *sbox = sboxb.b;
	uint8_t *src, *dst;
	unsigned i;

#ifdef VF_REPLAY
	VF_ASSUME(vf_g_sbox_wf(sbox));	/* native oracle runs the real cipher: 4-bit S-box entries */
#endif
	for (i = 0; i < LEN; i ++)
		sb[SO + i] = srcdata.b[i];
	src = sb + SO;
	dst = (MODE == 2) ? src : db + DO;
#ifdef GOST28147_USE_SMALL_TABLES
	ctxv.sbox = sbox;
#endif
#ifndef VF_REPLAY
	vf_g_sbox = sbox;
#else
	{	/* native: a real context for this S-box, keeping the symbolic key words / accumulator */
		unsigned j;
		(void)j;
#ifndef GOST28147_USE_SMALL_TABLES
		for (j = 0; j < 4; j ++)
			for (i = 0; i < 256; i ++)
				ctxv.sboxx[j][i] = vf_gost_table_entry(sbox, j, i);
#endif
	}
	uint32_t m1 = ctxv.mac[0], m2 = ctxv.mac[1];
	(void)m1; (void)m2;
#endif
#ifdef VF_MAC
	(void)dst;
	FN(&ctxv, src, NB);
	VF_NATIVE_POST(vf_g_macs_ok(ctxv.key, sbox, VF_BE, m1, m2, srcdata.b, NB, ctxv.mac[0], ctxv.mac[1]), "MAC accumulator");
#else
	FN(&ctxv, src, NB, dst);
#ifdef VF_REPLAY
	for (i = 0; i < NB; i ++) {
		const uint8_t *p = srcdata.b + 8 * i;
		VF_NATIVE_POST(vf_g_block8_ok(ctxv.key, sbox, VF_DECRYPT, VF_BE, p[0], p[1], p[2], p[3], p[4], p[5], p[6], p[7],
		    dst + 8 * i), "output block == cipher(input block)");
	}
#endif
#endif
	VF_CANARY("gost_blocks harness end");
}
