/* C08: gost28147_block_decrypt(gost28147_block_encrypt(x)) == x and
 * gost28147_block_encrypt(gost28147_block_decrypt(x)) == x for every key and every block,
 * proved STRUCTURALLY: the round function gost28147_block32 is replaced by an uninterpreted
 * function of its argument (contracts/gost28147.h -DVF_G_ABSTRACT_ROUND), so the identity
 * holds for every S-box / table content and in both builds - Feistel inversion only needs
 * the key order of the decryption cycle to be the reverse of the encryption cycle. */
#define VF_G_ABSTRACT_ROUND
#include "contracts/gost28147.h"

void harness(void) {
	VF_NONDET_OBJ(gost28147_context_t, ctxv);
	VF_NONDET(uint32_t, n1);
	VF_NONDET(uint32_t, n2);
	uint32_t a1 = 0, a2 = 0, b1 = 0, b2 = 0;

#ifdef VF_REPLAY
	/* native: any real context (tables of the test-parameter S-box), symbolic key kept */
	{
		uint32_t k[8];
		uint8_t zero[32] = { 0 };
		memcpy(k, ctxv.key, sizeof(k));
		gost28147_init(zero, 32, id_gostr3411_94_testparamset_sbox, &ctxv);
		memcpy(ctxv.key, k, sizeof(k));
	}
#endif
#ifndef VF_DEC_FIRST
	gost28147_block_encrypt(&ctxv, n1, n2, &a1, &a2);
	gost28147_block_decrypt(&ctxv, a1, a2, &b1, &b2);
	VF_ASSERT(b1 == n1 && b2 == n2, "decrypt(encrypt(x)) == x");
#else
	gost28147_block_decrypt(&ctxv, n1, n2, &a1, &a2);
	gost28147_block_encrypt(&ctxv, a1, a2, &b1, &b2);
	VF_ASSERT(b1 == n1 && b2 == n2, "encrypt(decrypt(x)) == x");
#endif
	VF_CANARY("gost_feistel harness end");
}
