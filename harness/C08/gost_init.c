/* C08: gost28147_init / gost28147_init_be ("mode":"plain", see contracts/gost28147.h):
 * return code, key words, S-box expansion (all 4 x 256 entries == S-box composition +
 * rotate-11, symbolic S-box) / S-box pointer in the small-table build, MAC accumulator zero;
 * the inputs are not written, the context is not written when the call is rejected.
 *   -DFN=gost28147_init -DBE=0 | -DFN=gost28147_init_be -DBE=1     [-DGOST28147_USE_SMALL_TABLES]
 *   -DNULLS=<bit mask: 1 key, 2 sbox, 4 ctx are NULL>   -DREJECT: key_size is any value other
 *   than 32 / 256 (otherwise 32 or 256, symbolic)
 * Frame beyond that: every write is bounds-checked into ctx (--pointer-check); there is no
 * write-set instrumentation here. */
#include "contracts/gost28147.h"

#ifndef NULLS
#define NULLS 0
#endif

void harness(void) {
	VF_NONDET_BYTES(keyb, GOST28147_KEY_SIZE);
	VF_NONDET_BYTES(sboxb, 128);
	VF_NONDET_OBJ(gost28147_context_t, ctxv);	/* arbitrary previous content */
	VF_NONDET(size_t, key_size);
	VF_NONDET(size_t, gi);				/* ghost index */
	struct vf_bytes_keyb key0 = keyb;
	struct vf_bytes_sboxb sbox0 = sboxb;
	const uint8_t *key = (NULLS & 1) ? NULL : keyb.b;
	const uint8_t *sbox = (NULLS & 2) ? NULL : sboxb.b;
	gost28147_context_p ctx = (NULLS & 4) ? NULL : &ctxv;
	int r;

#ifdef REJECT
	VF_ASSUME(key_size != 256 && key_size != GOST28147_KEY_SIZE);
#else
	VF_ASSUME(key_size == 256 || key_size == GOST28147_KEY_SIZE);
#endif
#if defined(REJECT) || NULLS != 0
	VF_ASSUME(gi < sizeof(ctxv) / sizeof(uint32_t));
	uint32_t before = ((const uint32_t *)&ctxv)[gi];
	r = FN(key, key_size, sbox, ctx);
	VF_ASSERT(r == EINVAL, "invalid arguments are rejected");
	VF_ASSERT(((const uint32_t *)&ctxv)[gi] == before, "rejected call leaves the context alone");
#else
	r = FN(key, key_size, sbox, ctx);
#endif
	VF_ASSERT(vf_g_init_post(r, key, key_size, sbox, ctx, BE), "gost28147_init postcondition");
	VF_ASSERT(keyb.b[gi % GOST28147_KEY_SIZE] == key0.b[gi % GOST28147_KEY_SIZE] &&
	    sboxb.b[gi % 128] == sbox0.b[gi % 128], "inputs not written");
	VF_CANARY("gost_init harness end");
}
