/* C08: chacha_blocks_transform with the three block functions replaced by their contract
 * (history log, contracts/chacha.h -DVF_CC_GHOST_LOG).
 *   -DNB=<blocks_count>  -DSO / -DDO src / dst alignment residues  -DMODE 0 separate | 1 src NULL | 2 in place
 * Buffers are exactly offset + 64 * NB bytes.  The alignment preconditions of the replaced
 * block functions are asserted at the three call sites: that is the proof that the dispatch
 * never hands a misaligned pointer to the word-wise paths. */
#define VF_CC_GHOST_LOG
#define VF_CC_PART_B
#include "contracts/chacha.h"

#ifndef NB
#define NB 2
#endif
#ifndef SO
#define SO 0
#endif
#ifndef DO
#define DO 0
#endif
#ifndef MODE
#define MODE 0
#endif
#define LEN	(CHACHA_BLOCK_LEN * NB)

void harness(void) {
	VF_NONDET_BYTES(srcdata, LEN + 1);
	static uint8_t sb[SO + LEN + (NB == 0)] __attribute__((aligned(8)));
	static uint8_t db[DO + LEN + (NB == 0)] __attribute__((aligned(8)));
	uint8_t *src, *dst;
	unsigned i;

	for (i = 0; i < LEN; i ++)
		sb[SO + i] = srcdata.b[i];
	src = (MODE == 1) ? NULL : sb + SO;
	dst = (MODE == 2) ? src : db + DO;
	VF_NONDET_OBJ(chacha_context_t, ctxv);
	chacha_context_p ctx = &ctxv;
#ifndef VF_REPLAY
	vf_cc_n = 0;
	chacha_blocks_transform(ctx, src, NB, dst);
#else
	VF_ASSUME(VF_CC_ROUNDS_OK(ctx->rounds));
	static uint8_t ref[LEN + 1];
	uint32_t st0[16];
	memcpy(st0, ctx->state, sizeof(st0));
	chacha_blocks_transform(ctx, src, NB, dst);
	vf_chacha_stream_xor(st0, (unsigned)ctx->rounds, (MODE == 1) ? NULL : srcdata.b, LEN, ref);
	VF_NATIVE_POST(memcmp(dst, ref, LEN) == 0, "dst == src ^ RFC key stream");
	VF_NATIVE_POST(vf_chacha_counter(ctx->state) == vf_chacha_counter(st0) + NB, "64-bit counter + NB");
#endif
	VF_CANARY("chacha_blocks harness end");
}
