/* C08: gost28147_final / gost28147_final_be: the MAC bytes (N1 then N2, little- resp.
 * big-endian words, truncated to mac_size or zero-padded beyond 8 bytes) and the context
 * wiped.   -DFN=<function> -DMS=<mac_size> [-DMAC_NULL]   [-DGOST28147_USE_SMALL_TABLES]
 * mac_size is concrete per job (memcpy / memset lengths concrete: CBMC's builtin models are
 * only trusted for concrete lengths here, see stubs/cipher_libc.h). */
#include "contracts/gost28147.h"

#ifndef MS
#define MS 8
#endif

void harness(void) {
	VF_NONDET_OBJ(gost28147_context_t, ctxv);
	static uint8_t macb[MS + (MS == 0)];
#ifdef MAC_NULL
	uint8_t *mac = NULL;
#else
	uint8_t *mac = macb;
#endif
#ifndef VF_REPLAY
	/* --dfcc havocs mutable statics: re-establish the initialiser of the (volatile) memset
	 * pointer behind gost28147_bzero(); no contract lists it as assignable */
	gost28147_memset_volatile = memset;
#else
	uint32_t m0 = ctxv.mac[0], m1 = ctxv.mac[1];
	unsigned i;
#endif
	FN(&ctxv, mac, MS);
#ifdef VF_REPLAY
	for (i = 0; mac != NULL && i < MS; i ++) {
		uint32_t w = (i < 4) ? m0 : m1;
		uint8_t e = (i >= 8) ? 0 : (VF_BE ? vf_g_be_byte(w, i & 3) : vf_g_le_byte(w, i & 3));
		VF_NATIVE_POST(mac[i] == e, "MAC byte");
	}
	for (i = 0; i < sizeof(ctxv); i ++)
		VF_NATIVE_POST(((const uint8_t *)&ctxv)[i] == 0, "context wiped");
#endif
	VF_CANARY("gost_final harness end");
}
