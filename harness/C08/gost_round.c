/* C08: gost28147_block32 (the round function without the key addition) ==
 * ROTL11(t(sbox, x)) of RFC 8891 4.2 for all 2^32 inputs, in both builds
 * (expanded tables / -DGOST28147_USE_SMALL_TABLES): hence the two builds agree.
 *   -DSBOX=<one of the built-in tables>   or, without it, a symbolic S-box (every entry < 16).
 * The context is constructed to satisfy the contract's precondition "ctx carries sbox"
 * exactly as gost28147_init's postcondition states it (spec table entries / pointer). */
#include "contracts/gost28147.h"

void harness(void) {
	VF_NONDET_BYTES(sboxb, 128);
	VF_NONDET_OBJ(gost28147_context_t, ctxv);
	VF_NONDET(uint32_t, x);
#ifdef SBOX
	const uint8_t *sbox = SBOX;
#else
	const uint8_t *sbox = sboxb.b;
#endif
	unsigned i, j;
	uint32_t r;

	VF_ASSUME(vf_g_sbox_wf(sbox));	/* type invariant of an S-box table: 4-bit entries */
#ifndef GOST28147_USE_SMALL_TABLES
	for (j = 0; j < 4; j ++)
		for (i = 0; i < 256; i ++)
			ctxv.sboxx[j][i] = vf_gost_table_entry(sbox, j, i);
#else
	(void)i; (void)j;
	ctxv.sbox = sbox;
#endif
#ifndef VF_REPLAY
	vf_g_sbox = sbox;
#endif
	r = gost28147_block32(&ctxv, x);
	VF_NATIVE_POST(r == VF_GOST_ROTL(vf_gost_t(sbox, x), 11), "block32 == ROTL11(t(x))");
	VF_CANARY("gost_round harness end");
}
