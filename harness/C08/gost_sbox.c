/* C08: each built-in S-box table of include/crypto/cipher/gost28147.h equals the PUBLISHED
 * parameter set (independent copy in specs/gost28147_spec.h: RFC 4357 11.2 / RFC 7836, derived
 * from libgcrypt's tables and cross-checked natively, see there), all 128 entries.
 * Without this pin the other GOST jobs only relate the code to the spec instantiated with
 * the library's own arrays: a wrong-but-bijective table would pass them.   ("mode":"plain")
 *   -DLIB=<library array> -DPUB=<spec array> */
#include "contracts/gost28147.h"

void harness(void) {
	VF_NONDET(size_t, gi);	/* ghost index: recorded in the trace when an entry differs */
	unsigned i;

	VF_ASSERT(sizeof(LIB) == 128 && sizeof(PUB) == 128, "table size");
	for (i = 0; i < 128; i ++)
		VF_ASSERT(LIB[i] == PUB[i], "built-in S-box entry == published parameter set");
	VF_ASSUME(gi < 128);
	VF_ASSERT(LIB[gi] == PUB[gi] && PUB[gi] < 16, "built-in S-box entry == published 4-bit value");
	VF_CANARY("gost_sbox harness end");
}
