/* C08: chacha_block_aligned8 / aligned4 / unaligneg against the RFC 7539 block function.
 *   -DFN=<block function>  -DSO=<src offset>  -DDO=<dst offset>   (alignment residues mod 8)
 *   -DMODE=0 separate src and dst | 1 src == NULL (key stream) | 2 in place (dst == src, DO ignored)
 *   -DVF_CC_PART_W / -DVF_CC_PART_B   conjunct group of the contract (contracts/chacha.h)
 *   -DVF_CC_ROUNDS=<n>                case of the round count
 * src / dst point SO / DO bytes into 8-aligned objects of exactly offset + 64 bytes, so
 * one byte too far on either side of either buffer is a failed bounds obligation. */
#include "contracts/chacha.h"

#ifndef SO
#define SO 0
#endif
#ifndef DO
#define DO 0
#endif
#ifndef MODE
#define MODE 0
#endif

void harness(void) {
	VF_NONDET_BYTES(srcdata, CHACHA_BLOCK_LEN);
	static uint8_t sb[SO + CHACHA_BLOCK_LEN] __attribute__((aligned(8)));
	static uint8_t db[DO + CHACHA_BLOCK_LEN] __attribute__((aligned(8)));
	uint8_t *src, *dst;
	unsigned i;

	for (i = 0; i < CHACHA_BLOCK_LEN; i ++)
		sb[SO + i] = srcdata.b[i];
	src = (MODE == 1) ? NULL : sb + SO;
	dst = (MODE == 2) ? src : db + DO;
	VF_NONDET_OBJ(chacha_context_t, ctxv);
	chacha_context_p ctx = &ctxv;
#ifndef VF_REPLAY
	FN(ctx, src, dst);
#else
	VF_ASSUME(VF_CC_ROUNDS_OK(ctx->rounds));
	uint32_t st0[16], ks[16];
	memcpy(st0, ctx->state, sizeof(st0));
	FN(ctx, src, dst);
	vf_chacha_block_words(st0, (unsigned)ctx->rounds, ks);
	for (i = 0; i < CHACHA_BLOCK_LEN; i ++)
		VF_NATIVE_POST(dst[i] == (uint8_t)((src != NULL ? srcdata.b[i] : 0) ^ VF_CC_SER(ks, i)),
		    "dst == src ^ RFC key stream");
	VF_NATIVE_POST(vf_chacha_counter(ctx->state) == vf_chacha_counter(st0) + 1, "64-bit counter + 1");
#endif
	VF_CANARY("chacha_block harness end");
}
