/* C08: chacha_str_data_crypt, one call as an inductive step of the stream interface
 * (contract and invariant: contracts/chacha.h), block functions replaced by their contract
 * with the history log.
 *   -DBYTES=<n>   length of this call (exact-size buffers: one byte too far fails)
 *   -DKL=<n>      ks_len at entry (0..63): unused tail of the previous key-stream block
 *   -DSO / -DDO   alignment residues of src / dst, -DMODE 0 separate | 1 src NULL | 2 in place
 * Symbolic: the whole context (state, saved key stream), the log origin (vf_cc_n in 0..1)
 * and the previous log entry, the data.  BYTES and KL are concrete per job: with symbolic
 * lengths the byte loops of memcpy / the xor loop do not close (measured: > 20 min). */
#include "stubs/cipher_libc.h"	/* byte-loop memcpy / memset: the builtin model is wrong here, see the file */
#define VF_CC_GHOST_LOG
#define VF_CC_PART_B
#include "contracts/chacha.h"

#ifndef BYTES
#define BYTES 100
#endif
#ifndef KL
#define KL 0
#endif
#ifndef SO
#define SO 0
#endif
#ifndef DO
#define DO 0
#endif
#ifndef MODE
#define MODE 0
#endif

void harness(void) {
	VF_NONDET_BYTES(srcdata, BYTES + 1);
	VF_NONDET_OBJ(chacha_context_str_t, sctxv);
	VF_NONDET(uint8_t, n0);
	static uint8_t sb[SO + BYTES + (BYTES == 0)] __attribute__((aligned(8)));
	static uint8_t db[DO + BYTES + (BYTES == 0)] __attribute__((aligned(8)));
	chacha_context_str_p ctx = &sctxv;
	uint8_t *src, *dst;

	sctxv.ks_len = KL;
	unsigned i;

	for (i = 0; i < BYTES; i ++)
		sb[SO + i] = srcdata.b[i];
	src = (MODE == 1) ? NULL : sb + SO;
	dst = (MODE == 2) ? src : db + DO;
#ifndef VF_REPLAY
	VF_ASSUME(n0 <= 1);
	vf_cc_n = n0;	/* log origin; vf_cc_log[0] keeps its arbitrary initial value */
	chacha_str_data_crypt(ctx, src, BYTES, dst);
#else
	/* native oracle: the saved key stream must be consistent with the state for a
	 * reference to exist: rebuild it from the previous block when ks_len != 0 */
	(void)n0;
	VF_ASSUME(VF_CC_ROUNDS_OK(ctx->c.rounds) && ctx->ks_len < CHACHA_BLOCK_LEN);
	static uint8_t ref[BYTES + 1];
	uint32_t st0[16], prev[16], ks[16];
	size_t k, ksl = ctx->ks_len;
	memcpy(st0, ctx->c.state, sizeof(st0));
	vf_chacha_state_at(st0, (uint64_t)-1, prev);
	vf_chacha_block_words(prev, (unsigned)ctx->c.rounds, ks);
	for (k = 0; k < 64; k ++)
		((uint8_t *)ctx->ks)[k] = VF_CC_SER(ks, k);
	chacha_str_data_crypt(ctx, src, BYTES, dst);
	for (k = 0; k < BYTES && k < ksl; k ++)
		ref[k] = (uint8_t)(((MODE == 1) ? 0 : srcdata.b[k]) ^ VF_CC_SER(ks, 64 - ksl + k));
	if (BYTES > ksl)
		vf_chacha_stream_xor(st0, (unsigned)ctx->c.rounds, (MODE == 1) ? NULL : srcdata.b + ksl,
		    BYTES - ksl, ref + ksl);
	VF_NATIVE_POST(memcmp(dst, ref, BYTES) == 0, "dst == src ^ RFC key stream continued");
#endif
	VF_CANARY("chacha_stream harness end");
}
