/*
 * C08: native self-test of the SPECIFICATION functions (specs/chacha_spec.h,
 * specs/gost28147_spec.h) against published vectors, so that a typo in a spec shows up
 * here and not as a false alarm (DESIGN.md section 8 item 4).  Not a proof job.
 *
 *   gcc -O1 -Wall -I/verif -I/repo/include -o /tmp/c08_spec_selftest \
 *       /verif/harness/C08/spec_selftest.c && /tmp/c08_spec_selftest
 *   (exit 0 and "spec self-test: 0 failures" expected)
 *
 * With -DVF_SELFTEST_DIFF the same program additionally runs the LIBRARY
 * (include/crypto/cipher/chacha.h; gost28147.h in a second translation unit is not
 * possible because both headers define U8TO32_LITTLE, so GOST is selected with
 * -DVF_SELFTEST_GOST instead of ChaCha) against the specs on pseudo-random inputs,
 * alignments and stream splits.  That part is supporting evidence only.
 *
 * With -DVF_SELFTEST_GCRYPT (link -lgcrypt) the six published GOST S-box tables of
 * specs/gost28147_spec.h are additionally compared live with the installed libgcrypt
 * (2000 random blocks per parameter set); without it the embedded libgcrypt-generated
 * vectors are used.
 *
 * Vectors:
 *   RFC 7539 2.1.1 (quarter round), 2.3.2 (block function), 2.4.2 (encryption);
 *   draft-irtf-cfrg-xchacha-03 2.2.1 (HChaCha20);
 *   draft-strombergson-chacha-test-vectors-01 TC1/TC8 (8/12/20 rounds, 128/256-bit keys;
 *   the same vectors the library's own chacha_self_test carries);
 *   RFC 8891 A.1 - A.3 (GOST R 34.12-2015 "Magma" = GOST 28147-89 with the tc26 Z S-box:
 *   t, g, key schedule, encryption of fedcba9876543210);
 *   the cryptomanager / Crypto++ / BouncyCastle vectors of gost28147_self_test
 *   (test-parameter S-box, CryptoPro-A MAC).
 */
#include <stdio.h>
#include <string.h>
#include <stdint.h>
#include <stdlib.h>

#include "specs/chacha_spec.h"
/* entry coverage of the S-box tables: the substitution step is routed through a wrapper with
 * the same body as the spec's default (ROTL11(t(sbox, x))) that also records which of the
 * 8 x 16 entries a test vector actually exercised */
static uint32_t vf_st_round_t(const uint8_t *sbox, uint32_t x);
#define VF_GOST_ROUND_T(sbox, x)	vf_st_round_t((sbox), (x))
#include "specs/gost28147_spec.h"
static unsigned char vf_st_cov[128];
static uint32_t
vf_st_round_t(const uint8_t *sbox, uint32_t x) {
	unsigned i;
	for (i = 0; i < 8; i ++)
		vf_st_cov[16 * i + ((x >> (4 * i)) & 15)] = 1;
	return (VF_GOST_ROTL(vf_gost_t(sbox, x), 11));
}
static unsigned
vf_st_cov_count(int reset) {
	unsigned i, n = 0;
	for (i = 0; i < 128; i ++) {
		n += vf_st_cov[i];
		if (reset)
			vf_st_cov[i] = 0;
	}
	return (n);
}
#ifdef VF_SELFTEST_GCRYPT
#include <gcrypt.h>
#endif

static int failures;

static void
check(int ok, const char *what) {
	if (!ok) {
		failures ++;
		printf("FAIL: %s\n", what);
	}
}

static size_t
unhex(const char *hex, uint8_t *out) {
	size_t n = 0;
	unsigned v;
	while (hex[0] != 0 && hex[1] != 0) {
		if (hex[0] == ' ' || hex[0] == ':') {
			hex ++;
			continue;
		}
		sscanf(hex, "%2x", &v);
		out[n ++] = (uint8_t)v;
		hex += 2;
	}
	return (n);
}

/* ------------------------------------------------------------------ ChaCha ---- */
static void
chacha_spec_vectors(void) {
	uint8_t key[32], nonce8[8], buf[512], exp[512], in[512];
	uint32_t st[16], out[16];
	size_t i, n;

	/* RFC 7539 2.1.1 */
	{
		uint32_t s[16] = { 0 };
		s[0] = 0x11111111; s[1] = 0x01020304; s[2] = 0x9b8d6f43; s[3] = 0x01234567;
		vf_chacha_quarter_round(s, 0, 1, 2, 3);
		check(s[0] == 0xea2a92f4 && s[1] == 0xcb1cf8ce && s[2] == 0x4581472e && s[3] == 0x5881c4bb,
		    "RFC 7539 2.1.1 quarter round");
	}
	/* RFC 7539 2.3.2: key 00..1f, nonce 00 00 00 09 00 00 00 4a 00 00 00 00, block counter 1.
	 * 64-bit counter layout: word 12 = 1, word 13 = first nonce word (0x09000000),
	 * words 14, 15 = the remaining 8 nonce bytes. */
	for (i = 0; i < 32; i ++)
		key[i] = (uint8_t)i;
	unhex("0000004a00000000", nonce8);
	vf_chacha_state_init(st, key, 32, 1ull | ((uint64_t)0x09000000u << 32), nonce8);
	check(st[0] == 0x61707865 && st[1] == 0x3320646e && st[2] == 0x79622d32 && st[3] == 0x6b206574 &&
	    st[4] == 0x03020100 && st[11] == 0x1f1e1d1c && st[12] == 1 && st[13] == 0x09000000 &&
	    st[14] == 0x4a000000 && st[15] == 0, "RFC 7539 2.3.2 initial state");
	vf_chacha_block_words(st, 20, out);
	{
		static const uint32_t e[16] = {
			0xe4e7f110, 0x15593bd1, 0x1fdd0f50, 0xc47120a3,
			0xc7f4d1c7, 0x0368c033, 0x9aaa2204, 0x4e6cd4c3,
			0x466482d2, 0x09aa9f07, 0x05d7c214, 0xa2028bd9,
			0xd19c12b5, 0xb94e16de, 0xe883d0cb, 0x4e3c50a2 };
		check(memcmp(out, e, sizeof(e)) == 0, "RFC 7539 2.3.2 block function words");
		n = unhex("10f1e7e4d13b5915500fdd1fa32071c4c7d1f4c733c068030422aa9ac3d46c4e"
		    "d2826446079faa0914c2d705d98b02a2b5129cd1de164eb9cbd083e8a2503c4e", exp);
		for (i = 0; i < 64; i ++)
			buf[i] = vf_chacha_ser_byte(out, (unsigned)i);
		check(n == 64 && memcmp(buf, exp, 64) == 0, "RFC 7539 2.3.2 serialised block");
	}
	/* RFC 7539 2.4.2: nonce 00 00 00 00 00 00 00 4a 00 00 00 00, initial counter 1 */
	{
		const char *pt = "Ladies and Gentlemen of the class of '99: If I could offer you "
		    "only one tip for the future, sunscreen would be it.";
		unhex("0000004a00000000", nonce8);
		vf_chacha_state_init(st, key, 32, 1, nonce8);
		n = strlen(pt);
		vf_chacha_stream_xor(st, 20, (const uint8_t *)pt, n, buf);
		unhex("6e2e359a2568f98041ba0728dd0d6981e97e7aec1d4360c20a27afccfd9fae0b"
		    "f91b65c5524733ab8f593dabcd62b3571639d624e65152ab8f530c359f0861d8"
		    "07ca0dbf500d6a6156a38e088a22b65e52bc514d16ccf806818ce91ab7793736"
		    "5af90bbf74a35be6b40b8eedf2785e42874d", exp);
		check(n == 114 && memcmp(buf, exp, n) == 0, "RFC 7539 2.4.2 encryption");
	}
	/* draft-irtf-cfrg-xchacha 2.2.1: HChaCha20 */
	{
		uint8_t n16[16], sub[32];
		unhex("000000090000004a0000000031415927", n16);
		vf_hchacha(key, 32, n16, 20, sub);
		unhex("82413b4227b27bfed30e42508a877d73a0f9e4d58a74a853c12ec41326d3ecdc", exp);
		check(memcmp(sub, exp, 32) == 0, "draft-irtf-cfrg-xchacha 2.2.1 HChaCha20");
	}
	/* draft-strombergson TC1 (all-zero key/iv) and TC8 (random key/iv): first 64 bytes */
	{
		static const struct { unsigned rounds, kb; const char *key, *iv, *ks; } tv[] = {
		    { 8, 16, "00000000000000000000000000000000", "0000000000000000",
		      "e28a5fa4a67f8c5defed3e6fb7303486aa8427d31419a729572d777953491120b64ab8e72b8deb85cd6aea7cb6089a101824beeb08814a428aab1fa2c816081b" },
		    { 12, 16, "00000000000000000000000000000000", "0000000000000000",
		      "e1047ba9476bf8ff312c01b4345a7d8ca5792b0ad467313f1dc412b5fdce32410dea8b68bd774c36a920f092a04d3f95274fbeff97bc8491fcef37f85970b450" },
		    { 20, 16, "00000000000000000000000000000000", "0000000000000000",
		      "89670952608364fd00b2f90936f031c8e756e15dba04b8493d00429259b20f46cc04f111246b6c2ce066be3bfb32d9aa0fddfbc12123d4b9e44f34dca05a103f" },
		    { 8, 32, "0000000000000000000000000000000000000000000000000000000000000000", "0000000000000000",
		      "3e00ef2f895f40d67f5bb8e81f09a5a12c840ec3ce9a7f3b181be188ef711a1e984ce172b9216f419f445367456d5619314a42a3da86b001387bfdb80e0cfe42" },
		    { 12, 32, "0000000000000000000000000000000000000000000000000000000000000000", "0000000000000000",
		      "9bf49a6a0755f953811fce125f2683d50429c3bb49e074147e0089a52eae155f0564f879d27ae3c02ce82834acfa8c793a629f2ca0de6919610be82f411326be" },
		    { 20, 32, "0000000000000000000000000000000000000000000000000000000000000000", "0000000000000000",
		      "76b8e0ada0f13d90405d6ae55386bd28bdd219b8a08ded1aa836efcc8b770dc7da41597c5157488d7724e03fb8d84a376a43b8f41518a11cc387b669b2ee6586" },
		    { 8, 16, "c46ec1b18ce8a878725a37e780dfb735", "1ada31d5cf688221",
		      "6a870108859f679118f3e205e2a56a6826ef5a60a4102ac8d4770059fcb7c7bae02f5ce004a6bfbbea53014dd82107c0aa1c7ce11b7d78f2d50bd3602bbd2594" },
		    { 12, 16, "c46ec1b18ce8a878725a37e780dfb735", "1ada31d5cf688221",
		      "b02bd81eb55c8f68b5e9ca4e307079bc225bd22007eddc6702801820709ce09807046a0d2aa552bfdbb49466176d56e32d519e10f5ad5f2746e241e09bdf9959" },
		    { 20, 16, "c46ec1b18ce8a878725a37e780dfb735", "1ada31d5cf688221",
		      "826abdd84460e2e9349f0ef4af5b179b426e4b2d109a9c5bb44000ae51bea90a496beeef62a76850ff3f0402c4ddc99f6db07f151c1c0dfac2e56565d6289625" },
		    { 8, 32, "c46ec1b18ce8a878725a37e780dfb7351f68ed2e194c79fbc6aebee1a667975d", "1ada31d5cf688221",
		      "838751b42d8ddd8a3d77f48825a2ba752cf4047cb308a5978ef274973be374c96ad848065871417b08f034e681fe46a93f7d5c61d1306614d4aaf257a7cff08b" },
		    { 12, 32, "c46ec1b18ce8a878725a37e780dfb7351f68ed2e194c79fbc6aebee1a667975d", "1ada31d5cf688221",
		      "1482072784bc6d06b4e73bdc118bc0103c7976786ca918e06986aa251f7e9cc1b2749a0a16ee83b4242d2e99b08d7c20092b80bc466c87283b61b1b39d0ffbab" },
		    { 20, 32, "c46ec1b18ce8a878725a37e780dfb7351f68ed2e194c79fbc6aebee1a667975d", "1ada31d5cf688221",
		      "f63a89b75c2271f9368816542ba52f06ed49241792302b00b5e8f80ae9a473afc25b218f519af0fdd406362e8d69de7f54c604a6e00f353f110f771bdca8ab92" },
		};
		for (i = 0; i < sizeof(tv) / sizeof(tv[0]); i ++) {
			char msg[96];
			unhex(tv[i].key, key);
			unhex(tv[i].iv, nonce8);
			unhex(tv[i].ks, exp);
			vf_chacha_state_init(st, key, tv[i].kb, 0, nonce8);
			vf_chacha_stream_xor(st, tv[i].rounds, NULL, 64, buf);
			snprintf(msg, sizeof(msg), "strombergson vector %zu (rounds %u, key %u bytes)",
			    i, tv[i].rounds, tv[i].kb);
			check(memcmp(buf, exp, 64) == 0, msg);
		}
	}
	/* counter carry: block after 0x00000000ffffffff uses word 12 = 0, word 13 = 1 */
	{
		uint32_t a[16], b[16];
		for (i = 0; i < 32; i ++)
			key[i] = (uint8_t)(3 * i + 1);
		memset(nonce8, 0x5a, 8);
		vf_chacha_state_init(st, key, 32, 0xffffffffull, nonce8);
		vf_chacha_state_at(st, 1, a);
		check(a[12] == 0 && a[13] == 1, "64-bit counter carry into word 13");
		vf_chacha_state_init(st, key, 32, 0xffffffffffffffffull, nonce8);
		vf_chacha_state_at(st, 1, b);
		check(b[12] == 0 && b[13] == 0, "64-bit counter wraps at 2^64");
		memset(in, 0xa5, sizeof(in));
		vf_chacha_state_init(st, key, 32, 0xffffffffull, nonce8);
		vf_chacha_stream_xor(st, 20, in, 128, buf);
		vf_chacha_block_words(a, 20, out);
		check(buf[64] == (uint8_t)(0xa5 ^ vf_chacha_ser_byte(out, 0)), "stream uses carried counter");
	}
}

/* -------------------------------------------------------------------- GOST ---- */
static void
gost_spec_vectors(void) {
	/* RFC 8891 section 4.1: the eight 4-bit substitutions pi0 .. pi7 (= id-tc26-gost-28147-param-Z) */
	static const uint8_t z[128] = {
		12, 4, 6, 2, 10, 5, 11, 9, 14, 8, 13, 7, 0, 3, 15, 1,
		6, 8, 2, 3, 9, 10, 5, 12, 1, 14, 4, 7, 11, 13, 0, 15,
		11, 3, 5, 8, 2, 15, 10, 13, 14, 1, 7, 4, 12, 9, 6, 0,
		12, 8, 2, 1, 13, 4, 15, 6, 7, 0, 10, 5, 3, 14, 9, 11,
		7, 15, 5, 10, 8, 1, 6, 13, 0, 9, 3, 14, 11, 4, 2, 12,
		5, 13, 15, 6, 9, 2, 12, 10, 11, 7, 8, 1, 4, 3, 14, 0,
		8, 14, 2, 5, 6, 9, 1, 12, 15, 4, 11, 0, 13, 10, 3, 7,
		1, 7, 14, 13, 0, 5, 8, 3, 4, 15, 10, 6, 9, 12, 11, 2 };
	/* the published tables of specs/gost28147_spec.h (derived from libgcrypt, see there) */
#define tps vf_gost_sbox_r3411_94_test
	uint32_t k[8], o1, o2;
	uint8_t key[32], in[64], out[64], exp[64];
	size_t i;

	/* tc26 Z: the table written above from RFC 8891 4.1 equals the spec's (libgcrypt-derived) table */
	check(memcmp(z, vf_gost_sbox_tc26_z, 128) == 0, "tc26 Z table: RFC 8891 4.1 transcription == spec table");

	/* RFC 8891 A.1: t */
	check(vf_gost_t(z, 0xfdb97531) == 0x2a196f34, "RFC 8891 A.1 t(fdb97531)");
	check(vf_gost_t(z, 0x2a196f34) == 0xebd9f03a, "RFC 8891 A.1 t(2a196f34)");
	check(vf_gost_t(z, 0xebd9f03a) == 0xb039bb3d, "RFC 8891 A.1 t(ebd9f03a)");
	check(vf_gost_t(z, 0xb039bb3d) == 0x68695433, "RFC 8891 A.1 t(b039bb3d)");
	/* RFC 8891 A.2: g[k](a) */
	check(vf_gost_g(z, 0x87654321, 0xfedcba98) == 0xfdcbc20c, "RFC 8891 A.2 g[87654321](fedcba98)");
	check(vf_gost_g(z, 0xfdcbc20c, 0x87654321) == 0x7e791a4b, "RFC 8891 A.2 g[fdcbc20c](87654321)");
	check(vf_gost_g(z, 0x7e791a4b, 0xfdcbc20c) == 0xc76549ec, "RFC 8891 A.2 g[7e791a4b](fdcbc20c)");
	check(vf_gost_g(z, 0xc76549ec, 0x7e791a4b) == 0x9791c849, "RFC 8891 A.2 g[c76549ec](7e791a4b)");
	/* RFC 8891 A.3: K = ffeeddcc bbaa9988 77665544 33221100 f0f1f2f3 f4f5f6f7 f8f9fafb fcfdfeff,
	 * a = fedcba98 76543210 (a1 | a0), b = 4ee901e5 c2d8ca3d.  N1 = a0, N2 = a1. */
	k[0] = 0xffeeddcc; k[1] = 0xbbaa9988; k[2] = 0x77665544; k[3] = 0x33221100;
	k[4] = 0xf0f1f2f3; k[5] = 0xf4f5f6f7; k[6] = 0xf8f9fafb; k[7] = 0xfcfdfeff;
	vf_gost_encrypt_words(k, z, 0x76543210, 0xfedcba98, &o1, &o2);
	check(o1 == 0xc2d8ca3d && o2 == 0x4ee901e5, "RFC 8891 A.3 encryption");
	vf_gost_decrypt_words(k, z, 0xc2d8ca3d, 0x4ee901e5, &o1, &o2);
	check(o1 == 0x76543210 && o2 == 0xfedcba98, "RFC 8891 A.3 decryption");
	/* RFC 8891 A.3, intermediate value G[K16]...G[K1](a1, a0) = (2098cd86, 4f15b0bb) = the
	 * 16-round MAC cycle of GOST 28147-89 applied to this block with a zero accumulator
	 * (N1 = a0, N2 = a1); gost28147_tst2v[1] carries the same value as bytes bbb0154f86cd9820. */
	{
		uint32_t m1 = 0, m2 = 0;
		vf_gost_mac_words(k, z, &m1, &m2, 0x76543210, 0xfedcba98);
		check(m1 == 0x4f15b0bb && m2 == 0x2098cd86, "GOST R 34.12-2015 A.2.4 step 16 (16-round MAC core)");
	}
	/* byte-level (little-endian words) ECB vectors carried by gost28147_self_test:
	 * cryptomanager.com, Crypto++ gostval.dat, BouncyCastle */
	{
		static const struct { const uint8_t *sbox; const char *key, *pt, *ct; } tv[] = {
		    { tps, "75713134b60fec45a607bb83aa3746af4ff99da6d1b53b5b1b402a1baa030d1b",
		      "1122334455667788", "03251e14f9d28acb" },
		    { tps, "be5ec2006cff9dcf52354959f1ff0cbfe95061b5a648c10387069c25997c0672",
		      "0df82802b741a292", "07f9027df7f7df89" },
		    { tps, "b385272ac8d72a5a8b344bc80363ac4d09bf58f41f540624cbcb8fdcf55307d7",
		      "1354ee9c0a11cd4c", "4fb50536f960a7b1" },
		    { z, "8182838485868788898a8b8c8d8e8f80d1d2d3d4d5d6d7d8d9dadbdcdddedfd0",
		      "0102030405060708f1f2f3f4f5f6f7f8", "ce5a5ed7e0577a5fd0cc85ce31635b8b" },
		    { tps, "0123456789abcdef0123456789abcdef0123456789abcdef0123456789abcdef",
		      "4e6f77206973207468652074696d6520666f7220616c6c20",
		      "281630d0d5770030068c252d841e84149ccc1912052dbc02" },
		};
		for (i = 0; i < sizeof(tv) / sizeof(tv[0]); i ++) {
			char msg[64];
			size_t n, b;
			unhex(tv[i].key, key);
			n = unhex(tv[i].pt, in);
			unhex(tv[i].ct, exp);
			for (b = 0; b < n / 8; b ++)
				vf_gost_encrypt_block(key, tv[i].sbox, in + 8 * b, out + 8 * b);
			snprintf(msg, sizeof(msg), "GOST 28147-89 ECB vector %zu encrypt", i);
			check(memcmp(out, exp, n) == 0, msg);
			for (b = 0; b < n / 8; b ++)
				vf_gost_decrypt_block(key, tv[i].sbox, exp + 8 * b, out + 8 * b);
			snprintf(msg, sizeof(msg), "GOST 28147-89 ECB vector %zu decrypt", i);
			check(memcmp(out, in, n) == 0, msg);
		}
	}
	/* CryptoPro-A: BouncyCastle GOST28147MacTest (key, 32 bytes of data, MAC 93468a46 = low
	 * word of the accumulator, little-endian) */
	{
		uint32_t kk[8], m1 = 0, m2 = 0;
		size_t n, b;
		unhex("6d145dc993f4019e104280df6fcd8cd8e01e101e4c113d7ec4f469ce6dcd9e49", key);
		n = unhex("7768617420646f2079612077616e7420666f72206e6f7468696e673f00000000", in);
		vf_gost_key_words(key, kk);
		for (b = 0; b < n / 8; b ++)
			vf_gost_mac_words(kk, vf_gost_sbox_cryptopro_a, &m1, &m2, vf_gost_le32(in + 8 * b), vf_gost_le32(in + 8 * b + 4));
		check(n == 32 && m1 == 0x468a4693u, "CryptoPro-A: BouncyCastle MAC vector 93468a46");
	}
	/* every published table against ECB vectors generated by libgcrypt 1.10.1
	 * (gcry_cipher GCRY_CIPHER_GOST28147, ECB, GCRYCTL_SET_SBOX <OID>; random keys and blocks,
	 * generator seed 20261003): an independent implementation with its own tables.  The three
	 * vectors of a set together must exercise all 128 table entries. */
	{
		static const struct { const uint8_t *sbox; const char *name, *key, *pt, *ct; } vf_gcrypt_tv[] = {
		    { vf_gost_sbox_r3411_94_test, "1.2.643.2.2.30.0", "0e02ad49fe9336c6981a09f3c03f411d73fb49769baeaa12815e13a3e7b81061",
		      "2ba5949aea6e40a0cf4b9d659f7f5d3d13285ad9049d0f737a2eff15d2fc7da9", "044ebd55b6a04b00962b49a41fe53ba55e7a4ad322a562c5e39a5d0efaea1ba8" },
		    { vf_gost_sbox_r3411_94_test, "1.2.643.2.2.30.0", "d7842f5708a61973ff67d57d5ee3fb358508d725425f2bc8fb661c7ca9b47967",
		      "5ea59147a14a2ffd0caf6a05a20f6cee7518299c74473203c3e570c9fffd70bf", "75c865439cdf6667d1682e9a30b1fc579560bef80505720bdfc9f755c906d352" },
		    { vf_gost_sbox_r3411_94_test, "1.2.643.2.2.30.0", "0439cabaf8f4b056d6bd8a1feac69ddf54c18fe1df1f3f1acb6da8323f707222",
		      "3941fb39a89d6c25458ec419a6088d768a4649f9458ae51541f1996a910254a4", "4e89b7cc25068243e718069b4cc1c671f6b8b61dcacde38de0e8c654e7c920f0" },
		    { vf_gost_sbox_cryptopro_a, "1.2.643.2.2.31.1", "5fb25c551b6d0e6605b8a18d86a78d3807afa211172dd73452f6687bd53b543c",
		      "0613096120455b6dbf306af777f9f3b7e9b872a44c78a388ccf33584c7258cb5", "3830779538e7ed1b007554e5432778eef9d0fc93216e67c71e78f0b30ecbc625" },
		    { vf_gost_sbox_cryptopro_a, "1.2.643.2.2.31.1", "26259e12491d94c4c9aaae5954ef8ea5ccd35cb149cc777525c60a35c0a68ff7",
		      "a52fa5e2c52a9296b243e5753abd207402c347c8a490eaae66dc86a3aa88f5f3", "6cb3e4f296f707dfbaecd29f02ab15739140760fcbb81bc70b4ebed496c6900a" },
		    { vf_gost_sbox_cryptopro_a, "1.2.643.2.2.31.1", "2633f37bd217a57234cbadc84490895ecd3c2c82a398227fc32155004d723ebf",
		      "9b58df805fa47991f89245db09d24a0eee40e9641769c0e8f0d6161a7a916ae8", "4cff8bc7e6aa1e0fff7ed7b0384ab15231f8da5f476a53c0347743e601b0a3f6" },
		    { vf_gost_sbox_cryptopro_b, "1.2.643.2.2.31.2", "647cc88efdd8df7cf3b24b73a5a249e43caa3f3aebb9c49a39c1e7adbdab3c14",
		      "94528285debda093efd7267467498876a674a8d050ba92c3bc2946185281f26a", "0b3e95afb3acfb302cba9b64d420f443b4e45220403b50da55a625d6450d42d4" },
		    { vf_gost_sbox_cryptopro_b, "1.2.643.2.2.31.2", "4648980e5e66677ebf116d3374c45f50218b4421f04ed991789c11772eb7710e",
		      "f91bd1c305bb154f69aa2a94b0c58a648b776c4d6f4f14964fe7cd7ff6d0c77a", "6d5b21f00e8d2625ff6db7530add7425386fbc612d50ffeae42c35cffcf6d9dd" },
		    { vf_gost_sbox_cryptopro_b, "1.2.643.2.2.31.2", "67619c1d0b9df5ace491e1f5f188af77dc69fc26d8912fc58ea950b3b966f864",
		      "74401a01bc4394afdfd16c9fd8740fcd71fab91990378ab94189ff2d14bdcadc", "dd66ee46c432e64936728089fedfd275e928ab249d69cfae60bd900d485879c7" },
		    { vf_gost_sbox_cryptopro_c, "1.2.643.2.2.31.3", "116b21d58fb18282af165db4125b84f1163ca1a57ba05f227d335c10adc3a85f",
		      "4a1d1e960954e3370c203c317e9ec1610d0fc2e52774ff869f981c7c9364e40e", "1c03da7f82d8355edbd5cd29320ff78569913fc9b1951924ddf829226a1f5c22" },
		    { vf_gost_sbox_cryptopro_c, "1.2.643.2.2.31.3", "79a252c6474427c17779613824ed658ee80054301581949613e30df31734b19e",
		      "0fb9f84acd87506feb5673c2e1823f98abdd487021b1d798b49c1b696caad73b", "10977aaa00de39ad6858c526dcc11cb6c5167edd0647991a411f6813c00258fe" },
		    { vf_gost_sbox_cryptopro_c, "1.2.643.2.2.31.3", "f0bc501eff77ba3de3f6f6fb4b634b0ceef8bb1949d0ac8ea4eeaca3a11fdf5b",
		      "00cf7ea9340df4c7d3c502ad7666762005116d36c63b1fd778725fdea3c389de", "6cd54712512b0710b5a15af77243f9cec3118360c945c5a8bdb1d241c4afe982" },
		    { vf_gost_sbox_cryptopro_d, "1.2.643.2.2.31.4", "3577cb4dc85af6ccf2fb5378577e48773f581fd72b6bc206582e6ad40b1ff202",
		      "e75bd4837a8538d3fb55922dd77be69e505e732077e97bd2faf3f8c6fdabf5c7", "7e1d89e355eb194c5d8ac67e10d5206665f39633dcaa8e62459cb41fecc48f90" },
		    { vf_gost_sbox_cryptopro_d, "1.2.643.2.2.31.4", "75d54955c2a06995f01368d4d9fdfc32b79c0327957625fe205cd6fc7e8b0886",
		      "75dd9ef4d5030544717f251aa8ba801a39911725705304198b0992ed2db25b84", "7b3bf4e21e85c80e3af60db4bb77177ab06879f5b8cbf250db225e87d8038dbe" },
		    { vf_gost_sbox_cryptopro_d, "1.2.643.2.2.31.4", "af7423518978b15900397912a4ad00e858d507b3f144a9b60a766d33cd080a09",
		      "088a6a59eedc47c179b89f3caa04cb9fbab50b70dd468566510451970aa6ea54", "9bd1ed12abfc569a1f6cadbaf672c0f3f2c37df9ec39c145750d236597c1f221" },
		    { vf_gost_sbox_tc26_z, "1.2.643.7.1.2.5.1.1", "18676b92670115b7dcd65b8d60c6bcf8e594c6274a131b9963af2e80c6ac354f",
		      "c226b47ddaadadf9cc50aac23ff363c875884c38c47e6833c5a2dfad91e3ddbe", "db41127a7e5a7b8ccc08105b9bf5b750a4c297438e9517579398fab5280e9e22" },
		    { vf_gost_sbox_tc26_z, "1.2.643.7.1.2.5.1.1", "215bc88ec2c25571dfd453257448604cedd53c164f63447f6b30a26384247b80",
		      "1762a90ca9cb9cc583a7b6c9b9429fcdd9dd7347d3bb85bdb104385ee99a207b", "6662003d3cbe5668e6d5c5667623ed9831612787682f16f042c798e5b6f93b95" },
		    { vf_gost_sbox_tc26_z, "1.2.643.7.1.2.5.1.1", "b2db8aba87a0b543acbc930c09cc99defb4b4683cd0cb75fd30e5cf643db631e",
		      "542002d71aafd7073b71d64d8dd2492fa754f9a1d2da45d7e04805c54960ae8b", "3097b8839e1a637a6592875c7e68052a286093f6c877d8bc90a97c2f73cfa011" },
		};
		const uint8_t *cur = NULL;
		(void)vf_st_cov_count(1);
		for (i = 0; i < sizeof(vf_gcrypt_tv) / sizeof(vf_gcrypt_tv[0]); i ++) {
			char msg[96];
			size_t n, b;
			if (cur != vf_gcrypt_tv[i].sbox) {
				cur = vf_gcrypt_tv[i].sbox;
				(void)vf_st_cov_count(1);
			}
			unhex(vf_gcrypt_tv[i].key, key);
			n = unhex(vf_gcrypt_tv[i].pt, in);
			unhex(vf_gcrypt_tv[i].ct, exp);
			for (b = 0; b < n / 8; b ++)
				vf_gost_encrypt_block(key, cur, in + 8 * b, out + 8 * b);
			snprintf(msg, sizeof(msg), "libgcrypt ECB vector %zu, S-box OID %s", i, vf_gcrypt_tv[i].name);
			check(n == 32 && memcmp(out, exp, n) == 0, msg);
			if (i + 1 == sizeof(vf_gcrypt_tv) / sizeof(vf_gcrypt_tv[0]) || vf_gcrypt_tv[i + 1].sbox != cur) {
				snprintf(msg, sizeof(msg), "libgcrypt vectors exercise all 128 entries of S-box OID %s", vf_gcrypt_tv[i].name);
				check(vf_st_cov_count(0) == 128, msg);
			}
		}
	}
#ifdef VF_SELFTEST_GCRYPT
	/* live comparison with the installed libgcrypt (link with -lgcrypt): 2000 random blocks per set */
	{
		static const struct { const uint8_t *sbox; const char *oid; } sets[] = {
			{ vf_gost_sbox_r3411_94_test, "1.2.643.2.2.30.0" }, { vf_gost_sbox_cryptopro_a, "1.2.643.2.2.31.1" },
			{ vf_gost_sbox_cryptopro_b, "1.2.643.2.2.31.2" }, { vf_gost_sbox_cryptopro_c, "1.2.643.2.2.31.3" },
			{ vf_gost_sbox_cryptopro_d, "1.2.643.2.2.31.4" }, { vf_gost_sbox_tc26_z, "1.2.643.7.1.2.5.1.1" } };
		uint64_t r = 0x9e3779b97f4a7c15ull;
		unsigned sidx, it, j;
		gcry_check_version(NULL);
		for (sidx = 0; sidx < 6; sidx ++) {
			int bad = 0;
			for (it = 0; it < 2000 && !bad; it ++) {
				gcry_cipher_hd_t hd;
				for (j = 0; j < 40; j ++) {
					r = r * 6364136223846793005ull + 1442695040888963407ull;
					if (j < 32) key[j] = (uint8_t)(r >> 56); else in[j - 32] = (uint8_t)(r >> 56);
				}
				bad = (gcry_cipher_open(&hd, GCRY_CIPHER_GOST28147, GCRY_CIPHER_MODE_ECB, 0) != 0) ||
				    (gcry_cipher_ctl(hd, GCRYCTL_SET_SBOX, (void *)sets[sidx].oid, strlen(sets[sidx].oid)) != 0) ||
				    (gcry_cipher_setkey(hd, key, 32) != 0) || (gcry_cipher_encrypt(hd, exp, 8, in, 8) != 0);
				gcry_cipher_close(hd);
				vf_gost_encrypt_block(key, sets[sidx].sbox, in, out);
				bad = bad || (memcmp(out, exp, 8) != 0);
			}
			check(!bad, sets[sidx].oid);
		}
	}
#endif
}

#ifdef VF_SELFTEST_DIFF
/* ---------------------------------------- library vs spec, supporting evidence ---- */
static uint64_t rng = 0x243f6a8885a308d3ull;
static uint32_t
rnd(void) {
	rng = rng * 6364136223846793005ull + 1442695040888963407ull;
	return ((uint32_t)(rng >> 32));
}
#ifndef VF_SELFTEST_GOST
#include "crypto/cipher/chacha.h"
static void
chacha_diff(void) {
	static uint8_t inb[1024 + 16], outb[1024 + 16], ref[1024];
	uint8_t key[32], ctr[8], iv[24];
	static const unsigned rounds_tab[3] = { 8, 12, 20 };
	static const uint64_t ctr_tab[4] = { 0, 0xfffffffeull, 0xffffffffffffffffull, 0x1234567fffffffffull };
	unsigned it, i;

	for (it = 0; it < 4000; it ++) {
		unsigned rounds = rounds_tab[rnd() % 3], kb = (rnd() & 1) ? 32 : 16;
		unsigned so = rnd() % 8, dof = rnd() % 8, len = rnd() % 700, x = rnd() & 1;
		unsigned mode = rnd() % 3; /* 0 separate, 1 src NULL, 2 in place */
		uint64_t c = ctr_tab[rnd() % 4] + (rnd() % 3);
		chacha_context_str_t ctx;
		uint32_t st[16];
		uint8_t *src = inb + so, *dst = (mode == 2) ? src : outb + dof;
		size_t pos;

		for (i = 0; i < 32; i ++) key[i] = (uint8_t)rnd();
		for (i = 0; i < 24; i ++) iv[i] = (uint8_t)rnd();
		for (i = 0; i < 8; i ++) ctr[i] = (uint8_t)(c >> (8 * i));
		for (i = 0; i < len; i ++) src[i] = (uint8_t)rnd();
		if (x)
			vf_xchacha_state_init(st, key, kb, c, iv, rounds);
		else
			vf_chacha_state_init(st, key, kb, c, iv);
		vf_chacha_stream_xor(st, rounds, (mode == 1) ? NULL : src, len, ref);
		if (x)
			xchacha_str_init(&ctx, key, kb, ctr, iv, rounds);
		else
			chacha_str_init(&ctx, key, kb, ctr, iv, rounds);
		for (pos = 0; pos < len; ) {
			size_t n = (rnd() % 5 == 0) ? (len - pos) : (rnd() % 150);
			if (n > len - pos)
				n = len - pos;
			chacha_str_data_crypt(&ctx, (mode == 1) ? NULL : src + pos, n, dst + pos);
			pos += n;
		}
		if (memcmp(dst, ref, len) != 0) {
			printf("chacha diff: it %u rounds %u kb %u so %u do %u len %u mode %u x %u\n",
			    it, rounds, kb, so, dof, len, mode, x);
			failures ++;
			break;
		}
	}
}
#else
#include <errno.h>	/* gost28147.h uses EINVAL without including <errno.h> */
#include "crypto/cipher/gost28147.h"
static void
gost_diff(void) {
	static const uint8_t *const boxes[] = {
		id_gostr3411_94_testparamset_sbox, id_gost28147_89_cryptopro_a_paramset_sbox,
		id_gost28147_89_cryptopro_b_paramset_sbox, id_gost28147_89_cryptopro_c_paramset_sbox,
		id_gost28147_89_cryptopro_d_paramset_sbox, id_tc26_gost_28147_param_z_sbox };
	static uint8_t inb[64 + 8] __attribute__((aligned(8))), outb[64 + 8] __attribute__((aligned(8)));
	static uint8_t back[64 + 8] __attribute__((aligned(8))), ref[64];
	uint8_t key[32];
	unsigned it, i, b;

	for (it = 0; it < 4000; it ++) {
		const uint8_t *sbox = boxes[rnd() % 6];
		unsigned so = rnd() % 4, dof = rnd() % 4, nb = 1 + rnd() % 4;
		gost28147_context_t ctx;
		for (i = 0; i < 32; i ++) key[i] = (uint8_t)rnd();
		for (i = 0; i < 8 * nb; i ++) inb[so + i] = (uint8_t)rnd();
		for (b = 0; b < nb; b ++)
			vf_gost_encrypt_block(key, sbox, inb + so + 8 * b, ref + 8 * b);
		gost28147_init(key, 32, sbox, &ctx);
		gost28147_blocks_encrypt(&ctx, inb + so, nb, outb + dof);
		if (memcmp(outb + dof, ref, 8 * nb) != 0) {
			printf("gost encrypt diff: it %u so %u do %u\n", it, so, dof);
			failures ++;
		}
		/* decrypt back with every alignment combination */
		gost28147_blocks_decrypt(&ctx, outb + dof, nb, back + so);
		if (memcmp(back + so, inb + so, 8 * nb) != 0) {
			printf("gost decrypt(encrypt(x)) != x: it %u src off %u dst off %u\n", it, dof, so);
			failures ++;
			break;
		}
		/* MAC (little-endian convention): accumulator chained over the blocks */
		{
			uint32_t k[8], m1 = 0, m2 = 0;
			uint8_t mac[8];
			vf_gost_key_words(key, k);
			for (b = 0; b < nb; b ++)
				vf_gost_mac_words(k, sbox, &m1, &m2, vf_gost_le32(inb + so + 8 * b),
				    vf_gost_le32(inb + so + 8 * b + 4));
			gost28147_blocks_mac(&ctx, inb + so, nb);
			gost28147_final(&ctx, mac, 8);
			if (vf_gost_le32(mac) != m1 || vf_gost_le32(mac + 4) != m2) {
				printf("gost mac diff: it %u so %u\n", it, so);
				failures ++;
				break;
			}
		}
		/* big-endian (RFC 8891) convention: key words and block halves big-endian */
		{
			uint32_t k[8], o1, o2;
			uint8_t e[8];
			int bad = 0;
			gost28147_init_be(key, 32, sbox, &ctx);
			for (i = 0; i < 8; i ++)
				k[i] = ((uint32_t)key[4 * i] << 24) | ((uint32_t)key[4 * i + 1] << 16) |
				    ((uint32_t)key[4 * i + 2] << 8) | key[4 * i + 3];
			gost28147_blocks_encrypt_be(&ctx, inb + so, nb, outb + dof);
			for (b = 0; b < nb && !bad; b ++) {
				const uint8_t *p = inb + so + 8 * b;
				uint32_t a1 = ((uint32_t)p[0] << 24) | ((uint32_t)p[1] << 16) | ((uint32_t)p[2] << 8) | p[3];
				uint32_t a0 = ((uint32_t)p[4] << 24) | ((uint32_t)p[5] << 16) | ((uint32_t)p[6] << 8) | p[7];
				vf_gost_encrypt_words(k, sbox, a0, a1, &o1, &o2);
				e[0] = (uint8_t)(o2 >> 24); e[1] = (uint8_t)(o2 >> 16); e[2] = (uint8_t)(o2 >> 8); e[3] = (uint8_t)o2;
				e[4] = (uint8_t)(o1 >> 24); e[5] = (uint8_t)(o1 >> 16); e[6] = (uint8_t)(o1 >> 8); e[7] = (uint8_t)o1;
				bad = (memcmp(outb + dof + 8 * b, e, 8) != 0);
			}
			gost28147_blocks_decrypt_be(&ctx, outb + dof, nb, back + so);
			if (bad || memcmp(back + so, inb + so, 8 * nb) != 0) {
				printf("gost _be diff: it %u so %u do %u (encrypt_be %s)\n", it, so, dof, bad ? "wrong" : "ok");
				failures ++;
				break;
			}
		}
	}
}
#endif
#endif

int
main(void) {
	chacha_spec_vectors();
	gost_spec_vectors();
#ifdef VF_SELFTEST_DIFF
#ifndef VF_SELFTEST_GOST
	chacha_diff();
#else
	gost_diff();
#endif
#endif
	printf("spec self-test: %d failures\n", failures);
	return (failures != 0);
}
