/*
 * C08: native self-test of the SPECIFICATION functions (specs/chacha_spec.h,
 * specs/gost28147_spec.h) against published vectors, so that a typo in a spec shows up
 * here and not as a false alarm (DESIGN.md section 8 item 4).  Not a proof job.
 *
 *   gcc -O1 -Wall -I/verif -I/repo/include -o /tmp/c08_spec_selftest \
 *       /verif/harness/C08/spec_selftest.c && /tmp/c08_spec_selftest
 *   (exit 0 and "spec self-test: 0 failures" expected)
 *
 * With -DVF_SELFTEST_DIFF the same program additionally runs the LIBRARY
 * (include/crypto/cipher/chacha.h; gost28147.h in a second translation unit is not
 * possible because both headers define U8TO32_LITTLE, so GOST is selected with
 * -DVF_SELFTEST_GOST instead of ChaCha) against the specs on pseudo-random inputs,
 * alignments and stream splits.  That part is supporting evidence only.
 *
 * Vectors:
 *   RFC 7539 2.1.1 (quarter round), 2.3.2 (block function), 2.4.2 (encryption);
 *   draft-irtf-cfrg-xchacha-03 2.2.1 (HChaCha20);
 *   draft-strombergson-chacha-test-vectors-01 TC1/TC8 (8/12/20 rounds, 128/256-bit keys;
 *   the same vectors the library's own chacha_self_test carries);
 *   RFC 8891 A.1 - A.3 (GOST R 34.12-2015 "Magma" = GOST 28147-89 with the tc26 Z S-box:
 *   t, g, key schedule, encryption of fedcba9876543210);
 *   the cryptomanager / Crypto++ / BouncyCastle vectors of gost28147_self_test
 *   (test-parameter S-box, CryptoPro-A MAC).
 */
#include <stdio.h>
#include <string.h>
#include <stdint.h>
#include <stdlib.h>

#include "specs/chacha_spec.h"
#include "specs/gost28147_spec.h"

static int failures;

static void
check(int ok, const char *what) {
	if (!ok) {
		failures ++;
		printf("FAIL: %s\n", what);
	}
}

static size_t
unhex(const char *hex, uint8_t *out) {
	size_t n = 0;
	unsigned v;
	while (hex[0] != 0 && hex[1] != 0) {
		if (hex[0] == ' ' || hex[0] == ':') {
			hex ++;
			continue;
		}
		sscanf(hex, "%2x", &v);
		out[n ++] = (uint8_t)v;
		hex += 2;
	}
	return (n);
}

/* ------------------------------------------------------------------ ChaCha ---- */
static void
chacha_spec_vectors(void) {
	uint8_t key[32], nonce8[8], buf[512], exp[512], in[512];
	uint32_t st[16], out[16];
	size_t i, n;

	/* RFC 7539 2.1.1 */
	{
		uint32_t s[16] = { 0 };
		s[0] = 0x11111111; s[1] = 0x01020304; s[2] = 0x9b8d6f43; s[3] = 0x01234567;
		vf_chacha_quarter_round(s, 0, 1, 2, 3);
		check(s[0] == 0xea2a92f4 && s[1] == 0xcb1cf8ce && s[2] == 0x4581472e && s[3] == 0x5881c4bb,
		    "RFC 7539 2.1.1 quarter round");
	}
	/* RFC 7539 2.3.2: key 00..1f, nonce 00 00 00 09 00 00 00 4a 00 00 00 00, block counter 1.
	 * 64-bit counter layout: word 12 = 1, word 13 = first nonce word (0x09000000),
	 * words 14, 15 = the remaining 8 nonce bytes. */
	for (i = 0; i < 32; i ++)
		key[i] = (uint8_t)i;
	unhex("0000004a00000000", nonce8);
	vf_chacha_state_init(st, key, 32, 1ull | ((uint64_t)0x09000000u << 32), nonce8);
	check(st[0] == 0x61707865 && st[1] == 0x3320646e && st[2] == 0x79622d32 && st[3] == 0x6b206574 &&
	    st[4] == 0x03020100 && st[11] == 0x1f1e1d1c && st[12] == 1 && st[13] == 0x09000000 &&
	    st[14] == 0x4a000000 && st[15] == 0, "RFC 7539 2.3.2 initial state");
	vf_chacha_block_words(st, 20, out);
	{
		static const uint32_t e[16] = {
			0xe4e7f110, 0x15593bd1, 0x1fdd0f50, 0xc47120a3,
			0xc7f4d1c7, 0x0368c033, 0x9aaa2204, 0x4e6cd4c3,
			0x466482d2, 0x09aa9f07, 0x05d7c214, 0xa2028bd9,
			0xd19c12b5, 0xb94e16de, 0xe883d0cb, 0x4e3c50a2 };
		check(memcmp(out, e, sizeof(e)) == 0, "RFC 7539 2.3.2 block function words");
		n = unhex("10f1e7e4d13b5915500fdd1fa32071c4c7d1f4c733c068030422aa9ac3d46c4e"
		    "d2826446079faa0914c2d705d98b02a2b5129cd1de164eb9cbd083e8a2503c4e", exp);
		for (i = 0; i < 64; i ++)
			buf[i] = vf_chacha_ser_byte(out, (unsigned)i);
		check(n == 64 && memcmp(buf, exp, 64) == 0, "RFC 7539 2.3.2 serialised block");
	}
	/* RFC 7539 2.4.2: nonce 00 00 00 00 00 00 00 4a 00 00 00 00, initial counter 1 */
	{
		const char *pt = "Ladies and Gentlemen of the class of '99: If I could offer you "
		    "only one tip for the future, sunscreen would be it.";
		unhex("0000004a00000000", nonce8);
		vf_chacha_state_init(st, key, 32, 1, nonce8);
		n = strlen(pt);
		vf_chacha_stream_xor(st, 20, (const uint8_t *)pt, n, buf);
		unhex("6e2e359a2568f98041ba0728dd0d6981e97e7aec1d4360c20a27afccfd9fae0b"
		    "f91b65c5524733ab8f593dabcd62b3571639d624e65152ab8f530c359f0861d8"
		    "07ca0dbf500d6a6156a38e088a22b65e52bc514d16ccf806818ce91ab7793736"
		    "5af90bbf74a35be6b40b8eedf2785e42874d", exp);
		check(n == 114 && memcmp(buf, exp, n) == 0, "RFC 7539 2.4.2 encryption");
	}
	/* draft-irtf-cfrg-xchacha 2.2.1: HChaCha20 */
	{
		uint8_t n16[16], sub[32];
		unhex("000000090000004a0000000031415927", n16);
		vf_hchacha(key, 32, n16, 20, sub);
		unhex("82413b4227b27bfed30e42508a877d73a0f9e4d58a74a853c12ec41326d3ecdc", exp);
		check(memcmp(sub, exp, 32) == 0, "draft-irtf-cfrg-xchacha 2.2.1 HChaCha20");
	}
	/* draft-strombergson TC1 (all-zero key/iv) and TC8 (random key/iv): first 64 bytes */
	{
		static const struct { unsigned rounds, kb; const char *key, *iv, *ks; } tv[] = {
		    { 8, 16, "00000000000000000000000000000000", "0000000000000000",
		      "e28a5fa4a67f8c5defed3e6fb7303486aa8427d31419a729572d777953491120b64ab8e72b8deb85cd6aea7cb6089a101824beeb08814a428aab1fa2c816081b" },
		    { 12, 16, "00000000000000000000000000000000", "0000000000000000",
		      "e1047ba9476bf8ff312c01b4345a7d8ca5792b0ad467313f1dc412b5fdce32410dea8b68bd774c36a920f092a04d3f95274fbeff97bc8491fcef37f85970b450" },
		    { 20, 16, "00000000000000000000000000000000", "0000000000000000",
		      "89670952608364fd00b2f90936f031c8e756e15dba04b8493d00429259b20f46cc04f111246b6c2ce066be3bfb32d9aa0fddfbc12123d4b9e44f34dca05a103f" },
		    { 8, 32, "0000000000000000000000000000000000000000000000000000000000000000", "0000000000000000",
		      "3e00ef2f895f40d67f5bb8e81f09a5a12c840ec3ce9a7f3b181be188ef711a1e984ce172b9216f419f445367456d5619314a42a3da86b001387bfdb80e0cfe42" },
		    { 12, 32, "0000000000000000000000000000000000000000000000000000000000000000", "0000000000000000",
		      "9bf49a6a0755f953811fce125f2683d50429c3bb49e074147e0089a52eae155f0564f879d27ae3c02ce82834acfa8c793a629f2ca0de6919610be82f411326be" },
		    { 20, 32, "0000000000000000000000000000000000000000000000000000000000000000", "0000000000000000",
		      "76b8e0ada0f13d90405d6ae55386bd28bdd219b8a08ded1aa836efcc8b770dc7da41597c5157488d7724e03fb8d84a376a43b8f41518a11cc387b669b2ee6586" },
		    { 8, 16, "c46ec1b18ce8a878725a37e780dfb735", "1ada31d5cf688221",
		      "6a870108859f679118f3e205e2a56a6826ef5a60a4102ac8d4770059fcb7c7bae02f5ce004a6bfbbea53014dd82107c0aa1c7ce11b7d78f2d50bd3602bbd2594" },
		    { 12, 16, "c46ec1b18ce8a878725a37e780dfb735", "1ada31d5cf688221",
		      "b02bd81eb55c8f68b5e9ca4e307079bc225bd22007eddc6702801820709ce09807046a0d2aa552bfdbb49466176d56e32d519e10f5ad5f2746e241e09bdf9959" },
		    { 20, 16, "c46ec1b18ce8a878725a37e780dfb735", "1ada31d5cf688221",
		      "826abdd84460e2e9349f0ef4af5b179b426e4b2d109a9c5bb44000ae51bea90a496beeef62a76850ff3f0402c4ddc99f6db07f151c1c0dfac2e56565d6289625" },
		    { 8, 32, "c46ec1b18ce8a878725a37e780dfb7351f68ed2e194c79fbc6aebee1a667975d", "1ada31d5cf688221",
		      "838751b42d8ddd8a3d77f48825a2ba752cf4047cb308a5978ef274973be374c96ad848065871417b08f034e681fe46a93f7d5c61d1306614d4aaf257a7cff08b" },
		    { 12, 32, "c46ec1b18ce8a878725a37e780dfb7351f68ed2e194c79fbc6aebee1a667975d", "1ada31d5cf688221",
		      "1482072784bc6d06b4e73bdc118bc0103c7976786ca918e06986aa251f7e9cc1b2749a0a16ee83b4242d2e99b08d7c20092b80bc466c87283b61b1b39d0ffbab" },
		    { 20, 32, "c46ec1b18ce8a878725a37e780dfb7351f68ed2e194c79fbc6aebee1a667975d", "1ada31d5cf688221",
		      "f63a89b75c2271f9368816542ba52f06ed49241792302b00b5e8f80ae9a473afc25b218f519af0fdd406362e8d69de7f54c604a6e00f353f110f771bdca8ab92" },
		};
		for (i = 0; i < sizeof(tv) / sizeof(tv[0]); i ++) {
			char msg[96];
			unhex(tv[i].key, key);
			unhex(tv[i].iv, nonce8);
			unhex(tv[i].ks, exp);
			vf_chacha_state_init(st, key, tv[i].kb, 0, nonce8);
			vf_chacha_stream_xor(st, tv[i].rounds, NULL, 64, buf);
			snprintf(msg, sizeof(msg), "strombergson vector %zu (rounds %u, key %u bytes)",
			    i, tv[i].rounds, tv[i].kb);
			check(memcmp(buf, exp, 64) == 0, msg);
		}
	}
	/* counter carry: block after 0x00000000ffffffff uses word 12 = 0, word 13 = 1 */
	{
		uint32_t a[16], b[16];
		for (i = 0; i < 32; i ++)
			key[i] = (uint8_t)(3 * i + 1);
		memset(nonce8, 0x5a, 8);
		vf_chacha_state_init(st, key, 32, 0xffffffffull, nonce8);
		vf_chacha_state_at(st, 1, a);
		check(a[12] == 0 && a[13] == 1, "64-bit counter carry into word 13");
		vf_chacha_state_init(st, key, 32, 0xffffffffffffffffull, nonce8);
		vf_chacha_state_at(st, 1, b);
		check(b[12] == 0 && b[13] == 0, "64-bit counter wraps at 2^64");
		memset(in, 0xa5, sizeof(in));
		vf_chacha_state_init(st, key, 32, 0xffffffffull, nonce8);
		vf_chacha_stream_xor(st, 20, in, 128, buf);
		vf_chacha_block_words(a, 20, out);
		check(buf[64] == (uint8_t)(0xa5 ^ vf_chacha_ser_byte(out, 0)), "stream uses carried counter");
	}
}

/* -------------------------------------------------------------------- GOST ---- */
static void
gost_spec_vectors(void) {
	/* RFC 8891 section 4.1: the eight 4-bit substitutions pi0 .. pi7 (= id-tc26-gost-28147-param-Z) */
	static const uint8_t z[128] = {
		12, 4, 6, 2, 10, 5, 11, 9, 14, 8, 13, 7, 0, 3, 15, 1,
		6, 8, 2, 3, 9, 10, 5, 12, 1, 14, 4, 7, 11, 13, 0, 15,
		11, 3, 5, 8, 2, 15, 10, 13, 14, 1, 7, 4, 12, 9, 6, 0,
		12, 8, 2, 1, 13, 4, 15, 6, 7, 0, 10, 5, 3, 14, 9, 11,
		7, 15, 5, 10, 8, 1, 6, 13, 0, 9, 3, 14, 11, 4, 2, 12,
		5, 13, 15, 6, 9, 2, 12, 10, 11, 7, 8, 1, 4, 3, 14, 0,
		8, 14, 2, 5, 6, 9, 1, 12, 15, 4, 11, 0, 13, 10, 3, 7,
		1, 7, 14, 13, 0, 5, 8, 3, 4, 15, 10, 6, 9, 12, 11, 2 };
	/* id-GostR3411-94-TestParamSet (RFC 4357 11.2 "id-GostR3411-94-TestParamSet", rows K1..K8
	 * as listed in gost28147.h; used only for the third-party ECB vectors below) */
	static const uint8_t tps[128] = {
		0x4, 0xa, 0x9, 0x2, 0xd, 0x8, 0x0, 0xe, 0x6, 0xb, 0x1, 0xc, 0x7, 0xf, 0x5, 0x3,
		0xe, 0xb, 0x4, 0xc, 0x6, 0xd, 0xf, 0xa, 0x2, 0x3, 0x8, 0x1, 0x0, 0x7, 0x5, 0x9,
		0x5, 0x8, 0x1, 0xd, 0xa, 0x3, 0x4, 0x2, 0xe, 0xf, 0xc, 0x7, 0x6, 0x0, 0x9, 0xb,
		0x7, 0xd, 0xa, 0x1, 0x0, 0x8, 0x9, 0xf, 0xe, 0x4, 0x6, 0xc, 0xb, 0x2, 0x5, 0x3,
		0x6, 0xc, 0x7, 0x1, 0x5, 0xf, 0xd, 0x8, 0x4, 0xa, 0x9, 0xe, 0x0, 0x3, 0xb, 0x2,
		0x4, 0xb, 0xa, 0x0, 0x7, 0x2, 0x1, 0xd, 0x3, 0x6, 0x8, 0x5, 0x9, 0xc, 0xf, 0xe,
		0xd, 0xb, 0x4, 0x1, 0x3, 0xf, 0x5, 0x9, 0x0, 0xa, 0xe, 0x7, 0x6, 0x8, 0x2, 0xc,
		0x1, 0xf, 0xd, 0x0, 0x5, 0x7, 0xa, 0x4, 0x9, 0x2, 0x3, 0xe, 0x6, 0xb, 0x8, 0xc };
	uint32_t k[8], o1, o2;
	uint8_t key[32], in[64], out[64], exp[64];
	size_t i;

	/* RFC 8891 A.1: t */
	check(vf_gost_t(z, 0xfdb97531) == 0x2a196f34, "RFC 8891 A.1 t(fdb97531)");
	check(vf_gost_t(z, 0x2a196f34) == 0xebd9f03a, "RFC 8891 A.1 t(2a196f34)");
	check(vf_gost_t(z, 0xebd9f03a) == 0xb039bb3d, "RFC 8891 A.1 t(ebd9f03a)");
	check(vf_gost_t(z, 0xb039bb3d) == 0x68695433, "RFC 8891 A.1 t(b039bb3d)");
	/* RFC 8891 A.2: g[k](a) */
	check(vf_gost_g(z, 0x87654321, 0xfedcba98) == 0xfdcbc20c, "RFC 8891 A.2 g[87654321](fedcba98)");
	check(vf_gost_g(z, 0xfdcbc20c, 0x87654321) == 0x7e791a4b, "RFC 8891 A.2 g[fdcbc20c](87654321)");
	check(vf_gost_g(z, 0x7e791a4b, 0xfdcbc20c) == 0xc76549ec, "RFC 8891 A.2 g[7e791a4b](fdcbc20c)");
	check(vf_gost_g(z, 0xc76549ec, 0x7e791a4b) == 0x9791c849, "RFC 8891 A.2 g[c76549ec](7e791a4b)");
	/* RFC 8891 A.3: K = ffeeddcc bbaa9988 77665544 33221100 f0f1f2f3 f4f5f6f7 f8f9fafb fcfdfeff,
	 * a = fedcba98 76543210 (a1 | a0), b = 4ee901e5 c2d8ca3d.  N1 = a0, N2 = a1. */
	k[0] = 0xffeeddcc; k[1] = 0xbbaa9988; k[2] = 0x77665544; k[3] = 0x33221100;
	k[4] = 0xf0f1f2f3; k[5] = 0xf4f5f6f7; k[6] = 0xf8f9fafb; k[7] = 0xfcfdfeff;
	vf_gost_encrypt_words(k, z, 0x76543210, 0xfedcba98, &o1, &o2);
	check(o1 == 0xc2d8ca3d && o2 == 0x4ee901e5, "RFC 8891 A.3 encryption");
	vf_gost_decrypt_words(k, z, 0xc2d8ca3d, 0x4ee901e5, &o1, &o2);
	check(o1 == 0x76543210 && o2 == 0xfedcba98, "RFC 8891 A.3 decryption");
	/* RFC 8891 A.3, intermediate value G[K16]...G[K1](a1, a0) = (2098cd86, 4f15b0bb) = the
	 * 16-round MAC cycle of GOST 28147-89 applied to this block with a zero accumulator
	 * (N1 = a0, N2 = a1); gost28147_tst2v[1] carries the same value as bytes bbb0154f86cd9820. */
	{
		uint32_t m1 = 0, m2 = 0;
		vf_gost_mac_words(k, z, &m1, &m2, 0x76543210, 0xfedcba98);
		check(m1 == 0x4f15b0bb && m2 == 0x2098cd86, "GOST R 34.12-2015 A.2.4 step 16 (16-round MAC core)");
	}
	/* byte-level (little-endian words) ECB vectors carried by gost28147_self_test:
	 * cryptomanager.com, Crypto++ gostval.dat, BouncyCastle */
	{
		static const struct { const uint8_t *sbox; const char *key, *pt, *ct; } tv[] = {
		    { tps, "75713134b60fec45a607bb83aa3746af4ff99da6d1b53b5b1b402a1baa030d1b",
		      "1122334455667788", "03251e14f9d28acb" },
		    { tps, "be5ec2006cff9dcf52354959f1ff0cbfe95061b5a648c10387069c25997c0672",
		      "0df82802b741a292", "07f9027df7f7df89" },
		    { tps, "b385272ac8d72a5a8b344bc80363ac4d09bf58f41f540624cbcb8fdcf55307d7",
		      "1354ee9c0a11cd4c", "4fb50536f960a7b1" },
		    { z, "8182838485868788898a8b8c8d8e8f80d1d2d3d4d5d6d7d8d9dadbdcdddedfd0",
		      "0102030405060708f1f2f3f4f5f6f7f8", "ce5a5ed7e0577a5fd0cc85ce31635b8b" },
		    { tps, "0123456789abcdef0123456789abcdef0123456789abcdef0123456789abcdef",
		      "4e6f77206973207468652074696d6520666f7220616c6c20",
		      "281630d0d5770030068c252d841e84149ccc1912052dbc02" },
		};
		for (i = 0; i < sizeof(tv) / sizeof(tv[0]); i ++) {
			char msg[64];
			size_t n, b;
			unhex(tv[i].key, key);
			n = unhex(tv[i].pt, in);
			unhex(tv[i].ct, exp);
			for (b = 0; b < n / 8; b ++)
				vf_gost_encrypt_block(key, tv[i].sbox, in + 8 * b, out + 8 * b);
			snprintf(msg, sizeof(msg), "GOST 28147-89 ECB vector %zu encrypt", i);
			check(memcmp(out, exp, n) == 0, msg);
			for (b = 0; b < n / 8; b ++)
				vf_gost_decrypt_block(key, tv[i].sbox, exp + 8 * b, out + 8 * b);
			snprintf(msg, sizeof(msg), "GOST 28147-89 ECB vector %zu decrypt", i);
			check(memcmp(out, in, n) == 0, msg);
		}
	}
}

#ifdef VF_SELFTEST_DIFF
/* ---------------------------------------- library vs spec, supporting evidence ---- */
static uint64_t rng = 0x243f6a8885a308d3ull;
static uint32_t
rnd(void) {
	rng = rng * 6364136223846793005ull + 1442695040888963407ull;
	return ((uint32_t)(rng >> 32));
}
#ifndef VF_SELFTEST_GOST
#include "crypto/cipher/chacha.h"
static void
chacha_diff(void) {
	static uint8_t inb[1024 + 16], outb[1024 + 16], ref[1024];
	uint8_t key[32], ctr[8], iv[24];
	static const unsigned rounds_tab[3] = { 8, 12, 20 };
	static const uint64_t ctr_tab[4] = { 0, 0xfffffffeull, 0xffffffffffffffffull, 0x1234567fffffffffull };
	unsigned it, i;

	for (it = 0; it < 4000; it ++) {
		unsigned rounds = rounds_tab[rnd() % 3], kb = (rnd() & 1) ? 32 : 16;
		unsigned so = rnd() % 8, dof = rnd() % 8, len = rnd() % 700, x = rnd() & 1;
		unsigned mode = rnd() % 3; /* 0 separate, 1 src NULL, 2 in place */
		uint64_t c = ctr_tab[rnd() % 4] + (rnd() % 3);
		chacha_context_str_t ctx;
		uint32_t st[16];
		uint8_t *src = inb + so, *dst = (mode == 2) ? src : outb + dof;
		size_t pos;

		for (i = 0; i < 32; i ++) key[i] = (uint8_t)rnd();
		for (i = 0; i < 24; i ++) iv[i] = (uint8_t)rnd();
		for (i = 0; i < 8; i ++) ctr[i] = (uint8_t)(c >> (8 * i));
		for (i = 0; i < len; i ++) src[i] = (uint8_t)rnd();
		if (x)
			vf_xchacha_state_init(st, key, kb, c, iv, rounds);
		else
			vf_chacha_state_init(st, key, kb, c, iv);
		vf_chacha_stream_xor(st, rounds, (mode == 1) ? NULL : src, len, ref);
		if (x)
			xchacha_str_init(&ctx, key, kb, ctr, iv, rounds);
		else
			chacha_str_init(&ctx, key, kb, ctr, iv, rounds);
		for (pos = 0; pos < len; ) {
			size_t n = (rnd() % 5 == 0) ? (len - pos) : (rnd() % 150);
			if (n > len - pos)
				n = len - pos;
			chacha_str_data_crypt(&ctx, (mode == 1) ? NULL : src + pos, n, dst + pos);
			pos += n;
		}
		if (memcmp(dst, ref, len) != 0) {
			printf("chacha diff: it %u rounds %u kb %u so %u do %u len %u mode %u x %u\n",
			    it, rounds, kb, so, dof, len, mode, x);
			failures ++;
			break;
		}
	}
}
#else
#include <errno.h>	/* gost28147.h uses EINVAL without including <errno.h> */
#include "crypto/cipher/gost28147.h"
static void
gost_diff(void) {
	static const uint8_t *const boxes[] = {
		id_gostr3411_94_testparamset_sbox, id_gost28147_89_cryptopro_a_paramset_sbox,
		id_gost28147_89_cryptopro_b_paramset_sbox, id_gost28147_89_cryptopro_c_paramset_sbox,
		id_gost28147_89_cryptopro_d_paramset_sbox, id_tc26_gost_28147_param_z_sbox };
	static uint8_t inb[64 + 8] __attribute__((aligned(8))), outb[64 + 8] __attribute__((aligned(8)));
	static uint8_t back[64 + 8] __attribute__((aligned(8))), ref[64];
	uint8_t key[32];
	unsigned it, i, b;

	for (it = 0; it < 4000; it ++) {
		const uint8_t *sbox = boxes[rnd() % 6];
		unsigned so = rnd() % 4, dof = rnd() % 4, nb = 1 + rnd() % 4;
		gost28147_context_t ctx;
		for (i = 0; i < 32; i ++) key[i] = (uint8_t)rnd();
		for (i = 0; i < 8 * nb; i ++) inb[so + i] = (uint8_t)rnd();
		for (b = 0; b < nb; b ++)
			vf_gost_encrypt_block(key, sbox, inb + so + 8 * b, ref + 8 * b);
		gost28147_init(key, 32, sbox, &ctx);
		gost28147_blocks_encrypt(&ctx, inb + so, nb, outb + dof);
		if (memcmp(outb + dof, ref, 8 * nb) != 0) {
			printf("gost encrypt diff: it %u so %u do %u\n", it, so, dof);
			failures ++;
		}
		/* decrypt back with every alignment combination */
		gost28147_blocks_decrypt(&ctx, outb + dof, nb, back + so);
		if (memcmp(back + so, inb + so, 8 * nb) != 0) {
			printf("gost decrypt(encrypt(x)) != x: it %u src off %u dst off %u\n", it, dof, so);
			failures ++;
			break;
		}
		/* MAC (little-endian convention): accumulator chained over the blocks */
		{
			uint32_t k[8], m1 = 0, m2 = 0;
			uint8_t mac[8];
			vf_gost_key_words(key, k);
			for (b = 0; b < nb; b ++)
				vf_gost_mac_words(k, sbox, &m1, &m2, vf_gost_le32(inb + so + 8 * b),
				    vf_gost_le32(inb + so + 8 * b + 4));
			gost28147_blocks_mac(&ctx, inb + so, nb);
			gost28147_final(&ctx, mac, 8);
			if (vf_gost_le32(mac) != m1 || vf_gost_le32(mac + 4) != m2) {
				printf("gost mac diff: it %u so %u\n", it, so);
				failures ++;
				break;
			}
		}
		/* big-endian (RFC 8891) convention: key words and block halves big-endian */
		{
			uint32_t k[8], o1, o2;
			uint8_t e[8];
			int bad = 0;
			gost28147_init_be(key, 32, sbox, &ctx);
			for (i = 0; i < 8; i ++)
				k[i] = ((uint32_t)key[4 * i] << 24) | ((uint32_t)key[4 * i + 1] << 16) |
				    ((uint32_t)key[4 * i + 2] << 8) | key[4 * i + 3];
			gost28147_blocks_encrypt_be(&ctx, inb + so, nb, outb + dof);
			for (b = 0; b < nb && !bad; b ++) {
				const uint8_t *p = inb + so + 8 * b;
				uint32_t a1 = ((uint32_t)p[0] << 24) | ((uint32_t)p[1] << 16) | ((uint32_t)p[2] << 8) | p[3];
				uint32_t a0 = ((uint32_t)p[4] << 24) | ((uint32_t)p[5] << 16) | ((uint32_t)p[6] << 8) | p[7];
				vf_gost_encrypt_words(k, sbox, a0, a1, &o1, &o2);
				e[0] = (uint8_t)(o2 >> 24); e[1] = (uint8_t)(o2 >> 16); e[2] = (uint8_t)(o2 >> 8); e[3] = (uint8_t)o2;
				e[4] = (uint8_t)(o1 >> 24); e[5] = (uint8_t)(o1 >> 16); e[6] = (uint8_t)(o1 >> 8); e[7] = (uint8_t)o1;
				bad = (memcmp(outb + dof + 8 * b, e, 8) != 0);
			}
			gost28147_blocks_decrypt_be(&ctx, outb + dof, nb, back + so);
			if (bad || memcmp(back + so, inb + so, 8 * nb) != 0) {
				printf("gost _be diff: it %u so %u do %u (encrypt_be %s)\n", it, so, dof, bad ? "wrong" : "ok");
				failures ++;
				break;
			}
		}
	}
}
#endif
#endif

int
main(void) {
	chacha_spec_vectors();
	gost_spec_vectors();
#ifdef VF_SELFTEST_DIFF
#ifndef VF_SELFTEST_GOST
	chacha_diff();
#else
	gost_diff();
#endif
#endif
	printf("spec self-test: %d failures\n", failures);
	return (failures != 0);
}
