/* C08: ChaCha / HChaCha / XChaCha set-up functions against specs/chacha_spec.h.
 *   -DVF_FN_<name> selects the function, -DKS=<key_size argument: 16|32|128|256>,
 *   -DVF_CC_ROUNDS=<n>, -DIVN=<0|1> (iv != NULL / == NULL) for the functions that run the
 *   permutation (hchacha, xchacha_*): case splits, the ARX equivalence needs concrete shapes.
 * Key / counter / iv buffers are exact-size objects; optional pointers are NULL or valid
 * (symbolic choice). */
#include "contracts/chacha.h"

#ifndef KS
#define KS 32
#endif
#ifndef VF_CC_ROUNDS
#define VF_ROUNDS_ARG	rounds_in
#else
#define VF_ROUNDS_ARG	((size_t)VF_CC_ROUNDS)
#endif

void harness(void) {
	VF_NONDET_BYTES(keyb, VF_CC_KEY_BYTES(KS));
	VF_NONDET_BYTES(ctrb, 8);
	VF_NONDET_BYTES(ivb, XCHACHA_IV_LEN);
	VF_NONDET_BYTES(iv8b, CHACHA_IV_LEN);
	VF_NONDET_BYTES(iv16b, 16);
	VF_NONDET(uint8_t, ctr_null);
	VF_NONDET(uint8_t, iv_null);
	VF_NONDET(size_t, rounds_in);
	VF_NONDET(uint64_t, ctr64);
	const uint8_t *key = keyb.b;
	const uint8_t *counter = ctr_null ? NULL : ctrb.b;
#ifdef IVN	/* case split iv == NULL / != NULL: the iv feeds the ARX permutation in hchacha */
#define VF_IV_NULL	(IVN)
#else
#define VF_IV_NULL	(iv_null)
#endif
	const uint8_t *iv24 = VF_IV_NULL ? NULL : ivb.b;
	const uint8_t *iv8 = VF_IV_NULL ? NULL : iv8b.b;
	const uint8_t *iv16 = VF_IV_NULL ? NULL : iv16b.b;
	static uint8_t out32[32];
#ifndef VF_REPLAY
	/* --dfcc havocs mutable statics: re-establish the initialiser of the (volatile) memset
	 * pointer behind chacha_bzero(); no contract lists it as assignable, so a library
	 * function that assigned it would fail its frame obligation */
	chacha_memset_volatile = memset;
#endif
	VF_NONDET_OBJ(chacha_context_str_t, sctxv);	/* arbitrary previous content */
	chacha_context_str_p sctx = &sctxv;
	chacha_context_p ctx = &sctxv.c;
	(void)counter; (void)iv24; (void)iv8; (void)iv16; (void)out32; (void)rounds_in; (void)ctr64;
	(void)ctx; (void)sctx; (void)key;

#if defined(VF_FN_chacha_key_set)
	chacha_key_set(ctx, key, KS);
	VF_NATIVE_POST(vf_cc_init_ok(ctx->state, 0, 12, key, VF_CC_KEY_BYTES(KS), NULL, NULL), "key words");
#elif defined(VF_FN_chacha_counter_set)
	chacha_counter_set(ctx, counter);
	VF_NATIVE_POST(vf_chacha_counter(ctx->state) == vf_cc_le64_opt(counter), "counter");
#elif defined(VF_FN_chacha_counter_set_u64)
	chacha_counter_set_u64(ctx, ctr64);
	VF_NATIVE_POST(vf_chacha_counter(ctx->state) == ctr64, "counter");
#elif defined(VF_FN_chacha_counter_get_u64)
	uint64_t r = chacha_counter_get_u64(ctx);
	VF_NATIVE_POST(r == vf_chacha_counter(ctx->state), "counter");
#elif defined(VF_FN_chacha_iv_set)
	chacha_iv_set(ctx, iv8);
#elif defined(VF_FN_chacha_init)
	chacha_init(ctx, key, KS, counter, iv8, rounds_in);
	VF_NATIVE_POST(vf_cc_init_ok(ctx->state, 0, 16, key, VF_CC_KEY_BYTES(KS), counter, iv8), "state");
#elif defined(VF_FN_hchacha)
#ifdef VF_REPLAY
	VF_ASSUME(VF_CC_ROUNDS_OK(VF_ROUNDS_ARG));
#endif
	hchacha(key, KS, iv16, VF_ROUNDS_ARG, out32);
	VF_NATIVE_POST(vf_cc_hchacha_ok(out32, key, VF_CC_KEY_BYTES(KS), iv16, VF_ROUNDS_ARG), "hchacha");
#elif defined(VF_FN_xchacha_set_key_iv_rounds)
#ifdef VF_REPLAY
	VF_ASSUME(VF_CC_ROUNDS_OK(VF_ROUNDS_ARG));
#endif
	xchacha_set_key_iv_rounds(ctx, key, KS, iv24, VF_ROUNDS_ARG);
	VF_NATIVE_POST(vf_cc_xinit_ok(ctx->state, key, VF_CC_KEY_BYTES(KS), NULL, 0, iv24, VF_ROUNDS_ARG), "state");
#elif defined(VF_FN_xchacha_init)
#ifdef VF_REPLAY
	VF_ASSUME(VF_CC_ROUNDS_OK(VF_ROUNDS_ARG));
#endif
	xchacha_init(ctx, key, KS, counter, iv24, VF_ROUNDS_ARG);
	VF_NATIVE_POST(vf_cc_xinit_ok(ctx->state, key, VF_CC_KEY_BYTES(KS), counter, 1, iv24, VF_ROUNDS_ARG), "state");
#elif defined(VF_FN_chacha_str_init)
	chacha_str_init(sctx, key, KS, counter, iv8, rounds_in);
	VF_NATIVE_POST(vf_cc_init_ok(sctx->c.state, 0, 16, key, VF_CC_KEY_BYTES(KS), counter, iv8) &&
	    sctx->ks_len == 0, "state");
#elif defined(VF_FN_xchacha_str_init)
#ifdef VF_REPLAY
	VF_ASSUME(VF_CC_ROUNDS_OK(VF_ROUNDS_ARG));
#endif
	xchacha_str_init(sctx, key, KS, counter, iv24, VF_ROUNDS_ARG);
	VF_NATIVE_POST(vf_cc_xinit_ok(sctx->c.state, key, VF_CC_KEY_BYTES(KS), counter, 1, iv24, VF_ROUNDS_ARG) &&
	    sctx->ks_len == 0, "state");
#elif defined(VF_FN_chacha_final)
	chacha_final(ctx);
#ifdef VF_REPLAY
	{ unsigned w; for (w = 0; w < sizeof(chacha_context_t); w ++) VF_NATIVE_POST(((const uint8_t *)ctx)[w] == 0, "wiped"); }
#endif
#elif defined(VF_FN_chacha_str_final)
	chacha_str_final(sctx);
#ifdef VF_REPLAY
	{ unsigned w; for (w = 0; w < sizeof(chacha_context_str_t); w ++) VF_NATIVE_POST(((const uint8_t *)sctx)[w] == 0, "wiped"); }
#endif
#else
#error "select a function with -DVF_FN_<name>"
#endif
	VF_CANARY("chacha_setup harness end");
}
