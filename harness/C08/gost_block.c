/* C08: gost28147_block_encrypt / gost28147_block_decrypt / gost28147_mac_block against the
 * 32-Z / 32-R / 16-Z cycles of RFC 5830 (= E, D of RFC 8891 4.4) on words; the round function
 * gost28147_block32 is replaced by its contract (result == ROTL11(t(sbox, src)), proved by the
 * gost.round.* jobs).  Symbolic key words, S-box, block, MAC accumulator.
 *   -DVF_FN_encrypt | -DVF_FN_decrypt | -DVF_FN_mac       [-DGOST28147_USE_SMALL_TABLES] */
#include "contracts/gost28147.h"

void harness(void) {
	VF_NONDET_BYTES(sboxb, 128);
	VF_NONDET_OBJ(gost28147_context_t, ctxv);
	VF_NONDET(uint32_t, n1);
	VF_NONDET(uint32_t, n2);
	uint32_t o1 = 0, o2 = 0;
	const uint8_t *sbox = sboxb.b;

	VF_ASSUME(vf_g_sbox_wf(sbox));	/* type invariant of an S-box table: 4-bit entries */
#ifdef GOST28147_USE_SMALL_TABLES
	ctxv.sbox = sbox;
#endif
#ifndef VF_REPLAY
	vf_g_sbox = sbox;
#else
	{	/* native: a real context for this S-box, keeping the symbolic key words and accumulator */
		unsigned i, j;
		(void)i; (void)j;
#ifndef GOST28147_USE_SMALL_TABLES
		for (j = 0; j < 4; j ++)
			for (i = 0; i < 256; i ++)
				ctxv.sboxx[j][i] = vf_gost_table_entry(sbox, j, i);
#endif
	}
	uint32_t m1 = ctxv.mac[0], m2 = ctxv.mac[1];
	(void)m1; (void)m2;
#endif
#if defined(VF_FN_encrypt)
	gost28147_block_encrypt(&ctxv, n1, n2, &o1, &o2);
	VF_NATIVE_POST(vf_g_enc_ok(ctxv.key, sbox, n1, n2, o1, o2), "encrypt == 32-Z");
#elif defined(VF_FN_decrypt)
	gost28147_block_decrypt(&ctxv, n1, n2, &o1, &o2);
	VF_NATIVE_POST(vf_g_dec_ok(ctxv.key, sbox, n1, n2, o1, o2), "decrypt == 32-R");
#elif defined(VF_FN_mac)
	gost28147_mac_block(&ctxv, n1, n2);
	VF_NATIVE_POST(vf_g_mac_ok(ctxv.key, sbox, m1, m2, n1, n2, ctxv.mac[0], ctxv.mac[1]), "mac == 16-Z");
#else
#error "-DVF_FN_encrypt | -DVF_FN_decrypt | -DVF_FN_mac"
#endif
	(void)o1; (void)o2;
	VF_CANARY("gost_block harness end");
}
