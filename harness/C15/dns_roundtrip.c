/* C15, route "bounded": a DNS message built with dns_hdr_create + dns_msg_question_add +
 * dns_msg_rr_add + dns_hdr_an_inc
 *   (1) is byte-identical to the RFC 1035 encoding (specs/dns_build_spec.h), at every position,
 *   (2) passes the library's own validation with exactly the built size and section offsets,
 *   (3) parses back to the same name, type, class, TTL, RDLENGTH and RDATA,
 *   (4) is refused exactly when the spec says the name is not a host name / does not fit.
 * Plain harness, fixed arrays: buffer of VF_CAP bytes with symbolic capacity msgbuf_size <= VF_CAP,
 * names <= VF_NAME bytes and RDATA <= VF_RDATA bytes of symbolic length and content.
 * -DVF_RT_QUESTION: header + question;  -DVF_RT_RR: header + record (ANCOUNT = 1);
 * -DVF_RT_OPT: header + dns_msg_optrr_add (ARCOUNT = 1);
 * -DVF_RT_PART=1|2|3 selects which of (1)+(4), (2), (3) is asserted (one solver run each). */
#define VF_DNS_MEMCPY_LOOP
#include "contracts/dns.h"
#include "stubs/dns.h"
#include "specs/dns_build_spec.h"
#include <stdlib.h>
#include <string.h>
#include "proto/dns.h"

#ifndef VF_NAME
#define VF_NAME 12
#endif
#ifndef VF_RDATA
#define VF_RDATA 8
#endif
#define VF_CAP (12 + VF_NAME + 2 + 10 + VF_RDATA + 2)

size_t vf_dns_k;
uint8_t vf_dns_old;
uint16_t vf_dns_qd_old;

void harness(void) {
	VF_NONDET_BYTES(text, VF_NAME);
	VF_NONDET_BYTES(rdata, VF_RDATA);
	VF_NONDET_BYTES(junk, VF_CAP);		/* whatever the buffer held before */
	VF_NONDET(size_t, name_len);
	VF_ASSUME(name_len <= VF_NAME);
	VF_NONDET(size_t, msgbuf_size);
	VF_ASSUME(msgbuf_size <= VF_CAP);
	VF_NONDET(uint16_t, id);
	VF_NONDET(uint16_t, flags);
	VF_NONDET(uint16_t, type);
	VF_NONDET(uint16_t, class);
	VF_NONDET(size_t, k);			/* ghost index */
	uint8_t spec[VF_CAP], wire[VF_NAME + 2], back[VF_NAME + 4];
	dns_hdr_p hdr = (dns_hdr_p)junk.b;
	size_t size = 0, size2 = 0, wlen, off, n;
	int r;

	r = dns_hdr_create(id, flags, hdr, msgbuf_size, &size);
	VF_ASSERT(r == (msgbuf_size < 12 ? EOVERFLOW : 0) && size == 12, "hdr_create: result");
	if (r != 0)
		goto done;
	wlen = vf_dns_spec_name(text.b, name_len, wire, sizeof(wire));
	/* RFC encoding of the header */
	memcpy(&spec[0], &id, 2);		/* id, flags: caller supplies wire order */
	memcpy(&spec[2], &flags, 2);
	memset(&spec[4], 0, 8);
#if defined(VF_RT_QUESTION)
	r = dns_msg_question_add(hdr, size, msgbuf_size, 0, text.b, name_len, type, class, &size2);
	/* (4) accepted iff valid host name and room (the library reserves 2 + name_len for the name) */
	VF_ASSERT((r == 0) == (wlen != 0 && 12 + 2 + name_len + 4 <= msgbuf_size), "question_add: accepted iff valid name and room");
	VF_ASSERT(r == 0 || r == EINVAL || r == EOVERFLOW, "question_add: return code");
	VF_ASSERT(r != EOVERFLOW || 12 + 2 + name_len + 4 > msgbuf_size, "question_add: EOVERFLOW iff no room");
	if (r != 0)
		goto done;
	spec[5] = 1;				/* QDCOUNT = 1 */
	for (n = 0; n < wlen; n ++)
		spec[12 + n] = wire[n];
	vf_dns_spec_be16(&spec[12 + wlen], type);
	vf_dns_spec_be16(&spec[12 + wlen + 2], class);
	VF_ASSERT(size2 == 12 + wlen + 4 && size2 <= msgbuf_size, "question_add: new size = RFC size, inside the buffer");
#if VF_RT_PART == 1
	VF_ASSERT(k >= size2 || junk.b[k] == spec[k], "(1) message byte == RFC 1035 encoding");
#elif VF_RT_PART == 2
	/* (2) */
	size_t qd = 0, an = 0, ns = 0, ar = 0, cnt = 9, real = 0;
	VF_ASSERT(dns_msg_info_get(hdr, size2, &qd, &an, &ns, &ar, &cnt, &real) == 0 &&
	    qd == 12 && an == size2 && ns == size2 && ar == size2 && cnt == 0 && real == size2, "(2) info_get: validates, offsets and size as built");
#else
	/* (3) */
	uint16_t t2 = 0, c2 = 0;
	size_t blen = sizeof(back), qs = 0;
	r = dns_msg_question_get_data(hdr, size2, 12, back, &blen, &t2, &c2, &qs);
	VF_ASSERT(r == 0 && t2 == type && c2 == class && qs == wlen + 4, "(3) parse back: type, class, size");
	VF_ASSERT(blen == name_len && back[blen] == 0, "(3) parse back: name length");
	VF_ASSERT(k >= name_len || back[k] == text.b[k], "(3) parse back: name text");
#endif
#elif defined(VF_RT_RR)
	VF_NONDET(uint32_t, ttl);
	VF_NONDET(uint16_t, data_size);
	VF_ASSUME(data_size <= VF_RDATA);
	r = dns_msg_rr_add(hdr, size, msgbuf_size, 0, text.b, name_len, type, class, ttl, data_size, rdata.b, &size2);
	VF_ASSERT((r == 0) == (wlen != 0 && 12 + 2 + name_len + 10 + data_size <= msgbuf_size), "rr_add: accepted iff valid name and room");
	VF_ASSERT(r == 0 || r == EINVAL || r == EOVERFLOW, "rr_add: return code");
	if (r != 0)
		goto done;
	dns_hdr_an_inc(hdr, 1);
	spec[7] = 1;				/* ANCOUNT = 1 */
	for (n = 0; n < wlen; n ++)
		spec[12 + n] = wire[n];
	off = 12 + wlen;
	vf_dns_spec_be16(&spec[off], type);
	vf_dns_spec_be16(&spec[off + 2], class);
	vf_dns_spec_be32(&spec[off + 4], ttl);
	vf_dns_spec_be16(&spec[off + 8], data_size);
	for (n = 0; n < data_size; n ++)
		spec[off + 10 + n] = rdata.b[n];
	VF_ASSERT(size2 == off + 10 + data_size && size2 <= msgbuf_size, "rr_add: reported size = RFC size, inside the buffer");
#if VF_RT_PART == 1
	VF_ASSERT(k >= size2 || junk.b[k] == spec[k], "(1) message byte == RFC 1035 encoding");
#elif VF_RT_PART == 2
	size_t qd = 0, an = 0, ns = 0, ar = 0, cnt = 9, real = 0;
	VF_ASSERT(dns_msg_info_get(hdr, size2, &qd, &an, &ns, &ar, &cnt, &real) == 0 &&
	    qd == 12 && an == 12 && ns == size2 && ar == size2 && cnt == 1 && real == size2, "(2) info_get: validates, offsets, count and size as built");
#else
	uint16_t t2 = 0, c2 = 0, ds2 = 0;
	uint32_t ttl2 = 0;
	void *d2 = NULL;
	size_t blen = sizeof(back), rs = 0;
	r = dns_msg_rr_get_data(hdr, size2, 12, back, &blen, &t2, &c2, &ttl2, &ds2, &d2, &rs);
	VF_ASSERT(r == 0 && t2 == type && c2 == class && ds2 == data_size && rs == wlen + 10 + data_size, "(3) parse back: type, class, rdlength, size");
	VF_ASSERT(type == 41 || ttl2 == ttl, "(3) parse back: TTL (an OPT record's TTL field is returned raw)");
	VF_ASSERT(blen == name_len && back[blen] == 0, "(3) parse back: name length");
	VF_ASSERT(k >= name_len || back[k] == text.b[k], "(3) parse back: name text");
	VF_ASSERT(d2 == junk.b + off + 10, "(3) parse back: RDATA pointer");
	VF_ASSERT(k >= data_size || ((uint8_t *)d2)[k] == rdata.b[k], "(3) parse back: RDATA bytes");
#endif
#elif defined(VF_RT_OPT)
	/* EDNS0 OPT pseudo-RR (RFC 2671 4.3): root name, TYPE 41, CLASS = UDP payload size,
	 * TTL = ext-rcode, version, flags, RDLENGTH, RDATA; counted in ARCOUNT */
	VF_NONDET(uint16_t, udp);
	VF_NONDET(uint8_t, version);
	VF_NONDET(uint8_t, ex_rcode);
	VF_NONDET(uint16_t, ex_flags);
	VF_NONDET(uint16_t, data_size);
	VF_ASSUME(data_size <= VF_RDATA);
	(void)wlen; (void)name_len;
	r = dns_msg_optrr_add(hdr, size, msgbuf_size, udp, version, ex_rcode, ex_flags, data_size, rdata.b, &size2);
	VF_ASSERT((r == 0) == (12 + 11 + data_size <= msgbuf_size) && (r == 0 || r == EOVERFLOW), "optrr_add: accepted iff it fits");
	VF_ASSERT(size2 == 12 + 11 + data_size, "optrr_add: reported size = RFC size");
	if (r != 0)
		goto done;
	dns_hdr_ar_inc(hdr, 1);
	spec[11] = 1;				/* ARCOUNT = 1 */
	spec[12] = 0;				/* root name */
	vf_dns_spec_be16(&spec[13], 41);
	vf_dns_spec_be16(&spec[15], udp);
	spec[17] = ex_rcode;			/* RFC 2671 4.6: extended RCODE, VERSION, Z */
	spec[18] = version;
	memcpy(&spec[19], &ex_flags, 2);	/* caller supplies the flags in wire order */
	vf_dns_spec_be16(&spec[21], data_size);
	for (n = 0; n < data_size; n ++)
		spec[23 + n] = rdata.b[n];
#if VF_RT_PART == 1
	VF_ASSERT(k >= size2 || junk.b[k] == spec[k], "(1) message byte == RFC 1035 / RFC 2671 encoding");
#elif VF_RT_PART == 2
	size_t qd = 0, an = 0, ns = 0, ar = 0, cnt = 9, real = 0;
	VF_ASSERT(dns_msg_info_get(hdr, size2, &qd, &an, &ns, &ar, &cnt, &real) == 0 &&
	    qd == 12 && an == 12 && ns == 12 && ar == 12 && cnt == 1 && real == size2, "(2) info_get: validates, offsets, count and size as built");
#else
	uint16_t t2 = 0, c2 = 0, ds2 = 0;
	uint32_t ttl2 = 0;
	void *d2 = NULL;
	size_t blen = sizeof(back), rs = 0;
	r = dns_msg_rr_get_data(hdr, size2, 12, back, &blen, &t2, &c2, &ttl2, &ds2, &d2, &rs);
	VF_ASSERT(r == 0 && t2 == 41 && c2 == udp && ds2 == data_size && rs == 11 + data_size && blen == 0, "(3) parse back: root name, type OPT, class = payload size, rdlength, size");
	VF_ASSERT(((uint8_t *)&ttl2)[0] == spec[17] && ((uint8_t *)&ttl2)[1] == spec[18] && ((uint8_t *)&ttl2)[2] == spec[19] && ((uint8_t *)&ttl2)[3] == spec[20],
	    "(3) parse back: the TTL field of an OPT record is returned as its four wire bytes");
	VF_ASSERT(d2 == junk.b + 23 && (k >= data_size || ((uint8_t *)d2)[k] == rdata.b[k]), "(3) parse back: RDATA");
#endif
#else
#error "select VF_RT_QUESTION, VF_RT_RR or VF_RT_OPT"
#endif
done:
	VF_CANARY("dns round trip harness end");
}
