/* C15: the two "calc" functions of include/proto/radius.h with their output INSIDE the packet
 * (radius_pkt_attr_msg_authenticator_update / radius_pkt_authenticator_update / radius_pkt_sign call them so):
 *   -DVF_FN_ma     radius_pkt_attr_msg_authenticator_calc(pkt, attr, ..., RADIUS_PKT_ATTR_DATA(attr))
 *   -DVF_FN_auth   radius_pkt_authenticator_calc(pkt, ..., pkt->authenticator)
 * These are the pure contracts radius_pkt_attr_msg_authenticator_calc_inplace /
 * radius_pkt_authenticator_calc_inplace of contracts/radius.h, checked here in PLAIN mode (the --dfcc
 * route with stores at a symbolic offset of a 64 KiB symbolic packet does not close: > 600 s / 13 GB):
 * exact-size heap packet of symbolic size (header length == size), both functions are loop-free;
 * md5_ / hmac_md5_ = loop-free ghost-stream bodies (stubs/radius_md5.h, VF_MD5_GHOST_BODY);
 * ensures == the clauses of the in-place contracts, asserted; frame by ghost index vf_rad_k. */
#define VF_MD5_GHOST_BODY
#define VF_RAD_LIBC_LOOP
#include "stubs/radius_md5.h"
#define VF_RAD_MD5_CHAIN	/* for the specification macros; the --dfcc contracts it also declares are not used here */
#include "contracts/radius.h"
#include "stubs/radius.h"
#include <stdlib.h>
#include "proto/radius.h"

size_t vf_rad_span, vf_rad_k, vf_rad_z, vf_rad_len_old, vf_rad_blk, vf_rad_m;
uint8_t vf_rad_old, vf_rad_auth_old;
size_t vf_md5_k, vf_md5_n, vf_md5_len[VF_MD5_TBL];
uint8_t vf_md5_at[VF_MD5_TBL], vf_md5_dig[VF_MD5_TBL][16];
const uint8_t *vf_hm_key[VF_HM_TBL + 1];
size_t vf_hm_key_len[VF_HM_TBL + 1], vf_hm_n, vf_hm_len[VF_HM_TBL];
uint8_t vf_hm_at[VF_HM_TBL], vf_hm_dig[VF_HM_TBL][16];

void harness(void) {
	VF_NONDET(size_t, span);
	VF_ASSUME(span >= VF_RAD_HDR_SIZE && span <= VF_RAD_PKT_MAX);
	VF_NONDET(size_t, key_len);
	VF_ASSUME(key_len <= VF_RAD_PKT_MAX);
	VF_NONDET(int, inside);
	VF_NONDET(size_t, g1); VF_NONDET(size_t, g2); VF_NONDET(size_t, off);
	VF_FRESH_PTR(uint8_t, pkt, span);
	VF_FRESH_PTR_OPT(uint8_t, key, key_len);
	VF_FRESH_PTR_OPT(uint8_t, req, 20);
	uint8_t before = 0, before_auth = 0;
	int r;
#ifndef VF_REPLAY
	pkt = malloc(span);
	VF_ASSUME(pkt != NULL);
	key = nondet_bool() ? NULL : malloc(key_len);
	req = nondet_bool() ? NULL : malloc(20);
	VF_ASSUME(VF_RAD_LEN(pkt) == span);
#else
	pkt[2] = (uint8_t)(span >> 8); pkt[3] = (uint8_t)span;
#endif
	vf_rad_span = span; vf_md5_k = g1; vf_rad_k = g2; vf_md5_n = 0; vf_hm_n = 0;
	if (vf_rad_k < span)
		before = pkt[vf_rad_k];
	if (vf_md5_k >= 4 && vf_md5_k < 20)
		before_auth = pkt[vf_md5_k];
	vf_rad_auth_old = before_auth;
	rad_pkt_hdr_p p = (rad_pkt_hdr_p)pkt;
#if defined(VF_FN_ma)
	/* attr as radius_pkt_attr_find_raw / _get_from_offset return it */
	VF_ASSUME(off >= 20 && off <= span && span - off >= 2 && pkt[off + 1] >= 2 && pkt[off + 1] <= span - off);
	rad_pkt_attr_p attr = (rad_pkt_attr_p)(pkt + off);
	uint8_t alen = pkt[off + 1];
	r = radius_pkt_attr_msg_authenticator_calc(p, attr, key, key_len, inside, (rad_pkt_hdr_p)req, RADIUS_PKT_ATTR_DATA(attr));
	VF_ASSERT(r == 0 || r == EINVAL || r == EBADMSG, "return code");
	VF_ASSERT(!(key == NULL && key_len != 0) || r == EINVAL, "EINVAL for a missing secret");
	VF_ASSERT((key == NULL && key_len != 0) || alen == 18 || r == EBADMSG, "EBADMSG unless the attribute holds 16 value bytes");
	VF_ASSERT(r != 0 || (vf_hm_n == 1 && vf_hm_key[0] == key && vf_hm_key_len[0] == key_len && vf_hm_len[0] == span &&
	    VF_HM_DIG_IS(pkt + off + 2, 0)), "success: one HMAC keyed with the secret over LEN bytes, its digest stored in the attribute");
	VF_ASSERT(r != 0 || vf_md5_k >= span || vf_hm_at[0] == VF_RAD_MA_INPUT(vf_md5_k, pkt, off, inside != 0, req),
	    "success: HMAC input == packet with the 16 value bytes taken as zero (whole packet, attributes after it included)");
	VF_ASSERT(vf_rad_k >= span || (alen == 18 && vf_rad_k >= off + 2 && vf_rad_k < off + 18) || pkt[vf_rad_k] == before,
	    "frame: only the 16 value bytes of that attribute change");
	VF_ASSERT(pkt[off + 1] == alen, "frame: attribute header unchanged");
#elif defined(VF_FN_auth)
	uint8_t code = pkt[0];
	r = radius_pkt_authenticator_calc(p, key, key_len, inside, (rad_pkt_hdr_p)req, pkt + 4);
	VF_ASSERT(r == 0 || r == EINVAL, "return code");
	VF_ASSERT(!(key == NULL && key_len != 0) || r == EINVAL, "EINVAL for a missing secret");
	VF_ASSERT((key == NULL && key_len != 0) || !VF_RAD_CODE_RANDOM(code) ||
	    (r == 0 && vf_md5_n == 0 && (vf_md5_k < 4 || vf_md5_k >= 20 || pkt[vf_md5_k] == before_auth)), "random authenticators are left alone");
	VF_ASSERT(!(r == 0 && !VF_RAD_CODE_RANDOM(code)) || (vf_md5_n == 1 && vf_md5_len[0] == span + key_len && VF_MD5_DIG_IS(pkt + 4, 0)),
	    "hashed: one MD5 over LEN + |secret| bytes, its digest stored in the field");
	VF_ASSERT(!(r == 0 && !VF_RAD_CODE_RANDOM(code) && inside == 0) || VF_RAD_CODE_ZEROAUTH(code) || (VF_RAD_CODE_REPLY(code) && req != NULL), "hashed: code class");
	VF_ASSERT(!(r == 0 && !VF_RAD_CODE_RANDOM(code) && vf_md5_k < span + key_len) ||
	    vf_md5_at[0] == VF_RAD_AUTH_INPUT_INPLACE(vf_md5_k, pkt, inside != 0, req, key), "hashed: MD5 input == Code||Id||Len||A||Attrs||Secret, A = the field at entry / zeros / request authenticator");
	VF_ASSERT(vf_rad_k >= span || (vf_rad_k >= 4 && vf_rad_k < 20) || pkt[vf_rad_k] == before, "frame: nothing outside the authenticator field changes");
#else
#error "select VF_FN_ma or VF_FN_auth"
#endif
	VF_CANARY("radius in-place calc harness end");
}
