/* C15, route "bounded": a RADIUS packet assembled with radius_pkt_init + radius_pkt_attr_add (x2)
 *   (1) has the RFC 2865 3/5 layout: header, then each attribute as type, 2+len, value, in call order,
 *       length field == 20 + sum(2 + len), never past the buffer (every capacity <= VF_CAP),
 *   (2) passes the library's own radius_pkt_chk (unless the RFC demands a Message-Authenticator the
 *       caller did not add: Status-Server or an EAP-Message),
 *   (3) lists the same attributes: radius_pkt_attr_find / _get_data_ptr_raw return the types, lengths
 *       and value bytes that were added, in order.
 * -DVF_BC_PASSWORD: the first attribute is a User-Password (padded to 16, RFC 2865 5.2), the second a
 * Message-Authenticator placeholder.  Plain harness, fixed arrays, values <= VF_VAL bytes. */
#define VF_RAD_LIBC_LOOP
#include "contracts/radius.h"
#include "stubs/radius.h"
#include <stdlib.h>
#include <string.h>
#include "proto/radius.h"

#ifndef VF_VAL
#define VF_VAL 6
#endif
#ifdef VF_BC_THREE
#define VF_CAP (20 + 3 * (2 + VF_VAL) + 4)
#else
#define VF_CAP (20 + 2 * (2 + 16) + 4)
#endif
size_t vf_rad_span, vf_rad_k, vf_rad_z, vf_rad_len_old, vf_rad_blk, vf_rad_m;
uint8_t vf_rad_old;

void harness(void) {
	VF_NONDET_BYTES(junk, VF_CAP);
	VF_NONDET_BYTES(v1, 16);
	VF_NONDET_BYTES(v2, 16);
	VF_NONDET_BYTES(auth, 16);
	VF_NONDET(size_t, cap);
	VF_ASSUME(cap <= VF_CAP);
	VF_NONDET(uint8_t, code);
	VF_NONDET(uint8_t, id);
	VF_NONDET(uint8_t, t1); VF_NONDET(uint8_t, l1);
	VF_NONDET(uint8_t, t2); VF_NONDET(uint8_t, l2);
	VF_ASSUME(l1 <= VF_VAL && l2 <= VF_VAL);
	VF_NONDET(size_t, k);
	rad_pkt_hdr_p pkt = (rad_pkt_hdr_p)junk.b;
	uint8_t *m = junk.b;
	size_t size = 0, o1 = 0, o2 = 0, e1, e2;
	int r;

	r = radius_pkt_init(pkt, cap, &size, code, id, auth.b);
	if (r != 0)
		goto done;
#ifdef VF_BC_ADDR
	/* the sockaddr helpers: NAS-IP-Address (4) = the 4 address bytes, NAS-IPv6-Address (95) = the 16
	 * address bytes, NAS-Port (5) = the port as a 32-bit big-endian integer (RFC 2865 5.4, 5.5, RFC 3162 2.1) */
	{
		struct sockaddr_storage ss;
		VF_NONDET(int, v6);
		VF_NONDET(uint16_t, port);
		memset(&ss, 0, sizeof(ss));
		if (v6) {
			struct sockaddr_in6 *s6 = (struct sockaddr_in6 *)&ss;
			s6->sin6_family = AF_INET6; s6->sin6_port = htons(port);
			memcpy(&s6->sin6_addr, v1.b, 16);
		} else {
			struct sockaddr_in *s4 = (struct sockaddr_in *)&ss;
			s4->sin_family = AF_INET; s4->sin_port = htons(port);
			memcpy(&s4->sin_addr, v1.b, 4);
		}
		e1 = v6 ? 16 : 4;
		r = radius_pkt_attr_add_addr(pkt, cap, &size, 4, 95, &ss, &o1);
		VF_ASSERT((r == 0) == (20 + 2 + e1 <= cap), "attr_add_addr: accepted iff it fits");
		if (r != 0)
			goto done;
		VF_ASSERT(o1 == 20 && m[20] == (v6 ? 95 : 4) && m[21] == 2 + e1 && size == 22 + e1 && VF_RAD_LEN(m) == size, "attr_add_addr: type, length");
		VF_ASSERT(k >= e1 || m[22 + k] == v1.b[k], "attr_add_addr: value == the address bytes");
		r = radius_pkt_attr_add_port(pkt, cap, &size, 5, &ss, &o2);
		VF_ASSERT((r == 0) == (22 + e1 + 6 <= cap), "attr_add_port: accepted iff it fits");
		if (r != 0)
			goto done;
		VF_ASSERT(o2 == 22 + e1 && m[o2] == 5 && m[o2 + 1] == 6 && size == o2 + 6, "attr_add_port: type, length");
		VF_ASSERT(m[o2 + 2] == 0 && m[o2 + 3] == 0 && m[o2 + 4] == (uint8_t)(port >> 8) && m[o2 + 5] == (uint8_t)port, "attr_add_port: 32-bit big-endian port number");
		VF_ASSERT(radius_pkt_chk(pkt, size) == 0 || code == 12, "pkt_chk accepts the built packet");
		goto done;
	}
#endif
#ifdef VF_BC_PASSWORD
	VF_ASSUME(t1 == 2 && t2 == 80);
	e1 = (l1 == 0) ? 16 : 16;		/* l1 <= VF_VAL <= 16: one block */
	e2 = 16;
#else
	VF_ASSUME(t1 != 2 && t1 != 80 && t2 != 2 && t2 != 80 && t1 != 3 && t2 != 3);
	e1 = l1; e2 = l2;
#endif
	r = radius_pkt_attr_add(pkt, cap, &size, t1, l1, v1.b, &o1);
#ifdef VF_BC_PASSWORD
	/* the reviewer's report: on the unchanged tree this call ALWAYS returned EOVERFLOW */
	VF_ASSERT((r == 0) == (20 + 2 + e1 <= cap), "attr_add(User-Password): accepted iff it fits");
#endif
	if (r != 0)
		goto done;
	VF_ASSERT(o1 == 20 && size == 20 + 2 + e1 && VF_RAD_LEN(m) == size && size <= cap, "attr_add #1: offset, new length == old + 2 + len <= buffer");
	r = radius_pkt_attr_add(pkt, cap, &size, t2, l2, v2.b, &o2);
	if (r != 0) {
		VF_ASSERT(VF_RAD_LEN(m) == 20 + 2 + e1, "attr_add #2 refused: length untouched");
		goto done;
	}
	VF_ASSERT(o2 == 22 + e1 && size == o2 + 2 + e2 && VF_RAD_LEN(m) == size && size <= cap, "attr_add #2: offset, new length == old + 2 + len <= buffer");
	/* (1) layout */
	VF_ASSERT(m[0] == code && m[1] == id, "(1) header: code, identifier");
	VF_ASSERT(m[20] == t1 && m[21] == 2 + e1 && m[o2] == t2 && m[o2 + 1] == 2 + e2, "(1) attribute headers: type, 2 + len");
#ifndef VF_BC_PASSWORD
	VF_ASSERT(k >= l1 || m[22 + k] == v1.b[k], "(1) value #1");
	VF_ASSERT(k >= l2 || m[o2 + 2 + k] == v2.b[k], "(1) value #2");
#else
	VF_ASSERT(k >= 16 || m[22 + k] == ((k < l1) ? v1.b[k] : 0), "(1) User-Password: value then zero padding to 16");
	VF_ASSERT(k >= 16 || m[o2 + 2 + k] == 0, "(1) Message-Authenticator placeholder: 16 zero bytes");
#endif
#ifdef VF_BC_THREE
	/* a third attribute: same claims one step further (-DVF_BC_THREE, generic types only) */
	{
		VF_NONDET_BYTES(v3, 16);
		VF_NONDET(uint8_t, t3); VF_NONDET(uint8_t, l3);
		VF_ASSUME(l3 <= VF_VAL && t3 != 2 && t3 != 3 && t3 != 80);
		size_t o3 = 0, f3 = 0, dl3 = 0;
		uint8_t ty3 = 0, *dp3 = NULL;
		r = radius_pkt_attr_add(pkt, cap, &size, t3, l3, v3.b, &o3);
		if (r != 0) {
			VF_ASSERT(VF_RAD_LEN(m) == o2 + 2 + e2, "attr_add #3 refused: length untouched");
			goto done;
		}
		VF_ASSERT(o3 == o2 + 2 + e2 && size == o3 + 2 + l3 && VF_RAD_LEN(m) == size && size <= cap, "attr_add #3: offset, new length == old + 2 + len <= buffer");
		VF_ASSERT(m[o3] == t3 && m[o3 + 1] == 2 + l3 && (k >= l3 || m[o3 + 2 + k] == v3.b[k]), "(1) attribute #3: type, 2 + len, value");
		VF_ASSERT(m[20] == t1 && m[21] == 2 + e1 && m[o2] == t2 && m[o2 + 1] == 2 + e2 && (k >= l1 || m[22 + k] == v1.b[k]) && (k >= l2 || m[o2 + 2 + k] == v2.b[k]),
		    "(1) attributes #1, #2 untouched by the third add");
		r = radius_pkt_chk(pkt, size);
		VF_ASSERT(r == 0 || code == 12 || t1 == 79 || t2 == 79 || t3 == 79, "(2) pkt_chk accepts the built packet");
		r = radius_pkt_attr_get_data_ptr_raw(pkt, o3, &ty3, &dp3, &dl3);
		VF_ASSERT(r == 0 && ty3 == t3 && dp3 == m + o3 + 2 && dl3 == l3, "(3) third attribute: type, value pointer, length");
		r = radius_pkt_attr_find(pkt, o3 + 2 + l3, t3, &f3);
		VF_ASSERT(r == VF_RAD_ENOATTR, "(3) nothing after the last attribute");
		goto done;
	}
#endif
	/* (2) */
	r = radius_pkt_chk(pkt, size);
	VF_ASSERT(r == 0 || ((code == 12 || t1 == 79 || t2 == 79) && t1 != 80 && t2 != 80), "(2) pkt_chk accepts the built packet");
	/* (3) */
	size_t f = 0, dl = 0;
	uint8_t ty = 0, *dp = NULL;
	r = radius_pkt_attr_find(pkt, 0, t1, &f);
	VF_ASSERT(r == 0 && f == 20, "(3) find: first added attribute");
	r = radius_pkt_attr_get_data_ptr_raw(pkt, o2, &ty, &dp, &dl);
	VF_ASSERT(r == 0 && ty == t2 && dp == m + o2 + 2 && dl == e2, "(3) second attribute: type, value pointer, length");
	r = radius_pkt_attr_find(pkt, o2 + 2 + e2, t2, &f);
	VF_ASSERT(r == VF_RAD_ENOATTR, "(3) nothing after the last attribute");
done:
	VF_CANARY("radius build+check harness end");
}
