/* C15: User-Password hiding (RFC 2865 5.2).
 *  -DVF_PW_CHAIN  --dfcc, radius_pkt_attr_password_encode enforced, md5_init/update/final replaced by
 *                 the ghost-stream contracts of stubs/radius_md5.h: MD5 input of block i ==
 *                 secret || c_(i-1) (c_0 = request authenticator), c_i == p_i xor digest_i, zero padding,
 *                 every password length 0..128, every key length, every buffer capacity.
 *  -DVF_PW_ROUNDTRIP  plain, MD5 := arbitrary fixed function of its input (stubs/radius_md5.h, VF_MD5_UF):
 *                 decode(encode(p)) == p || zero padding, reported length == length up to the first NUL;
 *                 bounded: password <= VF_PW bytes, secret <= VF_KEY bytes.
 */
#define VF_RAD_LIBC_LOOP
#ifdef VF_PW_CHAIN
#define VF_RAD_MD5_CHAIN
#endif
#ifdef VF_PW_ROUNDTRIP
#define VF_MD5_UF
#endif
#include "stubs/radius_md5.h"
#include "contracts/radius.h"
#include "stubs/radius.h"
#include <stdlib.h>
#include "proto/radius.h"

size_t vf_rad_span, vf_rad_k, vf_rad_z, vf_rad_len_old, vf_rad_blk, vf_rad_m;
uint8_t vf_rad_old;
size_t vf_md5_k, vf_md5_n, vf_md5_len[VF_MD5_TBL];
uint8_t vf_md5_at[VF_MD5_TBL], vf_md5_dig[VF_MD5_TBL][16];

#ifndef VF_PW
#define VF_PW 20
#endif
#ifndef VF_KEY
#define VF_KEY 3
#endif

void harness(void) {
#if defined(VF_PW_CHAIN)
	VF_NONDET(size_t, password_len);
	VF_ASSUME(password_len <= 200);
	VF_NONDET(size_t, key_len);
	VF_ASSUME(key_len <= VF_RAD_PKT_MAX);
	VF_NONDET(size_t, buf_size);
	VF_ASSUME(buf_size <= 160);
	VF_NONDET(size_t, g1); VF_NONDET(size_t, g2); VF_NONDET(size_t, g3);
	vf_md5_k = g1; vf_rad_blk = g2; vf_rad_m = g3; vf_md5_n = 0;
	VF_FRESH_PTR(uint8_t, auth, 16);
	VF_FRESH_PTR_OPT(uint8_t, password, password_len);
	VF_FRESH_PTR_OPT(uint8_t, key, key_len);
	VF_FRESH_PTR_OPT(uint8_t, buf, buf_size);
	VF_FRESH_PTR_OPT(size_t, size_ret, sizeof(size_t));
	int r = radius_pkt_attr_password_encode(auth, password, password_len, key, key_len, buf, buf_size, size_ret);
	VF_NATIVE_POST(r == 0 || r == EINVAL || r == EOVERFLOW, "return code");
#elif defined(VF_PW_ROUNDTRIP)
	VF_NONDET_BYTES(pw, VF_PW);
	VF_NONDET_BYTES(key, VF_KEY);
	VF_NONDET_BYTES(auth, 16);
	VF_NONDET(size_t, password_len);
	VF_ASSUME(password_len <= VF_PW);
	VF_NONDET(size_t, key_len);
	VF_ASSUME(key_len <= VF_KEY);
	VF_NONDET(size_t, k);
	uint8_t enc[((VF_PW + 15) & ~15) + 16], dec[((VF_PW + 15) & ~15) + 16];
	size_t enc_len = 0, dec_len = 0, aligned = (password_len == 0) ? 16 : ((password_len + 15) & ~(size_t)15);
	int r;

	r = radius_pkt_attr_password_encode(auth.b, pw.b, password_len, key.b, key_len, enc, sizeof(enc), &enc_len);
	VF_ASSERT(r == 0 && enc_len == aligned, "encode: succeeds, hidden size = password padded to 16");
	r = radius_pkt_attr_password_decode(auth.b, enc, enc_len, key.b, key_len, dec, sizeof(dec), &dec_len);
	VF_ASSERT(r == 0, "decode: succeeds on what encode produced");
	VF_ASSERT(k >= aligned || dec[k] == ((k < password_len) ? pw.b[k] : 0), "decode(encode(p)) == p || zero padding");
	VF_ASSERT(dec_len <= password_len, "decode: reported length never exceeds the original");
	/* wrong secret / modified ciphertext is a C15 claim about detection by the authenticators, not
	 * about un-hiding: nothing to assert here */
#else
#error "select VF_PW_CHAIN or VF_PW_ROUNDTRIP"
#endif
	VF_CANARY("radius password harness end");
}
