/* C15: User-Password hiding (RFC 2865 5.2).
 *  -DVF_PW_CHAIN  --dfcc, radius_pkt_attr_password_encode enforced, md5_init/update/final replaced by
 *                 the ghost-stream contracts of stubs/radius_md5.h: MD5 input of block i ==
 *                 secret || c_(i-1) (c_0 = request authenticator), c_i == p_i xor digest_i, zero padding,
 *                 every password length 0..128, every key length, every buffer capacity.
 *  -DVF_PW_ROUNDTRIP  plain, MD5 := arbitrary fixed function of its input (stubs/radius_md5.h, VF_MD5_UF):
 *                 decode(encode(p)) == p || zero padding, reported length == length up to the first NUL;
 *                 bounded: password <= VF_PW bytes, secret <= VF_KEY bytes.
 */
#define VF_RAD_LIBC_LOOP
#ifdef VF_PW_CHAIN
#define VF_RAD_MD5_CHAIN
#endif
#ifdef VF_PW_ROUNDTRIP
#define VF_MD5_UF
#endif
#ifdef VF_PW_CHAIN_PLAIN
#define VF_MD5_GHOST_BODY
#endif
#include "stubs/radius_md5.h"
#include "contracts/radius.h"
#include "stubs/radius.h"
#include <stdlib.h>
#include "proto/radius.h"

size_t vf_rad_span, vf_rad_k, vf_rad_z, vf_rad_len_old, vf_rad_blk, vf_rad_m;
uint8_t vf_rad_old;
size_t vf_md5_k, vf_md5_n, vf_md5_len[VF_MD5_TBL];
uint8_t vf_md5_at[VF_MD5_TBL], vf_md5_dig[VF_MD5_TBL][16];

#ifndef VF_PW
#define VF_PW 20
#endif
#ifndef VF_KEY
#define VF_KEY 3
#endif

void harness(void) {
#if defined(VF_PW_CHAIN)
	VF_NONDET(size_t, password_len);
	VF_ASSUME(password_len <= 200);
	VF_NONDET(size_t, key_len);
	VF_ASSUME(key_len <= VF_RAD_PKT_MAX);
	VF_NONDET(size_t, buf_size);
	VF_ASSUME(buf_size <= 160);
	VF_NONDET(size_t, g1); VF_NONDET(size_t, g2); VF_NONDET(size_t, g3);
	vf_md5_k = g1; vf_rad_blk = g2; vf_rad_m = g3; vf_md5_n = 0;
	VF_FRESH_PTR(uint8_t, auth, 16);
	VF_FRESH_PTR_OPT(uint8_t, password, password_len);
	VF_FRESH_PTR_OPT(uint8_t, key, key_len);
	VF_FRESH_PTR_OPT(uint8_t, buf, buf_size);
	VF_FRESH_PTR_OPT(size_t, size_ret, sizeof(size_t));
	int r = radius_pkt_attr_password_encode(auth, password, password_len, key, key_len, buf, buf_size, size_ret);
	VF_NATIVE_POST(r == 0 || r == EINVAL || r == EOVERFLOW, "return code");
#elif defined(VF_PW_ROUNDTRIP)
	VF_NONDET_BYTES(pw, VF_PW);
	VF_NONDET_BYTES(key, VF_KEY);
	VF_NONDET_BYTES(auth, 16);
	VF_NONDET(size_t, password_len);
	VF_ASSUME(password_len <= VF_PW);
	VF_NONDET(size_t, key_len);
	VF_ASSUME(key_len <= VF_KEY);
	VF_NONDET(size_t, k);
	uint8_t enc[((VF_PW + 15) & ~15) + 16], dec[((VF_PW + 15) & ~15) + 16];
	size_t enc_len = 0, dec_len = 0, aligned = (password_len == 0) ? 16 : ((password_len + 15) & ~(size_t)15);
	int r;

	r = radius_pkt_attr_password_encode(auth.b, pw.b, password_len, key.b, key_len, enc, sizeof(enc), &enc_len);
	VF_ASSERT(r == 0 && enc_len == aligned, "encode: succeeds, hidden size = password padded to 16");
	r = radius_pkt_attr_password_decode(auth.b, enc, enc_len, key.b, key_len, dec, sizeof(dec), &dec_len);
	VF_ASSERT(r == 0, "decode: succeeds on what encode produced");
	VF_ASSERT(k >= aligned || dec[k] == ((k < password_len) ? pw.b[k] : 0), "decode(encode(p)) == p || zero padding");
	VF_ASSERT(dec_len <= password_len, "decode: reported length never exceeds the original");
	/* wrong secret / modified ciphertext is a C15 claim about detection by the authenticators, not
	 * about un-hiding: nothing to assert here */
#elif defined(VF_PW_CHAIN_PLAIN)
	/* RFC 2865 5.2 chain, bounded (password <= VF_PW bytes), plain mode, MD5 = ghost-stream bodies:
	 *   input of MD5 computation i == secret || c_(i-1)   (c_0 = request authenticator; NOT secret || RA || c_(i-1))
	 *   c_i == p_i xor digest_i, p zero-padded to 16; decode consumes the same inputs */
	VF_NONDET_BYTES(pw, VF_PW);
	VF_NONDET_BYTES(key, VF_KEY);
	VF_NONDET_BYTES(auth, 16);
	VF_NONDET(size_t, password_len);
	VF_ASSUME(password_len <= VF_PW);
	VF_NONDET(size_t, key_len);
	VF_ASSUME(key_len <= VF_KEY);
	VF_NONDET(size_t, g1); VF_NONDET(size_t, blk); VF_NONDET(size_t, m);
	uint8_t enc[((VF_PW + 15) & ~15) + 16], dec[((VF_PW + 15) & ~15) + 16];
	size_t enc_len = 0, dec_len = 0, aligned = (password_len == 0) ? 16 : ((password_len + 15) & ~(size_t)15), n;
	int r;
	vf_md5_k = g1; vf_md5_n = 0;
	VF_ASSUME(blk < aligned / 16 && m < 16);

	r = radius_pkt_attr_password_encode(auth.b, pw.b, password_len, key.b, key_len, enc, sizeof(enc), &enc_len);
	VF_ASSERT(r == 0 && enc_len == aligned && vf_md5_n == aligned / 16, "encode: one MD5 computation per 16-byte block");
	VF_ASSERT(vf_md5_len[blk] == key_len + 16, "encode: MD5 input length == |secret| + 16");
	VF_ASSERT(vf_md5_k >= key_len || vf_md5_at[blk] == key.b[vf_md5_k], "encode: MD5 input starts with the secret");
	VF_ASSERT(vf_md5_k < key_len || vf_md5_k - key_len >= 16 ||
	    vf_md5_at[blk] == ((blk == 0) ? auth.b[vf_md5_k - key_len] : enc[16 * (blk - 1) + (vf_md5_k - key_len)]),
	    "encode: ... followed by the request authenticator (block 1) / the previous ciphertext block");
	VF_ASSERT(enc[16 * blk + m] == (uint8_t)(((16 * blk + m < password_len) ? pw.b[16 * blk + m] : 0) ^ vf_md5_dig[blk][m]),
	    "encode: c_i == p_i xor MD5(...), p zero-padded");
	n = vf_md5_n;
	r = radius_pkt_attr_password_decode(auth.b, enc, enc_len, key.b, key_len, dec, sizeof(dec), &dec_len);
	VF_ASSERT(r == 0 && vf_md5_n == 2 * n, "decode: one MD5 computation per block");
	VF_ASSERT(vf_md5_len[n + blk] == key_len + 16, "decode: MD5 input length == |secret| + 16");
	VF_ASSERT(vf_md5_k >= key_len || vf_md5_at[n + blk] == key.b[vf_md5_k], "decode: MD5 input starts with the secret");
	VF_ASSERT(vf_md5_k < key_len || vf_md5_k - key_len >= 16 ||
	    vf_md5_at[n + blk] == ((blk == 0) ? auth.b[vf_md5_k - key_len] : enc[16 * (blk - 1) + (vf_md5_k - key_len)]),
	    "decode: ... followed by the request authenticator / the previous CIPHERTEXT block (same input as encode)");
	VF_ASSERT(dec[16 * blk + m] == (uint8_t)(enc[16 * blk + m] ^ vf_md5_dig[n + blk][m]), "decode: p_i == c_i xor MD5(...)");
#else
#error "select VF_PW_CHAIN, VF_PW_CHAIN_PLAIN or VF_PW_ROUNDTRIP"
#endif
	VF_CANARY("radius password harness end");
}
