/* C15: DomainNameToSequenceOfLabels against its real body, unbounded name / buffer sizes,
 * loop contract applied WITHOUT --dfcc (the loop stores through a loop-modified cursor, see the
 * note in harness/C13/dns_labels_plain.c).  Exact-size heap objects of every capacity; the
 * ensures clauses of contracts/dns.h are asserted by the harness (VF_DNS_POST_N2L_*).
 * memcpy: havoc body of stubs/dns.h; memchr: the body below (any occurrence or NULL -- an
 * over-approximation of "first occurrence", sufficient for memory safety, sizes and frame). */
#define VF_DNS_MEMCPY_BODY
#include "contracts/dns.h"
#include "stubs/dns.h"
#include <stdlib.h>
#include <string.h>

#ifndef VF_REPLAY
void *memchr(const void *s, int c, size_t n) {
	size_t i = nondet_size_t();

	__CPROVER_precondition(n == 0 || __CPROVER_r_ok(s, n), "memchr: span inside its object");
	if (i >= n)
		return (NULL);
	__CPROVER_assume(((const uint8_t *)s)[i] == (uint8_t)c);
	return ((void *)((const uint8_t *)s + i));
}
#endif
#include "proto/dns.h"

size_t vf_dns_k;
uint8_t vf_dns_old;
uint16_t vf_dns_qd_old;

void harness(void) {
	VF_NONDET(size_t, name_len);
	VF_ASSUME(name_len <= VF_DNS_MSG_MAX);
	VF_NONDET(size_t, buf_size);
	VF_ASSUME(buf_size <= VF_DNS_MSG_MAX);
	VF_FRESH_PTR_OPT(uint8_t, name, name_len);
	VF_FRESH_PTR_OPT(uint8_t, buf, buf_size);
	VF_FRESH_PTR_OPT(size_t, size_ret, sizeof(size_t));
	VF_NONDET(size_t, k);	/* ghost index into the name */
	uint8_t before = 0;
	int r;
#ifndef VF_REPLAY
	size_t size_store;
	name = nondet_bool() ? NULL : malloc(name_len);
	buf = nondet_bool() ? NULL : malloc(buf_size);
	size_ret = nondet_bool() ? NULL : &size_store;
#endif
	if (name != NULL && k < name_len)
		before = name[k];
	r = DomainNameToSequenceOfLabels(name, name_len, buf, buf_size, size_ret);
	VF_ASSERT(r == 0 || r == EINVAL || r == EOVERFLOW, "postcondition: return code");
	VF_ASSERT(!((name == NULL && name_len != 0) || buf == NULL) || r == EINVAL, "postcondition: EINVAL for unusable arguments");
	VF_ASSERT((name == NULL && name_len != 0) || buf == NULL || size_ret == NULL ||
	    *size_ret == VF_DNS_WIRE(name_len), "postcondition: required size reported");
	VF_ASSERT(r != EOVERFLOW || VF_DNS_WIRE(name_len) > buf_size, "postcondition: EOVERFLOW only if it does not fit");
	VF_ASSERT(r != 0 || (VF_DNS_WIRE(name_len) <= buf_size && VF_DNS_WIRE(name_len) <= VF_DNS_NAME_WIRE_MAX &&
	    buf[VF_DNS_WIRE(name_len) - 1] == 0), "postcondition: fits, RFC 1035 size limit, end marker");
	VF_ASSERT(name == NULL || k >= name_len || name[k] == before, "frame: name text unchanged");
	VF_CANARY("dns name2labels harness end");
}
