/* C15: construction side of include/proto/dns.h, --dfcc, unbounded sizes: the message buffer is an
 * exact-size fresh object of symbolic capacity (EVERY capacity: the size pre-check must keep every
 * write inside it), msg_size / existing bytes / names / RDATA arbitrary.  -DVF_FN_<name>:
 *   name2seq (dns_msg_name2sequence_of_labels) hdr_create question_add rr_add optrr_add cnt (-DVF_CNT_FN=dns_hdr_qd_inc ...)
 * DomainNameToSequenceOfLabels is replaced by its contract here; its own body: dns_name2labels_plain.c. */
#include "contracts/dns.h"
#include "stubs/dns.h"
#include "proto/dns.h"

size_t vf_dns_k;	/* ghost index (contracts/dns.h part 2), left unconstrained */
uint8_t vf_dns_old;	/* ghost: entry value of buffer byte vf_dns_k */
uint16_t vf_dns_qd_old;	/* ghost: entry value of QDCOUNT */

void harness(void) {
	VF_NONDET(size_t, msgbuf_size);
	VF_ASSUME(msgbuf_size <= VF_DNS_MSG_MAX);
	VF_NONDET(size_t, msg_size);
	VF_ASSUME(msg_size <= VF_DNS_MSG_MAX);
	VF_NONDET(size_t, name_len);
	VF_ASSUME(name_len <= VF_DNS_MSG_MAX);
	VF_NONDET(size_t, ghost_k);
	vf_dns_k = ghost_k;
	int r = 0;
#if defined(VF_FN_hdr_create)
	VF_NONDET(uint16_t, id);
	VF_NONDET(uint16_t, flags);
	VF_FRESH_PTR(uint8_t, buf, msgbuf_size);
	VF_FRESH_PTR_OPT(size_t, size_ret, sizeof(size_t));
	r = dns_hdr_create(id, flags, (dns_hdr_p)buf, msgbuf_size, size_ret);
	VF_NATIVE_POST(r == (msgbuf_size < 12 ? EOVERFLOW : 0), "return code");
#elif defined(VF_FN_cnt)
	VF_NONDET(uint16_t, val);
	VF_FRESH_PTR(uint8_t, buf, 12);
	VF_CNT_FN((dns_hdr_p)buf, val);
#else
#if defined(VF_FN_name2seq)
	VF_FRESH_PTR(uint8_t, buf, msgbuf_size);
#else
	VF_FRESH_PTR_OPT(uint8_t, buf, msgbuf_size);
#endif
	VF_FRESH_PTR_OPT(uint8_t, name, name_len);
	VF_FRESH_PTR_OPT(size_t, size_ret, sizeof(size_t));
	dns_hdr_p hdr = (dns_hdr_p)buf;
#if defined(VF_FN_name2seq)
	VF_NONDET(size_t, offset);
	VF_NONDET(int, compress);
	r = dns_msg_name2sequence_of_labels(hdr, msgbuf_size, offset, name, name_len, compress, size_ret);
#elif defined(VF_FN_question_add)
	VF_NONDET(int, compress);
	VF_NONDET(uint16_t, qtype);
	VF_NONDET(uint16_t, qclass);
	r = dns_msg_question_add(hdr, msg_size, msgbuf_size, compress, name, name_len, qtype, qclass, size_ret);
	VF_NATIVE_POST(r != 0 || size_ret == NULL || *size_ret <= msgbuf_size, "new size inside the buffer");
#elif defined(VF_FN_rr_add)
	VF_NONDET(int, compress);
	VF_NONDET(uint16_t, type);
	VF_NONDET(uint16_t, class);
	VF_NONDET(uint32_t, ttl);
	VF_NONDET(uint16_t, data_size);
	VF_FRESH_PTR(uint8_t, data, data_size);
	r = dns_msg_rr_add(hdr, msg_size, msgbuf_size, compress, name, name_len, type, class, ttl, data_size, data, size_ret);
	VF_NATIVE_POST(r != 0 || size_ret == NULL || *size_ret <= msgbuf_size, "new size inside the buffer");
#elif defined(VF_FN_optrr_add)
	VF_NONDET(uint16_t, udp);
	VF_NONDET(uint8_t, version);
	VF_NONDET(uint8_t, ex_rcode);
	VF_NONDET(uint16_t, ex_flags);
	VF_NONDET(uint16_t, data_size);
	VF_FRESH_PTR_OPT(uint8_t, data, data_size);
	r = dns_msg_optrr_add(hdr, msg_size, msgbuf_size, udp, version, ex_rcode, ex_flags, data_size, data, size_ret);
	VF_NATIVE_POST(r != 0 || size_ret == NULL || *size_ret <= msgbuf_size, "new size inside the buffer");
#else
#error "select a function with -DVF_FN_<name>"
#endif
#endif
	(void)r;
	VF_CANARY("dns build harness end");
}
