/* C15: Request/Response Authenticator of include/proto/radius.h, --dfcc, md5_init/update/final replaced
 * by the ghost-stream contracts of stubs/radius_md5.h; packet of symbolic size (validated header),
 * secret of symbolic length.  -DVF_FN_calc | -DVF_FN_chk | -DVF_FN_ma_calc (Message-Authenticator, hmac_md5_* replaced) */
#ifndef VF_RAD_BUILTIN_LIBC	/* in-place jobs: CBMC's own constant-size memset/memcpy */
#define VF_RAD_LIBC_LOOP
#endif
#define VF_RAD_MD5_CHAIN
#include "stubs/radius_md5.h"
#include "contracts/radius.h"
#include "stubs/radius.h"
#include "proto/radius.h"

size_t vf_rad_span, vf_rad_k, vf_rad_z, vf_rad_len_old, vf_rad_blk, vf_rad_m;
uint8_t vf_rad_old, vf_rad_auth_old;
size_t vf_md5_k, vf_md5_n, vf_md5_len[VF_MD5_TBL];
uint8_t vf_md5_at[VF_MD5_TBL], vf_md5_dig[VF_MD5_TBL][16];
const uint8_t *vf_hm_key[VF_HM_TBL + 1];
size_t vf_hm_key_len[VF_HM_TBL + 1], vf_hm_n, vf_hm_len[VF_HM_TBL];
uint8_t vf_hm_at[VF_HM_TBL], vf_hm_dig[VF_HM_TBL][16];

void harness(void) {
	VF_NONDET(size_t, span);
	VF_ASSUME(span >= VF_RAD_HDR_SIZE && span <= VF_RAD_PKT_MAX);
	VF_NONDET(size_t, key_len);
	VF_ASSUME(key_len <= VF_RAD_PKT_MAX);
	VF_NONDET(int, inside);
	VF_NONDET(size_t, g1); VF_NONDET(size_t, g2);
	vf_rad_span = span; vf_md5_k = g1; vf_rad_m = g2; vf_md5_n = 0;
	VF_FRESH_PTR_OPT(uint8_t, pkt, span);
	VF_FRESH_PTR_OPT(uint8_t, key, key_len);
	VF_FRESH_PTR_OPT(uint8_t, req, 20);
#ifdef VF_REPLAY
	if (pkt != NULL) { pkt[2] = (uint8_t)(span >> 8); pkt[3] = (uint8_t)span; }
#endif
	int r;
#if defined(VF_FN_calc)
	VF_FRESH_PTR(uint8_t, out, 16);
	r = radius_pkt_authenticator_calc((rad_pkt_hdr_p)pkt, key, key_len, inside, (rad_pkt_hdr_p)req, out);
#elif defined(VF_FN_chk)
	r = radius_pkt_authenticator_chk((rad_pkt_hdr_p)pkt, key, key_len, inside, (rad_pkt_hdr_p)req);
#elif defined(VF_FN_ma_calc)
	VF_NONDET(size_t, off);
	VF_FRESH_PTR(uint8_t, out, 16);
	vf_hm_n = 0;
#ifdef VF_REPLAY
	rad_pkt_attr_p attr = (rad_pkt_attr_p)(pkt + ((off >= 20 && off + 2 <= span) ? off : 20));
#else
	rad_pkt_attr_p attr;
#endif
	r = radius_pkt_attr_msg_authenticator_calc((rad_pkt_hdr_p)pkt, attr, key, key_len, inside, (rad_pkt_hdr_p)req, out);
#elif defined(VF_FN_ma_calc_inplace)
	/* output == the attribute's own value bytes: contract radius_pkt_attr_msg_authenticator_calc_inplace */
	vf_hm_n = 0;
#ifdef VF_REPLAY
	VF_NONDET(size_t, off);
	rad_pkt_attr_p attr = (rad_pkt_attr_p)(pkt + ((off >= 20 && off + 18 <= span) ? off : 20));
	uint8_t *out = (uint8_t *)attr + 2;
#else
	rad_pkt_attr_p attr;
	uint8_t *out;
#endif
	r = radius_pkt_attr_msg_authenticator_calc((rad_pkt_hdr_p)pkt, attr, key, key_len, inside, (rad_pkt_hdr_p)req, out);
#elif defined(VF_FN_calc_inplace)
	/* output == the packet's own authenticator field: contract radius_pkt_authenticator_calc_inplace */
#ifdef VF_REPLAY
	uint8_t *out = pkt + 4;
#else
	uint8_t *out;
#endif
	r = radius_pkt_authenticator_calc((rad_pkt_hdr_p)pkt, key, key_len, inside, (rad_pkt_hdr_p)req, out);
#elif defined(VF_FN_ma_chk) || defined(VF_FN_ma_update)
	VF_NONDET(size_t, offset);
	VF_NONDET(size_t, gk);
	VF_FRESH_PTR_OPT(size_t, offset_ret, sizeof(size_t));
	vf_hm_n = 0; vf_rad_k = gk;
#if VF_MA_CASE == 1		/* one solver run per lookup path */
	VF_ASSUME(offset != 0);	/* attribute given by offset: radius_pkt_attr_get_from_offset */
#elif VF_MA_CASE == 2
	VF_ASSUME(offset == 0);	/* attribute searched: radius_pkt_attr_find_raw */
#endif
#if defined(VF_FN_ma_chk)
	r = radius_pkt_attr_msg_authenticator_chk((rad_pkt_hdr_p)pkt, offset, key, key_len, inside, (rad_pkt_hdr_p)req, offset_ret);
#else
	r = radius_pkt_attr_msg_authenticator_update((rad_pkt_hdr_p)pkt, offset, key, key_len, inside, (rad_pkt_hdr_p)req, offset_ret);
#endif
#elif defined(VF_FN_update)
	VF_NONDET(size_t, gk);
	vf_rad_k = gk;
	r = radius_pkt_authenticator_update((rad_pkt_hdr_p)pkt, key, key_len, inside, (rad_pkt_hdr_p)req);
#else
#error "select VF_FN_calc, VF_FN_chk, VF_FN_ma_calc, VF_FN_ma_calc_inplace, VF_FN_calc_inplace, VF_FN_ma_chk, VF_FN_ma_update or VF_FN_update"
#endif
	VF_NATIVE_POST(r == 0 || r == -1 || r == EINVAL || r == EBADMSG, "return code");
	VF_CANARY("radius authenticator harness end");
}
