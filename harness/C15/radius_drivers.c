/* C15: the signing / verifying drivers of include/proto/radius.h, END TO END on their real callees
 * (attribute search, calc functions, password hiding), PLAIN mode, packet of symbolic size (exact-size heap
 * object, validated header), secret of symbolic length.  -DVF_FN_ma_chk | ma_update | verify | sign
 *   md5_* / hmac_md5_*  = loop-free ghost-stream bodies (stubs/radius_md5.h, VF_MD5_GHOST_BODY): every hash
 *                         computation is logged as (length, byte at the ghost position vf_md5_k, arbitrary digest)
 *   radius_pkt_attr_find_raw loop = its loop contract (loops/radius_find_raw.json, applied without --dfcc)
 *   password loops, libc byte loops, timingsafe_bcmp = unwound to their constant bounds (unwinding assertions)
 * radius_pkt_sign: bounded variant: the packet is BUILT by the library in a fixed array of VF_SIGN_N bytes (radius_pkt_init +
 * one generic attribute + a User-Password of <= 6 bytes, every code / capacity), then signed; all loops unwound.  (With an arbitrary
 * packet, loop contract or not, symex does not get through the in-place password hiding at a symbolic offset.)
 * (The --dfcc modular jobs for these drivers ran out of memory: 12 GB.)  */
#define VF_MD5_GHOST_BODY
#define VF_RAD_LIBC_LOOP
#include "stubs/radius_md5.h"
#define VF_RAD_MD5_CHAIN	/* specification macros only */
#include "contracts/radius.h"
#include "stubs/radius.h"
#include <stdlib.h>
#include "proto/radius.h"

size_t vf_rad_span, vf_rad_k, vf_rad_z, vf_rad_len_old, vf_rad_blk, vf_rad_m;
uint8_t vf_rad_old, vf_rad_auth_old;
size_t vf_md5_k, vf_md5_n, vf_md5_len[VF_MD5_TBL];
uint8_t vf_md5_at[VF_MD5_TBL], vf_md5_dig[VF_MD5_TBL][16];
const uint8_t *vf_hm_key[VF_HM_TBL + 1];
size_t vf_hm_key_len[VF_HM_TBL + 1], vf_hm_n, vf_hm_len[VF_HM_TBL];
uint8_t vf_hm_at[VF_HM_TBL], vf_hm_dig[VF_HM_TBL][16];

/* HMAC input at position k for a Message-Authenticator at o, authenticator field taken from `a16` */
#ifndef VF_SIGN_N
#define VF_SIGN_N 64
#endif
#define VF_RAD_INIT_COPIES(c)	(!((c) == 4 || (c) == 40 || (c) == 43))	/* radius_pkt_init copied the given authenticator */
#define MA_IN(k, pkt, o, a16)	(((k) >= 4 && (k) < 20) ? (a16) : ((k) >= (o) + 2 && (k) < (o) + 18) ? (uint8_t)0 : (pkt)[(k)])

void harness(void) {
	VF_NONDET(size_t, cap);			/* buffer capacity (sign); == packet length otherwise */
	VF_ASSUME(cap >= VF_RAD_HDR_SIZE && cap <= VF_RAD_PKT_MAX);
	VF_NONDET(size_t, len0);		/* header length at entry */
	VF_NONDET(size_t, key_len);
	VF_ASSUME(key_len <= VF_RAD_PKT_MAX);
	VF_NONDET(size_t, g1); VF_NONDET(size_t, g2); VF_NONDET(size_t, offset);
	VF_FRESH_PTR(uint8_t, pkt, cap);
	VF_FRESH_PTR_OPT(uint8_t, key, key_len);
	VF_FRESH_PTR_OPT(uint8_t, req, 20);
	uint8_t before = 0, before_auth = 0, code;
	int r;
#if !defined(VF_FN_sign)
	VF_ASSUME(len0 == cap);
#else
	VF_ASSUME(len0 >= VF_RAD_HDR_SIZE && len0 <= cap);
#endif
#if defined(VF_FN_sign) && !defined(VF_REPLAY)
	/* sign: bounded job, the packet lives in a fixed array of VF_SIGN_N bytes (capacity cap <= VF_SIGN_N),
	 * arbitrary content, every loop fully unwound (the attribute search included) */
	VF_NONDET_BYTES(store, VF_SIGN_N);
	VF_NONDET_BYTES(pwtext, 16);
	VF_NONDET_BYTES(val1, 16);
	VF_NONDET_BYTES(auth0, 16);
	VF_NONDET(uint8_t, code0); VF_NONDET(uint8_t, id0); VF_NONDET(uint8_t, t1); VF_NONDET(uint8_t, l1); VF_NONDET(uint8_t, pwl);
	VF_ASSUME(cap <= VF_SIGN_N && l1 <= 4 && pwl <= 6 && t1 != 2 && t1 != 3 && t1 != 80);
	pkt = store.b;
	key = nondet_bool() ? NULL : malloc(key_len);
	req = NULL;
	{	/* the packet to sign: header + one generic attribute + a User-Password, built by the library */
		size_t sz = 0;
		VF_ASSUME(radius_pkt_init((rad_pkt_hdr_p)pkt, cap, &sz, code0, id0, auth0.b) == 0);
		VF_ASSUME(radius_pkt_attr_add((rad_pkt_hdr_p)pkt, cap, &sz, t1, l1, val1.b, NULL) == 0);
		VF_ASSUME(radius_pkt_attr_add((rad_pkt_hdr_p)pkt, cap, &sz, 2, pwl, pwtext.b, NULL) == 0);
		VF_ASSUME(len0 == sz);
	}
#elif !defined(VF_REPLAY)
	pkt = malloc(cap);
	VF_ASSUME(pkt != NULL);
	key = nondet_bool() ? NULL : malloc(key_len);
	req = nondet_bool() ? NULL : malloc(20);
	VF_ASSUME(VF_RAD_LEN(pkt) == len0);
#else
	pkt[2] = (uint8_t)(len0 >> 8); pkt[3] = (uint8_t)len0;
#endif
	vf_rad_span = cap; vf_md5_k = g1; vf_rad_k = g2; vf_md5_n = 0; vf_hm_n = 0;
	if (vf_rad_k < cap)
		before = pkt[vf_rad_k];
	if (vf_md5_k >= 4 && vf_md5_k < 20)
		before_auth = pkt[vf_md5_k];
	code = pkt[0];
	rad_pkt_hdr_p p = (rad_pkt_hdr_p)pkt;
	rad_pkt_hdr_p rq = (rad_pkt_hdr_p)req;
	(void)before; (void)before_auth; (void)code; (void)offset;

#if defined(VF_FN_ma_chk) || defined(VF_FN_ma_update)
	VF_NONDET(int, inside);
	size_t o = 0;
#if defined(VF_FN_ma_chk)
	r = radius_pkt_attr_msg_authenticator_chk(p, offset, key, key_len, inside, rq, &o);
#else
	r = radius_pkt_attr_msg_authenticator_update(p, offset, key, key_len, inside, rq, &o);
#endif
	VF_ASSERT(r == 0 || r == -1 || r == EINVAL || r == EBADMSG, "return code");
	VF_ASSERT((r != 0 && r != EBADMSG) || offset == 0 || o == offset, "the offset worked on is reported");
	if (r == 0) {
		VF_ASSERT(o >= 20 && o + 18 <= len0 && pkt[o] == 80 && pkt[o + 1] == 18, "accepted/updated: a Message-Authenticator attribute with 16 value bytes inside the packet");
		VF_ASSERT(vf_hm_n == 1 && vf_hm_key[0] == key && vf_hm_key_len[0] == key_len && vf_hm_len[0] == len0, "one HMAC, keyed with the secret, over the whole packet length");
		VF_ASSERT(VF_HM_DIG_IS(pkt + o + 2, 0), "its 16 value bytes == the HMAC digest, byte for byte");
		VF_ASSERT(vf_md5_k >= len0 || vf_hm_at[0] == VF_RAD_MA_INPUT(vf_md5_k, pkt, o, inside != 0, req),
		    "HMAC input == Code||Id||Len||A||attributes with the 16 value bytes zero, the attributes AFTER it included");
	}
#if defined(VF_FN_ma_chk)
	VF_ASSERT(vf_rad_k >= cap || pkt[vf_rad_k] == before, "frame: a check does not modify the packet");
	/* any mismatch rejects: a completed HMAC whose digest differs from the value bytes is EBADMSG, never 0 */
	VF_ASSERT(!(vf_hm_n == 1 && (r == 0 || r == EBADMSG) && o >= 20 && o + 18 <= len0) || ((r == 0) == VF_HM_DIG_IS(pkt + o + 2, 0)),
	    "accepted <=> all 16 value bytes equal the digest");
#else
	/* (error paths after the attribute was located may leave its value zeroed / overwritten) */
	VF_ASSERT(vf_rad_k >= cap || pkt[vf_rad_k] == before ||
	    ((r == 0 || r == EINVAL || r == EBADMSG) && o >= 20 && vf_rad_k >= o + 2 && vf_rad_k < o + 18), "frame: only the 16 value bytes of that attribute can change");
#endif
#elif defined(VF_FN_verify)
	r = radius_pkt_verify(p, key, key_len, rq);
	VF_ASSERT(vf_hm_n <= 1 && vf_md5_n <= 1 + 8, "at most one HMAC (Message-Authenticator) and one MD5 (authenticator) before un-hiding the password");
	if (r == 0) {
		/* accepted => the Response Authenticator check accepted ... */
		VF_ASSERT(VF_RAD_CODE_RANDOM(code) || (vf_md5_n >= 1 && vf_md5_len[0] == len0 + key_len), "accepted: authenticator hashed over LEN + |secret| bytes (unless random by type)");
		VF_ASSERT(VF_RAD_CODE_RANDOM(code) || vf_md5_k < 4 || vf_md5_k >= 20 || pkt[vf_md5_k] == vf_md5_dig[0][vf_md5_k - 4],
		    "accepted: every byte of the authenticator field equals the digest");
		VF_ASSERT(VF_RAD_CODE_RANDOM(code) || vf_md5_k >= len0 + key_len || (vf_md5_k >= 20 && vf_md5_k < len0) ||
		    vf_md5_at[0] == ((vf_md5_k < 4) ? pkt[vf_md5_k] : (vf_md5_k < 20) ? (VF_RAD_CODE_ZEROAUTH(code) ? 0 : req[vf_md5_k]) : key[vf_md5_k - len0]),
		    "accepted: MD5 input == Code||Id||Len||(zeros | request authenticator)||...||Secret (header and secret positions)");
		/* ... and, if there is a Message-Authenticator, its check accepted with this secret */
		VF_ASSERT(vf_hm_n == 0 || (vf_hm_key[0] == key && vf_hm_key_len[0] == key_len && vf_hm_len[0] == len0), "accepted: the HMAC (if any) was keyed with the secret over the whole packet");
	}
	/* rejected on an authenticator mismatch: a digest byte that differs from the field is never accepted */
	VF_ASSERT(!(vf_md5_n >= 1 && !VF_RAD_CODE_RANDOM(code) && vf_md5_k >= 4 && vf_md5_k < 20 && before_auth != vf_md5_dig[0][vf_md5_k - 4]) || r != 0,
	    "any authenticator byte that differs from the digest => rejected");
	VF_ASSERT(pkt[2] == (uint8_t)(len0 >> 8) && pkt[3] == (uint8_t)len0 && pkt[0] == code, "frame: header untouched");
#elif defined(VF_FN_sign)
	VF_NONDET(int, add_ma);
	size_t size = 0, o = len0, na;
	r = radius_pkt_sign(p, cap, &size, key, key_len, add_ma);
	if (r == 0) {
		size_t len1 = VF_RAD_LEN(pkt);
		VF_ASSERT(size == len1 && len1 <= cap, "new length reported, inside the buffer");
		VF_ASSERT(len1 == (add_ma ? len0 + 18 : len0), "length grows by exactly the Message-Authenticator attribute when requested");
		if (add_ma) {
			/* the Message-Authenticator is placed at the old end ... */
			VF_ASSERT(pkt[o] == 80 && pkt[o + 1] == 18, "Message-Authenticator appended: type 80, length 18");
			VF_ASSERT(vf_hm_n == 1 && vf_hm_key[0] == key && vf_hm_key_len[0] == key_len && vf_hm_len[0] == len1, "one HMAC keyed with the secret over the FINAL length");
			VF_ASSERT(VF_HM_DIG_IS(pkt + o + 2, 0), "its value == the HMAC digest");
			/* ... computed over the final packet bytes (authenticator field as it was: the request authenticator / placeholder) */
			VF_ASSERT(vf_md5_k >= len1 || vf_hm_at[0] == MA_IN(vf_md5_k, pkt, o, before_auth),
			    "HMAC input == the FINAL packet bytes, Message-Authenticator value as zeros, authenticator field as at entry");
		}
		/* the User-Password was hidden in place first (RFC 2865 5.2, one block): c = p xor MD5(secret || request authenticator) */
		{
			size_t po = 20 + 2 + l1 + 2;	/* value of the User-Password attribute */
			VF_NONDET(size_t, m);
			VF_ASSUME(m < 16);
			VF_ASSERT(vf_md5_n >= 1 && vf_md5_len[0] == key_len + 16, "password: first MD5 over |secret| + 16 bytes");
			VF_ASSERT(vf_md5_k >= key_len + 16 || vf_md5_at[0] == ((vf_md5_k < key_len) ? key[vf_md5_k] : auth0.b[vf_md5_k - key_len]) ||
			    !VF_RAD_INIT_COPIES(code0), "password: MD5 input == secret || request authenticator");
			VF_ASSERT(pkt[po + m] == (uint8_t)(((m < pwl) ? pwtext.b[m] : 0) ^ vf_md5_dig[0][m]), "password: hidden value == padded password xor digest");
		}
		/* the authenticator is computed last, over the final bytes (Message-Authenticator digest included) */
		na = vf_md5_n;
		if (VF_RAD_CODE_RANDOM(code)) {
			VF_ASSERT(vf_md5_k < 4 || vf_md5_k >= 20 || pkt[vf_md5_k] == before_auth, "random authenticator (Access-Request, Status-*) left as supplied");
		} else {
			VF_ASSERT(na >= 1 && vf_md5_len[na - 1] == len1 + key_len, "authenticator: last MD5 over FINAL length + |secret|");
			VF_ASSERT(vf_md5_k < 4 || vf_md5_k >= 20 || pkt[vf_md5_k] == vf_md5_dig[na - 1][vf_md5_k - 4], "authenticator field == that digest");
			VF_ASSERT(vf_md5_k >= len1 + key_len || vf_md5_at[na - 1] ==
			    ((vf_md5_k >= 4 && vf_md5_k < 20) ? before_auth : (vf_md5_k < len1) ? pkt[vf_md5_k] : key[vf_md5_k - len1]),
			    "MD5 input == Code||Id||Len||field as at entry||FINAL attributes||Secret");
		}
	} else {
		VF_ASSERT(VF_RAD_LEN(pkt) == len0 || (add_ma && VF_RAD_LEN(pkt) == len0 + 18), "failure: length field consistent");
	}
#else
#error "select VF_FN_ma_chk, VF_FN_ma_update, VF_FN_verify or VF_FN_sign"
#endif
	VF_CANARY("radius drivers harness end");
}
