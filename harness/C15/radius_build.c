/* C15: construction side of include/proto/radius.h, --dfcc, unbounded sizes: the packet buffer is
 * an exact-size fresh object of symbolic capacity (every capacity), header length 20..capacity,
 * buffer content arbitrary.  -DVF_FN_<name>: len_chk init alloc_raw add_raw add */
#define VF_RAD_BUILD_STUBS
#include "contracts/radius.h"
#include "stubs/radius.h"
#include "proto/radius.h"

size_t vf_rad_span, vf_rad_k, vf_rad_z, vf_rad_len_old;
uint8_t vf_rad_old;

void harness(void) {
	VF_NONDET(size_t, cap);
	VF_ASSUME(cap <= VF_RAD_PKT_MAX);
	VF_NONDET(size_t, gk);
	VF_NONDET(size_t, gz);
	VF_NONDET(uint8_t, type);
	VF_NONDET(uint8_t, len);
	vf_rad_span = cap; vf_rad_k = gk; vf_rad_z = gz;
	int r = 0;
#if defined(VF_FN_len_chk)
	r = radius_attr_len_chk(type, len);
#elif defined(VF_FN_init)
	VF_NONDET(uint8_t, id);
	VF_FRESH_PTR_OPT(uint8_t, pkt, cap);
	VF_FRESH_PTR_OPT(size_t, size_ret, sizeof(size_t));
	VF_FRESH_PTR_OPT(uint8_t, auth, 16);
	r = radius_pkt_init((rad_pkt_hdr_p)pkt, cap, size_ret, type, id, auth);
#else
	VF_ASSUME(cap >= VF_RAD_HDR_SIZE);
	VF_NONDET(size_t, len0);	/* native replay: header length to install */
	VF_FRESH_PTR_OPT(uint8_t, pkt, cap);
	VF_FRESH_PTR_OPT(size_t, size_ret, sizeof(size_t));
	VF_FRESH_PTR_OPT(size_t, offset_ret, sizeof(size_t));
#ifdef VF_REPLAY
	if (pkt != NULL) {
		if (len0 < 20 || len0 > cap) len0 = 20;
		pkt[2] = (uint8_t)(len0 >> 8); pkt[3] = (uint8_t)len0;
	}
#endif
#if defined(VF_FN_alloc_raw)
	VF_FRESH_PTR_OPT(rad_pkt_attr_p, attr_ret, sizeof(rad_pkt_attr_p));
	r = radius_pkt_attr_alloc_raw((rad_pkt_hdr_p)pkt, cap, size_ret, type, len, attr_ret, offset_ret);
#elif defined(VF_FN_add_raw)
	VF_FRESH_PTR_OPT(rad_pkt_attr_p, attr_ret, sizeof(rad_pkt_attr_p));
	VF_FRESH_PTR_OPT(uint8_t, data, len == 0 ? 1 : len);
	r = radius_pkt_attr_add_raw((rad_pkt_hdr_p)pkt, cap, size_ret, type, len, data, attr_ret, offset_ret);
#elif defined(VF_FN_add)
	VF_FRESH_PTR_OPT(uint8_t, data, len == 0 ? 1 : len);
	VF_ASSUME(type == 80 || data != NULL);
#if VF_ADD_CASE == 2		/* one solver run per special case: User-Password, Message-Authenticator, the rest */
	VF_ASSUME(type == 2);
#elif VF_ADD_CASE == 80
	VF_ASSUME(type == 80);
#else
	VF_ASSUME(type != 2 && type != 80);
#endif
	r = radius_pkt_attr_add((rad_pkt_hdr_p)pkt, cap, size_ret, type, len, data, offset_ret);
#else
#error "select a function with -DVF_FN_<name>"
#endif
	VF_NATIVE_POST(r != 0 || pkt == NULL || VF_RAD_LEN(pkt) <= cap, "new length inside the buffer");
#endif
	(void)r;
	VF_CANARY("radius build harness end");
}
