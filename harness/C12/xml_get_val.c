/* C12: xml_get_val_arr / xml_get_val_ns_arr (src/utils/xml.c) on hostile bytes.  Bounded route:
 * xml_data of symbolic size <= VF_XML_DATA_MAX in an exact-size object with symbolic content,
 * tag path of 1..2 names of <= VF_XML_TAG_MAX symbolic bytes in exact-size tables, next_pos
 * absent / NULL / any position inside or one past the data, every out-parameter possibly NULL;
 * memchr/memmem by stubs/libc_models.h; loops fully unwound.  -DVF_FN_arr | -DVF_FN_ns_arr. */
#include "contracts/xml.h"
#include "src/utils/xml.c"
#include "stubs/libc_models.h"

#if VF_XML_DATA_MAX <= 8
#define VF_XML_DATA VF_EXACT8
#else
#define VF_XML_DATA VF_EXACT16
#endif

void harness(void) {
	VF_NONDET(size_t, data_size);
	VF_NONDET(size_t, tag_count);
	VF_NONDET(size_t, t0);
	VF_NONDET(size_t, t1);
	VF_NONDET(uint8_t, np_mode);	/* 0: next_pos == NULL, 1: *next_pos == NULL, 2: *next_pos = data + np_off */
	VF_NONDET(size_t, np_off);
	VF_NONDET(uint8_t, nulls);
	VF_ASSUME(data_size <= VF_XML_DATA_MAX && tag_count <= VF_XML_TAGS_MAX);
	VF_ASSUME(t0 <= VF_XML_TAG_MAX && t1 <= VF_XML_TAG_MAX);
	VF_ASSUME(np_mode <= 2 && np_off <= data_size);
	VF_XML_DATA(xml_data, data_size)
	VF_EXACT4(tag0, t0)
	VF_EXACT4(tag1, t1)
	VF_TABLE2(vf_cu8p, tag_arr, tag_count)
	VF_TABLE2(size_t, tag_arr_cnt, tag_count)
	if (tag_count > 0) { tag_arr[0] = tag0; tag_arr_cnt[0] = t0; }
	if (tag_count > 1) { tag_arr[1] = tag1; tag_arr_cnt[1] = t1; }
	const uint8_t *np = (np_mode == 2) ? xml_data + np_off : NULL, *np0 = np;
	const uint8_t **next_pos = (np_mode == 0) ? NULL : &np;
	const uint8_t *attr_s = NULL, *val_s = NULL;
	size_t attr_sz = 0, val_sz = 0;
	const uint8_t **ret_attr = (nulls & 1) ? NULL : &attr_s, **ret_value = (nulls & 4) ? NULL : &val_s;
	size_t *ret_attr_size = (nulls & 2) ? NULL : &attr_sz, *ret_value_size = (nulls & 8) ? NULL : &val_sz;
#if defined(VF_FN_arr)
	VF_ASSUME(tag_count >= 1);
	int r = xml_get_val_arr(xml_data, data_size, next_pos, tag_count, tag_arr, tag_arr_cnt,
	    ret_attr, ret_attr_size, ret_value, ret_value_size);
	VF_NATIVE_POST(r == 0 || r == ESPIPE, "return code");
#elif defined(VF_FN_ns_arr)
	VF_TABLE2(vf_cu8p, ns_x, tag_count)
	VF_TABLE2(size_t, ns_size_x, tag_count)
	const uint8_t **ret_ns = (nulls & 16) ? NULL : ns_x;
	size_t *ret_ns_size = (nulls & 32) ? NULL : ns_size_x;
	const uint8_t *data_or_null = (nulls & 64) ? NULL : xml_data;
	int r = xml_get_val_ns_arr(data_or_null, data_size, next_pos, tag_count,
	    (nulls & 128) ? NULL : tag_arr, tag_arr_cnt, ret_ns, ret_ns_size,
	    ret_attr, ret_attr_size, ret_value, ret_value_size);
	VF_NATIVE_POST(r == 0 || r == ESPIPE || r == EINVAL, "return code");
#endif
	/* native oracle: everything handed back lies inside the buffer */
	VF_NATIVE_POST(r != 0 || val_s == NULL || (val_s >= xml_data && val_sz <= data_size &&
	    (size_t)(val_s - xml_data) <= data_size - val_sz), "value inside the buffer");
	VF_NATIVE_POST(r != 0 || attr_s == NULL || (attr_s >= xml_data && attr_sz <= data_size &&
	    (size_t)(attr_s - xml_data) <= data_size - attr_sz), "attribute inside the buffer");
	VF_NATIVE_POST(r != 0 || next_pos == NULL || (np >= xml_data && (size_t)(np - xml_data) <= data_size),
	    "next_pos inside the buffer");
	VF_NATIVE_POST(r == 0 || np == np0, "failed search leaves next_pos alone");
	VF_CANARY("xml_get_val harness end");
}
