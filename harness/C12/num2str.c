/* C12/C14: every <type>2str / <type>2ustr function of include/utils/num2str.h.
 * -DFN=<function> -DNT=<number type> -DCT=<char type> -DTXTLEN=VF_TXTLEN_U|VF_TXTLEN_S */
#include "contracts/num2str.h"
#include "utils/num2str.h"

void harness(void) {
	VF_NONDET(NT, num);
	VF_NONDET(size_t, buf_size);
	VF_FRESH_PTR_OPT(CT, buf, buf_size);
	size_t ret_store = 0;
#ifdef VF_REPLAY
	size_t *buf_size_ret = &ret_store;
#else
	size_t *buf_size_ret;
#endif
	int r = FN(num, buf, buf_size, buf_size_ret);
	VF_NATIVE_POST(r == 0 || r == EINVAL || r == ENOSPC, "return code");
	VF_NATIVE_POST(buf == NULL || buf_size == 0 || (r == 0) == (buf_size >= TXTLEN(num) + 1),
	    "success iff text + NUL fits");
	VF_CANARY("num2str harness end");
}
