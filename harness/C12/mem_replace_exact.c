/* C12: mem_replace_arr - "an exactly-sized destination, including the size the function itself
 * reported, is sufficient; a smaller one is refused, not overflowed".  Plain harness, three
 * calls on the same symbolic input:
 *   1. capacity VF_MRA_DST_MAX (>= every possible output)   -> must succeed, reports n1
 *   2. capacity exactly n1 (exact-size object)               -> must succeed, same n1, same bytes
 *   3. capacity n1 - 1 (exact-size object)                   -> must return ENOBUFS
 * Bounded route: src_size <= VF_MRA_SRC_MAX, <= 2 patterns of <= VF_MRA_PAT_MAX bytes, all
 * symbolic; libc models as in mem_replace.c; loops fully unwound. */
#define VF_BYTE_LOOP_MEMCPY
#define VF_MRA_NO_CONTRACT
#include "contracts/mem_replace.h"
#include "utils/mem_utils.h"
#include "stubs/libc_models.h"

void harness(void) {
	VF_NONDET(size_t, src_size);
	VF_NONDET(size_t, repl_count);
	VF_NONDET(size_t, s0);
	VF_NONDET(size_t, s1);
	VF_NONDET(size_t, d0);
	VF_NONDET(size_t, d1);
	VF_ASSUME(src_size <= VF_MRA_SRC_MAX && repl_count <= VF_MRA_K_MAX);
	VF_ASSUME(s0 <= VF_MRA_PAT_MAX && s1 <= VF_MRA_PAT_MAX && d0 <= VF_MRA_PAT_MAX && d1 <= VF_MRA_PAT_MAX);
	VF_EXACT8(src, src_size)
	VF_EXACT4(p0, s0)
	VF_EXACT4(p1, s1)
	VF_EXACT4(q0, d0)
	VF_EXACT4(q1, d1)
	const void *src_repl[2] = { p0, p1 }, *dst_repl[2] = { q0, q1 };
	size_t src_repl_counts[2] = { s0, s1 }, dst_repl_counts[2] = { d0, d1 };
	size_t n1 = 0, n2 = 0, n3 = 0, i;

	/* 1. a destination that is large enough for every output of this bound */
#ifdef VF_REPLAY
	uint8_t *big = (uint8_t *)malloc(VF_MRA_DST_MAX);
#else
	uint8_t big[VF_MRA_DST_MAX];
#endif
	int r1 = mem_replace_arr(src, src_size, repl_count, NULL, src_repl, src_repl_counts,
	    dst_repl, dst_repl_counts, big, VF_MRA_DST_MAX, &n1, NULL);
	VF_ASSERT(r1 == 0, "a destination of the maximal possible output size is accepted");
	VF_ASSERT(n1 <= VF_MRA_DST_MAX, "reported length inside the capacity");
	VF_ASSUME(r1 == 0 && n1 <= 8);	/* continue only from the asserted state */

	/* 2. exactly the reported size */
	VF_EXACT8(exact, n1)
	int r2 = mem_replace_arr(src, src_size, repl_count, NULL, src_repl, src_repl_counts,
	    dst_repl, dst_repl_counts, exact, n1, &n2, NULL);
	VF_ASSERT(r2 == 0, "a destination of exactly the reported size is sufficient");
	VF_ASSERT(r2 != 0 || n2 == n1, "same length reported for the same input");
	for (i = 0; i < 8; i ++) {
		if (r2 == 0 && i < n1 && i < n2)
			VF_ASSERT(exact[i] == big[i], "same bytes produced for the same input");
	}

	/* 3. one byte less */
	if (n1 > 0) {
		size_t less = n1 - 1;
		VF_EXACT8(small, less)
		int r3 = mem_replace_arr(src, src_size, repl_count, NULL, src_repl, src_repl_counts,
		    dst_repl, dst_repl_counts, small, less, &n3, NULL);
		VF_ASSERT(r3 == ENOBUFS, "a destination one byte too small is refused with ENOBUFS");
	}
	VF_CANARY("mem_replace_exact harness end");
}
