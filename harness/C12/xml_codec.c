/* C12: xml_encode / xml_decode (src/utils/xml.c) = mem_replace_arr with the five real XML entity
 * tables, real code inlined.  Bounded route: source of symbolic size <= VF_XML_SRC_MAX in an
 * exact-size object, symbolic content, destination capacity 0..VF_XML_DST_MAX (>= required + 1),
 * every optional pointer possibly NULL; memmem by stubs/libc_models.h, memcpy/memmove by the
 * byte loops of contracts/mem_replace.h; loops fully unwound.  -DVF_FN_encode | -DVF_FN_decode. */
#define VF_BYTE_LOOP_MEMCPY
#include "contracts/xml.h"
#include "src/utils/xml.c"
#include "stubs/libc_models.h"

void harness(void) {
	VF_NONDET(size_t, src_size);
	VF_NONDET(size_t, dst_size);
	VF_NONDET(uint8_t, nulls);
	VF_ASSUME(src_size <= VF_XML_SRC_MAX && dst_size <= VF_XML_DST_MAX);
#ifndef VF_REPLAY
	/* --dfcc havocs mutable file-scope objects: re-establish the initialisers of xml.c */
	xml_tags[0] = "&apos;"; xml_tags[1] = "&quot;"; xml_tags[2] = "&amp;"; xml_tags[3] = "&lt;"; xml_tags[4] = "&gt;";
	xml_symbols[0] = "\'"; xml_symbols[1] = "\""; xml_symbols[2] = "&"; xml_symbols[3] = "<"; xml_symbols[4] = ">";
#endif
	VF_EXACT8_OPT(src, src_size, nulls & 1)
	VF_FLUSH_END(dst_x, dst_size, VF_XML_DST_MAX)
	uint8_t *dst = (nulls & 2) ? NULL : dst_x;
	size_t ret_s = 0, *ret = (nulls & 4) ? NULL : &ret_s;
#if defined(VF_FN_encode)
	int r = xml_encode(src, src_size, dst, dst_size, ret);
	VF_NATIVE_POST(r != 0 || (ret_s <= dst_size && ret_s >= src_size), "reported length inside the capacity");
#elif defined(VF_FN_decode)
	int r = xml_decode(src, src_size, dst, dst_size, ret);
	VF_NATIVE_POST(r != 0 || (ret_s <= dst_size && ret_s <= src_size), "reported length inside the capacity");
#endif
	VF_NATIVE_POST(r == 0 || r == EINVAL || r == ENOBUFS, "return code");
	VF_CANARY("xml_codec harness end");
}
