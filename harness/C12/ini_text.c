/* C12 (INI part): memory discipline of ini_buf_calc_size / ini_buf_gen on every store shape
 * of the bounded model and EVERY destination capacity 0 .. required + 1.
 * The obligations are those of the C17 harness: the destination is an exact-size heap
 * object of symbolic size (one byte past the capacity fails a pointer obligation and the
 * assigns clause), the store is read-only (frame), the reported size is the size written.
 * -DVF_FN_ini_buf_calc_size | -DVF_FN_ini_buf_gen */
#include "harness/C17/gen.c"
