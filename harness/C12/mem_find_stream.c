/* C12: mem_find_stream; bounded sizes, CBMC's own memchr/memcmp models, full unwinding. */
#include "contracts/mem_utils.h"
#include "utils/mem_utils.h"
#include "stubs/libc_models.h"
void harness(void) {
	VF_NONDET(size_t, buf_size);
	VF_NONDET(size_t, what_size);
	VF_NONDET(size_t, state0);
	VF_ASSUME(buf_size <= VF_MFS_BUF_MAX && what_size <= VF_MFS_WHAT_MAX);
	VF_FRESH_PTR_OPT(uint8_t, buf, buf_size);
	VF_FRESH_PTR_OPT(uint8_t, what, what_size);
#ifdef VF_REPLAY
	size_t st = state0, oe = 0; size_t *state = &st, *off_end = &oe;
#else
	size_t *state, *off_end;
#endif
	int r = mem_find_stream(buf, buf_size, what, what_size, state, off_end);
	VF_NATIVE_POST(r != 0 || *off_end <= buf_size, "match end inside the buffer");
	VF_CANARY("mem_find_stream harness end");
}
