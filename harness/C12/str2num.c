/* C12: str2num / ustr2num read exactly the given span, unbounded length (loop contracts).
 * -DFN=<function> -DCT=<char type> -DHDR=<header> -DCONTRACTS=<contract header> */
#include "contracts/str2num.h"
#include "contracts/strh2num.h"
#include "utils/str2num.h"
#include "utils/strh2num.h"

void harness(void) {
	VF_NONDET(size_t, str_len);
	VF_FRESH_PTR_OPT(CT, str, str_len);
	(void)FN(str, str_len);
	VF_CANARY("str2num harness end");
}
