/* C12: mem_replace_arr, generic tables (<= 2 patterns), bounded route: exact-size spans of
 * symbolic size and content, every destination capacity 0..VF_MRA_DST_MAX, libc search
 * functions given by the executable models of stubs/libc_models.h, loops fully unwound. */
#include "contracts/mem_replace.h"
#include <string.h>
#include <stdlib.h>
#include "utils/mem_utils.h"
#include "stubs/libc_models.h"

void harness(void) {
	VF_NONDET(size_t, src_size);
	VF_NONDET(size_t, dst_size);
	VF_NONDET(size_t, repl_count);
	VF_NONDET(size_t, s0);
	VF_NONDET(size_t, s1);
	VF_NONDET(size_t, d0);
	VF_NONDET(size_t, d1);
	VF_ASSUME(src_size <= VF_MRA_SRC_MAX && dst_size <= VF_MRA_DST_MAX && repl_count <= VF_MRA_K_MAX);
	VF_ASSUME(s0 <= VF_MRA_PAT_MAX && s1 <= VF_MRA_PAT_MAX && d0 <= VF_MRA_PAT_MAX && d1 <= VF_MRA_PAT_MAX);
	VF_FRESH_PTR_OPT(uint8_t, src, src_size);
	VF_FRESH_PTR_OPT(uint8_t, dst, dst_size);
	VF_FRESH_PTR(const void *, src_repl, repl_count * sizeof(void *));
	VF_FRESH_PTR(const void *, dst_repl, repl_count * sizeof(void *));
	VF_FRESH_PTR(size_t, src_repl_counts, repl_count * sizeof(size_t));
	VF_FRESH_PTR(size_t, dst_repl_counts, repl_count * sizeof(size_t));
#ifdef VF_REPLAY
	size_t ret_s = 0, rep_s = 0, *dst_size_ret = &ret_s, *replaced = &rep_s;
	size_t sc[2] = { s0, s1 }, dc[2] = { d0, d1 };
	static const char *nm[4] = { "spat0", "spat1", "dpat0", "dpat1" };
	for (size_t i = 0; i < repl_count; i ++) {
		src_repl_counts[i] = sc[i];
		dst_repl_counts[i] = dc[i];
		src_repl[i] = vf_replay_alloc(nm[i], sc[i], 0);
		dst_repl[i] = vf_replay_alloc(nm[2 + i], dc[i], 0);
	}
#else
	size_t *dst_size_ret, *replaced;
	(void)s0; (void)s1; (void)d0; (void)d1;
#endif
	int r = mem_replace_arr(src, src_size, repl_count, NULL, src_repl, src_repl_counts,
	    dst_repl, dst_repl_counts, dst, dst_size, dst_size_ret, replaced);
	VF_NATIVE_POST(r == 0 || r == EINVAL || r == ENOBUFS, "return code");
	VF_NATIVE_POST(r != 0 || *dst_size_ret <= dst_size, "reported length inside the capacity");
	VF_CANARY("mem_replace harness end");
}
