/* C12: mem_replace_arr, generic tables (<= 2 patterns), bounded route: exact-size objects of
 * symbolic size and content for every span and table, every destination capacity
 * 0..VF_MRA_DST_MAX, libc search functions given by the executable models of
 * stubs/libc_models.h, memcpy/memmove by the byte loops of contracts/mem_replace.h, all loops
 * fully unwound (unwinding assertions). */
#define VF_BYTE_LOOP_MEMCPY
#include "contracts/mem_replace.h"
#include "utils/mem_utils.h"
#include "stubs/libc_models.h"

#if VF_MRA_DST_MAX <= 8
#define VF_DST_OPT VF_EXACT8_OPT
#else
#define VF_DST_OPT VF_EXACT16_OPT
#endif
void harness(void) {
	VF_NONDET(size_t, src_size);
	VF_NONDET(size_t, dst_size);
	VF_NONDET(size_t, repl_count);
	VF_NONDET(size_t, s0);
	VF_NONDET(size_t, s1);
	VF_NONDET(size_t, d0);
	VF_NONDET(size_t, d1);
	VF_NONDET(uint8_t, nulls);	/* which optional pointers are NULL */
	VF_ASSUME(src_size <= VF_MRA_SRC_MAX && dst_size <= VF_MRA_DST_MAX && repl_count <= VF_MRA_K_MAX);
	VF_ASSUME(s0 <= VF_MRA_PAT_MAX && s1 <= VF_MRA_PAT_MAX && d0 <= VF_MRA_PAT_MAX && d1 <= VF_MRA_PAT_MAX);
	VF_EXACT8_OPT(src, src_size, nulls & 1)
	VF_DST_OPT(dst, dst_size, nulls & 2)
	VF_EXACT4(p0, s0)
	VF_EXACT4(p1, s1)
	VF_EXACT4(q0, d0)
	VF_EXACT4(q1, d1)
	VF_TABLE2(vf_cvp, src_repl_x, repl_count)
	VF_TABLE2(vf_cvp, dst_repl_x, repl_count)
	VF_TABLE2(size_t, src_repl_counts, repl_count)
	VF_TABLE2(size_t, dst_repl_counts, repl_count)
	if (repl_count > 0) {
		src_repl_x[0] = p0; dst_repl_x[0] = q0; src_repl_counts[0] = s0; dst_repl_counts[0] = d0;
	}
	if (repl_count > 1) {
		src_repl_x[1] = p1; dst_repl_x[1] = q1; src_repl_counts[1] = s1; dst_repl_counts[1] = d1;
	}
	/* absent tables are only legal without patterns */
	const void **src_repl = (repl_count == 0 && (nulls & 4)) ? NULL : src_repl_x;
	const void **dst_repl = (repl_count == 0 && (nulls & 8)) ? NULL : dst_repl_x;
	size_t ret_s = 0, rep_s = 0;
	size_t *dst_size_ret = (nulls & 16) ? NULL : &ret_s, *replaced = (nulls & 32) ? NULL : &rep_s;

	int r = mem_replace_arr(src, src_size, repl_count, NULL, src_repl, src_repl_counts,
	    dst_repl, dst_repl_counts, dst, dst_size, dst_size_ret, replaced);

	VF_NATIVE_POST(r == 0 || r == EINVAL || r == ENOBUFS, "return code");
	VF_NATIVE_POST(r != 0 || ret_s <= dst_size, "reported length inside the capacity");
	VF_CANARY("mem_replace harness end");
}
