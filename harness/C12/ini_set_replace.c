/* C12 / C17: ini_val_set replacing the value of an EXISTING key - the path that decides
 * between "update in place" and "realloc" from line->data_allocated_size.
 *
 * Shape (bounded, stated in the job): a store of two lines, "[s]" and "k=<old>", built by
 * the harness as heap objects of their exact size.  The value line's record has the
 * capacity VF_CAP (job parameter: the data area really allocated behind the header, which
 * is what data_allocated_size claims), its old data size is symbolic (2 .. VF_CAP - 1,
 * i.e. any state the in-place path can have left behind: data_size < capacity), the new
 * value has a symbolic length 0..VF_VMAX and symbolic bytes.  realloc (stub below) may
 * fail; otherwise it frees the old record and returns a fresh object with the old content,
 * of the constant size VF_NEWSZ >= every request the bounds allow (a symbolic-size heap
 * object makes CBMC run out of memory here), and records the REQUESTED size in a ghost;
 * the capacity assertion below compares the record's claim with that requested size.
 *
 * Decided: no byte outside the record that holds the line is written (pointer checks on
 * the exact-size objects), the record's claimed capacity never exceeds the object
 * (so the next in-place decision is sound as well), and on success the line is
 * "k=" + new value byte for byte (ghost index) with data_size / val_size to match; on
 * failure (ENOMEM) the old line is still intact. */
#include "vf/vf.h"
#include "src/utils/ini.c"

#ifndef VF_CAP
#define VF_CAP	4
#endif
#ifndef VF_VMAX
#define VF_VMAX	8
#endif

#ifndef VF_REPLAY
/* byte-loop models: cbmc's built-in memcpy/memcmp go through array theory for symbolic lengths */
void *memcpy(void *dst, const void *src, size_t n) {
	for (size_t i = 0; i < n; i ++)
		((unsigned char *)dst)[i] = ((const unsigned char *)src)[i];
	return (dst);
}
void *memmove(void *dst, const void *src, size_t n) {	/* line-table shift: not reached when the key exists */
	unsigned char *d = dst; const unsigned char *s_ = src;
	if (d < s_) for (size_t i = 0; i < n; i ++) d[i] = s_[i];
	else for (size_t i = n; i > 0; i --) d[i - 1] = s_[i - 1];
	return (dst);
}
int memcmp(const void *a, const void *b, size_t n) {
	for (size_t i = 0; i < n; i ++) {
		unsigned char x = ((const unsigned char *)a)[i], y = ((const unsigned char *)b)[i];
		if (x != y)
			return (x < y ? -1 : 1);
	}
	return (0);
}
#define VF_NEWSZ	(sizeof(ini_line_t) + 2 + VF_VMAX + INI_LINE_ALLOC_PADDING)
static size_t vf_req;		/* ghost: size requested from realloc */
static void *vf_new;		/* ghost: object realloc returned */
_Bool nondet_realloc_fails(void);
void *realloc(void *p, size_t n) {
	struct vf_old { unsigned char b[sizeof(ini_line_t) + VF_CAP]; };
	__CPROVER_assert(p != NULL && n >= sizeof(struct vf_old) && n <= VF_NEWSZ,
	    "realloc stub: request within the harness bounds");
	if (nondet_realloc_fails()) {
		errno = ENOMEM;
		return (NULL);
	}
	unsigned char *q = malloc(VF_NEWSZ);
	__CPROVER_assume(q != NULL);
	*(struct vf_old *)q = *(const struct vf_old *)p;
	free(p);
	vf_req = n;
	vf_new = q;
	return (q);
}
#define VF_OBJ_SIZE(p)	((const void *)(p) == vf_new ? vf_req : __CPROVER_OBJECT_SIZE(p))
#else
#include "src/utils/buf_str.c"	/* buf_get_next_line: link dependency of ini_buf_parse in the native replay */
#include <malloc.h>
#define VF_OBJ_SIZE(p)	malloc_usable_size((void *)(p))
#endif

void harness(void) {
	/* the store header, the line table and the section line are not reallocated or freed on
	 * this path: plain objects (exact size, pointer-checked) keep symbolic execution small */
	static ini_t ini_obj;
	static ini_line_p tbl[4];
	static struct { ini_line_t h; uint8_t d[3 + INI_LINE_ALLOC_PADDING]; } l0_obj;
	ini_t *ini = &ini_obj;
	ini_line_p l0 = &l0_obj.h;
	ini_line_p l1 = malloc(sizeof(ini_line_t) + VF_CAP);
	VF_ASSUME(l1 != NULL);

	l0->data = l0_obj.d;
	l0->data_size = 3;
	l0->data_allocated_size = 3 + INI_LINE_ALLOC_PADDING;
	l0->type = INI_LINE_TYPE_SECTION;
	l0->data[0] = '['; l0->data[1] = 's'; l0->data[2] = ']';
	l0->name = l0->data + 1; l0->name_size = 1;
	l0->val = NULL; l0->val_size = 0;

	VF_NONDET(size_t, old_vsz);
	VF_ASSUME(old_vsz < VF_CAP && 2 + old_vsz < VF_CAP);	/* data_size < capacity: what every path of the library leaves */
	l1->data = (uint8_t *)(l1 + 1);
	l1->data_size = 2 + old_vsz;
	l1->data_allocated_size = VF_CAP;
	l1->type = INI_LINE_TYPE_VALUE;
	l1->data[0] = 'k'; l1->data[1] = '=';
	l1->name = l1->data; l1->name_size = 1;
	l1->val = l1->data + 2; l1->val_size = old_vsz;
	VF_NONDET(uint8_t, old_byte);
	VF_NONDET(size_t, ghost_o);		/* any old value byte */
	if (ghost_o < old_vsz)
		l1->val[ghost_o] = old_byte;

	tbl[0] = l0; tbl[1] = l1; tbl[2] = NULL; tbl[3] = NULL;
	ini->lines = tbl; ini->lines_count = 2; ini->lines_allocated = 4;

	VF_NONDET(size_t, val_size);
	VF_ASSUME(val_size <= VF_VMAX);
	VF_NONDET_BYTES(val, VF_VMAX + 1);
	VF_NONDET(size_t, ghost_j);		/* any new value byte */

	int r = ini_val_set(ini, (const uint8_t *)"s", 1, (const uint8_t *)"k", 1, val.b, val_size);

	VF_ASSERT(ini->lines == tbl && ini->lines_count == 2 && ini->lines_allocated == 4 &&
	    ini->lines[0] == l0, "ini_val_set(existing key): table and the other line untouched");
	ini_line_p l = ini->lines[1];
	VF_ASSERT(l != NULL && l->data == (uint8_t *)(l + 1) && l->name == l->data &&
	    l->name_size == 1 && l->val == l->data + 2 && l->type == INI_LINE_TYPE_VALUE,
	    "ini_val_set(existing key): record layout name '=' value inside the record");
	VF_ASSERT(l->data_size < l->data_allocated_size &&
	    sizeof(ini_line_t) + l->data_allocated_size <= VF_OBJ_SIZE(l),
	    "ini_val_set(existing key): claimed capacity is really allocated and exceeds the data size");
	VF_ASSERT(l->data[0] == 'k' && l->data[1] == '=', "ini_val_set(existing key): name and '=' kept");
	if (r == 0) {
		VF_ASSERT(l->data_size == 2 + val_size && l->val_size == val_size,
		    "ini_val_set(existing key): sizes are those of name '=' new value");
		VF_ASSERT(ghost_j >= val_size || l->val[ghost_j] == val.b[ghost_j], "ini_val_set(existing key): value bytes stored (ghost index)");
	} else {
		VF_ASSERT(l == l1 && l->data_size == 2 + old_vsz && l->val_size == old_vsz &&
		    (ghost_o >= old_vsz || l->val[ghost_o] == old_byte), "ini_val_set(existing key) failed: old line intact");
	}
	VF_CANARY("ini set-replace harness end");
}
