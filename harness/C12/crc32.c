/* C12: crc32_* read only table[0..N) and buf[0..buf_size); unbounded buf_size. */
#include "contracts/crc32.h"
#include <string.h>
#include "math/crc32.h"
void harness(void) {
	VF_NONDET(size_t, buf_size);
	VF_NONDET(uint32_t, init);
	VF_FRESH_PTR_OPT(uint8_t, buf, buf_size);
	VF_FRESH_PTR(uint32_t, tbl, TBLN * sizeof(uint32_t));
#ifdef VF_REFLECT_BOTH
	VF_FRESH_PTR_OPT(uint32_t, tbl16, 16 * sizeof(uint32_t));
	(void)crc32_reflect(tbl, tbl16, init, buf, buf_size);
#else
	(void)FN(tbl, init, buf, buf_size);
#endif
	VF_CANARY("crc32 harness end");
}
