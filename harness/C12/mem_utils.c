/* C12: include/utils/mem_utils.h search / compare / case helpers; unbounded sizes.
 * libc primitives replaced by the assumed contracts in stubs/libc.h. -DVF_FN_<name>. */
#include "contracts/mem_utils.h"
#include "stubs/libc.h"
#include "utils/mem_utils.h"

#ifndef VF_REPLAY
/* wrappers for the *_ptr variants: the position pointer is derived from the buffer */
void *w_mem_chr_ptr(size_t off, const void *buf, size_t size, uint8_t c)
__CPROVER_requires(buf == NULL || __CPROVER_is_fresh(buf, size))
__CPROVER_requires(off <= size)
__CPROVER_assigns()
__CPROVER_ensures(VF_IN_OR_NULL(__CPROVER_return_value, buf, off, size))
;
void *w_mem_rchr_ptr(size_t off, const void *buf, size_t size, uint8_t c)
__CPROVER_requires(buf == NULL || __CPROVER_is_fresh(buf, size))
__CPROVER_requires(off <= size)
__CPROVER_assigns()
__CPROVER_ensures(VF_IN_OR_NULL(__CPROVER_return_value, buf, 0, off))
;
void *w_mem_find_ptr(size_t off, const void *buf, size_t size, const void *what, size_t wsize)
__CPROVER_requires(buf == NULL || __CPROVER_is_fresh(buf, size))
__CPROVER_requires(what == NULL || wsize == 0 || __CPROVER_is_fresh(what, wsize))
__CPROVER_requires(off <= size)
__CPROVER_assigns()
__CPROVER_ensures(__CPROVER_return_value == NULL || (wsize <= size &&
    VF_IN_OR_NULL(__CPROVER_return_value, buf, off, size - wsize + 1)))
;
#endif
void *w_mem_chr_ptr(size_t off, const void *buf, size_t size, uint8_t c) {
	return (mem_chr_ptr(buf == NULL ? NULL : (const uint8_t *)buf + off, buf, size, c));
}
void *w_mem_rchr_ptr(size_t off, const void *buf, size_t size, uint8_t c) {
	return (mem_rchr_ptr(buf == NULL ? NULL : (const uint8_t *)buf + off, buf, size, c));
}
void *w_mem_find_ptr(size_t off, const void *buf, size_t size, const void *what, size_t wsize) {
	return (mem_find_ptr(buf == NULL ? NULL : (const uint8_t *)buf + off, buf, size, what, wsize));
}

void harness(void) {
	VF_NONDET(size_t, size);
	VF_NONDET(size_t, size2);
	VF_NONDET(size_t, off);
	VF_NONDET(uint8_t, c);
#if defined(VF_FN_mem_chr)
	VF_FRESH_PTR_OPT(uint8_t, buf, size);
	(void)mem_chr(buf, size, c);
#elif defined(VF_FN_mem_chr_off)
	VF_FRESH_PTR_OPT(uint8_t, buf, size);
	(void)mem_chr_off(off, buf, size, c);
#elif defined(VF_FN_mem_chr_ptr)
	VF_ASSUME(off <= size);
	VF_FRESH_PTR_OPT(uint8_t, buf, size);
	(void)w_mem_chr_ptr(off, buf, size, c);
#elif defined(VF_FN_mem_rchr)
	VF_FRESH_PTR_OPT(uint8_t, buf, size);
	(void)mem_rchr(buf, size, c);
#elif defined(VF_FN_mem_rchr_off)
	VF_FRESH_PTR_OPT(uint8_t, buf, size);
	(void)mem_rchr_off(off, buf, size, c);
#elif defined(VF_FN_mem_rchr_ptr)
	VF_ASSUME(off <= size);
	VF_FRESH_PTR_OPT(uint8_t, buf, size);
	(void)w_mem_rchr_ptr(off, buf, size, c);
#elif defined(VF_FN_mem_find)
	VF_FRESH_PTR_OPT(uint8_t, buf, size);
	VF_FRESH_PTR_OPT(uint8_t, what, size2);
	(void)mem_find(buf, size, what, size2);
#elif defined(VF_FN_mem_find_off)
	VF_FRESH_PTR_OPT(uint8_t, buf, size);
	VF_FRESH_PTR_OPT(uint8_t, what, size2);
	(void)mem_find_off(off, buf, size, what, size2);
#elif defined(VF_FN_mem_find_ptr)
	VF_ASSUME(off <= size);
	VF_FRESH_PTR_OPT(uint8_t, buf, size);
	VF_FRESH_PTR_OPT(uint8_t, what, size2);
	(void)w_mem_find_ptr(off, buf, size, what, size2);
#elif defined(VF_FN_mem_to_lower)
	VF_FRESH_PTR_OPT(uint8_t, buf, size);
	VF_FRESH_PTR_OPT(uint8_t, what, size);
	(void)mem_to_lower(buf, what, size);
#elif defined(VF_FN_mem_to_upper)
	VF_FRESH_PTR_OPT(uint8_t, buf, size);
	VF_FRESH_PTR_OPT(uint8_t, what, size);
	(void)mem_to_upper(buf, what, size);
#elif defined(VF_FN_mem_cmp)
	VF_FRESH_PTR_OPT(uint8_t, buf, size);
	VF_FRESH_PTR_OPT(uint8_t, what, size);
	(void)mem_cmp(buf, what, size);
#elif defined(VF_FN_mem_cmpi)
	VF_FRESH_PTR_OPT(uint8_t, buf, size);
	VF_FRESH_PTR_OPT(uint8_t, what, size);
	(void)mem_cmpi(buf, what, size);
#elif defined(VF_FN_mem_cmpn)
	VF_FRESH_PTR_OPT(uint8_t, buf, size);
	VF_FRESH_PTR_OPT(uint8_t, what, size2);
	(void)mem_cmpn(buf, size, what, size2);
#elif defined(VF_FN_mem_cmpin)
	VF_FRESH_PTR_OPT(uint8_t, buf, size);
	VF_FRESH_PTR_OPT(uint8_t, what, size2);
	(void)mem_cmpin(buf, size, what, size2);
#endif
	VF_CANARY("mem_utils harness end");
}
