/* C12: the variadic front ends of src/utils/xml.c on hostile bytes: xml_get_val_args,
 * xml_get_val_size_t_args (value handed to ustr2usize) and xml_calc_tag_count_args (iterates
 * xml_get_val_arr through next_pos until it fails: termination).  One-element tag path "a"
 * (NUL-terminated C string, as the API demands).  Plain bounded harness: xml_data of symbolic
 * size <= VF_XML_DATA_MAX in an exact-size object, symbolic content; loops fully unwound. */
#define VF_MRA_NO_CONTRACT
#include "contracts/mem_replace.h"
#include "src/utils/xml.c"
#include "stubs/libc_models.h"

#ifndef VF_XML_DATA_MAX
#define VF_XML_DATA_MAX 4
#endif

static int
vf_inside(const uint8_t *q, size_t len, const uint8_t *p, size_t n) {
#ifndef VF_REPLAY
	return (q == NULL ? len == 0 : VF_INSIDE(q, len, p, n) && VF_PTR_INSIDE(q, p, n));
#else
	return (q == NULL ? len == 0 : (q >= p && (size_t)(q - p) <= n && len <= n - (size_t)(q - p)));
#endif
}

void harness(void) {
	VF_NONDET(size_t, data_size);
	VF_ASSUME(data_size <= VF_XML_DATA_MAX);
	VF_EXACT8(xml_data, data_size)
	static const uint8_t tag_a[2] = { 'a', 0 };
	const uint8_t *attr = NULL, *val = NULL;
	size_t attr_sz = 0, val_sz = 0, num = 0, cnt;
	int r;

#if defined(VF_FN_get_val_args)
	r = xml_get_val_args(xml_data, data_size, NULL, &attr, &attr_sz, &val, &val_sz, tag_a, NULL);
	VF_ASSERT(r == 0 || r == ESPIPE, "xml_get_val_args return code");
	VF_ASSERT(r != 0 || vf_inside(val, val_sz, xml_data, data_size), "value inside the buffer");
	VF_ASSERT(r != 0 || vf_inside(attr, attr_sz, xml_data, data_size), "attribute inside the buffer");
#elif defined(VF_FN_get_val_size_t_args)
	r = xml_get_val_size_t_args(xml_data, data_size, NULL, &num, tag_a, NULL);
	VF_ASSERT(r == 0 || r == ESPIPE || r == EINVAL, "xml_get_val_size_t_args return code");
#elif defined(VF_FN_calc_tag_count_args)
	cnt = xml_calc_tag_count_args(xml_data, data_size, tag_a, NULL);
	/* every counted element needs at least "<a/>" */
	VF_ASSERT(cnt <= data_size / 4, "xml_calc_tag_count_args counts at most one element per 4 bytes");
#endif
	(void)num; (void)cnt; (void)r;
	VF_CANARY("xml_args harness end");
}
