/* NOT REGISTERED (does not close, see contracts/bt_encode.h).
 * C12: bt_en_decode / bt_en_free / bt_dict_find (src/utils/bt_encode.c) on hostile bytes.
 * Bounded plain harness: buf of symbolic size <= VF_BT_MAX in an exact-size object, symbolic
 * content (-DVF_BT_FLAT: no 'l'/'d' byte behind the first one, i.e. nesting depth <= 1);
 * recursion and loops fully unwound (unwinding assertions = termination within the bound);
 * allocations may fail.  Postconditions: contracts/bt_encode.h.
 * The decode jobs give bt_en_free an empty body (goto-instrument --generate-function-body): the
 * recursive free on every error path multiplies the symbolic execution by > 100 and is irrelevant
 * for what bt_en_decode reads and writes; bt_en_free itself runs in the bt_encode.tree job. */
#include "contracts/bt_encode.h"
#include "src/utils/bt_encode.c"
#include "stubs/libc_models.h"

#if VF_BT_MAX <= 8
#define VF_BT_BUF VF_EXACT8
#else
#define VF_BT_BUF VF_EXACT16
#endif

void harness(void) {
	VF_NONDET(size_t, buf_size);
	VF_NONDET(uint8_t, nulls);
	VF_NONDET(size_t, key_size);
	VF_NONDET(size_t, start);
	VF_NONDET(uint8_t, key_type);
	VF_ASSUME(buf_size <= VF_BT_MAX && key_size <= 3);
	VF_BT_BUF(buf_x, buf_size)
	VF_EXACT4(key, key_size)
#ifdef VF_BT_LEAF
	/* stated bound of the leaf jobs: the document is a byte string, an integer or garbage */
	VF_ASSUME(buf_size == 0 || (buf_x[0] != 'l' && buf_x[0] != 'd'));
#endif
#ifdef VF_BT_FLAT
	/* stated bound of the flat jobs: nesting depth <= 1, i.e. no container inside a container */
	for (size_t vf_k = 1; vf_k < VF_BT_MAX; vf_k ++) {
		if (vf_k < buf_size)
			VF_ASSUME(buf_x[vf_k] != 'l' && buf_x[vf_k] != 'd');
	}
#endif
	uint8_t *buf = (nulls & 1) ? NULL : buf_x;
	bt_en_node_p node = NULL, found = NULL;
	size_t off = 0, *ret_off = (nulls & 2) ? NULL : &off;

	int r = bt_en_decode(buf, buf_size, (nulls & 4) ? NULL : &node, ret_off);

	VF_ASSERT(r == 0 || r == EINVAL || r == EBADMSG || r == ENOMEM, "return code");
	VF_ASSERT(r == 0 || node == NULL, "no tree handed back on failure");
	if (r == 0) {
		VF_ASSERT(node != NULL, "tree handed back on success");
		VF_ASSERT(ret_off == NULL || (off >= 1 && off <= buf_size), "consumed length inside the buffer");
		VF_ASSERT(vf_bt_wf(node, buf, buf_size), "every node of the tree is well formed and points inside the buffer");
		/* dictionary lookup on what the decoder built */
		size_t cur = start;
		int f = bt_dict_find(node, (nulls & 8) ? NULL : &cur, key, key_size, key_type, &found);
		VF_ASSERT(f == 0 || f == -1 || f == EINVAL, "bt_dict_find return code");
		VF_ASSERT(f != 0 || (found != NULL && node->type == BT_EN_TYPE_DICT && cur < node->val_count),
		    "bt_dict_find result is an entry of the dictionary");
		bt_en_free(node);
	}
	VF_CANARY("bt_decode harness end");
}
