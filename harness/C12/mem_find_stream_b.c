/* C12: mem_find_stream (include/utils/mem_utils.h) - streaming search for `what` in a sequence of
 * buffers, *state = number of bytes of `what` already matched at the end of the previous buffers.
 * Plain bounded harness with the postconditions asserted here (the goto-built re_search /
 * cmp_loop control flow is unwound per loop, --unwindset):
 *   - reads only buf[0..buf_size) and what[0..what_size) (exact-size objects), writes only
 *     *state / *off_end, terminates (unwinding assertions);
 *   - ret in {0, ENOENT, EINVAL}; EINVAL exactly for the documented bad arguments;
 *   - ret == 0      => *state == 0, 1 <= *off_end <= buf_size, and (content) the what_size bytes
 *                      of the stream that end at off_end equal `what`, where the stream is the
 *                      carried prefix what[0..state0) followed by buf;
 *   - ret == ENOENT => *state < what_size and (content) the last *state bytes of the stream
 *                      equal what[0..*state)  (the state handed to the next call is truthful).
 * VF_MFS_WHAT = concrete what_size of the job; buf_size <= VF_MFS_BUF symbolic; entry state:
 * -DVF_STATE0 (fresh search) or carried state 1..what_size-1 (and the invalid ones >= what_size).
 */
#define VF_MRA_NO_CONTRACT
#include "contracts/mem_replace.h"	/* VF_EXACT4 / VF_EXACT8 */
#include "utils/mem_utils.h"
#include "stubs/libc_models.h"

#ifndef VF_MFS_BUF
#define VF_MFS_BUF 4
#endif
#ifndef VF_MFS_WHAT
#define VF_MFS_WHAT 2
#endif

/* byte i (0-based) of the stream = carried prefix what[0..state0) ++ buf[0..buf_size) */
#define STREAM(i)	(((i) < state0) ? what[(i)] : buf[(i) - state0])

void harness(void) {
	VF_NONDET(size_t, buf_size);
	VF_NONDET(size_t, state0);
	VF_NONDET(uint8_t, nulls);
	const size_t what_size = VF_MFS_WHAT;
	VF_ASSUME(buf_size <= VF_MFS_BUF);
#ifdef VF_STATE0
	VF_ASSUME(state0 == 0);
#else
	VF_ASSUME(state0 >= 1 && state0 <= VF_MFS_WHAT + 1);
#endif
	VF_EXACT8_OPT(buf, buf_size, nulls & 1)
	VF_EXACT4_OPT(what, what_size, nulls & 2)
	size_t st = state0, oe = 0, k, total;
	size_t *state = (nulls & 4) ? NULL : &st, *off_end = (nulls & 8) ? NULL : &oe;

	int r = mem_find_stream(buf, buf_size, what, what_size, state, off_end);

	VF_ASSERT(r == 0 || r == ENOENT || r == EINVAL, "return code");
	VF_ASSERT((r == EINVAL) == (buf == NULL || buf_size == 0 || what == NULL || what_size == 0 ||
	    state == NULL || what_size <= state0), "EINVAL exactly for bad arguments");
	if (r == EINVAL)
		VF_ASSERT(st == state0, "bad arguments leave the state alone");
	if (r == 0) {
		VF_ASSERT(st == 0, "found: state reset");
		if (off_end != NULL) {
			VF_ASSERT(oe >= 1 && oe <= buf_size, "found: end offset inside the buffer");
			/* content: stream[state0 + oe - what_size + k] == what[k] */
			VF_ASSERT(state0 + oe >= what_size, "found: the match does not start before the carried prefix");
			for (k = 0; k < VF_MFS_WHAT; k ++) {
				if (state0 + oe >= what_size)
					VF_ASSERT(STREAM(state0 + oe - what_size + k) == what[k], "found: the bytes ending at off_end equal what");
			}
		}
	}
	if (r == ENOENT) {
		VF_ASSERT(st < what_size, "not found: carried state below what_size");
		total = state0 + buf_size;
		VF_ASSERT(st <= total, "not found: carried state not longer than the stream seen");
		for (k = 0; k < VF_MFS_WHAT; k ++) {
			if (k < st && st <= total)
				VF_ASSERT(STREAM(total - st + k) == what[k], "not found: the carried state is a true prefix match at the stream end");
		}
	}
	VF_CANARY("mem_find_stream harness end");
}
