/* C12: asn_parse on arbitrary bytes; bounded route (buf_size <= VF_ASN_MAX, loops fully unwound). */
#include "contracts/asn1.h"
#include <stdlib.h>
#include <string.h>
#include "utils/asn1.h"
void harness(void) {
	VF_NONDET(size_t, buf_size);
	VF_NONDET(size_t, off0);
	VF_ASSUME(buf_size <= VF_ASN_MAX);
	VF_FRESH_PTR_OPT(uint8_t, buf, buf_size);
#ifdef VF_REPLAY
	size_t offset_s = off0, hdr_s = 0, tag_s = 0, dsz_s = 0; uint8_t cls_s = 0, ps_s = 0, *data_s = NULL;
	size_t *offset = &offset_s, *hdr_size = &hdr_s, *atag = &tag_s, *data_size = &dsz_s;
	uint8_t *aclass = &cls_s, *ps = &ps_s, **data = &data_s;
#else
	size_t *offset, *hdr_size, *atag, *data_size; uint8_t *aclass, *ps, **data;
#endif
	int r = asn_parse(buf, buf_size, offset, hdr_size, aclass, ps, atag, data, data_size);
	VF_NATIVE_POST(r != 0 || buf == NULL || (*offset <= buf_size && (size_t)(*data - buf) + *data_size <= buf_size),
	    "parsed element inside the buffer");
	VF_CANARY("asn1 harness end");
}
