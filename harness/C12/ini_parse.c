/* C12 (INI part): memory discipline of ini_buf_parse on arbitrary bytes - the obligations
 * of the C17 parse harness: the text is an exact-size heap object (one byte past it fails a
 * pointer obligation), every record stays inside its requested capacity (invariant after
 * the call), frame = the store only. */
#include "harness/C17/parse.c"
