/* C12 (INI part): ini_line_alloc__int records as capacity exactly the data area it
 * requested from the allocator (the C17 harness). */
#include "harness/C17/alloc.c"
