/* C12: utf8_decode memory discipline, unbounded sizes (loop contract loops/utf8.json). */
#include "contracts/utf8.h"
#include "utils/utf8.h"
void harness(void) {
	VF_NONDET(size_t, buf_size);
	VF_NONDET(size_t, ret_buf_size);
	VF_FRESH_PTR_OPT(uint8_t, buf, buf_size);
	VF_FRESH_PTR_OPT(uint8_t, ret_buf, ret_buf_size);
	size_t r = utf8_decode(buf, buf_size, ret_buf, ret_buf_size);
	VF_NATIVE_POST(r <= ret_buf_size, "reported size within capacity");
	VF_CANARY("utf8 harness end");
}
