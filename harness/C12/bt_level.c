/* C12: ONE LEVEL of bt_en_decode (src/utils/bt_encode.c) against its level contract, the
 * recursive calls replaced by that same contract - the modular (inductive) form of the proof.
 *
 * How the recursion is cut without editing /repo: the file is compiled with
 * `#define bt_en_decode bt_en_decode_level`, so the real body is the function bt_en_decode_level
 * (calling itself); `goto-instrument --replace-calls bt_en_decode_level:bt_en_decode_sub` then
 * redirects every direct call - i.e. exactly the three recursive call sites - to the contract stub
 * bt_en_decode_sub below; the harness calls the body-less name bt_en_decode_entry, which a second
 * `--replace-calls bt_en_decode_entry:bt_en_decode_level` run binds to the real body afterwards.
 * bt_en_free (recursive walk over children) is replaced likewise by bt_en_free_sub, which frees
 * the child node only (the children here are the stub's leaf-like nodes).
 *
 * LEVEL CONTRACT C(buf, buf_size, ret_data, ret_buf_off) - asserted for the real body by the
 * harness, assumed for the recursive calls by the stub:
 *   pre : buf == NULL or buf[0..buf_size) readable; ret_data / ret_buf_off NULL or writable
 *   post: ret in {0, EINVAL, EBADMSG, ENOMEM};  buf == NULL, buf_size == 0 or ret_data == NULL:
 *         EINVAL and nothing is written (a truncated container such as "l" also yields EINVAL,
 *         handed up from the empty sub-buffer);
 *         ret == 0: *ret_data = a fresh node, type <= DICT, raw inside buf, raw + raw_size inside
 *                   buf, (STR: val.s == raw, val_count == 1), 1 <= *ret_buf_off <= buf_size;
 *         otherwise: *ret_data == NULL.
 * The stub additionally ASSERTS its precondition at every recursive call site, including
 * "the sub-buffer is strictly shorter than the caller's" (termination of the recursion) and
 * "the sub-buffer lies inside the caller's buffer".
 * By induction on buf_size the contract holds for the recursive function on every input of the
 * stated bound.  Bounded: buf_size <= VF_BT_MAX (symbolic size and content, exact-size object),
 * loops fully unwound, allocations may fail (--malloc-may-fail --malloc-fail-null).
 */
#include "contracts/bt_encode.h"
#define bt_en_decode bt_en_decode_level
#include "src/utils/bt_encode.c"
#undef bt_en_decode
#include "stubs/libc_models.h"

#if VF_BT_MAX <= 8
#define VF_BT_BUF VF_EXACT8
#else
#define VF_BT_BUF VF_EXACT16
#endif

/* entry into the real body: a second `--replace-calls bt_en_decode_entry:bt_en_decode_level` run
 * binds it after the recursive call sites have been redirected (natively: a macro) */
#ifndef VF_REPLAY
int bt_en_decode_entry(uint8_t *buf, size_t buf_size, bt_en_node_p *ret_data, size_t *ret_buf_off);
#else
#define bt_en_decode_entry bt_en_decode_level
#endif

static const uint8_t *vf_top_buf;	/* ghost: the level under proof */
static size_t vf_top_size;

#ifndef VF_REPLAY
size_t nondet_size_t(void);
int nondet_int(void);
uint8_t nondet_uint8_t(void);

/* the level contract, assumed for a recursive call */
int
bt_en_decode_sub(uint8_t *buf, size_t buf_size, bt_en_node_p *ret_data, size_t *ret_buf_off) {
	/* precondition, asserted at the call site */
	__CPROVER_assert(ret_data != NULL && __CPROVER_w_ok(ret_data, sizeof(bt_en_node_p)), "recursive call: ret_data writable");
	__CPROVER_assert(ret_buf_off == NULL || __CPROVER_w_ok(ret_buf_off, sizeof(size_t)), "recursive call: ret_buf_off writable");
	__CPROVER_assert(buf_size < vf_top_size, "recursive call: sub-buffer strictly shorter than the caller's (termination)");
	__CPROVER_assert(buf_size == 0 || (__CPROVER_r_ok(buf, buf_size) && vf_bt_inside(buf, buf_size, vf_top_buf, vf_top_size)),
	    "recursive call: sub-buffer inside the caller's buffer");
	/* postcondition, assumed */
	if (buf == NULL || buf_size == 0)
		return (EINVAL);
	int r = nondet_int();
	__CPROVER_assume(r == 0 || r == EINVAL || r == EBADMSG || r == ENOMEM);
	if (r != 0) {
		*ret_data = NULL;
		return (r);
	}
	bt_en_node_p n = malloc(sizeof(bt_en_node_t));
	__CPROVER_assume(n != NULL);
	size_t roff = nondet_size_t(), rsize = nondet_size_t(), off = nondet_size_t();
	__CPROVER_assume(roff <= buf_size && rsize <= buf_size - roff && off >= 1 && off <= buf_size);
	n->type = nondet_uint8_t();
	__CPROVER_assume(n->type <= BT_EN_TYPE_DICT);
	n->raw = buf + roff;
	n->raw_size = rsize;
	n->val.s = n->raw;
	n->val_count = (n->type <= BT_EN_TYPE_NUM) ? 1 : nondet_size_t();
	*ret_data = n;
	if (ret_buf_off != NULL)
		*ret_buf_off = off;
	return (0);
}
/* bt_en_free on a child: NULL or a live node of the stub, which is released */
void
bt_en_free_sub(bt_en_node_p node) {
	if (node == NULL)
		return;
	__CPROVER_assert(__CPROVER_w_ok(node, sizeof(bt_en_node_t)), "bt_en_free: live node");
	free(node);
}
#endif

void harness(void) {
	VF_NONDET(size_t, buf_size);
	VF_NONDET(uint8_t, nulls);
	VF_ASSUME(buf_size <= VF_BT_MAX);
	VF_BT_BUF(buf_x, buf_size)
	uint8_t *buf = (nulls & 1) ? NULL : buf_x;
	bt_en_node_p node = NULL, *ret_data = (nulls & 4) ? NULL : &node;
	size_t off = 0, *ret_off = (nulls & 2) ? NULL : &off;
	vf_top_buf = buf;
	vf_top_size = buf_size;
	int r = bt_en_decode_entry(buf, buf_size, ret_data, ret_off);

	VF_ASSERT(r == 0 || r == EINVAL || r == EBADMSG || r == ENOMEM, "return code");
	VF_ASSERT(!(buf == NULL || buf_size == 0 || ret_data == NULL) || r == EINVAL, "bad arguments are refused with EINVAL");
	VF_ASSERT(r == 0 || node == NULL, "no node handed back on failure");
	if (r == 0) {
		VF_ASSERT(node != NULL, "node handed back on success");
		VF_ASSERT(ret_off == NULL || (off >= 1 && off <= buf_size), "consumed length inside the buffer");
		VF_ASSERT(node->type <= BT_EN_TYPE_DICT, "node type");
		VF_ASSERT(vf_bt_inside(node->raw, node->raw_size, buf, buf_size), "raw span inside the buffer");
		VF_ASSERT(node->type != BT_EN_TYPE_STR || (node->val.s == node->raw && node->val_count == 1), "byte string = its raw span");
		VF_ASSERT(node->type > BT_EN_TYPE_NUM || node->val_count == 1, "leaf value count");
#ifdef VF_BT_CHECK_ITEMS
		/* container: the item array is there (pointer value only: CBMC 6.11 cannot follow a pointer
		 * read from this union member, see contracts/bt_encode.h) */
		VF_ASSERT(node->type <= BT_EN_TYPE_NUM || node->val_count == 0 || node->val.l != NULL,
		    "container with items has its item array");
#endif
	}
	VF_CANARY("bt_level harness end");
}
