/* C12: src/utils/buf_str.c. -DVF_FN_<name>; VF_BS_MAX = stated size bound of bounded jobs. */
#include "contracts/buf_str.h"
#include "src/utils/buf_str.c"
#include "stubs/libc_models.h"

int w_buf_get_next_line(const uint8_t *buf, size_t buf_size, int have_line, size_t line_off, size_t line_size,
    const uint8_t **next_line, size_t *next_line_size) {
	return (buf_get_next_line(buf, buf_size, (have_line && buf != NULL) ? buf + line_off : NULL,
	    line_size, next_line, next_line_size));
}

void harness(void) {
	VF_NONDET(size_t, size);
	VF_NONDET(size_t, size2);
	VF_NONDET(size_t, off);
	VF_NONDET(int, flag);
	VF_NONDET(uint32_t, bit);
	VF_ASSUME(size <= VF_BS_MAX && size2 <= VF_BS_MAX);
#if defined(VF_FN_count)
	VF_FRESH_PTR(char, buf, size);
	size_t r = FN(buf, size);
	VF_NATIVE_POST(r <= size, "count within the buffer");
#elif defined(VF_FN_buf2args)
	VF_FRESH_PTR_OPT(char, buf, size);
	VF_FRESH_PTR_OPT(char *, args, size2 * sizeof(char *));
	VF_FRESH_PTR_OPT(size_t, args_sizes, size2 * sizeof(size_t));
	size_t r = buf2args(buf, size, size2, args, args_sizes);
	VF_NATIVE_POST(r <= size2, "argument count within max_args");
#elif defined(VF_FN_data_xor8)
	VF_FRESH_PTR_OPT(uint8_t, buf, size);
	(void)data_xor8(buf, size);
#elif defined(VF_FN_memxorbuf)
	VF_FRESH_PTR_OPT(uint8_t, buf, size);
	VF_FRESH_PTR_OPT(uint8_t, src, size2);
	memxorbuf(buf, size, src, size2);
#elif defined(VF_FN_cvt_hex2bin)
	VF_FRESH_PTR_OPT(uint8_t, hex, size);
	VF_FRESH_PTR_OPT(uint8_t, bin, size2);
	size_t rs = 0;
#ifdef VF_REPLAY
	size_t *ret = &rs;
#else
	size_t *ret;
#endif
	(void)cvt_hex2bin(hex, size, flag, bin, size2, ret);
#elif defined(VF_FN_cvt_bin2hex)
	VF_FRESH_PTR_OPT(uint8_t, bin, size);
	VF_FRESH_PTR_OPT(uint8_t, hex, size2);
	size_t rs = 0;
#ifdef VF_REPLAY
	size_t *ret = &rs;
#else
	size_t *ret;
#endif
	(void)cvt_bin2hex(bin, size, flag, hex, size2, ret);
#elif defined(VF_FN_yn_set_flag32)
	VF_FRESH_PTR_OPT(uint8_t, buf, size);
	VF_FRESH_PTR_OPT(uint32_t, flags, sizeof(uint32_t));
	(void)yn_set_flag32(buf, size, bit, flags);
#elif defined(VF_FN_buf_get_next_line)
	VF_ASSUME(off <= size && size2 <= size - off);
	VF_FRESH_PTR_OPT(uint8_t, buf, size);
	const uint8_t *nl_s = NULL; size_t nls_s = 0;
#ifdef VF_REPLAY
	const uint8_t **nl = &nl_s; size_t *nls = &nls_s;
#else
	const uint8_t **nl; size_t *nls;
#endif
	int r = w_buf_get_next_line(buf, size, flag, off, size2, nl, nls);
	VF_NATIVE_POST(r != 0 || (size_t)(*nl - buf) + *nls <= size, "line inside the buffer");
#endif
	VF_CANARY("buf_str harness end");
}
