/* C12: one level of bt_en_decode against its modular contract (contracts/bt_encode.h),
 * recursive calls and bt_en_free replaced by contract (--enforce-contract-rec).  Buffer of
 * symbolic size <= VF_BT_MAX (exact-size is_fresh object), symbolic content, allocations may fail;
 * the list / dictionary loops are fully unwound. */
#define VF_BT_DFCC
#include "contracts/bt_encode.h"
#include "src/utils/bt_encode.c"
#include "stubs/libc_models.h"

#if VF_BT_MAX <= 8
#define VF_BT_BUF VF_EXACT8
#else
#define VF_BT_BUF VF_EXACT16
#endif

void harness(void) {
	VF_NONDET(size_t, buf_size);
	VF_NONDET(uint8_t, nulls);
	VF_ASSUME(buf_size <= VF_BT_MAX);
	VF_FRESH_PTR_OPT(uint8_t, buf, buf_size);	/* allocated by the contract's is_fresh: exact size */
	bt_en_node_p node = NULL;
	size_t off = 0, *ret_off = (nulls & 2) ? NULL : &off;

	int r = bt_en_decode(buf, buf_size, (nulls & 4) ? NULL : &node, ret_off);

	VF_NATIVE_POST(r == 0 || r == EINVAL || r == EBADMSG || r == ENOMEM, "return code");
	VF_NATIVE_POST(r != 0 || (node != NULL && (ret_off == NULL || (off >= 1 && off <= buf_size))),
	    "consumed length inside the buffer");
	VF_NATIVE_POST(r != 0 || vf_bt_wf(node, buf, buf_size), "decoded tree points inside the buffer");
	VF_CANARY("bt_decode_rec harness end");
}
