/* C12: bt_dict_find and bt_en_free (src/utils/bt_encode.c) on a well-formed tree built by the
 * harness the way bt_en_decode builds it (bt_en_alloc + calloc'd item arrays): a dictionary of
 * 0..2 entries, keys = byte strings of 0..3 symbolic bytes in exact-size objects, values =
 * integer / byte string / list of one integer, chosen symbolically.  Symbolic search key, type
 * filter and start index (also beyond the dictionary, also absent).  Plain bounded harness;
 * allocation failure is excluded here (it is the decoder's concern). */
#include "contracts/bt_encode.h"
#include "src/utils/bt_encode.c"
#include "stubs/libc_models.h"

static bt_en_node_p
vf_mk_val(uint8_t kind, uint8_t *raw, size_t raw_size) {
	bt_en_node_p n, c;

	if (kind == 0) {
		n = bt_en_alloc(BT_EN_TYPE_NUM, raw, raw_size);
		VF_ASSUME(n != NULL);
		n->val_count = 1;
	} else if (kind == 1) {
		n = bt_en_alloc(BT_EN_TYPE_STR, raw, raw_size);
		VF_ASSUME(n != NULL);
		n->val.s = raw;
		n->val_count = 1;
	} else {
		n = bt_en_alloc(BT_EN_TYPE_LIST, raw, raw_size);
		c = bt_en_alloc(BT_EN_TYPE_NUM, raw, raw_size);
		VF_ASSUME(n != NULL && c != NULL);
		c->val_count = 1;
		n->val.l = calloc(2, sizeof(bt_en_node_p));
		VF_ASSUME(n->val.l != NULL);
		n->val.l[0] = c;
		n->val_count = 1;
	}
	return (n);
}

void harness(void) {
	VF_NONDET(size_t, count);
	VF_NONDET(size_t, k0);
	VF_NONDET(size_t, k1);
	VF_NONDET(size_t, key_size);
	VF_NONDET(size_t, start);
	VF_NONDET(uint8_t, kind0);
	VF_NONDET(uint8_t, kind1);
	VF_NONDET(uint8_t, key_type);
	VF_NONDET(uint8_t, nulls);
	VF_ASSUME(count <= 2 && k0 <= 3 && k1 <= 3 && key_size <= 3 && kind0 <= 2 && kind1 <= 2);
	VF_EXACT4(key0, k0)
	VF_EXACT4(key1, k1)
	VF_EXACT4(key, key_size)
	bt_en_node_p dict, found = NULL;
	size_t cur = start;

	dict = bt_en_alloc(BT_EN_TYPE_DICT, key0, 0);
	VF_ASSUME(dict != NULL);
	dict->val.d = calloc(count + 1, sizeof(be_en_dict_t));
	VF_ASSUME(dict->val.d != NULL);
	dict->val_count = count;
	if (count > 0) {
		dict->val.d[0].key = vf_mk_val(1, key0, k0);
		dict->val.d[0].val = vf_mk_val(kind0, key0, k0);
	}
	if (count > 1) {
		dict->val.d[1].key = vf_mk_val(1, key1, k1);
		dict->val.d[1].val = vf_mk_val(kind1, key1, k1);
	}

	int f = bt_dict_find((nulls & 1) ? NULL : dict, (nulls & 2) ? NULL : &cur,
	    (nulls & 4) ? NULL : key, key_size, key_type, (nulls & 8) ? NULL : &found);
	VF_ASSERT(f == 0 || f == -1 || f == EINVAL, "bt_dict_find return code");
	if (f == 0) {
		VF_ASSERT(cur < count && (nulls & 2 ? 1 : cur >= start), "index of the match inside the dictionary, not before the start index");
		VF_ASSERT(found == dict->val.d[cur].val || (nulls & 2), "the value of the matching entry is returned");
		VF_ASSERT(found != NULL && (key_type == BT_EN_TYPE_ALL || found->type == key_type), "type filter respected");
	}
	bt_en_free(dict);
	VF_CANARY("bt_tree harness end");
}
