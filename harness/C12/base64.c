/* C12: base64_{encode,decode,en_copy,decode_fmt} memory discipline.
 * -DVF_FN_<name> selects the function; VF_B64_MAX_IN/OUT are the stated size bounds. */
#include "contracts/base64.h"
#include <string.h>
#include "utils/base64.h"

void harness(void) {
	VF_NONDET(size_t, src_size);
	VF_NONDET(size_t, dst_size);
	VF_ASSUME(src_size <= VF_B64_MAX_IN && dst_size <= VF_B64_MAX_OUT);
	VF_FRESH_PTR_OPT(uint8_t, src, src_size);
	size_t ret_store = 0;
#ifdef VF_REPLAY
	size_t *size_ret = &ret_store;
#else
	size_t *size_ret;
	/* --dfcc havocs mutable statics: re-establish the alphabet pointer's initialiser
	 * (harness/C14/base64_tables.c proves it is the RFC 4648 alphabet and that no
	 * library function assigns it) */
	base64_tbl_coding = (const uint8_t *)
	    "ABCDEFGHIJKLMNOPQRSTUVWXYZabcdefghijklmnopqrstuvwxyz0123456789+/";
#endif
#if defined(VF_FN_en_copy)
	VF_FRESH_PTR_OPT(uint8_t, dst, src_size);
	int r = base64_en_copy(src, dst, src_size, size_ret);
	VF_NATIVE_POST(r == 0 || r == EINVAL, "return code");
#else
	VF_FRESH_PTR_OPT(uint8_t, dst, dst_size);
#if defined(VF_FN_encode)
	int r = base64_encode(src, src_size, dst, dst_size, size_ret);
#elif defined(VF_FN_decode)
	int r = base64_decode(src, src_size, dst, dst_size, size_ret);
#elif defined(VF_FN_decode_fmt)
	int r = base64_decode_fmt(src, src_size, dst, dst_size, size_ret);
#endif
	VF_NATIVE_POST(r == 0 || r == EINVAL || r == ENOBUFS, "return code");
#endif
	VF_CANARY("base64 harness end");
}
