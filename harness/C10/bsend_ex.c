/* C10 (sequential fragment): tpt_msg_bsend_ex as a whole, with the real
 * tpt_msg_broadcast_send__int, tpt_msg_sync_proxy_cb and tpt_msg_active_thr_count_dec.
 *
 * MODULAR: calls to tpt_msg_send are redirected (goto-instrument --replace-calls) to
 * vf_stub_send = the CONTRACT of tpt_msg_send as proved for the real function in C05
 * (tpmsg.send.cases): EINVAL / SELF_DIRECT to self => one direct call / not running: EHOSTDOWN or
 * (FORCE) one direct call / running: queued (nondeterministic success of the write) or
 * (FAIL_DIRECT) one direct call or a non-zero error. "Queued" appends (cb, udata) to a ghost
 * per-thread queue. (A composition with the real tpt_msg_send + ghost pipes was tried first and
 * exhausts 12 GB: the pool's flexible array member defeats CBMC's constant propagation.)
 * Mutex / pthread_getspecific / sched_yield / nanosleep: ASSUMED contracts of stubs/sys_msg.h.
 *
 * "Other threads" (the receivers) are modelled inside sched_yield()/nanosleep(): at each yield
 * every pool thread other than the caller may - nondeterministically - take the first entry of
 * its ghost queue and run its callback (tpt_msg_sync_proxy_cb, REAL code) as the receiver does;
 * from the VF_FAIR-th yield on every pending entry is taken (BOUNDED FAIRNESS, otherwise the wait
 * loop has no bound). This is ONE sequential schedule family (callbacks run only at yield points,
 * one after another), not an interleaving semantics.
 * Pool size <= VF_NTHR symbolic, wait loop <= VF_FAIR + 1 iterations: BOUNDED.
 *
 * Postconditions (property text): sent + failed == targeted (all threads, or all but the caller
 * when it is a thread of THIS pool and SELF_SKIP); every targeted thread gets exactly one delivery
 * iff its send was counted as sent, nobody else gets any; the synchronous form returns only when
 * every delivered callback has finished (count-down == 0, no queued entry referring to the
 * caller's stack record is left anywhere).
 * Excluded (documented in the header: "WARNING! This deadlock, frizes possible"): SYNC from a
 * pool thread to itself through its own queue (neither SELF_SKIP nor SELF_DIRECT). */
#include "vf/vf.h"
#include <pthread.h>
static void vf_on_mtx_destroy(pthread_mutex_t *m);
#define VF_MTX_DESTROY_HOOK(m) vf_on_mtx_destroy(m)
static void vf_on_mtx_init(pthread_mutex_t *m);
#define VF_MTX_INIT_HOOK(m) vf_on_mtx_init(m)
#include "stubs/sys_msg.h"
#include "src/threadpool/threadpool.c"
#include "src/threadpool/threadpool_msg_sys.c"

#ifndef VF_NTHR
#define VF_NTHR 3
#endif
#ifndef VF_SELF
#define VF_SELF 0
#endif
#ifndef VF_FAIR
#define VF_FAIR 2
#endif

static tp_p vf_tp; static size_t vf_n;
static tp_thread_t vf_foreign; static tp_t vf_other_tp;
static tpt_p vf_self;				/* the thread that executes tpt_msg_bsend_ex (NULL: not a pool thread) */
#define VF_QCAP 2
static struct { tpt_msg_cb cb; void *udata; } vf_pend[VF_NTHR][VF_QCAP];	/* ghost per-thread message queues */
static size_t vf_pend_n[VF_NTHR];
static size_t vf_snd_calls;
static void *vf_udata;
static size_t vf_cb_cnt[VF_NTHR + 1];		/* callbacks run with tpt == thread i (last: any other tpt) */
static size_t vf_cb_total, vf_cb_bad_udata;
static size_t vf_steps, vf_popped;
static size_t vf_count_at_destroy = (size_t)-1;
static tpt_msg_data_p vf_md;			/* the shared record */

/* the shared record is found through its mutex (typed pointer; a pointer re-read from the ghost
 * pipe's integer words would be an integer-cast pointer, which CBMC cannot dereference cheaply) */
static void vf_on_mtx_init(pthread_mutex_t *m) {
	vf_md = (tpt_msg_data_p)((char *)m - offsetof(tpt_msg_data_t, lock));
}
static void vf_on_mtx_destroy(pthread_mutex_t *m) {
	tpt_msg_data_p md = (tpt_msg_data_p)((char *)m - offsetof(tpt_msg_data_t, lock));
	vf_count_at_destroy = md->active_thr_count;
}
static size_t vf_idx(tpt_p tpt);
static void vf_cb(tpt_p tpt, void *udata) {
	const size_t idx = vf_idx(tpt);
	vf_cb_cnt[idx] ++; vf_cb_total ++;
	if (udata != vf_udata) vf_cb_bad_udata ++;
}
static size_t vf_idx(tpt_p tpt) {
	size_t idx = VF_NTHR;
	for (size_t i = 0; i < VF_NTHR; i ++) if (tpt == &vf_tp->threads[i]) idx = i;
	return (idx);
}
/* the contract of tpt_msg_send (C05 tpmsg.send.cases) */
int vf_stub_send(tpt_p dst, tpt_p src, uint32_t flags, tpt_msg_cb msg_cb, void *udata) {
	vf_snd_calls ++;
	if (dst == NULL || msg_cb == NULL || tpt_get_msg_queue(dst) == NULL)
		return (EINVAL);
	if (flags & TP_MSG_F_SELF_DIRECT) {
		if (src == NULL) src = tpt_get_current();
		if (src == dst) { msg_cb(dst, udata); return (0); }
	}
	if (!tpt_is_running(dst)) {
		if (!(flags & TP_MSG_F_FORCE)) return (EHOSTDOWN);
		msg_cb(dst, udata);
		return (0);
	}
	const size_t i = vf_idx(dst);
	if ((vf_no_faults || nondet_bool()) && i < VF_NTHR && vf_pend_n[i] < VF_QCAP) {	/* the write succeeded */
		vf_pend[i][vf_pend_n[i]].cb = msg_cb; vf_pend[i][vf_pend_n[i]].udata = udata;
		vf_pend_n[i] ++;
		return (0);
	}
	if (flags & TP_MSG_F_FAIL_DIRECT) { msg_cb(dst, udata); return (0); }
	int e = nondet_int();
	__CPROVER_assume(e != 0);
	return (e);
}
/* a receiver thread i takes its first queued message and runs it */
static void vf_receive_one(size_t i) {
	const tpt_msg_cb cb = vf_pend[i][0].cb;
	void *ud = vf_pend[i][0].udata;
	vf_pend[i][0] = vf_pend[i][1];
	vf_pend_n[i] --;
	vf_popped ++;
	if (cb == tpt_msg_sync_proxy_cb) {
		__CPROVER_assert(ud == (void *)vf_md && vf_md != NULL, "receiver model: a proxy message carries the shared record");
		tpt_msg_sync_proxy_cb(&vf_tp->threads[i], vf_md);
	} else if (cb == vf_cb) {
		vf_cb(&vf_tp->threads[i], ud);
	} else
		__CPROVER_assert(0, "receiver model: unexpected callback in a queued message");
}
void vf_other_threads_step(void) {
	vf_steps ++;
	__CPROVER_assert(vf_mtx_held == NULL, "wait loop: yields without holding the lock");
	for (size_t i = 0; i < VF_NTHR; i ++) {
		if (i < vf_n && &vf_tp->threads[i] != vf_self && vf_pend_n[i] >= 1 &&
		    (vf_steps >= VF_FAIR || nondet_bool()))
			vf_receive_one(i);
	}
}

void harness(void) {
	VF_NONDET(size_t, n);
	VF_NONDET(uint8_t, have_tp);
	VF_NONDET(uint8_t, have_cb);
	/* who executes the call: 0 not a pool thread, 1..n thread of this pool, VF_NTHR+1 thread of another
	 * pool. A compile-time constant per job (-DVF_SELF=k): a SYMBOLIC pointer into the pool object
	 * makes every thread-record access a symbolic-offset byte extraction (flexible array member) and
	 * the formula explodes (> 12 GB measured). */
	const uint8_t self_sel = VF_SELF;
	VF_NONDET(uint8_t, src_given);		/* pass src explicitly (== the executing thread) or NULL */
	VF_NONDET(uint32_t, flags);
	VF_NONDET(uint8_t, no_faults);
	VF_NONDET(uint8_t, want_counts);
	size_t send_cnt = 77, err_cnt = 77;

	/* the user's argument: a pointer to some object (an integer-cast pointer would put "unknown
	 * object" into CBMC's points-to sets of every udata parameter, and each access to the shared
	 * record would become an update of the flat memory array) */
	static char user_arg[2];
	vf_udata = &user_arg[0];
	/* the pool object: header followed by its flexible array of thread records (layout of tp_create's calloc) */
	static struct { tp_t tp; tp_thread_t thr[VF_NTHR]; } pool;
	vf_tp = &pool.tp;
	VF_ASSUME(n >= 1 && n <= VF_NTHR);
	vf_n = n; vf_tp->s.threads_max = n;
	for (size_t i = 0; i < VF_NTHR; i ++) {
		VF_NONDET(size_t, st);
		vf_tp->threads[i].tp = vf_tp; vf_tp->threads[i].thread_num = i; vf_tp->threads[i].state = st;
		vf_tp->threads[i].msg_queue = (void *)&vf_tp->threads[i];	/* non-NULL; only tested against NULL */
	}
	vf_foreign.tp = &vf_other_tp; vf_foreign.state = TP_THREAD_STATE_RUNNING; vf_other_tp.s.threads_max = 1;
	VF_ASSUME(self_sel <= n || self_sel == VF_NTHR + 1);
	vf_self = (self_sel == 0) ? NULL : (self_sel <= VF_NTHR) ? &vf_tp->threads[self_sel - 1] : &vf_foreign;
	vf_current_tpt = vf_self;
	/* the thread that executes the call is alive */
	VF_ASSUME(self_sel == 0 || self_sel > VF_NTHR || vf_self->state == TP_THREAD_STATE_RUNNING);
	tpt_p src = src_given ? vf_self : NULL;
	vf_no_faults = (no_faults != 0);
	const _Bool self_in_pool = (self_sel >= 1 && self_sel <= VF_NTHR);
	/* documented self-deadlock excluded */
	VF_ASSUME(!((flags & TP_BMSG_F_SYNC) && self_in_pool && n > 1 && (flags & (TP_BMSG_F_SELF_SKIP | TP_MSG_F_SELF_DIRECT)) == 0));

	int r = tpt_msg_bsend_ex(have_tp ? vf_tp : NULL, src, flags, have_cb ? vf_cb : NULL, vf_udata,
	    want_counts ? &send_cnt : NULL, want_counts ? &err_cnt : NULL);

	if (!have_tp || !have_cb) {
		VF_ASSERT(r == EINVAL && vf_cb_total == 0 && vf_snd_calls == 0, "bsend: NULL pool / callback => EINVAL, nothing happens");
		VF_ASSERT(!want_counts || (send_cnt == 0 && err_cnt == 0), "bsend: EINVAL reports zero counts");
	} else {
		const _Bool sync = (flags & TP_BMSG_F_SYNC) != 0;
		const size_t targeted = n - (((flags & TP_BMSG_F_SELF_SKIP) && self_in_pool) ? 1 : 0);
		size_t delivered = 0, pending = 0;
		for (size_t i = 0; i < VF_NTHR; i ++) {
			if (i < n) {
				const size_t d = vf_cb_cnt[i] + vf_pend_n[i];	/* ran already + queued for thread i */
				const _Bool skip = (flags & TP_BMSG_F_SELF_SKIP) && vf_self == &vf_tp->threads[i];
				VF_ASSERT(d <= 1, "bsend: no thread gets the message twice");
				VF_ASSERT(!skip || d == 0, "bsend: the skipped caller gets nothing");
				delivered += d; pending += vf_pend_n[i];
			}
		}
		VF_ASSERT(vf_cb_cnt[VF_NTHR] == 0, "bsend: the callback only ever runs as a thread of this pool");
		VF_ASSERT(vf_cb_bad_udata == 0, "bsend: every callback gets the caller's argument");
		if (want_counts) {
			VF_ASSERT(send_cnt + err_cnt == targeted, "bsend: sent + failed == number of threads targeted");
			VF_ASSERT(send_cnt == delivered, "bsend: the sent count is the number of threads that got (or will get) the callback, once each");
			VF_ASSERT(send_cnt == 0 || r == 0, "bsend: at least one message sent => success");
			VF_ASSERT(r != 0 || send_cnt >= 1 || targeted == 0, "bsend: success => at least one message sent (unless nobody was to be targeted)");
		}
		if (sync) {
			VF_ASSERT(pending == 0, "bsend SYNC: returns only when no message is left in any queue (nothing refers to the caller's record any more)");
			VF_ASSERT(vf_cb_total == delivered, "bsend SYNC: every delivered callback has finished at return");
			VF_ASSERT(vf_mtx_live == NULL && vf_mtx_held == NULL && vf_mtx_init_calls == vf_mtx_destroy_calls, "bsend SYNC: mutex released and destroyed");
			VF_ASSERT(vf_mtx_init_calls == 0 || vf_count_at_destroy == 0, "bsend SYNC: the wait ends only when the active count is 0");
		}
		/* reachability of the interesting scenarios, per caller identity of this job */
#if VF_SELF == 0
		if (sync && n == VF_NTHR && vf_popped >= 2 && vf_steps >= 2) VF_CANARY("bsend: waited for receivers over two yields");
		if (!sync && n == VF_NTHR && pending == VF_NTHR) VF_CANARY("bsend: asynchronous, all queued");
		if (want_counts && err_cnt == 1 && send_cnt == VF_NTHR - 1) VF_CANARY("bsend: one send failed");
#elif VF_SELF <= VF_NTHR
#if VF_SELF == 1
		if (sync && n == 1) VF_CANARY("bsend: single thread, synchronous, from itself");
#endif
		if (sync && n == VF_NTHR && (flags & TP_BMSG_F_SELF_SKIP) && vf_popped == VF_NTHR - 1) VF_CANARY("bsend: SYNC from a pool thread, itself skipped");
		if (sync && n == VF_NTHR && (flags & TP_MSG_F_SELF_DIRECT) && !(flags & TP_BMSG_F_SELF_SKIP) && vf_cb_total == VF_NTHR) VF_CANARY("bsend: SYNC from a pool thread, itself served directly");
#else
		if ((flags & TP_BMSG_F_SELF_SKIP) && sync && n >= 2) VF_CANARY("bsend: caller from another pool, SELF_SKIP, SYNC");
		if (n == 1 && sync) VF_CANARY("bsend: caller from another pool, single-thread pool, SYNC");
#endif
	}
	VF_CANARY("bsend_ex harness end");
}
