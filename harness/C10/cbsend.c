/* C10 (sequential fragment): tpt_msg_cbsend as a whole (broadcast with completion callback, both
 * the parallel and the one-by-one form), with the real tpt_msg_broadcast_send__int,
 * tpt_msg_one_by_one_send_next__int, tpt_msg_sync_proxy_cb, tpt_msg_one_by_one_proxy_cb,
 * tpt_msg_cb_done_proxy_cb and tpt_msg_active_thr_count_dec.
 *
 * MODULAR: calls to tpt_msg_send are redirected (--replace-calls) to vf_stub_send = the contract of
 * tpt_msg_send proved in C05 (tpmsg.send.cases), see bsend_ex.c. "Queued" appends (cb, udata) to
 * a ghost per-thread queue. calloc/free: CBMC's model (--malloc-may-fail --malloc-fail-null,
 * --memory-leak-check, double-free check).
 *
 * After tpt_msg_cbsend has returned the harness lets the pool run to quiescence: in rounds, every
 * thread takes the first message of its ghost queue and runs its callback (REAL proxy code) as
 * the receiver does - ONE sequential schedule (round robin, callbacks one after another), not an
 * interleaving semantics. VF_ROUNDS rounds suffice for <= VF_NTHR hand-overs + completion.
 * Pool size <= VF_NTHR symbolic: BOUNDED.
 *
 * Postconditions (property text): argument validation; the callback runs at most once per
 * thread, only on threads of this pool, never on a skipped caller; when the call reports success
 * the completion callback runs exactly once, on the originating thread, after all callbacks, with
 * sent == number of callbacks run and sent + failed == number targeted; it never runs twice; in
 * one-by-one mode callbacks run in thread order (caller first with SELF_DIRECT, last otherwise);
 * the heap record is freed exactly once on every path (no leak, no double free). */
#include "vf/vf.h"
#include <pthread.h>
#include "stubs/sys_msg.h"
#include "src/threadpool/threadpool.c"
#include "src/threadpool/threadpool_msg_sys.c"

#ifndef VF_NTHR
#define VF_NTHR 3
#endif
#ifndef VF_SELF
#define VF_SELF 1
#endif
#ifndef VF_DIRECT
#define VF_DIRECT 0	/* 1: the caller's flags may contain FORCE / FAIL_DIRECT (nested direct calls: expensive) */
#endif
#define VF_ROUNDS (VF_NTHR + 2)

static tp_p vf_tp; static size_t vf_n;
static tp_thread_t vf_foreign; static tp_t vf_other_tp;
static tpt_p vf_self;
#define VF_QCAP 2
static struct { tpt_msg_cb cb; void *udata; } vf_pend[VF_NTHR + 1][VF_QCAP];	/* ghost per-thread queues (last: the foreign thread) */
static size_t vf_pend_n[VF_NTHR + 1];
static size_t vf_snd_calls;
static void *vf_udata;
static size_t vf_cb_cnt[VF_NTHR + 1], vf_cb_order[VF_NTHR + 2];
static size_t vf_cb_total, vf_cb_bad_udata, vf_cb_after_done, vf_cb_nested;
static int vf_cb_depth;
static size_t vf_done_calls, vf_done_sent, vf_done_err, vf_done_cbs_before;
static tpt_p vf_done_tpt; static void *vf_done_udata;

static size_t vf_idx(tpt_p tpt) {
	size_t idx = VF_NTHR;
	for (size_t i = 0; i < VF_NTHR; i ++) if (tpt == &vf_tp->threads[i]) idx = i;
	return (idx);
}
static void vf_cb(tpt_p tpt, void *udata) {
	const size_t idx = (tpt == &vf_foreign) ? VF_NTHR : vf_idx(tpt);
	if (vf_cb_total < VF_NTHR + 2) vf_cb_order[vf_cb_total] = idx;
	vf_cb_cnt[idx] ++; vf_cb_total ++;
	if (udata != vf_udata) vf_cb_bad_udata ++;
	if (vf_done_calls != 0) vf_cb_after_done ++;
}
static void vf_done_cb(tpt_p tpt, size_t send_msg_cnt, size_t error_cnt, void *udata) {
	vf_done_calls ++; vf_done_tpt = tpt; vf_done_sent = send_msg_cnt; vf_done_err = error_cnt; vf_done_udata = udata;
	vf_done_cbs_before = vf_cb_total;
}
/* the contract of tpt_msg_send (C05 tpmsg.send.cases) */
int vf_stub_send(tpt_p dst, tpt_p src, uint32_t flags, tpt_msg_cb msg_cb, void *udata) {
	vf_snd_calls ++;
	if (dst == NULL || msg_cb == NULL || tpt_get_msg_queue(dst) == NULL)
		return (EINVAL);
	if (flags & TP_MSG_F_SELF_DIRECT) {
		if (src == NULL) src = tpt_get_current();
		if (src == dst) { msg_cb(dst, udata); return (0); }
	}
	if (!tpt_is_running(dst)) {
		if (!(flags & TP_MSG_F_FORCE)) return (EHOSTDOWN);
#if VF_DIRECT
		msg_cb(dst, udata);
#else
		__CPROVER_assert(0, "harness: FORCE is excluded from this job's flag class");
#endif
		return (0);
	}
	const size_t i = (dst == &vf_foreign) ? VF_NTHR : vf_idx(dst);
	if ((vf_no_faults || nondet_bool()) && vf_pend_n[i] < VF_QCAP) {	/* the write succeeded */
		vf_pend[i][vf_pend_n[i]].cb = msg_cb; vf_pend[i][vf_pend_n[i]].udata = udata;
		vf_pend_n[i] ++;
		return (0);
	}
	if (flags & TP_MSG_F_FAIL_DIRECT) {
#if VF_DIRECT
		msg_cb(dst, udata);
#else		/* only the library's own completion message carries FAIL_DIRECT in this flag class */
		__CPROVER_assert(msg_cb == tpt_msg_cb_done_proxy_cb, "harness: FAIL_DIRECT only on the completion message in this job's flag class");
		tpt_msg_cb_done_proxy_cb(dst, udata);
#endif
		return (0);
	}
	int e = nondet_int();
	__CPROVER_assume(e != 0);
	return (e);
}
void vf_other_threads_step(void) { }
/* receiver thread i takes its first queued message and runs it; the executing thread is i */
static void vf_receive_one(size_t i) {
	const tpt_msg_cb cb = vf_pend[i][0].cb;
	void *ud = vf_pend[i][0].udata;
	tpt_p me = (i == VF_NTHR) ? &vf_foreign : &vf_tp->threads[i];
	vf_pend[i][0] = vf_pend[i][1];
	vf_pend_n[i] --;
	vf_current_tpt = me;
	if (cb == tpt_msg_sync_proxy_cb) tpt_msg_sync_proxy_cb(me, ud);
	else if (cb == tpt_msg_one_by_one_proxy_cb) tpt_msg_one_by_one_proxy_cb(me, ud);
	else if (cb == tpt_msg_cb_done_proxy_cb) tpt_msg_cb_done_proxy_cb(me, ud);
	else __CPROVER_assert(0, "receiver model: unexpected callback in a queued message");
}

void harness(void) {
	VF_NONDET(size_t, n);
	VF_NONDET(uint8_t, have_tp);
	VF_NONDET(uint8_t, have_cb);
	VF_NONDET(uint8_t, have_done);
	const uint8_t self_sel = VF_SELF;	/* 0 not a pool thread, 1..n thread of this pool, VF_NTHR+1 thread of another pool; constant per job (see bsend_ex.c) */
	VF_NONDET(uint8_t, src_given);
	VF_NONDET(uint32_t, flags);
	VF_NONDET(uint8_t, no_faults);
	static char user_arg[2];
	static struct { tp_t tp; tp_thread_t thr[VF_NTHR]; } pool;

	vf_udata = &user_arg[0];
	vf_tp = &pool.tp;
	VF_ASSUME(n >= 1 && n <= VF_NTHR);
	vf_n = n; vf_tp->s.threads_max = n;
	for (size_t i = 0; i < VF_NTHR; i ++) {
		VF_NONDET(size_t, st);
		vf_tp->threads[i].tp = vf_tp; vf_tp->threads[i].thread_num = i; vf_tp->threads[i].state = st;
		vf_tp->threads[i].msg_queue = (void *)&vf_tp->threads[i];
	}
	vf_foreign.tp = &vf_other_tp; vf_foreign.state = TP_THREAD_STATE_RUNNING; vf_other_tp.s.threads_max = 1;
	vf_foreign.msg_queue = (void *)&vf_foreign;
	VF_ASSUME(self_sel <= n || self_sel == VF_NTHR + 1);
	vf_self = (self_sel == 0) ? NULL : (self_sel <= VF_NTHR) ? &vf_tp->threads[self_sel - 1] : &vf_foreign;
	vf_current_tpt = vf_self;
	VF_ASSUME(self_sel == 0 || self_sel > VF_NTHR || vf_self->state == TP_THREAD_STATE_RUNNING);
	tpt_p src = src_given ? vf_self : NULL;
	vf_no_faults = (no_faults != 0);
	const _Bool self_in_pool = (self_sel >= 1 && self_sel <= VF_NTHR);
	const _Bool obo = (flags & TP_CBMSG_F_ONE_BY_ONE) != 0;
#if !VF_DIRECT
	VF_ASSUME((flags & (TP_MSG_F_FORCE | TP_MSG_F_FAIL_DIRECT)) == 0);
#endif

	int r = tpt_msg_cbsend(have_tp ? vf_tp : NULL, src, flags, have_cb ? vf_cb : NULL, vf_udata, have_done ? vf_done_cb : NULL);

	const _Bool invalid = !have_tp || !have_cb || !have_done || (flags & (TP_BMSG_F_SYNC | TP_BMSG_F_SYNC_USLEEP)) != 0 || vf_self == NULL;
	const size_t done_at_return = vf_done_calls;
	/* the pool runs to quiescence */
	for (size_t round = 0; round < VF_ROUNDS; round ++) {
		for (size_t i = 0; i < VF_NTHR + 1; i ++) {
			if ((i < n || i == VF_NTHR) && vf_pend_n[i] >= 1)
				vf_receive_one(i);
		}
	}
	size_t pending = 0;
	for (size_t i = 0; i < VF_NTHR + 1; i ++) pending += vf_pend_n[i];
	VF_ASSERT(pending == 0, "harness: quiescent (enough rounds)");

	if (invalid) {
		VF_ASSERT(r == EINVAL && vf_cb_total == 0 && vf_done_calls == 0 && vf_snd_calls == 0,
		    "cbsend: NULL pool / callback / completion, SYNC flags or no originating thread => EINVAL, nothing happens");
		VF_CANARY("cbsend: refused");
	} else {
		const size_t targeted = n - (((flags & TP_BMSG_F_SELF_SKIP) && self_in_pool) ? 1 : 0);
		VF_ASSERT(vf_done_calls <= 1, "cbsend: the completion callback never runs twice");
		VF_ASSERT(r != 0 || vf_done_calls == 1, "cbsend: success => the completion callback runs exactly once");
		VF_ASSERT(vf_cb_after_done == 0, "cbsend: completion comes after the last callback");
		VF_ASSERT(vf_cb_cnt[VF_NTHR] == 0, "cbsend: the callback only ever runs as a thread of this pool");
		VF_ASSERT(vf_cb_bad_udata == 0, "cbsend: every callback gets the caller's argument");
		for (size_t i = 0; i < VF_NTHR; i ++) {
			if (i < n) {
				VF_ASSERT(vf_cb_cnt[i] <= 1, "cbsend: no thread runs the callback twice");
				VF_ASSERT(!((flags & TP_BMSG_F_SELF_SKIP) && vf_self == &vf_tp->threads[i]) || vf_cb_cnt[i] == 0, "cbsend: the skipped caller does not run it");
			} else
				VF_ASSERT(vf_cb_cnt[i] == 0, "cbsend: only threads of the pool run it");
		}
		if (vf_done_calls == 1) {
			VF_ASSERT(vf_done_tpt == vf_self && vf_done_udata == vf_udata, "cbsend: completion runs on the originating thread with the caller's argument");
			VF_ASSERT(vf_done_sent == vf_cb_total, "cbsend: the sent count is the number of callbacks that ran");
			VF_ASSERT(vf_done_sent + vf_done_err == targeted, "cbsend: sent + failed == number of threads targeted");
		}
		if (obo) {
			/* thread order: strictly increasing indices, except that the originating thread is
			 * served first (SELF_DIRECT) or last (no SELF_SKIP / SELF_DIRECT) */
			for (size_t j = 0; j + 1 < VF_NTHR + 2; j ++) {
				if (j + 1 < vf_cb_total) {
					const size_t a = vf_cb_order[j], b = vf_cb_order[j + 1];
					const _Bool a_self = self_in_pool && a == (size_t)(VF_SELF - 1), b_self = self_in_pool && b == (size_t)(VF_SELF - 1);
					VF_ASSERT(a < b || (a_self && j == 0 && (flags & TP_MSG_F_SELF_DIRECT)) ||
					    (b_self && j + 2 == vf_cb_total && !(flags & (TP_BMSG_F_SELF_SKIP | TP_MSG_F_SELF_DIRECT))),
					    "cbsend one-by-one: callbacks run in thread order");
				}
			}
		}
#if VF_SELF != 0
		if (vf_done_calls == 1 && vf_cb_total == VF_NTHR && obo) VF_CANARY("cbsend: one-by-one over the whole pool, completed");
		if (vf_done_calls == 1 && vf_cb_total == VF_NTHR && !obo && done_at_return == 0) VF_CANARY("cbsend: parallel over the whole pool, completed later");
		if (r != 0 && obo) VF_CANARY("cbsend: one-by-one, nothing could be sent");
		if (r != 0 && !obo && vf_done_calls == 1) VF_CANARY("cbsend: parallel, everything failed");
#endif
	}
	/* heap: double free is checked in free(); a record still allocated here is reported by --memory-leak-check */
	VF_CANARY("cbsend harness end");
}
