/* C10 (sequential / per-call fragment): the building blocks of the broadcasts in
 * src/threadpool/threadpool_msg_sys.c, one call each, every input symbolic.
 * Plain harness (structures are private to the .c files); both real .c files are #included,
 * the real accessors of threadpool.c (tp_thread_get, tp_thread_count_max_get, tpt_get_tp ...) are used.
 *
 * MODULAR: calls to tpt_msg_send are redirected (goto-instrument --replace-calls) to
 * vf_stub_send below = its contract as established for the real function in C05
 * (tpmsg.send.cases): it logs (dst, src, flags, cb, udata) and returns 0 or a non-zero error,
 * chosen nondeterministically per call; it never runs the callback itself (the accounting of the
 * callers under test must not depend on HOW a successful send delivers; the direct-call paths are
 * exercised with the real tpt_msg_send in bsend_ex.c / cbsend.c).
 * Mutex: stubs/sys_msg.h (exclusive no-op with ghost "held" flag).
 * Pool size <= VF_NTHR (3) symbolic: BOUNDED.
 *
 *   VF_PART 1  tpt_msg_broadcast_send__int     sent + failed == targeted, one send per targeted thread
 *   VF_PART 2  tpt_msg_active_thr_count_dec    post-decrement value; completion posted iff it is 0
 *   VF_PART 3  tpt_msg_one_by_one_send_next__int  hand-over to the next index, to nobody else
 *   VF_PART 4  tpt_msg_one_by_one_proxy_cb     callback once, then hand-over XOR completion
 *   VF_PART 5  tpt_msg_cb_done_proxy_cb        completion callback once with the counts, record freed once
 *   VF_PART 6  tpt_msg_sync_proxy_cb           callback once, then one decrement
 */
#include "vf/vf.h"
#include "stubs/sys_msg.h"
#include "src/threadpool/threadpool.c"
#include "src/threadpool/threadpool_msg_sys.c"

#ifndef VF_NTHR
#define VF_NTHR 3
#endif
#define VF_NLOG (VF_NTHR + 3)

/* ---- logging stub for tpt_msg_send ---- */
static size_t vf_snd_calls, vf_snd_ok, vf_snd_fail;
static struct { tpt_p dst, src; uint32_t flags; tpt_msg_cb cb; void *udata; int ret; } vf_snd[VF_NLOG];
int vf_stub_send(tpt_p dst, tpt_p src, uint32_t flags, tpt_msg_cb msg_cb, void *udata) {
	int r = nondet_int();
	if (nondet_bool()) r = 0;
	if (vf_snd_calls < VF_NLOG) {
		vf_snd[vf_snd_calls].dst = dst; vf_snd[vf_snd_calls].src = src; vf_snd[vf_snd_calls].flags = flags;
		vf_snd[vf_snd_calls].cb = msg_cb; vf_snd[vf_snd_calls].udata = udata; vf_snd[vf_snd_calls].ret = r;
	}
	vf_snd_calls ++;
	if (r == 0) vf_snd_ok ++; else vf_snd_fail ++;
	return (r);
}
/* ---- user callbacks ---- */
static size_t vf_cb_calls; static tpt_p vf_cb_tpt; static void *vf_cb_udata; static int vf_cb_locks_before; static size_t vf_cb_sends_before;
static void vf_cb(tpt_p tpt, void *udata) {
	vf_cb_calls ++; vf_cb_tpt = tpt; vf_cb_udata = udata;
	vf_cb_locks_before = vf_mtx_lock_calls; vf_cb_sends_before = vf_snd_calls;
}
static size_t vf_done_calls, vf_done_sent, vf_done_err; static tpt_p vf_done_tpt; static void *vf_done_udata;
static _Bool vf_done_mtx_live;
static void vf_done_cb(tpt_p tpt, size_t send_msg_cnt, size_t error_cnt, void *udata) {
	vf_done_calls ++; vf_done_tpt = tpt; vf_done_sent = send_msg_cnt; vf_done_err = error_cnt; vf_done_udata = udata;
}
void vf_other_threads_step(void) { }

void harness(void) {
	VF_NONDET(size_t, n);			/* threads of the pool */
	VF_NONDET(uint8_t, src_sel);		/* 0: NULL, 1..VF_NTHR: pool thread src_sel-1, else a thread of ANOTHER pool */
	VF_NONDET(uint32_t, flags);
	VF_NONDET(uint64_t, udata_v);
	VF_NONDET(size_t, active0);
	VF_NONDET(size_t, cur0);
	VF_NONDET(size_t, sent0);
	VF_NONDET(size_t, err0);
	VF_NONDET(uint8_t, caller_sel);		/* msg_data->tpt: like src_sel */
	VF_NONDET(uint8_t, have_done);
	void *udata = (void *)udata_v;
	static tp_t other_tp;
	static tp_thread_t foreign;		/* a thread of another pool */
	/* the pool object: header followed by its flexible array of thread records (layout of tp_create's calloc) */
	static struct { tp_t tp; tp_thread_t thr[VF_NTHR]; } pool;
	tp_p tp = &pool.tp;
	VF_ASSUME(n >= 1 && n <= VF_NTHR);
	tp->s.threads_max = n;
	for (size_t i = 0; i < VF_NTHR; i ++) {
		VF_NONDET(size_t, st);
		tp->threads[i].tp = tp; tp->threads[i].thread_num = i; tp->threads[i].state = st;
		tp->threads[i].msg_queue = (void *)&tp->threads[i];	/* non-NULL; never dereferenced (send is stubbed) */
	}
	foreign.tp = &other_tp; foreign.state = TP_THREAD_STATE_RUNNING; foreign.msg_queue = (void *)&foreign;
	other_tp.s.threads_max = 1;
#define VF_SEL(s)	(((s) == 0) ? NULL : ((s) <= VF_NTHR) ? &tp->threads[(s) - 1] : &foreign)
	VF_ASSUME(src_sel <= VF_NTHR + 1 && (src_sel == 0 || src_sel > VF_NTHR || src_sel <= n));
	VF_ASSUME(caller_sel <= VF_NTHR + 1 && (caller_sel == 0 || caller_sel > VF_NTHR || caller_sel <= n));
	tpt_p src = VF_SEL(src_sel);
	tpt_p caller = VF_SEL(caller_sel);
	tpt_msg_data_t md;
	md.msg_cb = vf_cb; md.udata = udata; md.active_thr_count = active0; md.cur_thr_idx = cur0;
	md.flags = flags; md.send_msg_cnt = sent0; md.error_cnt = err0; md.tpt = caller;
	md.done_cb = have_done ? vf_done_cb : NULL;

#if VF_PART == 1
	/* ------------------------------------------------------------------------------------ */
	VF_NONDET(uint8_t, have_md);
	volatile size_t send_cnt = sent0, error_cnt = err0;
	VF_ASSUME(active0 >= 1);
	size_t ret = tpt_msg_broadcast_send__int(tp, src, have_md ? &md : NULL, flags, vf_cb, udata, &send_cnt, &error_cnt);

	size_t targeted = 0, skipped = 0;
	for (size_t i = 0; i < VF_NTHR; i ++) {
		if (i < n) {
			const _Bool skip = (flags & TP_BMSG_F_SELF_SKIP) != 0 && src != NULL && src == &tp->threads[i];
			if (skip) skipped ++;
			else {
				VF_ASSERT(targeted < vf_snd_calls && vf_snd[targeted].dst == &tp->threads[i],
				    "broadcast: every targeted thread is sent to, in thread order, skipped threads are not");
				targeted ++;
			}
		}
	}
	VF_ASSERT(vf_snd_calls == targeted, "broadcast: exactly one send per targeted thread, none to anybody else");
	VF_ASSERT(send_cnt + error_cnt == targeted, "broadcast: sent + failed == number of threads targeted");
	VF_ASSERT(send_cnt == vf_snd_ok && error_cnt == vf_snd_fail && ret == vf_snd_fail, "broadcast: counts are the true counts; failures returned");
	VF_NONDET(size_t, k);
	VF_ASSUME(k < VF_NLOG);
	VF_ASSERT(k >= vf_snd_calls || (vf_snd[k].src == src && vf_snd[k].flags == flags && vf_snd[k].cb == vf_cb && vf_snd[k].udata == udata),
	    "broadcast: every send carries the caller's source, flags, callback and argument");
	VF_ASSERT(vf_cb_calls == 0, "broadcast: the callback is only run by deliveries");
	if (have_md) {
		/* the count-down must reach zero exactly when the last delivery has run: after the sends
		 * it must equal successful sends + failures still to be subtracted by the caller */
		VF_ASSERT(md.active_thr_count == active0 - skipped,
		    "broadcast: the active count drops once per thread actually skipped (and only then)");
		VF_ASSERT(active0 != n || md.active_thr_count == targeted,
		    "broadcast: active count == threads targeted (deliveries + failures the caller subtracts)");
	}
	if (skipped == 1 && targeted == VF_NTHR - 1 && vf_snd_fail == 1) VF_CANARY("broadcast: self skipped, one failure");
	if (src_sel > VF_NTHR && (flags & TP_BMSG_F_SELF_SKIP) && have_md) VF_CANARY("broadcast: caller from another pool, SELF_SKIP");
#endif

#if VF_PART == 2
	/* ------------------------------------------------------------------------------------ */
	VF_NONDET(size_t, dec);
	VF_ASSUME(dec <= active0);
	pthread_mutex_init(&md.lock, NULL);
	size_t ret = tpt_msg_active_thr_count_dec(&md, src, dec);
	VF_ASSERT(ret == active0 - dec && md.active_thr_count == active0 - dec, "count-down: returns the post-decrement value");
	VF_ASSERT(vf_mtx_lock_calls == 1 && vf_mtx_unlock_calls == 1 && vf_mtx_held == NULL, "count-down: lock / unlock balanced");
	if (ret == 0 && have_done) {
		VF_ASSERT(vf_snd_calls == 1 && vf_snd[0].dst == caller && vf_snd[0].src == src &&
		    vf_snd[0].flags == (TP_MSG_F_FAIL_DIRECT | TP_MSG_F_SELF_DIRECT) &&
		    vf_snd[0].cb == tpt_msg_cb_done_proxy_cb && vf_snd[0].udata == (void *)&md,
		    "count-down: the decrement that reaches zero posts the completion exactly once, to the originating thread, with FAIL_DIRECT|SELF_DIRECT");
		VF_CANARY("count-down: last one posts completion");
	} else {
		VF_ASSERT(vf_snd_calls == 0, "count-down: no completion while threads are active / without a completion callback");
	}
	VF_ASSERT(vf_done_calls == 0 && vf_cb_calls == 0, "count-down: runs no callback itself");
#endif

#if VF_PART == 3
	/* ------------------------------------------------------------------------------------ */
	int ret = tpt_msg_one_by_one_send_next__int(tp, src, &md);
	/* expected: walk indices cur0 .. n-1, skip the originating thread, try until one send succeeds */
	size_t tried = 0; _Bool handed = 0; size_t handed_idx = 0;
	for (size_t i = 0; i < VF_NTHR; i ++) {
		if (i < n && i >= cur0 && !handed && &tp->threads[i] != caller) {
			VF_ASSERT(tried < vf_snd_calls && vf_snd[tried].dst == &tp->threads[i], "one-by-one: candidates are tried in thread order from the current index");
			if (tried < vf_snd_calls && vf_snd[tried].ret == 0) { handed = 1; handed_idx = i; }
			tried ++;
		}
	}
	VF_ASSERT(vf_snd_calls == tried, "one-by-one: nobody else is sent to; nothing after a successful hand-over");
	VF_ASSERT((ret == 0) == handed, "one-by-one: 0 iff the token was handed over");
	VF_ASSERT(!handed || md.cur_thr_idx == handed_idx, "one-by-one: the current index names the thread that holds the token");
	VF_ASSERT(handed || cur0 >= n || md.cur_thr_idx == n, "one-by-one: exhausted => index past the last thread");
	VF_ASSERT(cur0 < n || (ret == EINVAL && vf_snd_calls == 0), "one-by-one: index past the end => EINVAL, nothing sent");
	VF_ASSERT(md.send_msg_cnt == sent0 + (handed ? 1 : 0) && md.error_cnt == err0 + vf_snd_fail, "one-by-one: counts are the true counts");
	VF_NONDET(size_t, k);
	VF_ASSUME(k < VF_NLOG);
	VF_ASSERT(k >= vf_snd_calls || (vf_snd[k].src == src && vf_snd[k].flags == flags && vf_snd[k].cb == tpt_msg_one_by_one_proxy_cb && vf_snd[k].udata == (void *)&md),
	    "one-by-one: the token carries the shared record and the caller's flags");
	if (handed && handed_idx == VF_NTHR - 1 && vf_snd_fail == 1) VF_CANARY("one-by-one: skipped a failing thread");
	if (!handed && cur0 == 0 && n == VF_NTHR) VF_CANARY("one-by-one: all failed");
#endif

#if VF_PART == 4
	/* ------------------------------------------------------------------------------------ */
	/* the proxy runs on pool thread `me` that holds the token (cur0 == its index or the caller's turn) */
	VF_NONDET(uint8_t, me_sel);
	VF_ASSUME(me_sel >= 1 && me_sel <= n);
	tpt_p me = &tp->threads[me_sel - 1];
	VF_ASSUME(caller != NULL);			/* tpt_msg_cbsend refuses a NULL origin */
	VF_ASSUME(sent0 < 1000 && err0 < 1000);
	/* token invariant (established by VF_PART 3 and tpt_msg_cbsend): the current index names the
	 * token holder; the originating thread holds it only in the final extra round (index == n),
	 * which exists only without SELF_SKIP / SELF_DIRECT */
	VF_ASSUME((me != caller && cur0 == (size_t)(me_sel - 1)) ||
	    (me == caller && cur0 == n && (flags & (TP_BMSG_F_SELF_SKIP | TP_MSG_F_SELF_DIRECT)) == 0));
	tpt_msg_one_by_one_proxy_cb(me, &md);
	VF_ASSERT(vf_cb_sends_before == 0, "one-by-one proxy: the token moves on only after this thread's callback has returned (no overlap)");
	VF_ASSERT(vf_cb_calls == 1 && vf_cb_tpt == me && vf_cb_udata == udata, "one-by-one proxy: the callback runs exactly once, on this thread, with the argument");
	size_t tokens = 0, dones = 0;
	for (size_t j = 0; j < VF_NLOG; j ++) {
		if (j < vf_snd_calls) {
			if (vf_snd[j].cb == tpt_msg_one_by_one_proxy_cb && vf_snd[j].ret == 0) tokens ++;
			if (vf_snd[j].cb == tpt_msg_cb_done_proxy_cb) {
				dones ++;
				VF_ASSERT(vf_snd[j].dst == caller && vf_snd[j].udata == (void *)&md &&
				    vf_snd[j].flags == (TP_MSG_F_FAIL_DIRECT | TP_MSG_F_SELF_DIRECT) && j == vf_snd_calls - 1,
				    "one-by-one proxy: completion goes to the originating thread, as the last action");
			}
			VF_ASSERT(vf_snd[j].cb == tpt_msg_one_by_one_proxy_cb || vf_snd[j].cb == tpt_msg_cb_done_proxy_cb, "one-by-one proxy: only tokens and the completion are sent");
			VF_ASSERT(vf_snd[j].cb != tpt_msg_one_by_one_proxy_cb || vf_snd[j].dst != me, "one-by-one proxy: never hands the token to itself");
			if (vf_snd[j].cb == tpt_msg_one_by_one_proxy_cb) {
				if (vf_snd[j].dst == caller)
					VF_ASSERT(me != caller && (flags & (TP_BMSG_F_SELF_SKIP | TP_MSG_F_SELF_DIRECT)) == 0 &&
					    (j + 1 == vf_snd_calls || vf_snd[j + 1].cb == tpt_msg_cb_done_proxy_cb),
					    "one-by-one proxy: the originating thread gets the token only as the very last one, and only if it has not been skipped or served directly");
				else
					VF_ASSERT(vf_snd[j].dst > me && vf_snd[j].dst < &tp->threads[n] && (j == 0 || vf_snd[j].dst > vf_snd[j - 1].dst),
					    "one-by-one proxy: the token only moves to higher thread indices, in order");
			}
		}
	}
	VF_ASSERT(tokens + dones == 1, "one-by-one proxy: exactly one of {token handed to one thread, completion posted} - never both, never neither");
	VF_ASSERT(md.send_msg_cnt == sent0 + tokens && md.error_cnt + md.send_msg_cnt + dones == err0 + sent0 + vf_snd_calls,
	    "one-by-one proxy: every attempted token is counted once, as sent or as failed");
	if (dones == 1 && vf_snd_fail >= 1) VF_CANARY("one-by-one proxy: rest failed, completion posted");
	if (tokens == 1 && vf_snd[vf_snd_calls - 1].dst == caller) VF_CANARY("one-by-one proxy: originating thread scheduled last");
#endif

#if VF_PART == 5
	/* ------------------------------------------------------------------------------------ */
	tpt_msg_data_p hd = calloc(1, sizeof(tpt_msg_data_t));
	VF_ASSUME(hd != NULL);
	*hd = md;
	hd->done_cb = vf_done_cb;
	if ((flags & TP_CBMSG_F_ONE_BY_ONE) == 0)
		pthread_mutex_init(&hd->lock, NULL);	/* as tpt_msg_cbsend does */
	VF_NONDET(uint8_t, me_sel);
	VF_ASSUME(me_sel >= 1 && me_sel <= n);
	tpt_msg_cb_done_proxy_cb(&tp->threads[me_sel - 1], hd);
	VF_ASSERT(vf_done_calls == 1 && vf_done_tpt == &tp->threads[me_sel - 1] && vf_done_sent == sent0 && vf_done_err == err0 && vf_done_udata == udata,
	    "completion proxy: the completion callback runs exactly once with the true counts and the caller's argument");
	VF_ASSERT(vf_mtx_live == NULL && vf_mtx_destroy_calls == (((flags & TP_CBMSG_F_ONE_BY_ONE) == 0) ? 1 : 0),
	    "completion proxy: the mutex is destroyed iff it was initialised");
	VF_ASSERT(vf_snd_calls == 0 && vf_cb_calls == 0, "completion proxy: nothing else happens");
	/* heap record freed exactly once: CBMC double-free check in free() + --memory-leak-check at exit */
#endif

#if VF_PART == 6
	/* ------------------------------------------------------------------------------------ */
	VF_NONDET(uint8_t, me_sel);
	VF_ASSUME(me_sel >= 1 && me_sel <= n && active0 >= 1);
	pthread_mutex_init(&md.lock, NULL);
	tpt_msg_sync_proxy_cb(&tp->threads[me_sel - 1], &md);
	VF_ASSERT(vf_cb_locks_before == 0 && vf_cb_sends_before == 0, "sync proxy: the count-down happens after the callback has returned");
	VF_ASSERT(vf_cb_calls == 1 && vf_cb_tpt == &tp->threads[me_sel - 1] && vf_cb_udata == udata, "sync proxy: the callback runs exactly once, on this thread, with the argument");
	VF_ASSERT(md.active_thr_count == active0 - 1 && vf_mtx_lock_calls == 1 && vf_mtx_unlock_calls == 1 && vf_mtx_held == NULL,
	    "sync proxy: exactly one decrement, under the lock, after the callback");
	VF_ASSERT(vf_snd_calls == ((active0 == 1 && have_done) ? 1 : 0), "sync proxy: completion posted iff this was the last thread");
#endif
	VF_CANARY("parts harness end");
}
