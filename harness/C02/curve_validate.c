/* C02: ec_curve_validate - "accepted with EC_CURVE_FLAG_A_M3 ==> a == p - 3" (the shortcut formulas
 * of add / dbl / check_affine / restore_y agree with curve->a), and a, b, Gx, Gy >= p rejected.
 *
 * Plain-mode job (the DFCC routes did not close: obligations/C02.json not_covered history):
 *   - the three functions that DECIDE the clause keep their real bodies: bn_init, bn_assign,
 *     bn_sub_digit, bn_cmp (+ bn_is_zero, bn_is_one, bn_add_digit's callers are stubbed);
 *   - every other callee (modular arithmetic, square root, division, the two point checks) gets a
 *     generated body "return nondet, havoc *bn" (job field pre_instrument): any status, any result
 *     - weaker than the contracts of contracts/ec_bn_stubs.h, sound for this clause;
 *   - the MOV-condition loop (99 iterations) is fully unwound; digit loops of the real bn_*
 *     functions are cut at the bound WITHOUT assertion: that drops only executions in which a
 *     stubbed callee "returned" a number with more digits than the capacity (never a real one).
 * Capacity BN_BIT_LEN = 256 (4 digits of 64 bit): bounded. */
#include "stubs/ec_config.h"
#define VF_BN_MEM_MODELS 1	/* byte-loop memcpy / memset: cbmc's builtin model is imprecise for 64-bit digits (stubs/bn.h) */
#include "stubs/bn.h"
#include "crypto/dsa/ecdsa.h"
#include "specs/bn_spec.h"

#ifndef VF_REPLAY
void harness(void) {
	ec_curve_p curve = (ec_curve_p)malloc(sizeof(ec_curve_t));
	__CPROVER_assume(curve != NULL);
	VF_ASSUME(VF_BN_WF(curve->p) && VF_BN_WF(curve->a) && VF_BN_WF(curve->b) && VF_BN_WF(curve->G.x) &&
	    VF_BN_WF(curve->G.y) && VF_BN_WF(curve->n) && curve->m >= 1 && curve->m <= BN_BIT_LEN);
	vf_bnv_t p0 = VF_BN_VAL(curve->p), a0 = VF_BN_VAL(curve->a), b0 = VF_BN_VAL(curve->b);
	vf_bnv_t gx0 = VF_BN_VAL(curve->G.x), gy0 = VF_BN_VAL(curve->G.y);
	uint32_t flags0 = curve->flags;
	size_t cnt0 = ((EC_CURVE_CALC_BITS_DBL(curve) + 63) / 64);
	int warnings = 0;
	int r = ec_curve_validate(curve, &warnings);
	/* the comparison is made in a temporary of EC_CURVE_CALC_BITS_DBL bits: p - 3 there */
	VF_ASSERT(!(r == 0 && 0 != (flags0 & EC_CURVE_FLAG_A_M3) && p0 >= 3) || a0 == p0 - 3,
	    "curve_validate: accepted with EC_CURVE_FLAG_A_M3 ==> a == p - 3");
	VF_ASSERT(r != 0 || (a0 < p0 && b0 < p0 && gx0 < p0 && gy0 < p0),
	    "curve_validate: accepted ==> a, b, Gx, Gy < p");
	(void)cnt0;
	if (r == 0 && 0 != (flags0 & EC_CURVE_FLAG_A_M3)) VF_CANARY("C02 curve_validate: accepted with A_M3 reachable");
	if (r == 0 && 0 == (flags0 & EC_CURVE_FLAG_A_M3)) VF_CANARY("C02 curve_validate: accepted without A_M3 reachable");
	VF_CANARY("C02 curve_validate harness end");
}
#else
void harness(void) { }
#endif
