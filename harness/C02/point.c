/* C02 (contract-reachable part): ec_point_* functions of include/math/elliptic_curve.h, tests'
 * configuration (Jacobian, mixed addition, repeated doubling), each checked against its body with
 * the field operations (bn_mod_*, bn_assign, bn_cmp ...) and the lower point operations replaced by
 * contracts.  Harness-owned objects with unconstrained, well-formed contents; -DVF_ALIAS=1 passes
 * the same object twice where the API allows it (doubling call a == b).
 * -DVF_FN_<name> selects the function. */
#include "contracts/ecdsa.h"

#ifndef VF_REPLAY
void harness(void) {
	ec_curve_p curve = (ec_curve_p)malloc(sizeof(ec_curve_t));
	__CPROVER_assume(curve != NULL);
	VF_ASSUME(VF_EC_CURVE_WF(*curve));
	VF_NONDET_OBJ(ec_point_proj_t, A);
	VF_NONDET_OBJ(ec_point_proj_t, B);
	VF_NONDET_OBJ(ec_point_t, P);
	VF_NONDET_OBJ(ec_point_t, Q);
	VF_NONDET_OBJ(ec_point_t, P2);
	VF_NONDET_OBJ(bn_t, d);
	VF_NONDET_OBJ(bn_t, e);
	VF_ASSUME(VF_EC_PP_WF(A) && VF_EC_PP_WF(B) && VF_EC_POINT_WF(P) && VF_EC_POINT_WF(Q) && VF_EC_POINT_WF(P2) && vf_bn_wf(d) && vf_bn_wf(e));
	VF_EC_GHOST_RESET();
	int r;
#ifndef VF_ALIAS
#define VF_ALIAS 0
#endif
#if defined(VF_FN_import_affine)
	r = ec_point_proj_import_affine(&A, &P, curve);
#elif defined(VF_FN_norm)
	r = ec_point_proj_norm(&A, curve);
#elif defined(VF_FN_export_affine)
	r = ec_point_proj_export_affine(&A, &P, curve);
	if (r == 0 && P.infinity != 0) VF_CANARY("C02 export_affine: infinity path");
#elif defined(VF_FN_add)
	r = ec_point_proj_add(&A, VF_ALIAS ? &A : &B, curve);
	if (r == 0 && VF_EC_PP_INF(&A)) VF_CANARY("C02 add: infinity result reachable");
	if (r == 0 && vf_n_mult_digit3 == 1) VF_CANARY("C02 add: doubling path reachable");
#if !VF_ALIAS
	if (r == 0 && vf_n_cmp == 1 && vf_n_mult_digit3 == 0) VF_CANARY("C02 add: general addition path reachable");
	if (r == 0 && vf_n_cmp == 2 && vf_cmp_r1 != 0) VF_CANARY("C02 add: opposite points path reachable");
#endif
#elif defined(VF_FN_sub)
	r = ec_point_proj_sub(&A, VF_ALIAS ? &A : &B, curve);
#elif defined(VF_FN_add_mix)
	r = ec_point_proj_add_mix(&A, &P, curve);
	if (r == 0 && vf_n_pop == 1 && vf_pop_fn == VF_POP_add) VF_CANARY("C02 add_mix: doubling path reachable");
	if (r == 0 && vf_n_pop == 0 && VF_EC_PP_INF(&A)) VF_CANARY("C02 add_mix: infinity result reachable");
#elif defined(VF_FN_sub_mix)
	r = ec_point_proj_sub_mix(&A, &P, curve);
	if (r == 0 && P.infinity != 0) VF_CANARY("C02 sub_mix: subtracting infinity reachable");
#elif defined(VF_FN_add_affine)
	r = ec_point_proj_add_affine(&P, VF_ALIAS ? &P : &Q, curve);
#elif defined(VF_FN_sub_affine)
	r = ec_point_proj_sub_affine(&P, VF_ALIAS ? &P : &Q, curve);
#elif defined(VF_FN_affine_sub)
	r = ec_point_affine_sub(&P, &Q, curve);
	if (r == 0 && Q.infinity != 0) VF_CANARY("C02 affine_sub: subtracting infinity reachable");
#elif defined(VF_FN_affine_add)
	r = ec_point_affine_add(&P, VF_ALIAS ? &P : &Q, curve);
	if (r == 0 && vf_n_mult_digit3 == 1) VF_CANARY("C02 affine_add: tangent path reachable");
#if !VF_ALIAS
	if (r == 0 && vf_n_msub >= 1 && !vf_msub_z0 && Q.infinity == 0) VF_CANARY("C02 affine_add: chord path reachable");
	if (r == 0 && vf_n_msub == 1 && vf_msub_z0 && P.infinity == 1) VF_CANARY("C02 affine_add: opposite points path reachable");
#endif
#elif defined(VF_FN_is_eq)
	VF_NONDET(uint8_t, sel);
	r = ec_point_is_eq((sel & 1) ? NULL : &P, (sel & 2) ? NULL : ((sel & 4) ? &P : &Q));
	if (r == 1 && !(sel & 7)) VF_CANARY("C02 is_eq: equal distinct objects reachable");
	r = 0;
#elif defined(VF_FN_fpx_mult_affine)
	r = ec_point_proj_fpx_mult_affine(&P, &curve->G_fpx_mult_data, &d, curve);
#elif defined(VF_FN_unkpt_mult_affine)
	ec_point_proj_unkpt_mult_data_t *md = (ec_point_proj_unkpt_mult_data_t *)malloc(sizeof(ec_point_proj_unkpt_mult_data_t));
	__CPROVER_assume(md != NULL);
	r = ec_point_proj_unkpt_mult_affine(&P, md, &d, curve);
#elif defined(VF_FN_combo)
	VF_NONDET(size_t, bit_off);
	VF_NONDET(size_t, wnd_bits);
	VF_NONDET(size_t, wnd_count);
	VF_ASSUME(wnd_bits < BN_DIGIT_BITS);
	bn_digit_t col = bn_combo_column_get(&d, bit_off, wnd_bits, wnd_count);
	(void)col; r = 0;
#elif defined(VF_FN_comb1t_mult)
	ec_point_proj_fpx_comb1t_mult_data_t *md = (ec_point_proj_fpx_comb1t_mult_data_t *)malloc(sizeof(ec_point_proj_fpx_comb1t_mult_data_t));
	__CPROVER_assume(md != NULL);
	VF_ASSUME(VF_COMB_HDR(md) && VF_PT_ARR_WF(md->pt_add_arr, EC_PF_FXP_MULT_NUM_POINTS));
	VF_ASSUME(md->wnd_count <= VF_MAX_WC);	/* bound of this job: ladder length */
	r = ec_point_proj_fpx_comb1t_mult(&A, md, &d, curve);
	if (r == 0 && vf_n_pop >= 3) VF_CANARY("C02 comb1t: ladder iterations reachable");
#elif defined(VF_FN_comb2t_mult)
	ec_point_proj_fpx_comb2t_mult_data_t *md = &curve->G_fpx_mult_data;
	VF_ASSUME(VF_COMB_HDR(md) && md->e_count <= BN_BIT_LEN && VF_PT_ARR_WF(md->pt_add_arr, EC_PF_FXP_MULT_NUM_POINTS) &&
	    VF_PT_ARR_WF(md->pt_dbl_arr, EC_PF_FXP_MULT_NUM_POINTS));
	VF_ASSUME(md->e_count <= VF_MAX_WC);	/* bound of this job: ladder length */
	r = ec_point_proj_fpx_comb2t_mult(&A, md, &d, curve);
	if (r == 0 && vf_n_pop >= 3) VF_CANARY("C02 comb2t: ladder iterations reachable");
#elif defined(VF_FN_comb1t_pre)
	ec_point_proj_fpx_comb1t_mult_data_t *md = (ec_point_proj_fpx_comb1t_mult_data_t *)malloc(sizeof(ec_point_proj_fpx_comb1t_mult_data_t));
	__CPROVER_assume(md != NULL);
	VF_NONDET(size_t, wnd_bits);
	VF_ASSUME(wnd_bits <= VF_MAX_WND);
	r = ec_point_proj_fpx_comb1t_mult_precompute_affine(wnd_bits, &P, curve, md);
	if (r == 0 && wnd_bits == VF_MAX_WND && md->wnd_bits != 0) VF_CANARY("C02 comb1t precompute: full table built");
#elif defined(VF_FN_inter_pre)
	ec_point_t tbl[4];
	/* EP_DEPTH == EP_WIDTH == 4: the only call sites pass this constant */
	r = ec_point_proj_inter_twin_mult_precalc_affine(&P, 4, curve, tbl);
#elif defined(VF_FN_inter_twin)
	/* bound of this job: scalars below 8, i.e. NAF rows of at most 4 columns (the digits themselves
	 * are whatever the bn_calc_naf contract allows: 0 or odd, |digit| < 2^(w-1)) */
	VF_ASSUME((d.digits == 0 || (d.digits == 1 && d.num[0] < 8)) && (e.digits == 0 || (e.digits == 1 && e.num[0] < 8)));
	r = ec_point_proj_inter_twin_mult_affine(&P, &d, &Q, &e, curve, &P2);
	if (r == 0 && vf_n_pop >= 6) VF_CANARY("C02 inter twin: ladder iterations reachable");
#elif defined(VF_FN_mult_bp)
	r = ec_point_mult_bp(&d, curve, &P);
#elif defined(VF_FN_twin_mult_bp)
	r = ec_point_twin_mult_bp(&d, &Q, &e, curve, &P);
#elif defined(VF_FN_unknown_pt_mult)
	r = ec_point_unknown_pt_mult(&P, &d, curve);
#elif defined(VF_FN_check_affine)
	r = ec_point_check_affine(&P, curve);
#elif defined(VF_FN_check_scalar_mult)
	r = ec_point_check_scalar_mult(&P, curve);
#elif defined(VF_FN_check_as_pub_key)
	r = ec_point_check_as_pub_key(&P, curve);
#elif defined(VF_FN_restore_y_by_x)
	VF_NONDET(int, y_is_odd);
	VF_ASSUME(y_is_odd >= 0 && y_is_odd <= 2);
	r = ec_point_restore_y_by_x(y_is_odd, &P, curve);
	if (r == 0 && y_is_odd == 2) VF_CANARY("C02 restore_y: auto parity success reachable");
#elif defined(VF_FN_curve_validate)
	int warnings;
	r = ec_curve_validate(curve, &warnings);
	if (vf_n_chk_affine == 1 && (curve->flags & EC_CURVE_FLAG_A_M3)) VF_CANARY("C02 curve_validate: on-curve step reached with A_M3");
	if (vf_n_chk_scalar == 1) VF_CANARY("C02 curve_validate: order step reached");
	if (r == -1 && vf_n_chk_scalar == 1 && vf_st_chk_scalar == 0) VF_CANARY("C02 curve_validate: MOV loop entered and left");
	r = 1; /* the accepting path needs all 99 loop iterations: outside the bound of this job */
#else
#error "select a function with -DVF_FN_<name>"
#endif
	if (r == 0) VF_CANARY("C02: success path reachable");
	VF_CANARY("C02 point harness end");
}
#else
void harness(void) { }
#endif
