/* C16 (per-call fragment): the scheduling entry points of src/threadpool/threadpool_task.c on a task
 * in ANY state, with the registration layer (tpt_ev_*) logged by stubs/sys_io.h:
 *   VF_PART 1: tp_task_restart / tp_task_stop / tp_task_enable - timer vs I/O pairing: the time-out
 *              timer is always handled through tp_timer, the I/O event through tp_data; a failed
 *              second step undoes the first ("timer vs I/O mutual disabling and re-arm").
 *   VF_PART 2: tp_task_start_ex - parameters stored; with shedule_first_io == 0 and a read/write or
 *              send/receive handler the first transfer is made at once, the window is validated
 *              first, and the callback's answer decides between re-arming and nothing.
 *   VF_PART 3: tp_task_create / tp_task_create_start / tp_task_destroy / tp_task_ident_close -
 *              allocation may fail; a failed start leaves no task behind.
 * Loop-free except the transfer loop of the first I/O (at most 3 transfers, see stubs/sys_io.h). */
#include "vf/vf.h"
#include "stubs/sys_io.h"
#include "src/threadpool/threadpool_task.c"

#ifndef VF_CAP
#define VF_CAP 16
#endif
static int vf_cb_calls, vf_cb_error, vf_cb_ev_cnt; static size_t vf_cb_transfered; static int vf_cb_ret;
static int vf_cb(tp_task_p tptask, int error, io_buf_p buf, uint32_t eof, size_t transfered_size, void *udata) {
	vf_cb_calls ++; vf_cb_error = error; vf_cb_transfered = transfered_size; vf_cb_ev_cnt = vf_ev_cnt;
	return (vf_cb_ret);
}
static void vf_other_handler(tp_event_p ev, tp_udata_p ud) { (void)ev; (void)ud; }
#define WF(b)	((b)->used <= (b)->size && (b)->offset <= (b)->size && (b)->transfer_size <= (b)->size - (b)->offset)
#define EVREC(i, o, e, u)	(vf_ev[(i)].op == (o) && vf_ev[(i)].event == (e) && vf_ev[(i)].ud == (u))

void harness(void) {
	static tp_task_t task; static io_buf_t buf; static uint8_t store[VF_CAP]; static char vf_tpt_obj;
	VF_NONDET(uint8_t, op);
	VF_NONDET(uint8_t, task_null);
	VF_NONDET(uint8_t, have_cb);
	VF_NONDET(uint8_t, handler_sel);	/* 0: read/write, 1: send/receive, 2: some other handler */
	VF_NONDET(uint16_t, event);
	VF_NONDET(uint16_t, event_flags);
	VF_NONDET(uint32_t, tflags);
	VF_NONDET(uint64_t, timeout);
	VF_NONDET(int64_t, off0);
	VF_NONDET(uint64_t, ident);
	VF_NONDET(int, enable);
	VF_NONDET(int, sfio);
	VF_NONDET(uint8_t, buf_null);
	VF_NONDET(size_t, b_size);
	VF_NONDET(size_t, b_used);
	VF_NONDET(size_t, b_off);
	VF_NONDET(size_t, b_tr);
	VF_NONDET(int, cb_ret);
	VF_NONDET(uint8_t, no_faults);
	VF_NONDET(size_t, tot0);
	tpt_p tpt = (tpt_p)(void *)&vf_tpt_obj;
	tp_task_p t = task_null ? NULL : &task;
	int r;

	memset(&task, 0, sizeof(task));
	task.tp_data.cb_func = (handler_sel == 0) ? tp_task_rw_handler : (handler_sel == 1) ? tp_task_sr_handler : vf_other_handler;
	task.tp_data.ident = (uintptr_t)ident; task.tp_timer.cb_func = task.tp_data.cb_func; task.tp_timer.ident = (uintptr_t)&task;
	task.flags = tflags; task.tpt = tpt; task.udata = &vf_cb_calls;
	buf.data = store; buf.size = b_size; buf.used = b_used; buf.offset = b_off; buf.transfer_size = b_tr;
	VF_ASSUME(b_size <= VF_CAP && b_used <= b_size);
	VF_ASSUME(off0 >= 0 && off0 <= INT64_MAX - VF_CAP);
	VF_ASSUME(event == TP_EV_READ || event == TP_EV_WRITE);
	vf_cb_ret = cb_ret; vf_no_faults = (no_faults != 0);
	vf_buf_base = store; vf_buf_size = b_size;

#if VF_PART == 1
#define VF_OBS_LAST() do { /* observation for known_findings "when" clauses: was the last registration call a timer operation through tp_data? */ \
	__CPROVER_input("obs_timer_via_tp_data", (int)(vf_ev_cnt >= 1 && vf_ev_cnt <= VF_EV_LOG_MAX && vf_ev[vf_ev_cnt - 1].event == TP_EV_TIMER && vf_ev[vf_ev_cnt - 1].ud == &task.tp_data)); } while (0)
	task.event = event; task.event_flags = event_flags; task.timeout = timeout; task.cb_func = have_cb ? vf_cb : NULL;
	task.buf = buf_null ? NULL : &buf; task.offset = (off_t)off0; task.tot_transfered_size = tot0;
	VF_ASSUME(op < 3);
	if (op == 0) {
		r = tp_task_restart(t);
		VF_OBS_LAST();
		if (task_null || !have_cb) VF_ASSERT(r == EINVAL && vf_ev_cnt == 0, "restart: no task / no callback is refused, nothing registered");
		else {
			const int ti = (timeout != 0) ? 1 : 0;		/* index of the I/O registration in the log */
			if (timeout != 0)
				VF_ASSERT(vf_ev_cnt >= 1 && EVREC(0, VF_EV_ADD, TP_EV_TIMER, &task.tp_timer) && vf_ev[0].tpt == tpt && vf_ev[0].flags == TP_F_DISPATCH &&
				    vf_ev[0].fflags == TP_FF_T_MSEC && vf_ev[0].data == timeout, "restart: time-out timer armed first, one shot per wait, in milliseconds, through tp_timer");
			if (timeout != 0 && vf_ev[0].ret != 0)
				VF_ASSERT(r == vf_ev[0].ret && vf_ev_cnt == 1, "restart: timer could not be armed: error, I/O not registered");
			else {
				VF_ASSERT(vf_ev_cnt >= ti + 1 && EVREC(ti, VF_EV_ADD, event, &task.tp_data) && vf_ev[ti].tpt == tpt && vf_ev[ti].flags == event_flags,
				    "restart: I/O event registered through tp_data with the task's flags");
				VF_ASSERT(r == vf_ev[ti].ret, "restart: result of the I/O registration");
				if (r == 0) VF_ASSERT(vf_ev_cnt == ti + 1, "restart: nothing else");
				else if (timeout != 0)
					VF_ASSERT(vf_ev_cnt == ti + 2 && EVREC(ti + 1, VF_EV_DEL, TP_EV_TIMER, &task.tp_timer),
					    "restart: I/O registration failed: the timer armed a moment ago is removed again (through tp_timer)");
				else
					VF_ASSERT(vf_ev_cnt == ti + 1 || (vf_ev_cnt == ti + 2 && vf_ev[ti + 1].op == VF_EV_DEL && vf_ev[ti + 1].event == TP_EV_TIMER),
					    "restart: I/O registration failed without a timer: at most a harmless timer removal");
			}
		}
	} else if (op == 1) {
		tp_task_stop(t);
		if (task_null) VF_ASSERT(vf_ev_cnt == 0, "stop(NULL): nothing");
		else {
			VF_ASSERT(vf_ev_cnt == ((timeout != 0) ? 2 : 1) && EVREC(0, VF_EV_DEL, event, &task.tp_data), "stop: I/O event removed through tp_data");
			if (timeout != 0) VF_ASSERT(EVREC(1, VF_EV_DEL, TP_EV_TIMER, &task.tp_timer), "stop: time-out timer removed through tp_timer");
		}
	} else {
		r = tp_task_enable(t, enable);
		VF_OBS_LAST();
		const int want = enable ? VF_EV_ENABLE : VF_EV_DISABLE;
		if (task_null) VF_ASSERT(r == EINVAL && vf_ev_cnt == 0, "enable(NULL): refused");
		else {
			const int ti = (timeout != 0) ? 1 : 0;
			if (timeout != 0)
				VF_ASSERT(vf_ev_cnt >= 1 && EVREC(0, want, TP_EV_TIMER, &task.tp_timer) && vf_ev[0].flags == TP_F_DISPATCH && vf_ev[0].fflags == TP_FF_T_MSEC &&
				    vf_ev[0].data == timeout, "enable: time-out timer first, through tp_timer, with the configured milliseconds");
			if (timeout != 0 && vf_ev[0].ret != 0)
				VF_ASSERT(r == vf_ev[0].ret && vf_ev_cnt == 1, "enable: timer failed: error, I/O untouched");
			else {
				VF_ASSERT(vf_ev_cnt >= ti + 1 && EVREC(ti, want, event, &task.tp_data) && r == vf_ev[ti].ret, "enable: I/O event through tp_data; its result is the result");
				if (r == 0) VF_ASSERT(vf_ev_cnt == ti + 1, "enable: nothing else");
				else if (timeout != 0)
					VF_ASSERT(vf_ev_cnt == ti + 2 && EVREC(ti + 1, VF_EV_DISABLE, TP_EV_TIMER, &task.tp_timer),
					    "enable: I/O step failed: the timer is disabled again (through tp_timer)");
			}
		}
	}
#elif VF_PART == 2
	task.buf = NULL; task.cb_func = NULL; task.tot_transfered_size = tot0;
	r = tp_task_start_ex(sfio, t, event, event_flags, timeout, (off_t)off0, buf_null ? NULL : &buf, have_cb ? vf_cb : NULL);
	if (task_null || !have_cb) VF_ASSERT(r == EINVAL && vf_ev_cnt == 0 && vf_io_calls == 0 && vf_cb_calls == 0, "start: no task / no callback is refused");
	else {
		const _Bool direct = (sfio == 0) && !buf_null && handler_sel < 2 && b_tr != 0;
		VF_ASSERT(task.event == event && task.event_flags == event_flags && task.timeout == timeout && task.cb_func == vf_cb &&
		    task.buf == (buf_null ? NULL : &buf), "start: parameters stored in the task");
		if (!direct) {
			VF_ASSERT(vf_io_calls == 0 && vf_cb_calls == 0, "start: I/O is only scheduled, not attempted");
			VF_ASSERT(vf_ev_cnt >= 1 && task.tot_transfered_size == 0 && task.offset == (off_t)off0, "start: scheduled from a clean count at the given offset");
		} else if (!(b_off <= b_size && b_tr <= b_size - b_off)) {
			VF_ASSERT(r == EINVAL && vf_io_calls == 0 && vf_cb_calls == 0 && vf_ev_cnt == 0, "start: a window that leaves the buffer is refused before any I/O");
		} else {
			VF_ASSERT(vf_io_calls >= 1 && vf_io_first_p == store + b_off && vf_io_first_len == b_tr, "start without scheduling: first transfer at once on (data + offset, transfer_size)");
			VF_ASSERT(vf_io_kind == ((event == TP_EV_READ) ? (handler_sel ? 2 : 1) : (handler_sel ? 4 : 3)), "start without scheduling: system call of the handler type and direction");
			VF_ASSERT(vf_cb_calls <= 1 && (vf_cb_calls == 0 || vf_cb_ev_cnt == 0), "start without scheduling: at most one callback, before any registration");
			VF_ASSERT(vf_cb_calls == 0 || vf_cb_transfered == vf_io_total, "start without scheduling: callback gets the bytes of this call (count starts at 0)");
			if (vf_cb_calls == 1 && cb_ret != TP_TASK_CB_CONTINUE)
				VF_ASSERT(r == 0 && vf_ev_cnt == 0, "callback answered other than CONTINUE: nothing is scheduled");
			else
				VF_ASSERT(vf_ev_cnt >= 1, "continue / nothing more right now: the task is scheduled");
			VF_ASSERT(WF(&buf) && buf.offset == b_off + vf_io_total && buf.transfer_size == b_tr - vf_io_total, "start without scheduling: cursors advance by the transferred bytes");
		}
		if (vf_ev_cnt >= 1) {
			const int ti = (timeout != 0) ? 1 : 0;
			if (timeout != 0) VF_ASSERT(EVREC(0, VF_EV_ADD, TP_EV_TIMER, &task.tp_timer) && vf_ev[0].data == timeout, "scheduling: time-out timer through tp_timer");
			if (!(timeout != 0 && vf_ev[0].ret != 0))
				VF_ASSERT(vf_ev_cnt >= ti + 1 && EVREC(ti, VF_EV_ADD, event, &task.tp_data) && vf_ev[ti].flags == event_flags && r == vf_ev[ti].ret,
				    "scheduling: I/O event through tp_data; its result is the result of start");
		}
	}
#else
	{
		tp_task_p nt = (tp_task_p)(void *)&vf_tpt_obj;
		VF_NONDET(uint8_t, tpt_null);
		VF_NONDET(uint8_t, ret_null);
		VF_ASSUME(op < 2);
		if (op == 0) {
			r = tp_task_create(tpt_null ? NULL : tpt, (uintptr_t)ident, handler_sel == 2 ? NULL : task.tp_data.cb_func, tflags, &vf_cb_calls, ret_null ? NULL : &nt);
			if (tpt_null || handler_sel == 2 || ret_null) VF_ASSERT(r == EINVAL && nt == (tp_task_p)(void *)&vf_tpt_obj, "create: NULL argument refused, nothing handed out");
			else if (r != 0) VF_ASSERT(r == ENOMEM && nt == (tp_task_p)(void *)&vf_tpt_obj, "create: out of memory, nothing handed out");
			else {
				VF_ASSERT(nt->tp_data.ident == (uintptr_t)ident && nt->tp_timer.ident == (uintptr_t)nt && nt->tp_data.cb_func == task.tp_data.cb_func &&
				    nt->tp_timer.cb_func == task.tp_data.cb_func && nt->flags == tflags && nt->tpt == tpt && nt->timeout == 0 && nt->tot_transfered_size == 0 &&
				    nt->buf == NULL && nt->cb_func == NULL, "create: handler on both registrations, the timer identifies the task, everything else zero");
				VF_ASSERT(vf_ev_cnt == 0, "create: registers nothing");
				if (enable) {
					tp_task_ident_close(nt);
					VF_ASSERT(vf_ev_cnt == 1 && EVREC(0, VF_EV_DEL, 0, &nt->tp_data) && nt->tp_data.ident == (uintptr_t)-1 &&
					    (ident == (uint64_t)(uintptr_t)-1 ? vf_close_calls == 0 : (vf_close_calls == 1 && vf_close_last_fd == (int)ident)), "ident_close: stopped, closed once, forgotten");
				}
				{
					const int c0 = vf_close_calls, e0 = vf_ev_cnt;
					const _Bool closes = (nt->tp_data.ident != (uintptr_t)-1) && (tflags & TP_TASK_F_CLOSE_ON_DESTROY);
					tp_task_destroy(nt);
					VF_ASSERT(vf_ev_cnt == e0 + 1 && vf_close_calls == c0 + (closes ? 1 : 0), "destroy: stopped first; descriptor closed iff requested and still held");
				}
			}
		} else {
			r = tp_task_create_start(tpt, (uintptr_t)ident, task.tp_data.cb_func, tflags, event, event_flags, timeout, (off_t)off0, buf_null ? NULL : &buf,
			    have_cb ? vf_cb : NULL, &vf_cb_calls, ret_null ? NULL : &nt);
			if (ret_null) VF_ASSERT(r == EINVAL, "create_start: NULL result pointer refused");
			else if (r != 0) {
				VF_ASSERT(nt == NULL || nt == (tp_task_p)(void *)&vf_tpt_obj, "create_start failed: no task handed out (result NULL or untouched)");
				VF_ASSERT(vf_cb_calls == 0 && vf_io_calls == 0, "create_start failed: no callback, no I/O");
			} else {
				VF_ASSERT(nt != NULL && nt->event == event && nt->timeout == timeout && nt->cb_func == vf_cb, "create_start: started task handed out");
				tp_task_destroy(nt);
			}
			tp_task_destroy(NULL);
		}
	}
#endif
	VF_CANARY("start harness end");
}
