/* C16 (per-call fragment): ONE call of the I/O task handler of src/threadpool/threadpool_task.c
 * (tp_task_rw_handler / tp_task_sr_handler -> tp_task_handler with tp_task_handler_pre_int /
 * tp_task_handler_post_int) for one symbolic event report, against the ASSUMED contracts of
 * recv/pread/send/pwrite and of the registration layer in stubs/sys_io.h.
 * From the property text: the bytes that arrived are placed, in order, inside the caller's buffer
 * window; a write emits exactly the window; transferred counts add up; the cursors advance by exactly
 * the transferred amount and never exceed the buffer; end of stream, errors and time-outs are each
 * reported once; a callback that asks to continue is re-armed; nothing is touched after any other
 * callback answer.
 * Every input symbolic. Bounds: at most 3 successful transfers per call (the stub kernel then says
 * EAGAIN); buffer capacity <= VF_CAP bytes (the buffer CONTENT is only moved by the stubs, the code
 * under test is size-generic).
 * VF_EVENT: 1 = read event, 2 = write event, 3 = timer event (time-out).
 * VF_GROUP (the obligations are split so that the groups run in parallel): 1 = system calls, cursors,
 * counts; 2 = reporting of end of stream / errors / time-out and the re-arm mapping; 3 = the bytes. */
#include "vf/vf.h"
#if VF_GROUP == 3
#define VF_IO_CONTENT
#endif
#include "stubs/sys_io.h"
#include "src/threadpool/threadpool_task.c"

#ifndef VF_CAP
#define VF_CAP 16
#endif

static int vf_cb_calls, vf_cb_error; static uint32_t vf_cb_eof; static size_t vf_cb_transfered;
static io_buf_p vf_cb_buf; static void *vf_cb_udata; static tp_task_p vf_cb_task;
static size_t vf_cb_tot, vf_cb_b_off, vf_cb_b_tr, vf_cb_b_used; static int vf_cb_ev_cnt, vf_cb_io_calls;
static int vf_cb_ret;
static int vf_cb(tp_task_p tptask, int error, io_buf_p buf, uint32_t eof, size_t transfered_size, void *udata) {
	vf_cb_calls ++; vf_cb_task = tptask; vf_cb_error = error; vf_cb_buf = buf; vf_cb_eof = eof;
	vf_cb_transfered = transfered_size; vf_cb_udata = udata;
	vf_cb_tot = tptask->tot_transfered_size; vf_cb_ev_cnt = vf_ev_cnt; vf_cb_io_calls = vf_io_calls;
	if (buf != NULL) { vf_cb_b_off = buf->offset; vf_cb_b_tr = buf->transfer_size; vf_cb_b_used = buf->used; }
	return (vf_cb_ret);
}
#define WF(b)	((b)->used <= (b)->size && (b)->offset <= (b)->size && (b)->transfer_size <= (b)->size - (b)->offset)
#define FILTERED(e) ((e) == EAGAIN || (e) == EWOULDBLOCK || (e) == EBUSY || (e) == EINTR)

void harness(void) {
	static tp_task_t task; static io_buf_t buf; static uint8_t store[VF_CAP]; static char vf_tpt_obj;
	VF_NONDET(uint8_t, type_sr);		/* 0: tp_task_rw_handler (pread/pwrite), else tp_task_sr_handler (recv/send) */
	VF_NONDET(uint16_t, ev_flags);
	VF_NONDET(uint32_t, ev_fflags);
	VF_NONDET(uint64_t, ev_data);
	VF_NONDET(uint32_t, tflags);
	VF_NONDET(uint16_t, event_flags);
	VF_NONDET(uint64_t, timeout);
	VF_NONDET(int64_t, off0);
	VF_NONDET(size_t, tot0);
	VF_NONDET(uint64_t, ident);
	VF_NONDET(uint8_t, buf_null);
	VF_NONDET(size_t, b_size);
	VF_NONDET(size_t, b_used);
	VF_NONDET(size_t, b_off);
	VF_NONDET(size_t, b_tr);
	VF_NONDET(int, cb_ret);
	VF_NONDET(uint8_t, no_faults);
	VF_NONDET(size_t, j);			/* ghost position in the arrival / departure stream */
	VF_NONDET(uint8_t, jval);
	VF_NONDET_BYTES(content, VF_CAP);
	tp_event_t ev;
	tp_udata_p ud;
	tpt_p tpt = (tpt_p)(void *)&vf_tpt_obj;	/* opaque here: only handed to the registration layer */

	memcpy(store, content.b, VF_CAP);
	buf.data = store; buf.size = b_size; buf.used = b_used; buf.offset = b_off; buf.transfer_size = b_tr;
	VF_ASSUME(b_size <= VF_CAP && WF(&buf));		/* representation invariant of the caller's buffer */
	VF_ASSUME(off0 >= 0 && off0 <= INT64_MAX - VF_CAP);	/* file offset + window does not overflow off_t */
	VF_ASSUME(tot0 <= SIZE_MAX - VF_CAP);			/* carried count + window does not overflow */
	VF_ASSUME((event_flags & ~TP_F_S_MASK) == 0 && !((event_flags & TP_F_ONESHOT) && (event_flags & TP_F_DISPATCH)));
	memset(&task, 0, sizeof(task));
	task.tp_data.cb_func = type_sr ? tp_task_sr_handler : tp_task_rw_handler;
	task.tp_data.ident = (uintptr_t)ident;
	task.tp_timer.cb_func = task.tp_data.cb_func; task.tp_timer.ident = (uintptr_t)&task;
#if VF_EVENT == 2
	task.event = TP_EV_WRITE;
#else
	task.event = TP_EV_READ;
#endif
	task.event_flags = event_flags; task.flags = tflags; task.timeout = timeout; task.offset = (off_t)off0;
	task.buf = buf_null ? NULL : &buf; task.tot_transfered_size = tot0; task.cb_func = vf_cb;
	task.udata = &vf_cb_udata; task.tpt = tpt;
	vf_cb_ret = cb_ret; vf_no_faults = (no_faults != 0);
	vf_buf_base = store; vf_buf_size = b_size;
	vf_in_j = j; vf_in_val = jval; vf_out_j = j;
	ev.flags = ev_flags; ev.fflags = ev_fflags; ev.data = ev_data;
	VF_ASSUME((ev_flags & ~(TP_F_EOF | TP_F_ERROR)) == 0);	/* what the dispatcher reports (C06 loop_iter) */
#if VF_EVENT == 3
	ev.event = TP_EV_TIMER; ud = &task.tp_timer;
#else
	ev.event = task.event; ud = &task.tp_data;
#endif
	const uint8_t old_j = (b_off + j < VF_CAP && j < b_tr) ? store[b_off + j] : 0;

	if (type_sr) tp_task_sr_handler(&ev, ud); else tp_task_rw_handler(&ev, ud);

	const size_t sum = vf_io_total;
	const _Bool have_io = (VF_EVENT != 3) && !buf_null && ev_data != 0 && b_tr != 0;
	VF_ASSERT(vf_cb_calls <= 1, "at most one callback per handler call");
#if VF_GROUP == 2
	/* ---- registration calls pair timer <-> tp_timer, I/O <-> tp_data ---- */
	VF_ASSERT(j >= VF_EV_LOG_MAX || j >= (size_t)vf_ev_cnt ||
	    (vf_ev[j].event == TP_EV_TIMER ? vf_ev[j].ud == &task.tp_timer : (vf_ev[j].event == task.event && vf_ev[j].ud == &task.tp_data)),
	    "registration calls: the timer through tp_timer, the I/O event through tp_data, nothing else");
#endif
#if VF_GROUP == 1
	/* ---- system calls ---- */
	VF_ASSERT(have_io || vf_io_calls == 0, "no system call without a window to transfer");
	if (vf_io_calls > 0) {
		VF_ASSERT(vf_io_first_p == store + b_off && vf_io_first_len == b_tr, "first system call: (data + offset, transfer_size)");
		VF_ASSERT(vf_io_last_fd == (int)ident, "system calls on the task's descriptor");
#if VF_EVENT == 1
		VF_ASSERT(type_sr ? (vf_io_kind == 2 && (vf_io_last_flags & MSG_DONTWAIT)) : (vf_io_kind == 1 && vf_io_first_off == (off_t)off0),
		    "read event: recv(MSG_DONTWAIT) for send/receive tasks, pread at the task offset for read/write tasks");
#elif VF_EVENT == 2
		VF_ASSERT(type_sr ? (vf_io_kind == 4 && (vf_io_last_flags & MSG_DONTWAIT) && (vf_io_last_flags & MSG_NOSIGNAL)) :
		    (vf_io_kind == 3 && vf_io_first_off == (off_t)off0),
		    "write event: send(MSG_DONTWAIT|MSG_NOSIGNAL) for send/receive tasks, pwrite at the task offset for read/write tasks");
#endif
		VF_ASSERT(vf_io_last_p == store + b_off + (sum - (vf_io_last_ret > 0 ? (size_t)vf_io_last_ret : 0)) &&
		    vf_io_last_len == b_tr - (sum - (vf_io_last_ret > 0 ? (size_t)vf_io_last_ret : 0)),
		    "every further system call continues exactly where the previous one stopped");
	}
	/* ---- cursors advance by exactly the transferred amount, never past the buffer ---- */
	if (!buf_null) {
		VF_ASSERT(sum <= b_tr, "never more transferred than the window");
		VF_ASSERT(buf.offset == b_off + sum && buf.transfer_size == b_tr - sum, "window cursor and remaining size advance by exactly the transferred bytes");
#if VF_EVENT == 1
		VF_ASSERT(buf.used == ((b_used + sum <= b_size) ? b_used + sum : b_size), "read: data size grows by the transferred bytes, capped at the buffer size");
#else
		VF_ASSERT(buf.used == b_used, "write / time-out: data size untouched");
#endif
		VF_ASSERT(WF(&buf) && buf.size == b_size && buf.data == store, "buffer stays well-formed");
	}
	if (vf_cb_calls == 0 || cb_ret == TP_TASK_CB_CONTINUE)	/* otherwise the callback may have destroyed the task */
		VF_ASSERT(task.offset == (off_t)(off0 + (int64_t)sum), "task offset advances by exactly the transferred bytes");
#endif
#if VF_GROUP == 3
	/* ---- the bytes ---- */
#if VF_EVENT == 1
	VF_ASSERT(!(j < sum) || (vf_in_seen && vf_in_addr == store + b_off + j && store[b_off + j] == jval),
	    "read: the j-th arrived byte is the j-th byte of the window (in order, nothing skipped)");
	VF_ASSERT(!(j >= sum && j < b_tr && b_off + j < VF_CAP) || store[b_off + j] == old_j, "read: window bytes past the transferred count untouched");
#elif VF_EVENT == 2
	VF_ASSERT(!(j < sum) || (vf_out_seen && vf_out_addr == store + b_off + j && vf_out_val == old_j),
	    "write: the j-th emitted byte is the j-th byte of the window (in order, nothing skipped)");
#endif
#endif
#if VF_GROUP == 1
	/* ---- counts add up ---- */
	if (vf_cb_calls == 1) {
		VF_ASSERT(vf_cb_transfered == tot0 + sum && vf_cb_tot == 0, "callback: transferred == carried total + bytes of this call; carry cleared");
		VF_ASSERT(vf_cb_task == &task && vf_cb_buf == task.buf && vf_cb_udata == task.udata, "callback: own task, buffer, user data");
		VF_ASSERT(vf_cb_io_calls == vf_io_calls, "callback: after the last system call of this handler call");
		if (!buf_null) VF_ASSERT(vf_cb_b_off == b_off + sum && vf_cb_b_tr == b_tr - sum, "callback: sees the advanced cursors");
	} else {
		VF_ASSERT(task.tot_transfered_size == tot0 + sum, "no callback: transferred bytes carried to the next call");
	}
#endif
#if VF_GROUP == 2
	/* ---- end of stream, errors, time-out: reported, and reported once ---- */
#if VF_EVENT == 3
	VF_ASSERT(vf_cb_calls == 1 && vf_cb_error == ETIMEDOUT && vf_io_calls == 0, "time-out: reported to the callback, no I/O attempted");
	VF_ASSERT(vf_ev_cnt >= 1 && ((event_flags & TP_F_ONESHOT) ?
	    (vf_ev[0].op == VF_EV_DEL && vf_ev[0].event == task.event && vf_ev[0].ud == &task.tp_data &&
	     (timeout == 0 ? vf_cb_ev_cnt == 1 : (vf_cb_ev_cnt == 2 && vf_ev[1].op == VF_EV_DEL && vf_ev[1].event == TP_EV_TIMER && vf_ev[1].ud == &task.tp_timer))) :
	    (vf_cb_ev_cnt == 1 && vf_ev[0].op == VF_EV_DISABLE && vf_ev[0].event == task.event && vf_ev[0].ud == &task.tp_data)),
	    "time-out: the I/O event is disabled (one-shot: the task stopped) before the callback");
#else
	VF_ASSERT(!(ev_flags & TP_F_EOF) || vf_cb_calls == 0 || (vf_cb_eof & TP_TASK_IOF_F_SYS), "end of stream reported by the pool reaches the callback as TP_TASK_IOF_F_SYS");
	VF_ASSERT((ev_flags & TP_F_EOF) || vf_cb_calls == 0 || !(vf_cb_eof & TP_TASK_IOF_F_SYS), "no TP_TASK_IOF_F_SYS without end of stream from the pool");
	if (vf_io_calls > 0 && vf_io_last_ret == 0) {
		VF_ASSERT(vf_cb_calls == 1, "zero-byte result: reported to the callback");
#if VF_EVENT == 1
		VF_ASSERT((vf_cb_eof & TP_TASK_IOF_F_BUF) != 0, "read returned 0: end of stream flag");
#endif
	}
#if VF_EVENT == 1
	VF_ASSERT(vf_cb_calls == 0 || !(vf_cb_eof & TP_TASK_IOF_F_BUF) || (vf_io_calls > 0 && vf_io_last_ret == 0), "end of stream flag only after a zero-byte read");
#else
	VF_ASSERT(vf_cb_calls == 0 || !(vf_cb_eof & TP_TASK_IOF_F_BUF), "write: never the read-side end of stream flag");
#endif
	if (vf_io_calls > 0 && vf_io_last_ret == -1) {
		if (FILTERED(vf_io_last_errno))
			VF_ASSERT(vf_cb_calls == 0 || ((ev_flags & TP_F_ERROR) && ev_fflags != 0),
			    "would-block / interrupted: no callback, the task simply continues (unless the pool reported a socket error, which has to be delivered)");
		else
			VF_ASSERT(vf_cb_calls == 1 && vf_cb_error == vf_io_last_errno, "system call error: reported once, with its error number");
	}
	if (!have_io)
		VF_ASSERT(vf_cb_calls == 1 && vf_cb_transfered == tot0 && vf_cb_error == ((ev_flags & TP_F_ERROR) ? (int)ev_fflags : 0),
		    "nothing to transfer: the callback is notified with the pool's error code");
	/* observations recorded next to the inputs (known_findings "when" clauses classify a failure by them) */
	__CPROVER_input("obs_cb_calls", vf_cb_calls);
	__CPROVER_input("obs_io_calls", vf_io_calls);
	__CPROVER_input("obs_last_ret", vf_io_last_ret);
	__CPROVER_input("obs_last_errno", vf_io_last_errno);
	{
		/* "socket errors ... are each reported once to the callback": three disjoint ways the call can end */
		const _Bool pool_err = (ev_flags & TP_F_ERROR) && ev_fflags != 0;
		const _Bool end_wouldblock = vf_io_calls > 0 && vf_io_last_ret == -1 && FILTERED(vf_io_last_errno);
		const _Bool end_amount_moved = vf_io_calls > 0 && vf_io_last_ret > 0 && sum >= ev_data && sum < b_tr &&
		    !(VF_EVENT == 1 && (tflags & TP_TASK_F_CB_AFTER_EVERY_READ));	/* kqueue style: ev.data announces less than the window; Linux always says UINT64_MAX */
		__CPROVER_input("obs_end_wouldblock", (int)end_wouldblock);
		__CPROVER_input("obs_end_amount_moved", (int)end_amount_moved);
		VF_ASSERT(!(pool_err && !end_wouldblock && !end_amount_moved) || (vf_cb_calls == 1 && vf_cb_error != 0),
		    "socket error reported by the pool: reaches the callback once, as an error (the call ends with a callback)");
		VF_ASSERT(!(pool_err && end_wouldblock) || (vf_cb_calls == 1 && vf_cb_error == (int)ev_fflags),
		    "socket error reported by the pool: reaches the callback also when the kernel has nothing to transfer right now (would-block)");
		VF_ASSERT(!(pool_err && end_amount_moved) || (vf_cb_calls == 1 && vf_cb_error == (int)ev_fflags),
		    "socket error reported by the pool: reaches the callback also when the announced amount was moved and window space remains");
		/* what DOES hold when the error is not delivered: the task is left exactly as after a plain would-block -
		 * re-armed, bytes carried - so with a time-out configured the silence ends in ETIMEDOUT, without one it does not end */
		if (pool_err && vf_cb_calls == 0) {
			const int pre0 = (timeout != 0) ? 1 : 0;
			VF_ASSERT(task.tot_transfered_size == tot0 + sum && task.cb_func == vf_cb && task.buf == &buf,
			    "undelivered socket error: the task itself is intact, transferred bytes are carried");
			VF_ASSERT(vf_ev_cnt == pre0 + ((timeout != 0) ? 1 : 0) + ((event_flags & TP_F_DISPATCH) ? 1 : 0) &&
			    (timeout == 0 || (vf_ev[pre0].op == VF_EV_ENABLE && vf_ev[pre0].event == TP_EV_TIMER && vf_ev[pre0].ud == &task.tp_timer && vf_ev[pre0].data == timeout)),
			    "undelivered socket error: the task stays armed; a configured time-out timer is re-armed (the error surfaces at best as ETIMEDOUT)");
		}
	}
	VF_ASSERT(vf_cb_calls == 0 || vf_cb_error == 0 || (vf_io_calls > 0 && vf_io_last_ret == -1 && vf_cb_error == vf_io_last_errno) ||
	    ((ev_flags & TP_F_ERROR) && vf_cb_error == (int)ev_fflags), "an error reaches the callback only if the pool or a system call reported it");
	VF_ASSERT(vf_cb_calls == 1 || (vf_io_calls > 0 && ((vf_io_last_ret == -1 && FILTERED(vf_io_last_errno)) || (vf_io_last_ret > 0 && sum >= ev_data && sum < b_tr))),
	    "no callback only when the kernel has nothing more right now (or the announced amount was moved and window space remains)");
	VF_ASSERT(vf_cb_calls == 0 || !have_io || vf_io_last_ret <= 0 || buf.transfer_size == 0 || (VF_EVENT == 1 && (tflags & TP_TASK_F_CB_AFTER_EVERY_READ)) ||
	    ((ev_flags & TP_F_ERROR) && ev_fflags != 0),
	    "callback after a successful transfer only when the window is complete, callback-after-every-read is set, or a socket error has to be delivered");
	/* timer handling before the I/O: disabled (one-shot: deleted) */
	if (timeout != 0)
		VF_ASSERT(vf_ev_cnt >= 1 && vf_ev[0].event == TP_EV_TIMER && vf_ev[0].ud == &task.tp_timer &&
		    vf_ev[0].op == ((event_flags & TP_F_ONESHOT) ? VF_EV_DEL : VF_EV_DISABLE) && (vf_cb_calls == 0 || vf_cb_ev_cnt == 1),
		    "I/O event with a time-out: the timer is disabled (one-shot: deleted) before anything else");
	else
		VF_ASSERT(vf_cb_calls == 0 || vf_cb_ev_cnt == 0, "no time-out: no registration call before the callback");
#endif
	/* ---- callback answer -> re-arm ---- */
	{
		const int pre = (vf_cb_calls == 1) ? vf_cb_ev_cnt : ((VF_EVENT != 3 && timeout != 0) ? 1 : 0);
		const _Bool cont = (vf_cb_calls == 0) || (cb_ret == TP_TASK_CB_CONTINUE);
		const _Bool rearm_io = ((event_flags & TP_F_DISPATCH) != 0) || VF_EVENT == 3;
		if (!cont)
			VF_ASSERT(vf_ev_cnt == pre, "callback answered other than CONTINUE: the task is not touched any more");
		else {
			VF_ASSERT(vf_ev_cnt == pre + (timeout != 0 ? 1 : 0) + (rearm_io ? 1 : 0), "continue: exactly the re-arm calls");
			if (timeout != 0)
				VF_ASSERT(vf_ev[pre].op == VF_EV_ENABLE && vf_ev[pre].event == TP_EV_TIMER && vf_ev[pre].ud == &task.tp_timer &&
				    vf_ev[pre].flags == TP_F_DISPATCH && vf_ev[pre].fflags == TP_FF_T_MSEC && vf_ev[pre].data == timeout,
				    "continue: the time-out timer is re-armed with the configured milliseconds, one shot per wait");
			if (rearm_io)
				VF_ASSERT(vf_ev[pre + (timeout != 0 ? 1 : 0)].op == VF_EV_ENABLE && vf_ev[pre + (timeout != 0 ? 1 : 0)].event == task.event &&
				    vf_ev[pre + (timeout != 0 ? 1 : 0)].ud == &task.tp_data, "continue: the I/O event is re-enabled (dispatch mode / after a time-out)");
		}
	}
#endif
	VF_CANARY("handler harness end");
}
