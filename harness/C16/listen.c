/* C16 (per-call fragment): the listening-socket constructors of src/threadpool/threadpool_task.c,
 *   VF_PART 1: tp_task_bind_accept_create      (bind ; [listen] ; tune ; accept task)
 *   VF_PART 2: tp_task_bind_accept_multi_create (one such task per pool thread with SO_REUSEPORT, else one)
 * against the ASSUMED contracts of skt_bind / skt_listen / skt_opts_apply_ex, the registration layer and
 * calloc (stubs/sys_io.h; every one may fail at any call). Obligations, in the spirit of "a task ... is
 * re-armed / no further callback": a constructor that fails leaves nothing behind - every socket it bound
 * is closed exactly ONCE, no task and no array is leaked, the results are NULL / 0; one that succeeds
 * hands out tasks that own exactly the sockets it bound, registered for TP_EV_READ on the intended thread.
 * Bound: VF_POOL_THREADS (2) pool threads. */
#include "vf/vf.h"
#define VF_EV_LOG_MAX 16
#include "stubs/sys_io.h"
#include "src/threadpool/threadpool_task.c"
#ifndef VF_REUSEPORT
#define VF_REUSEPORT 1
#endif

static int vf_acb(tp_task_p t, int error, uintptr_t skt, struct sockaddr_storage *addr, void *udata) { return (TP_TASK_CB_NONE); }
#define EVREC(i, o, e, u)	(vf_ev[(i)].op == (o) && vf_ev[(i)].event == (e) && vf_ev[(i)].ud == (u))

void harness(void) {
	static struct sockaddr_storage addr; static skt_opts_t opts; static char vf_tpt_obj, vf_tp_obj;
	VF_NONDET(uint8_t, null_sel);		/* which argument is NULL (0 = none) */
	VF_NONDET(int, type);
	VF_NONDET(int, protocol);
	VF_NONDET(uint32_t, flags);
	VF_NONDET(uint64_t, timeout);
	VF_NONDET(uint32_t, o_mask);
	VF_NONDET(uint32_t, o_bits);
	VF_NONDET(int, backlog);
	VF_NONDET(uint16_t, family);
	VF_NONDET(uint8_t, no_faults);
	VF_NONDET(size_t, j);			/* ghost index of a task */
	int r;

	addr.ss_family = family; opts.mask = o_mask; opts.bit_vals = o_bits; opts.backlog = backlog;
	vf_no_faults = (no_faults != 0);
	VF_ASSUME(null_sel <= 5);

#if VF_PART == 1
	tp_task_p nt = (tp_task_p)(void *)&vf_tpt_obj;
	tpt_p tpt = (tpt_p)(void *)&vf_tpt_obj;
	r = tp_task_bind_accept_create((null_sel == 1) ? NULL : tpt, (null_sel == 2) ? NULL : &addr, type, protocol, (null_sel == 3) ? NULL : &opts,
	    flags, timeout, vf_acb, &vf_tp_obj, (null_sel == 4) ? NULL : &nt);
	__CPROVER_input("obs_result", r);		/* observations for known_findings "when" clauses */
	__CPROVER_input("obs_close_twice", vf_close_twice);
	__CPROVER_input("obs_bound", vf_skt_cnt);
	if (null_sel >= 1 && null_sel <= 4) {
		VF_ASSERT(r == EINVAL && vf_bind_calls == 0 && vf_ev_cnt == 0, "bind_accept_create: NULL argument refused, nothing bound");
	} else if (r != 0) {
		VF_ASSERT(nt == NULL, "bind_accept_create failed: no task handed out");
		VF_ASSERT(vf_skts_open == 0, "bind_accept_create failed: the socket it bound is closed");
		VF_ASSERT(vf_close_twice == 0, "bind_accept_create failed: the socket is closed exactly once");
	} else {
		VF_ASSERT(nt != NULL && nt != (tp_task_p)(void *)&vf_tpt_obj && vf_skt_cnt == 1 && vf_skts_open == 1 &&
		    nt->tp_data.ident == (uintptr_t)VF_SKT_BASE, "bind_accept_create: the task owns the socket that was bound");
		VF_ASSERT(nt->tp_data.cb_func == tp_task_accept_handler && nt->event == TP_EV_READ && nt->tpt == tpt && nt->timeout == timeout &&
		    nt->flags == (flags & TP_TASK_F_CLOSE_ON_DESTROY), "bind_accept_create: accept task for read events on the given thread");
		VF_ASSERT((vf_listen_calls == 1 && vf_listen_skt == (uintptr_t)VF_SKT_BASE) == (type == SOCK_STREAM) && vf_listen_calls <= 1, "bind_accept_create: listen iff stream socket");
		VF_ASSERT((vf_bind_flags & SO_F_NONBLOCK) != 0, "bind_accept_create: non-blocking socket");
		VF_ASSERT(vf_ev_cnt >= 1 && EVREC(vf_ev_cnt - 1, VF_EV_ADD, TP_EV_READ, &nt->tp_data) && vf_ev[vf_ev_cnt - 1].ret == 0, "bind_accept_create: read event registered");
		tp_task_destroy(nt);
		VF_ASSERT(vf_skts_open == ((flags & TP_TASK_F_CLOSE_ON_DESTROY) ? 0 : 1) && vf_close_twice == 0, "destroy: closes the socket iff asked to");
	}
#else
	size_t cnt = 77; tp_task_p *arr = (tp_task_p *)(void *)&vf_tpt_obj;
	tp_p tp = (tp_p)(void *)&vf_tp_obj;
	/* SO_REUSEPORT fixed per job (VF_REUSEPORT): it decides the length of the calloc'ed task array, and a symbolic
	 * length makes the array a symbolic-size object that cbmc cannot handle; the other option bits only reach stubs */
	opts.mask = opts.bit_vals = VF_REUSEPORT ? SO_F_REUSEPORT : 0;
	const _Bool per_thread = VF_REUSEPORT;
	if (null_sel == 0)	/* separate call with plain pointers: through a conditional pointer cbmc no longer sees the option bits as constants */
		r = tp_task_bind_accept_multi_create(tp, &addr, type, protocol, &opts, flags, timeout, vf_acb, &vf_tp_obj, &cnt, &arr);
	else if (null_sel == 1) r = tp_task_bind_accept_multi_create(NULL, &addr, type, protocol, &opts, flags, timeout, vf_acb, &vf_tp_obj, &cnt, &arr);
	else if (null_sel == 2) r = tp_task_bind_accept_multi_create(tp, NULL, type, protocol, &opts, flags, timeout, vf_acb, &vf_tp_obj, &cnt, &arr);
	else if (null_sel == 3) r = tp_task_bind_accept_multi_create(tp, &addr, type, protocol, NULL, flags, timeout, vf_acb, &vf_tp_obj, &cnt, &arr);
	else if (null_sel == 4) r = tp_task_bind_accept_multi_create(tp, &addr, type, protocol, &opts, flags, timeout, vf_acb, &vf_tp_obj, NULL, &arr);
	else r = tp_task_bind_accept_multi_create(tp, &addr, type, protocol, &opts, flags, timeout, vf_acb, &vf_tp_obj, &cnt, NULL);
	__CPROVER_input("obs_result", r);
	__CPROVER_input("obs_close_twice", vf_close_twice);
	__CPROVER_input("obs_bound", vf_skt_cnt);
	if (null_sel >= 1) {
		VF_ASSERT(r == EINVAL && vf_bind_calls == 0 && vf_ev_cnt == 0, "bind_accept_multi_create: NULL argument refused, nothing bound");
	} else if (r != 0) {
		VF_ASSERT((cnt == 0 && arr == NULL) || (cnt == 77 && arr == (tp_task_p *)(void *)&vf_tpt_obj), "bind_accept_multi_create failed: no tasks handed out (results zeroed, or untouched)");
		VF_ASSERT(vf_skts_open == 0, "bind_accept_multi_create failed: every socket it bound is closed");
		VF_ASSERT(vf_close_twice == 0, "bind_accept_multi_create failed: every socket is closed exactly once");
	} else {
		VF_ASSERT(cnt == (per_thread ? VF_POOL_THREADS : 1) && arr != NULL && vf_skt_cnt == (int)cnt && vf_skts_open == (int)cnt,
		    "bind_accept_multi_create: one listening socket and task per pool thread with SO_REUSEPORT, else one");
		VF_ASSUME(j < cnt);
		VF_ASSERT(arr[j] != NULL && arr[j]->tp_data.ident == (uintptr_t)(VF_SKT_BASE + j) && arr[j]->event == TP_EV_READ &&
		    arr[j]->tp_data.cb_func == tp_task_accept_handler, "bind_accept_multi_create: the j-th task owns the j-th socket");
		VF_ASSERT(!per_thread || arr[j]->tpt == (tpt_p)(void *)&vf_pool_thr[j], "bind_accept_multi_create: with SO_REUSEPORT the j-th task runs on the j-th thread");
		for (size_t i = 0; i < VF_POOL_THREADS; i ++) if (i < cnt) tp_task_destroy(arr[i]);
		free(arr);
	}
#endif
	VF_CANARY("listen harness end");
}
