/* C16 (per-call fragment): ONE call of the notify / connect / accept / packet-receiver handlers of
 * src/threadpool/threadpool_task.c for one symbolic event report (stubs/sys_io.h):
 *   VF_PART 1: tp_task_notify_handler, tp_task_connect_handler
 *   VF_PART 2: tp_task_accept_handler   (at most 3 pending connections: stub bound)
 *   VF_PART 3: tp_task_pkt_rcvr_handler (at most 3 datagrams: stub bound)
 * VF_EV (parts 2 and 3): the event kind of the job - TP_EV_READ 0, TP_EV_WRITE 1, TP_EV_TIMER 2.
 * Same shape as handler.c: errors / time-out / end of stream reported once, every accepted
 * descriptor / received datagram handed to the callback exactly once and in order, cursors advance by
 * the received bytes and stay inside the buffer, a callback answer other than CONTINUE means the task
 * is not touched again, CONTINUE re-arms. */
#include "vf/vf.h"
#include "stubs/sys_io.h"
#include "src/threadpool/threadpool_task.c"

#ifndef VF_CAP
#define VF_CAP 16
#endif
#define VF_CB_MAX (VF_ACCEPT_MAX + 2 * VF_IO_MAX_CALLS + 3)	/* accept: connections + 1 error report; packet receiver: datagrams + error reports */
static int vf_cb_calls, vf_cb_ret_first, vf_cb_ret_later;
static int vf_cb_error[VF_CB_MAX], vf_cb_ev_cnt[VF_CB_MAX]; static uintptr_t vf_cb_skt[VF_CB_MAX]; static size_t vf_cb_size[VF_CB_MAX];
static uint32_t vf_cb_eof0; static void *vf_cb_addr[VF_CB_MAX]; static size_t vf_cb_off[VF_CB_MAX];
static int vf_dcb_calls, vf_ecb_calls; static size_t vf_dcb_size[VF_CB_MAX], vf_dcb_off[VF_CB_MAX]; static void *vf_dcb_addr[VF_CB_MAX];	/* data / error callbacks of the packet receiver */
static int vf_cb_note(int error, uintptr_t skt, size_t size, void *addr, size_t off) {
	__CPROVER_assert(vf_cb_calls < VF_CB_MAX, "ghost callback log large enough");
	vf_cb_error[vf_cb_calls] = error; vf_cb_skt[vf_cb_calls] = skt; vf_cb_size[vf_cb_calls] = size; vf_cb_addr[vf_cb_calls] = addr;
	vf_cb_ev_cnt[vf_cb_calls] = vf_ev_cnt; vf_cb_off[vf_cb_calls] = off;
	vf_cb_calls ++;
	return ((vf_cb_calls == 1) ? vf_cb_ret_first : vf_cb_ret_later);
}
static int vf_notify_cb(tp_task_p t, int error, uint32_t eof, size_t size, void *udata) { vf_cb_eof0 = eof; return (vf_cb_note(error, 0, size, NULL, 0)); }
static int vf_connect_cb(tp_task_p t, int error, void *udata) { return (vf_cb_note(error, 0, 0, NULL, 0)); }
static int vf_accept_cb(tp_task_p t, int error, uintptr_t skt, struct sockaddr_storage *addr, void *udata) { return (vf_cb_note(error, skt, 0, addr, 0)); }
static int vf_pkt_cb(tp_task_p t, int error, struct sockaddr_storage *addr, io_buf_p buf, size_t size, void *udata) {
	if (error == 0 && vf_dcb_calls < VF_CB_MAX) { vf_dcb_size[vf_dcb_calls] = size; vf_dcb_off[vf_dcb_calls] = buf->offset; vf_dcb_addr[vf_dcb_calls] = addr; vf_dcb_calls ++; }
	if (error != 0) vf_ecb_calls ++;
	return (vf_cb_note(error, 0, size, addr, buf->offset));
}
#define WF(b)	((b)->used <= (b)->size && (b)->offset <= (b)->size && (b)->transfer_size <= (b)->size - (b)->offset)
#define FILTERED(e) ((e) == EAGAIN || (e) == EWOULDBLOCK || (e) == EBUSY || (e) == EINTR)
#define EVREC(i, o, e, u)	(vf_ev[(i)].op == (o) && vf_ev[(i)].event == (e) && vf_ev[(i)].ud == (u))

void harness(void) {
	static tp_task_t task; static io_buf_t buf; static uint8_t store[VF_CAP]; static char vf_tpt_obj;
	VF_NONDET(uint8_t, which);
#ifdef VF_EV
	/* event kind fixed per job: on a timer event the handlers recover the task pointer from an integer
	 * (tp_udata->ident); if that path is merged with the I/O path every later access through the task
	 * pointer becomes a case split over all objects (measured: 4 M variables instead of 0.3 M) */
	const uint16_t ev_event = VF_EV;
#else
	VF_NONDET(uint16_t, ev_event);
#endif
	VF_NONDET(uint16_t, ev_flags);
	VF_NONDET(uint32_t, ev_fflags);
	VF_NONDET(uint64_t, ev_data);
	VF_NONDET(uint16_t, event_flags);
	VF_NONDET(uint64_t, timeout);
	VF_NONDET(uint64_t, ident);
	VF_NONDET(size_t, b_size);
	VF_NONDET(size_t, b_used);
	VF_NONDET(size_t, b_off);
	VF_NONDET(size_t, b_tr);
	VF_NONDET(int, cb_ret1);
	VF_NONDET(int, cb_ret2);
	VF_NONDET(uint8_t, no_faults);
	VF_NONDET(size_t, j);
	tp_event_t ev;
	tp_udata_p ud;

	memset(&task, 0, sizeof(task));
	task.tp_data.ident = (uintptr_t)ident; task.tp_timer.ident = (uintptr_t)&task;
	task.event_flags = event_flags; task.timeout = timeout; task.tpt = (tpt_p)(void *)&vf_tpt_obj; task.udata = &vf_cb_calls;
	VF_ASSUME((event_flags & ~TP_F_S_MASK) == 0 && !((event_flags & TP_F_ONESHOT) && (event_flags & TP_F_DISPATCH)));
	VF_ASSUME(ev_event == TP_EV_READ || ev_event == TP_EV_WRITE || ev_event == TP_EV_TIMER);
	VF_ASSUME((ev_flags & ~(TP_F_EOF | TP_F_ERROR)) == 0);
	buf.data = store; buf.size = b_size; buf.used = b_used; buf.offset = b_off; buf.transfer_size = b_tr;
	VF_ASSUME(b_size <= VF_CAP && WF(&buf));
	task.buf = &buf;
	vf_cb_ret_first = cb_ret1; vf_cb_ret_later = cb_ret2; vf_no_faults = (no_faults != 0);
	vf_buf_base = store; vf_buf_size = b_size;
	ev.event = ev_event; ev.flags = ev_flags; ev.fflags = ev_fflags; ev.data = ev_data;
	ud = (ev_event == TP_EV_TIMER) ? &task.tp_timer : &task.tp_data;
	const int pool_err = (ev_event == TP_EV_TIMER) ? ETIMEDOUT : ((ev_flags & TP_F_ERROR) ? (int)ev_fflags : 0);
	/* registration calls that tp_task_handler_pre_int makes before anything else */
	const int pre = (ev_event == TP_EV_TIMER) ? (((event_flags & TP_F_ONESHOT) && timeout != 0) ? 2 : 1) : ((timeout != 0) ? 1 : 0);
	const _Bool rearm_io = ((event_flags & TP_F_DISPATCH) != 0) || ev_event == TP_EV_TIMER;
	const int rearm = ((timeout != 0) ? 1 : 0) + (rearm_io ? 1 : 0);

#if VF_PART == 1
	VF_ASSUME(which < 2);
	if (which == 0) {
		task.event = (ev_event == TP_EV_TIMER) ? TP_EV_READ : ev_event;
		task.cb_func = (tp_task_cb)vf_notify_cb;
		tp_task_notify_handler(&ev, ud);
		VF_ASSERT(vf_cb_calls == 1 && vf_cb_error[0] == pool_err, "notify: exactly one callback, with the pool's error / ETIMEDOUT");
		VF_ASSERT(vf_cb_size[0] == ((ev_event == TP_EV_TIMER) ? 0 : (size_t)ev_data) && ((vf_cb_eof0 & TP_TASK_IOF_F_SYS) != 0) == ((ev_flags & TP_F_EOF) != 0),
		    "notify: amount and end of stream as reported by the pool");
		VF_ASSERT(vf_cb_ev_cnt[0] == pre, "notify: timer / I/O event disabled before the callback");
		VF_ASSERT(vf_ev_cnt == pre + ((cb_ret1 == TP_TASK_CB_CONTINUE) ? rearm : 0), "notify: re-armed iff the callback answers CONTINUE");
		VF_ASSERT(vf_io_calls == 0, "notify: no I/O");
	} else {
		VF_ASSUME(ev_event != TP_EV_READ);
		task.event = TP_EV_WRITE; task.cb_func = (tp_task_cb)vf_connect_cb;
		tp_task_connect_handler(&ev, ud);
		VF_ASSERT(vf_cb_calls == 1 && vf_cb_error[0] == pool_err, "connect: exactly one callback, with the pool's error / ETIMEDOUT");
		VF_ASSERT(vf_cb_ev_cnt[0] == ((timeout != 0) ? 2 : 1) && EVREC(0, VF_EV_DEL, TP_EV_WRITE, &task.tp_data) &&
		    (timeout == 0 || EVREC(1, VF_EV_DEL, TP_EV_TIMER, &task.tp_timer)), "connect: the task is stopped (event and timer removed) before the callback");
		VF_ASSERT(vf_ev_cnt == vf_cb_ev_cnt[0], "connect: nothing is re-armed whatever the callback answers");
	}
	VF_ASSERT(j >= (size_t)vf_ev_cnt || j >= VF_EV_LOG_MAX || (vf_ev[j].event == TP_EV_TIMER ? vf_ev[j].ud == &task.tp_timer : (vf_ev[j].event == task.event && vf_ev[j].ud == &task.tp_data)),
	    "registration calls: the timer through tp_timer, the I/O event through tp_data");
#elif VF_PART == 2
	task.event = TP_EV_READ; task.cb_func = (tp_task_cb)vf_accept_cb;
	tp_task_accept_handler(&ev, ud);
	const int expect_err = (ev_event == TP_EV_WRITE) ? EINVAL : pool_err;
	VF_ASSERT(vf_cb_calls <= VF_ACCEPT_MAX + 1, "accept: bounded by the pending connections");
	if (expect_err != 0) {
		VF_ASSERT(vf_cb_calls == 1 && vf_cb_error[0] == expect_err && vf_cb_skt[0] == (uintptr_t)-1 && vf_cb_addr[0] == NULL && vf_accept_calls == 0,
		    "accept: error / time-out / wrong event reported once, no descriptor, nothing accepted");
		VF_ASSERT(vf_ev_cnt == pre + ((cb_ret1 == TP_TASK_CB_CONTINUE) ? rearm : 0), "accept: re-armed iff the callback answers CONTINUE");
	} else {
		/* every accepted descriptor reaches the callback exactly once, in order */
		VF_ASSERT(vf_accept_calls == 0 || (vf_accept_last_lsn == (uintptr_t)ident && (vf_accept_last_flags & SO_F_NONBLOCK)), "accept: on the task's descriptor, non-blocking sockets");
		VF_ASSERT(!(j < (size_t)vf_accept_ok) || (j < (size_t)vf_cb_calls && vf_cb_error[j] == 0 && vf_cb_skt[j] == (uintptr_t)(200 + j) && vf_cb_addr[j] != NULL),
		    "accept: the j-th accepted descriptor is the j-th callback (none lost, none doubled)");
		VF_ASSERT(vf_cb_calls == vf_accept_ok || (vf_cb_calls == vf_accept_ok + 1 && vf_cb_error[vf_accept_ok] != 0 && vf_cb_skt[vf_accept_ok] == (uintptr_t)-1),
		    "accept: besides the accepted descriptors at most one error report");
		VF_ASSERT((size_t)vf_accept_ok <= ev_data, "accept: never more than the pool announced");
		{
			const int last_ret = (vf_cb_calls == 0) ? TP_TASK_CB_CONTINUE : (vf_cb_calls == 1) ? cb_ret1 : cb_ret2;
			VF_ASSERT(vf_ev_cnt == pre + ((last_ret == TP_TASK_CB_CONTINUE) ? rearm : 0), "accept: re-armed iff the last answer was CONTINUE (or nothing was pending)");
			VF_ASSERT(vf_cb_calls < 2 || cb_ret1 == TP_TASK_CB_CONTINUE, "accept: a callback that does not answer CONTINUE ends the call");
		}
	}
#else
	task.event = TP_EV_READ; task.cb_func = (tp_task_cb)vf_pkt_cb; task.flags = TP_TASK_F_CB_AFTER_EVERY_READ;
	tp_task_pkt_rcvr_handler(&ev, ud);
	const size_t sum = vf_io_total;
	VF_ASSERT(WF(&buf) && buf.size == b_size, "packet receiver: buffer stays well-formed");
	VF_ASSERT(buf.offset == b_off + sum && buf.transfer_size == b_tr - sum && buf.used == ((b_used + sum <= b_size) ? b_used + sum : b_size),
	    "packet receiver: cursors advance by exactly the received bytes");
	VF_ASSERT(vf_io_calls == 0 || vf_io_kind == 5, "packet receiver: recvfrom");
	VF_ASSERT(vf_io_calls == 0 || (vf_io_first_p == store + b_off && vf_io_first_len == b_tr && vf_io_last_fd == (int)ident && (vf_io_last_flags & MSG_DONTWAIT)),
	    "packet receiver: first datagram into (data + offset, transfer_size), non-blocking");
	{
		const int expect_err = (ev_event == TP_EV_WRITE) ? EINVAL : pool_err;
		const int first_data = (expect_err != 0) ? 1 : 0;	/* index of the first datagram callback */
		if (expect_err != 0)
			VF_ASSERT(vf_cb_calls >= 1 && vf_cb_error[0] == expect_err && vf_cb_size[0] == 0 && vf_cb_addr[0] == NULL && vf_cb_ev_cnt[0] == pre,
			    "packet receiver: error / time-out reported first, once, without data");
		VF_ASSERT(!(expect_err != 0 && cb_ret1 != TP_TASK_CB_CONTINUE) || (vf_cb_calls == 1 && vf_io_calls == 0 && vf_ev_cnt == pre),
		    "packet receiver: error report not answered with CONTINUE: nothing further");
		VF_ASSERT(vf_dcb_calls == vf_io_ok_calls, "packet receiver: every received datagram is handed to the callback exactly once");
		VF_ASSERT(!(j < (size_t)vf_dcb_calls && j < VF_IO_MAX_CALLS) || (vf_dcb_size[j] == vf_io_k[j] && vf_dcb_size[j] > 0 && vf_dcb_addr[j] != NULL),
		    "packet receiver: the j-th datagram is the j-th data callback, with its size and the peer address");
		VF_ASSERT(!(j < VF_CB_MAX - 1 && j + 1 < (size_t)vf_dcb_calls) || vf_dcb_off[j + 1] == vf_dcb_off[j] + vf_dcb_size[j + 1], "packet receiver: datagrams are placed one after the other");
		VF_ASSERT(vf_dcb_calls == 0 || vf_dcb_off[0] == b_off + vf_dcb_size[0], "packet receiver: the first datagram starts at the window");
		VF_ASSERT(vf_ecb_calls <= ((expect_err != 0) ? 1 : 0) + vf_io_hard_errs, "packet receiver: no error report without an error from the pool or from recvfrom");
		VF_ASSERT(vf_cb_calls == vf_dcb_calls + vf_ecb_calls, "packet receiver: no other callbacks");
		VF_ASSERT(vf_io_calls == 0 || vf_io_last_ret != -1 || FILTERED(vf_io_last_errno) ||
		    (vf_cb_calls >= 1 && vf_cb_error[vf_cb_calls - 1] == vf_io_last_errno), "packet receiver: a receive error is reported with its error number");
	}
#endif
	VF_CANARY("others harness end");
}
