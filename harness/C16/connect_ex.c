/* C16 (per-call fragment): the connect-with-retries task of src/threadpool/threadpool_task.c,
 *   VF_PART 1: tp_task_connect_ex_start   - one scheduling step on a task / parameter block in any state
 *   VF_PART 2: tp_task_connect_ex_handler - one event (VF_EV: TP_EV_WRITE 1 = connected / failed, TP_EV_TIMER 2 =
 *              time-out or retry delay elapsed)
 *   VF_PART 3: tp_task_connect_ex_create  - validation, first scheduling, clean-up on failure
 * against the ASSUMED contracts of skt_connect / clock_gettime / close / calloc and the registration layer
 * (stubs/sys_io.h). Obligations: every address handed to skt_connect lies inside the caller's
 * addrs[0 .. addrs_count); a socket obtained for an attempt is either handed to the registered write event
 * or closed exactly once; success and the final failure (error -1: "can not continue, always report") are
 * reported once; the retry delay / time-out timer goes through tp_timer, the connect event through tp_data;
 * after a report that is not answered with CONTINUE the task is not touched.
 * Bounds: VF_NADDR (3) address slots (part 2: 2 addresses); parts 2 and 3: max_tries in [1, 2] and at most 2 answered
 * skt_connect calls (then ENETUNREACH), so that the retry loop can be unwound. */
#include "vf/vf.h"
#define VF_CONNECT_MAX 2
#define VF_EV_LOG_MAX 16
#include "stubs/sys_io.h"
#include "src/threadpool/threadpool_task.c"

#define VF_NADDR 3
#define VF_CB_MAX 8
static int vf_cb_calls, vf_cb_error[VF_CB_MAX], vf_cb_ev_cnt[VF_CB_MAX], vf_cb_ret[VF_CB_MAX]; static size_t vf_cb_idx[VF_CB_MAX];
static tp_task_conn_prms_p vf_cb_prm; static int vf_cb_ret_first, vf_cb_ret_later;
static int vf_cex_cb(tp_task_p t, int error, tp_task_conn_prms_p prm, size_t addr_index, void *udata) {
	int ret = (vf_cb_calls == 0) ? vf_cb_ret_first : vf_cb_ret_later;
	__CPROVER_assert(vf_cb_calls < VF_CB_MAX, "ghost callback log large enough");
	vf_cb_error[vf_cb_calls] = error; vf_cb_idx[vf_cb_calls] = addr_index; vf_cb_ev_cnt[vf_cb_calls] = vf_ev_cnt; vf_cb_ret[vf_cb_calls] = ret;
	vf_cb_prm = prm; vf_cb_calls ++;
	return (ret);
}
#define EVREC(i, o, e, u)	(vf_ev[(i)].op == (o) && vf_ev[(i)].event == (e) && vf_ev[(i)].ud == (u))
static struct sockaddr_storage vf_addrs[VF_NADDR];
#define ADDR_OK(p, cnt)	(__CPROVER_same_object((p), vf_addrs) && ((const char *)(p) - (const char *)vf_addrs) % sizeof(vf_addrs[0]) == 0 && \
	(size_t)(((const char *)(p) - (const char *)vf_addrs) / sizeof(vf_addrs[0])) < (cnt))

void harness(void) {
	static tp_task_t task; static tp_task_conn_prms_t prm; static char vf_tpt_obj;
	VF_NONDET(uint64_t, time_limit);
	VF_NONDET(uint64_t, retry_delay);
	VF_NONDET(uint64_t, max_tries);
	VF_NONDET(uint32_t, pflags);
	VF_NONDET(int, protocol);
	VF_NONDET(size_t, addrs_count);
	VF_NONDET(uint32_t, tflags);
	VF_NONDET(uint64_t, timeout);
	VF_NONDET(int64_t, try_no);
	VF_NONDET(size_t, addr_cur);
	VF_NONDET(uint64_t, start_time);
	VF_NONDET(uint8_t, ident_none);
	VF_NONDET(int, do_connect);
	VF_NONDET(uint16_t, ev_flags);
	VF_NONDET(uint32_t, ev_fflags);
	VF_NONDET(int, cb_ret1);
	VF_NONDET(int, cb_ret2);
	VF_NONDET(uint8_t, no_faults);
	VF_NONDET(size_t, j);
	tpt_p tpt = (tpt_p)(void *)&vf_tpt_obj;
	int r;

	prm.time_limit = time_limit; prm.retry_delay = retry_delay; prm.max_tries = max_tries; prm.flags = pflags; prm.protocol = protocol;
	prm.addrs_count = addrs_count; prm.addrs = vf_addrs;
	VF_ASSUME(addrs_count <= VF_NADDR);
	VF_ASSUME(try_no >= 0 && try_no < ((int64_t)1 << 62));
	vf_cb_ret_first = cb_ret1; vf_cb_ret_later = cb_ret2; vf_no_faults = (no_faults != 0);
	memset(&task, 0, sizeof(task));
	task.tp_data.cb_func = tp_task_connect_ex_handler; task.tp_timer.cb_func = tp_task_connect_ex_handler; task.tp_timer.ident = (uintptr_t)&task;
	task.tp_data.ident = ident_none ? (uintptr_t)-1 : vf_skt_new();	/* a connect in flight owns a socket */
	task.flags = tflags & (TP_TASK_F_CLOSE_ON_DESTROY | TP_TASK_F_CB_AFTER_EVERY_READ); task.timeout = timeout; task.offset = (off_t)try_no;
	task.tot_transfered_size = addr_cur; task.start_time = start_time; task.buf = (io_buf_p)&prm; task.cb_func = (tp_task_cb)vf_cex_cb;
	task.udata = &vf_cb_calls; task.tpt = tpt; task.event = TP_EV_WRITE; task.event_flags = TP_F_ONESHOT;
	const int skts0 = vf_skts_open;

#if VF_PART == 1
	VF_ASSUME(addrs_count >= 1);						/* validated (or not) by create: VF_PART 3 */
	/* state left by the previous step / by the handler (re-established below and in VF_PART 2): the address index is valid,
	 * except that in round-robin mode the handler has just moved it one past the last address */
	const _Bool rr = (max_tries == 0) || (pflags & TP_TASK_CONNECT_F_ROUND_ROBIN);
	VF_ASSUME((!do_connect && rr) ? (addr_cur <= addrs_count) : (addr_cur < addrs_count));
	VF_ASSUME(ident_none);							/* no connect in flight when the next one is scheduled */
	r = tp_task_connect_ex_start(&task, do_connect);
	__CPROVER_input("obs_result", r);
	VF_ASSERT(vf_connect_calls <= 1, "connect_ex_start: at most one connect attempt per step");
	VF_ASSERT(vf_connect_calls == 0 || ADDR_OK(vf_connect_addr[0], addrs_count), "connect_ex_start: the address handed to skt_connect lies inside addrs[0 .. addrs_count)");
	VF_ASSERT(j >= (size_t)vf_ev_cnt || j >= VF_EV_LOG_MAX || (vf_ev[j].event == TP_EV_TIMER ? vf_ev[j].ud == &task.tp_timer : (vf_ev[j].event == TP_EV_WRITE && vf_ev[j].ud == &task.tp_data)),
	    "connect_ex_start: timers through tp_timer, the connect event through tp_data");
	if (r == 0) {
		if (vf_connect_calls == 1) {
			VF_ASSERT(vf_skts_open == 1 && task.tp_data.ident == (uintptr_t)(VF_SKT_BASE + vf_skt_cnt - 1) && vf_connect_proto == protocol, "connect started: the task owns the new socket");
			VF_ASSERT(vf_ev_cnt == ((timeout != 0) ? 2 : 1) && EVREC(vf_ev_cnt - 1, VF_EV_ADD, TP_EV_WRITE, &task.tp_data) && vf_ev[vf_ev_cnt - 1].flags == TP_F_ONESHOT &&
			    (timeout == 0 || (EVREC(0, VF_EV_ADD, TP_EV_TIMER, &task.tp_timer) && vf_ev[0].data == timeout)), "connect started: one-shot write event (+ time-out timer) registered");
			VF_ASSERT(task.tot_transfered_size < addrs_count, "connect started: current address index valid");
		} else {
			VF_ASSERT(vf_skts_open == 0 && vf_ev_cnt == 1 && EVREC(0, VF_EV_ADD, TP_EV_TIMER, &task.tp_timer) && vf_ev[0].flags == TP_F_DISPATCH &&
			    vf_ev[0].fflags == TP_FF_T_MSEC && vf_ev[0].data == retry_delay && retry_delay != 0, "retry delay: one-shot millisecond timer through tp_timer, nothing else");
			VF_ASSERT(task.tot_transfered_size < addrs_count, "retry delay scheduled: the address index for the attempt that follows is valid");
		}
	} else {
		VF_ASSERT(vf_skts_open == 0 && vf_close_twice == 0 && task.tp_data.ident == (uintptr_t)-1, "step failed: no socket kept, none closed twice");
		if (r == -1) VF_ASSERT(vf_connect_calls == 0 && vf_ev_cnt == 0, "limits exhausted (-1): no attempt, nothing registered");
		VF_ASSERT(r == -1 || task.tot_transfered_size < addrs_count, "attempt failed: the address index is still valid (the caller moves on from it)");
	}
#elif VF_PART == 2
	tp_event_t ev;
	VF_ASSUME(addrs_count >= 1 && addrs_count <= 2 && addr_cur < addrs_count);
	VF_ASSUME(max_tries >= 1 && max_tries <= 2 && try_no < 2);	/* THE BOUND of the retry loop: <= 2 addresses x <= 2 tries */
	VF_ASSUME((ev_flags & ~(TP_F_EOF | TP_F_ERROR)) == 0);
	ev.event = VF_EV; ev.flags = ev_flags; ev.fflags = ev_fflags; ev.data = 0;
#if VF_EV == 2
	tp_task_connect_ex_handler(&ev, &task.tp_timer);
	const int err0 = ident_none ? 0 : ETIMEDOUT;
	const _Bool delay_elapsed = ident_none;
#else
	VF_ASSUME(!ident_none);
	tp_task_connect_ex_handler(&ev, &task.tp_data);
	const int err0 = (ev_flags & TP_F_ERROR) ? (int)ev_fflags : 0;
	const _Bool delay_elapsed = 0;
#endif
	__CPROVER_input("obs_cb_calls", vf_cb_calls);
	VF_ASSERT(vf_close_twice == 0, "no socket closed twice");
	VF_ASSERT(j >= (size_t)vf_connect_calls || j >= 4 || ADDR_OK(vf_connect_addr[j], addrs_count), "every address handed to skt_connect lies inside addrs[0 .. addrs_count)");
	VF_ASSERT(j >= (size_t)vf_ev_cnt || j >= VF_EV_LOG_MAX || (vf_ev[j].event == TP_EV_TIMER ? vf_ev[j].ud == &task.tp_timer : (vf_ev[j].event == TP_EV_WRITE && vf_ev[j].ud == &task.tp_data)),
	    "timers through tp_timer, the connect event through tp_data");
	if (!delay_elapsed && err0 == 0) {
		VF_ASSERT(vf_cb_calls == 1 && vf_cb_error[0] == 0 && vf_cb_idx[0] == addr_cur && vf_cb_prm == &prm, "connected: reported once, with the index of the address that answered");
		VF_ASSERT(vf_cb_ev_cnt[0] == ((timeout != 0) ? 2 : 1) && EVREC(0, VF_EV_DEL, TP_EV_WRITE, &task.tp_data) && vf_ev_cnt == vf_cb_ev_cnt[0], "connected: task stopped before the report, nothing registered afterwards");
		VF_ASSERT(vf_skts_open == skts0 && vf_connect_calls == 0 && vf_close_calls == 0, "connected: the socket stays with the task");
	} else {
		const _Bool pending = (vf_skts_open == 1);	/* a new attempt is in flight */
		const _Bool delayed = !pending && vf_ev_cnt >= 1 && vf_ev[vf_ev_cnt - 1].op == VF_EV_ADD && vf_ev[vf_ev_cnt - 1].event == TP_EV_TIMER && vf_ev[vf_ev_cnt - 1].ret == 0;
		VF_ASSERT(vf_skts_open <= 1, "at most one attempt in flight");
		if (!delay_elapsed) VF_ASSERT(vf_close_calls >= 1 && task.tp_data.ident != (uintptr_t)VF_SKT_BASE, "failed attempt: its socket is closed and forgotten");
		VF_ASSERT(!pending || (task.tp_data.ident == (uintptr_t)(VF_SKT_BASE + vf_skt_cnt - 1) && EVREC(vf_ev_cnt - 1, VF_EV_ADD, TP_EV_WRITE, &task.tp_data) && vf_ev[vf_ev_cnt - 1].ret == 0),
		    "next attempt in flight: the task owns its socket and waits for the write event");
		VF_ASSERT(pending || task.tp_data.ident == (uintptr_t)-1, "no attempt in flight: no socket remembered");
		VF_ASSERT(pending || delayed || (vf_cb_calls >= 1 && (vf_cb_error[vf_cb_calls - 1] == -1 || vf_cb_ret[vf_cb_calls - 1] != TP_TASK_CB_CONTINUE)),
		    "the task never ends silently: next attempt in flight, retry delay running, or the end was reported (error -1 / a report not answered with CONTINUE)");
		VF_ASSERT(!(j + 1 < (size_t)vf_cb_calls && j < VF_CB_MAX - 1) || (vf_cb_error[j] != -1 && vf_cb_error[j] != 0 && vf_cb_ret[j] == TP_TASK_CB_CONTINUE && (tflags & TP_TASK_F_CB_AFTER_EVERY_READ)),
		    "intermediate reports only when asked for (report-every-failure flag), and only while the callback answers CONTINUE");
		VF_ASSERT(vf_cb_calls == 0 || vf_cb_error[vf_cb_calls - 1] != 0, "no success report without a connection");
	}
#else
	{
		tp_task_p nt = (tp_task_p)(void *)&vf_tpt_obj;
		VF_NONDET(uint8_t, null_sel);
		VF_ASSUME(max_tries >= 1 && max_tries <= 2);			/* THE BOUND of the scheduling loop; 0 = no limit: with every address failing at once the loop has no exit (see not_covered) */
		VF_ASSUME(ident_none);
		VF_ASSUME(addrs_count >= 1);	/* precondition: an empty address list is not validated by the code (it ends as -1 after reading addrs[0]) */
		r = tp_task_connect_ex_create((null_sel == 1) ? NULL : tpt, tflags, timeout, (null_sel == 2) ? NULL : &prm, vf_cex_cb, &vf_cb_calls, (null_sel == 3) ? NULL : &nt);
		__CPROVER_input("obs_result", r);
		__CPROVER_input("obs_connect_calls", vf_connect_calls);
		VF_ASSERT(vf_cb_calls == 0, "connect_ex_create returns before any callback");
		VF_ASSERT(j >= (size_t)vf_connect_calls || j >= 4 || ADDR_OK(vf_connect_addr[j], addrs_count), "connect_ex_create: every address handed to skt_connect lies inside addrs[0 .. addrs_count)");
		VF_ASSERT(vf_close_twice == 0, "connect_ex_create: no socket closed twice");
		if (null_sel == 2 || null_sel == 3) VF_ASSERT(r == EINVAL && vf_connect_calls == 0, "connect_ex_create: NULL parameter block / result pointer refused");
		else if (r != 0) {
			VF_ASSERT(nt == NULL || nt == (tp_task_p)(void *)&vf_tpt_obj, "connect_ex_create failed: no task handed out");
			VF_ASSERT(vf_skts_open == skts0, "connect_ex_create failed: no socket left open");
		} else {
			VF_ASSERT(nt != NULL && nt->buf == (io_buf_p)&prm && nt->tp_data.cb_func == tp_task_connect_ex_handler && nt->timeout == timeout, "connect_ex_create: task handed out");
			VF_ASSERT((vf_skts_open == skts0 + 1) != (nt->tp_data.ident == (uintptr_t)-1), "connect_ex_create: a socket is open iff an attempt is in flight");
			VF_ASSERT(vf_ev_cnt >= 1 && vf_ev[vf_ev_cnt - 1].ret == 0 && vf_ev[vf_ev_cnt - 1].op == VF_EV_ADD, "connect_ex_create: something is scheduled (attempt or initial delay)");
			tp_task_destroy(nt);
		}
		VF_ASSERT(!(null_sel == 0 || null_sel > 3) || !((pflags & TP_TASK_CONNECT_F_INITIAL_DELAY) && retry_delay == 0) || r == EINVAL, "connect_ex_create: initial delay without a delay value refused");
		VF_ASSERT(!(null_sel == 0 || null_sel > 3) || !(time_limit != 0 && (timeout == 0 || timeout >= time_limit || retry_delay >= time_limit)) || r == EINVAL,
		    "connect_ex_create: time limit not larger than one attempt / one delay refused");
	}
#endif
	VF_CANARY("connect_ex harness end");
}
