/* C16 (per-call fragment): include/utils/io_buf.h - the cursor macros (IO_BUF_*) and the inline
 * primitives, each through a tiny wrapper on a buffer in ANY well-formed state:
 *     wf(buf) == used <= size  &&  offset <= size  &&  offset + transfer_size <= size
 * ("advance the buffer cursors consistently and never exceed the buffer"). Obligations: the
 * documented result of each macro ("increment in range up to max, decrement down to zero, prevent
 * overflow"), wf preserved by the macro sequences the I/O handlers use and by every primitive, every
 * byte access inside data[0 .. size) (cbmc's pointer checks on an exactly sized object).
 * VF_PART 1: macros (loop-free, symbolic sizes: finite). VF_PART 2: cut_head / prepend / copyin /
 * copyin_buf / copy_buf on a buffer of exactly VF_CAP bytes and a source of VF_CAP + 2 (bounded). VF_PART 3: init / alloc /
 * realloc / free with CBMC's allocator, allocation may fail (capacity <= VF_CAP, bounded). */
#include "vf/vf.h"
#ifndef VF_REPLAY
#include <errno.h>
#include <string.h>
#endif
#include "utils/io_buf.h"

#ifndef VF_CAP
#define VF_CAP 8
#endif
#define WF(b)	((b)->used <= (b)->size && (b)->offset <= (b)->size && (b)->transfer_size <= (b)->size - (b)->offset)
#define SAT_INC(v, max, n)	(((max) > (v) && (max) - (v) > (n)) ? (v) + (n) : (max))
#define SAT_DEC(v, n)		(((v) > (n)) ? (v) - (n) : 0)

void harness(void) {
	io_buf_t b;
	VF_NONDET(uint8_t, op);
	VF_NONDET(size_t, size);
	VF_NONDET(size_t, used);
	VF_NONDET(size_t, offset);
	VF_NONDET(size_t, tr);
	VF_NONDET(size_t, n);
	VF_NONDET(uint32_t, flags);
	b.size = size; b.used = used; b.offset = offset; b.transfer_size = tr; b.flags = flags;

#if VF_PART == 1
	static uint8_t anchor[16];		/* the macros never touch the bytes */
	b.data = anchor;
	VF_ASSUME(WF(&b));
	VF_ASSUME(op < 14);
	switch (op) {
	case 0: IO_BUF_USED_INC(&b, n);
		VF_ASSERT(b.used == SAT_INC(used, size, n) && b.used >= used && b.used <= size, "USED_INC: min(used + n, size), no wrap-around"); break;
	case 1: IO_BUF_USED_DEC(&b, n);
		VF_ASSERT(b.used == SAT_DEC(used, n) && b.used <= used, "USED_DEC: max(used - n, 0), no wrap-around"); break;
	case 2: IO_BUF_OFFSET_INC(&b, n);
		VF_ASSERT(b.offset == SAT_INC(offset, size, n) && b.offset >= offset && b.offset <= size, "OFFSET_INC: min(offset + n, size), no wrap-around");
		VF_ASSERT(b.used == used && b.transfer_size == tr, "OFFSET_INC: nothing else changes"); break;
	case 3: IO_BUF_OFFSET_DEC(&b, n);
		VF_ASSERT(b.offset == SAT_DEC(offset, n) && b.offset <= offset, "OFFSET_DEC: max(offset - n, 0), no wrap-around"); break;
	case 4: IO_BUF_TR_SIZE_INC(&b, n);
		VF_ASSERT(b.transfer_size == SAT_INC(tr, size, n) && b.transfer_size >= tr && b.transfer_size <= size, "TR_SIZE_INC: min(transfer_size + n, size), no wrap-around"); break;
	case 5: IO_BUF_TR_SIZE_DEC(&b, n);
		VF_ASSERT(b.transfer_size == SAT_DEC(tr, n) && b.transfer_size <= tr, "TR_SIZE_DEC: max(transfer_size - n, 0), no wrap-around"); break;
	case 6: /* the read step of tp_task_handler / tp_task_pkt_rcvr_handler for n transferred bytes */
		VF_ASSUME(n <= tr);
		IO_BUF_USED_INC(&b, n); IO_BUF_OFFSET_INC(&b, n); IO_BUF_TR_SIZE_DEC(&b, n);
		VF_ASSERT(b.offset == offset + n && b.transfer_size == tr - n && b.used == ((n < size - used) ? used + n : size),
		    "read step: window moves by exactly n, data size grows by n capped at size"); break;
	case 7: /* the write step */
		VF_ASSUME(n <= tr);
		IO_BUF_OFFSET_INC(&b, n); IO_BUF_TR_SIZE_DEC(&b, n);
		VF_ASSERT(b.offset == offset + n && b.transfer_size == tr - n && b.used == used, "write step: window moves by exactly n"); break;
	case 8: /* the same pair for ANY n (more than the window): still inside the buffer */
		IO_BUF_OFFSET_INC(&b, n); IO_BUF_TR_SIZE_DEC(&b, n); break;
	case 9: IO_BUF_MARK_TRANSFER_ALL_USED(&b);
		VF_ASSERT(b.offset == 0 && b.transfer_size == used && b.used == used, "MARK_TRANSFER_ALL_USED: window == the data"); break;
	case 10: IO_BUF_MARK_TRANSFER_ALL_FREE(&b);
		VF_ASSERT(b.offset == used && b.transfer_size == size - used && b.used == used, "MARK_TRANSFER_ALL_FREE: window == the free space"); break;
	case 11: IO_BUF_MARK_AS_EMPTY(&b);
		VF_ASSERT(b.offset == 0 && b.transfer_size == 0 && b.used == 0, "MARK_AS_EMPTY"); break;
	case 12: VF_ASSUME(n <= size && tr <= size - n);	/* documented use: reserve n bytes in front */
		IO_BUF_BUSY_SIZE_SET(&b, n);
		VF_ASSERT(b.offset == n && b.used == n, "BUSY_SIZE_SET"); break;
	default:
		VF_ASSUME(size <= sizeof(anchor));	/* the two pointer accessors need real storage behind them */
		VF_ASSERT(IO_BUF_OFFSET_SIZE(&b) == size - offset && IO_BUF_FREE_SIZE(&b) == size - used && IO_BUF_TR_SIZE_GET(&b) == tr &&
		    IO_BUF_OFFSET_GET(&b) == b.data + offset && IO_BUF_FREE_GET(&b) == b.data + used, "accessors"); break;
	}
	VF_ASSERT(b.size == size && b.data == anchor, "macros never change the storage");
	if (op != 2 && op != 4)		/* alone, these two only promise their own range (see above) */
		VF_ASSERT(WF(&b), "well-formedness preserved");
	else
		VF_ASSERT(b.used <= b.size && b.offset <= b.size && b.transfer_size <= b.size, "every cursor stays within the buffer size");
#elif VF_PART == 2
	/* exactly sized objects: one byte past data[size) is a failed pointer obligation. The two sizes are
	 * concrete (VF_CAP and VF_CAP + 2, so that "source larger than destination" exists): symbolic-size
	 * objects make cbmc run out of memory; all cursors, counts and contents are symbolic. */
	static uint8_t bd[VF_CAP], cd[VF_CAP + 2];
	static uint8_t store[2][VF_CAP + 2];
	VF_NONDET_BYTES(content, 2 * (VF_CAP + 2));
	VF_NONDET(size_t, used2);
	VF_NONDET(size_t, j);
	VF_NONDET(int, allow_lost);
	const size_t size2 = VF_CAP + 2;
	io_buf_t c;
	int r = 0;
	memcpy(store, content.b, 2 * (VF_CAP + 2));
	VF_ASSUME(size == VF_CAP);
	b.data = bd; c.data = cd;
	memcpy(bd, store[0], VF_CAP);
	memcpy(cd, store[1], VF_CAP + 2);
	c.size = size2; c.used = used2; c.offset = 0; c.transfer_size = 0; c.flags = 0;
	VF_ASSUME(WF(&b) && WF(&c));
	VF_ASSUME(op < 5);
	VF_ASSUME(j < VF_CAP + 2);
	switch (op) {
	case 0: r = io_buf_cut_head(&b, n);
		if (n == 0) VF_ASSERT(r == 0 && b.used == used && b.offset == offset, "cut_head(0): nothing");
		else if (n > used) VF_ASSERT(r == EINVAL && b.used == used && b.offset == offset, "cut_head: more than the data is refused");
		else {
			VF_ASSERT(r == 0 && b.used == used - n && b.offset == SAT_DEC(offset, n) && b.transfer_size == tr, "cut_head: data and window move left by n");
			VF_ASSERT(!(j < used - n) || b.data[j] == store[0][j + n], "cut_head: the remaining data keeps its order");
		}
		break;
	case 1: r = io_buf_prepend(&b, n, allow_lost);
		if (n == 0) VF_ASSERT(r == 0 && b.used == used && b.offset == offset, "prepend(0): nothing");
		else if (n > size - used && (allow_lost == 0 || n > size)) VF_ASSERT(r == EINVAL && b.used == used && b.offset == offset, "prepend: no room is refused");
		else {
			VF_ASSERT(r == 0 && b.used == ((n > size - used) ? size : used + n) && b.offset == SAT_INC(offset, size, n), "prepend: data and window move right by n");
			VF_ASSERT(!(j < used && j + n < size) || b.data[j + n] == store[0][j], "prepend: the data that still fits keeps its order");
		}
		break;
	case 2: r = io_buf_copyin(&b, c.data, used2);
		if (used2 == 0) VF_ASSERT(r == 0 && b.used == used, "copyin(0): nothing");
		else if (size - used < used2) VF_ASSERT(r == ENOBUFS && b.used == used, "copyin: no room is refused");
		else {
			VF_ASSERT(r == 0 && b.used == used + used2 && b.offset == offset && b.transfer_size == tr, "copyin: appended after the data");
			VF_ASSERT(!(j < used2) || b.data[used + j] == store[1][j], "copyin: bytes appended in order");
			VF_ASSERT(!(j < used) || b.data[j] == store[0][j], "copyin: old data untouched");
		}
		break;
	case 3: r = io_buf_copyin_buf(&b, &c);
		if (used2 == 0) VF_ASSERT(r == 0 && b.used == used, "copyin_buf(empty): nothing");
		else if (size - used < used2) VF_ASSERT(r == ENOBUFS && b.used == used, "copyin_buf: no room is refused");
		else VF_ASSERT(r == 0 && b.used == used + used2 && (!(j < used2) || b.data[used + j] == store[1][j]), "copyin_buf: source data appended in order");
		break;
	default: r = io_buf_copy_buf(&b, &c);
		if (size < used2) VF_ASSERT(r == ENOBUFS && b.used == used, "copy_buf: source larger than the destination is refused");
		else {
			VF_ASSERT(r == 0 && b.used == used2 && b.offset == c.offset && b.transfer_size == c.transfer_size, "copy_buf: data and cursors copied");
			VF_ASSERT(!(j < used2) || b.data[j] == store[1][j], "copy_buf: bytes copied in order");
		}
		break;
	}
	VF_ASSERT(b.size == size && WF(&b), "primitive: well-formedness preserved");
	VF_ASSERT(c.size == size2 && c.used == used2 && WF(&c), "primitive: source buffer untouched");
#else
	io_buf_p p = NULL;
	int r;
	VF_ASSUME(size <= VF_CAP && n <= VF_CAP);
	VF_ASSUME(op < 3);
	VF_ASSUME((flags & ~(IO_BUF_F_DATA_ALLOC | IO_BUF_F_DATA_SHARED)) == 0);	/* the public flags */
	if (op == 0) {
		/* alloc ; (use) ; free */
		p = io_buf_alloc(flags, size);
		if (p != NULL) {
			VF_ASSERT((flags & IO_BUF_FLAGS_BAD_MASK) != IO_BUF_FLAGS_BAD_MASK, "alloc: contradictory flags are refused");
			VF_ASSERT(p->used == 0 && p->offset == 0 && p->transfer_size == 0 && WF(p), "alloc: empty, well-formed");
			VF_ASSERT((flags & (IO_BUF_F_DATA_ALLOC | IO_BUF_F_DATA_SHARED)) ? (p->size == size && p->data != NULL) : (p->size == 0 && p->data == NULL),
			    "alloc: size announced only with storage behind it");
			if (p->size > 0) { p->data[0] = 1; p->data[p->size - 1] = 2; }		/* storage really is that large */
			io_buf_free(p);
		}
	} else if (op == 1) {
		/* alloc ; realloc to n (grow or shrink) with cursors anywhere ; free */
		VF_ASSUME((flags & IO_BUF_FLAGS_BAD_MASK) != IO_BUF_FLAGS_BAD_MASK && (flags & IO_BUF_FLAGS_BAD_MASK) != 0);
		p = io_buf_alloc(flags, size);
		if (p != NULL) {
			p->used = used; p->offset = offset; p->transfer_size = tr;
			VF_ASSUME(WF(p));
			r = io_buf_realloc(&p, 0, n);
			VF_ASSERT(p != NULL, "realloc: the buffer is never lost");
			if (r == 0) {
				VF_ASSERT(p->size == n && p->data != NULL, "realloc: new size");
				VF_ASSERT(p->used == ((used < n) ? used : n) && p->offset == ((offset < n) ? offset : n), "realloc: cursors clamped to the new size");
				VF_ASSERT(WF(p), "realloc: well-formedness preserved (the window never reaches past the new size)");
				if (p->size > 0) { p->data[0] = 1; p->data[p->size - 1] = 2; }
			} else {
				VF_ASSERT(r == ENOMEM && p->size == size && p->used == used && p->offset == offset && p->transfer_size == tr, "realloc failed: buffer unchanged");
			}
			io_buf_free(p);
		}
	} else {
		/* realloc(NULL) == alloc ; init on caller storage */
		errno = ENOMEM;		/* io_buf_realloc returns errno after a failed malloc: POSIX malloc sets it, CBMC's model does not */
		r = io_buf_realloc(&p, flags, size);
		if (r == 0) {
			VF_ASSERT(p != NULL && WF(p) && p->used == 0, "realloc(NULL): fresh empty buffer");
			io_buf_free(p);
		} else VF_ASSERT(p == NULL, "realloc(NULL) failed: nothing handed out");
		{
			static uint8_t ext[VF_CAP];
			io_buf_p q = io_buf_init(&b, 0, (n == 0) ? NULL : ext, size);
			VF_ASSERT(q == &b && b.used == 0 && b.offset == 0 && b.transfer_size == 0 && WF(&b) && b.size == ((n == 0) ? 0 : size), "init: empty, size only with storage");
			VF_ASSERT(io_buf_init(NULL, flags, ext, size) == NULL, "init(NULL)");
			io_buf_free(&b);	/* external storage: nothing to free */
			io_buf_free(NULL);
		}
	}
#endif
	VF_CANARY("io_buf harness end");
}
