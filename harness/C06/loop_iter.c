/* C06 (per-call fragment): ONE iteration of the dispatcher tpt_loop (Linux/epoll branch) with a
 * symbolic kernel report: a disabled registration never reaches its callback; a dispatch event is
 * marked disabled before the callback; a one-shot event is removed (EPOLL_CTL_DEL / timer fd closed,
 * state cleared) before the callback; a persistent event stays registered; end-of-file and error
 * conditions carry TP_F_EOF / TP_F_ERROR (+ non-zero error code); the callback runs at most once, on
 * the registration the kernel reported. Plain harness (structures are private to threadpool.c). */
#include "vf/vf.h"
#define VF_LOOP_STUBS
#include "stubs/sys_tp.h"
#include "src/threadpool/threadpool.c"

static int vf_cb_calls; static tp_event_t vf_cb_ev; static tp_udata_p vf_cb_ud; static uint64_t vf_cb_tpdata;
static int vf_cb_epctl_calls, vf_cb_close_calls;
static void vf_cb(tp_event_p ev, tp_udata_p ud) {
	vf_cb_calls ++; vf_cb_ev = *ev; vf_cb_ud = ud; vf_cb_tpdata = ud->tpdata;
	vf_cb_epctl_calls = vf_epctl_calls; vf_cb_close_calls = vf_close_calls;
}

void harness(void) {
	tp_t tp; tp_thread_t tpt, pvt; tp_udata_t ud;
	VF_NONDET(uint32_t, events);
	VF_NONDET(int, wait_ret);
	VF_NONDET(uint16_t, event);
	VF_NONDET(uint16_t, flags);
	VF_NONDET(uint8_t, disabled);
	VF_NONDET(uint8_t, have_cb);
	VF_NONDET(uint8_t, ptr_null);
	VF_NONDET(int, fd);
	VF_NONDET(int, tfd);
	VF_NONDET(int, so_ok);
	VF_NONDET(int, so_val);
	memset(&tp, 0, sizeof(tp)); memset(&tpt, 0, sizeof(tpt)); memset(&pvt, 0, sizeof(pvt)); memset(&ud, 0, sizeof(ud));
	VF_ASSUME(wait_ret >= -1 && wait_ret <= 1);
	VF_ASSUME(event <= TP_EV_LAST && (flags & ~TP_F_S_MASK) == 0 && !((flags & TP_F_ONESHOT) && (flags & TP_F_DISPATCH)));
	VF_ASSUME(fd >= 0 && fd < 1000 && tfd >= 100 && tfd < 100000);
	tp.pvt = &pvt; pvt.io_fd = 7; tpt.tp = &tp; tpt.io_fd = 5; tpt.state = TP_THREAD_STATE_RUNNING;
	ud.cb_func = have_cb ? vf_cb : NULL; ud.ident = (uintptr_t)fd; ud.tpt = &tpt;
	/* registration state exactly as tpt_ev_post leaves it (harness/C06/ev_post.c proves that) */
	ud.tpdata = 0;
	TPDATA_TFD_SET(ud.tpdata, (event == TP_EV_TIMER || event == TP_EV_PROC) ? tfd : 0);
	TPDATA_EV_FL_SET(ud.tpdata, event, flags);
	if (disabled) ud.tpdata |= TPDATA_F_DISABLED;
	const uint64_t tpdata0 = ud.tpdata;
	vf_ew_ret = wait_ret; vf_ew_events = events; vf_ew_ptr = ptr_null ? NULL : (void *)&ud;
	vf_ew_state_to_stop = (int *)&tpt.state; vf_ew_stop_value = TP_THREAD_STATE_STOP;
	vf_so_error_ok = so_ok; vf_so_error_val = so_val;
	vf_fds_open = 1;

	tpt_loop(&tpt);

	_Bool delivered = (wait_ret == 1) && !ptr_null && have_cb;
	VF_ASSERT(vf_cb_calls <= 1, "at most one callback per wake-up");
	VF_ASSERT(!(delivered && disabled) || vf_cb_calls == 0, "a disabled registration never reaches its callback");
	VF_ASSERT(delivered || vf_cb_calls == 0, "no callback without a reported, valid registration");
	VF_ASSERT(!(delivered && !disabled) || vf_cb_calls == 1, "an enabled registration reported by the kernel reaches its callback exactly once");
	if (vf_cb_calls == 1) {
		VF_ASSERT(vf_cb_ud == &ud && vf_cb_ev.event == event, "callback gets its own registration and event kind");
		if (flags & TP_F_DISPATCH)
			VF_ASSERT((vf_cb_tpdata & TPDATA_F_DISABLED) != 0 || (event == TP_EV_PROC && vf_cb_tpdata == 0),
			    "dispatch: marked disabled (process events: removed) before the callback - silent until re-enabled");
		if (flags & TP_F_ONESHOT) {
			VF_ASSERT(vf_cb_tpdata == 0, "one-shot: registration state cleared before the callback");
			if (event == TP_EV_READ || event == TP_EV_WRITE)
				VF_ASSERT(vf_cb_epctl_calls == 1 && vf_epctl_last_op == EPOLL_CTL_DEL && vf_epctl_last_fd == fd &&
				    vf_epctl_last_epfd == 5, "one-shot read/write: removed from epoll");
			if (event == TP_EV_TIMER)
				VF_ASSERT(vf_cb_close_calls == 1 && vf_close_last_fd == tfd, "one-shot timer: timer descriptor closed");
		}
		if (!(flags & (TP_F_ONESHOT | TP_F_DISPATCH)) && event != TP_EV_PROC)
			VF_ASSERT(vf_cb_tpdata == tpdata0 && vf_cb_epctl_calls == 0 && vf_cb_close_calls == 0,
			    "persistent: registration untouched, keeps firing");
		if (event == TP_EV_READ || event == TP_EV_WRITE) {
			VF_ASSERT(((vf_cb_ev.flags & TP_F_EOF) != 0) == ((events & (EPOLLHUP | EPOLLRDHUP)) != 0),
			    "end-of-file condition carries TP_F_EOF (and only then)");
			VF_ASSERT(((vf_cb_ev.flags & TP_F_ERROR) != 0) == ((events & EPOLLERR) != 0),
			    "error condition carries TP_F_ERROR (and only then)");
			VF_ASSERT(!(events & EPOLLERR) || vf_cb_ev.fflags != 0, "error condition carries a non-zero error code");
		}
	} else {
		VF_ASSERT(ud.tpdata == tpdata0, "no delivery: registration state untouched");
	}
	VF_CANARY("loop_iter harness end");
}
