/* C06 (per-call fragment): tpt_ev_validate / tpt_ev_post of src/threadpool/threadpool.c, Linux
 * branch, against the assumed syscall contracts of stubs/sys_tp.h. Loop-free code, every input
 * symbolic: complete for one call ("finite"). Plain harness: the structures are private to the
 * .c file, so the postconditions are asserted here instead of in a contract header. */
#include "vf/vf.h"
#include "stubs/sys_tp.h"
#include "src/threadpool/threadpool.c"

static void vf_cb(tp_event_p ev, tp_udata_p ud) { (void)ev; (void)ud; }
typedef unsigned __CPROVER_bitvector[128] u128;
#ifdef TP_F_EDGE
#define VF_EDGE(f) (((f) & TP_F_EDGE) != 0)
#else
#define VF_EDGE(f) 0
#endif

void harness(void) {
	tp_t tp;
	tp_thread_t tpt;
	tp_udata_t ud;
	tp_event_t ev;
	VF_NONDET(int, op);
	VF_NONDET(uint16_t, event);
	VF_NONDET(uint16_t, flags);
	VF_NONDET(uint32_t, fflags);
	VF_NONDET(uint64_t, data);
	VF_NONDET(uint64_t, tpdata0);
	VF_NONDET(uint64_t, ident);
	VF_NONDET(uint32_t, sflags);
	VF_NONDET(uint8_t, have_cb);
	VF_NONDET(uint8_t, no_faults);
	VF_NONDET(int, io_fd);
	VF_NONDET(size_t, fd_count);

	memset(&tp, 0, sizeof(tp)); memset(&tpt, 0, sizeof(tpt)); memset(&ud, 0, sizeof(ud));
	tp.s.flags = sflags; tp.fd_count = fd_count;
	tpt.tp = &tp; tpt.io_fd = (uintptr_t)(unsigned)io_fd;
	ud.cb_func = have_cb ? vf_cb : NULL; ud.ident = (uintptr_t)ident; ud.tpt = &tpt; ud.tpdata = tpdata0;
	ev.event = event; ev.flags = flags; ev.fflags = fflags; ev.data = data;
	vf_no_faults = (no_faults != 0);
	VF_ASSUME(op >= 0);
	/* representation invariant of tpdata: the timer-fd field is 0 or a descriptor we handed out */
	int tfd0 = TPDATA_TFD_GET(tpdata0);
	VF_ASSUME(tfd0 == 0 || (tfd0 >= 100 && tfd0 < 100000));
	if (tfd0 != 0) vf_fds_open = 1;
	int fds0 = vf_fds_open;

	int v = tpt_ev_validate(op, &ev, &ud);
	/* ---- malformed registrations are refused ---- */
	_Bool malformed =
	    op > TP_CTL_LAST ||
	    (flags & ~TP_F_S_MASK) != 0 ||
	    ((flags & TP_F_ONESHOT) && (flags & TP_F_DISPATCH)) ||
	    !have_cb || ident == (uint64_t)(uintptr_t)-1 ||
	    event > TP_EV_LAST ||
	    ((event == TP_EV_READ || event == TP_EV_WRITE) && (fd_count <= ident || (fflags & ~TP_FF_RW_MASK) != 0)) ||
	    (event == TP_EV_TIMER && (fflags & ~TP_FF_T_MASK) != 0) ||
	    (event == TP_EV_PROC && ((fflags & ~TP_FF_P_MASK) != 0 || VF_EDGE(flags)));
#if VF_PART == 1
	VF_ASSERT((v != 0) == malformed, "validate: refused iff the registration is malformed");
#endif

	int r = tpt_ev_post_validate(op, &ev, &ud);
#if VF_PART == 1
	VF_ASSERT(!malformed || (r != 0 && vf_epctl_calls == 0 && vf_settime_calls == 0 && vf_tfd_create_calls == 0 &&
	    ud.tpdata == tpdata0), "malformed registration: error and nothing installed");
#endif

#if VF_PART == 2 || VF_PART == 3
	if (!malformed && event == TP_EV_TIMER) {
#if VF_PART == 2
		VF_ASSUME(op == TP_CTL_ADD || op == TP_CTL_ENABLE);
#else
		VF_ASSUME(op == TP_CTL_DISABLE || op == TP_CTL_DEL);
#endif
		if (op == TP_CTL_ADD || op == TP_CTL_ENABLE) {
			const uint64_t unit = ((fflags & TP_FF_T_TM_MASK) == TP_FF_T_SEC) ? 1000000000ull :
			    ((fflags & TP_FF_T_TM_MASK) == TP_FF_T_MSEC) ? 1000000ull :
			    ((fflags & TP_FF_T_TM_MASK) == TP_FF_T_USEC) ? 1000ull : 1ull;
			/* intervals that a timespec can represent */
			_Bool representable = (unit != 1000000000ull) || data <= 0x7fffffffffffffffull; /* data x unit / 10^9 fits tv_sec */
			if (r == 0) {
				VF_ASSERT(vf_settime_ok_calls == 1, "timer: programmed exactly once");
				VF_ASSERT(vf_settime_val.it_value.tv_nsec >= 0 && vf_settime_val.it_value.tv_nsec < 1000000000L &&
				    vf_settime_val.it_value.tv_sec >= 0, "timer: normalised timespec");
				/* interval == data x unit, stated as the division identity with the spec's own
				 * constants K = 10^9 / unit: tv_sec == data / K, tv_nsec == (data mod K) x unit.
				 * (data = qK + r  =>  q 10^9 + r unit = data x unit: lemmas/TimerUnits.lean.)
				 * The product form itself needs divider-vs-multiplier reasoning that no back end
				 * decides (DESIGN section 2). */
/* `ev.data` (not the local `data` it was copied from): CBMC shares a divider circuit only between
 * syntactically identical SSA terms; with `data` the miter of two 64-bit dividers does not finish */
#define VF_EXACT(K, M)	((uint64_t)vf_settime_val.it_value.tv_sec == ev.data / (K) &&		\
			    (uint64_t)vf_settime_val.it_value.tv_nsec == (ev.data % (K)) * (M))
				/* constants spelled with the `ul` suffix: CBMC shares one divider circuit only between
				 * syntactically identical terms (measured: with `ull` the miter of two dividers does
				 * not finish) */
				VF_ASSERT((unit == 1000000000ull && (uint64_t)vf_settime_val.it_value.tv_sec == ev.data &&
				     vf_settime_val.it_value.tv_nsec == 0) ||
				    (unit == 1000000ull && VF_EXACT(1000ul, 1000000ul)) ||
				    (unit == 1000ull && VF_EXACT(1000000ul, 1000ul)) ||
				    (unit == 1ull && VF_EXACT(1000000000ul, 1ul)),
				    "timer: programmed interval == data x unit exactly");
				_Bool once = (flags & (TP_F_ONESHOT | TP_F_DISPATCH)) != 0;
				VF_ASSERT(once ? (vf_settime_val.it_interval.tv_sec == 0 && vf_settime_val.it_interval.tv_nsec == 0) :
				    (vf_settime_val.it_interval.tv_sec == vf_settime_val.it_value.tv_sec &&
				     vf_settime_val.it_interval.tv_nsec == vf_settime_val.it_value.tv_nsec),
				    "timer: periodic iff neither one-shot nor dispatch");
				VF_ASSERT((vf_settime_flags == TFD_TIMER_ABSTIME) == ((fflags & TP_FF_T_ABSTIME) != 0) &&
				    (vf_settime_flags == 0 || vf_settime_flags == TFD_TIMER_ABSTIME), "timer: absolute iff requested");
				VF_ASSERT(TPDATA_TFD_GET(ud.tpdata) == vf_settime_fd && vf_settime_fd != 0, "timer: fd remembered");
				VF_ASSERT((ud.tpdata & TPDATA_F_DISABLED) == 0, "timer: enabled");
				VF_ASSERT(vf_fds_open == 1, "timer: exactly one descriptor held");
				if (tfd0 == 0) {
					VF_ASSERT(vf_tfd_create_calls == 1 && vf_tfd_create_clock ==
					    ((fflags & TP_FF_T_ABSTIME) ? CLOCK_REALTIME : CLOCK_MONOTONIC), "timer: clock id");
					VF_ASSERT(vf_epctl_ok_calls == 1 && vf_epctl_last_op == EPOLL_CTL_ADD &&
					    vf_epctl_last_fd == vf_settime_fd && vf_epctl_last_ptr == (void *)&ud &&
					    (vf_epctl_last_events & EPOLLIN) != 0, "timer: registered with epoll");
				}
			} else {
				VF_ASSERT(vf_fds_open == 0 && ud.tpdata == 0, "timer: failure leaves no descriptor and no state");
			}
			VF_ASSERT(!(vf_no_faults && representable) || r == 0,
			    "timer: a representable interval in any unit is accepted when resources are available");
		} else if (op == TP_CTL_DISABLE) {
			if (tfd0 == 0) VF_ASSERT(r == ENOENT, "timer disable: unknown timer");
			else if (r == 0) {
				VF_ASSERT(vf_settime_ok_calls == 1 && vf_settime_val.it_value.tv_sec == 0 && vf_settime_val.it_value.tv_nsec == 0,
				    "timer disable: zero timer programmed");
				VF_ASSERT((ud.tpdata & TPDATA_F_DISABLED) != 0, "timer disable: DISABLED bit set");
			} else VF_ASSERT(vf_fds_open == 0 && ud.tpdata == 0, "timer disable failure: descriptor closed");
		} else { /* DEL */
			if (tfd0 == 0) VF_ASSERT(r == ENOENT, "timer delete: unknown timer");
			else VF_ASSERT(r == 0 && vf_close_calls == 1 && vf_close_last_fd == tfd0 && ud.tpdata == 0 && vf_fds_open == 0,
			    "timer delete: descriptor closed, state cleared");
		}
	}
#endif
#if VF_PART == 4
	if (!malformed && (event == TP_EV_READ || event == TP_EV_WRITE)) {
		if (op == TP_CTL_DEL) {
			VF_ASSERT(ud.tpdata == 0 && vf_epctl_calls == 1 && vf_epctl_last_op == EPOLL_CTL_DEL &&
			    vf_epctl_last_fd == (int)ident, "rw delete: EPOLL_CTL_DEL issued, state cleared");
		} else if (r == 0) {
			uint32_t want = EPOLLHUP | EPOLLERR;
			if (op == TP_CTL_DISABLE) want |= EPOLLET;
			else {
				want |= (event == TP_EV_READ) ? (EPOLLIN | EPOLLRDHUP | EPOLLPRI) : EPOLLOUT;
				if (flags & (TP_F_ONESHOT | TP_F_DISPATCH)) want |= EPOLLONESHOT;
#ifdef TP_F_EDGE
				if (flags & TP_F_EDGE) want |= EPOLLET;
#endif
#ifdef TP_F_EXCLUSIVE
				if ((flags & TP_F_EXCLUSIVE) && op == TP_CTL_ADD) want |= EPOLLEXCLUSIVE;
#endif
			}
			VF_ASSERT(vf_epctl_last_events == want, "rw: epoll interest set == flag mapping");
			VF_ASSERT(vf_epctl_last_fd == (int)ident && vf_epctl_last_epfd == io_fd && vf_epctl_last_ptr == (void *)&ud,
			    "rw: registered for the caller's descriptor on the owning thread's epoll");
			VF_ASSERT(((ud.tpdata & TPDATA_F_DISABLED) != 0) == (op == TP_CTL_DISABLE), "rw: DISABLED bit iff disable");
			VF_ASSERT(TPDATA_EVENT_GET(ud.tpdata) == event && TPDATA_FLAGS_GET(ud.tpdata, event) == (flags & 7),
			    "rw: event and flags remembered for the dispatcher");
		} else {
			VF_ASSERT(ud.tpdata == 0, "rw: failure clears the registration state");
		}
	}
#endif
	VF_CANARY("ev_post harness end");
}
