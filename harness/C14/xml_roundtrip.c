/* C14 (XML part): xml_decode(xml_encode(s)) == s for every byte string s, and the reported
 * lengths equal the number of bytes produced.  Plain bounded harness on the real code
 * (src/utils/xml.c + mem_replace_arr), s fully symbolic (so: every string over the five
 * special characters ' " & < > and every ordinary byte, including the letters of the entity
 * names), |s| <= VF_XML_SRC_MAX.
 *
 *   1. encode s into a buffer of 6*|s| bytes             -> must succeed; reported length ==
 *      spec length |s| + 5*#{' "} + 4*#{&} + 3*#{< >}; every output byte equals the spec
 *      encoding; bytes behind the reported length untouched
 *   2. decode that text into a buffer of exactly |s| bytes -> must succeed; reported length
 *      == |s|; output == s
 * The destinations are placed flush against the end of their objects and the bytes in front
 * are compared afterwards, so the two calls are also checked for out-of-span writes.
 */
#define VF_BYTE_LOOP_MEMCPY
#define VF_MRA_NO_CONTRACT
#include "contracts/mem_replace.h"
#include "src/utils/xml.c"
#include "stubs/libc_models.h"

#ifndef VF_XML_SRC_MAX
#define VF_XML_SRC_MAX 3
#endif
#define VF_ENC_MAX (6 * VF_XML_SRC_MAX)

/* specification of the entity encoding of one byte: length and k-th byte */
static size_t
spec_enc_len(uint8_t c) {
	return ((c == '\'' || c == '"') ? 6 : (c == '&') ? 5 : (c == '<' || c == '>') ? 4 : 1);
}
static uint8_t
spec_enc_byte(uint8_t c, size_t k) {
	const char *e = (c == '\'') ? "&apos;" : (c == '"') ? "&quot;" : (c == '&') ? "&amp;" :
	    (c == '<') ? "&lt;" : (c == '>') ? "&gt;" : NULL;
	return ((e == NULL) ? c : (uint8_t)e[k]);
}

void harness(void) {
	VF_NONDET(size_t, n);
	VF_ASSUME(n <= VF_XML_SRC_MAX);
	VF_EXACT8(s, n)
	size_t i, k, pos, enc_len = 0, dec_len = 0, spec_len = 0;
#if defined(VF_XML_ALPHABET) && VF_XML_ALPHABET
	/* stated bound of the .alpha jobs: specials and the letters of "&lt;" / "&amp;" */
	for (i = 0; i < VF_XML_SRC_MAX; i ++) {
		if (i < n)
			VF_ASSUME(s[i] == '&' || s[i] == '<' || s[i] == '\'' || s[i] == 'l' || s[i] == 't' ||
			    s[i] == ';' || s[i] == 'a' || s[i] == 'x');
	}
#endif

	for (i = 0; i < VF_XML_SRC_MAX; i ++) {
		if (i < n)
			spec_len += spec_enc_len(s[i]);
	}

	/* 1. encode */
#ifdef VF_REPLAY
	uint8_t *enc = (uint8_t *)malloc(VF_ENC_MAX), enc0[VF_ENC_MAX];
	memset(enc, 0xa5, VF_ENC_MAX);
#else
	uint8_t enc[VF_ENC_MAX], enc0[VF_ENC_MAX];
#endif
	for (i = 0; i < VF_ENC_MAX; i ++)
		enc0[i] = enc[i];
	int r1 = xml_encode(s, n, enc, 6 * n, &enc_len);
	VF_ASSERT(r1 == 0, "xml_encode succeeds with 6 bytes of room per input byte");
	VF_ASSERT(enc_len == spec_len, "xml_encode reports the length of the entity encoding");
	VF_ASSUME(r1 == 0 && enc_len == spec_len);
	pos = 0;
	for (i = 0; i < VF_XML_SRC_MAX; i ++) {
		if (i >= n)
			continue;
		for (k = 0; k < 6; k ++) {
			if (k < spec_enc_len(s[i]))
				VF_ASSERT(enc[pos + k] == spec_enc_byte(s[i], k), "xml_encode output equals the entity encoding");
		}
		pos += spec_enc_len(s[i]);
	}
	for (i = 0; i < VF_ENC_MAX; i ++) {
		if (i >= enc_len)
			VF_ASSERT(enc[i] == enc0[i], "xml_encode: bytes behind the reported length untouched");
	}

	/* 2. decode into exactly |s| bytes */
	VF_EXACT8(dec, n)
	int r2 = xml_decode(enc, enc_len, dec, n, &dec_len);
	VF_ASSERT(r2 == 0, "xml_decode of the encoded text succeeds in a buffer of the original size");
	VF_ASSERT(r2 != 0 || dec_len == n, "xml_decode reports the original length");
	for (i = 0; i < VF_XML_SRC_MAX; i ++) {
		if (r2 == 0 && i < n && i < dec_len)
			VF_ASSERT(dec[i] == s[i], "xml_decode(xml_encode(s)) == s");
	}
	VF_CANARY("xml_roundtrip harness end");
}
