/* C14: str2T(T2str(v)) == v and the text is the canonical decimal, for every value of the type.
 * -DNT=<type> -DN2S=<T2str> -DS2N=<str2T> -DSIGNED=0|1. Plain harness; digit loops fully unwound. */
#include "vf/vf.h"
#include <errno.h>
#include "contracts/num2str.h"	/* VF_DECLEN / VF_TXTLEN_* spec macros only */
#include "utils/num2str.h"
#include "utils/str2num.h"
void harness(void) {
	VF_NONDET(NT, v);
	VF_NONDET(size_t, k);
	char buf[24];
	size_t len = 0;
#ifdef VF_DECADE
	/* 64-bit types: one harness per decade keeps the divisions tractable */
	VF_ASSUME(VF_DECLEN(SIGNED ? VF_UMAG(v) : (uint64_t)v) == VF_DECADE);
#endif
	int r = N2S(v, buf, sizeof(buf), &len);
	VF_ASSERT(r == 0, "formatting into 24 bytes succeeds");
#if SIGNED
	VF_ASSERT(len == VF_TXTLEN_S(v), "length == digits + sign");
	VF_ASSERT((buf[0] == '-') == (v < 0), "'-' exactly for negatives");
	size_t first = (v < 0) ? 1 : 0;
#else
	VF_ASSERT(len == VF_TXTLEN_U(v), "length == number of decimal digits");
	size_t first = 0;
#endif
	VF_ASSERT(buf[len] == 0, "NUL terminated");
	VF_ASSUME(k >= first && k < len);
	VF_ASSERT(buf[k] >= '0' && buf[k] <= '9', "every character after the sign is a digit");
	VF_ASSERT(buf[first] != '0' || len == first + 1, "no leading zero");
	NT back = S2N(buf, len);
	VF_ASSERT(back == v, "parse(format(v)) == v");
	VF_CANARY("num round trip end");
}
