/* C14: str2T(T2str(v)) == v and the text is the canonical decimal, for every value of the type.
 * -DNT=<type> -DN2S=<T2str> -DS2N=<str2T> -DSIGNED=0|1. Plain harness; digit loops fully unwound. */
#include "vf/vf.h"
#include <errno.h>
#include "contracts/num2str.h"	/* VF_DECLEN / VF_TXTLEN_* spec macros only */
#include "utils/num2str.h"
#include "utils/str2num.h"
void harness(void) {
	VF_NONDET(NT, v);
	VF_NONDET(size_t, k);
	char buf[24];
	size_t len = 0;
#ifdef VF_BOUNDARY
	/* 64-bit types (bounded stand-in): values within +-VF_BOUNDARY of a power of ten, of zero
	 * and of the type's extremes; the full-range parse-back equality is undecided (DESIGN s.2) */
	{
		static const uint64_t p10[20] = { 1ull, 10ull, 100ull, 1000ull, 10000ull, 100000ull, 1000000ull,
		    10000000ull, 100000000ull, 1000000000ull, 10000000000ull, 100000000000ull, 1000000000000ull,
		    10000000000000ull, 100000000000000ull, 1000000000000000ull, 10000000000000000ull,
		    100000000000000000ull, 1000000000000000000ull, 10000000000000000000ull };
		VF_NONDET(uint8_t, dk);
		VF_NONDET(int8_t, dd);
		VF_NONDET(uint8_t, dsel);
		VF_ASSUME(dk < 20 && dd >= -(VF_BOUNDARY) && dd <= (VF_BOUNDARY));
		uint64_t mag = (dsel == 0) ? p10[dk] + (uint64_t)(int64_t)dd : (dsel == 1) ? (uint64_t)(int64_t)dd : (uint64_t)0 - (uint64_t)(dd < 0 ? -dd : dd) - 1;
#if SIGNED
		uint64_t smax = ((uint64_t)1 << (8 * sizeof(NT) - 1));
		VF_NONDET(uint8_t, neg);
		if (dsel == 2) mag = smax - (uint64_t)(dd < 0 ? -dd : dd);
		VF_ASSUME(neg ? mag <= smax : mag < smax);
		VF_ASSUME(VF_UMAG(v) == mag && (v < 0) == (neg && mag != 0));
#else
		VF_ASSUME((uint64_t)v == mag);
#endif
	}
#endif
#ifdef VF_NO_PARSE_BACK
#define VF_SKIP_BACK 1
#endif
	int r = N2S(v, buf, sizeof(buf), &len);
	VF_ASSERT(r == 0, "formatting into 24 bytes succeeds");
#if SIGNED
	VF_ASSERT(len == VF_TXTLEN_S(v), "length == digits + sign");
	VF_ASSERT((buf[0] == '-') == (v < 0), "'-' exactly for negatives");
	size_t first = (v < 0) ? 1 : 0;
#else
	VF_ASSERT(len == VF_TXTLEN_U(v), "length == number of decimal digits");
	size_t first = 0;
#endif
	VF_ASSERT(buf[len] == 0, "NUL terminated");
	VF_ASSUME(k >= first && k < len);
	VF_ASSERT(buf[k] >= '0' && buf[k] <= '9', "every character after the sign is a digit");
	VF_ASSERT(buf[first] != '0' || len == first + 1, "no leading zero");
#ifndef VF_SKIP_BACK
	NT back = S2N(buf, len);
	VF_ASSERT(back == v, "parse(format(v)) == v");
#endif
	VF_CANARY("num round trip end");
}
