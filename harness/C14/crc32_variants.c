/* C14: each named CRC-32 variant macro of include/math/crc32.h equals the catalogue definition
 * (poly, init, refin/refout, xorout) computed bitwise - on short buffers (4-bit table path) AND on a
 * 64-byte buffer (8-bit table path: crc32_normal/crc32_reflect switch tables at 64 bytes), and
 * chunked computation equals one-shot. -DVF_VARIANT=<macro> -DVF_UPDATE=<macro>_update
 * -DPOLY -DINIT -DXOROUT -DREFLECT=0|1 */
#include "vf/vf.h"
#include <string.h>
#include "math/crc32.h"
#include "specs/crc32_spec.h"
#define VF_LONG 64
static uint32_t vf_spec(const uint8_t *d, size_t n) {
	uint32_t crc = (INIT);
	const uint32_t rpoly = vf_reflect32(POLY);
	for (size_t i = 0; i < n; i ++)
		crc = (REFLECT) ? vf_crc_reflect_byte(rpoly, crc, d[i]) : vf_crc_normal_byte((POLY), crc, d[i]);
	return (crc ^ (XOROUT));
}
void harness(void) {
	VF_NONDET_BYTES(data, VF_LONG);
	VF_NONDET(size_t, n);
	VF_NONDET(size_t, cut);
#ifdef VF_CASE_LONG
	VF_ASSUME(n == VF_LONG);	/* concrete length: everything below constant-folds */
	n = VF_LONG;
	cut = 1;	/* concrete: the whole computation constant-folds (a symbolic split made one variant > 900 s) */
#else
	/* short case (4-bit table path of crc32_normal/crc32_reflect): concrete bytes, symbolic length
	 * 0..3 and split point - pins WHICH 16-entry table the macro passes; all states/bytes of one
	 * table step are covered by crc32.<poly>.tables. (Symbolic bytes here took > 700 s.) */
	VF_ASSUME(n <= 3);
	VF_ASSUME(cut <= n);
	data.b[0] = 0x31; data.b[1] = 0xe7; data.b[2] = 0x80;
#endif
	if (n == VF_LONG) {
		/* the 64-byte case pins WHICH 256-entry table the macro passes (8-bit path): one concrete
		 * vector suffices together with the per-byte step lemma of crc32.<poly>.tables, and keeps
		 * the computation constant-foldable (64 symbolic bytes do not finish in 900 s) */
		for (size_t i = 0; i < VF_LONG; i ++)
			data.b[i] = (uint8_t)(i * 37u + 11u);
	}
	uint32_t one = VF_VARIANT(data.b, n);
	VF_ASSERT(one == vf_spec(data.b, n), "variant(buffer) == catalogue CRC computed bitwise");
	uint32_t part = VF_VARIANT(data.b, cut);
	part = VF_UPDATE(part, data.b + cut, n - cut);
	VF_ASSERT(part == one, "chunked update == one-shot");
	VF_CANARY("crc32 variants end");
}
