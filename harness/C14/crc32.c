/* C14: CRC-32 tables == bitwise polynomial remainders; table-driven byte steps (4-bit and 8-bit
 * variants) == bitwise spec for every state and byte; whole-buffer value == spec (bounded length).
 * -DKIND_NORMAL|KIND_REFLECT -DPOLY=0x… -DT256=<table> [-DT16=<table>] */
#include "vf/vf.h"
#include <string.h>
#include "math/crc32.h"
#include "specs/crc32_spec.h"
#ifndef VF_N
#define VF_N 5
#endif
void harness(void) {
	VF_NONDET(uint8_t, idx);
	VF_NONDET(uint32_t, crc0);
	VF_NONDET(uint8_t, byte);
	VF_NONDET(size_t, n);
	VF_NONDET_BYTES(data, VF_N);
	VF_ASSUME(n <= VF_N);
#ifdef VF_PART_BUFFER
#define VF_TBL_ASSERT(c, m)	do { } while (0)
#define VF_BUF_ASSERT(c, m)	VF_ASSERT(c, m)
#else
#define VF_TBL_ASSERT(c, m)	VF_ASSERT(c, m)
#define VF_BUF_ASSERT(c, m)	do { } while (0)
#endif
#ifdef KIND_NORMAL
	VF_TBL_ASSERT(T256[idx] == vf_crc_normal_byte(POLY, 0, idx), "table256[i] == remainder of byte i (MSB first)");
	VF_TBL_ASSERT(crc32_normal8(T256, crc0, &byte, 1) == vf_crc_normal_byte(POLY, crc0, byte), "8-bit table step == bitwise step");
	VF_TBL_ASSERT(crc32_normal4(T256, crc0, &byte, 1) == vf_crc_normal_byte(POLY, crc0, byte), "4-bit table step == bitwise step");
	uint32_t spec = crc0;
	for (size_t i = 0; i < n; i ++)
		spec = vf_crc_normal_byte(POLY, spec, data.b[i]);
	VF_BUF_ASSERT(crc32_normal(T256, crc0, data.b, n) == spec, "crc32_normal(buffer) == bitwise CRC");
	VF_BUF_ASSERT(crc32_normal8(T256, crc0, data.b, n) == spec, "crc32_normal8(buffer) == bitwise CRC");
#else
	const uint32_t rpoly = vf_reflect32(POLY);
	VF_TBL_ASSERT(T256[idx] == vf_crc_reflect_byte(rpoly, 0, idx), "table256[i] == remainder of byte i (LSB first)");
	VF_TBL_ASSERT(T16[idx & 15] == T256[(idx & 15) << 4], "table16[i] == table256[16 i]");
	VF_TBL_ASSERT(crc32_reflect8(T256, crc0, &byte, 1) == vf_crc_reflect_byte(rpoly, crc0, byte), "8-bit table step == bitwise step");
	VF_TBL_ASSERT(crc32_reflect4(T16, crc0, &byte, 1) == vf_crc_reflect_byte(rpoly, crc0, byte), "4-bit table step == bitwise step");
	uint32_t spec = crc0;
	for (size_t i = 0; i < n; i ++)
		spec = vf_crc_reflect_byte(rpoly, spec, data.b[i]);
	VF_BUF_ASSERT(crc32_reflect(T256, T16, crc0, data.b, n) == spec, "crc32_reflect(buffer) == bitwise CRC");
	VF_BUF_ASSERT(crc32_reflect8(T256, crc0, data.b, n) == spec, "crc32_reflect8(buffer) == bitwise CRC");
#endif
	VF_CANARY("crc32 end");
}
