/* C14, exhaustive native stand-in for the 32-bit types (the SAT/SMT back ends do not decide the
 * 32-/64-bit format-parse equality, DESIGN section 2): every value of the type is formatted and
 * parsed back by the REAL functions; canonical-text clauses are checked on every value.
 * -DNT -DN2S -DS2N -DSIGNED -DVF_LO/-DVF_HI (inclusive range as int64). Prints "CASES n". */
#include <stdio.h>
#include <stdint.h>
#include <stdlib.h>
#include <string.h>
#include <errno.h>
#include <sys/types.h>
#include "utils/num2str.h"
#include "utils/str2num.h"

static int check(NT v) {
	char buf[24]; size_t len = 0, first, i;
	char ref[24];
	if (N2S(v, buf, sizeof(buf), &len) != 0) return (1);
	/* independent canonical decimal */
	if (SIGNED) snprintf(ref, sizeof(ref), "%lld", (long long)v);
	else snprintf(ref, sizeof(ref), "%llu", (unsigned long long)v);
	if (strlen(ref) != len || memcmp(ref, buf, len + 1) != 0) return (2);
	first = (buf[0] == '-') ? 1 : 0;
	for (i = first; i < len; i ++) if (buf[i] < '0' || buf[i] > '9') return (3);
	if (buf[first] == '0' && len != first + 1) return (4);
	if (S2N(buf, len) != v) return (5);
	/* exact-size buffer suffices, one less is refused */
	char small[24]; size_t need = 0;
	if (N2S(v, small, len + 1, NULL) != 0) return (6);
	if (N2S(v, small, len, &need) != ENOSPC || need != len + 1) return (7);
	return (0);
}

int main(void) {
	const int64_t lo = (int64_t)(VF_LO), hi = (int64_t)(VF_HI);
	long long bad = 0, badv = 0; int badc = 0;
	uint64_t cases = 0;
#pragma omp parallel for reduction(+:cases) schedule(static)
	for (int64_t x = lo; x <= hi; x ++) {
		int c = check((NT)x);
		cases ++;
		if (c != 0) {
#pragma omp critical
			{ bad ++; badv = (long long)x; badc = c; }
		}
	}
	printf("CASES %llu\n", (unsigned long long)cases);
	if (bad) { printf("FAIL value=%lld clause=%d (1 format failed, 2 not canonical decimal, 3 non-digit, 4 leading zero, 5 parse(format(v)) != v, 6 exact buffer refused, 7 short buffer not reported)\n", badv, badc); return (1); }
	return (0);
}
