/* C14: URL unescaping inverts standard percent-encoding (RFC 3986 section 2.1, and the
 * form-style variant that writes a space as '+').
 *
 * An independent reference encoder (written from the RFC, below) turns VF_N symbolic bytes
 * into text: an unreserved byte (ALPHA / DIGIT / '-' '.' '_' '~') is copied or escaped
 * (encoder's choice, symbolic), a space is escaped or - form style - written as '+', every
 * other byte is escaped as '%' HEXDIG HEXDIG with the case of each hex digit symbolic.
 * The real http_url_decode() must give back exactly the original bytes, report their
 * number, and terminate the output with NUL, into a destination of exactly n + 1 bytes.
 * Plain mode: the postconditions are harness assertions over symbolic input. */
#include "vf/vf.h"
#include "src/proto/http.c"

#ifndef VF_N
#define VF_N	3
#endif

static int
vf_unreserved(uint8_t c) {
	return ((c >= 'A' && c <= 'Z') || (c >= 'a' && c <= 'z') || (c >= '0' && c <= '9') ||
	    c == '-' || c == '.' || c == '_' || c == '~');
}

static uint8_t
vf_hexdig(uint8_t nibble, int lower) {
	if (nibble < 10)
		return ((uint8_t)('0' + nibble));
	return ((uint8_t)((lower ? 'a' : 'A') + (nibble - 10)));
}

void harness(void) {
	VF_NONDET_BYTES(src, VF_N);
	VF_NONDET(size_t, n);
	VF_ASSUME(n >= 1 && n <= VF_N);
	VF_NONDET(uint32_t, escape_mask);	/* bit k: escape byte k although it need not be */
	VF_NONDET(uint32_t, plus_mask);		/* bit k: write a space as '+' (form style) */
	VF_NONDET(uint32_t, lower_hi);		/* bit k: high hex digit of byte k in lower case */
	VF_NONDET(uint32_t, lower_lo);
	VF_NONDET(size_t, ghost_j);
	uint8_t enc[3 * VF_N];
	uint8_t out[VF_N + 1];
	size_t enc_len = 0;

	for (size_t k = 0; k < n; k ++) {
		uint8_t c = src.b[k];
		int esc = !vf_unreserved(c) || ((escape_mask >> k) & 1);
		if (c == ' ' && ((plus_mask >> k) & 1)) {
			enc[enc_len ++] = '+';
		} else if (esc) {
			enc[enc_len ++] = '%';
			enc[enc_len ++] = vf_hexdig((uint8_t)(c >> 4), (lower_hi >> k) & 1);
			enc[enc_len ++] = vf_hexdig((uint8_t)(c & 0x0f), (lower_lo >> k) & 1);
		} else {
			enc[enc_len ++] = c;
		}
	}

	size_t r = http_url_decode(enc, enc_len, out, n + 1);

	VF_ASSERT(r == n, "http_url_decode(percent-encode(s)): reported length == length of s");
	VF_ASSERT(ghost_j >= n || out[ghost_j] == src.b[ghost_j],
	    "http_url_decode(percent-encode(s)) == s byte for byte (ghost index)");
	VF_ASSERT(out[n] == 0, "http_url_decode: output terminated right after the decoded bytes");
	VF_CANARY("url round-trip harness end");
}
