/* C14: the library's Base64 tables are the RFC 4648 alphabet and its inverse (plain harness:
 * static initialisers as compiled; finite: 64 + 256 entries). */
#include "vf/vf.h"
#include <errno.h>
#include <string.h>
#include "utils/base64.h"
#include "specs/b64_spec.h"
void harness(void) {
	VF_NONDET(uint8_t, c);
	VF_NONDET(uint8_t, i);
	VF_ASSUME(i < 64);
	VF_ASSERT(base64_tbl_coding[i] == (uint8_t)vf_b64_alphabet[i], "alphabet entry == RFC 4648 table 1");
	VF_ASSERT(base64_tbl_decoding[(uint8_t)vf_b64_alphabet[i]] == i, "decode table inverts the alphabet");
	/* every byte outside the alphabet is marked 64 */
	_Bool in_alpha = (c >= 'A' && c <= 'Z') || (c >= 'a' && c <= 'z') || (c >= '0' && c <= '9') || c == '+' || c == '/';
	VF_ASSERT(in_alpha == (base64_tbl_decoding[c] != 64), "non-alphabet bytes are marked invalid");
	VF_ASSERT(base64_tbl_decoding[c] <= 64, "decode table range");
	VF_CANARY("base64 tables end");
}
