/* C14: base64_encode == RFC 4648 and base64_decode / base64_decode_fmt invert it, for every
 * byte string of length <= VF_N (symbolic length and content); reported lengths == bytes produced.
 * Plain harness, full unwinding (bounded route). */
#include "vf/vf.h"
#include <errno.h>
#include <string.h>
#include "utils/base64.h"
#include "specs/b64_spec.h"
#ifndef VF_N
#define VF_N 6
#endif
#define VF_E ((((VF_N) + 2) / 3) * 4)
void harness(void) {
	VF_NONDET_BYTES(in, VF_N);
	VF_NONDET(size_t, n);
	VF_NONDET(size_t, k);
	VF_ASSUME(n <= VF_N);
	uint8_t enc[VF_E + 1], dec[VF_N + 3];
	size_t enc_len = 0, dec_len = 0;
	int r = base64_encode(in.b, n, enc, sizeof(enc), &enc_len);
	VF_ASSERT(r == 0, "encode succeeds with a sufficient buffer");
	VF_ASSERT(enc_len == ((n + 2) / 3) * 4, "reported encoded length == RFC 4648 length");
	if (n != 0) {
		VF_ASSUME(k < enc_len);
		size_t g = k / 4;
		size_t avail = (n - 3 * g) >= 3 ? 3 : (n - 3 * g);
		VF_ASSERT(enc[k] == vf_b64_spec_char(&in.b[3 * g], avail, (unsigned)(k % 4)),
		    "encoded character k == RFC 4648 character");
		VF_ASSERT(enc[enc_len] == 0, "NUL after the text when there is room");
	}
#ifdef VF_FMT
	/* tolerant decoder: one junk byte (not in the alphabet, not '=') inserted at position j */
	VF_NONDET(size_t, j);
	VF_NONDET(uint8_t, junk);
	VF_ASSUME(j <= enc_len);
	VF_ASSUME(base64_tbl_decoding[junk] == 64 && junk != '=');
	uint8_t noisy[VF_E + 2];
	for (size_t t = 0; t < enc_len + 1; t ++)
		noisy[t] = (t < j) ? enc[t] : (t == j ? junk : enc[t - 1]);
	uint8_t dec2[VF_E + 2];
	r = base64_decode_fmt(noisy, enc_len + 1, dec2, sizeof(dec2), &dec_len);
	VF_ASSERT(r == 0, "tolerant decode succeeds");
	VF_ASSERT(dec_len == n, "tolerant decode: reported length == original length");
	if (n != 0) {
		VF_NONDET(size_t, m);
		VF_ASSUME(m < n);
		VF_ASSERT(dec2[m] == in.b[m], "tolerant decode: byte m == original byte");
	}
#else
	r = base64_decode(enc, enc_len, dec, sizeof(dec), &dec_len);
	VF_ASSERT(r == 0, "decode of encoder output succeeds");
	VF_ASSERT(dec_len == n, "reported decoded length == original length");
	if (n != 0) {
		VF_NONDET(size_t, m);
		VF_ASSUME(m < n);
		VF_ASSERT(dec[m] == in.b[m], "decoded byte m == original byte");
	}
#endif
	VF_CANARY("base64 round trip end");
}
