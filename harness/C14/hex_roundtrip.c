/* C14: cvt_hex2bin(cvt_bin2hex(x)) == x, lower-case canonical hex text, reported lengths ==
 * bytes produced; plain harness, bounded length. */
#include "vf/vf.h"
#include "src/utils/buf_str.c"
#include "stubs/libc_models.h"
#ifndef VF_N
#define VF_N 4
#endif
void harness(void) {
	VF_NONDET_BYTES(in, VF_N);
	VF_NONDET(size_t, n);
	VF_NONDET(size_t, k);
	VF_NONDET(int, aos);
	VF_ASSUME(n >= 1 && n <= VF_N);
	uint8_t hex[2 * VF_N + 1], bin[VF_N];
	size_t hex_len = 0, bin_len = 0;
	int r = cvt_bin2hex(in.b, n, 1, hex, 2 * n + 1, &hex_len);
	VF_ASSERT(r == 0, "bin2hex succeeds with 2n+1 bytes");
	VF_ASSERT(hex_len == 2 * n, "reported hex length == 2n");
	VF_ASSERT(hex[2 * n] == 0, "NUL terminated when there is room");
	VF_ASSUME(k < n);
	static const char digits[] = "0123456789abcdef";
	VF_ASSERT(hex[2 * k] == (uint8_t)digits[in.b[k] >> 4] && hex[2 * k + 1] == (uint8_t)digits[in.b[k] & 15],
	    "hex text of byte k is its two lower-case hex digits, high nibble first");
	r = cvt_hex2bin(hex, hex_len, aos, bin, n, &bin_len);
	VF_ASSERT(r == 0, "hex2bin of the produced text succeeds with n bytes");
	VF_ASSERT(bin_len == n, "reported binary length == n");
	VF_ASSERT(bin[k] == in.b[k], "round trip: byte k");
	/* exactly-sized text buffer without room for NUL also works and is not overrun */
	uint8_t hex2[2 * VF_N];
	r = cvt_bin2hex(in.b, n, 1, hex2, 2 * n, &hex_len);
	VF_ASSERT(r == 0 && hex_len == 2 * n, "bin2hex into exactly 2n bytes");
	VF_CANARY("hex round trip end");
}
