/* C13: the two label walkers that WRITE through a moving cursor
 *   SequenceOfLabelsToDomainName, dns_msg_sequence_of_labels2name (-DVF_FN_<name>: SequenceOfLabelsToDomainName | labels2name)
 * unbounded message size, loop contracts applied WITHOUT --dfcc ("mode":"plain").
 * Reason: under --dfcc a loop-havocked cursor may alias every dynamic object of the
 * contracts library, so each store through it is multiplied by ~40 objects (measured:
 * 22 M variables, > 10 GB for labels2name); without --dfcc the same loop contract closes in 2 s.
 * What replaces the --dfcc function contract here:
 *   requires  -> the buffers are exact-size heap objects of symbolic size (malloc), NULL allowed
 *   ensures   -> the VF_DNS_POST_* macros of contracts/dns.h (the same text as the ensures clauses)
 *   assigns   -> loop assigns clause (checked), exact-size objects (a write outside is a failed
 *                pointer check), and "no byte of the message changes" through a ghost index.
 */
#define VF_DNS_MEMCPY_BODY
#include "contracts/dns.h"
#include "stubs/dns.h"
#include <stdlib.h>
#include "proto/dns.h"

void harness(void) {
	VF_NONDET(size_t, msg_size);
	VF_ASSUME(msg_size <= VF_DNS_MSG_MAX);
	VF_NONDET(size_t, name_buf_size);
	VF_ASSUME(name_buf_size <= VF_DNS_NAMEBUF_MAX);
	VF_FRESH_PTR_OPT(uint8_t, msg, msg_size);
	VF_FRESH_PTR_OPT(uint8_t, name, name_buf_size);
	VF_FRESH_PTR_OPT(size_t, len_ret, sizeof(size_t));
	VF_NONDET(size_t, vf_k);	/* ghost index: any byte of the message */
	uint8_t before = 0;
	int r;
#ifndef VF_REPLAY
	size_t len_store;
	msg = nondet_bool() ? NULL : malloc(msg_size);
	name = nondet_bool() ? NULL : malloc(name_buf_size);
	len_ret = nondet_bool() ? NULL : &len_store;
	/* malloc may fail in CBMC's model: a failed allocation is the NULL case above */
#endif
	if (msg != NULL && vf_k < msg_size)
		before = msg[vf_k];
#if defined(VF_FN_SequenceOfLabelsToDomainName)
	r = SequenceOfLabelsToDomainName(msg, msg_size, name, name_buf_size, len_ret);
	VF_ASSERT(VF_DNS_POST_SOL2NAME_RV(r), "postcondition: return code");
	VF_ASSERT(VF_DNS_POST_SOL2NAME_EINVAL(r, msg, msg_size, name, name_buf_size), "postcondition: EINVAL iff bad arguments");
	VF_ASSERT(VF_DNS_POST_SOL2NAME_EOVERFLOW(r, msg_size, name_buf_size), "postcondition: EOVERFLOW only for a small buffer");
	VF_ASSERT(VF_DNS_POST_SOL2NAME_LEN(r, msg_size, len_ret), "postcondition: consumed size inside the buffer");
#elif defined(VF_FN_labels2name)
	VF_NONDET(size_t, offset);
	r = dns_msg_sequence_of_labels2name((dns_hdr_p)msg, msg_size, offset, name, name_buf_size, len_ret);
	VF_ASSERT(VF_DNS_POST_L2N_RV(r), "postcondition: return code");
	VF_ASSERT(VF_DNS_POST_L2N_EINVAL(r, msg, msg_size, offset, name, name_buf_size), "postcondition: EINVAL iff bad arguments");
	VF_ASSERT(VF_DNS_POST_L2N_TEXT(r, name, name_buf_size, len_ret), "postcondition: NUL-terminated text inside the name buffer");
	VF_ASSERT(VF_DNS_POST_L2N_EOVERFLOW(r, name_buf_size, len_ret), "postcondition: required length reported");
#else
#error "select a function with -DVF_FN_<name>"
#endif
	VF_ASSERT(msg == NULL || vf_k >= msg_size || msg[vf_k] == before, "frame: message bytes unchanged");
	VF_CANARY("dns label writer harness end");
}
