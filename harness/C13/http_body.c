/* C13 / HTTP: body / URL decoders http_data_decode_chunked, http_url_decode (unbounded
 * route: exact-size is_fresh spans, loop contracts). -DVF_FN_<name>, -DVF_HTTP_INPLACE. */
#include "contracts/http.h"
#include "src/proto/http.c"

void harness(void) {
#if defined(VF_FN_http_url_decode)
	VF_NONDET(size_t, url_size);
	VF_HTTP_BOUND(url_size);
	VF_FRESH_PTR(uint8_t, url, url_size);
	VF_HTTP_EMPTY_SPAN(url, url_size);
#ifdef VF_HTTP_INPLACE
	size_t buf_size = url_size;
	uint8_t *buf = url;
#else
	VF_NONDET(size_t, buf_size);
	VF_FRESH_PTR(uint8_t, buf, buf_size);
#endif
	size_t r = http_url_decode(url, url_size, buf, buf_size);
	VF_NATIVE_POST(r <= url_size && (buf_size == 0 ? r == 0 : r < buf_size), "decoded length");
#elif defined(VF_FN_http_data_decode_chunked)
	VF_NONDET(size_t, data_size);
	VF_HTTP_BOUND(data_size);
	VF_FRESH_PTR(uint8_t, data, data_size);
	VF_HTTP_EMPTY_SPAN(data, data_size);
	uint8_t *ret_store = NULL;
	size_t size_store = 0;
#ifdef VF_REPLAY
	uint8_t **data_ret = &ret_store;
	size_t *data_ret_size = &size_store;
#else
	uint8_t **data_ret;
	size_t *data_ret_size;
#endif
	int r = http_data_decode_chunked(data, data_size, data_ret, data_ret_size);
	VF_NATIVE_POST(r == 0 || r == EINVAL, "return code");
	VF_NATIVE_POST(r != 0 || *data_ret_size == 0 || (*data_ret >= data &&
	    *data_ret_size <= data_size && *data_ret + *data_ret_size <= data + data_size),
	    "decoded body inside the received bytes");
#endif
	VF_CANARY("http_body harness end");
}
