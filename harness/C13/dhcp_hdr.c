/* C13: dhcp4_hdr_check on a hostile datagram of symbolic size (fixed-header validator: finite in
 * content - memcmp of the 4-byte cookie fully unwound - and unbounded in size). */
#include "contracts/dhcpv4.h"
#include "proto/dhcpv4.h"

void harness(void) {
	VF_NONDET(size_t, buf_size);
	VF_ASSUME(buf_size <= VF_DHCP4_PKT_MAX);
	VF_FRESH_PTR_OPT(uint8_t, buf, buf_size);
	int r = dhcp4_hdr_check(buf, buf_size);
	VF_NATIVE_POST(r == 0 || r == EINVAL || r == EBADMSG, "return code");
	VF_NATIVE_POST((r == EINVAL) == (buf == NULL || buf_size < VF_DHCP4_HDR_SIZE), "EINVAL iff no header");
	VF_NATIVE_POST(buf == NULL || buf_size < VF_DHCP4_HDR_SIZE || ((r == 0) == VF_DHCP4_ACCEPTED(buf)),
	    "accepted iff well formed");
	VF_CANARY("dhcp4_hdr_check harness end");
}
