/* C13, route "bounded": content consistency of the DNS parsers on a message of at most
 * VF_N bytes (symbolic length 0..VF_N, every byte symbolic and recorded for replay; fixed-size
 * array under CBMC, exact-size heap object in the native replay), loops unwound.  Plain harness (no --dfcc): the real functions
 * of include/proto/dns.h are called and compared with an independent restatement of
 * RFC 1035 4.1.2-4.1.4 written over byte indices (spec_* below).
 *
 *  -DVF_CONTENT_NAME=1  dns_msg_sequence_of_labels2name agrees with spec_name (return code, length,
 *                       every text byte, NUL)
 *  -DVF_CONTENT_NAME=2  dns_msg_sequence_of_labels_get_name_len agrees with ...2name
 *  -DVF_CONTENT_NAME=3  SequenceOfLabelsGetSize agrees with spec_skip_name
 *  -DVF_CONTENT_MSG   sections: dns_msg_info_get (dns_msg_size_get / dns_msg_validate are its
 *                     wrappers, see their --dfcc jobs) accepts a
 *                     message iff walking QDCOUNT questions and AN+NS+AR records by the header
 *                     counts stays inside it, and report exactly the offsets / count / size of
 *                     that walk ("counts agree with records walked").
 *  -DVF_N=<bytes> -DVF_K=<name buffer capacity>
 */
#define VF_DNS_MEMCPY_LOOP
#include "contracts/dns.h"
#include "stubs/dns.h"
#include <stdlib.h>
#include <string.h>
#include "proto/dns.h"

#ifndef VF_N
#define VF_N 24
#endif
#ifndef VF_K
#define VF_K 12
#endif

/* ---- specification, index arithmetic only ------------------------------------- */

/* bytes occupied by the name at m[off..] (off < size): labels, then 00 | pointer (2 bytes) |
 * a 01/10 label type (1 byte; the library documents that it ends the size computation) */
static int
spec_skip_name(const uint8_t *m, size_t size, size_t off, size_t *len) {
	size_t p = off;

	for (;;) {
		if (p >= size)
			return (EBADMSG);
		uint8_t b = m[p];
		if ((b & 0xC0) == 0xC0) {
			if (size - p < 2)
				return (EBADMSG);
			(*len) = (p + 2 - off);
			return (0);
		}
		if ((b & 0xC0) != 0 || b == 0) {
			(*len) = (p + 1 - off);
			return (0);
		}
		if (size - (p + 1) < b)
			return (EBADMSG);
		p += (size_t)b + 1;
	}
}

/* dotted text of the (possibly compressed) name at off; at most 64 pointers are followed, a
 * pointer must target [12, size) and not itself */
static int
spec_name(const uint8_t *m, size_t size, size_t off, uint8_t *out, size_t cap, size_t *len_ret) {
	size_t p = off, n = 0, jumps = 0, j;

	if (m == NULL || out == NULL || cap == 0 || off < 12 || off > size)
		return (EINVAL);
	if (size < 12)
		return (EBADMSG);
	while (jumps < 64) {
		if (p >= size)
			return (EBADMSG);
		uint8_t b = m[p];
		if ((b & 0xC0) == 0xC0) {
			if (size - p < 2)
				return (EBADMSG);
			size_t t = (((size_t)(b & 0x3F)) << 8) | m[p + 1];
			if (t < 12 || t >= size || t == p)
				return (EBADMSG);
			p = t;
			jumps ++;
			continue;
		}
		if ((b & 0xC0) != 0)
			return (EOPNOTSUPP);
		if (size - (p + 1) < b)
			return (EBADMSG);
		if (b == 0) {
			if (n != 0)
				n --;
			out[n] = 0;
			(*len_ret) = n;
			return (0);
		}
		if (n + b + 1 >= cap) {
			(*len_ret) = (n + b + 1);
			return (EOVERFLOW);
		}
		for (j = 0; j < b; j ++)
			out[n + j] = m[p + 1 + j];
		out[n + b] = '.';
		n += (size_t)b + 1;
		p += (size_t)b + 1;
	}
	return (ELOOP);
}

#define SPEC_BE16(m, o)	((size_t)(((size_t)(m)[(o)] << 8) | (m)[(o) + 1]))

struct spec_info { size_t an_off, ns_off, ar_off, rr_count, size; };

/* walk `count` entries with `fixed` bytes after the name (+ RDLENGTH bytes when rr) */
static int
spec_walk(const uint8_t *m, size_t size, size_t *off, size_t count, int rr) {
	size_t i, nl, need;

	for (i = 0; i < count; i ++) {
		if ((*off) >= size)
			return (EBADMSG);
		if (spec_skip_name(m, size, (*off), &nl) != 0)
			return (EBADMSG);
		need = (rr ? 10 : 4);
		if (size - (*off) - nl < need)
			return (EBADMSG);
		if (rr) {
			need += SPEC_BE16(m, (*off) + nl + 8);
			if (size - (*off) - nl < need)
				return (EBADMSG);
		}
		(*off) += (nl + need);
	}
	return (0);
}

static int
spec_info(const uint8_t *m, size_t size, struct spec_info *si) {
	size_t off = 12;

	if (size < 12)
		return (EBADMSG);
	if (spec_walk(m, size, &off, SPEC_BE16(m, 4), 0) != 0)
		return (EBADMSG);
	si->an_off = off;
	if (spec_walk(m, size, &off, SPEC_BE16(m, 6), 1) != 0)
		return (EBADMSG);
	si->ns_off = off;
	if (spec_walk(m, size, &off, SPEC_BE16(m, 8), 1) != 0)
		return (EBADMSG);
	si->ar_off = off;
	if (spec_walk(m, size, &off, SPEC_BE16(m, 10), 1) != 0)
		return (EBADMSG);
	si->rr_count = (SPEC_BE16(m, 6) + SPEC_BE16(m, 8) + SPEC_BE16(m, 10));
	si->size = off;
	return (0);
}

/* ---- harness ------------------------------------------------------------------- */

void harness(void) {
	VF_NONDET_BYTES(bytes, VF_N);
	VF_NONDET(size_t, msg_size);
	VF_ASSUME(msg_size <= VF_N);
	/* CBMC: the message is the first msg_size bytes of the fixed array (fixed-size arrays are
	 * what makes content obligations tractable, HOWTO); native replay: an exact-size heap copy,
	 * so that a read past msg_size is an ASan report */
#ifndef VF_REPLAY
	uint8_t *msg = bytes.b;
#else
	uint8_t *msg = malloc(msg_size);
	memcpy(msg, bytes.b, msg_size);
#endif
	dns_hdr_p hdr = (dns_hdr_p)msg;

#if defined(VF_CONTENT_NAME)
	VF_NONDET(size_t, offset);
#ifdef VF_OFFSET
	VF_ASSUME(offset == VF_OFFSET);	/* the name starts right after the header; pointers may still target any byte */
#endif
	VF_NONDET(size_t, cap);
	VF_ASSUME(cap <= VF_K);
#ifndef VF_REPLAY
	uint8_t name_store[VF_K + 1], ref[VF_K + 1];
	uint8_t *name = name_store;
#else
	uint8_t *name = malloc(cap), *ref = malloc(cap + 1);
#endif
	size_t len1 = 0, len2 = 0, lens = 0, sz = 0, szs = 0;
	int r1, r2, rs, r3, r3s;

#if VF_CONTENT_NAME == 1
	/* 2name against the specification: code, length, text */
	r2 = dns_msg_sequence_of_labels2name(hdr, msg_size, offset, name, cap, &len2);
	rs = spec_name(msg, msg_size, offset, ref, cap, &lens);
	VF_ASSERT(r2 == rs, "labels2name: return code equals spec");
	VF_ASSERT((r2 != 0 && r2 != EOVERFLOW) || len2 == lens, "labels2name: length equals spec");
	VF_NONDET(size_t, vf_k);	/* ghost index */
	VF_ASSERT(r2 != 0 || vf_k > len2 || name[vf_k] == ref[vf_k], "labels2name: text byte equals spec (incl. NUL)");
#elif VF_CONTENT_NAME == 2
	/* get_name_len agrees with 2name (which additionally may run out of buffer) */
	r1 = dns_msg_sequence_of_labels_get_name_len(hdr, msg_size, offset, &len1);
	r2 = dns_msg_sequence_of_labels2name(hdr, msg_size, offset, name, cap, &len2);
	VF_ASSERT(cap == 0 || r2 == EOVERFLOW || r1 == r2, "get_name_len: same verdict as labels2name");
	VF_ASSERT(r1 != 0 || r2 != 0 || len1 == len2, "get_name_len: same length as labels2name");
	/* (the library wants room for the trailing dot before it is replaced by NUL: a name of
	 * exactly cap - 1 characters is refused as well) */
	VF_ASSERT(r2 != EOVERFLOW || r1 != 0 || len1 + 1 >= cap, "labels2name: EOVERFLOW only if the name (with its trailing dot) does not fit");
	VF_ASSERT(r1 != 0 || cap == 0 || len1 == 0 || len1 + 1 < cap || r2 == EOVERFLOW, "labels2name: a name that does not fit is reported");
#else
	/* size of the label sequence in place */
	VF_ASSUME(offset < msg_size);
	r3 = SequenceOfLabelsGetSize(msg + offset, msg_size - offset, &sz);
	r3s = spec_skip_name(msg, msg_size, offset, &szs);
	VF_ASSERT(r3 == r3s, "SequenceOfLabelsGetSize: return code equals spec");
	VF_ASSERT(r3 != 0 || (sz == szs && sz <= msg_size - offset), "SequenceOfLabelsGetSize: size equals spec, inside the buffer");
#endif
	(void)r1; (void)r2; (void)rs; (void)r3; (void)r3s;
	VF_CANARY("dns content (names) harness end");
#elif defined(VF_CONTENT_MSG)
	size_t qd = 1, an = 2, ns = 3, ar = 4, cnt = 5, size = 6;
	struct spec_info si;
	int r, rs;

	r = dns_msg_info_get(hdr, msg_size, &qd, &an, &ns, &ar, &cnt, &size);
	rs = spec_info(msg, msg_size, &si);
	VF_ASSERT(r == rs, "info_get: accepts exactly the messages whose counts agree with the records walked");
	VF_ASSERT(r != 0 || (qd == 12 && an == si.an_off && ns == si.ns_off && ar == si.ar_off),
	    "info_get: section offsets equal the walk");
	VF_ASSERT(r != 0 || cnt == si.rr_count, "info_get: record count equals AN+NS+AR");
	VF_ASSERT(r != 0 || (size == si.size && size <= msg_size), "info_get: real size equals the walk, inside the received bytes");
	VF_ASSERT(r == 0 || (qd == 1 && an == 2 && ns == 3 && ar == 4 && cnt == 5 && size == 6),
	    "info_get: outputs untouched on error");
	VF_CANARY("dns content (sections) harness end");
#else
#error "select VF_CONTENT_NAME or VF_CONTENT_MSG"
#endif
}
