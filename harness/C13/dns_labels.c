/* C13: label-sequence walkers of include/proto/dns.h on hostile bytes, unbounded size.
 * -DVF_FN_<name> selects the function:
 *   SequenceOfLabelsGetSize, SequenceOfLabelsToDomainName,
 *   get_name_len (dns_msg_sequence_of_labels_get_name_len), labels2name (dns_msg_sequence_of_labels2name)
 * The message / buffer is an exact-size span allocated by the enforced contract's is_fresh. */
#include "contracts/dns.h"
#include "stubs/dns.h"
#include "proto/dns.h"

void harness(void) {
	VF_NONDET(size_t, msg_size);
	VF_ASSUME(msg_size <= VF_DNS_MSG_MAX);
	VF_FRESH_PTR_OPT(uint8_t, msg, msg_size);
	VF_FRESH_PTR_OPT(size_t, len_ret, sizeof(size_t));
	int r;
#if defined(VF_FN_SequenceOfLabelsGetSize)
	r = SequenceOfLabelsGetSize(msg, msg_size, len_ret);
	VF_NATIVE_POST(r == 0 || r == EINVAL || r == EBADMSG, "return code");
	VF_NATIVE_POST(r != 0 || (*len_ret >= 1 && *len_ret <= msg_size), "size inside the buffer");
#elif defined(VF_FN_SequenceOfLabelsToDomainName)
	VF_NONDET(size_t, name_buf_size);
	VF_ASSUME(name_buf_size <= VF_DNS_NAMEBUF_MAX);
	VF_FRESH_PTR_OPT(uint8_t, name, name_buf_size);
	r = SequenceOfLabelsToDomainName(msg, msg_size, name, name_buf_size, len_ret);
	VF_NATIVE_POST(r != 0 || len_ret == NULL || (*len_ret >= 1 && *len_ret <= msg_size),
	    "consumed size inside the buffer");
#elif defined(VF_FN_get_name_len)
	VF_NONDET(size_t, offset);
	r = dns_msg_sequence_of_labels_get_name_len((dns_hdr_p)msg, msg_size, offset, len_ret);
	VF_NATIVE_POST(r != 0 || *len_ret <= VF_DNS_NAME_LEN_CAP, "name length bound");
#elif defined(VF_FN_labels2name)
	VF_NONDET(size_t, offset);
	VF_NONDET(size_t, name_buf_size);
	VF_ASSUME(name_buf_size <= VF_DNS_NAMEBUF_MAX);
	VF_FRESH_PTR_OPT(uint8_t, name, name_buf_size);
	r = dns_msg_sequence_of_labels2name((dns_hdr_p)msg, msg_size, offset, name, name_buf_size, len_ret);
	VF_NATIVE_POST(r != 0 || len_ret == NULL || (*len_ret < name_buf_size && name[*len_ret] == 0),
	    "NUL-terminated text inside the name buffer");
#else
#error "select a function with -DVF_FN_<name>"
#endif
	(void)r;
	VF_CANARY("dns label walker harness end");
}
