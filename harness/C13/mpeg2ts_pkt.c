/* C13: include/proto/mpeg2ts.h on hostile bytes of symbolic size.  -DVF_FN_<name>:
 *   is_valid     one TS packet (fixed-header validator, loop-free)
 *   size_detect  receive buffer under --dfcc: NOT registered (does not finish, see
 *                mpeg2ts_size_detect_plain.c for the registered plain-mode job)
 *   get_next     receive buffer + cursor; loop closed by loops/mpeg2ts_get_next.json
 * libc memchr is replaced by the assumed contract of stubs/libc.h. */
#include "contracts/mpeg2ts.h"
#include <string.h>
#include "stubs/libc.h"
#include "proto/mpeg2ts.h"

void harness(void) {
	VF_NONDET(size_t, buf_size);
	VF_ASSUME(buf_size <= VF_TS_BUF_MAX);
#if defined(VF_FN_is_valid)
	VF_FRESH_PTR_OPT(uint8_t, buf, buf_size);
	int r = mpeg2_ts_pkt_is_valid((const mpeg2_ts_hdr_t *)buf, buf_size);
	VF_NATIVE_POST(r == 0 || r == 1, "return code");
	VF_NATIVE_POST(r == 0 || (buf_size >= 188 && buf_size <= 208 && buf[0] == 0x47), "accepted packet has a TS size and the sync byte");
#elif defined(VF_FN_size_detect)
	VF_FRESH_PTR_OPT(uint8_t, buf, buf_size);
	VF_FRESH_PTR_OPT(size_t, psize, sizeof(size_t));
	int r = mpeg2_ts_pkt_size_detect(buf, buf_size, psize);
	VF_NATIVE_POST(r == 0 || r == EINVAL, "return code");
	VF_NATIVE_POST(r != 0 || VF_TS_IS_SIZE(*psize), "detected size is a TS packet size");
#elif defined(VF_FN_get_next)
	VF_NONDET(size_t, off);
	VF_NONDET(size_t, pkt_size);
	VF_ASSUME(off <= buf_size);
	VF_ASSUME(VF_TS_PKT_MIN <= pkt_size && pkt_size <= VF_TS_PKT_MAX);
	VF_FRESH_PTR(uint8_t, buf, buf_size);
	VF_FRESH_PTR(uint8_t *, pkt, sizeof(uint8_t *));
	int r = mpeg2_ts_pkt_get_next(buf, buf_size, off, pkt_size, pkt);
	VF_NATIVE_POST(r == 0 || r == 1, "return code");
	VF_NATIVE_POST(r == 0 || (*pkt >= buf + off && *pkt + pkt_size <= buf + buf_size && **pkt == 0x47),
	    "packet inside the buffer");
#else
#error "select a function with -DVF_FN_<name>"
#endif
	VF_CANARY("mpeg2ts harness end");
}
