/* C13: question / resource-record / whole-message parsers of include/proto/dns.h on a
 * hostile message of symbolic, unbounded size (<= 65535).  --dfcc: the selected function's
 * contract (contracts/dns.h) is enforced against its real body, its callees are replaced by
 * their contracts.  -DVF_FN_<name>:
 *   question_get_data question_get_size rr_get_data rr_get_size rr_find info_get size_get validate
 * Every out-parameter is independently NULL or a fresh object. */
#include "contracts/dns.h"
#include "stubs/libc.h"
#include "proto/dns.h"

void harness(void) {
	VF_NONDET(size_t, msg_size);
	VF_ASSUME(msg_size <= VF_DNS_MSG_MAX);
	VF_FRESH_PTR_OPT(uint8_t, msg, msg_size);
	dns_hdr_p hdr = (dns_hdr_p)msg;
	int r = 0;
#if defined(VF_FN_question_get_data) || defined(VF_FN_rr_get_data)
	VF_NONDET(size_t, offset);
	VF_ASSUME(VF_DNS_OFFSET_ARG(offset));
	VF_NONDET(size_t, name_cap);
	VF_ASSUME(name_cap <= VF_DNS_NAMEBUF_MAX);
	VF_FRESH_PTR_OPT(uint8_t, name, name_cap);
	VF_FRESH_PTR_OPT(size_t, name_len, sizeof(size_t));
	VF_FRESH_PTR_OPT(uint16_t, type, sizeof(uint16_t));
	VF_FRESH_PTR_OPT(uint16_t, class, sizeof(uint16_t));
	VF_FRESH_PTR_OPT(size_t, size_ret, sizeof(size_t));
#ifdef VF_REPLAY
	if (name_len != NULL)
		*name_len = name_cap;
#endif
#endif
#if defined(VF_FN_question_get_data)
	r = dns_msg_question_get_data(hdr, msg_size, offset, name, name_len, type, class, size_ret);
	VF_NATIVE_POST(r != 0 || size_ret == NULL || (*size_ret >= 5 && offset + *size_ret <= msg_size),
	    "question inside the message");
#elif defined(VF_FN_rr_get_data)
	VF_FRESH_PTR_OPT(uint32_t, ttl, sizeof(uint32_t));
	VF_FRESH_PTR_OPT(uint16_t, data_size, sizeof(uint16_t));
	VF_FRESH_PTR_OPT(void *, data, sizeof(void *));
	r = dns_msg_rr_get_data(hdr, msg_size, offset, name, name_len, type, class, ttl, data_size,
	    data, size_ret);
	VF_NATIVE_POST(r != 0 || size_ret == NULL || (*size_ret >= 11 && offset + *size_ret <= msg_size),
	    "record inside the message");
	VF_NATIVE_POST(r != 0 || data == NULL || data_size == NULL ||
	    ((uint8_t *)*data >= msg && (uint8_t *)*data + *data_size <= msg + msg_size),
	    "RDATA inside the message");
#elif defined(VF_FN_question_get_size)
	VF_NONDET(size_t, offset);
	VF_ASSUME(VF_DNS_OFFSET_ARG(offset));
	VF_FRESH_PTR_OPT(size_t, size_ret, sizeof(size_t));
	r = dns_msg_question_get_size(hdr, msg_size, offset, size_ret);
	VF_NATIVE_POST(r != 0 || size_ret == NULL || (*size_ret >= 5 && offset + *size_ret <= msg_size),
	    "question inside the message");
#elif defined(VF_FN_rr_get_size)
	VF_NONDET(size_t, offset);
	VF_ASSUME(VF_DNS_OFFSET_ARG(offset));
	VF_FRESH_PTR_OPT(size_t, size_ret, sizeof(size_t));
	r = dns_msg_rr_get_size(hdr, msg_size, offset, size_ret);
	VF_NATIVE_POST(r != 0 || size_ret == NULL || (*size_ret >= 11 && offset + *size_ret <= msg_size),
	    "record inside the message");
#elif defined(VF_FN_rr_find)
	VF_NONDET(size_t, offset0);
	VF_ASSUME(VF_DNS_OFFSET_ARG(offset0));
	VF_NONDET(size_t, count0);
	VF_NONDET(size_t, name_len);
	VF_ASSUME(name_len <= VF_DNS_NAMEBUF_MAX);
	VF_FRESH_PTR_OPT(size_t, offset_ret, sizeof(size_t));
	VF_FRESH_PTR_OPT(size_t, rr_count, sizeof(size_t));
	VF_FRESH_PTR_OPT(uint8_t, name, name_len);
	VF_FRESH_PTR_OPT(uint16_t, type, sizeof(uint16_t));
	VF_FRESH_PTR_OPT(uint16_t, class, sizeof(uint16_t));
	VF_FRESH_PTR_OPT(uint32_t, ttl, sizeof(uint32_t));
	VF_FRESH_PTR_OPT(uint16_t, data_size, sizeof(uint16_t));
	VF_FRESH_PTR_OPT(void *, data, sizeof(void *));
	VF_FRESH_PTR_OPT(size_t, size_ret, sizeof(size_t));
#ifdef VF_REPLAY
	if (offset_ret != NULL)
		*offset_ret = offset0;
	if (rr_count != NULL)
		*rr_count = count0;
#endif
	r = dns_msg_rr_find(hdr, msg_size, offset_ret, rr_count, name, name_len, type, class, ttl,
	    data_size, data, size_ret);
	VF_NATIVE_POST(r != 0 || size_ret == NULL || *offset_ret + *size_ret <= msg_size,
	    "found record inside the message");
#elif defined(VF_FN_info_get)
	VF_FRESH_PTR_OPT(size_t, qd_off, sizeof(size_t));
	VF_FRESH_PTR_OPT(size_t, an_off, sizeof(size_t));
	VF_FRESH_PTR_OPT(size_t, ns_off, sizeof(size_t));
	VF_FRESH_PTR_OPT(size_t, ar_off, sizeof(size_t));
	VF_FRESH_PTR_OPT(size_t, rr_count, sizeof(size_t));
	VF_FRESH_PTR_OPT(size_t, size_ret, sizeof(size_t));
	r = dns_msg_info_get(hdr, msg_size, qd_off, an_off, ns_off, ar_off, rr_count, size_ret);
	VF_NATIVE_POST(r != 0 || size_ret == NULL || (*size_ret >= 12 && *size_ret <= msg_size),
	    "real size inside the received bytes");
	VF_NATIVE_POST(r != 0 || ar_off == NULL || (*ar_off >= 12 && *ar_off <= msg_size),
	    "AR offset inside the received bytes");
#elif defined(VF_FN_size_get)
	size_t sz = dns_msg_size_get(hdr, msg_size);
	VF_NATIVE_POST(sz == 0 || (sz >= 12 && sz <= msg_size), "size inside the received bytes");
#elif defined(VF_FN_validate)
	r = dns_msg_validate(hdr, msg_size);
	VF_NATIVE_POST(r == 0 || r == EINVAL || r == EBADMSG, "return code");
#else
#error "select a function with -DVF_FN_<name>"
#endif
	(void)r;
	VF_CANARY("dns message parser harness end");
}
