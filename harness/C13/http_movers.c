/* C13 / HTTP: in-place editors that move bytes with memmove -- wsp2sp, http_hdr_val_remove,
 * http_hdr_vals_remove, http_query_val_del, http_data_decode_chunked -- and bounded quick-tier
 * variants of the two heaviest scanners (http_hdr_val_get_ex, http_query_val_get_ex), whose
 * unbounded loop-contract proofs live in the thorough tier.
 *
 * Route "bounded" (plain harness, no --dfcc): symbolic-length memmove on symbolic-size
 * objects exhausts the solver's memory, so the span is a window of a fixed array of N bytes:
 * symbolic content, symbolic length <= N, placed either at the START of the array (a read or
 * write before the span leaves the object) or at its END (one byte past the span leaves the
 * object); both placements are explored in one run.  All loops are unwound completely
 * (unwinding assertions = termination for these sizes).  Frame: a ghost index k proves that
 * every byte outside the documented output regions keeps its value.
 * Natively (replay) the window is copied into an exact-size heap block for ASan.
 */
#define VF_HTTP_PLAIN 1
#include "contracts/http.h"
#include "src/proto/http.c"
#ifndef N
#define N 8
#endif

#ifdef VF_REPLAY
static uint8_t *vf_exact(const uint8_t *src, size_t n) {
	uint8_t *p = (uint8_t *)malloc(n ? n : 8);
	if (n == 0)
		return (p + 8);	/* empty span with a detectable end */
	memcpy(p, src, n);
	return (p);
}
#define WINDOW(arr, off, n)	vf_exact((arr).b + (off), (n))
#else
#define WINDOW(arr, off, n)	((arr).b + (off))
#endif

void harness(void) {
	VF_NONDET_BYTES(in, N);
	VF_NONDET(size_t, size);
	VF_ASSUME(size <= N);
	VF_NONDET(uint8_t, at_end);
	size_t off = (at_end & 1) ? N - size : 0;
	VF_NONDET(size_t, k);		/* ghost index for the frame */
	VF_ASSUME(k < N);
	uint8_t *buf = WINDOW(in, off, size);
	size_t new_size = size;

#if defined(VF_FN_wsp2sp)
	VF_NONDET_BYTES(outb, N);
	uint8_t *ret_buf = WINDOW(outb, off, size);
#ifndef VF_REPLAY
	uint8_t in_k = in.b[k], out_k = outb.b[k];
#endif
	int r = wsp2sp(buf, size, ret_buf, &new_size);
	VF_ASSERT(r == 0 || r == EINVAL, "wsp2sp: return code");
	VF_ASSERT((size == 0) == (r == EINVAL), "wsp2sp: EINVAL iff empty");
	VF_ASSERT(r != 0 || (new_size <= size && new_size != 0), "wsp2sp: result not longer than input");
#ifndef VF_REPLAY
	VF_ASSERT(in.b[k] == in_k, "wsp2sp frame: input span untouched");
	VF_ASSERT((k >= off && k < off + size) || outb.b[k] == out_k, "wsp2sp frame: only ret_buf[0..buf_size) written");
#endif

#elif defined(VF_FN_wsp2sp_inplace)
#ifndef VF_REPLAY
	uint8_t in_k = in.b[k];
#endif
	int r = wsp2sp(buf, size, buf, &new_size);
	VF_ASSERT(r == 0 || r == EINVAL, "wsp2sp: return code");
	VF_ASSERT(r != 0 || (new_size <= size && new_size != 0), "wsp2sp: result not longer than input");
#ifndef VF_REPLAY
	VF_ASSERT((k >= off && k < off + size) || in.b[k] == in_k, "wsp2sp frame: only the span written");
#endif

#elif defined(VF_FN_http_hdr_val_remove) || defined(VF_FN_http_hdr_vals_remove)
	/* original block and its lower-cased copy, same size; field name(s) in separate arrays */
	VF_NONDET_BYTES(lc, N);
	uint8_t *hdr_lcase = WINDOW(lc, off, size);
	VF_NONDET_BYTES(nm, 4);
	VF_NONDET(size_t, name_size);
	VF_ASSUME(name_size <= 4);
	VF_NONDET(uint8_t, name_at_end);
	uint8_t *name = WINDOW(nm, (name_at_end & 1) ? 4 - name_size : 0, name_size);
#ifndef VF_REPLAY
	uint8_t in_k = in.b[k], lc_k = lc.b[k];
#endif
#if defined(VF_FN_http_hdr_val_remove)
	size_t cnt = http_hdr_val_remove(buf, hdr_lcase, size, &new_size, name, name_size);
#else
	VF_NONDET_BYTES(nm2, 4);
	VF_NONDET(size_t, name2_size);
	VF_ASSUME(name2_size <= 4);
	uint8_t *name2 = WINDOW(nm2, 4 - name2_size, name2_size);
	const uint8_t *names[2];
	size_t sizes[2];
	VF_NONDET(size_t, vals_count);
	VF_ASSUME(vals_count <= 2);
	names[0] = name; sizes[0] = name_size;
	names[1] = name2; sizes[1] = name2_size;
	size_t cnt = http_hdr_vals_remove(buf, hdr_lcase, size, &new_size, vals_count, names, sizes);
#endif
	VF_ASSERT(new_size <= size, "hdr_val_remove: block does not grow");
	VF_ASSERT(cnt <= size, "hdr_val_remove: count bounded by block size");
#ifndef VF_REPLAY
	VF_ASSERT((k >= off && k < off + size) || (in.b[k] == in_k && lc.b[k] == lc_k),
	    "hdr_val_remove frame: only the two blocks written");
#endif

#elif defined(VF_FN_http_query_val_del)
	VF_NONDET_BYTES(nm, 4);
	VF_NONDET(size_t, name_size);
	VF_ASSUME(name_size <= 4);
	VF_NONDET(uint8_t, name_at_end);
	uint8_t *name = WINDOW(nm, (name_at_end & 1) ? 4 - name_size : 0, name_size);
#ifndef VF_REPLAY
	uint8_t in_k = in.b[k];
#endif
	size_t cnt = http_query_val_del(buf, size, name, name_size, &new_size);
	VF_ASSERT(new_size <= size, "query_val_del: query does not grow");
	VF_ASSERT(cnt <= size, "query_val_del: count bounded by query size");
#ifndef VF_REPLAY
	VF_ASSERT((k >= off && k < off + size) || in.b[k] == in_k, "query_val_del frame: only the query written");
#endif

#elif defined(VF_FN_http_hdr_val_get_ex) || defined(VF_FN_http_query_val_get_ex)
	VF_NONDET_BYTES(nm, 4);
	VF_NONDET(size_t, name_size);
	VF_ASSUME(name_size <= 4);
	VF_NONDET(uint8_t, name_at_end);
	uint8_t *name = WINDOW(nm, (name_at_end & 1) ? 4 - name_size : 0, name_size);
	const uint8_t *val = NULL, *name_pos = NULL;
	size_t val_size = 0, next = 0;
#ifndef VF_REPLAY
	uint8_t in_k = in.b[k];
#endif
#if defined(VF_FN_http_hdr_val_get_ex)
	VF_NONDET(size_t, offset);
	int r = http_hdr_val_get_ex(buf, size, name, name_size, offset, &val, &val_size, &next);
	VF_ASSERT(r != 0 || (next > offset && next <= size), "hdr_val_get_ex: continuation offset makes progress");
#else
	int r = http_query_val_get_ex(buf, size, name, name_size, &name_pos, &val, &val_size);
	VF_ASSERT(r != 0 || (name_pos >= buf && name_pos < val), "query_val_get_ex: name before value");
#endif
	VF_ASSERT(r == 0 || r == ESPIPE, "get_ex: return code");
	VF_ASSERT(r != 0 || (val >= buf && val <= buf + size && val_size <= (size_t)((buf + size) - val)),
	    "get_ex: value inside the received bytes");
#ifndef VF_REPLAY
	VF_ASSERT(in.b[k] == in_k, "get_ex frame: nothing written");
#endif

#elif defined(VF_FN_http_data_decode_chunked)
	uint8_t *data_ret = NULL;
	size_t data_ret_size = 0;
#ifndef VF_REPLAY
	uint8_t in_k = in.b[k];
#endif
	int r = http_data_decode_chunked(buf, size, &data_ret, &data_ret_size);
	VF_ASSERT(r == 0 || r == EINVAL, "decode_chunked: return code");
	VF_ASSERT(r != 0 || data_ret_size <= size, "decode_chunked: body not longer than the input");
	VF_ASSERT(r != 0 || data_ret_size == 0 || (data_ret >= buf && data_ret <= buf + size &&
	    data_ret_size <= (size_t)((buf + size) - data_ret)), "decode_chunked: body inside the received bytes");
#ifndef VF_REPLAY
	VF_ASSERT((k >= off && k < off + size) || in.b[k] == in_k, "decode_chunked frame: only the data written");
#endif
#endif
	VF_CANARY("http_movers harness end");
}
