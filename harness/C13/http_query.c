/* C13 / HTTP: query-string scanners http_query_val_get_ex / http_query_val_get.
 * Exact-size query span of symbolic unbounded length; -DVF_FN_<name>. */
#include "contracts/http.h"
#include "src/proto/http.c"

void harness(void) {
	VF_NONDET(size_t, query_size);
	VF_HTTP_BOUND(query_size);
	VF_FRESH_PTR(uint8_t, query, query_size);
	VF_HTTP_EMPTY_SPAN(query, query_size);
	VF_NONDET(size_t, val_name_size);
	VF_FRESH_PTR(uint8_t, val_name, val_name_size);
	const uint8_t *name_store = NULL, *val_store = NULL;
	size_t size_store = 0;
#ifdef VF_REPLAY
	VF_NONDET(uint8_t, want);
	const uint8_t **val_name_ret = (want & 1) ? &name_store : NULL;
	const uint8_t **val_ret = (want & 2) ? &val_store : NULL;
	size_t *val_ret_size = (want & 4) ? &size_store : NULL;
#else
	const uint8_t **val_name_ret, **val_ret;
	size_t *val_ret_size;
#endif
#if defined(VF_FN_http_query_val_get_ex)
	int r = http_query_val_get_ex(query, query_size, val_name, val_name_size,
	    val_name_ret, val_ret, val_ret_size);
	VF_NATIVE_POST(r != 0 || val_name_ret == NULL ||
	    (*val_name_ret >= query && *val_name_ret <= query + query_size), "name pointer inside");
#else
	int r = http_query_val_get(query, query_size, val_name, val_name_size, val_ret, val_ret_size);
#endif
	VF_NATIVE_POST(r == 0 || r == ESPIPE, "return code");
	VF_NATIVE_POST(r != 0 || val_ret == NULL || (*val_ret >= query && *val_ret <= query + query_size),
	    "value pointer inside");
	VF_NATIVE_POST(r != 0 || val_ret == NULL || val_ret_size == NULL ||
	    *val_ret + *val_ret_size <= query + query_size, "value span inside");
	VF_CANARY("http_query harness end");
}
