/* C13: include/proto/sdp.h on a hostile SDP text of symbolic size.  -DVF_FN_<name>:
 *   type_get type_get_count feilds_get sec_chk
 * Unbounded jobs: loops closed by loops/sdp_*.json, libc memmem/memchr/memcmp replaced by the
 * assumed contracts of stubs/libc.h.  Bounded jobs (-DVF_SDP_MODELS): executable libc models of
 * stubs/libc_models.h, sizes <= VF_SDP_MSG_MAX, loops fully unwound. */
#include "contracts/sdp.h"
#include <string.h>
#ifdef VF_SDP_MODELS
#include "stubs/libc_models.h"
#else
#include "stubs/libc.h"
#endif
#include "proto/sdp.h"

void harness(void) {
	VF_NONDET(size_t, msg_size);
	VF_ASSUME(msg_size <= VF_SDP_MSG_MAX);
#if defined(VF_FN_type_get)
	VF_FRESH_PTR_OPT(uint8_t, msg, msg_size);
	VF_NONDET(uint8_t, type);
	VF_NONDET(size_t, line0);
	VF_FRESH_PTR_OPT(size_t, line, sizeof(size_t));
	VF_FRESH_PTR_OPT(uint8_t *, val, sizeof(uint8_t *));
	VF_FRESH_PTR_OPT(size_t, val_size, sizeof(size_t));
#ifdef VF_REPLAY
	if (line != NULL)
		*line = line0;
#endif
	int r = sdp_msg_type_get(msg, msg_size, type, line, val, val_size);
	VF_NATIVE_POST(r == 0 || r == EINVAL, "return code");
	VF_NATIVE_POST(r != 0 || val == NULL || (*val >= msg + 2 && *val <= msg + msg_size), "value starts inside the message");
	VF_NATIVE_POST(r != 0 || val == NULL || val_size == NULL ||
	    (*val_size <= msg_size && *val + *val_size <= msg + msg_size), "value lies inside the message");
	VF_NATIVE_POST(r != 0 || line == NULL || (*line >= line0 && *line <= msg_size), "line number bounded");
#elif defined(VF_FN_type_get_count)
	VF_FRESH_PTR_OPT(uint8_t, msg, msg_size);
	VF_NONDET(uint8_t, type);
	size_t n = sdp_msg_type_get_count(msg, msg_size, type);
	VF_NATIVE_POST(n <= msg_size + 1, "count bounded by the number of lines");
#elif defined(VF_FN_feilds_get)
	VF_FRESH_PTR_OPT(uint8_t, msg, msg_size);
	VF_NONDET(size_t, max_feilds);
	VF_ASSUME(max_feilds <= VF_SDP_FIELDS_MAX);
	VF_NONDET(size_t, k);
	VF_FRESH_PTR_OPT(uint8_t *, feilds, max_feilds * sizeof(uint8_t *));
	VF_FRESH_PTR(size_t, feilds_sizes, max_feilds * sizeof(size_t));
#ifndef VF_REPLAY
	vf_sdp_k = k;
#endif
	size_t n = sdp_msg_feilds_get(msg, msg_size, max_feilds, feilds, feilds_sizes);
	VF_NATIVE_POST(n <= max_feilds, "count within capacity");
	VF_NATIVE_POST(k >= n || (feilds[k] >= msg && feilds_sizes[k] <= msg_size &&
	    feilds[k] + feilds_sizes[k] <= msg + msg_size), "field inside the buffer");
#elif defined(VF_FN_sec_chk)
	VF_FRESH_PTR(uint8_t, msg, msg_size);
	VF_NONDET(size_t, k);
#ifndef VF_REPLAY
	vf_sdp_k = k;
#endif
	int r = sdp_msg_sec_chk(msg, msg_size);
	VF_NATIVE_POST(r >= 0 && r <= 9, "return code");
#ifdef VF_SDP_SEC_CONTENT
	for (size_t n = 0; r == 0 && n < msg_size; n ++)
		VF_NATIVE_POST(VF_SDP_ALLOWED(msg[n]), "accepted text has no control / non-ASCII byte");
#endif
#else
#error "select a function with -DVF_FN_<name>"
#endif
	VF_CANARY("sdp harness end");
}
