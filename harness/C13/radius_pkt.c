/* C13: validation and attribute accessors of include/proto/radius.h on a hostile packet of
 * symbolic size (<= 65535).  --dfcc: the selected function's contract (contracts/radius.h) is
 * enforced against its real body, callees are replaced by their contracts.  -DVF_FN_<name>:
 *   pkt_chk attr_chk get_from_offset find_raw find get_data_ptr_raw get_data_ptr get_data_to_buf
 * pkt_chk: exact-size span of pkt_size arbitrary bytes.  All others: "validated header"
 * (20 <= ntohs(len) == span, -DVF_RAD_EXACT), every other byte arbitrary. */
#include "contracts/radius.h"
#include "stubs/radius.h"
#include "proto/radius.h"

size_t vf_rad_span;	/* ghost: size of the packet object (contracts/radius.h) */

void harness(void) {
	VF_NONDET(size_t, span);
	VF_ASSUME(span <= VF_RAD_PKT_MAX);
	int r = 0;
#if defined(VF_FN_pkt_chk)
	VF_FRESH_PTR_OPT(uint8_t, pkt, span);
	r = radius_pkt_chk((rad_pkt_hdr_p)pkt, span);
	VF_NATIVE_POST(r == 0 || r == EINVAL || r == EBADMSG, "return code");
	VF_NATIVE_POST(r != 0 || (VF_RAD_LEN(pkt) >= 20 && VF_RAD_LEN(pkt) <= span), "accepted length inside the received bytes");
#elif defined(VF_FN_attr_chk)
	VF_FRESH_PTR_OPT(uint8_t, attr, 2);
	r = radius_pkt_attr_chk((rad_pkt_attr_p)attr);
	VF_NATIVE_POST(r != 0 || (attr[0] != 0 && attr[1] >= 2), "accepted attribute header");
#else
	VF_ASSUME(span >= VF_RAD_HDR_SIZE);
	vf_rad_span = span;
	VF_FRESH_PTR_OPT(uint8_t, pkt, span);
#ifdef VF_REPLAY
	if (pkt != NULL) {	/* the "validated header" precondition: len == span */
		pkt[2] = (uint8_t)(span >> 8);
		pkt[3] = (uint8_t)span;
	}
#endif
	rad_pkt_hdr_p p = (rad_pkt_hdr_p)pkt;
	VF_NONDET(size_t, offset);
#if defined(VF_FN_get_from_offset)
	VF_FRESH_PTR_OPT(rad_pkt_attr_p, attr_ret, sizeof(rad_pkt_attr_p));
	r = radius_pkt_attr_get_from_offset(p, offset, attr_ret);
	VF_NATIVE_POST(r != 0 || ((uint8_t *)*attr_ret == pkt + offset && offset + 2 <= span &&
	    (*attr_ret)->len >= 2 && offset + (*attr_ret)->len <= span), "attribute inside the packet");
#elif defined(VF_FN_find_raw)
	VF_NONDET(uint8_t, type);
	VF_FRESH_PTR_OPT(rad_pkt_attr_p, attr_ret, sizeof(rad_pkt_attr_p));
	VF_FRESH_PTR_OPT(size_t, offset_ret, sizeof(size_t));
	r = radius_pkt_attr_find_raw(p, offset, type, attr_ret, offset_ret);
	VF_NATIVE_POST(r != 0 || offset_ret == NULL || (*offset_ret >= 20 && *offset_ret + 2 <= span &&
	    pkt[*offset_ret + 1] >= 2 && *offset_ret + pkt[*offset_ret + 1] <= span), "found attribute inside the packet");
#elif defined(VF_FN_find)
	VF_NONDET(uint8_t, type);
	VF_FRESH_PTR_OPT(size_t, offset_ret, sizeof(size_t));
	r = radius_pkt_attr_find(p, offset, type, offset_ret);
	VF_NATIVE_POST(r != 0 || offset_ret == NULL || (*offset_ret >= 20 && *offset_ret + 2 <= span), "found attribute inside the packet");
#elif defined(VF_FN_get_data_ptr_raw) || defined(VF_FN_get_data_ptr)
	VF_FRESH_PTR_OPT(uint8_t, type, sizeof(uint8_t));
	VF_FRESH_PTR_OPT(uint8_t *, data, sizeof(uint8_t *));
	VF_FRESH_PTR_OPT(size_t, len, sizeof(size_t));
#if defined(VF_FN_get_data_ptr_raw)
	r = radius_pkt_attr_get_data_ptr_raw(p, offset, type, data, len);
#else
	r = radius_pkt_attr_get_data_ptr(p, offset, type, data, len);
#endif
	VF_NATIVE_POST(r != 0 || data == NULL || len == NULL ||
	    (*data >= pkt && *len <= span && (size_t)(*data - pkt) <= span - *len), "value inside the packet");
#elif defined(VF_FN_get_data_to_buf)
	VF_NONDET(uint8_t, type);
	VF_NONDET(size_t, count);
	VF_NONDET(size_t, buf_size);
	VF_ASSUME(buf_size <= VF_RAD_PKT_MAX);
	VF_FRESH_PTR(uint8_t, buf, buf_size);
	VF_FRESH_PTR_OPT(size_t, size_ret, sizeof(size_t));
	r = radius_pkt_attr_get_data_to_buf(p, offset, count, type, buf, buf_size, size_ret);
	VF_NATIVE_POST(size_ret == NULL || *size_ret <= buf_size, "reported size fits the buffer");
#else
#error "select a function with -DVF_FN_<name>"
#endif
#endif
	(void)r;
	VF_CANARY("radius packet parser harness end");
}
