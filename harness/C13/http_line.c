/* C13 / HTTP: start-line parsers http_parse_req_line, http_parse_resp_line and the
 * method / transfer-coding classifiers.  Exact-size received span, symbolic unbounded
 * length.  -DVF_FN_<name> selects the function. */
#include "contracts/http.h"
#include "src/proto/http.c"

#ifndef VF_REPLAY
/* --dfcc havocs mutable file-scope objects: re-establish the initialisers of the two
 * name tables of include/proto/http.h (arrays of non-const pointers). The enforced
 * contracts' empty frames prove that no function under contract assigns them. */
static void vf_http_tables_init(void) {
	HTTPReqMethod[0] = NULL;
	HTTPReqMethod[1] = (const uint8_t *)"OPTIONS";
	HTTPReqMethod[2] = (const uint8_t *)"GET";
	HTTPReqMethod[3] = (const uint8_t *)"HEAD";
	HTTPReqMethod[4] = (const uint8_t *)"POST";
	HTTPReqMethod[5] = (const uint8_t *)"PUT";
	HTTPReqMethod[6] = (const uint8_t *)"DELETE";
	HTTPReqMethod[7] = (const uint8_t *)"TRACE";
	HTTPReqMethod[8] = (const uint8_t *)"CONNECT";
	HTTPReqMethod[9] = (const uint8_t *)"NOTIFY";
	HTTPReqMethod[10] = (const uint8_t *)"M-SEARCH";
	HTTPReqMethod[11] = (const uint8_t *)"M-POST";
	HTTPReqMethod[12] = (const uint8_t *)"SUBSCRIBE";
	HTTPReqMethod[13] = (const uint8_t *)"UNSUBSCRIBE";
	HTTPReqMethod[14] = NULL;
	HTTPTransferEncoding[0] = NULL;
	HTTPTransferEncoding[1] = (const uint8_t *)"chunked";
	HTTPTransferEncoding[2] = (const uint8_t *)"compress";
	HTTPTransferEncoding[3] = (const uint8_t *)"deflate";
	HTTPTransferEncoding[4] = (const uint8_t *)"gzip";
	HTTPTransferEncoding[5] = NULL;
}
#else
static void vf_http_tables_init(void) { }
#endif

#define IN_LINE(p, n, rd, h)	((n) == 0 || ((p) >= (h) && (p) + (n) <= (h) + (rd).line_size))

void harness(void) {
	VF_NONDET(size_t, hdr_size);
	VF_HTTP_BOUND(hdr_size);
	VF_FRESH_PTR(uint8_t, http_hdr, hdr_size);
	VF_HTTP_EMPTY_SPAN(http_hdr, hdr_size);
	vf_http_tables_init();
#if defined(VF_FN_http_parse_req_line)
#ifdef VF_REPLAY
	http_req_line_data_t store;
	http_req_line_data_p rd = &store;
#else
	http_req_line_data_p rd;
#endif
	int r = http_parse_req_line(http_hdr, hdr_size, rd);
	VF_NATIVE_POST(r == 0 || r == EINVAL || r == EBADMSG, "return code");
	VF_NATIVE_POST(r != 0 || rd->line_size <= hdr_size, "line inside");
	VF_NATIVE_POST(r != 0 || (IN_LINE(rd->method, rd->method_size, *rd, http_hdr) &&
	    IN_LINE(rd->uri, rd->uri_size, *rd, http_hdr) &&
	    IN_LINE(rd->scheme, rd->scheme_size, *rd, http_hdr) &&
	    IN_LINE(rd->host, rd->host_size, *rd, http_hdr) &&
	    IN_LINE(rd->abs_path, rd->abs_path_size, *rd, http_hdr) &&
	    IN_LINE(rd->query, rd->query_size, *rd, http_hdr)), "spans inside the line");
#elif defined(VF_FN_http_parse_resp_line)
#ifdef VF_REPLAY
	http_resp_line_data_t store;
	http_resp_line_data_p rd = &store;
#else
	http_resp_line_data_p rd;
#endif
	int r = http_parse_resp_line(http_hdr, hdr_size, rd);
	VF_NATIVE_POST(r == 0 || r == EINVAL || r == EBADMSG, "return code");
	VF_NATIVE_POST(r != 0 || (rd->line_size <= hdr_size &&
	    IN_LINE(rd->reason_phrase, rd->reason_phrase_size, *rd, http_hdr)), "spans inside the line");
#elif defined(VF_FN_http_get_method_fast)
	uint32_t r = http_get_method_fast(http_hdr, hdr_size);
	VF_NATIVE_POST(r < HTTP_REQ_METHOD__COUNT__, "method code");
#elif defined(VF_FN_http_get_transfer_encoding_fast)
	int r = http_get_transfer_encoding_fast(http_hdr, hdr_size);
	VF_NATIVE_POST(r >= 0 && r < HTTP_REQ_TE__COUNT__, "coding code");
#endif
	VF_CANARY("http_line harness end");
}
