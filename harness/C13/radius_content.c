/* C13, route "bounded": content consistency of the RADIUS packet validator and the attribute
 * search on a packet of at most VF_N bytes (symbolic length, every byte symbolic and recorded
 * for replay; fixed-size array under CBMC, exact-size heap copy in the native replay), loops
 * fully unwound.  Plain harness: the real functions of include/proto/radius.h against an
 * independent index-arithmetic walk (spec_walk).
 *  - radius_pkt_chk accepts only packets whose attribute lengths sum exactly to the packet
 *    length (every attribute: type != 0, 2 <= len, inside the packet), with at most one
 *    Message-Authenticator, present when the packet is a Status-Server or carries an EAP-Message;
 *  - on an accepted packet radius_pkt_attr_find(pkt, 0, t) returns the FIRST attribute of type t
 *    of that walk, ENOATTR iff there is none; its value pointer/length is that attribute's.
 */
#include "contracts/radius.h"
#include <stdlib.h>
#include <string.h>
#include "proto/radius.h"

#ifndef VF_N
#define VF_N 32
#endif
size_t vf_rad_span;

struct spec_res { size_t n_attrs, n_ma, n_eap, first_off; int found; };

/* walk the attributes of m[20..len): 0 iff they tile the packet exactly */
static int
spec_walk(const uint8_t *m, size_t len, uint8_t want, struct spec_res *sr) {
	size_t off = 20;

	sr->n_attrs = 0; sr->n_ma = 0; sr->n_eap = 0; sr->first_off = 0; sr->found = 0;
	while (off != len) {
		if (len - off < 2)
			return (EBADMSG);
		uint8_t t = m[off], l = m[off + 1];
		if (t == 0 || l < 2 || l > len - off)
			return (EBADMSG);
		if (t == want && !sr->found) {
			sr->found = 1;
			sr->first_off = off;
		}
		if (t == 80)	/* Message-Authenticator */
			sr->n_ma ++;
		if (t == 79)	/* EAP-Message */
			sr->n_eap ++;
		sr->n_attrs ++;
		off += l;
	}
	return (0);
}

void harness(void) {
	VF_NONDET_BYTES(bytes, VF_N);
	VF_NONDET(size_t, pkt_size);
	VF_ASSUME(pkt_size <= VF_N);
	VF_NONDET(uint8_t, want);
#ifndef VF_REPLAY
	uint8_t *m = bytes.b;
#else
	uint8_t *m = malloc(pkt_size);
	memcpy(m, bytes.b, pkt_size);
#endif
	rad_pkt_hdr_p pkt = (rad_pkt_hdr_p)m;
	struct spec_res sr;
	size_t len, off = 0, dlen = 0;
	uint8_t *data = NULL, type = 0;
	int r, rs, rf, rd;

	r = radius_pkt_chk(pkt, pkt_size);
	if (r == 0) {
		len = VF_RAD_LEN(m);
		VF_ASSERT(len >= 20 && len <= pkt_size && len <= 4096, "pkt_chk: accepted length inside the received bytes");
		rs = spec_walk(m, len, want, &sr);
		VF_ASSERT(rs == 0, "pkt_chk: accepted => attribute lengths sum exactly to the packet length");
		VF_ASSERT(sr.n_ma <= 1, "pkt_chk: at most one Message-Authenticator");
		VF_ASSERT(sr.n_ma == 1 || (m[0] != 12 && sr.n_eap == 0), "pkt_chk: Message-Authenticator present when required");
		/* search on the accepted packet */
		rf = radius_pkt_attr_find(pkt, 0, want, &off);
		VF_ASSERT(rf == 0 || rf == VF_RAD_ENOATTR, "find: accepted packet => found or ENOATTR");
		VF_ASSERT((rf == 0) == (sr.found != 0), "find: found iff the walk contains the type");
		VF_ASSERT(rf != 0 || off == sr.first_off, "find: the first attribute of that type");
		if (rf == 0) {
			rd = radius_pkt_attr_get_data_ptr_raw(pkt, off, &type, &data, &dlen);
			VF_ASSERT(rd == 0 && type == want && data == m + off + 2 && dlen == (size_t)m[off + 1] - 2 &&
			    off + 2 + dlen <= len, "get_data_ptr_raw: the value of that attribute, inside the packet");
		}
	}
	VF_CANARY("radius content harness end");
}
