/* C13: include/proto/sap.h on a hostile datagram of symbolic size. -DVF_FN_<name>:
 *   is_valid                      sap_packet_is_valid, any packet
 *   get_payload                   sap_packet_get_payload, any packet (it takes pkt_size)
 *   get_payload (+VF_SAP_PAYLOAD_VALIDATED)  same, packet accepted by sap_packet_is_valid
 *   get_orig_src get_orig_src_type get_auth_data   size-less accessors on an accepted packet
 *   validated                     w_sap_validated(): validate, then call every accessor;
 *                                 callees replaced by their contracts (composition check)
 * libc memchr is replaced by the assumed contract of stubs/libc.h. */
#include "contracts/sap.h"
#include "stubs/libc.h"
#include <errno.h>
#include <string.h>
#include "proto/sap.h"

#ifndef VF_REPLAY
/* validate-then-access: what a SAP receiver does with a datagram */
int w_sap_validated(uint8_t *pkt, size_t pkt_size, uint8_t **src, uint8_t **auth, uint8_t **payload)
__CPROVER_requires(pkt_size <= VF_SAP_PKT_MAX)
__CPROVER_requires(pkt == NULL || VF_SAP_SPAN(pkt, pkt_size))
__CPROVER_requires(__CPROVER_is_fresh(src, sizeof(uint8_t *)))
__CPROVER_requires(__CPROVER_is_fresh(auth, sizeof(uint8_t *)))
__CPROVER_requires(__CPROVER_is_fresh(payload, sizeof(uint8_t *)))
__CPROVER_assigns(*src, *auth, *payload, vf_sap_pkt_size)
__CPROVER_ensures(__CPROVER_return_value == 0 || __CPROVER_return_value == 1)
__CPROVER_ensures(__CPROVER_return_value == 1 ==> (
    VF_INSIDE(*src, VF_SAP_ALEN(pkt), pkt, pkt_size) &&
    VF_INSIDE(*auth, VF_SAP_B(pkt, 1), pkt, pkt_size) &&
    VF_PTR_INSIDE(*payload, pkt, pkt_size) &&
    VF_OFF(*src) <= VF_OFF(*auth) && VF_OFF(*auth) <= VF_OFF(*payload)))
;
#endif
int w_sap_validated(uint8_t *pkt, size_t pkt_size, uint8_t **src, uint8_t **auth, uint8_t **payload) {
	if (0 == sap_packet_is_valid(pkt, pkt_size))
		return (0);
#ifndef VF_REPLAY
	vf_sap_pkt_size = pkt_size;
#endif
	(void)sap_packet_get_orig_src_type(pkt);
	(*src) = sap_packet_get_orig_src(pkt);
	(*auth) = sap_packet_get_auth_data(pkt);
	(*payload) = sap_packet_get_payload(pkt, pkt_size);
	return (1);
}

void harness(void) {
	VF_NONDET(size_t, pkt_size);
	VF_ASSUME(pkt_size <= VF_SAP_PKT_MAX);
#ifdef VF_REPLAY
	VF_FRESH_PTR_OPT(uint8_t, pkt, pkt_size);
#else
	/* the packet = the last pkt_size bytes of a constant-capacity object with symbolic content
	 * (see "Span model" in contracts/sap.h); NULL is an input as well */
	uint8_t vf_store[VF_SAP_PKT_MAX];
	VF_NONDET(uint8_t, pkt_is_null);
	uint8_t *pkt = pkt_is_null ? NULL : vf_store + (VF_SAP_PKT_MAX - pkt_size);
	vf_sap_pkt_size = pkt_size;
#endif
#if defined(VF_FN_is_valid)
	int r = sap_packet_is_valid(pkt, pkt_size);
	VF_NATIVE_POST((r == 1) == (pkt != NULL && VF_SAP_VALID(pkt, pkt_size)), "valid iff well formed");
#elif defined(VF_FN_get_payload)
#if defined(VF_REPLAY) && defined(VF_SAP_PAYLOAD_VALIDATED)
	VF_ASSUME(pkt == NULL || VF_SAP_VALID(pkt, pkt_size));
#endif
	uint8_t *p = sap_packet_get_payload(pkt, pkt_size);
	VF_NATIVE_POST(p == NULL || (p >= pkt && p <= pkt + pkt_size), "payload start inside the packet");
#elif defined(VF_FN_get_orig_src)
#ifdef VF_REPLAY
	VF_ASSUME(pkt == NULL || VF_SAP_VALID(pkt, pkt_size));
#endif
	uint8_t *p = sap_packet_get_orig_src(pkt);
	VF_NATIVE_POST(pkt == NULL || (p == pkt + 4 && p + VF_SAP_ALEN(pkt) <= pkt + pkt_size), "source inside the packet");
#elif defined(VF_FN_get_orig_src_type)
#ifdef VF_REPLAY
	VF_ASSUME(pkt == NULL || VF_SAP_VALID(pkt, pkt_size));
#endif
	(void)sap_packet_get_orig_src_type(pkt);
#elif defined(VF_FN_get_auth_data)
#ifdef VF_REPLAY
	VF_ASSUME(pkt == NULL || VF_SAP_VALID(pkt, pkt_size));
#endif
	uint8_t *p = sap_packet_get_auth_data(pkt);
	VF_NATIVE_POST(pkt == NULL || (p + VF_SAP_B(pkt, 1) <= pkt + pkt_size), "auth data inside the packet");
#elif defined(VF_FN_validated)
	VF_FRESH_PTR(uint8_t *, src, sizeof(uint8_t *));
	VF_FRESH_PTR(uint8_t *, auth, sizeof(uint8_t *));
	VF_FRESH_PTR(uint8_t *, payload, sizeof(uint8_t *));
	int r = w_sap_validated(pkt, pkt_size, src, auth, payload);
	VF_NATIVE_POST(r == 0 || (*src >= pkt && *src <= *auth && *auth <= *payload && *payload <= pkt + pkt_size),
	    "accessor results ordered inside the packet");
#else
#error "select a function with -DVF_FN_<name>"
#endif
	VF_CANARY("sap harness end");
}
