/* C13 / HTTP: whitespace helpers skip_spwsp, skip_spwsp2, wsp2sp, ht2sp.
 * Exact-size input span of symbolic unbounded length; -DVF_FN_<name> selects the function,
 * -DVF_HTTP_INPLACE the documented in-place use (ret_buf == buf). */
#include "contracts/http.h"
#include "src/proto/http.c"

void harness(void) {
	VF_NONDET(size_t, buf_size);
	VF_HTTP_BOUND(buf_size);
	VF_FRESH_PTR(uint8_t, buf, buf_size);
	VF_HTTP_EMPTY_SPAN(buf, buf_size);
#if defined(VF_FN_skip_spwsp) || defined(VF_FN_skip_spwsp2)
	const uint8_t *ret_store = NULL;
	size_t size_store = 0;
#ifdef VF_REPLAY
	VF_NONDET(uint8_t, want_ptr);
	VF_NONDET(uint8_t, want_size);
	const uint8_t **buf_ret = (want_ptr & 1) ? &ret_store : NULL;
	size_t *buf_size_ret = (want_size & 1) ? &size_store : NULL;
#else
	const uint8_t **buf_ret;	/* NULL or fresh: decided by the contract */
	size_t *buf_size_ret;
#endif
#if defined(VF_FN_skip_spwsp)
	int r = skip_spwsp(buf, buf_size, buf_ret, buf_size_ret);
#else
	int r = skip_spwsp2(buf, buf_size, buf_ret, buf_size_ret);
#endif
	VF_NATIVE_POST(r == 0, "return code");
	VF_NATIVE_POST(buf_ret == NULL || (*buf_ret >= buf && *buf_ret <= buf + buf_size), "pointer inside");
	VF_NATIVE_POST(buf_size_ret == NULL || *buf_size_ret <= buf_size, "length inside");
#else
	size_t size_store = 0;
#ifdef VF_REPLAY
	size_t *buf_size_ret = &size_store;
#else
	size_t *buf_size_ret;
#endif
#ifdef VF_HTTP_INPLACE
	uint8_t *ret_buf = buf;
#else
	VF_FRESH_PTR(uint8_t, ret_buf, buf_size);
#endif
#if defined(VF_FN_wsp2sp)
	int r = wsp2sp(buf, buf_size, ret_buf, buf_size_ret);
#else
	int r = ht2sp(buf, buf_size, ret_buf, buf_size_ret);
#endif
	VF_NATIVE_POST(r == 0 || r == EINVAL, "return code");
	VF_NATIVE_POST(r != 0 || *buf_size_ret <= buf_size, "length");
#endif
	VF_CANARY("http_ws harness end");
}
