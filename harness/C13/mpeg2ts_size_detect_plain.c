/* C13: mpeg2_ts_pkt_size_detect on a receive buffer of symbolic size ("mode":"plain", bounded).
 * The candidate-collecting loop over the buffer carries a loop contract
 * (loops/mpeg2ts_size_detect.json, applied WITHOUT --dfcc: invariant with a quantifier over the 64
 * slots of pkts[], assigns, decreases) and closes for any buffer size; the three nested analysis
 * loops (4 x cnt x cnt) and the final loop are fully unwound, which needs a bound on the number of
 * candidates cnt <= buf_size - 207: VF_TS_BUF_MAX = 210 gives cnt <= 3.
 * Why not --dfcc / why not unbounded: the function keeps up to 64 candidate pointers in a local
 * array; under --dfcc every pointer read back from that (loop-havocked) array may alias each object
 * of the contracts library (33 M clauses, no result in 15 min); with loop contracts on all five
 * loops the plain run does not finish either (> 15 min on every back end).
 * What replaces the --dfcc function contract here:
 *   requires -> buf is NULL or an exact-size heap object of symbolic size (malloc), the
 *               out-parameter NULL or a local
 *   ensures  -> asserted below (same text as the ensures clauses of contracts/mpeg2ts.h)
 *   assigns  -> loop assigns clause (checked) + exact-size objects
 * memchr: loop-free nondeterministic body = the assumed contract of stubs/libc.h (result NULL or
 * a position inside the span holding the byte; the span must be readable). */
#include "contracts/mpeg2ts.h"
#include <string.h>
#include <stdlib.h>
#ifndef VF_REPLAY
void *memchr(const void *s, int c, size_t n) {
	__CPROVER_precondition(n == 0 || __CPROVER_r_ok(s, n), "memchr: searched span is readable");
	size_t i = nondet_size_t();
	if (i >= n)
		return (NULL);
	__CPROVER_assume(((const unsigned char *)s)[i] == (unsigned char)c);
	return ((void *)((const unsigned char *)s + i));
}
#endif
#include "proto/mpeg2ts.h"

void harness(void) {
	VF_NONDET(size_t, buf_size);
	VF_ASSUME(buf_size <= VF_TS_BUF_MAX);
	VF_NONDET(size_t, psize0);
	VF_FRESH_PTR_OPT(uint8_t, buf, buf_size);
	VF_FRESH_PTR_OPT(size_t, psize, sizeof(size_t));
#ifndef VF_REPLAY
	size_t psize_store;
	buf = nondet_bool() ? NULL : malloc(buf_size);
	psize = nondet_bool() ? NULL : &psize_store;
#endif
	if (psize != NULL)
		*psize = psize0;
	int r = mpeg2_ts_pkt_size_detect(buf, buf_size, psize);
	VF_ASSERT(r == 0 || r == EINVAL, "postcondition: return code");
	VF_ASSERT(!(buf == NULL || buf_size < VF_TS_PKT_MIN || psize == NULL) || r == EINVAL,
	    "postcondition: EINVAL without buffer / out-parameter");
	VF_ASSERT(r != 0 || (VF_TS_IS_SIZE(*psize) && buf_size >= VF_TS_PKT_MAX),
	    "postcondition: detected size is a TS packet size and a candidate packet fitted");
	VF_ASSERT(r == 0 || psize == NULL || *psize == psize0, "postcondition: out-parameter untouched on error");
	VF_CANARY("mpeg2ts size_detect harness end");
}
