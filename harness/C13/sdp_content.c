/* C13 (content, bounded): sdp_msg_sec_chk accepts only texts made of printable ASCII, HT, CR, LF
 * (rule 3 of the function's own rule list).  Plain harness over a fixed-size symbolic array of
 * VF_N bytes with symbolic length <= VF_N, scan loop fully unwound; the six line counters
 * (sdp_msg_type_get_count) get a nondeterministic-return body (pre_instrument): their values do
 * not matter for rule 3.  "Every byte" = ghost index k. */
#include "contracts/sdp.h"
#include <string.h>
#include "proto/sdp.h"
#ifndef VF_N
#define VF_N 24
#endif

void harness(void) {
	VF_NONDET_BYTES(m, VF_N);
	VF_NONDET(size_t, n);
	VF_NONDET(size_t, k);
	VF_ASSUME(n <= VF_N);
	VF_ASSUME(k < n);
	int r = sdp_msg_sec_chk(m.b, n);
	VF_ASSERT(r != 0 || VF_SDP_ALLOWED(m.b[k]), "sdp_msg_sec_chk: accepted text has only printable ASCII / HT / CR / LF bytes");
	VF_CANARY("sdp content harness end");
}
