/* C13: rtp_payload_get on a hostile datagram of symbolic size (loop-free: finite in content,
 * unbounded in size). Contract contracts/rtp.h enforced against the real body. */
#include "contracts/rtp.h"
#include "proto/rtp.h"

void harness(void) {
	VF_NONDET(size_t, buf_size);
	VF_ASSUME(buf_size <= VF_RTP_PKT_MAX);
	VF_FRESH_PTR(uint8_t, buf, buf_size);
	VF_FRESH_PTR(size_t, start_off, sizeof(size_t));
	VF_FRESH_PTR(size_t, end_off, sizeof(size_t));
	int r = rtp_payload_get(buf, buf_size, start_off, end_off);
	VF_NATIVE_POST(r == 0 || r == EINVAL, "return code");
	VF_NATIVE_POST(r != 0 || (12 <= *start_off && *start_off <= buf_size &&
	    *end_off <= buf_size - *start_off), "payload inside the datagram");
	VF_CANARY("rtp_payload_get harness end");
}
