/* C13 / HTTP: header-field scanners http_hdr_val_get_ex, http_hdr_val_get,
 * http_hdr_val_get_count and the request security check http_req_sec_chk.
 * Exact-size header block of symbolic unbounded length; -DVF_FN_<name>. */
#include "contracts/http.h"
#include "src/proto/http.c"

void harness(void) {
	VF_NONDET(size_t, hdr_size);
	VF_HTTP_BOUND(hdr_size);
	VF_FRESH_PTR(uint8_t, http_hdr, hdr_size);
	VF_HTTP_EMPTY_SPAN(http_hdr, hdr_size);
#if defined(VF_FN_http_req_sec_chk)
	VF_NONDET(uint32_t, method_code);
	int r = http_req_sec_chk(http_hdr, hdr_size, method_code);
	VF_NATIVE_POST(r >= 0 && r <= 7, "return code");
#else
	VF_NONDET(size_t, val_name_size);
	VF_FRESH_PTR(uint8_t, val_name, val_name_size);
#if defined(VF_FN_http_hdr_val_get_count)
	size_t r = http_hdr_val_get_count(http_hdr, hdr_size, val_name, val_name_size);
	VF_NATIVE_POST(r <= hdr_size, "count bounded by the block size");
#else
	const uint8_t *val_store = NULL;
	size_t size_store = 0, off_store = 0;
#ifdef VF_REPLAY
	VF_NONDET(uint8_t, want);
	const uint8_t **val_ret = (want & 1) ? &val_store : NULL;
	size_t *val_ret_size = (want & 2) ? &size_store : NULL;
	size_t *offset_next = (want & 4) ? &off_store : NULL;
#else
	const uint8_t **val_ret;
	size_t *val_ret_size, *offset_next;
#endif
#if defined(VF_FN_http_hdr_val_get_ex)
	VF_NONDET(size_t, offset);
	int r = http_hdr_val_get_ex(http_hdr, hdr_size, val_name, val_name_size, offset,
	    val_ret, val_ret_size, offset_next);
	VF_NATIVE_POST(r != 0 || offset_next == NULL || (*offset_next > offset && *offset_next <= hdr_size),
	    "continuation offset");
#else
	int r = http_hdr_val_get(http_hdr, hdr_size, val_name, val_name_size, val_ret, val_ret_size);
#endif
	VF_NATIVE_POST(r == 0 || r == ESPIPE, "return code");
	VF_NATIVE_POST(r != 0 || val_ret == NULL || (*val_ret >= http_hdr && *val_ret <= http_hdr + hdr_size),
	    "value pointer inside the block");
	VF_NATIVE_POST(r != 0 || val_ret == NULL || val_ret_size == NULL || *val_ret_size == 0 ||
	    *val_ret + *val_ret_size <= http_hdr + hdr_size, "value span inside the block");
#endif
#endif
	VF_CANARY("http_hdr harness end");
}
