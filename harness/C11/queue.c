/* C11 (per-call fragment): acquire / release symmetry of the two building blocks of a thread record,
 * at every failure position of the ASSUMED resource contracts (stubs/sys_life.h):
 *   VF_PART 1: tpt_msg_queue_create / tpt_msg_queue_destroy  (src/threadpool/threadpool_msg_sys.c)
 *   VF_PART 2: tpt_data_init / tpt_data_uninit               (src/threadpool/threadpool.c)
 * "releases every descriptor ... and allocation it acquired"; "When a resource cannot be obtained ...
 * fails with an error and leaves nothing behind". Loop-free code, every input symbolic: complete for
 * one call sequence ("finite"). Plain harness (private structures). */
#include "vf/vf.h"
#include "stubs/sys_life.h"
#include "src/threadpool/threadpool.c"
#include "src/threadpool/threadpool_msg_sys.c"

void vf_thread_finished(void *arg) { (void)arg; }
void vf_other_threads_step(void) { }

void harness(void) {
	static tp_t tp;
	static tp_thread_t pvt, rec;
	VF_NONDET(uint32_t, sflags);
	VF_NONDET(uint32_t, qflags);
	VF_NONDET(int, dtablesize);
	VF_NONDET(uint8_t, no_faults);
	VF_NONDET(uint8_t, pvt_sel);		/* 0: pool has no virtual thread yet, 1: the record IS the virtual thread, 2: a worker */
	VF_NONDET(int, cpu_id);
	VF_NONDET(size_t, thread_num);
	VF_NONDET(uint8_t, null_sel);

	VF_ASSUME(dtablesize >= 0 && dtablesize <= (1 << 20));
	vf_no_faults = (no_faults != 0);
	tp.s.flags = sflags; tp.fd_count = (uintptr_t)dtablesize;

#if VF_PART == 1
	/* ---- message queue ---- */
	rec.tp = &tp;
	rec.io_fd = (uintptr_t)epoll_create1(0);
	VF_ASSUME(rec.io_fd != (uintptr_t)-1);		/* the owning thread's epoll descriptor exists */
	const int fds0 = vf_fds_open, faults0 = vf_faults;
	errno = 0;
	tpt_msg_queue_p q = tpt_msg_queue_create(&rec, qflags);
	if (q == NULL) {
		VF_ASSERT(errno != 0, "queue create failed: errno tells why (the caller returns it)");
		VF_ASSERT(vf_fds_open == fds0 && vf_allocs_live == 0 && vf_close_foreign == 0 && vf_free_foreign == 0,
		    "queue create failed: pipe closed, record freed, nothing released twice");
	} else {
		VF_ASSERT(vf_fds_open == fds0 + 2 && vf_allocs_live == 1, "queue: one pipe, one record");
		VF_ASSERT(vf_fd_open_p(q->fd[0]) && vf_fd_open_p(q->fd[1]) && q->fd[0] != q->fd[1], "queue: both pipe ends open");
		VF_ASSERT(vf_pipe2_flags == (O_NONBLOCK | ((qflags & TP_MSG_Q_F_CLOEXEC) ? O_CLOEXEC : 0)), "queue: non-blocking, close-on-exec iff requested");
		VF_ASSERT(q->udata.cb_func == tpt_msg_recv_and_process && q->udata.ident == (uintptr_t)q->fd[0] && q->udata.tpt == &rec,
		    "queue: read end handled by the message receiver on the owning thread");
		VF_ASSERT(vf_epctl_ok_calls >= 1 && vf_epctl_last_epfd == (int)rec.io_fd && vf_epctl_last_fd == q->fd[0] &&
		    vf_epctl_last_ptr == (void *)&q->udata && (vf_epctl_last_events & EPOLLIN) != 0 &&
		    (vf_epctl_last_events & EPOLLONESHOT) == 0, "queue: read end registered, persistent, with the thread's epoll");
		VF_ASSERT((size_t)dtablesize > (size_t)q->fd[0], "queue: only descriptors below the table size are accepted");
		tpt_msg_queue_destroy(q);
		VF_ASSERT(vf_fds_open == fds0 && vf_allocs_live == 0 && vf_close_foreign == 0 && vf_free_foreign == 0 && vf_close_neg == 0,
		    "queue destroy: both pipe ends closed once, record freed once");
	}
	VF_ASSERT(!(vf_no_faults && dtablesize >= VF_FD_BASE + VF_FD_MAX) || q != NULL, "queue create succeeds when resources are available");
	{
		const int c0 = vf_close_calls;
		tpt_msg_queue_destroy(NULL);
		VF_ASSERT(vf_close_calls == c0 && vf_free_foreign == 0, "queue destroy(NULL): no effect");
	}
#else
	/* ---- thread record ---- */
	VF_NONDET_BYTES(garbage, sizeof(tp_thread_t));	/* tpt_data_init receives uninitialised storage */
	memcpy(&rec, garbage.b, sizeof(rec));
	if (pvt_sel == 0) tp.pvt = NULL;
	else if (pvt_sel == 1) tp.pvt = &rec;
	else {
		tp.pvt = &pvt; pvt.tp = &tp;
		pvt.io_fd = (uintptr_t)epoll_create1(0);
		VF_ASSUME(pvt.io_fd != (uintptr_t)-1);	/* the virtual thread exists already */
	}
	const int fds0 = vf_fds_open;
	tp_p a_tp = (null_sel == 1) ? NULL : &tp;
	tpt_p a_rec = (null_sel == 2) ? NULL : &rec;
	int r = tpt_data_init(a_tp, cpu_id, thread_num, a_rec);
	if (a_tp == NULL || a_rec == NULL) {
		VF_ASSERT(r == EINVAL && vf_fds_open == fds0 && vf_allocs_live == 0, "thread record: NULL argument refused, nothing acquired");
	} else if (r != 0) {
		VF_ASSERT(vf_fds_open == fds0 && vf_allocs_live == 0 && vf_close_foreign == 0 && vf_free_foreign == 0,
		    "thread record init failed: every descriptor and allocation released, nothing released twice");
		VF_ASSERT(rec.tp == NULL && rec.msg_queue == NULL && rec.state == TP_THREAD_STATE_STOP, "thread record init failed: record cleared");
		{
			const int c0 = vf_close_calls;
			tpt_data_uninit(&rec);		/* what tp_destroy does with every record afterwards */
			VF_ASSERT(vf_close_calls == c0 && vf_fds_open == fds0, "a record whose init failed is not released a second time");
		}
	} else {
		tpt_msg_queue_p q = (tpt_msg_queue_p)rec.msg_queue;
		VF_ASSERT(vf_fds_open == fds0 + 3 && vf_allocs_live == 1, "thread record: epoll descriptor, pipe, queue record - nothing else");
		VF_ASSERT(rec.tp == &tp && rec.cpu_id == cpu_id && rec.thread_num == thread_num && rec.state == TP_THREAD_STATE_STOP &&
		    rec.tick_cnt == 0, "thread record: fields set, not running");
		VF_ASSERT(vf_fd_open_p((int)rec.io_fd) && q != NULL && vf_fd_open_p(q->fd[0]) && vf_fd_open_p(q->fd[1]), "thread record: descriptors open");
		VF_ASSERT(vf_epcreate_flags == ((sflags & TP_S_F_CLOEXEC) ? EPOLL_CLOEXEC : 0) &&
		    vf_pipe2_flags == (O_NONBLOCK | ((sflags & TP_S_F_CLOEXEC) ? O_CLOEXEC : 0)), "thread record: close-on-exec iff requested");
		VF_ASSERT((pvt_sel >= 2) == (vf_epctl_ok_calls == 2), "worker (and only a worker) also watches the virtual thread's descriptor");
		if (pvt_sel >= 2)
			VF_ASSERT(vf_epctl_last_epfd == (int)rec.io_fd && vf_epctl_last_fd == (int)pvt.io_fd && vf_epctl_last_ptr == (void *)&rec.pvt_udata &&
			    (vf_epctl_last_events & EPOLLIN) != 0, "worker: virtual thread's descriptor registered for reading");
		tpt_data_uninit(&rec);
		VF_ASSERT(vf_fds_open == fds0 && vf_allocs_live == 0 && vf_close_foreign == 0 && vf_free_foreign == 0 && vf_close_neg == 0,
		    "thread record uninit: everything released exactly once");
		VF_ASSERT(rec.tp == NULL && rec.msg_queue == NULL && rec.io_fd == 0, "thread record uninit: record cleared");
		{
			const int c0 = vf_close_calls;
			tpt_data_uninit(&rec);
			VF_ASSERT(vf_close_calls == c0, "thread record uninit twice: the second call releases nothing");
		}
	}
	VF_ASSERT(!(vf_no_faults && null_sel != 1 && null_sel != 2 && dtablesize >= VF_FD_BASE + VF_FD_MAX) || r == 0,
	    "thread record init succeeds when resources are available");
	{
		const int c0 = vf_close_calls;
		tpt_data_uninit(NULL);
		VF_ASSERT(vf_close_calls == c0, "thread record uninit(NULL): no effect");
	}
#endif
	VF_CANARY("queue harness end");
}
