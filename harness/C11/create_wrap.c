/* C11 (per-call fragment): tp_create with a thread count for which the size of the pool record,
 * sizeof(tp_t) + (threads_max + 1) * sizeof(tp_thread_t), does not fit size_t ("for all thread counts
 * and settings"): such a pool cannot exist, so the call has to fail and leave nothing behind; every
 * access of tp_create has to stay inside the storage it obtained (cbmc's pointer checks).
 * VF_WRAP 1: threads_max == SIZE_MAX (threads_max + 1 == 0); 2: the smallest count whose product wraps.
 * Concrete counts (one job each): a symbolic count makes the pool a symbolic-size object. */
#include "harness/C11/common.c"

void harness(void) {
	tp_settings_t s;
	VF_NONDET(uint32_t, sflags);
	VF_NONDET(uint8_t, have_hooks);
	tp_p out = NULL;
	memset(&s, 0, sizeof(s));
	s.flags = sflags;
#if VF_WRAP == 1
	s.threads_max = SIZE_MAX;
#else
	s.threads_max = SIZE_MAX / sizeof(tp_thread_t);
#endif
	s.tpt_on_start = have_hooks ? vf_on_start : NULL; s.tpt_on_stop = have_hooks ? vf_on_stop : NULL;
	vf_sysconf_val = 4; vf_dtablesize = 1024; vf_no_faults = 0; vf_current_tpt = NULL;

	int r = tp_create(&s, &out);

	VF_ASSERT(r != 0 && out == NULL, "tp_create: a thread count whose record size does not fit size_t is refused");
	VF_ASSERT(vf_fds_open == 0 && vf_allocs_live == 0 && vf_close_foreign == 0 && vf_free_foreign == 0, "refused tp_create leaves nothing behind");
	VF_ASSERT(vf_on_start_calls == vf_on_stop_calls, "refused tp_create: hooks balanced");
	VF_CANARY("create_wrap harness end");
}
