/* C11 (sequential fragment): the body of one pool thread, tp_thread_proc of src/threadpool/threadpool.c
 * (VF_PART 1: called as the start routine; VF_PART 2: through tp_thread_attach_first), with the real
 * tpt_loop beneath it and a stub epoll_wait that reports nothing and asks the thread to leave its loop
 * (as the shutdown message does) - or fails. From the property text: "runs the start and stop hooks
 * exactly once per thread": the start hook runs once, on this thread, after the thread is registered
 * and before the first wait; the stop hook runs once, after the last wait; afterwards the thread is
 * accounted as stopped. Loop bound: the dispatcher loop runs at most two waits (stub), stated. */
#include "harness/C11/common.c"

void harness(void) {
	VF_NONDET(uint8_t, data_null);
	VF_NONDET(uint8_t, have_start);
	VF_NONDET(uint8_t, have_stop);
	VF_NONDET(int, cpu_id);
	VF_NONDET(size_t, cnt0);
	VF_NONDET(int, wait_ret);
	VF_NONDET(size_t, stop_value);
	VF_NONDET(size_t, st0);
	VF_NONDET(size_t, shutdown);
	VF_NONDET_BYTES(name, TP_NAME_SIZE);
	tp_p tp = vf_pool_new();
	tpt_p tpt = &tp->threads[0];
	size_t i;

	tp->s.threads_max = VF_TMAX; tp->pvt = &tp->threads[VF_TMAX];
	memcpy(tp->s.name, name.b, TP_NAME_SIZE);
	tp->s.tpt_on_start = have_start ? vf_on_start : NULL; tp->s.tpt_on_stop = have_stop ? vf_on_stop : NULL;
	for (i = 0; i <= VF_TMAX; i ++) { tp->threads[i].tp = tp; tp->threads[i].thread_num = i; tp->threads[i].io_fd = 50 + i; }
	tp->pvt->state = TP_THREAD_STATE_RUNNING;
	tp->threads_cnt = cnt0; tpt->cpu_id = cpu_id;
	VF_ASSUME(cnt0 < VF_TMAX);			/* the other workers that are running already */
	VF_ASSUME(wait_ret == 0 || wait_ret == -1);	/* nothing to dispatch (one dispatch: C06 loop_iter) */
	VF_ASSUME(stop_value != TP_THREAD_STATE_RUNNING);	/* what the shutdown message / detach stores */
	vf_ew_ret = wait_ret; vf_ew_state_to_stop = &tpt->state; vf_ew_stop_value = stop_value;
	vf_current_tpt = NULL;
	tp_tls_key_tpt_error = 0; tp_tls_key_tpt = 1;	/* tp_init() succeeded (tp_create did it) */

#if VF_PART == 1
	tpt->state = TP_THREAD_STATE_STARTING;		/* as tp_threads_create leaves it */
	void *ret = tp_thread_proc(data_null ? NULL : tpt);
	VF_ASSERT(ret == NULL, "thread routine returns NULL");
	const _Bool ran = !data_null;
#else
	tpt->state = st0; tp->shutdown = shutdown;
	int r = tp_thread_attach_first(data_null ? NULL : tp);
	const _Bool ran = !data_null && shutdown == 0 && st0 == TP_THREAD_STATE_STOP;
	VF_ASSERT(r == (data_null ? EINVAL : (shutdown != 0) ? EBUSY : (st0 != TP_THREAD_STATE_STOP) ? ESPIPE : 0), "attach_first: result");
#endif
	if (!ran) {
		VF_ASSERT(vf_on_start_calls == 0 && vf_on_stop_calls == 0 && vf_ew_calls == 0 && tp->threads_cnt == cnt0, "not run: no hook, no wait, not counted");
	} else {
		VF_ASSERT(vf_on_start_calls == (have_start ? 1 : 0), "start hook: exactly once");
		VF_ASSERT(vf_on_stop_calls == (have_stop ? 1 : 0), "stop hook: exactly once");
		if (have_start)
			VF_ASSERT(vf_on_start_tpt == tpt && vf_on_start_state == TP_THREAD_STATE_RUNNING && vf_on_start_ew == 0 &&
			    vf_on_start_thr_cnt == cnt0 + 1 && vf_on_start_cur == (void *)tpt,
			    "start hook: on this thread's record, running, counted, current-thread lookup works, before the first wait");
		if (have_stop)
			VF_ASSERT(vf_on_stop_tpt == tpt && vf_on_stop_ew == vf_ew_calls && vf_ew_calls >= 1 && vf_on_stop_starts == vf_on_start_calls &&
			    vf_on_stop_cur == (void *)tpt, "stop hook: on this thread's record, after the last wait, after the start hook");
		VF_ASSERT(vf_ew_calls <= 2, "leaves the loop as soon as it is asked to");
		VF_ASSERT(tpt->state == TP_THREAD_STATE_STOP && tp->threads_cnt == cnt0, "afterwards: accounted as stopped");
#if VF_PART == 2
		VF_ASSERT(tpt->pt_id == 0, "attach_first: the caller's own thread id is not left behind as a thread to join");
#endif
		VF_ASSERT(vf_setspecific_calls == 2 && vf_setspecific_first == (const void *)tpt && vf_setspecific_last == NULL && vf_current_tpt == NULL,
		    "current-thread lookup: set to this record while running, cleared at exit");
		VF_ASSERT(tp->pvt->state == TP_THREAD_STATE_RUNNING && tp->threads[1].state == TP_THREAD_STATE_STOP, "other records untouched");
	}
	VF_ASSERT(vf_close_calls == 0 && vf_allocs_live == 0 && vf_pcreate_calls == 0, "a thread body opens, closes and creates nothing");
	VF_CANARY("thread_proc harness end");
}
