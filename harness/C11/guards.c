/* C11 (per-call fragment): the guards of the life-cycle entry points of src/threadpool/threadpool.c on
 * a pool in ANY state (every field of the hand-built pool record that the guards look at is symbolic):
 *   tp_shutdown_wait / tp_destroy called from a thread of the same pool => EDEADLK and NO side effect
 *   (the deadlock guard of the property); NULL => EINVAL; tp_shutdown_wait before shutdown => EBUSY;
 *   tp_threads_create / tp_thread_attach_first on NULL / after shutdown / on a started first thread:
 *   refused without creating a thread or running a hook; tp_shutdown(NULL) no effect.
 * The refusing paths are loop-free: complete for one call ("finite"). VF_PART selects the entry point. */
#include "harness/C11/common.c"

void harness(void) {
	VF_NONDET(uint8_t, tp_null);
	VF_NONDET(size_t, shutdown);
	VF_NONDET(uint8_t, cur_sel);		/* caller: 0 = not a pool thread, 1 = thread of another pool, 2.. = record (cur_sel - 2) of this pool */
	VF_NONDET(size_t, st0);
	VF_NONDET(size_t, st1);
	VF_NONDET(size_t, stp);
	VF_NONDET(uint8_t, have_hooks);
	VF_NONDET(int, skip_first);
	tp_p tp = vf_pool_new();
	size_t i;

	VF_ASSUME(cur_sel <= 2 + VF_TMAX);
	tp->s.threads_max = VF_TMAX; tp->pvt = &tp->threads[VF_TMAX]; tp->shutdown = shutdown;
	tp->s.tpt_on_start = have_hooks ? vf_on_start : NULL; tp->s.tpt_on_stop = have_hooks ? vf_on_stop : NULL;
	for (i = 0; i <= VF_TMAX; i ++) { tp->threads[i].tp = tp; tp->threads[i].thread_num = i; tp->threads[i].pt_id = (pthread_t)(VF_THR_ID_BASE + i); }
	tp->threads[0].state = st0; tp->threads[1].state = st1; tp->pvt->state = stp;
	vf_other_tpt.tp = &vf_other_tp;
	vf_current_tpt = (cur_sel == 0) ? NULL : (cur_sel == 1) ? (void *)&vf_other_tpt : (void *)&tp->threads[cur_sel - 2];
	const _Bool in_pool = (cur_sel >= 2);
	tp_p arg = tp_null ? NULL : tp;
	int r = 0;

#if VF_PART == 1
	r = tp_shutdown_wait(arg);
	if (tp_null) VF_ASSERT(r == EINVAL, "tp_shutdown_wait(NULL): EINVAL");
	else if (shutdown == 0) VF_ASSERT(r == EBUSY, "tp_shutdown_wait before tp_shutdown: EBUSY");
	else if (in_pool) VF_ASSERT(r == EDEADLK, "tp_shutdown_wait from a thread of the pool: EDEADLK");
	if (tp_null || shutdown == 0 || in_pool) {
#elif VF_PART == 2
	r = tp_destroy(arg);
	if (tp_null) VF_ASSERT(r == EINVAL, "tp_destroy(NULL): EINVAL");
	else if (in_pool) VF_ASSERT(r == EDEADLK, "tp_destroy from a thread of the pool: EDEADLK");
	if (tp_null || in_pool) {
#elif VF_PART == 3
	r = tp_threads_create(arg, skip_first);
	if (tp_null) VF_ASSERT(r == EINVAL, "tp_threads_create(NULL): EINVAL");
	else if (shutdown != 0) VF_ASSERT(r == EBUSY, "tp_threads_create after shutdown: EBUSY");
	if (tp_null || shutdown != 0) {
#elif VF_PART == 4
	if (!tp_null && shutdown == 0 && st0 == TP_THREAD_STATE_STOP) {	/* would run the thread: see thread_proc.c */
		tp_null = 1; arg = NULL;
	}
	r = tp_thread_attach_first(arg);
	if (tp_null) VF_ASSERT(r == EINVAL, "tp_thread_attach_first(NULL): EINVAL");
	else if (shutdown != 0) VF_ASSERT(r == EBUSY, "tp_thread_attach_first after shutdown: EBUSY");
	else VF_ASSERT(r == ESPIPE, "tp_thread_attach_first when the first thread was started already: refused");
	{
#else
	tp_shutdown(NULL);
	{
#endif
		/* ---- refused: no side effect at all ---- */
		VF_ASSERT(tp->shutdown == shutdown && tp->threads[0].state == st0 && tp->threads[1].state == st1 && tp->pvt->state == stp &&
		    tp->threads_cnt == 0, "refused call: pool state untouched");
		VF_ASSERT(vf_on_start_calls == 0 && vf_on_stop_calls == 0, "refused call: no hook runs");
		VF_ASSERT(vf_close_calls == 0 && vf_join_calls == 0 && vf_pcreate_calls == 0 && vf_write_calls == 0 && vf_nanosleep_calls == 0 &&
		    vf_free_foreign == 0 && vf_allocs_live == 0, "refused call: nothing closed, joined, created, sent or freed");
		VF_ASSERT(tp->threads[0].tp == tp && tp->threads[1].tp == tp && tp->pvt->tp == tp, "refused call: thread records untouched");
	}
	VF_CANARY("guards harness end");
}
