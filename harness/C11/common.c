/* Shared by the C11 harnesses (not a job by itself): the two real translation units, hook counters,
 * and a hand-built pool record for the harnesses that start from "some pool in some state". */
#include "vf/vf.h"
#include "stubs/sys_life.h"
#include "src/threadpool/threadpool.c"
#include "src/threadpool/threadpool_msg_sys.c"

#ifndef VF_TMAX
#define VF_TMAX 2
#endif

/* hooks: counters plus a snapshot of what the hook could observe */
static int vf_on_start_calls, vf_on_stop_calls;
static tpt_p vf_on_start_tpt, vf_on_stop_tpt;
static size_t vf_on_start_state, vf_on_start_thr_cnt;
static int vf_on_start_ew, vf_on_stop_ew, vf_on_stop_starts, vf_on_start_fds, vf_on_stop_fds;
static void *vf_on_start_cur, *vf_on_stop_cur;
static void vf_on_start(tpt_p tpt) {
	vf_on_start_calls ++; vf_on_start_tpt = tpt; vf_on_start_state = tpt->state; vf_on_start_ew = vf_ew_calls;
	vf_on_start_cur = vf_current_tpt; vf_on_start_fds = vf_fds_open;
	vf_on_start_thr_cnt = (tpt->tp != NULL) ? tpt->tp->threads_cnt : 0;
}
static void vf_on_stop(tpt_p tpt) {
	vf_on_stop_calls ++; vf_on_stop_tpt = tpt; vf_on_stop_ew = vf_ew_calls; vf_on_stop_starts = vf_on_start_calls;
	vf_on_stop_cur = vf_current_tpt; vf_on_stop_fds = vf_fds_open;
}
/* a joined thread has run tp_thread_proc to its end (assumed: see stubs/sys_life.h) */
void vf_thread_finished(void *arg) { tpt_p tpt = arg; tpt->state = TP_THREAD_STATE_STOP; }
void vf_other_threads_step(void) { }

static tp_t vf_other_tp;		/* some other pool, whose thread may be the caller */
static tp_thread_t vf_other_tpt;

/* a pool record with VF_TMAX workers + the virtual thread, in dynamic storage as tp_create makes it
 * (CBMC's own malloc: not counted by the allocation ledger) */
static tp_p vf_pool_new(void) {
	tp_p tp = malloc(sizeof(tp_t) + (VF_TMAX + 1) * sizeof(tp_thread_t));
	__CPROVER_assume(tp != NULL);
	memset(tp, 0, sizeof(tp_t) + (VF_TMAX + 1) * sizeof(tp_thread_t));
	return (tp);
}

/* target for --restrict-function-pointer at the dispatcher's callback site (never reached in these harnesses) */
static void vf_noop_cb(tp_event_p ev, tp_udata_p ud) { (void)ev; (void)ud; }
tp_cb vf_noop_cb_ref = vf_noop_cb;
