/* C11 (per-call / sequential fragment): tp_create of src/threadpool/threadpool.c (Linux branch) with
 * the real tpt_data_init / tpt_data_uninit / tp_destroy / tp_shutdown / tp_shutdown_wait and the real
 * tpt_msg_queue_create / tpt_msg_queue_destroy of threadpool_msg_sys.c beneath it, against the ASSUMED
 * resource contracts of stubs/sys_life.h: pthread_key_create, calloc, epoll_create1, pipe2, epoll_ctl
 * may each fail at ANY call. Property text: "When a resource cannot be obtained during creation the
 * call fails with an error and leaves nothing behind", "runs the start and stop hooks exactly once per
 * thread including the virtual thread".
 * Every input symbolic; bound: threads_max (or, when it is 0, the CPU count that replaces it) <= 2.
 * Plain harness (tp_t / tp_thread_t / tpt_msg_queue_t are private to the .c files). */
#include "vf/vf.h"
#include "stubs/sys_life.h"
#include "src/threadpool/threadpool.c"
#include "src/threadpool/threadpool_msg_sys.c"

#ifndef VF_TMAX
#define VF_TMAX 2
#endif
#ifndef VF_TM_FROM_CPUS
#define VF_TM_FROM_CPUS 0
#endif

static int vf_on_start_calls, vf_on_stop_calls;
static tpt_p vf_on_start_tpt, vf_on_stop_tpt;
static size_t vf_on_start_state;
static int vf_on_start_fds, vf_on_stop_starts;
static void vf_on_start(tpt_p tpt) {
	vf_on_start_calls ++; vf_on_start_tpt = tpt; vf_on_start_state = tpt->state; vf_on_start_fds = vf_fds_open;
}
static void vf_on_stop(tpt_p tpt) {
	vf_on_stop_calls ++; vf_on_stop_tpt = tpt; vf_on_stop_starts = vf_on_start_calls;
}
void vf_thread_finished(void *arg) { tpt_p tpt = arg; tpt->state = TP_THREAD_STATE_STOP; }
void vf_other_threads_step(void) { }

static tp_t vf_other_tp;		/* some other pool, whose thread may be the caller */
static tp_thread_t vf_other_tpt;
static char vf_sentinel;

void harness(void) {
	tp_settings_t s;
	VF_NONDET(uint32_t, sflags);
#if VF_TM_FROM_CPUS
	/* thread count taken from the CPU count: settings NULL (defaults), or threads_max == 0 */
	VF_NONDET(uint8_t, s_null);
	const size_t threads_max = 0;
#else
	const uint8_t s_null = 0;
	const size_t threads_max = VF_TMAX;	/* concrete on purpose: a symbolic count makes the pool a symbolic-size object that cbmc cannot handle */
#endif
	VF_NONDET(uint8_t, ptp_null);
	VF_NONDET(uint8_t, have_start);
	VF_NONDET(uint8_t, have_stop);
	VF_NONDET(uint8_t, inited);		/* tp_init() already succeeded earlier */
	VF_NONDET(uint8_t, from_other_pool);	/* the caller is a thread of another pool */
	VF_NONDET(uint8_t, no_faults);
	VF_NONDET(long, ncpu);
	VF_NONDET(int, dtablesize);
	VF_NONDET(size_t, k);			/* ghost index of a thread record */
	VF_NONDET_BYTES(name, TP_NAME_SIZE);
	tp_p out = (tp_p)(void *)&vf_sentinel;
	size_t n;

#if VF_TM_FROM_CPUS
	ncpu = VF_TMAX;				/* concrete, see above */
#else
	VF_ASSUME(ncpu == -1 || (ncpu >= 1 && ncpu <= 1024));
#endif
	VF_ASSUME(dtablesize >= 0 && dtablesize <= (1 << 20));
	memset(&s, 0, sizeof(s));
	s.flags = sflags; s.threads_max = threads_max;
	memcpy(s.name, name.b, TP_NAME_SIZE);
	s.tpt_on_start = have_start ? vf_on_start : NULL;
	s.tpt_on_stop = have_stop ? vf_on_stop : NULL;
	/* effective thread count: settings, else the CPU count, else 1 */
	n = s_null ? 0 : threads_max;
	if (n == 0) n = (ncpu == -1) ? 1 : (size_t)ncpu;
	VF_ASSERT(n == VF_TMAX, "harness: effective thread count");	/* THE BOUND: one job per thread count */
	vf_sysconf_val = ncpu; vf_dtablesize = dtablesize;
	vf_no_faults = (no_faults != 0);
	vf_other_tpt.tp = &vf_other_tp;
	vf_current_tpt = from_other_pool ? (void *)&vf_other_tpt : NULL;
	if (inited) { tp_tls_key_tpt_error = 0; tp_tls_key_tpt = 1; }

	int r = tp_create(s_null ? NULL : &s, ptp_null ? NULL : &out);

	_Bool hooks_start = !s_null && have_start, hooks_stop = !s_null && have_stop;
	/* observations recorded next to the inputs (known_findings "when" clauses classify a failure by them) */
	__CPROVER_input("obs_result", r);
	__CPROVER_input("obs_on_start_calls", vf_on_start_calls);
	__CPROVER_input("obs_on_stop_calls", vf_on_stop_calls);
	if (r != 0) {
		/* ---- "fails with an error and leaves nothing behind" ---- */
		VF_ASSERT(vf_fds_open == 0, "failed tp_create: every descriptor it obtained is closed again");
		VF_ASSERT(vf_allocs_live == 0, "failed tp_create: every allocation it made is freed again");
		VF_ASSERT(vf_close_foreign == 0 && vf_free_foreign == 0,
		    "failed tp_create: nothing is released twice, nothing foreign is released");
		VF_ASSERT(out == (tp_p)(void *)&vf_sentinel, "failed tp_create: *ptp untouched");
		VF_ASSERT(vf_thr_cnt == 0 && vf_write_calls == 0, "failed tp_create: no thread, no message");
		VF_ASSERT(vf_on_start_calls <= 1 && vf_on_stop_calls <= 1, "failed tp_create: no hook runs twice");
		VF_ASSERT(!hooks_start || !hooks_stop || vf_on_stop_calls == vf_on_start_calls,
		    "failed tp_create: the stop hook runs iff the start hook ran (virtual thread)");
		VF_ASSERT(vf_on_stop_calls == 0 || !hooks_start || (vf_on_stop_starts == 1 && vf_on_stop_tpt == vf_on_start_tpt),
		    "failed tp_create: the stop hook follows the start hook of the same thread");
	} else {
		/* ---- success: *ptp is a well-formed pool ---- */
		tp_p tp = out;
		VF_ASSERT(!ptp_null && tp != NULL && tp != (tp_p)(void *)&vf_sentinel, "tp_create: pool handed out");
		VF_ASSERT(tp->s.threads_max == n && tp->pvt == &tp->threads[n] && tp->shutdown == 0 &&
		    tp->threads_cnt == 0, "tp_create: thread count, virtual thread slot, not shut down");
		VF_ASSERT(tp->fd_count == (uintptr_t)dtablesize, "tp_create: descriptor limit recorded");
		VF_ASSERT(s_null || (tp->s.flags == sflags && tp->s.tpt_on_start == s.tpt_on_start &&
		    tp->s.tpt_on_stop == s.tpt_on_stop), "tp_create: settings copied");
		VF_ASSERT(vf_fds_open == (int)(3 * (n + 1)), "tp_create: one epoll descriptor and one pipe per thread record, nothing else");
		VF_ASSERT(vf_allocs_live == (int)(n + 2), "tp_create: the pool and one queue per thread record, nothing else");
		VF_ASSERT(vf_close_foreign == 0 && vf_free_foreign == 0, "tp_create: nothing foreign released");
		VF_ASSERT(vf_thr_cnt == 0 && vf_write_calls == 0, "tp_create: starts no thread, sends no message");
		VF_ASSUME(k <= n);
		tpt_p t = &tp->threads[k];
		tpt_msg_queue_p q = (tpt_msg_queue_p)t->msg_queue;
		VF_ASSERT(t->tp == tp && t->thread_num == k, "thread record: owner and number");
		VF_ASSERT(t->state == ((k == n) ? TP_THREAD_STATE_RUNNING : TP_THREAD_STATE_STOP),
		    "thread record: virtual thread running, workers not started");
		VF_ASSERT(vf_fd_open_p((int)t->io_fd), "thread record: open epoll descriptor");
		VF_ASSERT(q != NULL && vf_fd_open_p(q->fd[0]) && vf_fd_open_p(q->fd[1]) && q->fd[0] != q->fd[1] &&
		    q->fd[0] != (int)t->io_fd && q->fd[1] != (int)t->io_fd, "thread record: message pipe, descriptors distinct");
		VF_ASSERT(q->udata.ident == (uintptr_t)q->fd[0] && q->udata.tpt == t &&
		    q->udata.cb_func == tpt_msg_recv_and_process && (q->udata.tpdata & TPDATA_F_DISABLED) == 0,
		    "thread record: read end registered for the message receiver on the owning thread");
		if (k == n) VF_ASSERT(t->cpu_id == -1, "virtual thread: not bound");
		else VF_ASSERT((tp->s.flags & TP_S_F_BIND2CPU) ? (t->cpu_id >= 0 && (size_t)t->cpu_id < tp->cpu_count) : t->cpu_id == -1,
		    "worker: bound to an existing CPU iff binding requested");
		if (k < n) VF_ASSERT(t->pvt_udata.ident == tp->pvt->io_fd && t->pvt_udata.tpt == t && t->pvt_udata.cb_func == NULL,
		    "worker: watches the virtual thread's epoll descriptor");
		VF_ASSERT(vf_epctl_ok_calls == (int)(2 * n + 1), "tp_create: one pipe per record and the virtual thread per worker registered with epoll");
		VF_ASSERT(vf_epcreate_flags == ((tp->s.flags & TP_S_F_CLOEXEC) ? EPOLL_CLOEXEC : 0) &&
		    vf_pipe2_flags == (O_NONBLOCK | ((tp->s.flags & TP_S_F_CLOEXEC) ? O_CLOEXEC : 0)), "tp_create: close-on-exec iff requested");
		VF_ASSERT(vf_on_start_calls == (hooks_start ? 1 : 0) && vf_on_stop_calls == 0,
		    "tp_create: start hook of the virtual thread exactly once, no stop hook");
		VF_ASSERT(!hooks_start || (vf_on_start_tpt == tp->pvt && vf_on_start_state == TP_THREAD_STATE_RUNNING &&
		    vf_on_start_fds == 3), "tp_create: start hook sees the initialised, running virtual thread");
	}
	VF_ASSERT(!(vf_no_faults && !ptp_null && dtablesize >= VF_FD_BASE + VF_FD_MAX) || r == 0,
	    "tp_create: succeeds when every resource is available");
	VF_ASSERT(!(ptp_null && (inited || vf_no_faults)) || r == EINVAL, "tp_create: NULL result pointer is EINVAL");
	VF_CANARY("create harness end");
}
