/* C11 (sequential fragment): one sequential pass through the life cycle with the real code of
 * src/threadpool/threadpool.c + threadpool_msg_sys.c and NO concurrency (threads are entries of a ghost
 * table; a successful pthread_join means "that thread ran tp_thread_proc to its end"):
 *   VF_PART 1: tp_create (resources available) ; tp_threads_create (pthread_create may fail at any call) ;
 *              tp_destroy from outside the pool (write / pthread_join may fail)
 *   VF_PART 2: the same start, then tp_shutdown ; tp_shutdown (repeated) ; tp_threads_create (refused) ;
 *              tp_shutdown_wait ; tp_destroy : hooks and messages are not doubled
 * From the property text: "runs the start and stop hooks exactly once per thread including the
 * virtual thread", "releases every descriptor, thread and allocation it acquired", failure of thread
 * creation for every k is an error of the creating call.
 * Bound: threads_max == VF_TMAX (jobs for 1 and 2); at most one EAGAIN answer of pthread_create per run. */
#include "harness/C11/common.c"

void harness(void) {
	tp_settings_t s;
	VF_NONDET(uint32_t, sflags);
	const size_t threads_max = VF_TMAX;	/* concrete on purpose (one job per thread count): a symbolic count makes the pool a symbolic-size object */
	VF_NONDET(uint8_t, have_start);
	VF_NONDET(uint8_t, have_stop);
	VF_NONDET(uint8_t, from_other_pool);
	VF_NONDET(int, skip_first);
	VF_NONDET(uint8_t, eagain);
	VF_NONDET(size_t, k);			/* ghost index of a worker */
	tp_p tp = NULL;
	size_t i, starting = 0;

	VF_ASSUME(eagain <= 1);
	memset(&s, 0, sizeof(s));
	s.flags = sflags; s.threads_max = threads_max;
	s.tpt_on_start = have_start ? vf_on_start : NULL;
	s.tpt_on_stop = have_stop ? vf_on_stop : NULL;
	vf_sysconf_val = 4; vf_dtablesize = 1024;
	vf_other_tpt.tp = &vf_other_tp;
	vf_current_tpt = from_other_pool ? (void *)&vf_other_tpt : NULL;
	vf_eagain_budget = eagain;

	vf_no_faults = 1;			/* creation with failing resources: harness/C11/create.c */
	int r = tp_create(&s, &tp);
	VF_ASSERT(r == 0 && tp != NULL, "tp_create succeeds when every resource is available");
	VF_ASSUME(r == 0 && tp != NULL);
	const int fds1 = vf_fds_open, allocs1 = vf_allocs_live;

	vf_no_faults = 0;
	VF_ASSUME(k < threads_max);
#if VF_PART == 1
	r = tp_threads_create(tp, skip_first);
	for (i = 0; i < VF_TMAX; i ++)
		if (i < threads_max && tp->threads[i].state == TP_THREAD_STATE_STARTING) starting ++;
	const size_t wanted = threads_max - ((skip_first != 0) ? 1 : 0);
	VF_ASSERT((size_t)vf_thr_cnt == starting && starting <= wanted, "threads_create: exactly the workers marked as starting have a thread");
	VF_ASSERT(tp->threads[k].state == TP_THREAD_STATE_STARTING || tp->threads[k].state == TP_THREAD_STATE_STOP, "threads_create: a worker either has a thread or is stopped");
	VF_ASSERT(!(skip_first != 0 && k == 0) || tp->threads[k].state == TP_THREAD_STATE_STOP, "threads_create: the first worker is left for attach_first when asked to");
	VF_ASSERT(tp->threads[k].state != TP_THREAD_STATE_STARTING ||
	    (tp->threads[k].pt_id >= VF_THR_ID_BASE && vf_thr[tp->threads[k].pt_id - VF_THR_ID_BASE].arg == (void *)&tp->threads[k] &&
	     vf_thr[tp->threads[k].pt_id - VF_THR_ID_BASE].fn == tp_thread_proc), "threads_create: the thread runs tp_thread_proc on its own record");
	VF_ASSERT(vf_fds_open == fds1 && vf_allocs_live == allocs1, "threads_create: acquires no descriptor or allocation");
	__CPROVER_input("obs_threads_create_result", r);	/* observations for known_findings "when" clauses */
	__CPROVER_input("obs_threads_started", starting);
	__CPROVER_input("obs_threads_wanted", wanted);
	VF_ASSERT(starting == wanted || r != 0, "threads_create: a thread that could not be created is reported as an error");
	VF_ASSERT(starting != wanted || r == 0, "threads_create: success when every thread was created");

	const int starts1 = vf_on_start_calls;
	r = tp_destroy(tp);
	if (r != 0) {
		VF_ASSERT(vf_join_edeadlk && r == EDEADLK, "destroy from outside the pool fails only when joining reports a deadlock");
		VF_ASSERT(vf_fds_open == fds1 && vf_allocs_live == allocs1, "destroy failed: nothing released");
	} else {
		VF_ASSERT(vf_fds_open == 0 && vf_allocs_live == 0, "destroy: every descriptor closed, every allocation freed");
		VF_ASSERT(vf_close_foreign == 0 && vf_close_neg == 0 && vf_free_foreign == 0, "destroy: nothing released twice, nothing foreign released");
		VF_ASSERT(vf_join_calls == vf_thr_cnt && vf_join_bad == 0, "destroy: every created thread is joined, once; no other thread is");
		VF_ASSERT(vf_join_failed != 0 || vf_threads_live == 0, "destroy: no thread outlives the pool (unless joining itself failed)");
	}
	VF_ASSERT(vf_write_calls == vf_thr_cnt, "shutdown: one message to every worker that has a thread, none to the others");
	VF_ASSERT(vf_on_start_calls == starts1 && vf_on_start_calls == (have_start ? 1 : 0), "virtual thread: start hook exactly once over the whole life");
	VF_ASSERT(vf_on_stop_calls == (have_stop ? 1 : 0), "virtual thread: stop hook exactly once over the whole life");
	VF_ASSERT(!have_stop || (vf_on_stop_fds == fds1 && vf_on_stop_starts == starts1), "virtual thread: stop hook runs before anything is released");
#else
	vf_no_faults = 1;
	r = tp_threads_create(tp, skip_first);
	VF_ASSERT(r == 0 && (size_t)vf_thr_cnt == threads_max - ((skip_first != 0) ? 1 : 0), "threads_create: every requested thread created when resources are available");
	vf_no_faults = 0;
	tp_shutdown(tp);
	const int writes1 = vf_write_calls;
	VF_ASSERT(vf_write_calls == vf_thr_cnt, "shutdown: one message to every worker that has a thread");
	VF_ASSERT(vf_on_stop_calls == (have_stop ? 1 : 0) && tp->pvt->state == TP_THREAD_STATE_STOP && tp->shutdown != 0, "shutdown: virtual thread stopped, stop hook once");
	VF_ASSERT(vf_fds_open == fds1 && vf_allocs_live == allocs1 && vf_join_calls == 0, "shutdown: releases nothing, waits for nobody");
	tp_shutdown(tp);
	VF_ASSERT(vf_write_calls == writes1 && vf_on_stop_calls == (have_stop ? 1 : 0), "repeated shutdown: no second message, no second stop hook");
	{
		const int pc = vf_pcreate_calls;
		r = tp_threads_create(tp, skip_first);
		VF_ASSERT(r == EBUSY && vf_pcreate_calls == pc, "threads_create after shutdown: refused, no thread");
		r = tp_thread_attach_first(tp);
		VF_ASSERT(r == EBUSY && vf_on_start_calls == (have_start ? 1 : 0), "attach_first after shutdown: refused, no hook");
	}
	r = tp_shutdown_wait(tp);
	VF_ASSERT(r == 0 || (vf_join_edeadlk && r == EDEADLK), "shutdown_wait from outside the pool succeeds (unless joining reports a deadlock)");
	VF_ASSERT(vf_fds_open == fds1 && vf_allocs_live == allocs1, "shutdown_wait: releases nothing");
	VF_ASSERT(vf_join_bad == 0 && vf_join_calls <= vf_thr_cnt, "shutdown_wait: joins only threads that exist, each at most once");
	VF_ASSERT(r != 0 || tp->threads[k].state == TP_THREAD_STATE_STOP, "shutdown_wait: afterwards every worker is accounted as stopped");
	if (r == 0) {
		const int joins1 = vf_join_calls;
		vf_no_faults = 1;
		r = tp_destroy(tp);
		VF_ASSERT(r == 0 && vf_fds_open == 0 && vf_allocs_live == 0 && vf_close_foreign == 0 && vf_close_neg == 0 && vf_free_foreign == 0,
		    "destroy after shutdown_wait: everything released exactly once");
		VF_ASSERT(vf_join_calls == joins1 && vf_write_calls == writes1, "destroy after shutdown_wait: joins nobody twice, sends nothing");
		VF_ASSERT(vf_on_stop_calls == (have_stop ? 1 : 0) && vf_on_start_calls == (have_start ? 1 : 0), "hooks of the virtual thread: exactly once over the whole life");
	}
#endif
	VF_CANARY("lifecycle harness end");
}
