/* C11 (sequential fragment, second set): three questions about the hand-over between the life-cycle
 * calls, decided on the real code of src/threadpool/threadpool.c + threadpool_msg_sys.c, no concurrency
 * (threads are entries of a ghost table; the harness itself lets a created thread run its real
 * tp_thread_proc to the end at a chosen point; a successful pthread_join of a thread that has not run
 * yet means "it ran to its end"):
 *   VF_PART 1  tp_shutdown when the stop message cannot be queued (write on the worker's pipe fails,
 *              e.g. EAGAIN on a full pipe): every worker that has a thread must nevertheless have been
 *              asked to stop - message queued, or marked as stopping directly - otherwise
 *              tp_shutdown_wait waits for ever ("terminates for every interleaving with in-flight
 *              messages").
 *   VF_PART 2  tp_shutdown ; some workers run to their end (state STOP) BEFORE tp_shutdown_wait ;
 *              tp_shutdown_wait ; tp_destroy : every created thread is joined exactly once ("releases
 *              every descriptor, thread and allocation it acquired").
 *   VF_PART 3  tp_threads_create called twice, and tp_threads_create(skip_first) followed by
 *              tp_thread_attach_first: no thread record ever gets a second thread, the first worker's
 *              hooks run once ("all orders of create / threads_create / attach_first ... including
 *              repeated ... calls", "hooks exactly once per thread").
 * Bound: threads_max == VF_TMAX (concrete, jobs for 1 and 2). */
#include "harness/C11/common.c"

static int vf_thr_of(tp_p tp, size_t k) {		/* how many ghost threads were created on record k */
	int i, c = 0;
	for (i = 0; i < VF_THR_MAX; i ++)
		if (i < vf_thr_cnt && vf_thr[i].arg == (void *)&tp->threads[k]) c ++;
	return (c);
}

void harness(void) {
	tp_settings_t s;
	VF_NONDET(uint32_t, sflags);
	const size_t threads_max = VF_TMAX;
	VF_NONDET(uint8_t, have_start);
	VF_NONDET(uint8_t, have_stop);
	VF_NONDET(int, skip_first);
	VF_NONDET(uint8_t, fin_mask);		/* which workers run to their end before tp_shutdown_wait */
	VF_NONDET(size_t, k);			/* ghost index of a worker */
	tp_p tp = NULL;
	size_t i;
	int r, ran = 0;

	memset(&s, 0, sizeof(s));
	s.flags = sflags; s.threads_max = threads_max;
	s.tpt_on_start = have_start ? vf_on_start : NULL;
	s.tpt_on_stop = have_stop ? vf_on_stop : NULL;
	vf_sysconf_val = 4; vf_dtablesize = 1024; vf_current_tpt = NULL;
	VF_ASSUME(k < threads_max);
	vf_no_faults = 1;
	r = tp_create(&s, &tp);
	VF_ASSUME(r == 0 && tp != NULL);		/* creation itself: create.c, lifecycle.c */
	const int starts0 = vf_on_start_calls, stops0 = vf_on_stop_calls;

#if VF_PART == 1
	r = tp_threads_create(tp, skip_first);
	VF_ASSUME(r == 0);
	vf_no_faults = 0;			/* from here on write() may fail */
	tp_shutdown(tp);
	{
		tpt_msg_queue_p q = (tpt_msg_queue_p)tp->threads[k].msg_queue;
		const _Bool has_thread = (vf_thr_of(tp, k) == 1);
		const int queued = vf_write_ok_by_fd[q->fd[1] - VF_FD_BASE];
		__CPROVER_input("obs_has_thread", (int)has_thread);	/* observations for known_findings "when" clauses */
		__CPROVER_input("obs_msg_queued", queued);
		__CPROVER_input("obs_still_running", (int)tpt_is_running(&tp->threads[k]));
		VF_ASSERT(queued <= 1, "shutdown: at most one stop message per worker");
		VF_ASSERT(has_thread || queued == 0, "shutdown: no message to a worker without a thread");
		VF_ASSERT(!has_thread || queued == 1 || !tpt_is_running(&tp->threads[k]),
		    "shutdown: every worker that has a thread has been asked to stop (message queued, or marked as stopping when the message could not be queued)");
	}
#elif VF_PART == 2
	r = tp_threads_create(tp, skip_first);
	VF_ASSUME(r == 0);
	tp_shutdown(tp);
	/* the scheduler lets some of the workers run now: each receives its stop message and runs the real
	 * tp_thread_proc to its end (stub epoll_wait: nothing to dispatch, state := STOPING) */
	VF_ASSERT(vf_thr_cnt <= VF_TMAX, "threads_create: never more threads than workers");
	for (i = 0; i < VF_TMAX; i ++) {	/* VF_TMAX copies of the thread body at most (memory) */
		if (i < (size_t)vf_thr_cnt && ((fin_mask >> i) & 1)) {
			tpt_p t = (tpt_p)vf_thr[i].arg;
			vf_ew_calls = 0; vf_ew_ret = 0; vf_ew_state_to_stop = &t->state; vf_ew_stop_value = TP_THREAD_STATE_STOPING;
			vf_thr[i].fn(vf_thr[i].arg);
			ran ++;
			VF_ASSERT(t->state == TP_THREAD_STATE_STOP, "a worker that ran to its end is accounted as stopped");
		}
	}
	vf_current_tpt = NULL;
	r = tp_shutdown_wait(tp);
	__CPROVER_input("obs_fin_mask", (int)fin_mask);	/* observations for known_findings "when" clauses */
	__CPROVER_input("obs_threads_created", vf_thr_cnt);
	__CPROVER_input("obs_join_calls", vf_join_calls);
	VF_ASSERT(r == 0, "shutdown_wait from outside the pool succeeds when joining does");
	VF_ASSERT(vf_join_bad == 0, "shutdown_wait: joins only threads that exist and were not joined before");
	VF_ASSERT(vf_join_calls == vf_thr_cnt && vf_threads_live == 0,
	    "shutdown_wait: every created thread is joined exactly once, also one that had finished before the wait began");
	r = tp_destroy(tp);
	VF_ASSERT(r == 0 && vf_fds_open == 0 && vf_allocs_live == 0 && vf_close_foreign == 0 && vf_free_foreign == 0, "destroy: everything released exactly once");
	VF_ASSERT(vf_join_calls == vf_thr_cnt && vf_join_bad == 0, "destroy after shutdown_wait: joins nobody twice");
	VF_ASSERT(vf_on_start_calls - starts0 == (have_start ? ran : 0) && vf_on_stop_calls - stops0 == (have_stop ? ran + 1 : 0),
	    "hooks: once per worker that ran, stop hook of the virtual thread once");
#else
	r = tp_threads_create(tp, skip_first);
	VF_ASSUME(r == 0);
	const int created1 = vf_thr_cnt;
	VF_ASSERT(created1 == (int)(threads_max - ((skip_first != 0) ? 1 : 0)), "threads_create: one thread per requested worker");
	if (fin_mask & 1) {
		/* repeated call */
		VF_NONDET(int, skip_again);
		r = tp_threads_create(tp, skip_again);
		__CPROVER_input("obs_threads_of_k", vf_thr_of(tp, k));	/* observation for known_findings "when" clauses */
		VF_ASSERT(vf_thr_of(tp, k) <= 1, "threads_create repeated: no thread record gets a second thread");
		VF_ASSERT(vf_thr_cnt <= (int)threads_max, "threads_create repeated: never more threads than workers");
	} else {
		/* the caller becomes the first worker */
		vf_ew_calls = 0; vf_ew_ret = 0; vf_ew_state_to_stop = &tp->threads[0].state; vf_ew_stop_value = TP_THREAD_STATE_STOPING;
		r = tp_thread_attach_first(tp);
		if (skip_first != 0) {
			VF_ASSERT(r == 0 && vf_on_start_calls - starts0 == (have_start ? 1 : 0) && vf_on_stop_calls - stops0 == (have_stop ? 1 : 0) &&
			    (!have_start || vf_on_start_tpt == &tp->threads[0]), "attach_first on the skipped first worker: runs it in the caller, its hooks once");
			VF_ASSERT(tp->threads[0].state == TP_THREAD_STATE_STOP && vf_thr_of(tp, 0) == 0 && vf_thr_cnt == created1, "attach_first: creates no thread, worker stopped afterwards");
		} else {
			VF_ASSERT(r == ESPIPE && vf_on_start_calls == starts0 && vf_on_stop_calls == stops0 && vf_ew_calls == 0,
			    "attach_first when the first worker already has a thread: refused, no hook, no second body on the record");
		}
	}
#endif
	VF_CANARY("lifecycle2 harness end");
}
