/* C17 / C12: ini_line_alloc__int (static): the capacity a new line record claims is the data
 * area it really asked the allocator for (stubs/ini.h records every request). */
#include "vf/vf.h"
#include "src/utils/ini.c"
#include "src/utils/buf_str.c"
#include "specs/ini_spec.h"
#include "stubs/ini.h"
#include "contracts/ini.h"

void harness(void) {
	VF_NONDET(size_t, size);
	VF_ASSUME(size <= VF_INI_FLDCAP);
	ini_line_p l = ini_line_alloc__int(size);
	VF_NATIVE_POST(l == NULL || (l->data == (uint8_t *)(l + 1) && l->data_size == size &&
	    l->data_allocated_size == size + INI_LINE_ALLOC_PADDING),
	    "ini_line_alloc__int: recorded capacity == requested data area");
	(void)l;
	VF_CANARY("ini alloc harness end");
}
