/* C17 / C12: ini_buf_calc_size and ini_buf_gen on a symbolic store of <= VF_INI_MAXL lines.
 * The destination of ini_buf_gen is an exact-size heap object of symbolic size
 * 0 .. VF_INI_GEN_MAX (= largest possible text + 1), so every capacity from 0 to
 * required + 1 is covered and one byte past the capacity is a failed pointer obligation.
 * -DVF_FN_ini_buf_calc_size | -DVF_FN_ini_buf_gen */
#include "vf/vf.h"
#include "src/utils/ini.c"
#include "src/utils/buf_str.c"	/* buf_get_next_line (ini_buf_parse) */
#include "specs/ini_spec.h"
#include "contracts/ini.h"

#define VF_INI_GEN_MAX	(VF_INI_MAXL * (VF_INI_RAW + 2) + 1)

void harness(void) {
	ini_p ini;

	VF_INI_SYM_STORE(ini);
	VF_ASSERT(vf_ini_wf(ini), "harness-built store satisfies the representation invariant");
	VF_NONDET(uint8_t, ini_is_null);
	if (ini_is_null)
		ini = NULL;

#if defined(VF_FN_ini_buf_calc_size)
	VF_OWN_OPT(size_t, file_size);
	int r = ini_buf_calc_size(ini, file_size);
	VF_NATIVE_POST(vf_ini_post_calc_size(ini, r, file_size),
	    "ini_buf_calc_size: sum over the stored lines of data_size + 2");

#elif defined(VF_FN_ini_buf_gen)
	VF_NONDET(size_t, buf_size);
	VF_NONDET(uint8_t, buf_null);
	VF_NONDET(size_t, ghost_k);
	VF_NONDET(size_t, ghost_j);
	VF_ASSUME(buf_size <= VF_INI_GEN_MAX);
	uint8_t *buf = buf_null ? NULL : (uint8_t *)malloc(buf_size);
	VF_ASSUME(buf_null || buf != NULL);
	VF_OWN_OPT(size_t, buf_size_ret);
	if (ini != NULL)
		vf_ini_ghost_setup(ini, ghost_k, ghost_j);
	int r = ini_buf_gen(ini, buf, buf_size, buf_size_ret);
#ifdef VF_REPLAY
	for (ghost_k = 0; ini != NULL && ghost_k < ini->lines_count; ghost_k ++) {
		for (ghost_j = 0; ghost_j < VF_INI_RAW + 2; ghost_j ++) {
			vf_ini_ghost_setup(ini, ghost_k, ghost_j);
			VF_NATIVE_POST(vf_ini_post_gen(ini, buf, buf_size, r, buf_size_ret),
			    "ini_buf_gen: writes exactly calc_size bytes (each line + CR LF) or fails");
		}
	}
	VF_NATIVE_POST(vf_ini_post_gen(ini, buf, buf_size, r, buf_size_ret),
	    "ini_buf_gen: writes exactly calc_size bytes (each line + CR LF) or fails");
#endif
#else
#error "select a function with -DVF_FN_<name>"
#endif
	(void)r;
	VF_CANARY("ini gen harness end");
}
