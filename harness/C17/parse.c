/* C17 / C12: ini_buf_parse on an arbitrary text of <= VF_INI_TEXT bytes (exact-size heap
 * span, symbolic length and content), appended to a store that already holds
 * <= VF_INI_MAXL lines.  The ghost index vf_ini_gk ranges over all text lines. */
#ifndef VF_INI_TEXT
#define VF_INI_TEXT	6
#endif
#include "vf/vf.h"
#include "src/utils/ini.c"
#include "src/utils/buf_str.c"	/* buf_get_next_line */
#include "specs/ini_spec.h"
#include "stubs/ini.h"
#include "contracts/ini.h"

void harness(void) {
	ini_p ini;

	VF_INI_SYM_STORE(ini);
	VF_ASSERT(vf_ini_wf(ini), "harness-built store satisfies the representation invariant");
	VF_NONDET(size_t, buf_size);
	VF_NONDET(uint8_t, buf_null);
	VF_NONDET(size_t, ghost_k);
	VF_NONDET_BYTES(text, VF_INI_TEXT);
	VF_ASSUME(buf_size <= VF_INI_TEXT);
	uint8_t *buf = buf_null ? NULL : (uint8_t *)malloc(buf_size);
	VF_ASSUME(buf_null || buf != NULL);
	if (buf != NULL)
		memcpy(buf, text.b, buf_size);
	size_t old_count = ini->lines_count;
	vf_ini_gk = ghost_k;
	int r = ini_buf_parse(ini, buf, buf_size);
#ifdef VF_REPLAY
	for (vf_ini_gk = 0; vf_ini_gk <= VF_INI_TEXT; vf_ini_gk ++)
		VF_NATIVE_POST(vf_ini_post_parse(ini, old_count, buf, buf_size, r),
		    "ini_buf_parse: one canonical record per text line, in order");
#endif
	(void)r; (void)old_count;
	VF_CANARY("ini parse harness end");
}
