/* C17 / C12: ini_buf_parse on an arbitrary text of <= VF_INI_TEXT bytes (exact-size heap
 * span, symbolic length and content), appended to a store that already holds
 * <= VF_INI_MAXL lines.  The ghost index vf_ini_gk ranges over all text lines. */
#ifndef VF_INI_TEXT
#define VF_INI_TEXT	6
#endif
#include "vf/vf.h"
#include "src/utils/ini.c"
#include "src/utils/buf_str.c"	/* buf_get_next_line */
#include "specs/ini_spec.h"
#include "stubs/ini.h"
#include "contracts/ini.h"

void harness(void) {
	ini_p ini;

#ifdef VF_INI_FRESH_STORE
	/* the state ini_create() produces: no table, no lines */
	ini = (ini_p)malloc(sizeof(ini_t));
	VF_ASSUME(ini != NULL);
	ini->lines = NULL;
	ini->lines_count = 0;
	ini->lines_allocated = 0;
#else
	VF_INI_SYM_STORE(ini);
#endif
	VF_ASSERT(vf_ini_wf(ini), "harness-built store satisfies the representation invariant");
	VF_NONDET(size_t, buf_size);
	VF_NONDET(uint8_t, buf_null);
	VF_NONDET(size_t, ghost_k);
	VF_NONDET_BYTES(text, VF_INI_TEXT);
#ifdef VF_INI_TEXT_EXACT
	/* concrete length (one job per length): the text object has a constant size; a heap
	 * object of symbolic size is an unbounded array for CBMC and the parser's byte reads at
	 * symbolic offsets then cost quadratically (27 M variables for one 8-byte line) */
	VF_ASSUME(buf_size == VF_INI_TEXT);
	uint8_t *buf = buf_null ? NULL : (uint8_t *)malloc(VF_INI_TEXT);
#else
	VF_ASSUME(buf_size <= VF_INI_TEXT);
	uint8_t *buf = buf_null ? NULL : (uint8_t *)malloc(buf_size);
#endif
	VF_ASSUME(buf_null || buf != NULL);
#ifdef VF_REPLAY
	if (buf != NULL)
		memcpy(buf, text.b, buf_size);
#else
	if (buf != NULL && VF_INI_TEXT != 0) /* symbolic content, recorded for the replay */
		*(struct vf_bytes_text *)buf = text;
#endif
#ifdef VF_INI_ONE_LINE
	/* at most one line: no LF except as the very last byte */
	for (size_t q = 0; q + 1 < buf_size; q ++)
		VF_ASSUME(text.b[q] != 0x0a);
#endif
	size_t old_count = ini->lines_count;
	vf_ini_gk = ghost_k;
	int r = ini_buf_parse(ini, buf, buf_size);
#ifdef VF_REPLAY
	for (vf_ini_gk = 0; vf_ini_gk <= VF_INI_TEXT; vf_ini_gk ++)
		VF_NATIVE_POST(vf_ini_post_parse(ini, old_count, buf, buf_size, r),
		    "ini_buf_parse: one canonical record per text line, in order");
#endif
	(void)r; (void)old_count;
	VF_CANARY("ini parse harness end");
}
