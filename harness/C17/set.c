/* C17 / C12: ini_val_set on a symbolic store of <= VF_INI_MAXL lines with symbolic
 * section name, value name and value (<= VF_INI_FLD bytes each, exact-size heap spans).
 * calloc / realloc / reallocarray may fail at every call and realloc may or may not move
 * (stubs/ini.h).  Contract (contracts/ini.h): invariant preserved on every path, lookup
 * finds the new value.  Harness assertions: every other line is still there, unchanged
 * and in the same order; the line count grows by 0 / 1 / 2 exactly when the model says. */
#ifndef VF_INI_MAXL
#define VF_INI_MAXL	3
#endif
#include "vf/vf.h"
#include "src/utils/ini.c"
#include "src/utils/buf_str.c"	/* buf_get_next_line (ini_buf_parse) */
#include "specs/ini_spec.h"
#include "stubs/ini.h"
#include "contracts/ini.h"

struct vf_snap { ini_line_p ptr; uint32_t type; size_t data_size; uint8_t byte; };

static void
vf_snap_take(struct vf_snap *s, const ini_t *ini, size_t k, size_t j) {
	s->ptr = ini->lines[k];
	s->type = 0; s->data_size = 0; s->byte = 0;
	if (s->ptr != NULL) {
		s->type = s->ptr->type;
		s->data_size = s->ptr->data_size;
		if (j < s->data_size)
			s->byte = VF_INI_DATA(s->ptr)[j];
	}
}

static int
vf_snap_same(const struct vf_snap *s, const ini_line_t *l, size_t j) {
	if (l != s->ptr)
		return (0);
	if (l == NULL)
		return (1);
	return (l->type == s->type && l->data_size == s->data_size &&
	    (j >= s->data_size || VF_INI_DATA(l)[j] == s->byte));
}

void harness(void) {
	ini_p ini;

	VF_INI_SYM_STORE(ini);
	VF_ASSERT(vf_ini_wf(ini), "harness-built store satisfies the representation invariant");
	VF_INI_SYM_NAME(sect_name, sect_name_size, sn, 1);
	VF_INI_SYM_NAME(val_name, val_name_size, vn, 0);
	VF_INI_SYM_NAME(val, val_size, vv, 1);
	VF_NONDET(size_t, ghost_k);	/* any old line */
	VF_NONDET(size_t, ghost_k2);	/* any later old line */
	VF_NONDET(size_t, ghost_j);	/* any byte position */
	size_t old_count = ini->lines_count;
	size_t old_sect = vf_ini_spec_sect_find(ini, sect_name, sect_name_size, 0);
	size_t old_line = vf_ini_spec_val_find(ini, old_sect, val_name, val_name_size, 0);
	struct vf_snap s1, s2;
	VF_ASSUME(ghost_k < old_count && ghost_k < ghost_k2 && ghost_k2 < old_count + 1);
	vf_snap_take(&s1, ini, ghost_k, ghost_j);
	if (ghost_k2 < old_count)
		vf_snap_take(&s2, ini, ghost_k2, ghost_j);
#ifndef VF_REPLAY
	vf_ini_gj = ghost_j;
#endif
	int r = ini_val_set(ini, sect_name, sect_name_size, val_name, val_name_size, val, val_size);
#ifdef VF_PLAIN_POST /* plain mode (no contract instrumentation): the postcondition as assertion */
	VF_ASSERT(vf_ini_post_val_set(ini, sect_name, sect_name_size, val_name, val_name_size,
	    val, val_size, r), "ini_val_set: store well formed, lookup returns the new value");
#endif
#ifdef VF_REPLAY
	for (vf_ini_gj = 0; vf_ini_gj <= VF_INI_FLD; vf_ini_gj ++)
		VF_NATIVE_POST(vf_ini_post_val_set(ini, sect_name, sect_name_size, val_name,
		    val_name_size, val, val_size, r),
		    "ini_val_set: store well formed, lookup returns the new value");
#endif
	if (r == 0) {
		/* the number of lines grows exactly as the dictionary model says */
		VF_ASSERT(ini->lines_count == old_count +
		    (old_sect == INI_OFFSET_INVALID ? 2 : (old_line == INI_OFFSET_INVALID ? 1 : 0)),
		    "ini_val_set: replaces in place / inserts one line / appends section + line");
		/* every other old line is still present, unchanged, shifted by at most one place */
		if (ghost_k != old_line) {
			int at_k = vf_snap_same(&s1, ini->lines[ghost_k], ghost_j);
			int at_k1 = ghost_k + 1 < ini->lines_count &&
			    vf_snap_same(&s1, ini->lines[ghost_k + 1], ghost_j);
			VF_ASSERT(at_k || at_k1, "ini_val_set: other lines unchanged");
			/* order preserved: once a line has moved down, all later lines have too */
			if (!at_k && ghost_k2 < old_count && ghost_k2 != old_line)
				VF_ASSERT(ghost_k2 + 1 < ini->lines_count &&
				    vf_snap_same(&s2, ini->lines[ghost_k2 + 1], ghost_j),
				    "ini_val_set: file order of the other lines preserved");
		}
	}
	VF_CANARY("ini set harness end");
}
