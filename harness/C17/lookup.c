/* C17: enumeration and lookup functions of src/utils/ini.c on a symbolic store of
 * <= VF_INI_MAXL lines (bounded in shape), <= VF_INI_FLD symbolic bytes per field.
 * -DVF_FN_<function> selects the function under contract. */
#include "vf/vf.h"
#include "src/utils/ini.c"
#include "src/utils/buf_str.c"	/* buf_get_next_line (ini_buf_parse) */
#include "specs/ini_spec.h"
#include "contracts/ini.h"

void harness(void) {
	ini_p ini;

	VF_INI_SYM_STORE(ini);
	VF_ASSERT(vf_ini_wf(ini), "harness-built store satisfies the representation invariant");
	VF_NONDET(uint8_t, ini_is_null);
	if (ini_is_null)
		ini = NULL;

#if defined(VF_FN_ini_sect_enum)
	VF_NONDET(size_t, off_in);
	VF_OWN_OPT(size_t, sect_off);
	VF_OWN_OPT(const uint8_t *, sect_name);
	VF_OWN_OPT(size_t, sect_name_size);
	if (sect_off != NULL) *sect_off = off_in;
	int r = ini_sect_enum(ini, sect_off, sect_name, sect_name_size);
	VF_NATIVE_POST(vf_ini_post_sect_enum(ini, off_in, r, sect_off, sect_name, sect_name_size),
	    "ini_sect_enum: next section in file order / ENOENT iff none");

#elif defined(VF_FN_ini_sect_val_enum)
	VF_NONDET(size_t, sect_off);
	VF_NONDET(size_t, off_in);
	VF_OWN_OPT(size_t, val_off);
	VF_OWN_OPT(const uint8_t *, val_name);
	VF_OWN_OPT(size_t, val_name_size);
	VF_OWN_OPT(const uint8_t *, val);
	VF_OWN_OPT(size_t, val_size);
	if (val_off != NULL) *val_off = off_in;
	int r = ini_sect_val_enum(ini, sect_off, val_off, val_name, val_name_size, val, val_size);
	VF_NATIVE_POST(vf_ini_post_val_enum(ini, sect_off, off_in, r, val_off, val_name,
	    val_name_size, val, val_size),
	    "ini_sect_val_enum: next value of the section in file order / ENOENT iff none");

#elif defined(VF_FN_ini_sect_find) || defined(VF_FN_ini_sect_findi)
	VF_INI_SYM_NAME(sect_name, sect_name_size, sn, 1);
#if defined(VF_FN_ini_sect_find)
	size_t r = ini_sect_find(ini, sect_name, sect_name_size);
	VF_NATIVE_POST(r == (ini == NULL ? INI_OFFSET_INVALID :
	    vf_ini_spec_sect_find(ini, sect_name, sect_name_size, 0)),
	    "ini_sect_find: first section with exactly that name");
#else
	VF_ASSUME(vf_no_nul(sect_name, sect_name_size));
	size_t r = ini_sect_findi(ini, sect_name, sect_name_size);
	VF_NATIVE_POST(r == (ini == NULL ? INI_OFFSET_INVALID :
	    vf_ini_spec_sect_find(ini, sect_name, sect_name_size, 1)),
	    "ini_sect_findi: first section with that name, ASCII case folded");
#endif

#elif defined(VF_FN_ini_sect_val_find) || defined(VF_FN_ini_sect_val_findi)
	VF_NONDET(size_t, sect_off);
	VF_INI_SYM_NAME(val_name, val_name_size, vn, 0);
#if defined(VF_FN_ini_sect_val_find)
	size_t r = ini_sect_val_find(ini, sect_off, val_name, val_name_size);
	VF_NATIVE_POST(r == (ini == NULL ? INI_OFFSET_INVALID :
	    vf_ini_spec_val_find(ini, sect_off, val_name, val_name_size, 0)),
	    "ini_sect_val_find: first value of the section with exactly that name (case-sensitive)");
#else
	VF_ASSUME(vf_no_nul(val_name, val_name_size));
	size_t r = ini_sect_val_findi(ini, sect_off, val_name, val_name_size);
	VF_NATIVE_POST(r == (ini == NULL ? INI_OFFSET_INVALID :
	    vf_ini_spec_val_find(ini, sect_off, val_name, val_name_size, 1)),
	    "ini_sect_val_findi: first value of the section with that name, ASCII case folded");
#endif

#elif defined(VF_FN_ini_val_get) || defined(VF_FN_ini_vali_get)
	VF_INI_SYM_NAME(sect_name, sect_name_size, sn, 1);
	VF_INI_SYM_NAME(val_name, val_name_size, vn, 0);
	VF_OWN_OPT(const uint8_t *, val);
	VF_OWN_OPT(size_t, val_size);
#if defined(VF_FN_ini_val_get)
	int r = ini_val_get(ini, sect_name, sect_name_size, val_name, val_name_size, val, val_size);
	VF_NATIVE_POST(vf_ini_post_val_get(ini, sect_name, sect_name_size, val_name,
	    val_name_size, 0, r, val, val_size),
	    "ini_val_get: value of the first matching line of the first matching section");
#else
	VF_ASSUME(vf_no_nul(sect_name, sect_name_size) && vf_no_nul(val_name, val_name_size));
	int r = ini_vali_get(ini, sect_name, sect_name_size, val_name, val_name_size, val, val_size);
	VF_NATIVE_POST(vf_ini_post_val_get(ini, sect_name, sect_name_size, val_name,
	    val_name_size, 1, r, val, val_size),
	    "ini_vali_get: value of the first matching line of the first matching section, case folded");
#endif
#else
#error "select a function with -DVF_FN_<name>"
#endif
	(void)r;
	VF_CANARY("ini lookup harness end");
}
