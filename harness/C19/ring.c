/* C19: one step of the packet ring (src/utils/ring_buffer.c) from an ARBITRARY state that
 * satisfies the representation invariant: every field of r_buf_t and of the block table is
 * symbolic, only the table size is fixed (6 entries, bounded shape).
 * -DVF_FN_<function> selects the function under contract. */
#include "contracts/ring_buffer.h"
#include "src/utils/ring_buffer.c"

typedef struct vf_rb_shape vf_rb_shape_t;
int vf_rb_was_valid;
size_t vf_rb_old_avail;
size_t vf_rb_old_drop;
const r_buf_t *vf_rb_gring;

void harness(void) {
	VF_NONDET_OBJ(vf_rb_shape_t, shape);
	r_buf_p r = vf_rb_build(&shape);
	VF_ASSUME(vf_rb_wf(r));
	vf_rb_gring = r;
#ifdef VF_RB_CASE_INDEX	/* case split over the writer's table index (one job per value 0..4) */
	VF_ASSUME(r->iov_index == VF_RB_CASE_INDEX);
#endif
#ifdef VF_RB_CASE_MAX	/* case: last valid index of the table (with VF_RB_CASE_INDEX: a concrete block layout) */
	VF_ASSUME(r->iov_index_max == VF_RB_CASE_MAX);
#endif
#ifdef VF_RB_CASE_FRAG	/* case split over RBUF_F_FRAG (0 / 1) */
	VF_ASSUME(((r->flags & RBUF_F_FRAG) != 0) == (VF_RB_CASE_FRAG != 0));
#endif

#if defined(VF_FN_r_buf_wbuf_get)
	VF_NONDET(size_t, min_buf_size);
	uint8_t *out = NULL;
	r_buf_t r0 = *r;
	size_t curlen0 = r->iov[r->iov_index].iov_len;
	size_t n = r_buf_wbuf_get(r, min_buf_size, &out);
	VF_NATIVE_POST(vf_rb_post_wbuf_get(r, r0.wpos, r0.round_num, r0.iov_index, curlen0,
	    r0.iov_index_max, r0.flags, min_buf_size, n, (r->size < min_buf_size) ? NULL : out),
	    "r_buf_wbuf_get: invariant kept, region [wpos, size) inside the ring, wrap bookkeeping");
	(void)n; (void)r0; (void)curlen0;

#elif defined(VF_FN_r_buf_wbuf_set)
	VF_NONDET(size_t, offset);
	VF_NONDET(size_t, buf_size);
	VF_ASSUME(vf_rb_open(r));
	r_buf_t r0 = *r;
	int e = r_buf_wbuf_set(r, offset, buf_size);
	VF_NATIVE_POST(vf_rb_post_wbuf_set(r, r0.wpos, r0.iov_index, r0.iov_index_max, r0.flags,
	    r0.round_num, offset, buf_size, e),
	    "r_buf_wbuf_set: commit accepted only if offset + data fits behind wpos; invariant kept");
	(void)e; (void)r0;

#elif defined(VF_FN_r_buf_wbuf_set2)
	VF_NONDET(size_t, buf_off);
	VF_NONDET(size_t, buf_size);
	VF_NONDET(uint8_t, rpos_null);
	VF_ASSUME(vf_rb_open(r));
	VF_ASSUME(buf_off <= r->size && buf_size <= r->size - buf_off);
	r_buf_rpos_t rp_store;
	r_buf_rpos_p rpos = rpos_null ? NULL : &rp_store;
	r_buf_t r0 = *r;
	int e = r_buf_wbuf_set2(r, r->buf + buf_off, buf_size, rpos);
	VF_NATIVE_POST(vf_rb_post_wbuf_set2(r, r0.wpos, r0.iov_index, r0.iov_index_max, r0.flags,
	    r0.round_num, r->buf + buf_off, buf_size, rpos, e),
	    "r_buf_wbuf_set2: commit + next slot opened; invariant kept (table cannot overflow)");
	(void)e; (void)r0;

#else /* reader side */
	VF_NONDET(size_t, rp_index);
	VF_NONDET(size_t, rp_off);
	VF_NONDET(size_t, rp_round);
	r_buf_rpos_t rp = { .iov_index = rp_index, .iov_off = rp_off, .round_num = rp_round };
	VF_ASSUME(vf_rb_rpos_wf(r, &rp));
#ifdef VF_RB_CASE_ROUND	/* case split over the cursor's round: 0 same, 1 previous, 2 any other */
	VF_ASSUME(VF_RB_CASE_ROUND == 0 ? (rp.round_num == r->round_num) :
	    VF_RB_CASE_ROUND == 1 ? ((size_t)(rp.round_num + 1) == r->round_num) :
	    (rp.round_num != r->round_num && (size_t)(rp.round_num + 1) != r->round_num &&
	     /* stated bound of the size * rounds product: at most 4 rounds behind, or ahead of
	      * the writer (a 64 x 64 bit multiplier equivalence does not close otherwise) */
	     ((size_t)(r->round_num - rp.round_num) <= 4 ||
	      (size_t)(r->round_num - rp.round_num) > (((size_t)~0) >> 1))));
#endif
	const r_buf_rpos_t rp0 = rp;
	VF_NONDET(uint8_t, drop_null);
	VF_NONDET(size_t, drop_init);
	size_t drop = drop_init;
	vf_rb_old_drop = drop_init;
	size_t *dropp = drop_null ? NULL : &drop;
	(void)rp0; (void)dropp;

#if defined(VF_FN_r_buf_rpos_check_fast)
	int v = r_buf_rpos_check_fast(r, &rp);
	VF_NATIVE_POST(v == vf_rb_rpos_valid(r, &rp0),
	    "r_buf_rpos_check_fast: 1 exactly for cursors whose block has not been overwritten");
	(void)v;

#elif defined(VF_FN_r_buf_rpos_check)
	int v = r_buf_rpos_check(r, &rp, dropp);
	VF_NATIVE_POST(vf_rb_post_rpos_check(r, rp0.iov_index, rp0.iov_off, rp0.round_num, v,
	    &rp, dropp, drop_init),
	    "r_buf_rpos_check: usable cursor kept, lagging cursor resynchronised, loss reported");
	(void)v;

#elif defined(VF_FN_r_buf_data_avail_size)
	VF_ASSUME(vf_rb_started(r));
	vf_rb_was_valid = vf_rb_rpos_valid(r, &rp);
	size_t a = r_buf_data_avail_size(r, &rp, dropp);
	VF_NATIVE_POST(vf_rb_was_valid ?
	    (vf_rb_rpos_norm(r, &rp) && a == vf_rb_avail(r, &rp) && (dropp == NULL || drop == 0)) :
	    (a == 0 && vf_rb_rpos_valid(r, &rp)),
	    "r_buf_data_avail_size: sum of the blocks from the cursor to the writer");
	(void)a;

#elif defined(VF_FN_r_buf_data_get)
	VF_NONDET(size_t, data_size);
	VF_NONDET(size_t, iov_cnt);
	VF_NONDET(uint8_t, dsr_null);
	VF_ASSUME(vf_rb_started(r));
	VF_ASSUME(iov_cnt != 0 && iov_cnt <= 2 * VF_RB_IOVN + 2);
	/* constant-size destination (a heap object of symbolic size is an unbounded array for
	 * CBMC: measured out of memory); writes beyond iov_cnt entries violate the assigns clause */
	iovec_p out = (iovec_p)VF_RB_ALLOC((2 * VF_RB_IOVN + 2) * sizeof(iovec_t));
	VF_ASSUME(out != NULL);
	size_t dsr = 0;
	size_t *dsrp = dsr_null ? NULL : &dsr;
	vf_rb_was_valid = vf_rb_rpos_valid(r, &rp);
	size_t c = r_buf_data_get(r, &rp, data_size, out, iov_cnt, dropp, dsrp);
	VF_NATIVE_POST(vf_rb_post_data_get(r, &rp, vf_rb_was_valid, data_size, out, iov_cnt, c, dsrp),
	    "r_buf_data_get: iovecs inside the ring from the cursor on, sum == *data_size_ret <= available");
	(void)c;

#elif defined(VF_FN_iovec_aggregate_ex)
	/* any run of table entries [first, first + cnt) that are blocks of the ring */
	VF_NONDET(size_t, first);
	VF_NONDET(size_t, cnt);
	VF_NONDET(size_t, data_size);
	VF_NONDET(size_t, off);
	VF_NONDET(size_t, ret_cnt);
	VF_ASSUME(first < VF_RB_IOVN && cnt <= VF_RB_IOVN - first);
	VF_ASSUME(vf_rb_agg_pre(&r->iov[first], cnt, off));
	VF_ASSUME(ret_cnt <= 2 * VF_RB_IOVN + 2);
	iovec_p out = (iovec_p)VF_RB_ALLOC((2 * VF_RB_IOVN + 2) * sizeof(iovec_t));
	VF_ASSUME(out != NULL);
	size_t rem = 0;
	size_t c = iovec_aggregate_ex(&r->iov[first], cnt, data_size, off, out, ret_cnt, &rem);
	VF_NATIVE_POST(vf_rb_post_agg(&r->iov[first], cnt, data_size, off, out, ret_cnt, c, &rem),
	    "iovec_aggregate_ex: whole blocks in order, consumed == sum of the returned lengths");
	(void)c;

#elif defined(VF_FN_r_buf_rpos_inc)
	VF_NONDET(size_t, data_size);
	VF_ASSUME(vf_rb_started(r) && vf_rb_rpos_norm(r, &rp));
	vf_rb_old_avail = vf_rb_avail(r, &rp);
#ifdef VF_RB_INC_STEP
	VF_ASSUME(vf_rb_inc_step_pre(r, &rp, data_size));
#else
	VF_ASSUME(data_size <= vf_rb_old_avail);
#endif
	r_buf_rpos_inc(r, &rp, data_size);
#ifdef VF_RB_INC_STEP
	VF_NATIVE_POST(vf_rb_post_inc_step(r, rp0.iov_index, rp0.iov_off, rp0.round_num, data_size, &rp),
	    "r_buf_rpos_inc: inside the block, or exactly at offset 0 of the next block");
#endif
	VF_NATIVE_POST(vf_rb_rpos_wf(r, &rp) && vf_rb_rpos_norm(r, &rp) &&
	    vf_rb_avail(r, &rp) == vf_rb_old_avail - data_size,
	    "r_buf_rpos_inc: cursor advanced by exactly the consumed amount");

#elif defined(VF_FN_r_buf_rpos_init)
	VF_NONDET(size_t, data_size);
	int e = r_buf_rpos_init(r, &rp, data_size);
	VF_NATIVE_POST(e == 0 && vf_rb_rpos_wf(r, &rp) && rp.iov_off == 0,
	    "r_buf_rpos_init: cursor inside the table");
	(void)e;
#else
#error "select a function with -DVF_FN_<name>"
#endif
#endif
	VF_CANARY("ring harness end");
}
