"""Loop contracts of include/math/big_num.h, keyed by function (C01).  mkjobs.py composes one
loops/bn_<job>.json per job from these entries: goto-instrument rejects a loop-contract file that
names a function which is not part of the goto binary.  ${SZ} = sizeof(bn_digit_t) of the job."""

def L(fn, loop_id, inv, assigns, dec, syms):
    """syms: 'i=1::i count=count' -> symbol_map 'i,fn::1::i;count,fn::count'"""
    sm = ";".join("%s,%s::%s" % (kv.split("=")[0], fn, kv.split("=")[1]) for kv in syms.split())
    e = {"loop_id": str(loop_id), "invariants": inv, "assigns": assigns, "symbol_map": sm}
    if dec:
        e["decreases"] = dec
    return e

LOOPS = {
 "bn_digits_calc_digits": [L("bn_digits_calc_digits", 0,
    "-1 <= i && (count == 0 || i < (signed long)count)", "i", "i + 1", "i=1::i count=count")],
 "bn_digits_cmp": [L("bn_digits_cmp", 0,
    "-1 <= i && i < (signed long)count", "i", "i + 1", "i=1::i count=count")],
 "bn_digits_l_shift": [L("bn_digits_l_shift", 0,
    "i <= count", "i, tm, crr, __CPROVER_object_upto(a, count * ${SZ})", "count - i",
    "i=1::i tm=1::tm crr=1::crr count=count a=a")],
 "bn_digits_r_shift": [L("bn_digits_r_shift", 0,
    "count >= 1 && i <= count - 1", "i, __CPROVER_object_upto(a, count * ${SZ})", "count - 1 - i",
    "i=1::i count=count a=a")],
 "bn_digits_add_digit": [L("bn_digits_add_digit", 0,
    "1 <= i && i <= count", "i, __CPROVER_object_upto(a, count * ${SZ})", "count - i",
    "i=1::i count=count a=a")],
 "bn_digits_add": [L("bn_digits_add", 0,
    "i <= b_count && crr <= 1", "i, tm, crr, __CPROVER_object_upto(a, a_count * ${SZ})", "b_count - i",
    "i=1::i tm=1::tm crr=1::crr a_count=a_count b_count=b_count a=a")],
 "bn_digits_sub_digit": [L("bn_digits_sub_digit", 0,
    "1 <= i && i <= count && brrw <= 1", "i, brrw, __CPROVER_object_upto(a, count * ${SZ})", "count - i",
    "i=1::i brrw=1::brrw count=count a=a")],
 "bn_digits_sub__int": [L("bn_digits_sub__int", 0,
    "i <= b_count && brrw <= 1", "i, tm, brrw, __CPROVER_object_upto(a, a_count * ${SZ})", "b_count - i",
    "i=1::i tm=1::tm brrw=1::brrw a_count=a_count b_count=b_count a=a")],
}


# ---- rung 3 loop functions (callees replaced by contracts; invariants speak about well-formedness only)
def WFP(p):   # p is a pointer expression
    return "(%s->count >= 1 && %s->count <= ${MAXD} && %s->digits <= %s->count && (%s->digits == 0 || %s->num[%s->digits - 1] != 0))" % ((p,) * 7)
def WFS(v):   # v is a struct lvalue
    return "(%s.count >= 1 && %s.count <= ${MAXD} && %s.digits <= %s.count && (%s.digits == 0 || %s.num[%s.digits - 1] != 0))" % ((v,) * 7)
def FRP(p):
    return "%s->digits, __CPROVER_object_upto(%s->num, ${MAXD} * ${SZ})" % (p, p)
def FRS(v):
    return "%s.digits, __CPROVER_object_upto(%s.num, ${MAXD} * ${SZ})" % (v, v)

# value of a bn_t as unsigned long (W = 8 jobs only, maxd <= 7): used for decreases clauses
def VALX(acc, maxd, entry=False):
    def fld(f):
        e = "%s%s" % (acc, f)
        return "__CPROVER_loop_entry(%s)" % e if entry else e
    return "(" + " + ".join("((%dul < %s) ? (((unsigned long)%s) << %d) : 0ul)" % (i, fld("digits"), fld("num[%d]" % i), 8 * i)
                            for i in range(maxd)) + ")"
def VALP(p, maxd, entry=False): return VALX(p + "->", maxd, entry)
def VALS(v, maxd, entry=False): return VALX(v + ".", maxd, entry)
LOOPS.update({
 "bn_mod_exp_digit": [L("bn_mod_exp_digit", 9,
    WFP("bn") + " && " + WFS("base"), "exp, " + FRP("bn") + ", " + FRS("base"), "exp",
    "bn=bn exp=exp base=1::base")],
 "bn_mod_exp": [L("bn_mod_exp", 6,
    "i <= bits && " + WFP("bn") + " && " + WFS("base") + " && (" + VALP("m", 2) + " < 2ul || " + VALP("bn", 2) + " < " + VALP("m", 2) + ")",
    "i, " + FRP("bn") + ", " + FRS("base"), "bits - i",
    "bn=bn i=1::i bits=1::bits base=1::base m=m")],
 "bn_exp_digit": [L("bn_exp_digit", 7,
    WFP("bn") + " && " + WFS("base"), "exp, " + FRP("bn") + ", " + FRS("base"), "exp",
    "bn=bn exp=exp base=1::base")],
})


def POW4(B): return "(%s != 0 && (%s & (%s - 1)) == 0 && (%s & 0x5555555555555555ul) != 0)" % (B, B, B, B)
PAIR = "((ta == bn && tb == &tmp) || (ta == &tmp && tb == bn))"

def loops_r3(maxd):
    W = 8
    return {
     "bn_gcd": [L("bn_gcd", 9,
        PAIR + " && " + WFP("bn") + " && " + WFS("tmp"),
        "ta, tb, " + FRP("bn") + ", " + FRS("tmp"), VALP("tb", maxd),
        "ta=1::ta tb=1::tb tmp=1::tmp bn=bn")],
     "bn_gcd_bin": [L("bn_gcd_bin", 7,
        PAIR + " && " + WFP("bn") + " && " + WFS("tmp") + " && ta->digits != 0 && (tb->digits == 0 || shift_b < tb->digits * %d)" % W,
        "ta, tb, shift_b, " + FRP("bn") + ", " + FRS("tmp"), VALP("ta", maxd) + " + " + VALP("tb", maxd),
        "ta=1::ta tb=1::tb tmp=1::tmp bn=bn shift_b=1::shift_b")],
     "bn_sqrt1": (lambda B, R, N, X0: [
       L("bn_sqrt1", 4,
        WFS("bit") + " && " + WFP("bn") + " && " + POW4(B) + " && " + N + " != 0 && " + N + " < 4 * " + B,
        FRS("bit"), B, "bit=1::bit bn=bn"),
       L("bn_sqrt1", 9,
        " && ".join([WFS("bit"), WFS("res"), WFS("tmp"), WFP("bn")]) +
        " && (" + B + " == 0 || " + POW4(B) + ") && " + N + " <= " + X0 +
        " && (" + B + " == 0 || ((" + R + " & (2 * " + B + " - 1)) == 0 && 4 * " + B + " * (" + X0 + " - " + N + ") == " + R + " * " + R +
        " && " + N + " < 2 * " + R + " + 4 * " + B + "))" +
        " && (" + B + " != 0 || (" + X0 + " - " + N + " == " + R + " * " + R + " && " + N + " < 2 * " + R + " + 1))",
        ", ".join([FRS("bit"), FRS("res"), FRS("tmp"), FRP("bn")]), B, "bit=1::bit res=1::res tmp=1::tmp bn=bn"),
     ])(VALS("bit", maxd), VALS("res", maxd), VALP("bn", maxd), VALP("bn", maxd, True)),
     "bn_mod_sqrt": [
       L("bn_mod_sqrt", 20,
        WFS("b") + " && " + WFS("tm") + " && bits >= 1",
        "bits, " + FRS("b") + ", " + FRS("tm"), "bits", "b=1::5::b tm=1::tm bits=1::bits"),
       L("bn_mod_sqrt", 36,
        " && ".join([WFP("bn"), WFS("b"), WFS("t"), WFS("tm"), WFS("tm2"), WFS("bn_inv")]),
        "bits, " + ", ".join([FRP("bn"), FRS("b"), FRS("t"), FRS("tm")]), "bits",
        "bn=bn b=1::5::b t=1::5::t bn_inv=1::5::bn_inv tm=1::tm tm2=1::tm2 bits=1::bits"),
     ],
     "bn_mod_inv_bin": [
       L("bn_mod_inv_bin", 8,
        WFS("u") + " && " + WFS("x1") + " && u.digits != 0 && " + VALS("u", maxd) + " <= " + VALS("u", maxd, True) +
        " && " + VALS("x1", maxd) + " < " + VALP("m", maxd) + " && x1.count > m->digits",
        FRS("u") + ", " + FRS("x1"), VALS("u", maxd), "u=1::u x1=1::x1 m=m"),
       L("bn_mod_inv_bin", 10,
        WFS("v") + " && " + WFS("x2") + " && v.digits != 0 && " + VALS("v", maxd) + " <= " + VALS("v", maxd, True) +
        " && " + VALS("x2", maxd) + " < " + VALP("m", maxd) + " && x2.count > m->digits",
        FRS("v") + ", " + FRS("x2"), VALS("v", maxd), "v=1::v x2=1::x2 m=m"),
       L("bn_mod_inv_bin", 15,
        " && ".join(WFS(x) for x in ("u", "v", "x1", "x2")) +
        " && " + VALS("x1", maxd) + " < " + VALP("m", maxd) + " && " + VALS("x2", maxd) + " < " + VALP("m", maxd) +
        " && " + VALS("u", maxd) + " <= " + VALP("m", maxd) + " && " + VALS("v", maxd) + " <= " + VALP("m", maxd) +
        " && x1.count > m->digits && x2.count > m->digits && u.count >= m->digits && v.count >= m->digits",
        ", ".join(FRS(x) for x in ("u", "v", "x1", "x2")), VALS("u", maxd) + " + " + VALS("v", maxd),
        "u=1::u v=1::v x1=1::x1 x2=1::x2 m=m"),
     ],
    }

def inv_value_loops(maxd):
    """bn_mod_inv_bin with the textbook invariant  x1 * a == u, x2 * a == v (mod m)  added (a = entry value of bn)"""
    base = loops_r3(maxd)["bn_mod_inv_bin"]
    A, M = VALP("bn", maxd), VALP("m", maxd)
    U, V, X1, X2 = (VALS(x, maxd) for x in ("u", "v", "x1", "x2"))
    cong1 = "((%s * %s) %% %s == %s %% %s)" % (X1, A, M, U, M)
    cong2 = "((%s * %s) %% %s == %s %% %s)" % (X2, A, M, V, M)
    odd = "((%s & 1ul) == 1ul && %s >= 2ul)" % (M, M)
    out = []
    for e, extra in zip(base, (cong1 + " && " + odd, cong2 + " && " + odd, cong1 + " && " + cong2 + " && " + odd)):
        e = dict(e)
        e["invariants"] = e["invariants"] + " && " + extra
        if "bn,bn_mod_inv_bin::bn" not in e["symbol_map"]:
            e["symbol_map"] += ";bn,bn_mod_inv_bin::bn"
        out.append(e)
    return out

def compose(fns, maxd=None, variant=None):
    tbl = dict(LOOPS)
    if maxd:
        tbl.update(loops_r3(maxd))
    if variant == "ms_range":
        ms = [dict(e) for e in tbl["bn_mod_sqrt"]]
        ms[1]["invariants"] += " && " + VALP("bn", maxd) + " < " + VALP("m", maxd) + " && " + VALP("m", maxd) + " >= 2ul"
        ms[1]["symbol_map"] += ";m,bn_mod_sqrt::m"
        tbl["bn_mod_sqrt"] = ms
    if variant == "inv_value":
        tbl["bn_mod_inv_bin"] = inv_value_loops(maxd)
    return {"functions": [{fn: tbl[fn]} for fn in fns]}
