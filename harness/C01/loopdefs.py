"""Loop contracts of include/math/big_num.h, keyed by function (C01).  mkjobs.py composes one
loops/bn_<job>.json per job from these entries: goto-instrument rejects a loop-contract file that
names a function which is not part of the goto binary.  ${SZ} = sizeof(bn_digit_t) of the job."""

def L(fn, loop_id, inv, assigns, dec, syms):
    """syms: 'i=1::i count=count' -> symbol_map 'i,fn::1::i;count,fn::count'"""
    sm = ";".join("%s,%s::%s" % (kv.split("=")[0], fn, kv.split("=")[1]) for kv in syms.split())
    e = {"loop_id": str(loop_id), "invariants": inv, "assigns": assigns, "symbol_map": sm}
    if dec:
        e["decreases"] = dec
    return e

LOOPS = {
 "bn_digits_calc_digits": [L("bn_digits_calc_digits", 0,
    "-1 <= i && (count == 0 || i < (signed long)count)", "i", "i + 1", "i=1::i count=count")],
 "bn_digits_cmp": [L("bn_digits_cmp", 0,
    "-1 <= i && i < (signed long)count", "i", "i + 1", "i=1::i count=count")],
 "bn_digits_l_shift": [L("bn_digits_l_shift", 0,
    "i <= count", "i, tm, crr, __CPROVER_object_upto(a, count * ${SZ})", "count - i",
    "i=1::i tm=1::tm crr=1::crr count=count a=a")],
 "bn_digits_r_shift": [L("bn_digits_r_shift", 0,
    "count >= 1 && i <= count - 1", "i, __CPROVER_object_upto(a, count * ${SZ})", "count - 1 - i",
    "i=1::i count=count a=a")],
 "bn_digits_add_digit": [L("bn_digits_add_digit", 0,
    "1 <= i && i <= count", "i, __CPROVER_object_upto(a, count * ${SZ})", "count - i",
    "i=1::i count=count a=a")],
 "bn_digits_add": [L("bn_digits_add", 0,
    "i <= b_count && crr <= 1", "i, tm, crr, __CPROVER_object_upto(a, a_count * ${SZ})", "b_count - i",
    "i=1::i tm=1::tm crr=1::crr a_count=a_count b_count=b_count a=a")],
 "bn_digits_sub_digit": [L("bn_digits_sub_digit", 0,
    "1 <= i && i <= count && brrw <= 1", "i, brrw, __CPROVER_object_upto(a, count * ${SZ})", "count - i",
    "i=1::i brrw=1::brrw count=count a=a")],
 "bn_digits_sub__int": [L("bn_digits_sub__int", 0,
    "i <= b_count && brrw <= 1", "i, tm, brrw, __CPROVER_object_upto(a, a_count * ${SZ})", "b_count - i",
    "i=1::i tm=1::tm brrw=1::brrw a_count=a_count b_count=b_count a=a")],
}


# ---- rung 3 loop functions (callees replaced by contracts; invariants speak about well-formedness only)
def WFP(p):   # p is a pointer expression
    return "(%s->count >= 1 && %s->count <= ${MAXD} && %s->digits <= %s->count && (%s->digits == 0 || %s->num[%s->digits - 1] != 0))" % ((p,) * 7)
def WFS(v):   # v is a struct lvalue
    return "(%s.count >= 1 && %s.count <= ${MAXD} && %s.digits <= %s.count && (%s.digits == 0 || %s.num[%s.digits - 1] != 0))" % ((v,) * 7)
def FRP(p):
    return "%s->digits, __CPROVER_object_upto(%s->num, ${MAXD} * ${SZ})" % (p, p)
def FRS(v):
    return "%s.digits, __CPROVER_object_upto(%s.num, ${MAXD} * ${SZ})" % (v, v)

LOOPS.update({
 "bn_mod_exp_digit": [L("bn_mod_exp_digit", 9,
    WFP("bn") + " && " + WFS("base"), "exp, " + FRP("bn") + ", " + FRS("base"), "exp",
    "bn=bn exp=exp base=1::base")],
 "bn_mod_exp": [L("bn_mod_exp", 6,
    "i <= bits && " + WFP("bn") + " && " + WFS("base"), "i, " + FRP("bn") + ", " + FRS("base"), "bits - i",
    "bn=bn i=1::i bits=1::bits base=1::base")],
 "bn_exp_digit": [L("bn_exp_digit", 7,
    WFP("bn") + " && " + WFS("base"), "exp, " + FRP("bn") + ", " + FRS("base"), "exp",
    "bn=bn exp=exp base=1::base")],
})

def compose(fns):
    return {"functions": [{fn: LOOPS[fn]} for fn in fns]}
