/* C01 rung 3: modular layer (modular proofs: rung 1/2 callees replaced by their contracts).
 * -DVF_FN_<name> selects the function.  Harness-owned objects; sel bit 0: n aliases bn. */
#include "contracts/bn.h"

void harness(void) {
	VF_NONDET_OBJ(bn_t, A);
	VF_NONDET_OBJ(bn_t, B);
	VF_NONDET_OBJ(bn_t, M);
	VF_NONDET(bn_digit_t, d);
	VF_NONDET(size_t, k);
	VF_NONDET(uint8_t, sel);
	bn_p a = &A, b = (sel & 1) ? &A : &B, m = &M;
	int e = 0;
	VF_ASSUME(VF_BN_WF(A) && VF_BN_WF(B) && VF_BN_WF(M));

#if defined(VF_FN_mod)
	e = bn_mod(a, (sel & 1) ? a : m, NULL);
#elif defined(VF_FN_mod_add)
	e = bn_mod_add(a, b, m, NULL);
#elif defined(VF_FN_mod_sub)
	e = bn_mod_sub(a, b, m, NULL);
#elif defined(VF_FN_mod_mult)
	e = bn_mod_mult(a, b, m, NULL);
#elif defined(VF_FN_mod_mult_digit)
	e = bn_mod_mult_digit(a, d, m, NULL);
#elif defined(VF_FN_mod_square)
	e = bn_mod_square(a, m, NULL);
#elif defined(VF_FN_mod_reduce)
	VF_ASSUME(M.digits >= 2 || (M.digits == 1 && M.num[0] >= 2));
	e = bn_mod_reduce(a, m, NULL);
#elif defined(VF_FN_sqrt1)
	e = bn_sqrt1(a);
#elif defined(VF_FN_exp_digit)
	e = bn_exp_digit(a, d);
#elif defined(VF_FN_gcd) || defined(VF_FN_gcd_bin)
	{
		VF_NONDET_OBJ(bn_t, G);
		VF_ASSUME(G.count >= 1 && G.count <= BN_MAX_DIGITS);
#ifdef VF_MAXVAL_DIGITS	/* operands of at most that many digits (capacity may be larger) */
		VF_ASSUME(A.digits <= VF_MAXVAL_DIGITS && B.digits <= VF_MAXVAL_DIGITS);
#endif
#if defined(VF_FN_gcd)
		e = bn_gcd(&G, a, b);
#else
		e = bn_gcd_bin(&G, a, b);
#endif
	}
#elif defined(VF_FN_mod_inv_bin)
#ifdef VF_MAXVAL_DIGITS
	VF_ASSUME(A.digits <= VF_MAXVAL_DIGITS && M.digits <= VF_MAXVAL_DIGITS);
#endif
	e = bn_mod_inv_bin(a, m, NULL);
#elif defined(VF_FN_mod_legendre)
	e = bn_mod_legendre(a, m, NULL);
#elif defined(VF_FN_mod_sqrt)
	e = bn_mod_sqrt(a, m, NULL);
#elif defined(VF_FN_mod_exp_digit)
	e = bn_mod_exp_digit(a, k, m, NULL);
#elif defined(VF_FN_mod_exp)
	e = bn_mod_exp(a, &B, m, NULL);
#elif defined(VF_FN_mod_div)
	e = bn_mod_div(a, &B, m, NULL);
#else
#error "select a function with -DVF_FN_<name>"
#endif
	(void)e; (void)d; (void)k; (void)b;
	VF_CANARY("bn3 harness end");
}
