/* C01 rung 0: digit primitives, whole input space symbolic (route "finite").
 * -DVF_FN_<name> selects the function; configuration via -DBN_DIGIT_BIT_CNT / -DBN_CC_MULL_DIV. */
#include "contracts/bn.h"

#ifdef VF_REPLAY
#if BN_DIGIT_BIT_CNT <= 32
typedef uint64_t vf_ndd_t;
#else
typedef unsigned __int128 vf_ndd_t;
#endif
#define VF_NDD(hi, lo)	((((vf_ndd_t)(hi)) << BN_DIGIT_BIT_CNT) | (vf_ndd_t)(lo))
#endif

void harness(void) {
	VF_NONDET(bn_digit_t, a);
	VF_NONDET(bn_digit_t, b);
	VF_NONDET(bn_digit_t, c);
	bn_digit_t o1 = 0, o2 = 0, o3 = 0, o4 = 0;
	size_t r = 0;
	int e = 0;

#if defined(VF_FN_is_even)
	e = bn_digit_is_even(a);
#elif defined(VF_FN_is_odd)
	e = bn_digit_is_odd(a);
#elif defined(VF_FN_bits)
	r = bn_digit_bits(a);
	VF_NATIVE_POST(r == (size_t)__builtin_popcountll((unsigned long long)a), "popcount");
#elif defined(VF_FN_ctz)
	r = bn_digit_ctz(a);
#elif defined(VF_FN_ffs)
	r = bn_digit_ffs(a);
#elif defined(VF_FN_clz)
	r = bn_digit_clz(a);
#elif defined(VF_FN_is_pow2)
	/* macro, no contract: direct assertion against the popcount spec */
	e = bn_digit_is_pow2(a);
#ifndef VF_REPLAY
	VF_ASSERT((e != 0) == (vf_d_popcount(a) == 1), "bn_digit_is_pow2 == (popcount == 1)");
#endif
#elif defined(VF_FN_mult__int)
	bn_digit_mult__int(a, b, &o1, &o2);
	VF_NATIVE_POST(VF_NDD(o2, o1) == ((vf_ndd_t)a) * ((vf_ndd_t)b), "hi:lo == a*b");
#elif defined(VF_FN_mult)
	{
		VF_NONDET(uint8_t, sel);
		bn_digit_mult(a, b, (sel & 1) ? &o1 : NULL, (sel & 2) ? &o2 : NULL);
	}
#elif defined(VF_FN_div__int)
	e = bn_digit_div__int(a, b, c, &o1, &o2, &o3, &o4);
	VF_NATIVE_POST((e == EINVAL) == (c == 0), "EINVAL iff divisor 0");
	VF_NATIVE_POST(c == 0 || (o4 == 0 && o3 < c &&
	    VF_NDD(o2, o1) == VF_NDD(b, a) / c && o3 == (bn_digit_t)(VF_NDD(b, a) % c)), "q*d + r == n, r < d, rem_hi == 0");
#elif defined(VF_FN_div__int_short)
	e = bn_digit_div__int_short(a, b, c, &o1);
	VF_NATIVE_POST(c == 0 || o1 == (bn_digit_t)(VF_NDD(b, a) / c), "low quotient digit");
#elif defined(VF_FN_div)
	{
		VF_NONDET(uint8_t, sel);
		e = bn_digit_div(a, b, c, (sel & 1) ? &o1 : NULL, (sel & 2) ? &o2 : NULL,
		    (sel & 4) ? &o3 : NULL, (sel & 8) ? &o4 : NULL);
	}
#elif defined(VF_FN_gcd)
	o1 = bn_digit_gcd(a, b);
#elif defined(VF_FN_gcd_bin)
	o1 = bn_digit_gcd_bin(a, b);
#else
#error "select a function with -DVF_FN_<name>"
#endif
	(void)r; (void)e; (void)o1; (void)o2; (void)o3; (void)o4; (void)b; (void)c;
	VF_CANARY("digit harness end");
}
