/* C01 rung 1: import / export.  -DVF_FN_<name> selects the function; -DVF_IO_DIGITS selects the
 * digit-array level (safety: exact-size heap spans), otherwise the bn_t level (value contracts,
 * buffer of at most VF_IO_MAXBUF bytes held in a recorded struct: replayable). */
#include "contracts/bn.h"

#ifndef VF_IO_MAXBUF
#define VF_IO_MAXBUF	32
#endif
#ifndef VF_BN_MAXCOUNT
#define VF_BN_MAXCOUNT	BN_MAX_DIGITS
#endif
#define VF_DSZ	((size_t)(BN_DIGIT_BIT_CNT / 8))

void harness(void) {
	VF_NONDET(size_t, buf_size);
	VF_NONDET(size_t, count);
	VF_NONDET(uint32_t, flags);
	VF_NONDET(uint8_t, sel);
	size_t ret = 0, *pret = (sel & 1) ? NULL : &ret;
	int e = 0;
	VF_ASSUME(buf_size <= VF_IO_MAXBUF);
#ifdef VF_IO_DIGITS
	VF_ASSUME(count <= VF_BN_MAXCOUNT);
	VF_BN_ALLOC(bn_digit_t, a, count * VF_DSZ);
	VF_BN_ALLOC(uint8_t, buf, buf_size);
#if defined(VF_FN_import_be_bin)
	e = bn_digits_import_be_bin(a, count, buf, buf_size, pret);
#elif defined(VF_FN_import_le_bin)
	e = bn_digits_import_le_bin(a, count, buf, buf_size, pret);
#elif defined(VF_FN_import_be_hex)
	e = bn_digits_import_be_hex(a, count, buf, buf_size);
#elif defined(VF_FN_import_le_hex)
	e = bn_digits_import_le_hex(a, count, buf, buf_size);
#elif defined(VF_FN_export_be_bin)
	e = bn_digits_export_be_bin(a, count, flags, buf, buf_size, pret);
#elif defined(VF_FN_export_le_bin)
	e = bn_digits_export_le_bin(a, count, flags, buf, buf_size, pret);
#elif defined(VF_FN_export_be_hex)
	e = bn_digits_export_be_hex(a, count, flags, buf, buf_size, pret);
#elif defined(VF_FN_export_le_hex)
	e = bn_digits_export_le_hex(a, count, flags, buf, buf_size, pret);
#else
#error "select a function"
#endif
#else /* bn_t level */
	VF_NONDET_OBJ(bn_t, A);
	VF_NONDET_BYTES(B, VF_IO_MAXBUF + 1);
	uint8_t *buf = B.b;
	(void)count;
#if defined(VF_FN_import_be_bin) || defined(VF_FN_import_le_bin) || defined(VF_FN_import_be_hex) || defined(VF_FN_import_le_hex)
	VF_ASSUME(A.count >= 1 && A.count <= BN_MAX_DIGITS && A.digits <= A.count);
#else
	VF_ASSUME(VF_BN_WF(A));
#endif
#if defined(VF_FN_import_be_bin)
	e = bn_import_be_bin(&A, buf, buf_size);
#elif defined(VF_FN_import_le_bin)
	e = bn_import_le_bin(&A, buf, buf_size);
#elif defined(VF_FN_import_be_hex)
	e = bn_import_be_hex(&A, buf, buf_size);
#elif defined(VF_FN_import_le_hex)
	e = bn_import_le_hex(&A, buf, buf_size);
#elif defined(VF_FN_export_be_bin)
	e = bn_export_be_bin(&A, flags, buf, buf_size, pret);
#elif defined(VF_FN_export_le_bin)
	e = bn_export_le_bin(&A, flags, buf, buf_size, pret);
#elif defined(VF_FN_export_be_hex) || defined(VF_FN_export_le_hex)
	/* "plain" jobs (no --dfcc): the functions keep a function-scope `static const uint8_t *hex_tbl`,
	 * a mutable static that --dfcc would havoc and that a harness cannot name.  The contract of
	 * contracts/bn_io.h is asserted here instead; the frame is checked with a sentinel byte. */
	VF_ASSUME(buf_size >= 1);
	uint8_t sentinel = buf[buf_size];
	bn_t A0 = A;
#if defined(VF_FN_export_be_hex)
	e = bn_export_be_hex(&A, flags, buf, buf_size, &ret);
#define VF_HEX_VAL	vf_hex_be_val
#else
	e = bn_export_le_hex(&A, flags, buf, buf_size, &ret);
#define VF_HEX_VAL	vf_hex_le_val
#endif
#ifndef VF_REPLAY
	VF_ASSERT(e == 0 || e == EINVAL || e == EOVERFLOW, "export hex: return code");
	VF_ASSERT((e == EINVAL) == (buf_size < 2), "export hex: EINVAL iff buf_size < 2");
#if defined(VF_FN_export_be_hex)
	VF_ASSERT(e != EOVERFLOW || VF_BN_VAL(A) >= VF_POW2(4 * (buf_size & ~(size_t)1)), "export hex: EOVERFLOW only if the number does not fit");
#else	/* little-endian text carries whole digits, as coded */
	VF_ASSERT(e != EOVERFLOW || 2 * A.digits * sizeof(bn_digit_t) > buf_size, "export hex: EOVERFLOW only if the digits do not fit");
#endif
	VF_ASSERT(e != 0 || (ret <= buf_size && (ret % 2) == 0), "export hex: reported length even and within the buffer");
	VF_ASSERT(e != 0 || vf_hex_digits(buf, ret) == ret, "export hex: text consists of hex digits");
	VF_ASSERT(e != 0 || VF_HEX_VAL(buf, ret) == VF_BN_VAL(A), "export hex: text denotes the number");
	VF_ASSERT(e != 0 || ret == buf_size || buf[ret] == 0, "export hex: NUL terminated when there is room");
	VF_ASSERT(buf[buf_size] == sentinel, "export hex: nothing written past buf_size");
	VF_ASSERT(A.count == A0.count && A.digits == A0.digits && VF_BN_VAL(A) == VF_BN_VAL(A0), "export hex: number unchanged");
#endif
#else
#error "select a function"
#endif
#endif
	(void)e; (void)pret; (void)flags;
	VF_CANARY("io harness end");
}
