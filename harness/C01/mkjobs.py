#!/usr/bin/env python3
"""Generates obligations/C01.json (job registry of property C01).  Run: python3 harness/C01/mkjobs.py"""
import json, os, sys
sys.path.insert(0, os.path.dirname(os.path.abspath(__file__)))
from loopdefs import compose
VERIF = os.path.dirname(os.path.dirname(os.path.dirname(os.path.abspath(__file__))))
jobs = []

def cfg(W, cc, bitlen=None, extra=()):
    d = ["BN_DIGIT_BIT_CNT=%d" % W, "BN_BIT_LEN=%d" % (bitlen or 4 * W)]
    if cc:
        d.append("BN_CC_MULL_DIV")
    return d + list(extra)

def job(name, harness, defines, **kw):
    j = {"name": name, "harness": "harness/C01/" + harness, "defines": defines}
    j.update(kw)
    jobs.append(j)
    return j

# ------------------------------------------------------------------ rung 0
R0_PLAIN = {"is_even": "bn_digit_is_even", "is_odd": "bn_digit_is_odd", "bits": "bn_digit_bits",
            "ctz": "bn_digit_ctz", "ffs": "bn_digit_ffs", "clz": "bn_digit_clz"}
for W in (8, 16, 32, 64):
    tier = "quick" if W in (8, 64) else "thorough"
    for fn, full in R0_PLAIN.items():
        job("r0.%s.w%d" % (full, W), "digit.c", cfg(W, True, extra=["VF_FN_" + fn]),
            enforce=[full], functions=[full], route="finite", tier=tier, timeout=120,
            cbmc=["--unwind", str(W + 2), "--unwinding-assertions"])
    job("r0.bn_digit_is_pow2.w%d" % W, "digit.c", cfg(W, True, extra=["VF_FN_is_pow2"]),
        mode="plain", functions=["bn_digit_is_pow2"], route="finite", tier=tier, timeout=120,
        cbmc=["--unwind", str(W + 2), "--unwinding-assertions"])

R0_CFG = {"mult__int": ("bn_digit_mult__int", 0), "mult": ("bn_digit_mult", 0),
          "div__int": ("bn_digit_div__int", 2), "div__int_short": ("bn_digit_div__int_short", 2),
          "div": ("bn_digit_div", 2)}
for W in (8, 16, 32, 64):
    for cc in (True, False):
        tier = "quick" if W in (8, 64) else "thorough"
        for fn, (full, loopk) in R0_CFG.items():
            if fn == "div" and W == 64:
                continue  # 192-bit products in the assumed and the asserted clause: > 600 s, see not_covered
            if fn in ("div__int", "div__int_short") and W >= 16:
                continue  # divider/multiplier miter: > 600 s on kissat at W = 16 and 32 (both builds), see not_covered
            extra = ["VF_FN_" + fn]
            fns = [full]
            kw = {}
            name = "r0.%s.w%d.%s" % (full, W, "cc" if cc else "port")
            if fn == "mult__int" and not cc and W >= 16:
                # general Knuth-M path undecided for W >= 16 (measured): shortcut paths only
                extra.append("VF_BN_MULT_SHORTCUT_ONLY")
                name += ".shortcut"
            enforce = [full]
            replace = []
            if fn == "mult":
                replace = ["bn_digit_mult__int"]
            if fn == "div":
                replace = ["bn_digit_div__int"]
            unwind = (2 * W + 3) if (loopk and not cc) else (W + 2)
            job(name, "digit.c", cfg(W, cc, extra=extra), enforce=enforce, replace=replace, functions=fns,
                route="finite", tier=tier, timeout=300, backend="kissat",
                cbmc=["--unwind", str(unwind), "--unwinding-assertions"], **kw)

# ------------------------------------------------------------------ rung 0: exhaustive native enumeration at W = 16, portable build
job("r0.native.bn_digit_mult__int.w16.port", "native_digit16.c", ["BN_DIGIT_BIT_CNT=16", "BN_BIT_LEN=64", "VF_FN_mult"],
    mode="native", functions=["bn_digit_mult__int"], route="finite", tier="thorough", timeout=900,
    bound="exhaustive native enumeration of all 2^32 operand pairs at W = 16, portable body (not a deductive obligation)")

# ------------------------------------------------------------------ rung 1 (a): digit arrays, unbounded safety
def loops_file(key, fns, maxd=None, variant=None):
    path = os.path.join(VERIF, "loops", "bn_%s.json" % key)
    json.dump(compose(fns, maxd, variant), open(path, "w"), indent=1)
    return "loops/bn_%s.json" % key

R1A = {  # fn -> functions with loops reachable from it
    "calc_digits": ["bn_digits_calc_digits"], "cmp": ["bn_digits_cmp"], "assign_zero": [],
    "l_shift": ["bn_digits_l_shift"], "r_shift": ["bn_digits_r_shift"],
    "add_digit": ["bn_digits_add_digit"], "add": ["bn_digits_add", "bn_digits_add_digit"],
    "sub_digit": ["bn_digits_sub_digit"], "sub__int": ["bn_digits_sub__int", "bn_digits_sub_digit"],
    "sub": ["bn_digits_sub__int", "bn_digits_sub_digit"]}
SAFETY_ASSUME = ["unbounded digit-array jobs: arrays are exact-size heap objects of symbolic length <= 4096 digits; loops are closed by loop contracts (no unwinding); the cap only keeps cbmc --trace output of the reachability canary finite"]
for W in (8, 16, 32, 64):
    tier = "quick" if W in (8, 64) else "thorough"
    for fn, lf in R1A.items():
        if fn in ("l_shift", "r_shift"):
            continue  # memmove/memset with symbolic length: no result in 55 min at W = 8 even with "trace": false (not_covered)
        full = "bn_digits_" + fn
        kw = {}
        if lf:
            kw["loops"] = loops_file("digits_" + fn, lf)
        job("r1a.%s.safety.w%d" % (full, W), "digits.c",
            cfg(W, True, extra=["VF_FN_" + fn, "VF_BN_SAFETY_ONLY"]),
            enforce=[full], functions=[full], route="unbounded", tier=tier if fn not in ("l_shift", "r_shift") else "thorough",
            timeout=240 if fn not in ("l_shift", "r_shift") else 2700, trace=(fn not in ("l_shift", "r_shift")),
            assumptions=SAFETY_ASSUME, foreach=[{"SZ": W // 8}], **kw)

# ------------------------------------------------------------------ rung 1 (b): digit arrays, value contracts (bounded by capacity)
MEM_ASSUME = "libc model: memset/memcpy/memmove are the byte loops of stubs/bn.h (cbmc 6.11's builtin array_replace model is imprecise for arrays of digits wider than 8 bit with symbolic length)"
def memcfg(W, nbytes, uses_mem):
    """(extra defines, cbmc unwind flags tail, assumptions) for code that calls memset/memcpy/memmove"""
    if W > 8 and uses_mem:
        k = nbytes + 2
        return (["VF_BN_MEM_MODELS"],
                ["--unwindset", "memset.0:%d,memcpy.0:%d,memmove.0:%d,memmove.1:%d" % (k, k, k, k)],
                [MEM_ASSUME])
    return ([], [], [])

USES_MEM = {"assign_zero", "l_shift", "r_shift", "sub__int", "sub"}
for W, nd, tier in ((8, 4, "quick"), (64, 4, "quick"), (64, 2, "quick"), (16, 4, "thorough"), (32, 4, "thorough"), (8, 8, "thorough")):
    for fn, lf in R1A.items():
        if nd == 2 and fn not in ("l_shift", "r_shift"):
            continue
        full = "bn_digits_" + fn
        d, uw, asm = memcfg(W, nd * W // 8, fn in USES_MEM)
        job("r1b.%s.value.w%d.n%d" % (full, W, nd), "digits.c",
            cfg(W, True, bitlen=W * nd, extra=["VF_FN_" + fn] + d),
            enforce=[full], functions=[full], route="bounded",
            bound="count <= %d digits of %d bit (symbolic count, content and aliasing)" % (nd, W),
            tier=tier, timeout=300, assumptions=asm,
            cbmc=["--unwind", str(nd + 2)] + uw + ["--unwinding-assertions"])

# ------------------------------------------------------------------ rung 1 (c): bn_t level value contracts (bounded by capacity)
R1C = ["init", "calc_digits", "update", "init_digits__int", "update_digits__int", "calc_bits", "ctz", "clz",
       "is_zero", "is_one", "is_pow2", "is_even", "is_odd", "cmp", "is_equal", "is_bit_set", "bit_set",
       "assign", "assign_init", "assign_zero", "assign_2exp", "assign_digit", "l_shift", "r_shift",
       "and", "or", "xor", "add_digit", "add", "sub_digit", "sub"]
R1C_MEM = {"assign", "assign_init", "l_shift", "r_shift", "sub"}
for W, nd, tier in ((8, 4, "quick"), (64, 4, "quick"), (64, 2, "quick"), (16, 4, "thorough"), (32, 4, "thorough"), (8, 8, "thorough")):
    for fn in R1C:
        if nd == 2 and fn not in ("l_shift", "r_shift"):
            continue
        full = "bn_" + fn
        d, uw, asm = memcfg(W, nd * W // 8, fn in R1C_MEM)
        job("r1c.%s.w%d.n%d" % (full, W, nd), "bn1.c",
            cfg(W, True, bitlen=W * nd, extra=["VF_FN_" + fn] + d),
            enforce=[full], functions=[full], route="bounded",
            bound="capacity BN_MAX_DIGITS = %d digits of %d bit (symbolic count, digits, stale digits, aliasing)" % (nd, W),
            tier=tier, timeout=300, assumptions=asm,
            cbmc=["--unwind", str(nd + 2)] + uw + ["--unwinding-assertions"])

# ------------------------------------------------------------------ rung 1 (d): import / export
IO_FNS = ["import_be_bin", "import_le_bin", "import_be_hex", "import_le_hex",
          "export_be_bin", "export_le_bin", "export_be_hex", "export_le_hex"]
IO_MEM = {"import_be_bin", "import_le_bin", "import_be_hex", "import_le_hex", "export_be_bin", "export_le_bin", "export_be_hex", "export_le_hex"}
# value contracts at the bn_t level, bounded: (W, digits, max buffer bytes, tier)
for W, nd, mb, tier in ((8, 6, 8, "quick"), (64, 2, 18, "thorough"), (32, 2, 10, "thorough"), (16, 3, 8, "thorough")):
    for fn in IO_FNS:
        if W == 64 and fn.startswith("export") and fn.endswith("hex"):
            continue  # symex runs out of memory (12 GB) - listed in not_covered
        full = "bn_" + fn
        hexfn = fn.endswith("hex")
        bufmax = mb if not hexfn else min(mb, 10)
        d, uw, asm = memcfg(W, max(nd * W // 8, bufmax) + 1, True)
        plain = fn in ("export_be_hex", "export_le_hex")
        job("r1d.%s.w%d.n%d" % (full, W, nd), "io.c",
            cfg(W, True, bitlen=W * nd, extra=["VF_FN_" + fn, "VF_IO_MAXBUF=%d" % bufmax] + d),
            enforce=[] if plain else [full], mode="plain" if plain else "dfcc",
            functions=[full, "bn_digits_" + fn], route="bounded",
            bound="capacity %d digits of %d bit, buffer <= %d bytes (symbolic sizes, content, flags, stale digits)" % (nd, W, bufmax),
            tier=tier, timeout=600, assumptions=asm, foreach=[{"W": W}],
            cbmc=["--unwind", str(max(nd * W // 8, bufmax) + 3)] + uw + ["--unwinding-assertions"])

# ------------------------------------------------------------------ rung 2: multiplicative layer (modular, W=8, small capacities)
def vb(bitlen):  # narrow spec vector for product/division specs
    return ["VF_BN_VBITS=%d" % (2 * bitlen + 16)]
DISTRIB_ASSUME = "algebraic glue (not checked by CBMC): sum_i (d*b_i)*B^i == d * sum_i b_i*B^i - the digit-array multiply functions are proved against the sum of per-digit products; their callers use the closed product form"
R2 = [
 # (key, enforced, replaced callees, digit counts quick, thorough)
 ("digits_mult_digit", "bn_digits_mult_digit__int", ["bn_digit_mult__int", "bn_digits_l_shift", "bn_digit_ctz"], (4,), ()),
 ("digits_add_digit_mult", "bn_digits_add_digit_mult__int", ["bn_digit_mult__int", "bn_digits_add", "bn_digits_add_digit"], (4,), ()),
 ("digits_sub_digit_mult", "bn_digits_sub_digit_mult__int", ["bn_digit_mult__int", "bn_digits_sub__int", "bn_digits_sub_digit"], (4,), ()),
 ("mult", "bn_mult", ["bn_digits_add_digit_mult__int", "bn_assign_init", "bn_cmp", "bn_is_zero", "bn_assign_zero", "bn_init_digits__int", "bn_update_digits__int"], (2,), (3,)),
 ("square", "bn_square", ["bn_mult"], (2,), (4,)),
 ("mult_digit", "bn_mult_digit", ["bn_digits_mult_digit__int", "bn_add", "bn_assign_init", "bn_is_zero", "bn_assign_zero", "bn_init_digits__int", "bn_update_digits__int"], (3,), (4,)),
]
for key, full, repl, qn, tn in R2:
    for nd in tuple(qn) + tuple(tn):
        tier = "quick" if nd in qn else "thorough"
        W = 8
        job("r2.%s.w%d.n%d" % (full, W, nd), "bn2.c",
            cfg(W, True, bitlen=W * nd, extra=["VF_FN_" + key] + vb(W * nd) + ([] if key.startswith("digits_") else ["VF_BN_ASSUME_DISTRIB"])),
            enforce=[full], replace=repl, functions=[full], route="bounded", backend="kissat",
            assumptions=[] if key.startswith("digits_") else [DISTRIB_ASSUME],
            bound="W = 8, capacity %d digits (symbolic count, digits, stale digits, aliasing); callees replaced by their rung 0/1 contracts" % nd,
            tier=tier, timeout=600, cbmc=["--unwind", str(max(nd + 2, W + 2)), "--unwindset", "vf_d_clz.0:10,vf_d_ctz.0:10,vf_d_popcount.0:10,__CPROVER_contracts_write_set_check_assigns_clause_inclusion.0:40,__CPROVER_contracts_write_set_check_frees_clause_inclusion.0:40", "--unwinding-assertions", "--object-bits", "10"])

DIV_REPL = ["bn_is_zero", "bn_cmp", "bn_assign_digit", "bn_assign_zero", "bn_assign", "bn_digit_clz", "bn_assign_init",
            "bn_init_digits__int", "bn_l_shift", "bn_r_shift", "bn_digit_div__int_short", "bn_digits_sub_digit_mult__int",
            "bn_digits_cmp", "bn_digits_sub__int", "bn_update_digits__int"]
def div_cbmc(cap):
    # per-loop bounds (symbolic execution of 7 x 7 nested iterations with contract instrumentation takes > 15 min):
    # loop .0 = quotient-correction while loop, .1 = loop over the quotient digits (<= cap iterations)
    us = "bn_div_wrapped_for_contract_checking.0:6,bn_div_wrapped_for_contract_checking.1:%d," % (cap + 2)
    return ["--unwind", "3", "--unwindset", us + "vf_d_clz.0:10,vf_d_ctz.0:10,vf_d_popcount.0:10,__CPROVER_contracts_write_set_check_assigns_clause_inclusion.0:40,__CPROVER_contracts_write_set_check_frees_clause_inclusion.0:40", "--unwinding-assertions", "--object-bits", "12"]
DIV_FORMS = {0: "separate remainder", 1: "remainder NULL", 2: "remainder == bn", 3: "bn == d"}
for cap, tier, tmo in ((1, "quick", 2400), (2, "thorough", 7200)):
    for form, ftxt in DIV_FORMS.items():
        job("r2.bn_div.w8.cap%d.form%d" % (cap, form), "bn2.c",
            cfg(8, True, bitlen=16, extra=["VF_FN_div", "VF_DIV_FORM=%d" % form, "VF_DIV_MAXCOUNT=%d" % cap, "VF_BN_ASSUME_DISTRIB"] + vb(16)),
            enforce=["bn_div"], replace=DIV_REPL, functions=["bn_div"], route="bounded", backend="kissat",
            bound="W = 8, build with BN_MAX_DIGITS = 2, dividend capacity and divisor <= %d digit(s), %s; quotient-digit loop and quotient-correction loop (<= 5 corrections) fully unwound, exceeding the bound is a violation; callees replaced by their contracts" % (cap, ftxt),
            assumptions=[DISTRIB_ASSUME], tier=tier, timeout=tmo, timeout_thorough=tmo, unwind_violation=True, mem_gb=28, cbmc=div_cbmc(cap))

# ------------------------------------------------------------------ rung 2: recodings (plain, monolithic, bounded scalars)
for key, full in (("naf", "bn_calc_naf"), ("jsf", "bn_calc_jsf"), ("combo", "bn_combo_column_get")):
    for bits, tier in ((8, "quick"), (16, "thorough")):
        if (key == "combo" and bits == 16) or (key == "naf" and bits == 16):
            continue  # naf at 16-bit scalars: > 1800 s
        k = bits + 4
        us = "harness.0:60,harness.1:60,harness.2:60,harness.3:60,bn_calc_naf.0:%d,bn_calc_naf.1:%d,bn_calc_jsf.0:%d,bn_calc_jsf.1:%d,bn_calc_jsf.2:%d,vf_small_bits.0:34,vf_small_val.0:6,bn_combo_column_get.0:12" % (k, k, k, k, k)
        job("r2.%s.w8.b%d" % (full, bits), "recode.c", cfg(8, True, bitlen=bits + 8, extra=["VF_FN_" + key, "VF_RC_BITS=%d" % bits]),
            mode="plain", functions=[full], route="bounded",
            bound="W = 8, scalars of at most %d bit (every value incl. zero, stale digits, symbolic array size%s); whole function executed, loops fully unwound" % (bits, ", window 2..5" if key == "naf" else ""),
            tier=tier, timeout=900, backend="kissat",
            cbmc=["--unwind", "5", "--unwindset", us, "--unwinding-assertions"])

# ------------------------------------------------------------------ rung 3, straight-line modular compositions (modular proofs)
R3 = [
 ("mod", "bn_mod", ["bn_div"], True),
 ("mod_add", "bn_mod_add", ["bn_add", "bn_cmp", "bn_sub"], False),
 ("mod_sub", "bn_mod_sub", ["bn_cmp", "bn_add", "bn_sub", "bn_mod"], True),
 ("mod_mult", "bn_mod_mult", ["bn_mult", "bn_mod"], True),
 ("mod_mult_digit", "bn_mod_mult_digit", ["bn_mult_digit", "bn_mod"], True),
 ("mod_square", "bn_mod_square", ["bn_mod_mult"], True),
 ("mod_reduce", "bn_mod_reduce", ["bn_cmp", "bn_assign_init", "bn_sub_digit", "bn_mod", "bn_add_digit"], True),
]
for key, full, repl, nonlinear in R3:
    # nonlinear specs (products / remainders of wide values): W = 8, 2 digits closes (kissat, 170-370 s);
    # 4 digits does not (> 1200 s) and is not registered.  bn_mod_add at the shipped W = 64 x 22 digits
    # (2880-bit spec vectors) did not finish in 1200 s either: not registered.
    confs = [(8, 2, "thorough", 32)] if nonlinear else [(8, 4, "quick", 32), (64, 4, "quick", 256)]
    if key == "mod_sub":
        confs = [(8, 2, "quick", 16), (8, 4, "thorough", 32)]
    if key == "mod":
        confs = [(8, 2, "thorough", 16)]
    for W, nd, tier, _ in confs:
        extra = ["VF_FN_" + key]
        if nonlinear:
            extra += vb(W * nd)
        if nd == 22:
            extra += ["BN_NO_POINTERS_CHK", "BN_MOD_REDUCE_ALGO=BN_MOD_REDUCE_ALGO_BASIC"]
        job("r3.%s.w%d.n%d" % (full, W, nd), "bn3.c",
            cfg(W, True, bitlen=W * nd, extra=extra),
            enforce=[full], replace=repl, functions=[full],
            route="bounded",
            bound="W = %d, build with BN_MAX_DIGITS = %d (every capacity, digit count, stale digits and aliasing of that build); callees replaced by their contracts" % (W, nd),
            tier=tier, timeout=600, backend="kissat" if nonlinear else "sat",
            cbmc=["--unwind", str(nd + 2), "--unwindset", "vf_d_clz.0:10,vf_d_ctz.0:10,vf_d_popcount.0:10,__CPROVER_contracts_write_set_check_assigns_clause_inclusion.0:40,__CPROVER_contracts_write_set_check_frees_clause_inclusion.0:40", "--unwinding-assertions", "--object-bits", "10"])

# ------------------------------------------------------------------ rung 3, loop functions: safety / error propagation / domain (modular)
CL = "vf_d_clz.0:10,vf_d_ctz.0:10,vf_d_popcount.0:10,__CPROVER_contracts_write_set_check_assigns_clause_inclusion.0:40,__CPROVER_contracts_write_set_check_frees_clause_inclusion.0:40"
def loopset(fn, n):
    return ",".join("%s.%d:%d" % (fn, k, n) for k in range(16))
R3L = [
 ("mod_div", "bn_mod_div", ["bn_assign_init", "bn_mod_inv_bin", "bn_mod_mult"], "", "bounded", "W = 8, build with BN_MAX_DIGITS = 2; callees replaced by their contracts (bn_mod_inv_bin: status, domain, range - proved by r3.bn_mod_inv_bin.loops)"),
]
for key, full, repl, us, route, bound in R3L:
    W, nd = 8, 2
    job("r3.%s.safety.w%d.n%d" % (full, W, nd), "bn3.c",
        cfg(W, True, bitlen=W * nd, extra=["VF_FN_" + key] + vb(W * nd)),
        enforce=[full], replace=repl, functions=[full], route=route, bound=bound, backend="kissat",
        tier="thorough", timeout=900,
        cbmc=["--unwind", "6", "--unwindset", CL + ("," + us if us else ""), "--unwinding-assertions", "--object-bits", "10"])

# (full unwinding of the rung-3 loop functions with replaced callees exhausts memory in cbmc's SSA conversion: loop contracts instead)
CLU = "vf_d_clz.0:10,vf_d_ctz.0:10,vf_d_popcount.0:10,__CPROVER_contracts_write_set_check_assigns_clause_inclusion.0:40,__CPROVER_contracts_write_set_check_frees_clause_inclusion.0:40"
def lset(fn, n, ids=range(16)):
    # --dfcc renames the body of an enforced function to <fn>_wrapped_for_contract_checking
    return ",".join("%s.%d:%d,%s_wrapped_for_contract_checking.%d:%d" % (fn, k, n, fn, k, n) for k in ids)
# ------------------------------------------------------------------ rung 3, loop functions with loop contracts (iterations unbounded; W = 8, BN_MAX_DIGITS = 2)
R3LC = [
 ("mod_exp_digit", "bn_mod_exp_digit", ["bn_assign_digit", "bn_mod_mult", "bn_assign_init"]),
 ("mod_exp", "bn_mod_exp", ["bn_assign_digit", "bn_mod_mult", "bn_assign_init", "bn_calc_bits", "bn_is_bit_set"]),
 ("exp_digit", "bn_exp_digit", ["bn_assign_digit", "bn_mult", "bn_assign_init", "bn_assign_2exp"]),
]
for key, full, repl in R3LC:
    W, nd = 8, 2
    job("r3.%s.loops.w%d.n%d" % (full, W, nd), "bn3.c",
        cfg(W, True, bitlen=W * nd, extra=["VF_FN_" + key] + vb(W * nd)),
        enforce=[full], replace=repl, functions=[full], route="bounded", backend="kissat",
        bound="W = 8, build with BN_MAX_DIGITS = 2 (every capacity, value, exponent); the exponent loop is closed by a loop contract (invariant: operands well-formed; decreases: remaining exponent bits), so the number of iterations is unbounded; callees replaced by their contracts",
        loops=loops_file(key, [full]), foreach=[{"SZ": 1, "MAXD": nd}],
        tier="thorough", timeout=1800, timeout_thorough=1800,
        cbmc=["--object-bits", "10"])

R3LC2 = [
 ("sqrt1", "bn_sqrt1", ["bn_init", "bn_assign_2exp", "bn_clz", "bn_cmp", "bn_r_shift", "bn_assign", "bn_add", "bn_sub"], 16, []),
# bn_gcd / bn_gcd_bin (contracts in contracts/bn_mod.h, loop contracts in loopdefs.py): symbolic execution does not finish in
# 35 min even at one-digit capacity - the operands are reached through the swapped pointers ta / tb, which doubles every
# dereference inside every replaced callee contract: not registered
 ("mod_inv_bin", "bn_mod_inv_bin", ["bn_cmp", "bn_init", "bn_assign", "bn_assign_digit", "bn_r_shift", "bn_add", "bn_mod_sub"], 56, ["VF_BN_INV_NO_VALUE", "VF_MAXVAL_DIGITS=3"]),
]
MS_REPL = ["bn_mod", "bn_mod_legendre", "bn_assign_init", "bn_add_digit", "bn_sub_digit", "bn_r_shift", "bn_mod_exp", "bn_mod_mult_digit",
           "bn_mod_mult", "bn_mod_square", "bn_init", "bn_assign", "bn_calc_bits", "bn_xor", "bn_ctz", "bn_assign_2exp", "bn_div",
           "bn_mod_inv_bin", "bn_cmp"]
# bn_mod_sqrt: with the FULL callee contracts the job runs out of memory (> 40 GB); see the round-4 jobs with contracts/bn_light.h below
for key, full, repl, bitlen, extra in R3LC2:
    W, nd = 8, bitlen // 8
    job("r3.%s.loops.w%d.n%d" % (full, W, nd), "bn3.c",
        cfg(W, True, bitlen=bitlen, extra=["VF_FN_" + key] + vb(bitlen) + extra),
        enforce=[full], replace=repl, functions=[full], route="bounded", backend="kissat",
        bound="W = 8, build with BN_MAX_DIGITS = %d; every loop is closed by a loop contract (invariant: operands well-formed and in range; decreases: the remaining value), so the number of iterations is unbounded and termination is proved; callees replaced by their contracts" % nd,
        loops=loops_file(key + "_lc", [full], maxd=nd), foreach=[{"SZ": 1, "MAXD": nd}],
        tier="thorough", timeout=3600, timeout_thorough=3600, mem_gb=24,
        cbmc=["--object-bits", "10"])

# (bn_mod_inv_bin with the textbook invariant x1*a == u, x2*a == v (mod m) - loopdefs.inv_value_loops - ran 45 min on kissat
# without a result at operands < 2^8: the value clause of the inverse stays unproved, see not_covered)
# bn_mod_legendre: straight-line over its callees
job("r3.bn_mod_legendre.w8.n2", "bn3.c", cfg(8, True, bitlen=16, extra=["VF_FN_mod_legendre"] + vb(16)),
    enforce=["bn_mod_legendre"], replace=["bn_assign_init", "bn_mod", "bn_sub_digit", "bn_r_shift", "bn_mod_exp", "bn_cmp"],
    functions=["bn_mod_legendre"], route="bounded", backend="kissat",
    bound="W = 8, build with BN_MAX_DIGITS = 2; callees replaced by their contracts", tier="thorough", timeout=1800, timeout_thorough=1800,
    cbmc=["--unwind", "4", "--unwindset", CLU, "--unwinding-assertions", "--object-bits", "10"])

# ------------------------------------------------------------------ bn_mod_sqrt (round 4): light callee contracts (contracts/bn_light.h)
for var, extra, txt in (("stub", [], "frame (only bn->digits / bn->num), status set {0, -1, EINVAL, EOVERFLOW}, EINVAL for an even or zero modulus, well-formed result on success, termination of both Tonelli-Shanks loops"),
                        ("range", ["VF_MS_RANGE"], "the same plus: success implies result < m"),
                        ):  # ("root", ["VF_MS_VALUE"], ...): success implies result^2 == input (mod m) - did not close, see not_covered
    job("r3.bn_mod_sqrt.%s.w8.n7" % var, "bn3.c",
        cfg(8, True, bitlen=56, extra=["VF_FN_mod_sqrt", "VF_BN_LIGHT_SET"] + extra + vb(56)),
        enforce=["bn_mod_sqrt"], replace=MS_REPL, functions=["bn_mod_sqrt"], route="bounded", backend="kissat",
        bound="W = 8, build with BN_MAX_DIGITS = 7 (every capacity, value and modulus of that build); both loops closed by loop contracts; the 19 callees replaced by the light contracts of contracts/bn_light.h (same requires/assigns, subset of the ensures of their enforced C01 contracts): " + txt,
        loops=loops_file("mod_sqrt_lc" + ("_range" if var == "range" else ""), ["bn_mod_sqrt"], maxd=7, variant=("ms_range" if var == "range" else None)), foreach=[{"SZ": 1, "MAXD": 7}],
        tier="thorough", timeout=2400, timeout_thorough=2400, mem_gb=30, trace=(var == "stub"), cbmc=["--object-bits", "11"])

# ------------------------------------------------------------------ tier overrides from measured times (quick: <= ~90 s each on an idle 16-core box)
import re
TIER_OVERRIDE = [
    (r"^r1a\.bn_digits_(add|sub|sub__int)\.safety\.w64$", "thorough"),
    (r"^r1[bc]\..*_(l|r)_shift(\.value)?\.w64\.n4$", "thorough"),
    (r"^r0\.bn_digit_div__int(_short)?\.w64\.", "thorough"),
    (r"^r2\.bn_calc_(naf|jsf)\.", "thorough"),
    (r"^r2\.bn_calc_jsf\.w8\.b8$", "quick"),  # (last match wins) quick tier: catches a dropped JSF carry (seeded C02-m3)
    (r"^r2\.bn_mult_digit\.w8\.n3$", "quick"),
    (r"^r2\.bn_div\.w8\.cap1\.form[013]$", "thorough"),  # quick tier keeps cap1.form2 (remainder == bn, the bn_mod form): detects seeded C01-m2
]
for j in jobs:
    for rx, t in TIER_OVERRIDE:
        if re.search(rx, j["name"]):
            j["tier"] = t
    if j.get("tier", "quick") == "quick":
        j["timeout"] = max(j.get("timeout", 300), 600)

EXPLANATION = (
 "include/math/big_num.h is verified as a ladder of CBMC code contracts written on redeclarations that follow the "
 "unmodified header (contracts/bn*.h; specs/bn_spec.h: wf(bn), val(bn) as unsigned __CPROVER_bitvector[2*BN_BIT_LEN+64]). "
 "Rung 0 (r0.*): digit primitives over their whole input space (route finite) for W in {8,16,32,64}, BN_CC_MULL_DIV on and off. "
 "Rung 1: digit-array functions - unbounded memory safety / frame / termination / carry,borrow in {0,1} with loop contracts "
 "(r1a.*), value contracts val' == (val +- n) mod 2^(W*count) etc. by full unwinding at fixed capacities (r1b.*); bn_t level "
 "structural, bitwise, additive functions with symbolic count, digits, STALE digits above `digits` and harness-chosen aliasing "
 "(r1c.*); import/export be/le x bin/hex against the number the bytes/text denote (r1d.*). "
 "Rung 2 (r2.*): multiplicative layer, modular (callees replaced by their contracts), W = 8 and <= 4 digits: digit-array "
 "multiply-accumulate functions against the sum of per-digit products, bn_mult / bn_square / bn_mult_digit against the "
 "exact product; bn_div (all four remainder forms, W = 8, dividend capacity 1 and 2 digits) against its EOVERFLOW/EINVAL decision and "
 "q*d + r == n, r < d, with the quotient-digit and quotient-correction loops fully unwound; NAF / JSF / comb column by executing the whole function for every scalar up to 8 (16) bits. "
 "Rung 3 (r3.*): bn_mod, bn_mod_add/sub/mult/mult_digit/square/reduce value contracts proved modularly (bn_mod_add/sub at "
 "4 digits, W = 8 and 64; the ones whose specification contains products or remainders at W = 8, 2 digits); bn_mod_div: return-code set, domain checks, error propagation, "
 "well-formed result. Loop functions (second round, r3.*.loops.*): every loop closed by a loop contract, callees replaced by their "
 "contracts - bn_sqrt1 with the textbook invariant (full value contract floor(sqrt)), bn_mod_inv_bin (frame, status, EINVAL domain incl. "
 "even modulus, result < m, termination of all three loops), bn_mod_exp / bn_mod_exp_digit / bn_exp_digit (frame, status, "
 "well-formed result, termination), bn_gcd / bn_gcd_bin, bn_mod_sqrt (status, and: success implies result^2 == input mod m), "
 "bn_mod_legendre (status set). Every harness ends in a reachability canary; failing obligations that were confirmed natively on the "
 "real code are listed in known_findings.d/C01.json with patches in proposed_fixes/bignum-*.diff; the ledger is generated from "
 "the tree that contains those patches.")
ASSUMPTIONS = [
 "bn_mod_sqrt jobs (r3.bn_mod_sqrt.*): callees are replaced by the LIGHT contracts of contracts/bn_light.h, each with the requires/assigns of the enforced C01 contract of that callee and a subset (or direct logical consequence: equal values of well-formed numbers have equal digit counts; x % m < m; a non-zero number has bit length >= 1) of its ensures",
 "CBMC 6.11 C semantics for x86-64 LP64 little endian; contracts are proved at source level: the 'compiler and optimisation level' quantifier of C01 is addressed only through UB-freedom (bounds, pointer, pointer-overflow, shift, signed-overflow, div-by-zero checks are on in every job)",
 "pointers passed to bn_* functions are non-NULL valid objects (the NULL -> EINVAL branches of BN_POINTER_CHK_EINVAL are not exercised); two bn_t operands are the same object or do not overlap",
 "shift domain taken from the call sites: bn_l_shift bits < W*count, bn_r_shift bits < W*digits (bn_digits_l/r_shift bits < W*count); outside it the memmove length / loop bound underflows (DESIGN F2) - every in-tree call site was checked to establish it",
 "value contracts of digit-array functions require a[0] to be readable even for count == 0 (snapshot mechanism of __CPROVER_old); every in-tree call site passes bn->num or &bn->num[j]",
 "bn_mod_add / bn_mod_sub value clauses: operands already reduced (bn, n < m) as at the call sites in elliptic_curve.h",
 "bn_mod_reduce: modulus >= 2",
]
NOT_COVERED = [
 "portable bn_digit_mult__int (no BN_CC_MULL_DIV), general Knuth-M path, W >= 16: undecided by MiniSat, CaDiCaL, kissat, z3, cvc5 (> 300 s each, also with a term-aligned spec); W = 8 is proved, W = 16 is enumerated natively (all 2^32 pairs, reported as exhaustive_native, not as a deductive obligation), W = 32/64 shortcut paths (0, 1, power of two) only",
 "bn_digit_div__int / bn_digit_div__int_short: proved at W = 8 only (both builds, kissat 40-180 s); W = 16 and W = 32 did not finish in 600 s (divider/multiplier miter), W = 64 not attempted further - not registered; the wrapper bn_digit_div is proved against the contract of bn_digit_div__int at W = 8, 16, 32 (W = 64: > 600 s, not registered)",
 "128-bit digits (no double-width type): not built",
 "capacities above the verified ones: value contracts are proved for <= 4 digits (8 digits at W=8 in the thorough tier); the unbounded jobs prove memory safety / frame / termination / carry range only; bn_digits_l_shift / bn_digits_r_shift have NO unbounded job (memmove/memset with symbolic length: > 240 s on every attempt, also with arrays capped at 64 digits; second round: no result in 55 min at W = 8 with \"trace\": false) - only the bounded value jobs",
 "intra-object overflow: cbmc's bounds check for a member array reached through a pointer is object-granular, so an index such as num[(size_t)-1] that stays inside the bn_t object is not flagged (bn_sub with both operands zero reads num[digits - 1] with digits == 0: value unused, not detected by any obligation, not confirmed by UBSan either)",
 "bn_div is proved (enforced) for W = 8 with dividend capacity and divisor of 1 and 2 digits, all remainder forms; for that capacity the bn_mod / bn_mod_* / bn_gcd proofs no longer rest on an assumed bn_div contract. Larger capacities (3+ digits, other widths): bn_div's contract is still only assumed there (symbolic execution of the nested unwound loops with contract instrumentation needs > 9 GB and ~10 min already at 2 digits)",
 "rung 2 is W = 8 only and <= 4 digits (bn_mult <= 3 digits); the digit-array multiply functions are proved against the sum of per-digit products, the closed product form used by their callers rests on the distributivity identity listed in those jobs' assumptions",
 "rung 3 at larger configurations: bn_mod / bn_mod_mult / bn_mod_mult_digit / bn_mod_square / bn_mod_reduce at W = 8 x 4 digits and bn_mod_add at the shipped W = 64 x 22 digits (2880-bit spec vectors) did not finish in 1200 s and are not registered; bn_calc_naf with 16-bit scalars > 1800 s (8-bit scalars, windows 2..5, proved; bn_calc_jsf proved for all pairs of 16-bit scalars)",
 "bn_exp_digit, bn_digit_egcd, bn_mod_small, bn_mod_legendre: no contract",
 "rung 3 loop functions, value clauses: proved only for bn_sqrt1 (floor square root). bn_mod_sqrt (round 4): ENFORCED by r3.bn_mod_sqrt.stub.w8.n7 (frame: only bn->digits / bn->num; status in {0, -1, EINVAL, EOVERFLOW}; EINVAL for an even or zero modulus; well-formed result on success; termination of both Tonelli-Shanks loops) and r3.bn_mod_sqrt.range.w8.n7 (additionally: result < m on success), with the 19 callees replaced by the light contracts of contracts/bn_light.h - these cover every clause contracts/ec_bn_stubs.h assumes for bn_mod_sqrt. The root property 'success implies result^2 == input (mod m)' (-DVF_MS_VALUE: value clauses of bn_mod / bn_mod_square / bn_assign_init / bn_cmp kept) is NOT proved: 15 GB, killed by the system OOM killer after 13 min in the first attempt, no result after 23 min on kissat in the second (two independent `%` instances have to be identified, i.e. uniqueness of division); on failure nothing is guaranteed beyond the frame (bn may hold an intermediate value). NOT proved either: bn_mod_inv_bin 'result != 0 and result * bn == 1 (mod m)' (only frame / status / domain / range / termination), bn_gcd / bn_gcd_bin have NO proved contract at all (contracts and loop contracts written; cbmc's symbolic execution of the pointer-swapping Euclid loops with replaced callees did not finish in 35 min), bn_mod_exp* / bn_exp_digit 'equals bn^e (mod m)' beyond e in {0,1,2}. All loop-function proofs are at W = 8 with BN_MAX_DIGITS = 2 (bn_mod_inv_bin, bn_mod_sqrt: 7) - the loop contracts make the NUMBER OF ITERATIONS unbounded, not the capacity; full unwinding instead of loop contracts exhausts memory in cbmc's SSA conversion",
 "import/export digit-array level (bn_digits_import_*/export_*) unbounded safety jobs: not registered (the bn_t-level jobs execute those bodies for buffers <= 8..18 bytes); export hex at W=64 runs out of memory (12 GB) in symbolic execution",
 "outside the claim as stated by the property: Barrett reduction, bn_egcd, bn_mod_inv3, bn_sqrt4 (and the non-selected bn_sqrt2/3/5, bn_mod_inv1/2, bn_mod_inv_mont, bn_mod_div_mont)",
]
json.dump({
    "property": "C01", "level": "proof",
    "defaults": {"tier": "quick", "mode": "dfcc", "timeout": 300},
    "explanation": EXPLANATION,
    "assumptions": ASSUMPTIONS, "not_covered": NOT_COVERED,
    "jobs": jobs}, open(os.path.join(VERIF, "obligations", "C01.json"), "w"), indent=1)
print("%d jobs" % len(jobs))
