#!/usr/bin/env python3
"""Generates obligations/C01.json (job registry of property C01).  Run: python3 harness/C01/mkjobs.py"""
import json, os, sys
VERIF = os.path.dirname(os.path.dirname(os.path.dirname(os.path.abspath(__file__))))
jobs = []

def cfg(W, cc, bitlen=None, extra=()):
    d = ["BN_DIGIT_BIT_CNT=%d" % W, "BN_BIT_LEN=%d" % (bitlen or 4 * W)]
    if cc:
        d.append("BN_CC_MULL_DIV")
    return d + list(extra)

def job(name, harness, defines, **kw):
    j = {"name": name, "harness": "harness/C01/" + harness, "defines": defines}
    j.update(kw)
    jobs.append(j)
    return j

# ------------------------------------------------------------------ rung 0
R0_PLAIN = {"is_even": "bn_digit_is_even", "is_odd": "bn_digit_is_odd", "bits": "bn_digit_bits",
            "ctz": "bn_digit_ctz", "ffs": "bn_digit_ffs", "clz": "bn_digit_clz"}
for W in (8, 16, 32, 64):
    tier = "quick" if W in (8, 64) else "thorough"
    for fn, full in R0_PLAIN.items():
        job("r0.%s.w%d" % (full, W), "digit.c", cfg(W, True, extra=["VF_FN_" + fn]),
            enforce=[full], functions=[full], route="finite", tier=tier, timeout=120,
            cbmc=["--unwind", str(W + 2), "--unwinding-assertions"])
    job("r0.bn_digit_is_pow2.w%d" % W, "digit.c", cfg(W, True, extra=["VF_FN_is_pow2"]),
        mode="plain", functions=["bn_digit_is_pow2"], route="finite", tier=tier, timeout=120,
        cbmc=["--unwind", str(W + 2), "--unwinding-assertions"])

R0_CFG = {"mult__int": ("bn_digit_mult__int", 0), "mult": ("bn_digit_mult", 0),
          "div__int": ("bn_digit_div__int", 2), "div__int_short": ("bn_digit_div__int_short", 2),
          "div": ("bn_digit_div", 2)}
for W in (8, 16, 32, 64):
    for cc in (True, False):
        tier = "quick" if W in (8, 64) else "thorough"
        for fn, (full, loopk) in R0_CFG.items():
            extra = ["VF_FN_" + fn]
            fns = [full]
            kw = {}
            name = "r0.%s.w%d.%s" % (full, W, "cc" if cc else "port")
            if fn in ("mult__int", "mult") and not cc and W >= 16:
                # general Knuth-M path undecided for W >= 16 (measured): shortcut paths only
                extra.append("VF_BN_MULT_SHORTCUT_ONLY")
                name += ".shortcut"
            enforce = [full]
            replace = []
            if fn == "mult":
                replace = ["bn_digit_mult__int"]
            if fn == "div":
                replace = ["bn_digit_div__int"]
            unwind = (2 * W + 3) if (loopk and not cc) else (W + 2)
            job(name, "digit.c", cfg(W, cc, extra=extra), enforce=enforce, replace=replace, functions=fns,
                route="finite", tier=tier, timeout=300,
                cbmc=["--unwind", str(unwind), "--unwinding-assertions"], **kw)

json.dump({
    "property": "C01", "level": "proof",
    "defaults": {"tier": "quick", "mode": "dfcc", "timeout": 300},
    "explanation": "",
    "assumptions": [], "not_covered": [],
    "jobs": jobs}, open(os.path.join(VERIF, "obligations", "C01.json"), "w"), indent=1)
print("%d jobs" % len(jobs))
