#!/usr/bin/env python3
"""Generates obligations/C01.json (job registry of property C01).  Run: python3 harness/C01/mkjobs.py"""
import json, os, sys
sys.path.insert(0, os.path.dirname(os.path.abspath(__file__)))
from loopdefs import compose
VERIF = os.path.dirname(os.path.dirname(os.path.dirname(os.path.abspath(__file__))))
jobs = []

def cfg(W, cc, bitlen=None, extra=()):
    d = ["BN_DIGIT_BIT_CNT=%d" % W, "BN_BIT_LEN=%d" % (bitlen or 4 * W)]
    if cc:
        d.append("BN_CC_MULL_DIV")
    return d + list(extra)

def job(name, harness, defines, **kw):
    j = {"name": name, "harness": "harness/C01/" + harness, "defines": defines}
    j.update(kw)
    jobs.append(j)
    return j

# ------------------------------------------------------------------ rung 0
R0_PLAIN = {"is_even": "bn_digit_is_even", "is_odd": "bn_digit_is_odd", "bits": "bn_digit_bits",
            "ctz": "bn_digit_ctz", "ffs": "bn_digit_ffs", "clz": "bn_digit_clz"}
for W in (8, 16, 32, 64):
    tier = "quick" if W in (8, 64) else "thorough"
    for fn, full in R0_PLAIN.items():
        job("r0.%s.w%d" % (full, W), "digit.c", cfg(W, True, extra=["VF_FN_" + fn]),
            enforce=[full], functions=[full], route="finite", tier=tier, timeout=120,
            cbmc=["--unwind", str(W + 2), "--unwinding-assertions"])
    job("r0.bn_digit_is_pow2.w%d" % W, "digit.c", cfg(W, True, extra=["VF_FN_is_pow2"]),
        mode="plain", functions=["bn_digit_is_pow2"], route="finite", tier=tier, timeout=120,
        cbmc=["--unwind", str(W + 2), "--unwinding-assertions"])

R0_CFG = {"mult__int": ("bn_digit_mult__int", 0), "mult": ("bn_digit_mult", 0),
          "div__int": ("bn_digit_div__int", 2), "div__int_short": ("bn_digit_div__int_short", 2),
          "div": ("bn_digit_div", 2)}
for W in (8, 16, 32, 64):
    for cc in (True, False):
        tier = "quick" if W in (8, 64) else "thorough"
        for fn, (full, loopk) in R0_CFG.items():
            extra = ["VF_FN_" + fn]
            fns = [full]
            kw = {}
            name = "r0.%s.w%d.%s" % (full, W, "cc" if cc else "port")
            if fn == "mult__int" and not cc and W >= 16:
                # general Knuth-M path undecided for W >= 16 (measured): shortcut paths only
                extra.append("VF_BN_MULT_SHORTCUT_ONLY")
                name += ".shortcut"
            enforce = [full]
            replace = []
            if fn == "mult":
                replace = ["bn_digit_mult__int"]
            if fn == "div":
                replace = ["bn_digit_div__int"]
            unwind = (2 * W + 3) if (loopk and not cc) else (W + 2)
            job(name, "digit.c", cfg(W, cc, extra=extra), enforce=enforce, replace=replace, functions=fns,
                route="finite", tier=tier, timeout=300, backend="kissat",
                cbmc=["--unwind", str(unwind), "--unwinding-assertions"], **kw)

# ------------------------------------------------------------------ rung 1 (a): digit arrays, unbounded safety
def loops_file(key, fns):
    path = os.path.join(VERIF, "loops", "bn_%s.json" % key)
    json.dump(compose(fns), open(path, "w"), indent=1)
    return "loops/bn_%s.json" % key

R1A = {  # fn -> functions with loops reachable from it
    "calc_digits": ["bn_digits_calc_digits"], "cmp": ["bn_digits_cmp"], "assign_zero": [],
    "l_shift": ["bn_digits_l_shift"], "r_shift": ["bn_digits_r_shift"],
    "add_digit": ["bn_digits_add_digit"], "add": ["bn_digits_add", "bn_digits_add_digit"],
    "sub_digit": ["bn_digits_sub_digit"], "sub__int": ["bn_digits_sub__int", "bn_digits_sub_digit"],
    "sub": ["bn_digits_sub__int", "bn_digits_sub_digit"]}
SAFETY_ASSUME = ["unbounded digit-array jobs: arrays are exact-size heap objects of symbolic length <= 4096 digits; loops are closed by loop contracts (no unwinding); the cap only keeps cbmc --trace output of the reachability canary finite"]
for W in (8, 16, 32, 64):
    tier = "quick" if W in (8, 64) else "thorough"
    for fn, lf in R1A.items():
        full = "bn_digits_" + fn
        kw = {}
        if lf:
            kw["loops"] = loops_file("digits_" + fn, lf)
        job("r1a.%s.safety.w%d" % (full, W), "digits.c",
            cfg(W, True, extra=["VF_FN_" + fn, "VF_BN_SAFETY_ONLY"]),
            enforce=[full], functions=[full], route="unbounded", tier=tier, timeout=240,
            assumptions=SAFETY_ASSUME, foreach=[{"SZ": W // 8}], **kw)

json.dump({
    "property": "C01", "level": "proof",
    "defaults": {"tier": "quick", "mode": "dfcc", "timeout": 300},
    "explanation": "",
    "assumptions": [], "not_covered": [],
    "jobs": jobs}, open(os.path.join(VERIF, "obligations", "C01.json"), "w"), indent=1)
print("%d jobs" % len(jobs))
