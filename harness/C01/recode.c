/* C01 rung 2: signed-digit recodings bn_calc_naf / bn_calc_jsf and bn_combo_column_get.
 * "plain" jobs (no contract instrumentation): the whole function is executed symbolically for every
 * scalar of at most BN_BIT_LEN (= 16) bits and the recoding is checked directly:
 *   sum_i digit[i] * 2^i == value, digit constraints, array bounds (sentinels), reported count. */
#include "contracts/bn.h"

/* scalars have at most VF_RC_BITS bits; the capacity BN_BIT_LEN may be larger (one spare digit) */
#ifndef VF_RC_BITS
#define VF_RC_BITS	BN_BIT_LEN
#endif
#define VF_NAF_SZ	(VF_RC_BITS + 3)
#define VF_JSF_SZ	(2 * (VF_RC_BITS + 2))

static uint32_t
vf_small_val(const bn_t *x) {
	uint32_t v = 0;
	for (size_t i = 0; i < BN_MAX_DIGITS; i ++)
		if (i < x->digits)
			v |= (((uint32_t)x->num[i]) << (BN_DIGIT_BIT_CNT * i));
	return (v);
}
static size_t
vf_small_bits(uint32_t v) {
	size_t n = 0;
	for (size_t i = 0; i < 32; i ++)
		if (0 != ((v >> i) & 1))
			n = (i + 1);
	return (n);
}

void harness(void) {
	VF_NONDET_OBJ(bn_t, A);
	VF_NONDET_OBJ(bn_t, B);
	VF_NONDET(size_t, w);
	VF_NONDET(size_t, size);
	size_t cnt = 0, offset = 0;
	int e;
	VF_ASSUME(VF_BN_WF(A) && VF_BN_WF(B));
	uint32_t va = vf_small_val(&A), vb = vf_small_val(&B);
	VF_ASSUME(va < (((uint32_t)1) << VF_RC_BITS) && vb < (((uint32_t)1) << VF_RC_BITS));
	bn_t A0 = A, B0 = B;

#if defined(VF_FN_naf)
	struct { int8_t d[VF_NAF_SZ + 1]; } arr;
	VF_NONDET_OBJ(int8_t, fill);
	for (size_t i = 0; i <= VF_NAF_SZ; i ++)
		arr.d[i] = fill;
	VF_ASSUME(w >= 2 && w <= 5 && size <= VF_NAF_SZ);
	e = bn_calc_naf(&A, w, size, arr.d, &cnt);
	VF_ASSERT(e == 0 || e == EOVERFLOW, "naf: return code");
	VF_ASSERT(size >= vf_small_bits(va) + 1 || e == EOVERFLOW, "naf: EOVERFLOW when the array is smaller than bits + 1");
	/* the recoding may need one bit more than the number: with a spare digit it always succeeds */
	VF_ASSERT(size < vf_small_bits(va) + 1 || A0.count == BN_MAX_DIGITS || e == 0, "naf: success when the array is large enough and a spare digit exists");
	if (e == 0) {
		int64_t sum = 0;
		for (size_t i = 0; i < VF_NAF_SZ; i ++) {
			if (i >= size)
				continue;
			int d = arr.d[i];
			sum += ((int64_t)d) * (((int64_t)1) << i);
			VF_ASSERT(d == 0 || ((d & 1) != 0 && d < (1 << (w - 1)) && d > -(1 << (w - 1))), "naf: digit is 0 or odd with |digit| < 2^(w-1)");
			if (d != 0) {
				for (size_t k = 1; k < 5; k ++)
					VF_ASSERT(k >= w || i + k >= size || arr.d[i + k] == 0, "naf: a non-zero digit is followed by w-1 zeros");
			}
			VF_ASSERT(i < cnt || d == 0, "naf: entries from the reported count on are zero");
		}
		VF_ASSERT(sum == (int64_t)va, "naf: sum digit[i]*2^i == value");
		VF_ASSERT(cnt <= vf_small_bits(va) + 1 && cnt <= size, "naf: reported count within bits + 1 and the array");
	}
	for (size_t i = 0; i <= VF_NAF_SZ; i ++)
		VF_ASSERT(i < size || arr.d[i] == fill, "naf: nothing written at or beyond naf_arr_size");
#elif defined(VF_FN_jsf)
	struct { int8_t d[VF_JSF_SZ + 1]; } arr;
	VF_NONDET_OBJ(int8_t, fill);
	for (size_t i = 0; i <= VF_JSF_SZ; i ++)
		arr.d[i] = fill;
	VF_ASSUME(size <= VF_JSF_SZ);
	(void)w;
	e = bn_calc_jsf(&A, &B, size, arr.d, &cnt, &offset);
	size_t need = MAX(vf_small_bits(va), vf_small_bits(vb)) + 1;
	VF_ASSERT(e == ((size < 2 * need) ? EOVERFLOW : 0), "jsf: EOVERFLOW iff array smaller than 2 * (max bits + 1)");
	if (e == 0) {
		int64_t s0 = 0, s1 = 0;
		VF_ASSERT(offset == need && cnt <= offset, "jsf: offset == max bits + 1, count <= offset");
		for (size_t i = 0; i < VF_RC_BITS + 2; i ++) {
			if (i >= cnt)
				continue;
			int d0 = arr.d[i], d1 = arr.d[i + offset];
			VF_ASSERT(d0 >= -1 && d0 <= 1 && d1 >= -1 && d1 <= 1, "jsf: digits in {-1, 0, 1}");
			s0 += ((int64_t)d0) * (((int64_t)1) << i);
			s1 += ((int64_t)d1) * (((int64_t)1) << i);
			/* joint sparse form: of any three consecutive columns at least one is zero */
			VF_ASSERT(i + 2 >= cnt || (d0 == 0 && d1 == 0) ||
			    (arr.d[i + 1] == 0 && arr.d[i + 1 + offset] == 0) ||
			    (arr.d[i + 2] == 0 && arr.d[i + 2 + offset] == 0), "jsf: of three consecutive columns one is zero");
		}
		VF_ASSERT(s0 == (int64_t)va && s1 == (int64_t)vb, "jsf: both rows sum to their scalars");
	}
	for (size_t i = 0; i <= VF_JSF_SZ; i ++)
		VF_ASSERT(i < size || arr.d[i] == fill, "jsf: nothing written at or beyond jsf_arr_size");
#elif defined(VF_FN_combo)
	/* bn_combo_column_get(bn, bit_off, wnd_bits, wnd_count): bit k of the result (from the top)
	 * is bit (bit_off - k*wnd_count) of bn; call sites: bit_off < wnd_count * wnd_bits */
	VF_NONDET(size_t, bit_off);
	VF_NONDET(size_t, wnd_count);
	VF_ASSUME(w >= 1 && w <= BN_DIGIT_BIT_CNT && wnd_count >= 1 && wnd_count <= 8 &&
	    bit_off >= (w - 1) * wnd_count && bit_off < 64);
	(void)size; (void)vb;
	bn_digit_t r = bn_combo_column_get(&A, bit_off, w, wnd_count);
	bn_digit_t exp = 0;
	for (size_t k = 0; k < BN_DIGIT_BIT_CNT; k ++) {
		if (k >= w)
			continue;
		size_t off = bit_off - k * wnd_count;
		exp = (bn_digit_t)(exp << 1);
		if (off < 32 && 0 != ((va >> off) & 1))
			exp |= 1;
	}
	VF_ASSERT(r == exp, "combo: result collects bits bit_off - k*wnd_count, most significant first");
	e = 0;
#else
#error "select a function"
#endif
	VF_ASSERT(A.count == A0.count && A.digits == A0.digits && vf_small_val(&A) == va, "recode: input scalar unchanged");
	(void)B0; (void)e;
	VF_CANARY("recode harness end");
}
