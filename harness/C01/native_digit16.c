/* C01 rung 0, W = 16, portable build (no BN_CC_MULL_DIV): exhaustive NATIVE enumeration
 * (driver mode "native": gcc -O2 -fopenmp -DVF_NATIVE; prints "CASES <n>", exit status != 0 on the
 * first mismatch).  Complete for this width, but not a deductive obligation: the Knuth-M body of
 * bn_digit_mult__int is undecided by every installed back end for W >= 16.
 *   -DVF_FN_mult : all 2^32 pairs (a, b):            hi:lo == a * b
 */
#include <sys/param.h>
#include <sys/types.h>
#include <inttypes.h>
#include <stdio.h>
#include <stdlib.h>
#include <string.h>
#include <errno.h>
#include "math/big_num.h"

int main(void) {
	unsigned long long cases = 0;
	int bad = 0;
#if defined(VF_FN_mult)
#pragma omp parallel for reduction(+:cases) reduction(|:bad)
	for (uint32_t a = 0; a <= 0xffff; a ++) {
		for (uint32_t b = 0; b <= 0xffff; b ++) {
			bn_digit_t lo = 0, hi = 0;
			bn_digit_mult__int((bn_digit_t)a, (bn_digit_t)b, &lo, &hi);
			if (((((uint32_t)hi) << 16) | lo) != a * b) {
				if (!bad)
					fprintf(stderr, "MISMATCH bn_digit_mult__int(%u, %u) = %u:%u\n", a, b, hi, lo);
				bad = 1;
			}
			cases ++;
		}
	}
#else
#error "select -DVF_FN_mult"
#endif
	printf("CASES %llu\n", cases);
	return (bad);
}
