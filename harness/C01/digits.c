/* C01 rung 1: digit-array functions bn_digits_*.
 * -DVF_FN_<name> selects the function.
 * Safety jobs (-DVF_BN_SAFETY_ONLY): exact-size heap arrays of symbolic, unbounded length; loops
 * closed by loops/bn_digits.json.  Value jobs: count <= BN_MAX_DIGITS, symbolic content taken from
 * recorded inputs (replayable), full unwinding.  Aliasing (b == a) is chosen by the harness. */
#include "contracts/bn.h"

#ifndef VF_BN_MAXCOUNT	/* native build */
#define VF_BN_MAXCOUNT	BN_MAX_DIGITS
#endif

/* Safety jobs: heap arrays whose size expression carries no sizeof(): CBMC then types the object
 * as a byte array (see VF_BN_ALLOC in specs/bn_spec.h).  Value jobs: fixed-size arrays of
 * BN_MAX_DIGITS digits inside a recorded (replayable) struct, symbolic count <= BN_MAX_DIGITS. */
#define VF_DSZ	((size_t)(BN_DIGIT_BIT_CNT / 8))
struct vf_digs { bn_digit_t d[BN_MAX_DIGITS]; };

void harness(void) {
	VF_NONDET(size_t, a_count);
	VF_NONDET(size_t, b_count);
	VF_NONDET(size_t, bits);
	VF_NONDET(bn_digit_t, d);
	VF_NONDET(uint8_t, sel);	/* bit 0: b aliases a; bit 1: carry/borrow pointer is NULL */
	VF_ASSUME(a_count <= VF_BN_MAXCOUNT && b_count <= VF_BN_MAXCOUNT);
#ifdef VF_BN_SAFETY_ONLY
	VF_BN_ALLOC(bn_digit_t, a, a_count * VF_DSZ);
#else
	VF_NONDET_OBJ(struct vf_digs, a_obj);
	VF_NONDET_OBJ(struct vf_digs, b_obj);
	bn_digit_t *a = a_obj.d;
#endif
	bn_digit_t cb = 0, *pcb = (sel & 2) ? NULL : &cb;
	size_t r = 0;
	int e = 0;

#if defined(VF_FN_calc_digits)
	r = bn_digits_calc_digits(a, a_count);
#elif defined(VF_FN_assign_zero)
	bn_digits_assign_zero(a, a_count);
#elif defined(VF_FN_l_shift)
	VF_ASSUME(a_count == 0 || bits < a_count * BN_DIGIT_BITS);
	bn_digits_l_shift(a, a_count, bits);
#elif defined(VF_FN_r_shift)
	VF_ASSUME(a_count == 0 || bits < a_count * BN_DIGIT_BITS);
	bn_digits_r_shift(a, a_count, bits);
#elif defined(VF_FN_add_digit)
	VF_ASSUME(a_count >= 1);
	bn_digits_add_digit(a, a_count, d, pcb);
#elif defined(VF_FN_sub_digit)
	VF_ASSUME(a_count >= 1);
	bn_digits_sub_digit(a, a_count, d, pcb);
#else
	/* two-array functions */
	bn_digit_t *b;
	if (sel & 1) {
		b = a;
		VF_ASSUME(b_count <= a_count);
	} else {
#ifdef VF_BN_SAFETY_ONLY
		VF_BN_ALLOC(bn_digit_t, b2, b_count * VF_DSZ);
		b = b2;
#else
		b = b_obj.d;
#endif
	}
#if defined(VF_FN_cmp)
	VF_ASSUME(b_count == a_count);
	e = bn_digits_cmp(a, b, a_count);
#elif defined(VF_FN_add)
	e = bn_digits_add(a, a_count, b, b_count, pcb);
#elif defined(VF_FN_sub__int)
	VF_ASSUME(a_count >= b_count);
	bn_digits_sub__int(a, a_count, b, b_count, pcb);
#elif defined(VF_FN_sub)
	e = bn_digits_sub(a, a_count, b, b_count, pcb);
#else
#error "select a function with -DVF_FN_<name>"
#endif
#endif
	(void)r; (void)e; (void)bits; (void)d; (void)b_count;
	VF_CANARY("digits harness end");
}
