/* C01 rung 1, bn_t level: structural / bitwise / additive functions.
 * -DVF_FN_<name> selects the function.  The harness owns the objects: symbolic count, digits and
 * ALL BN_MAX_DIGITS digits (entries above `digits` are unconstrained stale storage); it also
 * chooses the aliasing pattern (sel bit 0: second operand is the first) and whether the
 * carry/borrow pointer is NULL (sel bit 1). */
#include "contracts/bn.h"

void harness(void) {
	VF_NONDET_OBJ(bn_t, A);
	VF_NONDET_OBJ(bn_t, B);
	VF_NONDET(size_t, k);
	VF_NONDET(bn_digit_t, d);
	VF_NONDET(uint8_t, sel);
	VF_NONDET(int, v);
	bn_p a = &A, b = (sel & 1) ? &A : &B;
	bn_digit_t cb = 0, *pcb = (sel & 2) ? NULL : &cb;
	size_t r = 0;
	int e = 0;

#if defined(VF_FN_init)
	e = bn_init(a, k);
#elif defined(VF_FN_calc_digits)
	VF_ASSUME(A.count >= 1 && A.count <= BN_MAX_DIGITS);
	r = bn_calc_digits(a);
#elif defined(VF_FN_update)
	VF_ASSUME(A.count >= 1 && A.count <= BN_MAX_DIGITS);
	bn_update(a);
#elif defined(VF_FN_init_digits__int)
	VF_ASSUME(A.count >= 1 && A.count <= BN_MAX_DIGITS && A.digits <= A.count);
	bn_init_digits__int(a, k);
#elif defined(VF_FN_update_digits__int)
	VF_ASSUME(A.count >= 1 && A.count <= BN_MAX_DIGITS && A.digits <= A.count);
	bn_update_digits__int(a, k);
#elif defined(VF_FN_assign_zero)
	VF_ASSUME(A.count >= 1 && A.count <= BN_MAX_DIGITS);
	bn_assign_zero(a);
#elif defined(VF_FN_assign_2exp)
	VF_ASSUME(A.count >= 1 && A.count <= BN_MAX_DIGITS);
	e = bn_assign_2exp(a, k);
#elif defined(VF_FN_assign_digit)
	VF_ASSUME(A.count >= 1 && A.count <= BN_MAX_DIGITS);
	e = bn_assign_digit(a, d);
#elif defined(VF_FN_assign)
	VF_ASSUME(VF_BN_WF(B) && A.count >= 1 && A.count <= BN_MAX_DIGITS && (b != a || VF_BN_WF(A)));
	e = bn_assign(a, b);
#elif defined(VF_FN_assign_init)
	VF_ASSUME(VF_BN_WF(*b));
	e = bn_assign_init(a, b);
#else
	VF_ASSUME(VF_BN_WF(A) && VF_BN_WF(B));
#if defined(VF_FN_calc_bits)
	r = bn_calc_bits(a);
#elif defined(VF_FN_ctz)
	r = bn_ctz(a);
#elif defined(VF_FN_clz)
	r = bn_clz(a);
#elif defined(VF_FN_is_zero)
	e = bn_is_zero(a);
#elif defined(VF_FN_is_one)
	e = bn_is_one(a);
#elif defined(VF_FN_is_pow2)
	r = bn_is_pow2(a);
#elif defined(VF_FN_is_even)
	e = bn_is_even(a);
#elif defined(VF_FN_is_odd)
	e = bn_is_odd(a);
#elif defined(VF_FN_cmp)
	e = bn_cmp(a, b);
#elif defined(VF_FN_is_equal)
	e = bn_is_equal(a, b);
#elif defined(VF_FN_is_bit_set)
	e = bn_is_bit_set(a, k);
#elif defined(VF_FN_bit_set)
	e = bn_bit_set(a, k, v);
#elif defined(VF_FN_l_shift)
	VF_ASSUME(k < A.count * BN_DIGIT_BITS);
	bn_l_shift(a, k);
#elif defined(VF_FN_r_shift)
	VF_ASSUME(A.digits == 0 || k < A.digits * BN_DIGIT_BITS);
	bn_r_shift(a, k);
#elif defined(VF_FN_and)
	e = bn_and(a, b);
#elif defined(VF_FN_or)
	e = bn_or(a, b);
#elif defined(VF_FN_xor)
	e = bn_xor(a, b);
#elif defined(VF_FN_add_digit)
	bn_add_digit(a, d, pcb);
#elif defined(VF_FN_add)
	e = bn_add(a, b, pcb);
#elif defined(VF_FN_sub_digit)
	bn_sub_digit(a, d, pcb);
#elif defined(VF_FN_sub)
	e = bn_sub(a, b, pcb);
#else
#error "select a function with -DVF_FN_<name>"
#endif
#endif
	(void)r; (void)e; (void)k; (void)d; (void)v; (void)pcb; (void)b;
	VF_CANARY("bn1 harness end");
}
