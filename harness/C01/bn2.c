/* C01 rung 2: multiplicative layer (modular: rung 0/1 callees are replaced by their contracts).
 * -DVF_FN_<name> selects the function.  Small configurations only (W = 8, <= 4 digits). */
#include "contracts/bn.h"

struct vf_digs { bn_digit_t d[BN_MAX_DIGITS]; };

void harness(void) {
	VF_NONDET(size_t, a_count);
	VF_NONDET(size_t, b_count);
	VF_NONDET(bn_digit_t, d);
	VF_NONDET(uint8_t, sel);	/* bit 0: second operand aliases the first; bits 1-2: remainder form */
	int e = 0;
#if defined(VF_FN_digits_mult_digit) || defined(VF_FN_digits_add_digit_mult) || defined(VF_FN_digits_sub_digit_mult)
	VF_NONDET_OBJ(struct vf_digs, a_obj);
	VF_NONDET_OBJ(struct vf_digs, b_obj);
	bn_digit_t cb = 0, *pcb = (sel & 2) ? NULL : &cb;
	VF_ASSUME(a_count <= BN_MAX_DIGITS && b_count <= a_count);
#if defined(VF_FN_digits_mult_digit)
	bn_digits_mult_digit__int(a_obj.d, a_count, d);
#elif defined(VF_FN_digits_add_digit_mult)
	bn_digits_add_digit_mult__int(a_obj.d, a_count, b_obj.d, b_count, d);
#else
	bn_digits_sub_digit_mult__int(a_obj.d, a_count, b_obj.d, b_count, d, pcb);
#endif
	(void)pcb;
#else
	VF_NONDET_OBJ(bn_t, A);
	VF_NONDET_OBJ(bn_t, B);
	VF_NONDET_OBJ(bn_t, R);
	bn_p a = &A, b = (sel & 1) ? &A : &B;
	VF_ASSUME(VF_BN_WF(A) && VF_BN_WF(B));
	(void)a_count; (void)b_count;
#if defined(VF_FN_mult)
	e = bn_mult(a, b);
#elif defined(VF_FN_square)
	e = bn_square(a);
#elif defined(VF_FN_mult_digit)
	e = bn_mult_digit(a, d);
#elif defined(VF_FN_div)
	/* -DVF_DIV_FORM: 0 separate remainder, 1 remainder NULL, 2 remainder == bn, 3 bn == d (with NULL
	 * or bn as remainder); -DVF_DIV_MAXCOUNT bounds the capacity of the dividend below BN_MAX_DIGITS
	 * (the capacity test of bn_div compares bn->count, not BN_MAX_DIGITS, with bn->digits) */
	VF_ASSUME(R.count >= 1 && R.count <= BN_MAX_DIGITS && R.digits <= R.count);
#ifdef VF_DIV_MAXCOUNT
	VF_ASSUME(A.count <= VF_DIV_MAXCOUNT && B.digits <= VF_DIV_MAXCOUNT);
#endif
#if VF_DIV_FORM == 0
	e = bn_div(&A, &B, &R);
#elif VF_DIV_FORM == 1
	e = bn_div(&A, &B, NULL);
#elif VF_DIV_FORM == 2
	e = bn_div(&A, &B, &A);
#else
	e = bn_div(&A, &A, (sel & 2) ? NULL : &A);
#endif
#else
#error "select a function with -DVF_FN_<name>"
#endif
#endif
	(void)e; (void)d;
	VF_CANARY("bn2 harness end");
}
