/* C04: *_cvt_hex writes 2*size lower-case hex digits + NUL, nothing else.  Plain harness
 * (no --dfcc): the function keeps its digit table in a function-local static pointer,
 * which --dfcc would havoc and a harness cannot re-initialise.  The asserted conditions are
 * literally the ensures clause of the contract (VF_HEXSTR_POST) that the callers use. */
#include "contracts/hmac.h"

#if defined(VF_ALG_MD5)
#define HS_MAX MD5_HASH_SIZE
#define CVT(bin, n, hex) md5_cvt_hex(bin, hex)
#elif defined(VF_ALG_SHA1)
#define HS_MAX SHA1_HASH_SIZE
#define CVT(bin, n, hex) sha1_cvt_hex(bin, hex)
#elif defined(VF_ALG_SHA2)
#define HS_MAX SHA2_HASH_MAX_SIZE
#define VF_VAR_SIZE 1
#define CVT(bin, n, hex) sha2_cvt_hex(bin, n, hex)
#elif defined(VF_ALG_GOST)
#define HS_MAX GOST3411_2012_HASH_MAX_SIZE
#define VF_VAR_SIZE 1
#define CVT(bin, n, hex) gost3411_2012_cvt_hex(bin, n, hex)
#endif

void harness(void) {
	VF_NONDET_BYTES(bin, HS_MAX);
	VF_NONDET_BYTES(out, 2 * HS_MAX + 2);	/* one guard byte behind the NUL */
	VF_NONDET(size_t, k);
#ifdef VF_VAR_SIZE
	VF_NONDET(size_t, n);
	VF_ASSUME(n <= HS_MAX);
#else
	size_t n = HS_MAX;
#endif
	uint8_t guard = out.b[2 * n + 1];
	CVT(bin.b, n, out.b);
	VF_ASSERT(out.b[2 * n] == 0, "hex string is NUL terminated at 2*size");
	VF_ASSERT(out.b[2 * n + 1] == guard, "nothing written behind the NUL");
	if (k < n) {
		VF_ASSERT(out.b[2 * k] == VF_HEXCH(bin.b[k] >> 4), "high nibble digit");
		VF_ASSERT(out.b[2 * k + 1] == VF_HEXCH(bin.b[k]), "low nibble digit");
	}
	VF_CANARY("cvt_hex harness end");
}
