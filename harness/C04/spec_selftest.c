/*
 * Native self test of the specification functions in specs/{md5,sha1,sha2,gost3411}_spec.h
 * (DESIGN.md section 8 item 4): the specs are executed against the test vectors published
 * with the standards, so that a typo in a spec is a setup failure and not a false alarm.
 *
 *   gcc -O1 -I/verif -o /tmp/spec_selftest /verif/harness/C04/spec_selftest.c -lm && /tmp/spec_selftest
 *   (or: python3 /verif/harness/C04/spec_selftest.py   - builds, runs, and additionally
 *    compares the specs with Python's hashlib on every length 0..300 and recomputes the
 *    SHA-2 constants from the primes)
 *
 * With the argument "dump" it prints "<alg> <len> <hex digest>" lines and the constant
 * tables for the Python cross-check.  Not a CBMC harness; does not include any /repo file.
 */
#include <stdio.h>
#include <stdlib.h>
#include <string.h>
#include <math.h>
#include "specs/md5_spec.h"
#include "specs/sha1_spec.h"
#include "specs/sha2_spec.h"
#ifndef VF_NO_GOST
#include "specs/gost3411_spec.h"
#endif

static int failures;

static void hex(const uint8_t *d, size_t n, char *out) {
	for (size_t i = 0; i < n; i++) sprintf(out + 2 * i, "%02x", d[i]);
}

enum { A_MD5, A_SHA1, A_SHA224, A_SHA256, A_SHA384, A_SHA512, A_GOST256, A_GOST512, A_N };
static const char *alg_name[A_N] = { "md5", "sha1", "sha224", "sha256", "sha384", "sha512", "streebog256", "streebog512" };
static const size_t alg_size[A_N] = { 16, 20, 28, 32, 48, 64, 32, 64 };

static void run(int alg, const uint8_t *m, size_t n, uint8_t *out) {
	switch (alg) {
	case A_MD5: vf_md5_hash(m, n, out); break;
	case A_SHA1: vf_sha1_hash(m, n, out); break;
	case A_SHA224: vf_sha2_hash(224, m, n, out); break;
	case A_SHA256: vf_sha2_hash(256, m, n, out); break;
	case A_SHA384: vf_sha2_hash(384, m, n, out); break;
	case A_SHA512: vf_sha2_hash(512, m, n, out); break;
#ifndef VF_NO_GOST
	case A_GOST256: vf_gost_hash(256, m, n, out); break;
	case A_GOST512: vf_gost_hash(512, m, n, out); break;
#endif
	}
}

static void expect(int alg, const void *m, size_t n, const char *want, const char *what) {
	uint8_t d[64];
	char h[129];
	run(alg, (const uint8_t *)m, n, d);
	hex(d, alg_size[alg], h);
	if (strcmp(h, want) != 0) {
		printf("FAIL %s %s: got %s want %s\n", alg_name[alg], what, h, want);
		failures++;
	}
}
#define S(alg, str, want) expect(alg, str, strlen(str), want, str)

int main(int argc, char **argv) {
	static uint8_t million[1000000];
	size_t i;
	memset(million, 'a', sizeof(million));

	if (argc > 1 && strcmp(argv[1], "dump") == 0) {
		static uint8_t msg[301];
		uint8_t d[64]; char h[129];
		uint32_t x = 12345;
		for (i = 0; i < sizeof(msg); i++) { x = x * 1103515245u + 12345u; msg[i] = (uint8_t)(x >> 16); }
		for (int a = 0; a < A_N; a++) {
#ifdef VF_NO_GOST
			if (a >= A_GOST256) continue;
#endif
			for (size_t n = 0; n <= 300; n++) { run(a, msg, n, d); hex(d, alg_size[a], h); printf("%s %zu %s\n", alg_name[a], n, h); }
		}
		for (i = 0; i < 64; i++) printf("K256 %zu %08x\n", i, vf_sha256_K[i]);
		for (i = 0; i < 80; i++) printf("K512 %zu %016llx\n", i, (unsigned long long)vf_sha512_K[i]);
		for (i = 0; i < 8; i++) printf("H224 %zu %08x\nH256 %zu %08x\nH384 %zu %016llx\nH512 %zu %016llx\n", i, vf_sha224_H0[i], i,
		    vf_sha256_H0[i], i, (unsigned long long)vf_sha384_H0[i], i, (unsigned long long)vf_sha512_H0[i]);
		for (i = 0; i < 64; i++) printf("T %zu %08x\n", i, vf_md5_T[i]);
		return 0;
	}

	/* RFC 1321 A.5 test suite */
	S(A_MD5, "", "d41d8cd98f00b204e9800998ecf8427e");
	S(A_MD5, "a", "0cc175b9c0f1b6a831c399e269772661");
	S(A_MD5, "abc", "900150983cd24fb0d6963f7d28e17f72");
	S(A_MD5, "message digest", "f96b697d7cb7938d525a2f31aaf161d0");
	S(A_MD5, "abcdefghijklmnopqrstuvwxyz", "c3fcd3d76192e4007dfb496cca67e13b");
	S(A_MD5, "ABCDEFGHIJKLMNOPQRSTUVWXYZabcdefghijklmnopqrstuvwxyz0123456789", "d174ab98d277d9f5a5611c2c9f419d9f");
	S(A_MD5, "12345678901234567890123456789012345678901234567890123456789012345678901234567890", "57edf4a22be3c955ac49da2e2107b67a");
	/* RFC 1321 3.4: T[i] = floor(2^32 * |sin(i)|) */
	for (i = 0; i < 64; i++)
		if ((uint32_t)floorl(4294967296.0L * fabsl(sinl((long double)(i + 1)))) != vf_md5_T[i]) {
			printf("FAIL md5 T[%zu]\n", i + 1); failures++;
		}

	/* FIPS 180-4 / FIPS 180-2 appendix examples (csrc.nist.gov "SHA_All.pdf") */
	{
	const char *m448 = "abcdbcdecdefdefgefghfghighijhijkijkljklmklmnlmnomnopnopq";
	const char *m896 = "abcdefghbcdefghicdefghijdefghijkefghijklfghijklmghijklmnhijklmnoijklmnopjklmnopqklmnopqrlmnopqrsmnopqrstnopqrstu";
	S(A_SHA1, "", "da39a3ee5e6b4b0d3255bfef95601890afd80709");
	S(A_SHA1, "abc", "a9993e364706816aba3e25717850c26c9cd0d89d");
	S(A_SHA1, m448, "84983e441c3bd26ebaae4aa1f95129e5e54670f1");
	expect(A_SHA1, million, sizeof(million), "34aa973cd4c4daa4f61eeb2bdbad27316534016f", "10^6 x a");
	S(A_SHA224, "abc", "23097d223405d8228642a477bda255b32aadbce4bda0b3f7e36c9da7");
	S(A_SHA224, m448, "75388b16512776cc5dba5da1fd890150b0c6455cb4f58b1952522525");
	expect(A_SHA224, million, sizeof(million), "20794655980c91d8bbb4c1ea97618a4bf03f42581948b2ee4ee7ad67", "10^6 x a");
	S(A_SHA256, "", "e3b0c44298fc1c149afbf4c8996fb92427ae41e4649b934ca495991b7852b855");
	S(A_SHA256, "abc", "ba7816bf8f01cfea414140de5dae2223b00361a396177a9cb410ff61f20015ad");
	S(A_SHA256, m448, "248d6a61d20638b8e5c026930c3e6039a33ce45964ff2167f6ecedd419db06c1");
	expect(A_SHA256, million, sizeof(million), "cdc76e5c9914fb9281a1c7e284d73e67f1809a48a497200e046d39ccc7112cd0", "10^6 x a");
	S(A_SHA384, "abc", "cb00753f45a35e8bb5a03d699ac65007272c32ab0eded1631a8b605a43ff5bed8086072ba1e7cc2358baeca134c825a7");
	S(A_SHA384, m896, "09330c33f71147e83d192fc782cd1b4753111b173b3b05d22fa08086e3b0f712fcc7c71a557e2db966c3e9fa91746039");
	expect(A_SHA384, million, sizeof(million), "9d0e1809716474cb086e834e310a4a1ced149e9c00f248527972cec5704c2a5b07b8b3dc38ecc4ebae97ddd87f3d8985", "10^6 x a");
	S(A_SHA512, "abc", "ddaf35a193617abacc417349ae20413112e6fa4e89a97ea20a9eeee64b55d39a2192992a274fc1a836ba3c23a3feebbd454d4423643ce80e2a9ac94fa54ca49f");
	S(A_SHA512, m896, "8e959b75dae313da8cf4f72814fc143f8f7779c6eb9f7fa17299aeadb6889018501d289e4900f7e4331b99dec4b5433ac7d329eeb6dd26545e96e55b874be909");
	expect(A_SHA512, million, sizeof(million), "e718483d0ce769644e2e42c7bc15b4638e1f98b13b2044285632a803afa973ebde0ff244877ea60a4cb0432ce577c31beb009c5c2c49aa2e4eadb217ad8cc09b", "10^6 x a");
	}
	/* SHA-256 constants: first 32 bits of the fractional parts of the cube roots of the first
	 * 64 primes (FIPS 180-4 4.2.2); the 64-bit tables are recomputed exactly by spec_selftest.py */
	{
		unsigned p = 2, k = 0;
		while (k < 64) {
			int prime = 1;
			for (unsigned q = 2; q * q <= p; q++) if (p % q == 0) prime = 0;
			if (prime) {
				long double r = cbrtl((long double)p);
				uint32_t want = (uint32_t)floorl((r - floorl(r)) * 4294967296.0L);
				if (want != vf_sha256_K[k]) { printf("FAIL sha256 K[%u]\n", k); failures++; }
				if (want != (uint32_t)(vf_sha512_K[k] >> 32)) { printf("FAIL sha512 K[%u] (high half)\n", k); failures++; }
				k++;
			}
			p++;
		}
	}
#ifndef VF_NO_GOST
	failures += vf_gost_selftest();
#endif
	printf(failures ? "spec self test: %d FAILURES\n" : "spec self test: OK\n", failures);
	return failures != 0;
}
