/* C04 / I, U, F: *_init, *_update and *_final against the ghost block log; the compression
 * function is replaced by its LOG contract (contracts/<alg>.h with -DVF_TRANSFORM_LOG).
 *   -DVF_ALG_<MD5|SHA1|SHA2|GOST>   [-DVF_BITS=224|256|384|512  (SHA-2, GOST)]
 *   -DVF_FN_init
 *   -DVF_FN_update  [-DVF_U_NMAX=n] [-DVF_TAIL=t] [-DVF_U_NOCONTENT -DVF_LIBC_CONTRACTS]
 *   -DVF_FN_final   [-DVF_TAIL=t]
 * VF_TAIL fixes the number of bytes already buffered in the context (case split of the
 * content half of U, one job per value). */
#if defined(VF_ALG_MD5)
#include "contracts/md5.h"
#define CTX_T		md5_ctx_t
#define HS		MD5_HASH_SIZE
#define WIPE_PTR	md5_memset_volatile
#define INIT(c)		md5_init(c)
#define UPDATE(c, d, n)	md5_update(c, d, n)
#define FINAL(c, dg)	md5_final(c, dg)
#elif defined(VF_ALG_SHA1)
#include "contracts/sha1.h"
#define CTX_T		sha1_ctx_t
#define HS		SHA1_HASH_SIZE
#define WIPE_PTR	sha1_memset_volatile
#define INIT(c)		sha1_init(c)
#define UPDATE(c, d, n)	sha1_update(c, d, n)
#define FINAL(c, dg)	sha1_final(c, dg)
#elif defined(VF_ALG_SHA2)
#include "contracts/sha2.h"
#define CTX_T		sha2_ctx_t
#define HS		(VF_BITS / 8)
#define WIPE_PTR	sha2_memset_volatile
#define INIT(c)		sha2_init(bits_arg, c)
#define UPDATE(c, d, n)	sha2_update(c, d, n)
#define FINAL(c, dg)	sha2_final(c, dg)
#define VF_HAS_BITS 1
#elif defined(VF_ALG_GOST)
#include "contracts/gost3411.h"
#define CTX_T		gost3411_2012_ctx_t
#define HS		(VF_BITS / 8)
#define WIPE_PTR	gost3411_2012_memset_volatile
#define INIT(c)		gost3411_2012_init(bits_arg, c)
#define UPDATE(c, d, n)	gost3411_2012_update(c, d, n)
#define FINAL(c, dg)	gost3411_2012_final(c, dg)
#define VF_HAS_BITS 1
#endif

void harness(void) {
	/* ghost indices and ghost log state: arbitrary */
	VF_NONDET(size_t, blk_k);
	VF_NONDET(size_t, blk_len);
	VF_NONDET(uint8_t, blk_at);
	VF_NONDET(size_t, t_k);
	VF_NONDET(size_t, d_k);
	VF_NONDET(size_t, c_k);
	VF_ASSUME(blk_len <= ((size_t)1 << 62));
#ifndef VF_REPLAY
	vf_blk_k = blk_k; vf_blk_len = blk_len; vf_blk_at = blk_at;
	vf_t_k = t_k; vf_d_k = d_k; vf_c_k = c_k;
	WIPE_PTR = memset;	/* --dfcc havocs mutable statics: re-establish the initialiser */
#endif
	VF_FRESH_PTR(CTX_T, ctx, sizeof(CTX_T));
#if defined(VF_FN_init)
#ifdef VF_HAS_BITS
	/* the digest size, in bits or in bytes: both spellings are accepted by the library */
	VF_NONDET(size_t, bits_arg);
	VF_ASSUME(bits_arg == VF_BITS || bits_arg == VF_BITS / 8);
#endif
	INIT(ctx);
#elif defined(VF_FN_update)
	VF_NONDET(size_t, data_size);
#ifdef VF_U_NMAX
	VF_ASSUME(data_size <= VF_U_NMAX);
	VF_FRESH_PTR(uint8_t, data, VF_U_NMAX);
#else
#ifdef VF_U_NSAFE
	VF_ASSUME(data_size <= VF_U_NSAFE);
#endif
	VF_FRESH_PTR_OPT(uint8_t, data, data_size);
#endif
	UPDATE(ctx, data, data_size);
#elif defined(VF_FN_final)
	VF_FRESH_PTR(uint8_t, digest, HS);
	FINAL(ctx, digest);
#ifdef VF_REPLAY
	for (size_t i = 0; i < sizeof(CTX_T); i++)
		VF_NATIVE_POST(((const uint8_t *)ctx)[i] == 0, "context not wiped");
#endif
#endif
	VF_CANARY("hash I/U/F harness end");
}
