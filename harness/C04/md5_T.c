/* C04 / T: md5_transform == one application of the RFC 1321 block function.
 * -DVF_ALIGN=r  source block at address residue r mod 4 (r != 0 takes the copying path)
 * -DVF_T_ALIAS  the call shape used by md5_update/md5_final: block == ctx->buffer */
#include "contracts/md5.h"
#ifndef VF_ALIGN
#define VF_ALIGN 0
#endif

void harness(void) {
	VF_FRESH_PTR(md5_ctx_t, ctx, sizeof(md5_ctx_t));
#ifdef VF_T_ALIAS
#ifdef VF_REPLAY
	const uint8_t *block = (const uint8_t *)ctx->buffer;
#else
	const uint8_t *block;	/* fixed to ctx->buffer by the contract's precondition */
#endif
#else
	VF_NONDET_BYTES(blk, 64 + VF_ALIGN);
	const uint8_t *block = blk.b + VF_ALIGN;
#endif
#ifdef VF_REPLAY
	uint32_t e[4];
	uint8_t copy[64];
	memcpy(e, ctx->hash, sizeof(e));
	memcpy(copy, block, 64);
	vf_md5_compress(e, copy);
#endif
	md5_transform(ctx, block);
	VF_NATIVE_POST(memcmp(e, ctx->hash, sizeof(e)) == 0, "md5_transform differs from the RFC 1321 block function");
	VF_CANARY("md5_transform harness end");
}
