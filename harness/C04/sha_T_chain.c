/* C04 / T.chain: one call of a (ctx, blocks, blocks_max) transform over VF_T_NBLK consecutive
 * blocks leaves the same chaining value as VF_T_NBLK calls over one block each.  Together
 * with T (one block == the standard's block function) this is T for multi-block calls;
 * the monolithic two-block equivalence against the specification does not close for SHA-2
 * (cvc5 > 25 min).  Plain harness: both sides are the library's own code.
 *   -DVF_ALG_SHA1 | -DVF_ALG_SHA2 -DVF_BLK=64|128 | -DVF_ALG_GOST ;  -DVF_T_FN=<function> */
#if defined(VF_ALG_SHA1)
#include "contracts/sha1.h"
#define CTX_T	sha1_ctx_t
#define VF_BLK	64
#define CALL(c, b, e)	VF_T_FN(c, b, e)
#elif defined(VF_ALG_SHA2)
#include "contracts/sha2.h"
#define CTX_T	sha2_ctx_t
#define CALL(c, b, e)	VF_T_FN(c, b, e)
#elif defined(VF_ALG_GOST)
#include "contracts/gost3411.h"
#define CTX_T	gost3411_2012_ctx_t
#define VF_BLK	64
#define CALL(c, b, e)	VF_T_FN(c, 512, b, e)
#endif
#ifndef VF_T_NBLK
#define VF_T_NBLK 2
#endif
#ifndef VF_ALIGN
#define VF_ALIGN 0
#endif

#ifdef VF_REPLAY
static uint64_t vf_nd64_replay(void) { uint64_t v; static unsigned n; char name[16]; snprintf(name, sizeof(name), "w%u", n++); vf_replay_get(name, &v, sizeof(v)); return v; }
#define VF_ND64()	vf_nd64_replay()
#else
#define VF_ND64()	nondet_uint64_t()
#endif
/* two contexts that agree on the chaining state; everything else (scratch) is zero */
static CTX_T one, many;

void harness(void) {
	VF_NONDET_BYTES(blk, VF_T_NBLK * VF_BLK + VF_ALIGN);
	const uint8_t *p = blk.b + VF_ALIGN;
	for (unsigned i = 0; i < sizeof(one.hash) / sizeof(one.hash[0]); i++)
		one.hash[i] = many.hash[i] = VF_ND64();
#if defined(VF_ALG_SHA2)
	one.block_size = many.block_size = VF_BLK;
#endif
#if defined(VF_ALG_GOST)
	for (unsigned i = 0; i < 8; i++) {
		one.counter[i] = many.counter[i] = VF_ND64();
		one.sigma[i] = many.sigma[i] = VF_ND64();
	}
#endif
	CALL(&many, p, p + VF_T_NBLK * VF_BLK);
	for (unsigned b = 0; b < VF_T_NBLK; b++)
		CALL(&one, p + b * VF_BLK, p + (b + 1) * VF_BLK);
	for (unsigned i = 0; i < sizeof(one.hash) / sizeof(one.hash[0]); i++)
		VF_ASSERT(one.hash[i] == many.hash[i], "multi-block call == iterated single-block calls (chaining value)");
#if defined(VF_ALG_GOST)
	for (unsigned i = 0; i < 8; i++) {
		VF_ASSERT(one.counter[i] == many.counter[i], "multi-block call == iterated single-block calls (N)");
		VF_ASSERT(one.sigma[i] == many.sigma[i], "multi-block call == iterated single-block calls (Sigma)");
	}
#endif
	VF_CANARY("transform chain harness end");
}
