/* C04: one-shot and hex-string entry points == exactly one init-update-final over the
 * caller's span; -DVF_FN_hash_get_digest / -DVF_FN_hash_get_digest_str.
 * Same harness as the HMAC one-shot functions (the hash is abstract in both). */
#include "harness/C07/hmac.c"
