/* C04 / U and F: md5_update and md5_final against the block log, md5_transform replaced by
 * its LOG contract (contracts/md5.h, -DVF_TRANSFORM_LOG).
 *   -DVF_FN_update  [-DVF_U_NMAX=n] [-DVF_TAIL=t]
 *   -DVF_FN_final   [-DVF_TAIL=t]
 * VF_TAIL fixes the number of bytes already buffered in the context (count mod 64). */
#include "contracts/md5.h"

void harness(void) {
	/* ghost indices and ghost log state: arbitrary */
	VF_NONDET(size_t, blk_k);
	VF_NONDET(size_t, blk_len);
	VF_NONDET(uint8_t, blk_at);
	VF_NONDET(size_t, t_k);
	VF_NONDET(size_t, d_k);
	VF_NONDET(size_t, c_k);
	VF_ASSUME(blk_len <= ((size_t)1 << 62));
#ifndef VF_REPLAY
	vf_blk_k = blk_k; vf_blk_len = blk_len; vf_blk_at = blk_at;
	vf_t_k = t_k; vf_d_k = d_k; vf_c_k = c_k;
	md5_memset_volatile = memset;	/* --dfcc havocs mutable statics: re-establish the initialiser */
#endif
	VF_FRESH_PTR(md5_ctx_t, ctx, sizeof(md5_ctx_t));
#if defined(VF_FN_update)
	VF_NONDET(size_t, data_size);
#ifdef VF_U_NMAX
	VF_ASSUME(data_size <= VF_U_NMAX);
	VF_FRESH_PTR(uint8_t, data, VF_U_NMAX);
#else
	VF_FRESH_PTR_OPT(uint8_t, data, data_size);
#endif
#ifdef VF_REPLAY
	uint64_t count0 = ctx->count;
#endif
	md5_update(ctx, data, data_size);
	VF_NATIVE_POST(ctx->count == count0 + data_size, "count");
#elif defined(VF_FN_final)
	VF_FRESH_PTR(uint8_t, digest, MD5_HASH_SIZE);
	md5_final(ctx, digest);
#ifdef VF_REPLAY
	for (size_t i = 0; i < sizeof(md5_ctx_t); i++)
		VF_NATIVE_POST(((const uint8_t *)ctx)[i] == 0, "context not wiped");
#endif
#endif
	VF_CANARY("md5 U/F harness end");
}
