#!/usr/bin/env python3
"""Regenerates obligations/C04.json and obligations/C07.json (the registries are plain JSON
and are what the driver reads; this script only spares writing several hundred near-identical
entries by hand).  Usage: python3 harness/C04/mkjobs.py"""
import json, os, sys

VERIF = os.path.dirname(os.path.dirname(os.path.dirname(os.path.abspath(__file__))))

ALGS = {
    "md5":  dict(D="VF_ALG_MD5", pfx="md5", hpfx="hmac_md5", variants=[None],
                 transform=["md5_transform"], init="md5_init", update="md5_update", final="md5_final",
                 uloops="loops/hash_md5_update_safety.json", uloop_unwind="md5_update_wrapped_for_contract_checking.0"),
    "sha1": dict(D="VF_ALG_SHA1", pfx="sha1", hpfx="hmac_sha1", variants=[None],
                 transform=["sha1_transform"], init="sha1_init", update="sha1_update", final="sha1_final"),
    "sha2": dict(D="VF_ALG_SHA2", pfx="sha2", hpfx="hmac_sha2", variants=[224, 256, 384, 512],
                 transform=["sha2_transform"], init="sha2_init", update="sha2_update", final="sha2_final",
                 f_cbmc=["--unwindset", "sha2_memcpy_bswap4.0:10,sha2_memcpy_bswap8.0:10", "--unwinding-assertions"]),
    "gost": dict(D="VF_ALG_GOST", pfx="gost3411_2012", hpfx="hmac_gost3411_2012", variants=[256, 512],
                 transform=["gost3411_2012_transform_n", "gost3411_2012_transform_1"],
                 init="gost3411_2012_init", update="gost3411_2012_update", final="gost3411_2012_final"),
}


def blk_of(alg, bits):
    if alg == "sha2":
        return 64 if bits <= 256 else 128
    return 64


A_SIMD = "SIMD/SHA-NI/AVX transforms compiled out exactly as tests/hash/main.c does (#undef __SSE2__): only the portable transforms are verified"
A_WIPE = "the volatile function pointer *_memset_volatile holds its initialiser memset (re-established by the harness, --dfcc havocs mutable statics); volatile qualifier not modelled"
A_LOG = "compression function replaced by its block-logging contract (contracts/<alg>.h, VF_TRANSFORM_LOG): arbitrary chaining value, scratch clobbered, block appended to the ghost log; discharged by the T jobs"
A_STREAM = "hash primitives *_init/_update/_final replaced by their byte-stream contracts (contracts/<alg>.h, VF_HASH_STREAM); these are the I/U/F contracts seen through the representation relation count == stream length, tail == last (length mod B) bytes, block log == the rest"
A_BYTELOOP = "memcpy/memset given their defining byte-loop bodies (stubs/hash_libc.h, VF_LIBC_BYTELOOP) because CBMC 6.11's built-in model mis-handles a symbolic-length copy into a word-typed buffer"
A_MEMCPY_C = "memcpy replaced by its assumed contract (stubs/hash_libc.h, VF_LIBC_CONTRACTS: reads src[0..n), writes exactly dst[0..n)) in the unbounded safety half; contents are covered by the bounded content half"
A_BUILTIN = "CBMC's built-in memset/memcpy models (constant-size wipe, symbolic-size zero padding)"
A_CVC5 = "SMT back end cvc5 1.0.3 (z3 4.8.12 and the SAT back ends do not finish on the ARX equivalences)"
A_KEY = "HMAC key pointer is a valid object even for key_len == 0 (memcpy(dst, NULL, 0) is formally undefined and not examined)"


def quick_tails(B, lenbytes):
    """0, 1, and the padding-boundary residues: last tail with one final block, first with two, B-1"""
    if lenbytes == 0:		# GOST: no length field in the padded block
        return [0, 1, B - 2, B - 1]
    return [0, 1, B - lenbytes - 1, B - lenbytes, B - 1]


def t_job(name, harness, defs, fn, rounds, tier="quick", timeout=300, extra=None):
    j = dict(name=name, harness=harness, defines=defs, enforce=[fn], functions=[fn], backend="cvc5",
             cbmc=["--unwind", str(rounds + 2), "--unwinding-assertions"], route="finite", timeout=timeout, tier=tier,
             assumptions=[A_SIMD, A_CVC5])
    if extra:
        j.update(extra)
    return j


def u_jobs(tag, a, base, B, lenbytes):
    """U: safety half + content half (one job per entry tail length)."""
    jobs = _u_jobs(tag, a, base, B, lenbytes)
    if B == 128:
        # measured: MiniSat > 900 s per job, CaDiCaL/kissat ~ 7 min: thorough tier only.  The quick
        # tier covers sha2_update through the 64-byte block size (same code, block size is data).
        for j in jobs:
            j["backend"] = "cadical"
            j["tier"] = "thorough"
            j["timeout"] = 1800
    return jobs


def _u_jobs(tag, a, base, B, lenbytes):
    jobs = []
    upd, tr = a["update"], a["transform"][:1]
    if a.get("uloops"):
        jobs.append(dict(name=tag + ".U.safety", harness="harness/C04/hash_UF.c",
                         defines=base + ["VF_TRANSFORM_LOG", "VF_FN_update", "VF_U_NOCONTENT", "VF_LIBC_CONTRACTS"],
                         enforce=[upd], replace=tr + ["memcpy"], functions=[upd],
                         loops=a["uloops"], cbmc=[], route="unbounded", timeout=600,
                         assumptions=[A_SIMD, A_LOG, A_MEMCPY_C]))
    else:
        # the unbounded variant does not close for the larger contexts (SHA-1: 13.7 M variables,
        # a symbolic-length havoc inside a 448-byte struct): exact-size span, bounded length
        for nmax, tier, sfx in (((66, "quick", ""), (2 * B + 2, "thorough", ".n2")) if B == 64 else ((66, "quick", ""),)):
            jobs.append(dict(name=tag + ".U.safety" + sfx, harness="harness/C04/hash_UF.c",
                             defines=base + ["VF_TRANSFORM_LOG", "VF_FN_update", "VF_U_NOCONTENT", "VF_LIBC_BYTELOOP", "VF_U_NSAFE=%d" % nmax],
                             enforce=[upd], replace=tr, functions=[upd],
                             cbmc=["--unwindset", "memcpy.0:%d" % (nmax + 2), "--unwinding-assertions"], route="bounded",
                             bound="data_size <= %d, data is an exact span of data_size bytes, entry tail length symbolic" % nmax,
                             tier=tier, timeout=900, assumptions=[A_SIMD, A_LOG, A_BYTELOOP]))

    def content(t, nmax, tier, sfx=""):
        us = "memcpy.0:%d" % (nmax + 2)
        if a.get("uloop_unwind"):
            us += ",%s:%d" % (a["uloop_unwind"], nmax // B + 3)
        jobs.append(dict(name="%s.U.content%s.t%d" % (tag, sfx, t), harness="harness/C04/hash_UF.c",
                         defines=base + ["VF_TRANSFORM_LOG", "VF_FN_update", "VF_TAIL=%d" % t, "VF_U_NMAX=%d" % nmax, "VF_LIBC_BYTELOOP"],
                         enforce=[upd], replace=tr, functions=[upd],
                         cbmc=["--unwindset", us, "--unwinding-assertions"], route="bounded",
                         bound="data_size <= %d on a %d-byte data object, entry tail length fixed to %d (one job per tail "
                               "length 0..%d; symbolic data_size, contents, count, chaining value)" % (nmax, nmax, t, B - 1),
                         tier=tier, timeout=900, assumptions=[A_SIMD, A_LOG, A_BYTELOOP]))
    qt = quick_tails(B, lenbytes)
    # thorough tier: a spread of further tail lengths (word/half-block boundaries and their neighbours);
    # all B tail lengths would be ~7 CPU-hours for the five update variants
    tt = sorted(set(qt) | {2, 7, 8, 9, 16, 31, 32, 33, 48, B - lenbytes - 2, B - lenbytes + 1, B - 2} if B == 64 else set(qt))
    for t in [x for x in tt if 0 <= x < B]:
        content(t, 66, "quick" if t in qt else "thorough")	# 66 = B + 2 for the 64-byte algorithms
    if B == 64:
        for t in qt:
            content(t, 2 * B + 2, "thorough", ".n2")
    return jobs


def if_jobs(tag, alg, a, base, B):
    """I, F, one-shot entry points for one digest-size variant."""
    jobs = []
    jobs.append(dict(name=tag + ".I", harness="harness/C04/hash_UF.c", defines=base + ["VF_FN_init"],
                     enforce=[a["init"]], functions=[a["init"]], route="finite", timeout=120, assumptions=[A_SIMD]))
    jobs.append(dict(name=tag + ".F", harness="harness/C04/hash_UF.c", defines=base + ["VF_TRANSFORM_LOG", "VF_FN_final"],
                     enforce=[a["final"]], replace=a["transform"], functions=[a["final"]],
                     pre_instrument=[["--add-library"]], cbmc=a.get("f_cbmc", []), route="finite", timeout=600,
                     assumptions=[A_SIMD, A_LOG, A_WIPE, A_BUILTIN]))
    stream = [a["init"], a["update"], a["final"]]
    hexfn = a["pfx"] + "_cvt_hex"
    uw = ["--unwindset", "memcpy.0:%d,memset.0:%d" % (B + 2, 2 * B + 2), "--unwinding-assertions", "--object-bits", "10"]
    jobs.append(dict(name=tag + ".oneshot.get_digest", harness="harness/C04/oneshot.c",
                     defines=base + ["VF_FN_hash_get_digest", "VF_LIBC_BYTELOOP"],
                     enforce=[a["pfx"] + "_get_digest"], replace=stream, functions=[a["pfx"] + "_get_digest"],
                     cbmc=uw, route="finite", assumptions=[A_STREAM]))
    jobs.append(dict(name=tag + ".oneshot.get_digest_str", harness="harness/C04/oneshot.c",
                     defines=base + ["VF_FN_hash_get_digest_str", "VF_LIBC_BYTELOOP"],
                     enforce=[a["pfx"] + "_get_digest_str"], replace=stream + [hexfn],
                     functions=[a["pfx"] + "_get_digest_str", a["pfx"] + "_cvt_str"],
                     cbmc=uw, route="finite",
                     assumptions=[A_STREAM, "%s replaced by its contract (discharged by job %s.cvt_hex)" % (hexfn, alg)]))
    return jobs


def cvt_job(alg, a):
    return dict(name=alg + ".cvt_hex", harness="harness/C04/cvt_hex.c", mode="plain", defines=[a["D"]],
                functions=[a["pfx"] + "_cvt_hex"], cbmc=["--unwind", "66", "--unwinding-assertions"], route="finite",
                assumptions=["plain harness (no contract instrumentation): the digit table is a function-local static pointer that --dfcc would havoc"])


def c04_jobs():
    jobs = []
    # ---------------- MD5 ----------------
    a = ALGS["md5"]
    for r in range(4):
        jobs.append(t_job("md5.T.align%d" % r, "harness/C04/md5_T.c", ["VF_ALIGN=%d" % r], "md5_transform", 64, timeout=120))
    jobs.append(t_job("md5.T.alias", "harness/C04/md5_T.c", ["VF_T_ALIAS"], "md5_transform", 64, timeout=120))
    jobs += u_jobs("md5", a, [a["D"]], 64, 8)
    jobs += if_jobs("md5", "md5", a, [a["D"]], 64)
    jobs.append(cvt_job("md5", a))
    # ---------------- SHA-1, SHA-2 ----------------
    jobs.append(dict(name="sha.lemma.ch_maj", harness="harness/C04/sha_lemma.c", mode="plain", functions=[],
                     cbmc=[], route="finite", timeout=120,
                     assumptions=["lemma used by specs/sha1_spec.h, specs/sha2_spec.h: OR spelling of Ch/Maj == FIPS 180-4 XOR spelling"]))
    for alg, gen, blk, rounds in (("sha1", "sha1_transform_generic", 64, 80),
                                  ("sha2", "sha2_transform_block64_generic", 64, 64),
                                  ("sha2", "sha2_transform_block128_generic", 128, 80)):
        a = ALGS[alg]
        tag = "sha1" if alg == "sha1" else "sha2_b%d" % blk
        base = [a["D"]] + (["VF_BLK=%d" % blk] if alg == "sha2" else [])
        r = max(rounds, blk)
        jobs.append(t_job(tag + ".T.n1", "harness/C04/sha_T.c", base + ["VF_T_FN=" + gen], gen, r))
        jobs.append(t_job(tag + ".T.n1.align1", "harness/C04/sha_T.c", base + ["VF_ALIGN=1", "VF_T_FN=" + gen], gen, r))
        jobs.append(t_job(tag + ".T.alias", "harness/C04/sha_T.c", base + ["VF_T_ALIAS", "VF_T_FN=" + gen], gen, r))
        # the run-time dispatcher with the generic transform inlined
        jobs.append(t_job(tag + ".T.dispatch", "harness/C04/sha_T.c", base + ["VF_T_FN=" + a["transform"][0]], a["transform"][0], r))
        if alg == "sha1":
            jobs.append(t_job(tag + ".T.n2", "harness/C04/sha_T.c", base + ["VF_T_NBLK=2", "VF_T_FN=" + gen], gen, r))
            for n in (2, 3):
                jobs.append(dict(name="%s.T.chain%d" % (tag, n), harness="harness/C04/sha_T_chain.c", mode="plain",
                                 defines=base + ["VF_T_NBLK=%d" % n, "VF_T_FN=" + gen], functions=[gen], backend="cvc5",
                                 cbmc=["--unwind", str(r + 2), "--unwinding-assertions"], route="bounded",
                                 bound="%d consecutive blocks in one call (the block loop is the same code for every count)" % n,
                                 timeout=300, assumptions=[A_SIMD, A_CVC5]))
    # T.loop: the block loop for any number of blocks (plain mode + loop contract, inner loops pre-unwound)
    A_LOOP = "loop contract on the block loop supplied through loops/*.json; inner constant-bound loops unwound by goto-instrument before the contract is applied"
    jobs.append(dict(name="sha1.T.loop", harness="harness/C04/sha_T_loop.c", mode="plain",
                     defines=["VF_ALG_SHA1", "VF_T_FN=sha1_transform_generic"], functions=["sha1_transform_generic"],
                     pre_instrument=[["--unwindset", "sha1_transform_generic.0:65,sha1_transform_generic.1:21,sha1_transform_generic.2:21,"
                                      "sha1_transform_generic.3:21,sha1_transform_generic.4:21,sha1_memcpy_bswap.0:17", "--unwinding-assertions"]],
                     loops="loops/hash_sha1_transform_loop.json", cbmc=[], trace=False, route="unbounded", timeout=1500,
                     assumptions=[A_SIMD, A_LOOP]))
    jobs.append(dict(name="sha2_b${B}.T.loop", harness="harness/C04/sha_T_loop.c", mode="plain",
                     defines=["VF_ALG_SHA2", "VF_BLK=${B}", "VF_T_FN=${FN}"], functions=["${FN}"],
                     pre_instrument=[["--unwindset", "${FN}.0:${U0},${FN}.1:${U1},sha2_memcpy_bswap${BS}.0:17", "--unwinding-assertions"]],
                     loops="loops/hash_sha2_transform_loop.json", cbmc=[], trace=False, route="unbounded",
                     tier="${TIER}", timeout=3600, assumptions=[A_SIMD, A_LOOP],
                     foreach=[dict(B=64, FN="sha2_transform_block64_generic", U0=49, U1=65, BS=4, WT="unsigned int", MASK=63, HB=32, WB=256, TIER="quick"),
                              dict(B=128, FN="sha2_transform_block128_generic", U0=65, U1=81, BS=8, WT="unsigned long", MASK=127, HB=64, WB=640, TIER="thorough")]))
    a = ALGS["sha1"]
    jobs += u_jobs("sha1", a, [a["D"]], 64, 8)
    jobs += if_jobs("sha1", "sha1", a, [a["D"]], 64)
    jobs.append(cvt_job("sha1", a))
    a = ALGS["sha2"]
    for blk, lb in ((64, 8), (128, 16)):  # sha2_update depends on the block size only
        jobs += u_jobs("sha2_b%d" % blk, a, [a["D"], "VF_BLK=%d" % blk], blk, lb)
    for bits in a["variants"]:
        jobs += if_jobs("sha2_%d" % bits, "sha2", a, [a["D"], "VF_BITS=%d" % bits], blk_of("sha2", bits))
    jobs.append(cvt_job("sha2", a))
    # ---------------- GOST R 34.11-2012 ----------------
    jobs += gost_jobs()
    return jobs


def gost_jobs():
    a = ALGS["gost"]
    jobs = []
    jobs.append(dict(name="gost.tables", harness="harness/C04/gost_T.c", mode="plain", defines=["VF_GOST_T", "VF_GOST_TABLES"],
                     functions=[], cbmc=["--unwind", "260", "--unwinding-assertions"], route="finite", timeout=300,
                     assumptions=["the expanded table gost3411_2012_Ax[8][256] and the constants C are compared entry by entry with their definition from pi, tau, A (RFC 6986 5.2-5.5); LPS(x) == xor of the per-byte contributions because L is GF(2)-linear and S, P act on bytes"]))
    tn, t1 = "gost3411_2012_transform_n_generic", "gost3411_2012_transform_1_generic"
    A_TAB = "specification LPS taken in its table form over the library's expanded table (justified entry by entry by job gost.tables)"

    def T(name, defs, fn, timeout=900, tier="quick"):
        jobs.append(t_job("gost.T." + name, "harness/C04/gost_T.c", ["VF_GOST_T"] + defs + ["VF_T_FN=" + fn], fn, 64,
                          tier=tier, timeout=timeout, extra=dict(assumptions=[A_SIMD, A_CVC5, A_TAB])))
    T("g0", ["VF_T1"], t1)
    T("g0.dispatch", ["VF_T1"], "gost3411_2012_transform_1")
    # the g_N step, modular: adders and XSLP under their own contracts, then pure composition
    jobs.append(dict(name="gost.addmod512", harness="harness/C04/gost_addmod.c", mode="plain", defines=[],
                     functions=["gost3411_2012_addmod512", "gost3411_2012_addmod512_digit"],
                     cbmc=["--unwind", "10", "--unwinding-assertions"], route="finite", timeout=600, assumptions=[]))
    for nm, defs, fn in (("add512", [], "gost3411_2012_addmod512"), ("add512_digit", ["VF_GOST_ADD_DIGIT"], "gost3411_2012_addmod512_digit")):
        jobs.append(dict(name="gost." + nm, harness="harness/C04/gost_T.c", defines=["VF_GOST_T", "VF_GOST_ADD", "VF_GOST_ADD_ENFORCE"] + defs,
                         enforce=[fn], functions=[fn], cbmc=["--unwind", "10", "--unwinding-assertions"], route="finite", timeout=300,
                         assumptions=["stated against the specification's 512-bit addition vf_gost_add512 (specs/gost3411_spec.h)"]))
    for k in (1, 2, 3, 4):
        jobs.append(t_job("gost.XSLP.s%d" % k, "harness/C04/gost_T.c", ["VF_GOST_T", "VF_GOST_XSLP=%d" % k], "gost3411_2012_XSLP", 64,
                          timeout=900, extra=dict(assumptions=[A_SIMD, A_CVC5, A_TAB])))
    A_ORACLE = ("gost3411_2012_XSLP replaced (goto-instrument --replace-call-with-contract, no --dfcc) by its contract in lock-step-oracle form "
                "(specs/gost3411_spec.h, VF_GOST_LPS_ORACLE): the composition is proved for every function LPS; the contract for the standard's LPS "
                "is discharged by jobs gost.XSLP.s1..s4, the adders by gost.add512*, gost.addmod512")
    def COMP(name, defs, tier="quick", small=False):
        jobs.append(dict(name="gost.T.gN." + name, harness="harness/C04/gost_T_comp.c", mode="plain",
                         defines=defs + (["GOST3411_2012_USE_SMALL_TABLES"] if small else []),
                         functions=["gost3411_2012_transform_n_generic", "gost3411_2012_transform_n"],
                         pre_instrument=[["--replace-call-with-contract", "gost3411_2012_XSLP"]],
                         cbmc=["--unwind", "66", "--unwinding-assertions", "--object-bits", "10"], route="finite",
                         tier=tier, timeout=900, assumptions=[A_SIMD, A_ORACLE]))
    jobs.append(t_job("gost.SLP", "harness/C04/gost_T.c", ["VF_GOST_T", "VF_GOST_XSLP=5"], "gost3411_2012_SLP", 64,
                      timeout=600, extra=dict(assumptions=[A_SIMD, A_CVC5, A_TAB])))
    jobs.append(t_job("gost.small.SLP", "harness/C04/gost_T.c",
                      ["VF_GOST_T", "GOST3411_2012_USE_SMALL_TABLES", "VF_GOST_USE_LIB_SMALL", "VF_GOST_XSLP=5"], "gost3411_2012_SLP", 64,
                      timeout=600, extra=dict(assumptions=[A_SIMD, A_CVC5, "small-table build, scatter spelling of the specification (see gost.small.XSLP.*)"])))
    def COMP0(name, fn, small=False):
        jobs.append(dict(name="gost.T.g0." + name, harness="harness/C04/gost_T_comp.c", mode="plain",
                         defines=["VF_T1", "VF_T_FN=" + fn] + (["GOST3411_2012_USE_SMALL_TABLES"] if small else []),
                         functions=[fn],
                         pre_instrument=[["--replace-call-with-contract", "gost3411_2012_XSLP", "--replace-call-with-contract", "gost3411_2012_SLP"]],
                         cbmc=["--unwind", "66", "--unwinding-assertions", "--object-bits", "10"], route="finite",
                         timeout=900, assumptions=[A_SIMD, A_ORACLE + "; gost3411_2012_SLP likewise (jobs gost.SLP, gost.small.SLP)"]))
    COMP0("comp", "gost3411_2012_transform_1_generic")
    COMP0("comp.dispatch", "gost3411_2012_transform_1")
    COMP0("small.comp", "gost3411_2012_transform_1_generic", small=True)
    COMP("align0", [])
    COMP("align1", ["VF_ALIGN=1"])
    COMP("dispatch.n2", ["VF_T_NBLK=2", "VF_T_FN=gost3411_2012_transform_n"], tier="thorough")
    COMP("dispatch", ["VF_T_FN=gost3411_2012_transform_n"])
    for r in (2, 3, 4, 5, 6, 7):
        COMP("align%d" % r, ["VF_ALIGN=%d" % r], tier="thorough")
    # small-table build variant
    jobs.append(dict(name="gost.small.tables", harness="harness/C04/gost_T.c", mode="plain",
                     defines=["VF_GOST_T", "VF_GOST_TABLES", "GOST3411_2012_USE_SMALL_TABLES"], functions=[],
                     cbmc=["--unwind", "260", "--unwinding-assertions"], route="finite", timeout=300,
                     assumptions=["-DGOST3411_2012_USE_SMALL_TABLES build: sbox, A, tau (table form) and C compared entry by entry with RFC 6986 5.2-5.5"]))
    jobs.append(dict(name="gost.lemma.lps_forms", harness="harness/C04/gost_T.c", mode="plain", defines=["VF_GOST_T", "VF_GOST_LEMMA"],
                     functions=[], cbmc=["--unwind", "66", "--unwinding-assertions"], backend="cvc5", route="finite", timeout=300,
                     assumptions=["specification-internal lemma: scatter spelling of P o S (used for the small-table T jobs) == gather spelling (definition)"]))
    for k in (1, 2, 3, 4):
        jobs.append(t_job("gost.small.XSLP.s%d" % k, "harness/C04/gost_T.c",
                          ["VF_GOST_T", "GOST3411_2012_USE_SMALL_TABLES", "VF_GOST_USE_LIB_SMALL", "VF_GOST_XSLP=%d" % k], "gost3411_2012_XSLP", 64,
                          timeout=900, extra=dict(assumptions=[A_SIMD, A_CVC5,
                              "-DGOST3411_2012_USE_SMALL_TABLES build; specification LPS in scatter spelling over the library's sbox/A tables "
                              "(gost.small.tables: tables == RFC 6986; gost.lemma.lps_forms: scatter == definition)"])))
    COMP("small.align0", [], small=True)
    COMP("small.align1", ["VF_ALIGN=1"], small=True)
    gu = u_jobs("gost", a, [a["D"]], 64, 0)
    for j in gu:
        if ".U.safety" in j["name"]:  # symbolic tail: MiniSat > 15 min
            j["backend"] = "cadical"; j["tier"] = "thorough"; j["timeout"] = 1800
    jobs += gu
    for bits in a["variants"]:
        jobs += if_jobs("gost_%d" % bits, "gost", a, [a["D"], "VF_BITS=%d" % bits], 64)
    jobs.append(cvt_job("gost", a))
    return jobs


def c07_jobs():
    jobs = []
    for alg, a in ALGS.items():
        if alg == "gost" and not gost_jobs():
            continue
        for bits in a["variants"]:
            B = blk_of(alg, bits)
            tag = alg if bits is None else "%s_%d" % (alg, bits)
            base = [a["D"]] + ([] if bits is None else ["VF_BITS=%d" % bits]) + ["VF_LIBC_BYTELOOP"]
            uw = ["--unwindset", "memcpy.0:%d,memset.0:%d" % (130 if alg == "sha2" else B + 2, 130), "--unwinding-assertions", "--object-bits", "10"]
            stream = [a["init"], a["update"], a["final"]]
            h = a["hpfx"]

            def J(fn, E, R, extra=None):
                jobs.append(dict(name="hmac.%s.%s" % (tag, fn), harness="harness/C07/hmac.c", defines=base + ["VF_FN_" + fn],
                                 enforce=[E], replace=R, functions=[E], cbmc=uw, route="finite", timeout=600,
                                 assumptions=[A_STREAM, A_BYTELOOP, A_WIPE, A_KEY] + (extra or [])))
            J("init", h + "_init", stream)
            J("update", h + "_update", [a["update"]])
            J("final", h + "_final", stream)
            J("oneshot", h, stream)
            J("get_digest", a["pfx"] + "_hmac_get_digest", [h], ["%s replaced by its contract (discharged by job hmac.%s.oneshot)" % (h, tag)])
            J("get_digest_str", a["pfx"] + "_hmac_get_digest_str", [h, a["pfx"] + "_cvt_hex"],
              ["%s replaced by its contract (job hmac.%s.oneshot); %s_cvt_hex replaced by its contract (C04 job %s.cvt_hex)" % (h, tag, a["pfx"], alg)])
    return jobs


def main():
    sys.path.insert(0, os.path.dirname(os.path.abspath(__file__)))
    from mkjobs_text import C04_TEXT, C07_TEXT  # explanation / not_covered / assumptions texts
    c04 = dict(property="C04", level="proof", defaults=dict(tier="quick", mode="dfcc", timeout=300), **C04_TEXT)
    c04["jobs"] = c04_jobs()
    c07 = dict(property="C07", level="proof", defaults=dict(tier="quick", mode="dfcc", timeout=300), **C07_TEXT)
    c07["jobs"] = c07_jobs()
    for name, reg in (("C04", c04), ("C07", c07)):
        with open(os.path.join(VERIF, "obligations", name + ".json"), "w") as f:
            json.dump(reg, f, indent=1)
        q = sum(1 for j in reg["jobs"] if j.get("tier", "quick") == "quick")
        print("%s: %d jobs (%d quick)" % (name, len(reg["jobs"]), q))


if __name__ == "__main__":
    main()
