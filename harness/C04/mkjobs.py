#!/usr/bin/env python3
"""Regenerates obligations/C04.json and obligations/C07.json (the registries are plain JSON
and are what the driver reads; this script only spares writing ~150 near-identical entries
by hand).  Usage: python3 harness/C04/mkjobs.py"""
import json, os

VERIF = os.path.dirname(os.path.dirname(os.path.dirname(os.path.abspath(__file__))))

ALGS = {
    # B = block size; fresh = transform replaced inside U/F; T jobs are listed separately
    "md5":  dict(D="VF_ALG_MD5", B=64, bits=[None], pfx="md5", hpfx="hmac_md5",
                 transform="md5_transform", init="md5_init", update="md5_update", final="md5_final",
                 uloops="loops/hash_md5_update_safety.json", uloop_unwind="md5_update_wrapped_for_contract_checking.0"),
    "sha1": dict(D="VF_ALG_SHA1", B=64, bits=[None], pfx="sha1", hpfx="hmac_sha1",
                 transform="sha1_transform", init="sha1_init", update="sha1_update", final="sha1_final"),
    "sha2": dict(D="VF_ALG_SHA2", B=None, bits=[224, 256, 384, 512], pfx="sha2", hpfx="hmac_sha2",
                 transform="sha2_transform", init="sha2_init", update="sha2_update", final="sha2_final",
                 f_cbmc=["--unwindset", "sha2_memcpy_bswap4.0:10,sha2_memcpy_bswap8.0:10", "--unwinding-assertions"]),
}


def blk_of(alg, bits):
    if alg == "sha2":
        return 64 if bits <= 256 else 128
    return ALGS[alg]["B"]

A_SIMD = "SIMD/SHA-NI/AVX transforms compiled out exactly as tests/hash/main.c does (#undef __SSE2__): only the portable transforms are verified"
A_WIPE = "the volatile function pointer *_memset_volatile holds its initialiser memset (re-established by the harness, --dfcc havocs mutable statics); volatile qualifier not modelled"
A_LOG = "compression function replaced by its block-logging contract (contracts/<alg>.h, VF_TRANSFORM_LOG): arbitrary chaining value, scratch clobbered, block appended to the ghost log; discharged by the T jobs"
A_STREAM = "hash primitives *_init/_update/_final replaced by their byte-stream contracts (contracts/<alg>.h, VF_HASH_STREAM); these are the U/F contracts seen through the representation relation count == stream length, tail == last (length mod B) bytes, block log == the rest"
A_BYTELOOP = "memcpy/memset given their defining byte-loop bodies (stubs/hash_libc.h, VF_LIBC_BYTELOOP) because CBMC 6.11's built-in model loses the bytes of a symbolic-length copy into a local array"
A_MEMCPY_C = "memcpy replaced by its assumed contract (stubs/hash_libc.h, VF_LIBC_CONTRACTS: reads src[0..n), writes exactly dst[0..n)) in the unbounded safety half; contents are covered by the bounded content half with CBMC's own memcpy model"
A_CVC5 = "SMT back end cvc5 1.0.3 (z3 4.8.12 and the SAT back ends do not finish on the ARX equivalences)"
A_KEY = "HMAC key pointer is a valid object even for key_len == 0 (memcpy(dst, NULL, 0) is formally undefined and not examined)"

QUICK_TAILS = lambda B: [0, 1, B - 9, B - 8, B - 1]


def c04_jobs():
    jobs = []
    # ---------------- MD5 ----------------
    a = ALGS["md5"]
    for r in range(4):
        jobs.append(dict(name="md5.T.align%d" % r, harness="harness/C04/md5_T.c", defines=["VF_ALIGN=%d" % r],
                         enforce=["md5_transform"], functions=["md5_transform"], backend="cvc5",
                         cbmc=["--unwind", "66", "--unwinding-assertions"], route="finite", timeout=120,
                         assumptions=[A_SIMD, A_CVC5]))
    jobs.append(dict(name="md5.T.alias", harness="harness/C04/md5_T.c", defines=["VF_T_ALIAS"],
                     enforce=["md5_transform"], functions=["md5_transform"], backend="cvc5",
                     cbmc=["--unwind", "66", "--unwinding-assertions"], route="finite", timeout=120,
                     assumptions=[A_SIMD, A_CVC5]))
    jobs += iuf_jobs("md5", a, None)
    # ---------------- SHA-1, SHA-2 ----------------
    jobs.append(dict(name="sha.lemma.ch_maj", harness="harness/C04/sha_lemma.c", mode="plain", functions=[],
                     cbmc=[], route="finite", timeout=120,
                     assumptions=["lemma used by specs/sha1_spec.h, specs/sha2_spec.h: OR spelling of Ch/Maj == FIPS 180-4 XOR spelling"]))
    for alg, gen, blk, rounds in (("sha1", "sha1_transform_generic", 64, 80),
                                  ("sha2", "sha2_transform_block64_generic", 64, 64),
                                  ("sha2", "sha2_transform_block128_generic", 128, 80)):
        a = ALGS[alg]
        tag = "sha1" if alg == "sha1" else "sha2_b%d" % blk
        base = [a["D"]] + (["VF_BLK=%d" % blk] if alg == "sha2" else [])
        disp = a["transform"]
        uw = ["--unwind", str(max(rounds, blk) + 2), "--unwinding-assertions"]
        def T(name, defs, fn, replace=None, tier="quick"):
            jobs.append(dict(name="%s.T.%s" % (tag, name), harness="harness/C04/sha_T.c", defines=base + defs + ["VF_T_FN=" + fn],
                             enforce=[fn], **({"replace": replace} if replace else {}), functions=[fn], backend="cvc5",
                             cbmc=uw, route="finite", timeout=300, tier=tier, assumptions=[A_SIMD, A_CVC5]))
        T("n1", [], gen)
        T("n1.align1", ["VF_ALIGN=1"], gen)
        if alg == "sha1":
            T("n2", ["VF_T_NBLK=2"], gen)
        for n in ((2, 3) if alg == "sha1" else ()):
            jobs.append(dict(name="%s.T.chain%d" % (tag, n), harness="harness/C04/sha_T_chain.c", mode="plain",
                             defines=base + ["VF_T_NBLK=%d" % n, "VF_T_FN=" + gen], functions=[gen], backend="cvc5",
                             cbmc=["--unwind", str(max(rounds, blk) + 2), "--unwinding-assertions"], route="bounded",
                             bound="%d consecutive blocks in one call (the block loop is the same code for every count)" % n,
                             timeout=300, assumptions=[A_SIMD, A_CVC5]))
        T("alias", ["VF_T_ALIAS"], gen)
        T("dispatch", [], disp)  # the dispatcher with the generic transform inlined
    jobs += iuf_jobs("sha1", ALGS["sha1"], None)
    for bits in ALGS["sha2"]["bits"]:
        jobs += iuf_jobs("sha2", ALGS["sha2"], bits)
    return jobs


def iuf_jobs(alg, a, bits):
    """I, U (safety + content per tail), F, one-shot, hex for one algorithm / digest size."""
    jobs = []
    B = blk_of(alg, bits)
    tag = alg if bits is None else "%s_%d" % (alg, bits)
    base = [a["D"]] + ([] if bits is None else ["VF_BITS=%d" % bits])
    jobs.append(dict(name=tag + ".I", harness="harness/C04/hash_UF.c", defines=base + ["VF_FN_init"],
                     enforce=[a["init"]], functions=[a["init"]], route="finite", timeout=120,
                     assumptions=[A_SIMD]))
    jobs.append(dict(name=tag + ".U.safety", harness="harness/C04/hash_UF.c",
                     defines=base + ["VF_TRANSFORM_LOG", "VF_FN_update", "VF_U_NOCONTENT", "VF_LIBC_CONTRACTS"],
                     enforce=[a["update"]], replace=[a["transform"], "memcpy"], functions=[a["update"]],
                     **({"loops": a["uloops"]} if a.get("uloops") else {}),
                     cbmc=[], route="unbounded", timeout=600,
                     assumptions=[A_SIMD, A_LOG, A_MEMCPY_C]))
    # content half of U: memcpy as byte loop (the built-in model mis-handles symbolic lengths into
    # word-typed buffers), one job per entry tail length
    def content(t, nmax, tier, suffix=""):
        us = "memcpy.0:%d" % (nmax + 2)
        if a.get("uloop_unwind"):
            us += ",%s:%d" % (a["uloop_unwind"], nmax // B + 3)
        jobs.append(dict(name="%s.U.content%s.t%d" % (tag, suffix, t), harness="harness/C04/hash_UF.c",
                         defines=base + ["VF_TRANSFORM_LOG", "VF_FN_update", "VF_TAIL=%d" % t, "VF_U_NMAX=%d" % nmax, "VF_LIBC_BYTELOOP"],
                         enforce=[a["update"]], replace=[a["transform"]], functions=[a["update"]],
                         cbmc=["--unwindset", us, "--unwinding-assertions"], route="bounded",
                         bound="data_size <= %d on a %d-byte data object, entry tail length fixed to %d "
                               "(one job per tail length 0..%d; symbolic data_size, contents, count, chaining value)" % (nmax, nmax, t, B - 1),
                         tier=tier, timeout=900, assumptions=[A_SIMD, A_LOG, A_BYTELOOP]))
    for t in range(B):
        content(t, B + 2, "quick" if t in QUICK_TAILS(B) else "thorough")
    for t in QUICK_TAILS(B):
        content(t, 2 * B + 2, "thorough", ".n2")
    jobs.append(dict(name=tag + ".F", harness="harness/C04/hash_UF.c", defines=base + ["VF_TRANSFORM_LOG", "VF_FN_final"],
                     enforce=[a["final"]], replace=[a["transform"]] + a.get("final_extra_replace", []),
                     functions=[a["final"]],
                     pre_instrument=[["--add-library"]], cbmc=a.get("f_cbmc", []), route="finite", timeout=300,
                     assumptions=[A_SIMD, A_LOG, A_WIPE]))
    stream = [a["init"], a["update"], a["final"]]
    hexfn = a["pfx"] + "_cvt_hex"
    uw = ["--unwindset", "memcpy.0:%d,memset.0:%d" % (B + 2, 2 * B + 2), "--unwinding-assertions", "--object-bits", "10"]
    jobs.append(dict(name=tag + ".oneshot.get_digest", harness="harness/C04/oneshot.c",
                     defines=base + ["VF_FN_hash_get_digest", "VF_LIBC_BYTELOOP"],
                     enforce=[a["pfx"] + "_get_digest"], replace=stream, functions=[a["pfx"] + "_get_digest"],
                     cbmc=uw, route="finite", assumptions=[A_STREAM]))
    jobs.append(dict(name=tag + ".oneshot.get_digest_str", harness="harness/C04/oneshot.c",
                     defines=base + ["VF_FN_hash_get_digest_str", "VF_LIBC_BYTELOOP"],
                     enforce=[a["pfx"] + "_get_digest_str"], replace=stream + [hexfn],
                     functions=[a["pfx"] + "_get_digest_str", a["pfx"] + "_cvt_str"],
                     cbmc=uw, route="finite", assumptions=[A_STREAM, "%s replaced by its contract (discharged by job %s.cvt_hex)" % (hexfn, alg)]))
    if bits is None or bits == a["bits"][0]:
        jobs.append(dict(name=alg + ".cvt_hex", harness="harness/C04/cvt_hex.c", mode="plain", defines=[a["D"]],
                         functions=[hexfn], cbmc=["--unwind", "%d" % 66, "--unwinding-assertions"], route="finite",
                         assumptions=["plain harness (no contract instrumentation): the digit table is a function-local static pointer"]))
    return jobs


def c07_jobs():
    jobs = []
    for alg, a in ALGS.items():
        for bits in a["bits"]:
            B = blk_of(alg, bits)
            tag = alg if bits is None else "%s_%d" % (alg, bits)
            base = [a["D"]] + ([] if bits is None else ["VF_BITS=%d" % bits]) + ["VF_LIBC_BYTELOOP"]
            uw = ["--unwindset", "memcpy.0:%d,memset.0:%d" % (B + 2, 2 * B + 2), "--unwinding-assertions", "--object-bits", "10"]
            stream = [a["init"], a["update"], a["final"]]
            h = a["hpfx"]

            def J(fn, E, R, extra=None):
                jobs.append(dict(name="hmac.%s.%s" % (tag, fn), harness="harness/C07/hmac.c", defines=base + ["VF_FN_" + fn],
                                 enforce=[E], replace=R, functions=[E], cbmc=uw, route="finite", timeout=600,
                                 assumptions=[A_STREAM, A_BYTELOOP, A_WIPE, A_KEY] + (extra or [])))
            J("init", h + "_init", stream)
            J("update", h + "_update", [a["update"]])
            J("final", h + "_final", stream)
            J("oneshot", h, stream)
            J("get_digest", a["pfx"] + "_hmac_get_digest", [h], ["%s replaced by its contract (discharged by job hmac.%s.oneshot)" % (h, tag)])
            J("get_digest_str", a["pfx"] + "_hmac_get_digest_str", [h, a["pfx"] + "_cvt_hex"],
              ["%s replaced by its contract (job hmac.%s.oneshot); %s_cvt_hex replaced by its contract (C04 job %s.cvt_hex)" % (h, tag, a["pfx"], alg)])
    return jobs


def main():
    from mkjobs_text import C04_TEXT, C07_TEXT  # explanation / not_covered / assumptions texts
    c04 = dict(property="C04", level="proof", defaults=dict(tier="quick", mode="dfcc", timeout=300), **C04_TEXT)
    c04["jobs"] = c04_jobs()
    c07 = dict(property="C07", level="proof", defaults=dict(tier="quick", mode="dfcc", timeout=300), **C07_TEXT)
    c07["jobs"] = c07_jobs()
    for name, reg in (("C04", c04), ("C07", c07)):
        with open(os.path.join(VERIF, "obligations", name + ".json"), "w") as f:
            json.dump(reg, f, indent=1)
        q = sum(1 for j in reg["jobs"] if j.get("tier", "quick") == "quick")
        print("%s: %d jobs (%d quick)" % (name, len(reg["jobs"]), q))


if __name__ == "__main__":
    import sys
    sys.path.insert(0, os.path.dirname(os.path.abspath(__file__)))
    main()
