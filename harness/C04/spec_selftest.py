#!/usr/bin/env python3
"""Build and run harness/C04/spec_selftest.c (published vectors), then cross-check the spec
functions against an independent implementation (Python hashlib) on every length 0..300 and
recompute the SHA-2 constant tables from the primes with exact integer arithmetic.
Exit 0 = all specifications agree with the standards."""
import hashlib, os, shutil, subprocess, sys, tempfile
from math import isqrt

VERIF = os.path.dirname(os.path.dirname(os.path.dirname(os.path.abspath(__file__))))
src = os.path.join(VERIF, "harness", "C04", "spec_selftest.c")
tmp = tempfile.mkdtemp(prefix="hashes-selftest-")
exe = os.path.join(tmp, "spec_selftest")
subprocess.check_call(["gcc", "-O1", "-I" + VERIF, "-o", exe, src, "-lm"])
rc = subprocess.call([exe])
if rc != 0:
    shutil.rmtree(tmp, ignore_errors=True)
    sys.exit(1)
out = subprocess.check_output([exe, "dump"], text=True).splitlines()
shutil.rmtree(tmp, ignore_errors=True)

def icbrt(n):
    x = 1 << ((n.bit_length() + 2) // 3)
    while True:
        y = (2 * x + n // (x * x)) // 3
        if y >= x:
            break
        x = y
    while x * x * x > n:
        x -= 1
    while (x + 1) ** 3 <= n:
        x += 1
    return x

primes = []
p = 2
while len(primes) < 80:
    if all(p % q for q in primes if q * q <= p):
        primes.append(p)
    p += 1

x = 12345
msg = bytearray()
for i in range(301):
    x = (x * 1103515245 + 12345) & 0xffffffff
    msg.append((x >> 16) & 0xff)

bad = 0
checked = 0
for line in out:
    f = line.split()
    if f[0] in ("md5", "sha1", "sha224", "sha256", "sha384", "sha512"):
        n = int(f[1])
        if hashlib.new(f[0], bytes(msg[:n])).hexdigest() != f[2]:
            print("MISMATCH", f[0], n); bad += 1
        checked += 1
    elif f[0].startswith("streebog"):
        try:
            h = hashlib.new(f[0], bytes(msg[:int(f[1])])).hexdigest()
        except ValueError:
            continue          # this Python's OpenSSL has no Streebog: published vectors only
        if h != f[2]:
            print("MISMATCH", f[0], f[1]); bad += 1
        checked += 1
    elif f[0] == "K256":
        i = int(f[1]); want = icbrt(primes[i] << 96) & 0xffffffff
        bad += (want != int(f[2], 16)); checked += 1
    elif f[0] == "K512":
        i = int(f[1]); want = icbrt(primes[i] << 192) & 0xffffffffffffffff
        if want != int(f[2], 16):
            print("K512", i); bad += 1
        checked += 1
    elif f[0] in ("H256", "H512", "H384", "H224"):
        i = int(f[1]); v = int(f[2], 16)
        if f[0] == "H256": want = isqrt(primes[i] << 64) & 0xffffffff
        elif f[0] == "H512": want = isqrt(primes[i] << 128) & 0xffffffffffffffff
        elif f[0] == "H384": want = isqrt(primes[8 + i] << 128) & 0xffffffffffffffff
        else: want = isqrt(primes[8 + i] << 128) & 0xffffffff
        if want != v:
            print(f[0], i); bad += 1
        checked += 1
print("spec cross-check: %d comparisons, %d mismatches" % (checked, bad))
sys.exit(1 if bad else 0)
