/* C04 / T for GOST R 34.11-2012 (big-table build):
 *   -DVF_GOST_T -DVF_T_FN=gost3411_2012_transform_n_generic | gost3411_2012_transform_n
 *               [-DVF_ALIGN=r] [-DVF_T_NBLK=n] [-DVF_T_BITS=bits]   h = g_N(h,m); N += bits; Sigma += m
 *   -DVF_GOST_T -DVF_T1 -DVF_T_FN=gost3411_2012_transform_1_generic | gost3411_2012_transform_1   h = g_0(h,m)
 *   -DVF_GOST_LEMMA   spec-internal: scatter/shift spelling of LPS == definitional spelling
 *   -DVF_GOST_XSLP=1..4   gost3411_2012_XSLP == LPS(a xor b) in each call shape
 *   -DVF_GOST_ADD [-DVF_GOST_ADD_DIGIT] -DVF_GOST_ADD_ENFORCE   gost3411_2012_addmod512[_digit] == spec addition
 *   -DVF_GOST_TABLES   the expanded table Ax[8][256] == L o P o S contribution of each (position, byte)
 */
#include "contracts/gost3411.h"
#ifndef VF_ALIGN
#define VF_ALIGN 0
#endif
#ifndef VF_T_NBLK
#define VF_T_NBLK 1
#endif

void harness(void) {
#if defined(VF_GOST_TABLES)
#ifndef GOST3411_2012_USE_SMALL_TABLES
	for (unsigned j = 0; j < 8; j++)
		for (unsigned b = 0; b < 256; b++)
			VF_ASSERT(gost3411_2012_Ax[j][b] == vf_gost_expand(j, (uint8_t)b),
			    "Ax[j][b] == L(P(S())) contribution of byte value b at word j (RFC 6986 pi, tau, A)");
#endif
#ifdef GOST3411_2012_USE_SMALL_TABLES
	for (unsigned b = 0; b < 256; b++)
		VF_ASSERT(gost3411_2012_sbox[b] == vf_gost_pi[b], "small tables: sbox == pi (RFC 6986 5.2)");
	for (unsigned t = 0; t < 64; t++) {
		VF_ASSERT(gost3411_2012_A[t] == vf_gost_A[t], "small tables: A (RFC 6986 5.4)");
		VF_ASSERT(GOST3411_2012_TAU(t) == 8 * (t & 7) + (t >> 3), "small tables: tau == byte-matrix transpose (RFC 6986 5.3)");
	}
#endif
	for (unsigned r = 0; r < 12; r++)
		for (unsigned i = 0; i < 8; i++)
			VF_ASSERT(gost3411_2012_C[r][i] == vf_gost_C[r][i], "iteration constants C_1..C_12");
	VF_CANARY("gost tables harness end");
#elif defined(VF_GOST_LEMMA)
	/* the two spellings of P o S used by the specification are the same function */
	uint64_t x[8], g[8], sc[8];
	for (unsigned i = 0; i < 8; i++) x[i] = nondet_uint64_t();
	vf_gost_ps_gather(g, x);
	vf_gost_ps_scatter(sc, x);
	for (unsigned i = 0; i < 8; i++)
		VF_ASSERT(g[i] == sc[i], "P o S: scatter spelling == gather spelling");
	VF_CANARY("gost lemma harness end");
#elif defined(VF_GOST_XSLP)
	/* dst = LPS(a xor b) in the call shapes of the g_N / g_0 steps; the context is the
	 * harness's own object so that the scratch buffers are concrete pointers.
	 * VF_GOST_XSLP = 1: (kbuf, hash, counter)   2: (tbuf, kbuf, block)
	 *                3: (kbuf, kbuf, any)   dst == a   4: (tbuf, tbuf, kbuf)  dst == a */
	VF_NONDET_OBJ(gost3411_2012_ctx_t, ctx_obj);
	VF_NONDET_BYTES(blk, 64);
	gost3411_2012_ctx_t *ctx = &ctx_obj;
#if VF_GOST_XSLP == 5	/* gost3411_2012_SLP(kbuf, hash): first step of g_0 */
	gost3411_2012_SLP(ctx, ctx->kbuf, ctx->hash);
#elif VF_GOST_XSLP == 1
	gost3411_2012_XSLP(ctx, ctx->kbuf, ctx->hash, ctx->counter);
#elif VF_GOST_XSLP == 2
	gost3411_2012_XSLP(ctx, ctx->tbuf, ctx->kbuf, (const uint64_t *)(const void *)blk.b);
#elif VF_GOST_XSLP == 3
	gost3411_2012_XSLP(ctx, ctx->kbuf, ctx->kbuf, (const uint64_t *)(const void *)blk.b);	/* any 64-byte operand, C[i] included */
#else
	gost3411_2012_XSLP(ctx, ctx->tbuf, ctx->tbuf, ctx->kbuf);
#endif
	VF_CANARY("gost XSLP harness end");
#elif defined(VF_GOST_ADD)
	/* the 512-bit adders against the specification's addition (contracts/gost3411.h) */
	VF_FRESH_PTR(uint64_t, a, 64);
#ifdef VF_GOST_ADD_DIGIT
	VF_NONDET(uint64_t, d);
	gost3411_2012_addmod512_digit(a, d);
#else
	VF_FRESH_PTR(uint64_t, b, 64);
	gost3411_2012_addmod512(a, b);
#endif
	VF_CANARY("gost adder harness end");
#else
#ifdef VF_T_OWNCTX
	VF_NONDET_OBJ(gost3411_2012_ctx_t, ctx_obj);
	gost3411_2012_ctx_t *ctx = &ctx_obj;
#else
	VF_FRESH_PTR(gost3411_2012_ctx_t, ctx, sizeof(gost3411_2012_ctx_t));
#endif
	VF_NONDET_BYTES(blk, VF_T_NBLK * 64 + VF_ALIGN);
#ifdef VF_T1
	VF_T_FN(ctx, (const uint64_t *)(const void *)(blk.b + VF_ALIGN));
#else
#ifdef VF_T_BITS
	size_t bits = VF_T_BITS;
#else
	VF_NONDET(size_t, bits);
	VF_ASSUME(bits <= 512);
#endif
	VF_T_FN(ctx, bits, blk.b + VF_ALIGN, blk.b + VF_ALIGN + VF_T_NBLK * 64);
#endif
	VF_CANARY("gost transform harness end");
#endif
}
