/* C04 / T.loop: the block loop of a (ctx, blocks, blocks_max) transform, for ANY number of
 * blocks.  Plain harness + a loop contract on the block loop (loops/hash_<fn>_loop.json; the
 * constant-bound inner loops are unwound first).  Proved, without any reasoning about the
 * round function: memory safety for a span of unbounded length, termination, the loop's
 * frame (only the working variables, the chaining value and the schedule scratch change) and
 * the invariant
 *     "at the head of every iteration the working variables A.. equal the chaining value
 *      in ctx->hash, and `blocks` is a whole number of blocks before `blocks_max`".
 * Contract T (one block) shows that ONE iteration started in that relation applies the
 * standard's block function to ctx->hash reading exactly the block under `blocks` (the
 * schedule scratch W is arbitrary there); the invariant carries this to every iteration,
 * i.e. a call over n blocks is the n-fold application in order.
 *   -DVF_ALG_SHA1 | -DVF_ALG_SHA2 -DVF_BLK=64|128 ;  -DVF_T_FN=<function> */
#include <stdlib.h>
#if defined(VF_ALG_SHA1)
#include "contracts/sha1.h"
#define CTX_T	sha1_ctx_t
#define VF_BLK	64
#elif defined(VF_ALG_SHA2)
#include "contracts/sha2.h"
#define CTX_T	sha2_ctx_t
#endif

static CTX_T ctx;

void harness(void) {
	VF_NONDET(size_t, nbytes);
	VF_ASSUME((nbytes & (VF_BLK - 1)) == 0 && nbytes != 0);
	uint8_t *blocks = malloc(nbytes);
	VF_ASSUME(blocks != NULL);
	for (unsigned i = 0; i < sizeof(ctx.hash) / sizeof(ctx.hash[0]); i++)
		ctx.hash[i] = nondet_uint64_t();
	VF_T_FN(&ctx, blocks, blocks + nbytes);
	free(blocks);
	VF_CANARY("transform loop harness end");
}
