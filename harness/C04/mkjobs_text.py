"""Registry-level texts of obligations/C04.json and C07.json."""

C04_TEXT = dict(
    explanation=(
        "The standard's definition of each hash is split into contracts that are proved separately on the unmodified "
        "headers (portable build, SIMD macros removed exactly as tests/hash/main.c does) and compose to 'digest == standard digest "
        "for every message and every partition into update calls': "
        "I (*_init): chaining value == the standard's IV, nothing absorbed. "
        "T (compression): one call of md5_transform / sha1_transform_generic / sha2_transform_block64|128_generic / "
        "gost3411_2012_transform_n|_1_generic (and the run-time dispatchers) leaves hash' == spec_compress(hash, block) (GOST g_N: also N' == N + bits, Sigma' == Sigma + m; proved modularly: 512-bit adders, X.L.P.S steps and their composition separately), "
        "the spec functions being written from RFC 1321, FIPS 180-4 and RFC 6986 (specs/*_spec.h; executed natively against the "
        "published vectors and, for MD5/SHA, against Python's hashlib on every length 0..300 and against sin()/prime roots for the "
        "constant tables: python3 harness/C04/spec_selftest.py); one job per source-alignment class and for block == ctx->buffer. "
        "U (*_update, transform replaced by a block-logging contract): count' == count + n (128-bit for SHA-384/512; GOST: "
        "buffer_usage), the bytes handed to the transform are exactly the complete blocks of tail||data in order, the new tail is "
        "the rest, data is only read, the chaining value is untouched when no block completes. Because the postcondition depends "
        "only on tail||data, composing U with itself covers every chunking, including empty updates. "
        "F (*_final): the blocks fed are tail||0x80||0..0||bit length (one or two blocks exactly at the 55/56 resp. 111/112 boundary, "
        "little-endian length for MD5, big-endian 64/128-bit for SHA; GOST: tail||0x01||0..0 declared with the tail's bit length, "
        "then g_0 on the context's N and on Sigma in this order), digest == serialised final chaining value (truncated for "
        "SHA-224/384, upper half for GOST-256), and every byte of the context is zero on return. "
        "One-shot and hex entry points: exactly one init-update-final over the caller's span; 2*size hex digits + NUL inside the buffer. "
        "All sequences are observed through ghost indices (stubs/hash_ghost.h), no quantifiers."),
    not_covered=[
        "SSE2/SSSE3/SSE4.1, SHA-NI, AVX/AVX2 transforms and the CPUID dispatch (intrinsics and inline assembly are outside CBMC; "
        "compiled out with #undef __SSE2__ exactly like tests/hash/main.c); compiler/optimisation-level variants",
        "monolithic equivalences that do not close and were replaced by modular proofs: SHA-2 transform over two blocks against the "
        "specification (cvc5 error after 210-270 s; self-composition needs 16 GB) -> T for one block plus T.loop (block loop for any "
        "number of blocks: working variables == ctx->hash at every loop head, whole blocks, frame, termination); GOST g_N step against "
        "the specification as one query (cvc5 error after 17 min, also with the adders replaced; with LPS as CBMC uninterpreted functions "
        "neither SAT, z3 nor cvc5 finish in 15 min) -> adders, XSLP/SLP under their own contracts plus a lock-step-oracle composition "
        "proof that holds for every function LPS (jobs gost.T.gN.*, gost.T.g0.comp*)",
        "GOST3411_2012_USE_SMALL_TABLES build: covered are the tables (== RFC 6986 pi, tau, A, C), gost3411_2012_XSLP / _SLP == LPS and "
        "the g_N / g_0 compositions; the I/U/F/one-shot jobs were run in the big-table build only (that code does not depend on the "
        "table variant)",
        "U safety half for an unbounded data_size is closed for MD5 only; for SHA-1/SHA-2/GOST a symbolic-length write inside the "
        "448..864-byte context makes the unbounded formula 13.7 M variables and no back end finishes (SAT, CaDiCaL, kissat, z3; independent of "
        "--trace): replaced by an exact-size span with data_size <= 66 (quick) / 2B+2 (thorough) and a symbolic entry tail",
        "U content half is bounded (data_size <= 66, thorough also <= 2B+2 = 130 for the boundary tails; one job per entry tail length; "
        "quick tier: tails 0, 1 and the padding-boundary residues B-9, B-8, B-1 (GOST: 0, 1, 62, 63), thorough tier: 12 further tail "
        "lengths per algorithm - all B tail lengths would be about 7 CPU-hours). For the 128-byte block size the U jobs are in the "
        "thorough tier only (7 min each with CaDiCaL, MiniSat > 15 min): in the quick tier sha2_update is covered through the 64-byte "
        "block size (same code, the block size is a run-time field) and SHA-384/512 through I, T and F",
        "sha2_init / hmac_sha2_init with a bits argument outside {224,256,384,512,28,32,48,64} leave hash_size and block_size "
        "uninitialised (no default case, unlike gost3411_2012_init); the contracts require a valid size",
        "message lengths >= 2^61 bytes for MD5/SHA-1/SHA-224/256 (the 64-bit bit counter of the standard wraps; the contract states the "
        "length field as (count << 3) mod 2^64)",
        "big-endian hosts (the code stores the MD5 length and GOST words through uint64_t; x86-64 little-endian model only)",
    ],
    assumptions=[
        "CBMC 6.11 models pointers as (object, offset): the low bits of (size_t)pointer are the offset inside the object, which is "
        "how the alignment classes of the T jobs are selected",
        "the composition jobs gost.T.gN.* / gost.T.g0.comp* use goto-instrument --replace-call-with-contract without --dfcc (CBMC's "
        "original contract replacement: requires asserted, assigns havocked, ensures assumed) in a plain harness",
        "term alignment of the specifications (documented in specs/*.h): MD5/SHA sums written in the association the solver needs, "
        "Ch/Maj spelled with OR (proved equal to the FIPS spelling by job sha.lemma.ch_maj), SHA-256 schedule scratch laid out like "
        "the library's under CBMC, GOST LPS in table form (proved entry by entry by job gost.tables); the native self test runs the same text",
    ],
    trusted_base=[
        "specs/{md5,sha1,sha2,gost3411}_spec.h are RFC 1321 / FIPS 180-4 / RFC 6986 (checked natively against the published vectors: "
        "python3 harness/C04/spec_selftest.py, or gcc -O1 -I/verif harness/C04/spec_selftest.c -lm)",
        "cvc5 1.0.3 for the T jobs",
    ],
)

C07_TEXT = dict(
    explanation=(
        "hmac_<alg>_init/_update/_final, the one-shot hmac_<alg>() and the *_hmac_get_digest[_str] wrappers are enforced against RFC 2104 "
        "with the underlying hash replaced by its byte-stream contracts (init opens an empty stream, update appends data[0..n), final "
        "records (stream, digest) in a ghost digest table, returns that arbitrary digest and zeroes the context): "
        "after init the optional key-hash entry has input == key (taken iff key_len > B), the inner stream is (K' xor 0x36^B) and k_opad "
        "== K' xor 0x5c^B with K' = key||0.. or H(key)||0..; update appends the message and leaves k_opad alone (frame); final records the "
        "inner entry as the stream stood, an outer entry with input k_opad||inner digest, returns the outer digest, and leaves k_opad and "
        "the hash context all-zero; the one-shot functions state the whole of RFC 2104 end to end. key_len, data_size and all contents are "
        "symbolic and unbounded (every key length, not samples); SHA-2 and GOST for each digest size, the bits argument in bits or bytes, "
        "*digest_size reported from the size saved before the zeroising final. The byte-stream contracts are the C04 I/U/F contracts seen "
        "through the representation relation count == stream length, tail == last (length mod B) bytes, block log == the rest."),
    not_covered=[
        "the wipe of the local k_ipad in hmac_*_init (a dead local cannot appear in a postcondition); the wipe of k_opad and of the "
        "hash context is proved",
        "key == NULL with key_len == 0 (memcpy(k_ipad, NULL, 0) is formally undefined behaviour; the contracts give the empty key a valid pointer)",
        "SIMD builds (see C04); the lifting of the byte-stream contracts from the block-level U/F contracts is an argument on paper "
        "(representation relation above), enforced in C04 only at the bounded per-call lengths given there",
        "include/proto/radius.h users of HMAC-MD5 (C15)",
    ],
    assumptions=[
        "hash primitives replaced by byte-stream contracts (contracts/<alg>.h, VF_HASH_STREAM), discharged by C04 I/U/F/T",
    ],
    trusted_base=[],
)
