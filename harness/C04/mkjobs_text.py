"""Registry-level texts of obligations/C04.json and C07.json (filled in at the end)."""
C04_TEXT = dict(explanation="", not_covered=[], assumptions=[], trusted_base=[])
C07_TEXT = dict(explanation="", not_covered=[], assumptions=[], trusted_base=[])
