/* C04 / T for the (ctx, blocks, blocks_max) transforms:
 *   -DVF_ALG_SHA1                sha1_transform_generic  / sha1_transform
 *   -DVF_ALG_SHA2 -DVF_BLK=64    sha2_transform_block64_generic  (SHA-224/256)
 *   -DVF_ALG_SHA2 -DVF_BLK=128   sha2_transform_block128_generic (SHA-384/512)
 *   -DVF_T_FN=<function>         which of the functions carrying contract T is called
 *   -DVF_T_NBLK=n                number of consecutive blocks (1, 2)
 *   -DVF_ALIGN=r                 address residue of the first block
 *   -DVF_T_ALIAS                 blocks == ctx->buffer (the call shape of *_update/_final)
 * The postcondition (== specification function applied block by block) is the ensures
 * clause of the contract; natively (replay) it is recomputed here as the oracle. */
#if defined(VF_ALG_SHA1)
#include "contracts/sha1.h"
#define CTX_T	sha1_ctx_t
#define VF_BLK	64
#elif defined(VF_ALG_SHA2)
#include "contracts/sha2.h"
#define CTX_T	sha2_ctx_t
#endif
#ifndef VF_ALIGN
#define VF_ALIGN 0
#endif
#ifndef VF_T_NBLK
#define VF_T_NBLK 1
#endif

void harness(void) {
#ifdef VF_T_ALIAS
	/* the context is the harness's own object so that ctx->buffer is a concrete pointer */
	VF_NONDET_OBJ(CTX_T, ctx_obj);
	CTX_T *ctx = &ctx_obj;
	const uint8_t *blocks = (const uint8_t *)ctx->buffer;
	const uint8_t *blocks_max = blocks + VF_BLK;
#else
	VF_FRESH_PTR(CTX_T, ctx, sizeof(CTX_T));
	VF_NONDET_BYTES(blk, VF_T_NBLK * VF_BLK + VF_ALIGN);
	const uint8_t *blocks = blk.b + VF_ALIGN;
	const uint8_t *blocks_max = blocks + VF_T_NBLK * VF_BLK;
#endif
#ifdef VF_REPLAY
#if defined(VF_ALG_SHA1)
	uint32_t e[5];
	memcpy(e, ctx->hash, sizeof(e));
	for (unsigned b = 0; b < VF_T_NBLK; b++) vf_sha1_compress(e, blocks + 64 * b);
#elif VF_BLK == 64
	uint32_t e[8];
	memcpy(e, ctx->hash, sizeof(e));
	for (unsigned b = 0; b < VF_T_NBLK; b++) vf_sha256_compress(e, blocks + 64 * b);
#else
	uint64_t e[8];
	memcpy(e, ctx->hash, sizeof(e));
	for (unsigned b = 0; b < VF_T_NBLK; b++) vf_sha512_compress(e, blocks + 128 * b);
#endif
#endif
	VF_T_FN(ctx, blocks, blocks_max);
	VF_NATIVE_POST(memcmp(e, ctx->hash, sizeof(e)) == 0, "transform differs from the FIPS 180-4 hash computation");
	VF_CANARY("sha transform harness end");
}
