/* C04: GOST R 34.11-2012 512-bit modular adders (used for the counter N and the checksum Sigma in
 * every update/final step): gost3411_2012_addmod512(a, b) computes (a + b) mod 2^512 and
 * gost3411_2012_addmod512_digit(a, d) computes (a + d) mod 2^512 over little-endian 64-bit limbs,
 * for ALL operands - stated against one 512-bit bit-vector addition. Plain harness, the 8-limb loops
 * fully unwound (finite). Complements the U/F jobs, which treat the N/Sigma folding as logged
 * operands, and closes the gap left by the g_N step that cvc5 could not decide. */
#include "vf/vf.h"
#include <string.h>
#include <errno.h>
#undef __SSE2__
#undef __AVX__
#undef __AVX2__
#include "crypto/hash/gost3411-2012.h"

typedef unsigned __CPROVER_bitvector[512] u512;
static u512 vf_val512(const uint64_t *a) {
	u512 v = 0;
	for (int i = 7; i >= 0; i --)
		v = (v << 64) | (u512)a[i];
	return (v);
}
void harness(void) {
	struct l8 { uint64_t w[8]; };
	VF_NONDET_OBJ(struct l8, a);
	VF_NONDET_OBJ(struct l8, b);
	VF_NONDET(uint64_t, d);
	VF_NONDET(size_t, k);
	VF_ASSUME(k < 8);
	struct l8 a0 = a, b0 = b;
	u512 va = vf_val512(a.w), vb = vf_val512(b.w);
	gost3411_2012_addmod512(a.w, b.w);
	VF_ASSERT(vf_val512(a.w) == (u512)(va + vb), "addmod512: a' == (a + b) mod 2^512");
	VF_ASSERT(b.w[k] == b0.w[k], "addmod512: second operand unchanged");
	struct l8 c = a0;
	gost3411_2012_addmod512_digit(c.w, d);
	VF_ASSERT(vf_val512(c.w) == (u512)(va + (u512)d), "addmod512_digit: a' == (a + d) mod 2^512");
	VF_CANARY("gost addmod end");
}
