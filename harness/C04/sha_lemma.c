/* C04 lemma: the OR spellings of Ch and Maj used by specs/sha1_spec.h and specs/sha2_spec.h
 * (VF_CH, VF_MAJ) are the FIPS 180-4 4.1.x functions (XOR spellings VF_CH_FIPS, VF_MAJ_FIPS)
 * for all 64-bit (hence all 32-bit) arguments.  Plain harness. */
#include "vf/vf.h"
#include "specs/sha1_spec.h"

void harness(void) {
	VF_NONDET(uint64_t, x);
	VF_NONDET(uint64_t, y);
	VF_NONDET(uint64_t, z);
	VF_ASSERT(VF_CH(x, y, z) == VF_CH_FIPS(x, y, z), "Ch: OR spelling == FIPS 180-4 XOR spelling");
	VF_ASSERT(VF_MAJ(x, y, z) == VF_MAJ_FIPS(x, y, z), "Maj: OR spelling == FIPS 180-4 XOR spelling");
	VF_ASSERT((uint32_t)VF_CH((uint32_t)x, (uint32_t)y, (uint32_t)z) == (uint32_t)VF_CH_FIPS((uint32_t)x, (uint32_t)y, (uint32_t)z), "Ch, 32 bit");
	VF_ASSERT((uint32_t)VF_MAJ((uint32_t)x, (uint32_t)y, (uint32_t)z) == (uint32_t)VF_MAJ_FIPS((uint32_t)x, (uint32_t)y, (uint32_t)z), "Maj, 32 bit");
	VF_CANARY("sha lemma harness end");
}
