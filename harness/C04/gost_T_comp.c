/* C04 / T for the GOST g_N step, by composition (plain harness; the callee
 * gost3411_2012_XSLP is replaced by its contract in lock-step-oracle form through
 * `goto-instrument --replace-call-with-contract`, see specs/gost3411_spec.h):
 *     gost3411_2012_transform_n_generic / _n  over VF_T_NBLK blocks  ==
 *     per block:  h = g_N(h, m);  N = N + bits;  Sigma = Sigma + m      (RFC 6986 7, 8)
 * for EVERY function LPS.  The two 512-bit adders run as they are (their own obligations:
 * gost.add512*, gost.addmod512).  -DVF_T1 -DVF_T_FN=gost3411_2012_transform_1[_generic]: the
 * same for the g_0 step (gost3411_2012_SLP replaced as well).  -DVF_ALIGN=r selects the source alignment (r != 0: the
 * block is first copied into ctx->buffer). */
#define VF_GOST_T 1
#define VF_GOST_LPS_ORACLE 1
#include "contracts/gost3411.h"
#ifndef VF_ALIGN
#define VF_ALIGN 0
#endif
#ifndef VF_T_NBLK
#define VF_T_NBLK 1
#endif
#ifndef VF_T_FN
#define VF_T_FN gost3411_2012_transform_n_generic
#endif

static gost3411_2012_ctx_t ctx;

void harness(void) {
	VF_NONDET_BYTES(blk, VF_T_NBLK * 64 + VF_ALIGN);
	VF_NONDET(size_t, bits);
	VF_ASSUME(bits <= 512);
	uint64_t eh[8], en[8], es[8];
	for (unsigned i = 0; i < 8; i++) {
		ctx.hash[i] = eh[i] = nondet_uint64_t();
		ctx.counter[i] = en[i] = nondet_uint64_t();
		ctx.sigma[i] = es[i] = nondet_uint64_t();
	}
	ctx.use_sse = ctx.use_avx = 0;
	/* the oracle's result table: arbitrary (file-scope objects are zero in a plain harness) */
	for (unsigned k = 0; k < VF_LPS_MAX; k++)
		for (unsigned i = 0; i < 8; i++)
			vf_lps_out[k][i] = nondet_uint64_t();
	vf_lps_n = 0;
	vf_lps_j = 0;
#ifdef VF_T1
	/* g_0 (finalisation steps): h = g_0(h, m), N and Sigma untouched; also gost3411_2012_SLP replaced */
	uint64_t zero[8] = { 0, 0, 0, 0, 0, 0, 0, 0 };
	VF_T_FN(&ctx, (const uint64_t *)(const void *)(blk.b + VF_ALIGN));
	vf_gost_g(eh, zero, blk.b + VF_ALIGN);
#else
	/* the library first (records the LPS arguments) ... */
	VF_T_FN(&ctx, bits, blk.b + VF_ALIGN, blk.b + VF_ALIGN + VF_T_NBLK * 64);
	/* ... then the specification, in lock step */
	for (unsigned b = 0; b < VF_T_NBLK; b++)
		vf_gost_stage(eh, en, es, blk.b + VF_ALIGN + 64 * b, bits);
#endif
	VF_ASSERT(vf_lps_j == vf_lps_n, "the specification applies LPS as often as the library");
	VF_ASSERT(VF_GOST_EQ8(eh, ctx.hash), "h == g_N(h, m)");
	VF_ASSERT(VF_GOST_EQ8(en, ctx.counter), "N == N + bits");
	VF_ASSERT(VF_GOST_EQ8(es, ctx.sigma), "Sigma == Sigma + m");
	VF_CANARY("gost g_N composition harness end");
}
