/* C18: src/net/utils.c under the contracts of contracts/net_utils.h. -DVF_FN_<function>.
 * Finite route: the only loops run over the 33-entry mask table / 4 limbs (fully unwound). */
#include "contracts/net_utils.h"
#include "src/net/utils.c"
#ifdef VF_REPLAY	/* native replay links the callees of the out-of-scope functions */
#include "src/net/socket_address.c"
#endif

void harness(void) {
	VF_NONDET(size_t, len);
	VF_NONDET(uint16_t, preflen);
	VF_NONDET(uint16_t, family);
#ifndef VF_REPLAY
	/* ghost indices of the contracts: any value */
	vf_k = nondet_size_t();
	vf_b = nondet_size_t();
#endif
#if defined(VF_FN_inet_len2mask)
	VF_FRESH_PTR_OPT(struct in_addr, mask, sizeof(struct in_addr));
	int r = inet_len2mask(len, mask);
	VF_NATIVE_POST((r == EINVAL) == (len > 32 || mask == NULL), "EINVAL iff out of range or NULL");
	VF_NATIVE_POST(r != 0 || mask->s_addr == VF_MASK4_N(len), "mask == htonl(~0 << (32 - len))");
#elif defined(VF_FN_inet6_len2mask)
	VF_FRESH_PTR_OPT(struct in6_addr, mask, sizeof(struct in6_addr));
	int r = inet6_len2mask(len, mask);
	VF_NATIVE_POST((r == EINVAL) == (len > 128 || mask == NULL), "EINVAL iff out of range or NULL");
	for (size_t k = 0; r == 0 && k < 16; k ++)
		VF_NATIVE_POST(mask->s6_addr[k] == VF_MASK6_BYTE(len, k), "mask byte k == spec");
#elif defined(VF_FN_inet_mask2len)
	VF_FRESH_PTR(struct in_addr, mask, sizeof(struct in_addr));
	int r = inet_mask2len(mask);
	VF_NATIVE_POST(r >= 0 && r <= 32, "length in 0..32");
#elif defined(VF_FN_inet6_mask2len)
	VF_FRESH_PTR_OPT(struct in6_addr, mask, sizeof(struct in6_addr));
	int r = inet6_mask2len(mask);
	VF_NATIVE_POST(r >= 0 && r <= 128, "length in 0..128");
#elif defined(VF_FN_net_addr_truncate_preflen)
	VF_FRESH_PTR_OPT(struct sockaddr_storage, sa, sizeof(struct sockaddr_storage));
	net_addr_truncate_preflen(sa, preflen);
#elif defined(VF_FN_net_addr_truncate_mask)
	size_t nb = (family == AF_INET ? 4 : family == AF_INET6 ? 16 : 0);
	VF_FRESH_PTR_OPT(uint32_t, net, nb);
	VF_FRESH_PTR_OPT(uint32_t, mask, nb);
	net_addr_truncate_mask((sa_family_t)family, net, mask);
#elif defined(VF_FN_is_addr_in_net)
	size_t nb = (family == AF_INET ? 4 : family == AF_INET6 ? 16 : 0);
	VF_FRESH_PTR_OPT(uint32_t, net, nb);
	VF_FRESH_PTR_OPT(uint32_t, mask, nb);
	VF_FRESH_PTR_OPT(uint32_t, addr, nb);
	int r = is_addr_in_net((sa_family_t)family, net, mask, addr);
	VF_NATIVE_POST(r == 0 || r == 1, "boolean result");
#else
#error "select a function with -DVF_FN_<name>"
#endif
	VF_CANARY("net_utils harness end");
}
