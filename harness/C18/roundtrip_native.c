/* C18: parse(format(a, port)) == (a, port) with the REAL libc inet_ntop / inet_pton, by native
 * enumeration (job mode "native": not a deductive obligation, labelled exhaustive_native).
 *   IPv4: every address whose four octets are boundary values {0,1,9,10,11,99,100,101,127,128,199,
 *         200,254,255} (14^4) x boundary ports; -DVF_FULL: all 2^24 /24 networks x 6 boundary host
 *         octets (port 80), and all 65536 ports x 16 IPv4 / 16 IPv6 addresses.
 *   IPv6: every zero-run shape (each of the 8 groups zero / non-zero: 256 shapes) x group values
 *         {1, 0x10, 0x100, 0x1000, 0xffff, 0xabcd} x boundary ports - this exercises glibc's
 *         RFC 5952 zero compression, which the CBMC models do not.
 *   AF_UNIX: paths "/", ".", "/a", "./b c", 107-character path.
 * Checks per case: both formatters succeed, reported length == strlen, text has the conventional
 * form (IPv4 "d.d.d.d[:port]", IPv6 "[<inet_ntop text>][:port]", port decimal without leading
 * zeros), both parsers accept the text and return the same family, address and port. */
#include <stdio.h>
#include <stdlib.h>
#include <string.h>
#include <stdint.h>
#include "src/net/socket_address.c"

static const unsigned oct[] = {0, 1, 9, 10, 11, 99, 100, 101, 127, 128, 199, 200, 254, 255};
static const unsigned ports[] = {0, 1, 9, 10, 11, 80, 99, 100, 101, 999, 1000, 1001, 8080, 9999, 10000, 10001, 65534, 65535};
#define NOCT (sizeof(oct) / sizeof(oct[0]))
#define NPORT (sizeof(ports) / sizeof(ports[0]))

static int check(sa_family_t fam, const void *a, unsigned port, const char *what) {
	struct sockaddr_storage ss, b1, b2;
	char t1[256], t2[256], exp[256], ntop[128];
	size_t l1 = 0, l2 = 0;
	memset(&ss, 0xa5, sizeof(ss)); memset(&b1, 0x5a, sizeof(b1)); memset(&b2, 0x5a, sizeof(b2));
	if (sa_init(&ss, fam, a, (uint16_t)port) != 0) goto bad;
	if (sa_addr_to_str(&ss, t1, sizeof(t1), &l1) != 0 || l1 != strlen(t1)) goto bad;
	if (sa_addr_port_to_str(&ss, t2, sizeof(t2), &l2) != 0 || l2 != strlen(t2)) goto bad;
	if (fam == AF_UNIX) {
		snprintf(ntop, sizeof(ntop), "%s", (const char *)a);
		snprintf(exp, sizeof(exp), "%s", ntop);
	} else {
		if (inet_ntop(fam, a, ntop, sizeof(ntop)) == NULL) goto bad;
		if (fam == AF_INET) {
			const uint8_t *o = a;
			char dq[32];
			snprintf(dq, sizeof(dq), "%u.%u.%u.%u", o[0], o[1], o[2], o[3]);
			if (strcmp(dq, ntop) != 0) goto bad;	/* dotted quad */
		}
		if (port != 0)
			snprintf(exp, sizeof(exp), fam == AF_INET6 ? "[%s]:%u" : "%s:%u", ntop, port);
		else
			snprintf(exp, sizeof(exp), fam == AF_INET6 ? "[%s]" : "%s", ntop);
	}
	if (strcmp(t1, ntop) != 0 || strcmp(t2, exp) != 0) goto bad;
	if (sa_addr_from_str(&b1, t1, l1) != 0 || b1.ss_family != fam || !sa_addr_is_eq(&ss, &b1)) goto bad;
	if (sa_addr_port_from_str(&b2, t2, l2) != 0 || b2.ss_family != fam || !sa_addr_port_is_eq(&ss, &b2) ||
	    sa_port_get(&b2) != (fam == AF_UNIX ? 0 : port)) goto bad;
	return (0);
bad:
#pragma omp critical
	fprintf(stderr, "FAIL %s: port %u: sa_addr_to_str=\"%s\" sa_addr_port_to_str=\"%s\" expected \"%s\"\n", what, port, t1, t2, exp);
	return (1);
}

int main(void) {
	unsigned long long cases = 0, fails = 0;
	/* IPv4 boundaries */
#pragma omp parallel for reduction(+:cases,fails) collapse(2)
	for (unsigned i = 0; i < NOCT; i ++)
		for (unsigned j = 0; j < NOCT; j ++)
			for (unsigned k = 0; k < NOCT; k ++)
				for (unsigned l = 0; l < NOCT; l ++)
					for (unsigned p = 0; p < NPORT; p ++) {
						uint8_t a[4] = {(uint8_t)oct[i], (uint8_t)oct[j], (uint8_t)oct[k], (uint8_t)oct[l]};
						fails += check(AF_INET, a, ports[p], "ipv4");
						cases ++;
					}
#ifdef VF_FULL
	/* every /24 network (2^24) x 6 boundary host octets */
#pragma omp parallel for reduction(+:cases,fails)
	for (unsigned long v = 0; v < (1ul << 24); v ++) {
		static const unsigned last[] = {0, 9, 10, 99, 100, 255};
		for (unsigned h = 0; h < 6; h ++) {
			uint8_t a[4] = {(uint8_t)(v >> 16), (uint8_t)(v >> 8), (uint8_t)v, (uint8_t)last[h]};
			fails += check(AF_INET, a, 80, "ipv4-all");
			cases ++;
		}
	}
#pragma omp parallel for reduction(+:cases,fails)
	for (unsigned p = 0; p < 65536; p ++)
		for (unsigned i = 0; i < 16; i ++) {
			uint8_t a[4] = {(uint8_t)oct[i % NOCT], (uint8_t)oct[(i * 3) % NOCT], (uint8_t)oct[(i * 5) % NOCT], (uint8_t)oct[(i * 7) % NOCT]};
			uint8_t a6[16] = {0x20, 0x01, 0x0d, 0xb8, 0, 0, 0, 0, 0, 0, 0, 0, 0, 0, 0, (uint8_t)i};
			fails += check(AF_INET, a, p, "ipv4-ports");
			fails += check(AF_INET6, a6, p, "ipv6-ports");
			cases += 2;
		}
#endif
	/* IPv6 zero-run shapes */
	static const unsigned gv[] = {1, 0x10, 0x100, 0x1000, 0xffff, 0xabcd};
#pragma omp parallel for reduction(+:cases,fails)
	for (unsigned shape = 0; shape < 256; shape ++)
		for (unsigned g = 0; g < sizeof(gv) / sizeof(gv[0]); g ++)
			for (unsigned p = 0; p < NPORT; p ++) {
				uint8_t a[16];
				for (unsigned i = 0; i < 8; i ++) {
					unsigned v = ((shape >> i) & 1) ? gv[(g + i) % 6] : 0;
					a[2 * i] = (uint8_t)(v >> 8); a[2 * i + 1] = (uint8_t)v;
				}
				fails += check(AF_INET6, a, ports[p], "ipv6-shape");
				cases ++;
			}
	/* AF_UNIX */
	{
		char longp[108];
		memset(longp, 'x', 107); longp[0] = '/'; longp[107] = 0;
		const char *paths[] = {"/", ".", "/a", "./b c", "/tmp/sock.1", longp};
		for (unsigned i = 0; i < 6; i ++) {
			fails += check(AF_UNIX, paths[i], 0, "unix");
			cases ++;
		}
	}
	printf("CASES %llu\n", cases);
	if (fails != 0) {
		printf("FAILED %llu\n", fails);
		return (1);
	}
	return (0);
}
