/* C18: the small accessors of src/net/socket_address.c under the contracts of
 * contracts/socket_address.h: family dispatch, frame, AF_UNIX path copy inside sun_path.
 * -DVF_FN_<function>. Finite route: loops are bounded by sizeof(sun_path) / VF_SRC_MAX. */
#include "contracts/socket_address.h"
#include <stdlib.h>
#include "src/net/socket_address.c"

/* source address for sa_init / sa_addr_set: exact-size heap object; for AF_UNIX a C string whose
 * strlen is vf_src_len (every earlier byte non-NUL) */
static void *make_src(sa_family_t family, size_t len, int none) {
	if (none)
		return (NULL);
	if (family == AF_UNIX) {
		char *p = malloc(len + 1);
#ifndef VF_REPLAY
		__CPROVER_assume(p != NULL);
		for (size_t i = 0; i < len; i ++) {
			char c = nondet_char();
			__CPROVER_assume(c != 0);
			p[i] = c;
		}
#else
		memset(p, 'x', len);
#endif
		p[len] = 0;
		return (p);
	}
	size_t n = (family == AF_INET) ? 4 : (family == AF_INET6) ? 16 : 0;
	uint8_t *q = malloc(n);
#ifndef VF_REPLAY
	__CPROVER_assume(q != NULL);
	for (size_t i = 0; i < n; i ++)
		q[i] = nondet_uint8_t();
#else
	memset(q, 0x5a, n);
#endif
	return (q);
}

void harness(void) {
	VF_NONDET(uint16_t, family);
	VF_NONDET(uint16_t, port);
	VF_NONDET(size_t, src_len);
	VF_NONDET(uint8_t, sel);
#ifndef VF_REPLAY
	vf_k = nondet_size_t();
	VF_ASSUME(src_len <= VF_SRC_MAX);
	vf_src_len = src_len;
#else
	if (src_len > 120) src_len = 120;
#endif
#if defined(VF_FN_sa_init)
	VF_FRESH_PTR_OPT(struct sockaddr_storage, addr, sizeof(struct sockaddr_storage));
	void *src = make_src((sa_family_t)family, src_len, sel & 1);
	int r = sa_init(addr, (sa_family_t)family, src, port);
	VF_NATIVE_POST(addr == NULL || r != 0 || addr->ss_family == family, "family stored");
#elif defined(VF_FN_sa_addr_set)
	/* the address object is the harness's: its family decides the size of the source */
	VF_NONDET_OBJ(struct sockaddr_storage, ss);
	struct sockaddr_storage *addr = (sel & 2) ? NULL : &ss;
	void *src = make_src(ss.ss_family, src_len, sel & 1);
	int r = sa_addr_set(addr, src);
	(void)r;
#elif defined(VF_FN_sa_family)
	VF_FRESH_PTR_OPT(struct sockaddr_storage, addr, sizeof(struct sockaddr_storage));
	(void)sa_family(addr);
#elif defined(VF_FN_sa_size)
	VF_FRESH_PTR_OPT(struct sockaddr_storage, addr, sizeof(struct sockaddr_storage));
	(void)sa_size(addr);
#elif defined(VF_FN_sa_port_get)
	VF_FRESH_PTR_OPT(struct sockaddr_storage, addr, sizeof(struct sockaddr_storage));
	(void)sa_port_get(addr);
#elif defined(VF_FN_sa_port_set)
	VF_FRESH_PTR_OPT(struct sockaddr_storage, addr, sizeof(struct sockaddr_storage));
	(void)sa_port_set(addr, port);
#elif defined(VF_FN_sa_addr_get)
	VF_FRESH_PTR_OPT(struct sockaddr_storage, addr, sizeof(struct sockaddr_storage));
	(void)sa_addr_get(addr);
#elif defined(VF_FN_pred)
	VF_FRESH_PTR_OPT(struct sockaddr_storage, addr, sizeof(struct sockaddr_storage));
	(void)FN(addr);
#elif defined(VF_FN_eq)
	VF_NONDET_OBJ(struct sockaddr_storage, s1);
	VF_NONDET_OBJ(struct sockaddr_storage, s2);
	/* AF_UNIX paths are C strings */
	((struct sockaddr_un *)&s1)->sun_path[sizeof(((struct sockaddr_un *)0)->sun_path) - 1] = 0;
	((struct sockaddr_un *)&s2)->sun_path[sizeof(((struct sockaddr_un *)0)->sun_path) - 1] = 0;
	const struct sockaddr_storage *a1 = (sel & 1) ? NULL : &s1;
	const struct sockaddr_storage *a2 = (sel & 2) ? NULL : ((sel & 4) ? &s1 : &s2);
	(void)FN(a1, a2);
#elif defined(VF_FN_sa_copy)
	VF_NONDET_OBJ(struct sockaddr_storage, s1);
	VF_NONDET_OBJ(struct sockaddr_storage, s2);
	const void *src = (sel & 1) ? NULL : &s1;
	void *dst = (sel & 2) ? NULL : ((sel & 4) ? (void *)&s1 : (void *)&s2);
	sa_copy(src, dst);
#else
#error "select a function"
#endif
	VF_CANARY("accessors harness end");
}
