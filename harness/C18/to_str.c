/* C18: sa_addr_to_str / sa_addr_port_to_str under the contracts of contracts/socket_address.h:
 * EVERY buffer size (exact-size fresh buffer, symbolic size), every address and port.
 * -DFN=<function>; inet_ntop is the abstract model of stubs/inet.h (-DVF_INET_ABSTRACT).
 * Case split over the address family (one job per case, together all families):
 *   -DVF_FAMILY=AF_INET | AF_INET6 | AF_UNIX   (AF_UNIX: strlen(sun_path) <= VF_UNIX_MAX)
 *   no VF_FAMILY: any OTHER family value;  -DVF_ADDR_NULL: addr == NULL. */
#include "contracts/num2str.h"
#include "contracts/str2num.h"
#include "contracts/socket_address.h"
#include "src/net/socket_address.c"
#ifndef VF_UNIX_MAX
#define VF_UNIX_MAX 107
#endif

void harness(void) {
	VF_NONDET(size_t, buf_size);
	VF_NONDET(size_t, upath);
	VF_NONDET_OBJ(struct sockaddr_storage, ss);
#ifdef VF_FAMILY
	ss.ss_family = VF_FAMILY;
#else
	VF_ASSUME(ss.ss_family != AF_INET && ss.ss_family != AF_INET6 && ss.ss_family != AF_UNIX);
#endif
	VF_ASSUME(upath <= VF_UNIX_MAX);
	if (ss.ss_family == AF_UNIX)		/* precondition: sun_path holds a C string */
		((struct sockaddr_un *)&ss)->sun_path[upath] = 0;
#ifndef VF_REPLAY
	vf_k = nondet_size_t();
	vf_unix_len = upath;
#endif
#ifdef VF_ADDR_NULL	/* separate case: no address */
	const struct sockaddr_storage *addr = NULL;
#else
	const struct sockaddr_storage *addr = &ss;
#endif
	VF_FRESH_PTR_OPT(char, buf, buf_size);
	size_t ret_s = 0;
#ifdef VF_REPLAY
	size_t *ret = &ret_s;
#else
	size_t *ret;
#endif
	int r = FN(addr, buf, buf_size, ret);
	VF_NATIVE_POST(r != 0 || (ret_s < buf_size && strlen(buf) == ret_s), "reported length == strlen, inside the buffer");
	VF_CANARY("to_str harness end");
}
