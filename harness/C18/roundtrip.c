/* C18: parse(format(a, port)) == (a, port) and the text is the conventional form.
 * -DVF_RT_inet | -DVF_RT_inet6 | -DVF_RT_unix. Plain harness on the real sources with the
 * EXECUTABLE inet_ntop / inet_pton models of stubs/inet.h (-DVF_INET_EXEC): exact dotted quad for
 * AF_INET; for AF_INET6 the full uncompressed lower-case form (RFC 5952 zero compression is
 * glibc's business and not modelled). ALL IPv4 addresses x ALL ports, ALL IPv6 addresses x ALL
 * ports (symbolic); AF_UNIX paths of <= VF_UNIX_N characters. Loops are bounded by the text
 * length (<= 47 characters) and fully unwound. */
#include "vf/vf.h"
#include "stubs/inet.h"
#include "specs/netaddr_spec.h"
#include "src/net/socket_address.c"
#include "stubs/libc_models.h"
#ifndef VF_UNIX_N
#define VF_UNIX_N 8
#endif
#define BUFSZ 64

static char hexdig(unsigned v) { return ((char)(v < 10 ? '0' + v : 'a' + (v - 10))); }

void harness(void) {
	VF_NONDET(uint16_t, port);
	VF_NONDET(size_t, k);			/* ghost index */
	VF_NONDET_BYTES(a, 16);			/* address bytes (4 used for IPv4) / path characters */
	VF_NONDET(size_t, plen);		/* AF_UNIX path length */
	struct sockaddr_storage ss, back, back2;
	char buf[BUFSZ], buf2[BUFSZ], expect[BUFSZ];
	size_t len = 0, len2 = 0, elen = 0;
	memset(&ss, 0xa5, sizeof(ss));
	memset(&back, 0x5a, sizeof(back));
	memset(&back2, 0x5a, sizeof(back2));

#if defined(VF_RT_inet)
	VF_ASSERT(sa_init(&ss, AF_INET, a.b, port) == 0, "sa_init AF_INET");
	/* expected text: d.d.d.d[:port], decimal without leading zeros */
	for (unsigned i = 0; i < 4; i ++) {
		if (i != 0) expect[elen ++] = '.';
		if (a.b[i] >= 100) expect[elen ++] = (char)('0' + a.b[i] / 100);
		if (a.b[i] >= 10) expect[elen ++] = (char)('0' + (a.b[i] / 10) % 10);
		expect[elen ++] = (char)('0' + a.b[i] % 10);
	}
	size_t alen = elen;
#elif defined(VF_RT_inet6)
	VF_ASSERT(sa_init(&ss, AF_INET6, a.b, port) == 0, "sa_init AF_INET6");
	/* expected text: [x:x:x:x:x:x:x:x][:port] (model: every group with 4 hex digits) */
	expect[elen ++] = '[';
	for (unsigned i = 0; i < 8; i ++) {
		if (i != 0) expect[elen ++] = ':';
		expect[elen ++] = hexdig(a.b[2 * i] >> 4); expect[elen ++] = hexdig(a.b[2 * i] & 15u);
		expect[elen ++] = hexdig(a.b[2 * i + 1] >> 4); expect[elen ++] = hexdig(a.b[2 * i + 1] & 15u);
	}
	expect[elen ++] = ']';
	size_t alen = elen - 2;
#elif defined(VF_RT_unix)
	/* a path the parser documents: starts with '/' or '.', no NUL inside; and - because the parser
	 * strips blanks, tabs and brackets and splits at the last colon - does not end in ' ', '\t',
	 * ']' and contains no ':' and no ']' */
	char path[VF_UNIX_N + 1];
	VF_ASSUME(plen >= 1 && plen <= VF_UNIX_N);
	for (size_t i = 0; i < VF_UNIX_N; i ++) {
		char c = (char)a.b[i];
		if (i < plen)
			VF_ASSUME(c != 0 && c != ':' && c != ']');
		path[i] = (i < plen) ? c : 0;
		if (i < plen) expect[elen ++] = c;
	}
	path[VF_UNIX_N] = 0;
	VF_ASSUME(path[0] == '/' || path[0] == '.');
	VF_ASSUME(path[plen - 1] != ' ' && path[plen - 1] != '\t');
	port = 0;
	VF_ASSERT(sa_init(&ss, AF_UNIX, path, 0) == 0, "sa_init AF_UNIX");
	size_t alen = elen;
#else
#error "select VF_RT_inet / VF_RT_inet6 / VF_RT_unix"
#endif

	/* ---- address only: sa_addr_to_str -> sa_addr_from_str */
	VF_ASSERT(sa_addr_to_str(&ss, buf2, sizeof(buf2), &len2) == 0, "sa_addr_to_str succeeds with a 64-byte buffer");
	VF_ASSERT(len2 == alen && buf2[len2] == 0, "sa_addr_to_str: reported length == strlen == length of the address text");
#if defined(VF_RT_inet6)
	VF_ASSERT(k >= alen || buf2[k] == expect[k + 1], "sa_addr_to_str: character k is the address text (no brackets)");
#else
	VF_ASSERT(k >= alen || buf2[k] == expect[k], "sa_addr_to_str: character k is the address text");
#endif
	VF_ASSERT(sa_addr_from_str(&back2, buf2, len2) == 0, "sa_addr_from_str accepts the text of sa_addr_to_str");
	VF_ASSERT(back2.ss_family == ss.ss_family && sa_addr_is_eq(&ss, &back2) == 1, "address round trip: same family and address");

	/* ---- address and port: sa_addr_port_to_str -> sa_addr_port_from_str */
	if (port != 0) {
		unsigned d = VF_PORTLEN(port);
		expect[elen ++] = ':';
		if (d >= 5) expect[elen ++] = (char)('0' + (port / 10000u) % 10u);
		if (d >= 4) expect[elen ++] = (char)('0' + (port / 1000u) % 10u);
		if (d >= 3) expect[elen ++] = (char)('0' + (port / 100u) % 10u);
		if (d >= 2) expect[elen ++] = (char)('0' + (port / 10u) % 10u);
		expect[elen ++] = (char)('0' + port % 10u);
	}
	VF_ASSERT(sa_addr_port_to_str(&ss, buf, sizeof(buf), &len) == 0, "sa_addr_port_to_str succeeds with a 64-byte buffer");
	VF_ASSERT(len == elen, "reported length == length of the conventional text");
	VF_ASSERT(buf[len] == 0, "NUL-terminated at the reported length");
	VF_ASSERT(k >= elen || buf[k] == expect[k], "character k == conventional text ([addr]:port / addr:port / path)");
	VF_ASSERT(sa_addr_port_from_str(&back, buf, len) == 0, "sa_addr_port_from_str accepts the text of sa_addr_port_to_str");
	VF_ASSERT(back.ss_family == ss.ss_family, "round trip: same family");
	VF_ASSERT(sa_addr_port_is_eq(&ss, &back) == 1, "round trip: same address and port");
	VF_ASSERT(sa_port_get(&back) == port, "round trip: port value");
	VF_CANARY("roundtrip end");
}
