/* C18: the temporary copy `straddr[STR_ADDR_LEN]` in sa_addr_from_str / sa_addr_port_from_str is
 * never overrun by a long address text: texts of 111, 112 and 113 bytes (one job each; content fixed to
 * a path-like "/aaaa…" so that the skip loops and the port split are cheap), with and without a
 * ":7" port suffix. Address parts longer than sizeof(straddr) - 1 must be rejected with EINVAL
 * before anything is copied; shorter ones are copied inside the array (bounds checks).
 * Complements harness/C18/parse.c, whose symbolic-content texts are only <= 8 bytes long.
 * -DVF_FN_from | -DVF_FN_port */
#include "vf/vf.h"
#include "stubs/inet.h"
#include <stdlib.h>
#include "src/net/socket_address.c"
#include "stubs/libc_models.h"
#define VF_LMAX 124
#define VF_STRADDR_MAX	(sizeof(((struct sockaddr_un *)0)->sun_path) + 4u - 1u)

void harness(void) {
	/* length of the address part: CONCRETE per job (-DVF_LEN=111|112|113, the three values around the
	 * capacity of the temporary copy): memcpy with a symbolic length into 112 bytes does not finish */
	const size_t n = VF_LEN;
	const int with_port = 1;	/* ':7' suffix in the _port variant */
	struct sockaddr_storage ss;
	size_t total = n;
#ifdef VF_FN_port
	if (with_port) total = n + 2;
#endif
	char *buf = malloc(total);
#ifndef VF_REPLAY
	__CPROVER_assume(buf != NULL);
#endif
	for (size_t i = 0; i < VF_LMAX; i ++) {
		if (i < n)
			buf[i] = (i == 0) ? '/' : 'a';
	}
#ifdef VF_FN_port
	if (with_port) { buf[n] = ':'; buf[n + 1] = '7'; }
	int r = sa_addr_port_from_str(&ss, buf, total);
#else
	int r = sa_addr_from_str(&ss, buf, total);
#endif
	VF_ASSERT(r == 0 || r == EINVAL, "result is 0 or EINVAL");
	VF_ASSERT(n <= VF_STRADDR_MAX || r == EINVAL, "an address text longer than the temporary buffer is rejected");
	free(buf);
	VF_CANARY("parse_long harness end");
}
