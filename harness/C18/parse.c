/* C18: sa_addr_from_str / sa_addr_port_from_str / str_net_to_ss on ARBITRARY text (hostile input).
 * -DVF_FN_from | -DVF_FN_port | -DVF_FN_net, -DVF_N=<max text length>.
 * Plain harness on the real sources: the text lives in an EXACT-size heap object of symbolic
 * length n <= VF_N with symbolic content (no NUL needed), so any read outside buf[0..n) is a
 * failed pointer check; inet_pton is the abstract model of stubs/inet.h (accepts or rejects
 * nondeterministically, requires a NUL-terminated argument and logs it); memrchr is the reference
 * model of stubs/libc_models.h; all loops fully unwound (bounded by the text length).
 * Specification of the splitting: specs/netaddr_spec.h. */
#include "vf/vf.h"
#include "stubs/inet.h"
#include "specs/netaddr_spec.h"
#include <stdlib.h>
#include "src/net/socket_address.c"
#include "src/net/utils.c"
#include "stubs/libc_models.h"
#ifndef VF_N
#define VF_N 12
#endif
#define VF_STRADDR_MAX	(sizeof(((struct sockaddr_un *)0)->sun_path) + 4u - 1u)

void harness(void) {
	VF_NONDET_BYTES(txt, VF_N);
	VF_NONDET(size_t, n);
	VF_NONDET(size_t, k);		/* ghost index */
	VF_NONDET_OBJ(struct sockaddr_storage, ss);	/* stale content of the result object */
	VF_ASSUME(n >= 1 && n <= VF_N);
	char *buf = malloc(n);
#ifndef VF_REPLAY
	__CPROVER_assume(buf != NULL);
#endif
	for (size_t i = 0; i < VF_N; i ++) {
		if (i < n)
			buf[i] = (char)txt.b[i];
	}
	uint16_t preflen = 0xfffe;
	int r;
#if defined(VF_FN_from)
	struct vf_split sp = vf_spec_split_addr(buf, n);
	r = sa_addr_from_str(&ss, buf, n);
#elif defined(VF_FN_port)
	struct vf_split sp = vf_spec_split_port(buf, n);
	r = sa_addr_port_from_str(&ss, buf, n);
#elif defined(VF_FN_net)
	struct vf_split sp = vf_spec_split_net(buf, n);
	r = str_net_to_ss(buf, n, &ss, &preflen);
#else
#error "select VF_FN_from / VF_FN_port / VF_FN_net"
#endif
	size_t alen = sp.a1 - sp.a0;
	/* a NUL byte inside the address text ends it (the temporary copy is a C string) */
	size_t elen = alen;
	for (size_t i = alen; i > 0; i --) {
		if (buf[sp.a0 + i - 1] == 0)
			elen = i - 1;
	}
	VF_ASSERT(sp.a0 <= sp.a1 && sp.a1 <= n && sp.n0 <= n, "spec: split indices inside the input");
	VF_ASSERT(r == 0 || r == EINVAL, "result is 0 or EINVAL");
	VF_ASSERT(k >= n || buf[k] == (char)txt.b[k], "the input text is not modified");
	/* the number after the separator: documented spelling = decimal digits only, in range */
#if defined(VF_FN_port)
	int numok = !sp.has_num || vf_spec_strict_num(buf + sp.n0, n - sp.n0, 5, 65535u);
#elif defined(VF_FN_net)
	/* 1..3 digits; the range (<= 32 / <= 128) depends on the family and is checked below */
	int numok = !sp.has_num || vf_spec_strict_num(buf + sp.n0, n - sp.n0, 3, 999u);
#else
	int numok = 1;
#endif
	unsigned num = sp.has_num ? vf_spec_digits16(buf + sp.n0, n - sp.n0) : 0xffffu;
	if (!numok) {
		/* "rejects everything else with an error" */
		VF_ASSERT(r == EINVAL, "a port / prefix length that is not a decimal number in range is rejected");
	} else {
#ifndef VF_REPLAY
	/* what inet_pton was given: exactly the stripped address text, NUL-terminated */
	if (alen == 0 || alen > VF_STRADDR_MAX) {
		VF_ASSERT(r == EINVAL && vf_pton_calls == 0, "empty / over-long address text rejected before inet_pton");
	} else {
		VF_ASSERT(vf_pton_calls >= 1 && vf_pton_calls <= 2, "inet_pton consulted (AF_INET, then AF_INET6)");
		VF_ASSERT(vf_pton_len == elen, "inet_pton text length == stripped address length (up to an embedded NUL)");
		VF_ASSERT(k >= elen || vf_pton_txt[k] == buf[sp.a0 + k], "inet_pton text byte k == input byte a0 + k");
		if (r == 0 && (ss.ss_family == AF_INET || ss.ss_family == AF_INET6)) {
			VF_ASSERT(vf_pton_last_ret == 1 && vf_pton_last_af == ss.ss_family,
			    "IP address accepted only when inet_pton accepted it for that family");
		} else if (r == 0) {
			VF_ASSERT(ss.ss_family == AF_UNIX, "accepted: family is INET, INET6 or UNIX");
			VF_ASSERT(vf_pton_last_ret == 0 && vf_pton_calls == 2 && (buf[sp.a0] == '/' || buf[sp.a0] == '.'),
			    "UNIX path accepted only when inet_pton rejected both families and it starts with / or .");
			const char *path = ((struct sockaddr_un *)&ss)->sun_path;
			VF_ASSERT(path[elen < sizeof(((struct sockaddr_un *)0)->sun_path) ? elen : sizeof(((struct sockaddr_un *)0)->sun_path) - 1] == 0,
			    "UNIX path NUL-terminated inside sun_path");
			VF_ASSERT(k >= elen || k >= sizeof(((struct sockaddr_un *)0)->sun_path) - 1 || path[k] == buf[sp.a0 + k],
			    "UNIX path byte k == input byte");
		} else {
#if defined(VF_FN_net)
			/* an accepted IP address with a prefix length beyond its family's width */
			VF_ASSERT((vf_pton_last_ret == 0 && vf_pton_calls == 2 && buf[sp.a0] != '/' && buf[sp.a0] != '.') ||
			    (vf_pton_last_ret == 1 && sp.has_num && num > (vf_pton_last_af == AF_INET ? 32u : 128u)),
			    "rejected only when inet_pton rejected both families and it is no path, or the length exceeds the family's width");
#else
			VF_ASSERT(vf_pton_last_ret == 0 && vf_pton_calls == 2 && buf[sp.a0] != '/' && buf[sp.a0] != '.',
			    "rejected only when inet_pton rejected both families and it is no path");
#endif
		}
	}
#endif
#if defined(VF_FN_from)
	if (r == 0 && ss.ss_family != AF_UNIX)
		VF_ASSERT(sa_port_get(&ss) == 0, "no port: port field 0");
#elif defined(VF_FN_port)
	if (r == 0 && ss.ss_family != AF_UNIX)
		VF_ASSERT(sa_port_get(&ss) == (sp.has_num ? num : 0u), "port == decimal number after the separating colon");
#elif defined(VF_FN_net)
	if (r == 0) {
		unsigned full = (ss.ss_family == AF_INET) ? 32u : (ss.ss_family == AF_INET6) ? 128u : 0xffffu;
		if (ss.ss_family == AF_UNIX) {
			/* a path is no network; nothing claimed about the length */
		} else {
			VF_ASSERT(preflen == (sp.has_num ? num : full), "prefix length == number after the last '/', else the family's width");
			VF_ASSERT(preflen <= full, "accepted ==> prefix length <= 32 (IPv4) / 128 (IPv6)");
		}
	} else
		VF_ASSERT(preflen == 0xfffe, "rejected: prefix length not written");
#endif
	}
	free(buf);
	VF_CANARY("parse harness end");
}
