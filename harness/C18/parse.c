/* C18: sa_addr_from_str / sa_addr_port_from_str / str_net_to_ss on ARBITRARY text (hostile input).
 * -DVF_FN_from | -DVF_FN_port | -DVF_FN_net, -DVF_N=<max text length>, optional -DVF_STRICT.
 * Plain harness on the real sources: the text lives in an EXACT-size heap object of symbolic
 * length n <= VF_N with symbolic content (no NUL needed), so any read outside buf[0..n) is a
 * failed pointer check; inet_pton is the abstract model of stubs/inet.h (accepts or rejects
 * nondeterministically, requires a NUL-terminated argument and logs it); memrchr is the reference
 * model of stubs/libc_models.h; all loops fully unwound (bounded by the text length).
 * Specification of the splitting: specs/netaddr_spec.h. */
#include "vf/vf.h"
#include "stubs/inet.h"
#include "specs/netaddr_spec.h"
#include <stdlib.h>
#include "src/net/socket_address.c"
#include "src/net/utils.c"
#include "stubs/libc_models.h"
#ifndef VF_N
#define VF_N 12
#endif
#define VF_STRADDR_MAX	(sizeof(((struct sockaddr_un *)0)->sun_path) + 4u - 1u)

void harness(void) {
	VF_NONDET_BYTES(txt, VF_N);
	VF_NONDET(size_t, n);
	VF_NONDET(size_t, k);		/* ghost index */
	VF_NONDET_OBJ(struct sockaddr_storage, ss);	/* stale content of the result object */
	VF_ASSUME(n >= 1 && n <= VF_N);
	char *buf = malloc(n);
#ifndef VF_REPLAY
	__CPROVER_assume(buf != NULL);
#endif
	memcpy(buf, txt.b, n);
	uint16_t preflen = 0xfffe;
	int r;
#if defined(VF_FN_from)
	struct vf_split sp = vf_spec_split_addr(buf, n);
	r = sa_addr_from_str(&ss, buf, n);
#elif defined(VF_FN_port)
	struct vf_split sp = vf_spec_split_port(buf, n);
	r = sa_addr_port_from_str(&ss, buf, n);
#elif defined(VF_FN_net)
	struct vf_split sp = vf_spec_split_net(buf, n);
	r = str_net_to_ss(buf, n, &ss, &preflen);
#else
#error "select VF_FN_from / VF_FN_port / VF_FN_net"
#endif
	size_t alen = sp.a1 - sp.a0;
	VF_ASSERT(sp.a0 <= sp.a1 && sp.a1 <= n && sp.n0 <= n, "spec: split indices inside the input");
	VF_ASSERT(r == 0 || r == EINVAL, "result is 0 or EINVAL");
	VF_ASSERT(k >= n || buf[k] == (char)txt.b[k], "the input text is not modified");
#ifndef VF_REPLAY
	/* what inet_pton was given: exactly the stripped address text, NUL-terminated */
	if (alen == 0 || alen > VF_STRADDR_MAX) {
		VF_ASSERT(r == EINVAL && vf_pton_calls == 0, "empty / over-long address text rejected before inet_pton");
	} else {
		VF_ASSERT(vf_pton_calls >= 1 && vf_pton_calls <= 2, "inet_pton consulted (AF_INET, then AF_INET6)");
		VF_ASSERT(vf_pton_len == alen, "inet_pton text length == stripped address length");
		VF_ASSERT(k >= alen || vf_pton_txt[k] == buf[sp.a0 + k], "inet_pton text byte k == input byte a0 + k");
		if (r == 0 && (ss.ss_family == AF_INET || ss.ss_family == AF_INET6)) {
			VF_ASSERT(vf_pton_last_ret == 1 && vf_pton_last_af == ss.ss_family,
			    "IP address accepted only when inet_pton accepted it for that family");
		} else if (r == 0) {
			VF_ASSERT(ss.ss_family == AF_UNIX, "accepted: family is INET, INET6 or UNIX");
			VF_ASSERT(vf_pton_last_ret == 0 && vf_pton_calls == 2 && (buf[sp.a0] == '/' || buf[sp.a0] == '.'),
			    "UNIX path accepted only when inet_pton rejected both families and it starts with / or .");
			const char *path = ((struct sockaddr_un *)&ss)->sun_path;
			VF_ASSERT(path[alen < sizeof(((struct sockaddr_un *)0)->sun_path) ? alen : sizeof(((struct sockaddr_un *)0)->sun_path) - 1] == 0,
			    "UNIX path NUL-terminated inside sun_path");
			VF_ASSERT(k >= alen || k >= sizeof(((struct sockaddr_un *)0)->sun_path) - 1 || path[k] == buf[sp.a0 + k],
			    "UNIX path byte k == input byte");
		} else {
			VF_ASSERT(vf_pton_last_ret == 0 && vf_pton_calls == 2 && buf[sp.a0] != '/' && buf[sp.a0] != '.',
			    "rejected only when inet_pton rejected both families and it is no path");
		}
	}
#endif
	/* the number after the separator */
	unsigned num = sp.has_num ? vf_spec_digits16(buf + sp.n0, n - sp.n0) : 0xffffu;
#if defined(VF_FN_from)
	if (r == 0 && ss.ss_family != AF_UNIX)
		VF_ASSERT(sa_port_get(&ss) == 0, "no port: port field 0");
#elif defined(VF_FN_port)
	if (r == 0 && ss.ss_family != AF_UNIX)
		VF_ASSERT(sa_port_get(&ss) == (sp.has_num ? num : 0u), "port == number read from the digits after the separating colon");
#ifdef VF_STRICT
	if (r == 0 && ss.ss_family != AF_UNIX && sp.has_num)
		VF_ASSERT(vf_spec_strict_num(buf + sp.n0, n - sp.n0, 65535u), "accepted ==> port text is 1..5 digits, value <= 65535, nothing else");
#endif
#elif defined(VF_FN_net)
	if (r == 0) {
		unsigned full = (ss.ss_family == AF_INET) ? 32u : (ss.ss_family == AF_INET6) ? 128u : 0xffffu;
		VF_ASSERT(preflen == (sp.has_num ? num : full), "prefix length == number after the last '/', else the full length");
#ifdef VF_STRICT
		if (sp.has_num && ss.ss_family != AF_UNIX)
			VF_ASSERT(vf_spec_strict_num(buf + sp.n0, n - sp.n0, full), "accepted ==> prefix length text is digits only, value <= 32 / 128");
#endif
	} else
		VF_ASSERT(preflen == 0xfffe, "rejected: prefix length not written");
#endif
	free(buf);
	VF_CANARY("parse harness end");
}
