/* C18: prefix length <-> netmask are inverse, truncation and membership agree with integer
 * arithmetic on the host-order address. Plain harness on the real src/net/utils.c, every input
 * symbolic: ALL prefix lengths, ALL 2^32 IPv4 addresses / ALL 2^128 IPv6 addresses.
 * Finite route (loops over the 33-entry table and the 4 limbs, fully unwound). */
#include "vf/vf.h"
#include "specs/netaddr_spec.h"
#include "src/net/utils.c"
#ifdef VF_REPLAY	/* native replay links the callees of the out-of-scope functions */
#include "src/net/socket_address.c"
#endif

void harness(void) {
	VF_NONDET(size_t, l4);		/* IPv4 prefix length */
	VF_NONDET(size_t, l6);		/* IPv6 prefix length */
	VF_NONDET(uint32_t, a_n);	/* IPv4 address, as stored */
	VF_NONDET(uint32_t, n_n);	/* IPv4 network, as stored */
	VF_NONDET(uint32_t, h);		/* any 32-bit value, host order */
	VF_NONDET_BYTES(a6, 16);	/* IPv6 address */
	VF_NONDET_BYTES(n6, 16);	/* IPv6 network */
	VF_NONDET(size_t, b);		/* ghost bit index */
	VF_ASSUME(l4 <= 32 && l6 <= 128 && b < 128);

	/* ---- spec self-check: "contiguous" (no hole) <=> it is the mask of some length 0..32 */
	{
		int some = 0;
		for (unsigned l = 0; l <= 32; l ++)
			some |= (h == VF_MASK4_H(l));
		VF_ASSERT((some != 0) == VF_CONTIG32(h), "spec: contiguous 32-bit mask <=> mask of a length 0..32");
	}

	/* ---- IPv4: mask2len(len2mask(l)) == l, len2mask(mask2len(m)) == m for contiguous m */
	struct in_addr m4, m4b;
	VF_ASSERT(inet_len2mask(l4, &m4) == 0, "inet_len2mask accepts 0..32");
	VF_ASSERT(m4.s_addr == VF_MASK4_N(l4), "inet_len2mask == htonl(~0 << (32 - l))");
	VF_ASSERT(inet_mask2len(&m4) == (int)l4, "inet_mask2len(inet_len2mask(l)) == l");
	{
		struct in_addr c;		/* any contiguous mask */
		c.s_addr = VF_HTONL(h);
		int cl = inet_mask2len(&c);
		VF_ASSERT(cl >= 0 && cl <= 32, "inet_mask2len in 0..32");
		if (VF_CONTIG32(h)) {
			VF_ASSERT(inet_len2mask((size_t)cl, &m4b) == 0 && m4b.s_addr == c.s_addr,
			    "inet_len2mask(inet_mask2len(m)) == m for every contiguous m");
		} else {
			VF_ASSERT(cl == 0, "a mask with a hole has no length");
		}
	}

	/* ---- IPv6 the same */
	struct in6_addr m6, m6b;
	VF_ASSERT(inet6_len2mask(l6, &m6) == 0, "inet6_len2mask accepts 0..128");
	for (size_t k = 0; k < 16; k ++)
		VF_ASSERT(m6.s6_addr[k] == VF_MASK6_BYTE(l6, k), "inet6_len2mask byte k == spec");
	VF_ASSERT(VF_BIT6(m6.s6_addr, b) == (b < l6 ? 1u : 0u), "inet6_len2mask bit b set iff b < l");
	int l6b = inet6_mask2len(&m6);
	VF_ASSERT(l6b == (int)l6, "inet6_mask2len(inet6_len2mask(l)) == l");
	VF_ASSERT(inet6_len2mask((size_t)l6b, &m6b) == 0 && memcmp(&m6, &m6b, 16) == 0,
	    "inet6_len2mask(inet6_mask2len(m)) == m for every contiguous m");

	/* ---- IPv4 truncation / membership == shifts on the host-order integer */
	{
		struct sockaddr_storage ss;
		memset(&ss, 0, sizeof(ss));
		ss.ss_family = AF_INET;
		((struct sockaddr_in *)&ss)->sin_addr.s_addr = a_n;
		net_addr_truncate_preflen(&ss, (uint16_t)l4);
		uint32_t t_n = ((struct sockaddr_in *)&ss)->sin_addr.s_addr;
		uint32_t a_h = VF_NTOHL(a_n), t_h = VF_NTOHL(t_n), n_h = VF_NTOHL(n_n);
		uint32_t expect = (l4 == 0) ? 0u : ((a_h >> (32 - l4)) << (32 - l4));
		VF_ASSERT(t_h == expect, "truncate_preflen(a, l) == (a >> (32-l)) << (32-l)");
		/* the truncated address is the network of a */
		VF_ASSERT(is_addr_in_net(AF_INET, &t_n, &m4.s_addr, &a_n) == 1, "a is in truncate(a, l)/l");
		/* truncate_mask agrees with truncate_preflen */
		uint32_t t2 = a_n, mm = m4.s_addr;
		net_addr_truncate_mask(AF_INET, &t2, &mm);
		VF_ASSERT(t2 == t_n && mm == m4.s_addr, "truncate_mask(a, mask(l)) == truncate_preflen(a, l)");
		/* arbitrary (also non-contiguous) mask h */
		uint32_t t3 = a_n, m3 = VF_HTONL(h);
		net_addr_truncate_mask(AF_INET, &t3, &m3);
		VF_ASSERT(VF_NTOHL(t3) == (a_h & h) && m3 == VF_HTONL(h), "truncate_mask(a, m) == a & m, m unchanged");
		/* membership in an arbitrary network n/l */
		int same_prefix = (l4 == 0) ? 1 : ((a_h >> (32 - l4)) == (n_h >> (32 - l4)));
		int n_is_net = ((n_h & ~VF_MASK4_H(l4)) == 0);	/* no host bits in n */
		VF_ASSERT(is_addr_in_net(AF_INET, &n_n, &m4.s_addr, &a_n) == (same_prefix && n_is_net),
		    "is_addr_in_net(n/l, a) <=> a and n share the first l bits (n a proper network)");
	}

	/* ---- IPv6 truncation / membership per bit */
	{
		struct sockaddr_storage ss;
		memset(&ss, 0, sizeof(ss));
		ss.ss_family = AF_INET6;
		memcpy(&((struct sockaddr_in6 *)&ss)->sin6_addr, a6.b, 16);
		net_addr_truncate_preflen(&ss, (uint16_t)l6);
		const uint8_t *t = ((struct sockaddr_in6 *)&ss)->sin6_addr.s6_addr;
		VF_ASSERT(VF_BIT6(t, b) == (b < l6 ? VF_BIT6(a6.b, b) : 0u), "truncate_preflen: bit b kept iff b < l");
		uint32_t tl[4], al[4], nl[4];
		memcpy(tl, t, 16); memcpy(al, a6.b, 16); memcpy(nl, n6.b, 16);
		VF_ASSERT(is_addr_in_net(AF_INET6, tl, m6.s6_addr32, al) == 1, "a is in truncate(a, l)/l");
		uint32_t t2[4];
		memcpy(t2, a6.b, 16);
		net_addr_truncate_mask(AF_INET6, t2, m6.s6_addr32);
		VF_ASSERT(memcmp(t2, tl, 16) == 0, "truncate_mask(a, mask(l)) == truncate_preflen(a, l)");
		/* arbitrary mask n6: per limb */
		uint32_t t3[4], m3[4];
		memcpy(t3, a6.b, 16); memcpy(m3, n6.b, 16);
		net_addr_truncate_mask(AF_INET6, t3, m3);
		for (unsigned i = 0; i < 4; i ++)
			VF_ASSERT(t3[i] == (al[i] & nl[i]) && m3[i] == nl[i], "truncate_mask(a, m) limb i == a & m, m unchanged");
		/* membership: result 1 ==> bit b of a and n agree whenever b < l, and n has no host bit b */
		int in = is_addr_in_net(AF_INET6, nl, m6.s6_addr32, al);
		if (in)
			VF_ASSERT(b < l6 ? VF_BIT6(a6.b, b) == VF_BIT6(n6.b, b) : VF_BIT6(n6.b, b) == 0u,
			    "in net ==> prefix bit b equal / host bit b of n clear");
		else {
			/* result 0 ==> some bit differs: stated on the limbs */
			int all = 1;
			for (unsigned i = 0; i < 4; i ++)
				all &= ((VF_NTOHL(al[i]) & VF_MASK6_LIMB_H(l6, i)) == VF_NTOHL(nl[i]));
			VF_ASSERT(!all, "not in net ==> some limb of (a & mask(l)) differs from n");
		}
	}
	VF_CANARY("prefix inverse end");
}
