/* C09: the validation functions of include/math/elliptic_curve.h (ec_point_check_affine,
 * ec_point_check_scalar_mult, ec_point_check_as_pub_key, ec_point_restore_y_by_x) against the
 * contracts of their callees.  Same harness text as C02 (-DVF_FN_<name>). */
#include "harness/C02/point.c"
