/* C09: byte-string entry points ecdsa_key_gen_be/_le, ecdsa_dh_be/_le,
 * ecdsa_recover_pub_key_from_priv_key_be/_le against the contracts of their callees.
 * Every byte-string argument is an exact-size object of symbolic size (or NULL) allocated by the
 * contract's is_fresh: a read or write one byte beyond what the caller passed is a failed obligation.
 * -DVF_KEY_GEN | -DVF_DH | -DVF_RECOVER, -DFN=<function> */
#include "contracts/ecdsa.h"

#ifndef VF_REPLAY
void harness(void) {
	ec_curve_p curve = (ec_curve_p)malloc(sizeof(ec_curve_t));
	__CPROVER_assume(curve != NULL);
	VF_ASSUME(VF_EC_CURVE_WF(*curve));
	uint8_t *pub_key_x, *pub_key_y, *priv_key;
	VF_EC_GHOST_RESET();
	int r;
#if defined(VF_KEY_GEN)
	VF_NONDET(size_t, rnd_size);
	VF_NONDET(int, compress);
	uint8_t *rnd; size_t *priv_key_size, *pub_key_size;
	r = FN(curve, rnd, rnd_size, compress, priv_key, priv_key_size, pub_key_x, pub_key_y, pub_key_size);
#elif defined(VF_DH)
	VF_NONDET(size_t, pub_key_size);
	VF_NONDET(size_t, priv_key_size);
	VF_NONDET(int, use_cofactor);
	uint8_t *shared_key; size_t *shared_size;
	r = FN(curve, use_cofactor, pub_key_x, pub_key_y, pub_key_size, priv_key, priv_key_size, shared_key, shared_size);
#elif defined(VF_RECOVER)
	VF_NONDET(size_t, priv_key_size);
	VF_NONDET(int, compress);
	size_t *pub_key_size;
	r = FN(curve, priv_key, priv_key_size, compress, pub_key_x, pub_key_y, pub_key_size);
#else
#error "select -DVF_KEY_GEN, -DVF_DH or -DVF_RECOVER"
#endif
	if (r == 0) VF_CANARY("C09 bytes: success path reachable");
	if (r == EINVAL) VF_CANARY("C09 bytes: EINVAL path reachable");
	VF_CANARY("C09 bytes harness end");
}
#else
void harness(void) { }
#endif
