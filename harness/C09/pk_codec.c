/* C09: ecdsa_pub_key_import_be/_le and ecdsa_pub_key_export_be/_le against the contracts of
 * bn_import_*_bin / bn_export_*_bin ("reads / writes exactly buf[0..size)"), ec_point_restore_y_by_x
 * and ec_point_check_as_pub_key.  Byte strings are exact-size objects allocated by the contract's
 * is_fresh (symbolic sizes).  Both compiles: default = tests' configuration
 * (EC_DISABLE_PUB_KEY_CHK); -DVF_EC_PUB_KEY_CHK = validation enabled.
 * -DVF_IMPORT -DFN=ecdsa_pub_key_import_be|_le     or     -DVF_EXPORT -DFN=ecdsa_pub_key_export_be|_le */
#include "contracts/ecdsa.h"

#ifndef VF_REPLAY
void *const vf_keep[] = { (void *)ec_point_check_as_pub_key };

void harness(void) {
	ec_curve_p curve = (ec_curve_p)malloc(sizeof(ec_curve_t));
	__CPROVER_assume(curve != NULL);
	VF_ASSUME(VF_EC_CURVE_WF(*curve));
	VF_NONDET_OBJ(ec_point_t, P);
	uint8_t *pub_key_x, *pub_key_y;
	int r;
#ifdef VF_IMPORT
	VF_NONDET(size_t, pub_key_size);
	VF_ASSUME(VF_BN_CNT_OK(&P.x) && VF_BN_CNT_OK(&P.y) && P.x.digits <= P.x.count && P.y.digits <= P.y.count);
	VF_ASSUME(P.infinity == 0);
	VF_EC_GHOST_RESET();
	r = FN(curve, pub_key_x, pub_key_y, pub_key_size, &P);
	if (r == 0 && pub_key_size == 1) VF_CANARY("C09 import: infinity accepted");
	if (r == 0 && pub_key_size == VF_EC_BYTES(curve) && pub_key_size > 1) VF_CANARY("C09 import: separate form accepted");
	if (r == 0 && pub_key_size == 1 + VF_EC_BYTES(curve)) VF_CANARY("C09 import: compressed form accepted");
	if (r == 0 && pub_key_size == 1 + 2 * VF_EC_BYTES(curve)) VF_CANARY("C09 import: packed form accepted");
	if (r == 0 && pub_key_size == 2 * VF_EC_BYTES(curve) && VF_EC_BYTES(curve) > 1) VF_CANARY("C09 import: raw form accepted");
	if (r == -1) VF_CANARY("C09 import: unknown format path reachable");
#else
	VF_NONDET(int, compress);
	size_t *pub_key_size;
	VF_ASSUME(VF_EC_POINT_RES(P));
	VF_EC_GHOST_RESET();
	r = FN(curve, compress, &P, pub_key_x, pub_key_y, pub_key_size);
	if (r == 0 && P.infinity != 0) VF_CANARY("C09 export: infinity");
	if (r == 0 && P.infinity == 0 && compress != 0) VF_CANARY("C09 export: compressed");
	if (r == 0 && P.infinity == 0 && compress == 0 && pub_key_y != NULL) VF_CANARY("C09 export: separate");
	if (r == 0 && P.infinity == 0 && compress == 0 && pub_key_y == NULL) VF_CANARY("C09 export: packed");
	if (r == EOVERFLOW) VF_CANARY("C09 export: EOVERFLOW propagated");
#endif
	VF_CANARY("C09 pk codec harness end");
}
#else
void harness(void) { }
#endif
