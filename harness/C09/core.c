/* C09: ecdsa_key_gen and ecdsa_dh (bn_t level) against the contracts of their callees.
 * -DVF_FN_key_gen | -DVF_FN_dh [-DVF_ALIAS=1: shared_key == priv_key, the call made by ecdsa_dh_be/le] */
#include "contracts/ecdsa.h"

#ifndef VF_REPLAY
void harness(void) {
	ec_curve_p curve = (ec_curve_p)malloc(sizeof(ec_curve_t));
	__CPROVER_assume(curve != NULL);
	VF_ASSUME(VF_EC_CURVE_WF(*curve));
	VF_NONDET_OBJ(bn_t, d);
	VF_NONDET_OBJ(ec_point_t, Q);
	VF_ASSUME(vf_bn_wf(d) && VF_EC_POINT_WF(Q));
	VF_EC_GHOST_RESET();
	int r;
#if defined(VF_FN_key_gen)
	r = ecdsa_key_gen(curve, &d, &Q);
#elif defined(VF_FN_dh)
	VF_NONDET(int, use_cofactor);
#if VF_ALIAS
	r = ecdsa_dh(curve, use_cofactor, &Q, &d, &d);
#else
	VF_NONDET_OBJ(bn_t, shared);
	VF_ASSUME(VF_BN_CNT_OK(&shared));
	r = ecdsa_dh(curve, use_cofactor, &Q, &d, &shared);
#endif
	if (r == 0 && use_cofactor != 0) VF_CANARY("C09 dh: cofactor success path");
	if (r == 0 && use_cofactor == 0) VF_CANARY("C09 dh: plain success path");
#endif
	if (r == 0) VF_CANARY("C09 core: success path reachable");
	VF_CANARY("C09 core harness end");
}
#else
void harness(void) { }
#endif
