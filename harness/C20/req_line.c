/* C20: http_parse_req_line agrees with RFC 7230 3.1.1 / 5.3 (specs/http_spec.h).
 * Bounded: request block of at most N bytes, symbolic length and content. */
#define VF_HTTP_BOUNDED 1
#define VF_HTTP_C20 1
#include "contracts/http.h"
#include "src/proto/http.c"
#ifndef N
#define N 24
#endif
void harness(void) {
	VF_NONDET_BYTES(in, N);
	VF_NONDET(size_t, n);
	VF_ASSUME(n <= N);
	VF_NONDET(size_t, k);		/* ghost index */
	http_req_line_data_t rd;
#if defined(VF_REQ_GET) || defined(VF_REQ_CONNECT)	/* focus variants: fixed method and SP */
	{
#ifdef VF_REQ_GET
		static const char pfx[] = "GET ";
#else
		static const char pfx[] = "CONNECT ";
#endif
		for (size_t i = 0; i < sizeof(pfx) - 1; i ++)
			VF_ASSUME(in.b[i] == (uint8_t)pfx[i]);
	}
#endif
	int ret = http_parse_req_line(in.b, n, &rd);
	vf_http_post_req_line(in.b, n, ret, &rd, k);
	VF_CANARY("C20 req_line harness end");
}
