/* C20, unbounded single-conjunct variant for http_parse_req_line: on success the method span
 * starts the line, is followed by SP and contains no SP (ghost index) -- exact-size is_fresh
 * block of symbolic unbounded length, loop contracts of C13, callees skip_spwsp and
 * http_get_method_fast replaced by their contracts; memchr's "first occurrence" is
 * instantiated at the ghost offset (stubs/http.h). */
#define VF_HTTP_GHOST_K 1
#include "contracts/http.h"
#include "src/proto/http.c"
size_t vf_k;
void harness(void) {
	VF_NONDET(size_t, hdr_size);
	VF_NONDET(size_t, k);
	VF_FRESH_PTR(uint8_t, http_hdr, hdr_size);
	VF_HTTP_EMPTY_SPAN(http_hdr, hdr_size);
	vf_k = k;
#ifdef VF_REPLAY
	http_req_line_data_t store;
	http_req_line_data_p rd = &store;
#else
	http_req_line_data_p rd;
#endif
	int r = http_parse_req_line(http_hdr, hdr_size, rd);
	VF_NATIVE_POST(r != 0 || (rd->method == http_hdr && rd->method_size < rd->line_size &&
	    http_hdr[rd->method_size] == ' '), "method starts the line and is followed by SP");
	VF_NATIVE_POST(r != 0 || k >= rd->method_size || http_hdr[k] != ' ', "no SP inside the method");
	VF_CANARY("C20 req_line unbounded harness end");
}
