/* C20: http_req_sec_chk implements the smuggling rule table (specs/http_spec.h):
 * byte rules 1/2 over the real bytes; field rules 3..7 over the counts of Host,
 * Content-Length, Transfer-Encoding.  Modular: in the verifier the three calls of
 * http_hdr_val_get_count are redirected (goto-instrument --replace-calls) to the stub below,
 * which returns ghost counts; that the real counter returns the number of matching fields
 * is the obligation of hdr_get.c (-DVF_FN_count).  Natively (replay) the real counter runs.
 * Bounded: block of at most N bytes, symbolic content. */
#define VF_HTTP_BOUNDED 1
#define VF_HTTP_C20 1
#include "contracts/http.h"
#include "src/proto/http.c"
#ifndef N
#define N 24
#endif
static size_t vf_cnt_host, vf_cnt_cl, vf_cnt_te;
static int vf_stub_bad_call;
size_t
vf_stub_get_count(const uint8_t *hdr, size_t hdr_size, const uint8_t *name, size_t name_size) {
	(void)hdr; (void)hdr_size;
	if (name_size == 4 && memcmp(name, "host", 4) == 0)
		return (vf_cnt_host);
	if (name_size == 14 && memcmp(name, "content-length", 14) == 0)
		return (vf_cnt_cl);
	if (name_size == 17 && memcmp(name, "transfer-encoding", 17) == 0)
		return (vf_cnt_te);
	vf_stub_bad_call = 1;	/* a field the rule table does not mention */
	return (0);
}
void harness(void) {
	VF_NONDET_BYTES(in, N);
	VF_NONDET(size_t, n);
	VF_ASSUME(n <= N);
	VF_NONDET(uint32_t, method_code);
	VF_NONDET(size_t, cnt_host);
	VF_NONDET(size_t, cnt_cl);
	VF_NONDET(size_t, cnt_te);
#ifdef VF_REPLAY
	cnt_host = http_hdr_val_get_count(in.b, n, (const uint8_t *)"host", 4);
	cnt_cl = http_hdr_val_get_count(in.b, n, (const uint8_t *)"content-length", 14);
	cnt_te = http_hdr_val_get_count(in.b, n, (const uint8_t *)"transfer-encoding", 17);
#endif
	vf_cnt_host = cnt_host; vf_cnt_cl = cnt_cl; vf_cnt_te = cnt_te;
	vf_stub_bad_call = 0;
	int ret = http_req_sec_chk(in.b, n, method_code);
	int spec = vs_sec_table(vs_sec_bytes(in.b, n), cnt_host, cnt_cl, cnt_te,
	    method_code == HTTP_REQ_METHOD_GET);
	VF_ASSERT(vf_stub_bad_call == 0, "sec_chk: only Host, Content-Length, Transfer-Encoding are counted");
	VF_ASSERT(ret == spec, "sec_chk: return code == rule table (control bytes, SP ':', repeated Host/CL/TE, CL on GET, CL+TE, else 0)");
	VF_CANARY("C20 sec_chk harness end");
}
