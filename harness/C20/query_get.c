/* C20: http_query_val_get_ex agrees with the pair rules of a form-urlencoded query
 * (specs/http_spec.h: pairs separated by '&', name = bytes before the first '=' of the pair,
 * compared ignoring case; empty pairs skipped).  Bounded: query of at most N bytes, name of
 * 1..2 bytes without '&' and '='. */
#define VF_HTTP_BOUNDED 1
#define VF_HTTP_C20 1
#include "contracts/http.h"
#include "src/proto/http.c"
#ifndef N
#define N 10
#endif
void harness(void) {
	VF_NONDET_BYTES(in, N);
	VF_NONDET(size_t, n);
	VF_ASSUME(n <= N);
	VF_NONDET_BYTES(nm, 2);
	VF_NONDET(size_t, name_len);
	VF_ASSUME(name_len >= 1 && name_len <= 2);
	for (size_t i = 0; i < 2; i ++)
		VF_ASSUME(nm.b[i] != '&' && nm.b[i] != '=' && nm.b[i] != 0);
	const uint8_t *name_pos = NULL, *val = NULL;
	size_t val_size = 0, spos = 0;
	vs_span sv = { 0, 0 };
	int ret = http_query_val_get_ex(in.b, n, nm.b, name_len, &name_pos, &val, &val_size);
	int found = vs_query_find(in.b, n, nm.b, name_len, &spos, &sv);
	VF_ASSERT(ret == 0 || ret == ESPIPE, "query_get: return code");
	VF_ASSERT((ret == 0) == found, "query_get: found iff some pair has that name before its first '='");
	if (ret == 0 && found) {
		VF_ASSERT(name_pos == in.b + spos, "query_get: first matching pair");
		VF_ASSERT(val == in.b + sv.pos && val_size == sv.len, "query_get: value = bytes after '=' up to the next '&'");
	}
	VF_CANARY("C20 query_get harness end");
}
