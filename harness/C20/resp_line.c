/* C20: http_parse_resp_line agrees with RFC 7230 3.1.2 (specs/http_spec.h). Bounded N. */
#define VF_HTTP_BOUNDED 1
#define VF_HTTP_C20 1
#include "contracts/http.h"
#include "src/proto/http.c"
#ifndef N
#define N 24
#endif
void harness(void) {
	VF_NONDET_BYTES(in, N);
	VF_NONDET(size_t, n);
	VF_ASSUME(n <= N);
	http_resp_line_data_t rd;
	int ret = http_parse_resp_line(in.b, n, &rd);
	vf_http_post_resp_line(in.b, n, ret, &rd);
	VF_CANARY("C20 resp_line harness end");
}
