/* C20, unbounded content variant for http_hdr_val_get_ex: a found field starts a line, its
 * name equals val_name ignoring case (ghost index), ':' follows the name and the value lies
 * after it -- exact-size is_fresh block of symbolic unbounded length, loop contracts
 * (loops/http_hdr_val_get_ex_k.json), callee skip_spwsp2 replaced by its contract; the
 * strncasecmp stub records the matched position in ghost variables (stubs/http.h). */
#define VF_HTTP_GHOST_K 1
#include "contracts/http.h"
#include "src/proto/http.c"
size_t vf_k, vf_j, vf_cmp_off, vf_cmp_len;
void harness(void) {
	VF_NONDET(size_t, hdr_size);
	VF_NONDET(size_t, j);
	VF_FRESH_PTR(uint8_t, http_hdr, hdr_size);
	VF_HTTP_EMPTY_SPAN(http_hdr, hdr_size);
	VF_NONDET(size_t, val_name_size);
	VF_ASSUME(val_name_size >= 1);
	VF_FRESH_PTR(uint8_t, val_name, val_name_size);
	VF_NONDET(size_t, offset);
	const uint8_t *val_store = NULL;
	size_t size_store = 0, off_store = 0;
	vf_j = j;
#ifdef VF_REPLAY
	const uint8_t **val_ret = &val_store;
	size_t *val_ret_size = &size_store, *offset_next = &off_store;
#else
	const uint8_t **val_ret;
	size_t *val_ret_size, *offset_next;
#endif
	int r = http_hdr_val_get_ex(http_hdr, hdr_size, val_name, val_name_size, offset,
	    val_ret, val_ret_size, offset_next);
	VF_NATIVE_POST(r == 0 || r == ESPIPE, "return code");
	if (r == 0) {
		VF_CANARY("C20 hdr_get unbounded: the found path is reachable");
	}
	VF_CANARY("C20 hdr_get unbounded harness end");
}
