/* C20 (RFC 7230 4.1): http_data_decode_chunked decodes a whole chunked body -- for every
 * well-formed body without chunk extensions (specs/http_spec.h vs_chunked_decode) it returns 0
 * and (data_ret, data_ret_size) is the concatenation of all chunk-data, in place.
 * Bounded: body of at most N bytes (N = 16 holds two one-byte chunks and the last-chunk),
 * symbolic length and content; ghost index k compares the decoded bytes. */
#define VF_HTTP_BOUNDED 1
#define VF_HTTP_C20 1
#include "contracts/http.h"
#include "src/proto/http.c"
#ifndef N
#define N 16
#endif
void harness(void) {
	VF_NONDET_BYTES(in, N);
	VF_NONDET(size_t, n);
	VF_ASSUME(n <= N);
	VF_NONDET(size_t, k);
	uint8_t orig[N], expect[N];
	size_t expect_len = 0;
	for (size_t i = 0; i < N; i ++) {
		orig[i] = in.b[i];
		expect[i] = 0;
	}
	int wf = vs_chunked_decode(orig, n, expect, &expect_len);
	uint8_t *data_ret = NULL;
	size_t data_ret_size = 0;
	int ret = http_data_decode_chunked(in.b, n, &data_ret, &data_ret_size);
	VF_ASSERT(ret == 0 || ret == EINVAL, "chunked: return code");
	if (wf) {
		VF_ASSERT(ret == 0, "chunked: a well-formed chunked body is accepted");
		VF_ASSERT(ret != 0 || data_ret_size == expect_len,
		    "chunked: decoded length == sum of all chunk sizes");
		VF_ASSERT(ret != 0 || data_ret_size != expect_len || !(k < expect_len) ||
		    data_ret[k] == expect[k], "chunked: decoded bytes == concatenation of all chunk-data");
	}
	VF_CANARY("C20 chunked harness end");
}
