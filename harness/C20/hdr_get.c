/* C20: http_hdr_val_get_ex / http_hdr_val_get_count agree with RFC 7230 3.2 field
 * delimiting (specs/http_spec.h): match at line start, name ignoring case, ':' ; value
 * trimmed, folded continuation lines honoured; count = number of matching fields.
 * Bounded: block of at most N bytes, field name of 1..VF_NAME_MAX token characters.
 * Input type invariant (L5): no control bytes other than HTAB, CR, LF (such blocks are
 * rejected by http_req_sec_chk rule 2 before any lookup). */
#define VF_HTTP_BOUNDED 1
#define VF_HTTP_C20 1
#include "contracts/http.h"
#include "src/proto/http.c"
#ifndef N
#define N 24
#endif
#ifndef VF_NAME_MAX
#define VF_NAME_MAX 3
#endif
void harness(void) {
	VF_NONDET_BYTES(in, N);
	VF_NONDET(size_t, n);
	VF_ASSUME(n <= N);
	VF_NONDET_BYTES(nm, VF_NAME_MAX);
	VF_NONDET(size_t, name_len);
	VF_ASSUME(name_len >= 1 && name_len <= VF_NAME_MAX);
	for (size_t i = 0; i < VF_NAME_MAX; i ++)
		VF_ASSUME(vs_is_tchar(nm.b[i]));
	for (size_t i = 0; i < N; i ++)
		VF_ASSUME(in.b[i] >= 32 || in.b[i] == '\t' || in.b[i] == '\r' || in.b[i] == '\n');
#if defined(VF_FN_count)
	size_t cnt = http_hdr_val_get_count(in.b, n, nm.b, name_len);
	VF_ASSERT(cnt == vs_hdr_count(in.b, n, nm.b, name_len),
	    "hdr_count: count == number of fields whose name matches ignoring case");
#else
	VF_NONDET(size_t, offset);
	VF_ASSUME(offset <= N);
	const uint8_t *val = NULL;
	size_t val_size = 0, next = 0;
	int ret = http_hdr_val_get_ex(in.b, n, nm.b, name_len, offset, &val, &val_size, &next);
	vf_http_post_hdr_get(in.b, n, nm.b, name_len, offset, ret, val, val_size, next);
#endif
	VF_CANARY("C20 hdr_get harness end");
}
