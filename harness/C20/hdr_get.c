/* C20: http_hdr_val_get_ex / http_hdr_val_get_count agree with RFC 7230 3.2 field
 * delimiting (specs/http_spec.h): match at line start, name ignoring case, ':' ; value
 * trimmed, folded continuation lines honoured; count = number of matching fields.
 * Bounded: block of at most N bytes, field name of 1..VF_NAME_MAX token characters.
 * Input type invariant (L5): no control bytes other than HTAB, CR, LF (such blocks are
 * rejected by http_req_sec_chk rule 2 before any lookup). */
#define VF_HTTP_BOUNDED 1
#define VF_HTTP_C20 1
#include "contracts/http.h"
#include "src/proto/http.c"
#ifndef N
#define N 24
#endif
#ifndef VF_NAME_MAX
#define VF_NAME_MAX 3
#endif
/* -DVF_FN_count is modular: in the verifier the calls of http_hdr_val_get_ex inside
 * http_hdr_val_get_count are redirected (goto-instrument --replace-calls) to this stub, which
 * answers with the SPECIFICATION of http_hdr_val_get_ex (the obligation of the default
 * variant of this harness); the job then shows that the counting loop over that answer
 * yields the number of matching fields.  Natively (replay) the real callee runs. */
int
vf_stub_get_ex(const uint8_t *hdr, size_t n, const uint8_t *name, size_t name_len, size_t offset,
    const uint8_t **val_ret, size_t *val_ret_size, size_t *offset_next) {
	vs_span v = { 0, 0 };
	size_t nx = 0;

	if (!vs_hdr_find(hdr, n, name, name_len, offset, &v, &nx))
		return (ESPIPE);
	if (NULL != val_ret)
		(*val_ret) = hdr + v.pos;
	if (NULL != val_ret_size)
		(*val_ret_size) = v.len;
	if (NULL != offset_next)
		(*offset_next) = nx;
	return (0);
}
void harness(void) {
	VF_NONDET_BYTES(in, N);
	VF_NONDET(size_t, n);
	VF_ASSUME(n <= N);
	VF_NONDET_BYTES(nm, VF_NAME_MAX);
	VF_NONDET(size_t, name_len);
	VF_ASSUME(name_len >= 1 && name_len <= VF_NAME_MAX);
	for (size_t i = 0; i < VF_NAME_MAX; i ++)
		VF_ASSUME(vs_is_tchar(nm.b[i]));
	for (size_t i = 0; i < N; i ++)
		VF_ASSUME(in.b[i] >= 32 || in.b[i] == '\t' || in.b[i] == '\r' || in.b[i] == '\n');
#if defined(VF_FN_count)
	size_t cnt = http_hdr_val_get_count(in.b, n, nm.b, name_len);
	VF_ASSERT(cnt == vs_hdr_count(in.b, n, nm.b, name_len),
	    "hdr_count: count == number of fields whose name matches ignoring case");
#else
	VF_NONDET(size_t, offset);
	VF_ASSUME(offset <= N);
	const uint8_t *val = NULL;
	size_t val_size = 0, next = 0;
	int ret = http_hdr_val_get_ex(in.b, n, nm.b, name_len, offset, &val, &val_size, &next);
	vf_http_post_hdr_get(in.b, n, nm.b, name_len, offset, ret, val, val_size, next);
#endif
	VF_CANARY("C20 hdr_get harness end");
}
