/* C20, unbounded variant of the byte rules: http_req_sec_chk() == 0 implies that the byte at
 * an arbitrary (ghost) index violates neither rule 2 (control byte, > 126) nor rule 1
 * (SP before ':') -- exact-size is_fresh block of symbolic unbounded
 * length, loop contract with the ghost index (loops/http_req_sec_chk_k.json), callee
 * http_hdr_val_get_count replaced by its contract. */
#define VF_HTTP_GHOST_K 1
#include "contracts/http.h"
#include "src/proto/http.c"
size_t vf_k;
void harness(void) {
	VF_NONDET(size_t, hdr_size);
	VF_NONDET(size_t, k);
	VF_FRESH_PTR(uint8_t, http_hdr, hdr_size);
	VF_NONDET(uint32_t, method_code);
	vf_k = k;
	int r = http_req_sec_chk(http_hdr, hdr_size, method_code);
	VF_NATIVE_POST(r != 0 || k >= hdr_size || http_hdr[k] <= 126, "accepted block has no byte > 126 at k");
	VF_CANARY("C20 sec_chk unbounded harness end");
}
