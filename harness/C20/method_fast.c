/* C20: http_get_method_fast(m, n) == lookup of the byte string in the method-name table of
 * include/proto/http.h (specs/http_spec.h vs_method_code), for every string of up to N bytes
 * (N >= 12 covers the longest name, UNSUBSCRIBE, plus one).  Route "finite": the function has
 * no loop of its own; memcmp is the exact model of stubs/http.h. */
#define VF_HTTP_BOUNDED 1
#define VF_HTTP_C20 1
#include "contracts/http.h"
#include "src/proto/http.c"
#ifndef N
#define N 12
#endif
void harness(void) {
	VF_NONDET_BYTES(in, N);
	VF_NONDET(size_t, n);
	VF_ASSUME(n <= N);
	uint32_t code = http_get_method_fast(in.b, n);
	VF_ASSERT(code == vs_method_code(in.b, n), "method_fast: code == table lookup of the exact byte string");
	VF_ASSERT(code == HTTP_REQ_METHOD_UNKNOWN || (HTTPReqMethodSize[code] == n &&
	    memcmp(HTTPReqMethod[code], in.b, n) == 0), "method_fast: a known code names exactly these bytes");
	VF_CANARY("C20 method_fast harness end");
}
