/* C20 / C13 call-site obligations for src/proto/http_server.c (an anchor of C20):
 * http_srv_recv_done_cb() hands (cli->req.hdr, cli->req.hdr_size) -- derived from the received
 * byte count buf->used -- to http_parse_req_line, http_req_sec_chk and http_hdr_val_get, and
 * (ptm, tm) from http_hdr_val_get to ustr2usize / mem_cmpin.  Modular: the parsers are
 * external to this translation unit and are given stub bodies here that ASSERT their
 * preconditions (contracts/http.h: the span is readable, out-parameters writable) and return
 * an arbitrary result allowed by their postconditions (C13: value span inside the block).
 * The real callback runs on: a receive buffer of VF_SRV_CAP bytes with symbolic used <= size (the
 * io_buf invariant), a client in its initial per-request state (no header parsed yet),
 * arbitrary settings / flags / event arguments.  All other external functions (thread pool,
 * syslog, socket address helpers, io_buf_realloc, user callbacks) return arbitrary values.
 * Plain harness, assertions only. */
#include "stubs/http.h"
#include "src/proto/http_server.c"
#include <errno.h>
#ifndef VF_SRV_CAP
#define VF_SRV_CAP 64
#endif

static const uint8_t *vf_blk;		/* the block the callback must stay inside */
static size_t vf_blk_used;

#define VF_SITE_SPAN(fn, p, n)								\
	__CPROVER_assert((p) != NULL && __CPROVER_r_ok((p), (n)), fn ": (pointer, size) readable");	\
	__CPROVER_assert(__CPROVER_same_object((p), vf_blk) &&				\
	    (size_t)__CPROVER_POINTER_OFFSET(p) + (n) <= vf_blk_used,			\
	    fn ": span lies inside the RECEIVED bytes (buf->data[0..used))")

int
http_parse_req_line(const uint8_t *http_hdr, size_t hdr_size, http_req_line_data_p rd) {
	VF_SITE_SPAN("http_parse_req_line", http_hdr, hdr_size);
	__CPROVER_assert(rd != NULL && __CPROVER_w_ok(rd, sizeof(*rd)), "http_parse_req_line: result record writable");
	if (nondet_bool())
		return (nondet_bool() ? EINVAL : EBADMSG);
	/* any result allowed by the C13 contract: spans inside the line, inside the block */
	size_t a = nondet_size_t(), b = nondet_size_t();
	__CPROVER_assume(a <= hdr_size && b <= hdr_size - a);
	rd->line_size = hdr_size;
	rd->method = http_hdr; rd->method_size = a;
	rd->method_code = nondet_uint32_t();
	__CPROVER_assume(rd->method_code < HTTP_REQ_METHOD__COUNT__);
	rd->uri = http_hdr + a; rd->uri_size = b;
	rd->scheme = NULL; rd->scheme_size = 0;
	if (nondet_bool()) { rd->host = http_hdr + a; rd->host_size = b; } else { rd->host = NULL; rd->host_size = 0; }
	rd->abs_path = http_hdr + a; rd->abs_path_size = b;
	rd->query = http_hdr + a; rd->query_size = b;
	rd->proto_ver = nondet_uint32_t();
	return (0);
}
int
http_req_sec_chk(const uint8_t *http_hdr, size_t hdr_size, uint32_t method_code) {
	VF_SITE_SPAN("http_req_sec_chk", http_hdr, hdr_size);
	(void)method_code;
	int r = nondet_int();
	__CPROVER_assume(r >= 0 && r <= 7);
	return (r);
}
int
http_hdr_val_get(const uint8_t *http_hdr, size_t hdr_size, const uint8_t *val_name, size_t val_name_size,
    const uint8_t **val_ret, size_t *val_ret_size) {
	VF_SITE_SPAN("http_hdr_val_get", http_hdr, hdr_size);
	__CPROVER_assert(val_name_size == 0 || __CPROVER_r_ok(val_name, val_name_size), "http_hdr_val_get: name readable");
	__CPROVER_assert(val_ret == NULL || __CPROVER_w_ok(val_ret, sizeof(*val_ret)), "http_hdr_val_get: val_ret writable");
	__CPROVER_assert(val_ret_size == NULL || __CPROVER_w_ok(val_ret_size, sizeof(*val_ret_size)), "http_hdr_val_get: val_ret_size writable");
	if (nondet_bool())
		return (ESPIPE);
	size_t a = nondet_size_t(), b = nondet_size_t();
	__CPROVER_assume(a <= hdr_size && b <= hdr_size - a);
	if (val_ret != NULL) *val_ret = http_hdr + a;
	if (val_ret_size != NULL) *val_ret_size = b;
	return (0);
}

/* (ptm, tm) pairs handed to the number parsers: redirected here by --replace-calls */
size_t
vf_site_ustr2usize(const uint8_t *str, size_t str_len) {
	VF_SITE_SPAN("ustr2usize", str, str_len);
	return (nondet_size_t());
}
uint16_t
vf_site_ustr2u16(const uint8_t *str, size_t str_len) {
	VF_SITE_SPAN("ustr2u16", str, str_len);
	return (nondet_uint16_t());
}
/* user callbacks: arbitrary results */
static int
vf_on_req_rcv(http_srv_cli_p cli, void *udata, http_srv_req_p req, http_srv_resp_p resp) {
	(void)cli; (void)udata; (void)req; (void)resp;
	return (nondet_int());
}
static void
vf_on_destroy(http_srv_cli_p cli, void *udata, http_srv_resp_p resp) {
	(void)cli; (void)udata; (void)resp;
}

void harness(void) {
	VF_NONDET_BYTES(rx, VF_SRV_CAP);	/* receive buffer: fixed capacity, symbolic content */
	VF_NONDET(size_t, used);
	size_t cap = VF_SRV_CAP;
	VF_ASSUME(used <= cap);
	uint8_t *data = rx.b;
	VF_NONDET_OBJ(io_buf_t, buf);
	VF_NONDET_OBJ(http_srv_t, srv);
	VF_NONDET_OBJ(http_srv_bind_t, bnd);
	VF_NONDET_OBJ(http_srv_cli_t, cli);
	VF_NONDET(int, error);
	VF_NONDET(uint32_t, eof);
	VF_NONDET(size_t, transfered_size);
	buf.data = data; buf.size = cap; buf.used = used;		/* io_buf invariant */
	bnd.srv = &srv;
	cli.bnd = &bnd; cli.rcv_buf = &buf; cli.buf = NULL;
	cli.req.data = NULL; cli.req.hdr = NULL; cli.req.hdr_size = 0;	/* no request parsed yet */
	VF_ASSUME(srv.bind_count <= 1);					/* the bind-table loop is unwound twice */
	cli.ccb.on_req_rcv = vf_on_req_rcv;
	cli.ccb.on_destroy = vf_on_destroy;
	vf_blk = data; vf_blk_used = used;
	(void)http_srv_recv_done_cb(cli.tptask, error, &buf, eof, transfered_size, &cli);
	VF_CANARY("C20 server_callsite harness end");
}
