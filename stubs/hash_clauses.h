/*
 * Clause macros shared by contracts/{sha1,sha2,gost3411}.h (contracts/md5.h spells the same
 * clauses out).  Vocabulary: stubs/hash_ghost.h.
 *
 * Contract U of an absorption function  update(ctx, data, n)  with block size B, entry tail
 * length T0 (bytes already buffered, evaluated in the pre-state):
 *     fed   = (T0 + n) rounded down to a multiple of B      bytes handed to the transform
 *     the bytes handed over are bytes [0, fed) of  tail || data, in order
 *     the new tail is bytes [fed, T0 + n) of  tail || data
 * observed at the ghost indices vf_blk_k (log position) and vf_t_k (tail position).
 */
#ifndef VF_STUBS_HASH_CLAUSES_H
#define VF_STUBS_HASH_CLAUSES_H

#define VF_FED(T0, n, B)	(((T0) + (n)) & ~(size_t)((B) - 1))
/* ghost log index relative to the log length at entry */
#define VF_BLK_J		(vf_blk_k - __CPROVER_old(vf_blk_len))
#define VF_BLK_IN(fed)		(vf_blk_k >= __CPROVER_old(vf_blk_len) && VF_BLK_J < (fed))
/* pre-state byte of the partial-block buffer under the ghost log index / the ghost tail index */
#define VF_OLDBUF_K(buf, B)	__CPROVER_old(((const uint8_t *)(buf))[(vf_blk_k - vf_blk_len) & ((B) - 1)])
#define VF_OLDBUF_T(buf, B)	__CPROVER_old(((const uint8_t *)(buf))[vf_t_k & ((B) - 1)])

/* length of the log */
#define VF_U_POST_LEN(T0, n, B)								\
__CPROVER_ensures(vf_blk_len == __CPROVER_old(vf_blk_len) + VF_FED(T0, n, B))

/* content: which byte is fed where, what remains buffered */
#define VF_U_POST_CONTENT(T0, n, B, buf, data)						\
__CPROVER_ensures(VF_BLK_IN(VF_FED(T0, n, B)) ==>					\
    vf_blk_at == ((VF_BLK_J < (T0)) ? VF_OLDBUF_K(buf, B) : (data)[VF_BLK_J - (T0)]))	\
__CPROVER_ensures(!VF_BLK_IN(VF_FED(T0, n, B)) ==> vf_blk_at == __CPROVER_old(vf_blk_at))	\
__CPROVER_ensures(vf_t_k < (((T0) + (n)) & ((B) - 1)) ==>				\
    ((const uint8_t *)(buf))[vf_t_k] ==							\
	((VF_FED(T0, n, B) + vf_t_k < (T0)) ? VF_OLDBUF_T(buf, B) :			\
	    (data)[VF_FED(T0, n, B) + vf_t_k - (T0)]))

/* LOG contract of a multi-block transform(ctx, blocks, blocks_max): appends
 * nbytes = blocks_max - blocks bytes (whole blocks, at least one) to the ghost log */
#define VF_LOG_NBYTES(blocks, blocks_max)	((size_t)((blocks_max) - (blocks)))
#define VF_LOG_REQUIRES(blocks, blocks_max, B)						\
__CPROVER_requires(__CPROVER_same_object(blocks, blocks_max) && (blocks) < (blocks_max))	\
__CPROVER_requires((VF_LOG_NBYTES(blocks, blocks_max) & ((B) - 1)) == 0)		\
__CPROVER_requires(__CPROVER_r_ok(blocks, VF_LOG_NBYTES(blocks, blocks_max)))
#define VF_LOG_ENSURES(blocks, blocks_max)						\
__CPROVER_ensures(vf_blk_len == __CPROVER_old(vf_blk_len) + VF_LOG_NBYTES(blocks, blocks_max))	\
__CPROVER_ensures(vf_blk_at ==								\
    (VF_BLK_IN(VF_LOG_NBYTES(blocks, blocks_max)) ? (blocks)[VF_BLK_J] : __CPROVER_old(vf_blk_at)))

/* serialisation of the final chaining value: big-endian words of W bytes (SHA), or
 * little-endian (MD5, GOST) */
#define VF_BYTE_BE32(v, i)	((uint8_t)(((uint32_t)(v)) >> (8 * (3 - (i)))))
#define VF_BYTE_BE64(v, i)	((uint8_t)(((uint64_t)(v)) >> (8 * (7 - (i)))))

#endif
