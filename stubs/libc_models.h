/*
 * Executable reference models of libc search functions that CBMC's built-in library does not
 * provide (memchr, memrchr, memmem, strncasecmp). Used by bounded jobs (full unwinding) instead
 * of the assumed contracts of stubs/libc.h when the *content* of the result matters.
 * They are the textbook definitions (C11 7.24.5.1, glibc manual); trusted, listed in assumptions.
 */
#ifndef VF_STUBS_LIBC_MODELS_H
#define VF_STUBS_LIBC_MODELS_H
#ifndef VF_REPLAY
#include <stddef.h>
void *memchr(const void *s, int c, size_t n) {
	const unsigned char *p = (const unsigned char *)s;
	for (size_t i = 0; i < n; i ++) {
		if (p[i] == (unsigned char)c)
			return ((void *)(p + i));
	}
	return (NULL);
}
void *memrchr(const void *s, int c, size_t n) {
	const unsigned char *p = (const unsigned char *)s;
	for (size_t i = n; i > 0; i --) {
		if (p[i - 1] == (unsigned char)c)
			return ((void *)(p + i - 1));
	}
	return (NULL);
}
void *memmem(const void *h, size_t hn, const void *nd, size_t nn) {
	const unsigned char *hp = (const unsigned char *)h, *np = (const unsigned char *)nd;
	if (nn == 0)
		return ((void *)h);
	if (nn > hn)
		return (NULL);
	for (size_t i = 0; i + nn <= hn; i ++) {
		size_t j = 0;
		for (; j < nn; j ++) {
			if (hp[i + j] != np[j])
				break;
		}
		if (j == nn)
			return ((void *)(hp + i));
	}
	return (NULL);
}
int strncasecmp(const char *a, const char *b, size_t n) {
	for (size_t i = 0; i < n; i ++) {
		unsigned char x = (unsigned char)a[i], y = (unsigned char)b[i];
		if (x >= 'A' && x <= 'Z') x = (unsigned char)(x + 32);
		if (y >= 'A' && y <= 'Z') y = (unsigned char)(y + 32);
		if (x != y)
			return ((int)x - (int)y);
		if (x == 0)
			return (0);
	}
	return (0);
}
#endif
#endif
