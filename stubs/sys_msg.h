/*
 * ASSUMED contracts (executable stubs with ghost state, CBMC side only) of the system and
 * pthread calls reached from src/threadpool/threadpool_msg_sys.c (properties C05 / C10,
 * per-call fragments). Nothing here is proved; every item is listed in the registries'
 * "assumptions".
 *
 *  pipe2        fresh descriptor pair (ghost pipe slot), or -1 / errno != 0 and fd[] untouched
 *  write(fd,p,n) on the write end of a ghost pipe: EITHER appends exactly the n bytes to the
 *               ghost byte queue of that pipe and returns n, OR returns -1 with errno != 0
 *               (EAGAIN when the queue is full; any errno nondeterministically) and has NO
 *               effect. No short writes: POSIX atomicity of writes <= PIPE_BUF is ASSUMED.
 *               A descriptor that is not a ghost write end: -1 / EBADF.
 *  read(fd,p,n) on the read end: -1 / errno != 0 (EAGAIN when empty, or nondeterministically),
 *               or consumes and returns a non-empty prefix of the ghost queue of any length
 *               <= n (harness may pin the length with vf_rd_force). Bytes of the caller's
 *               buffer past the returned length are left arbitrary (see the note at read()).
 *  close        releases a descriptor of the ghost ledger; closing twice / a descriptor
 *               never handed out is a failed obligation
 *  memcpy/memmove/memmem on the receiver's 32 KiB stack buffer: NOT here - byte-granular access
 *               to that buffer is intractable for CBMC; harness/C05/recv_models.c carries word-wise
 *               executable models (cross-checked natively against libc).
 *  epoll_ctl    records the registration; may fail with any errno
 *  pthread_mutex_*  exclusive no-ops with a ghost "held" flag: lock of a held or
 *               uninitialised/destroyed mutex, unlock of a mutex not held, destroy of a held
 *               mutex are failed obligations (balanced use). Sequential consistency and
 *               mutual exclusion between threads are ASSUMED, there are no threads here.
 *  pthread_getspecific  the harness-chosen "current pool thread" (vf_current_tpt)
 *  sched_yield / nanosleep  give "other threads" a step: call the harness hook vf_other_threads_step()
 *  calloc/malloc/free  CBMC's model (--malloc-may-fail --malloc-fail-null)
 */
#ifndef VF_STUBS_SYS_MSG_H
#define VF_STUBS_SYS_MSG_H
#ifndef VF_REPLAY
#include <errno.h>
#include <string.h>
#include <sys/types.h>
#include <sys/epoll.h>
#include <unistd.h>
#include <fcntl.h>
#include <pthread.h>
#include <sched.h>
#include <time.h>

int nondet_int(void);
_Bool nondet_bool(void);
size_t nondet_size_t(void);

#ifndef VF_NPIPE
#define VF_NPIPE	2		/* ghost pipes */
#endif
#ifndef VF_PIPE_CAP
#define VF_PIPE_CAP	128		/* ghost queue capacity in bytes, multiple of 32 (a "full pipe" is EAGAIN) */
#endif

_Bool vf_no_faults;			/* harness: 1 = calls with valid arguments succeed */

/* ---- descriptor ledger ------------------------------------------------------------ */
#define VF_FD_BASE	100
#define VF_FD_MAX	8
int vf_next_fd = VF_FD_BASE;
_Bool vf_fd_is_open[VF_FD_MAX];		/* descriptor VF_FD_BASE + i is open */
int vf_fds_open;			/* opened minus closed */
int vf_close_calls;

/* ---- ghost pipes ------------------------------------------------------------------
 * The queue content is kept as 64-bit words (little endian, LP64) so that harnesses and the
 * word-wise memory models of harness/C05/recv_models.c never need byte-granular access; `len` is in
 * bytes and need not be a multiple of 8 (damaged content), bytes of the last word past `len` are slack. */
#define VF_PIPE_WORDS	(VF_PIPE_CAP / 8)
typedef struct { uint64_t w[4]; } vf_pkt32_t;
typedef struct { uint64_t w[VF_PIPE_WORDS]; } vf_blk_t;
struct vf_pipe {
	int	rfd, wfd;		/* 0 = slot unused */
	size_t	len;			/* bytes queued */
	size_t	wr_ok;			/* successful writes */
	_Bool	rd_partial;		/* a read left bytes behind */
	vf_blk_t q;			/* queue content is bytes [0 .. len) of q */
};
struct vf_pipe vf_pipe[VF_NPIPE];
int vf_pipe_cnt;
int vf_wr_calls, vf_wr_ok_calls, vf_wr_last_fd; size_t vf_wr_last_n;
int vf_rd_calls, vf_rd_ok_calls, vf_rd_last_fd; size_t vf_rd_last_n, vf_rd_last_ret;
void *vf_rd_buf;			/* the caller's buffer of the last successful read */
ssize_t vf_rd_force = -1;		/* harness: >= 0 pins the length of the next successful read (concrete) */
_Bool vf_rd_no_faults;			/* harness: read fails only when the queue is empty */
int vf_pipe2_calls, vf_pipe2_flags;

static int vf_fail(void) {
	int e = nondet_int();
	__CPROVER_assume(e > 0 && e < 4096);
	errno = e;
	return (-1);
}
static int vf_fd_new(void) {
	int fd = vf_next_fd ++;
	__CPROVER_assert(fd - VF_FD_BASE < VF_FD_MAX, "stub: descriptor table of the harness exhausted");
	vf_fd_is_open[fd - VF_FD_BASE] = 1;
	vf_fds_open ++;
	return (fd);
}
/* harness helper: a connected ghost pipe with the given descriptors (no ledger entry) */
static struct vf_pipe *vf_pipe_make(int rfd, int wfd) {
	struct vf_pipe *p = &vf_pipe[vf_pipe_cnt ++];
	p->rfd = rfd; p->wfd = wfd; p->len = 0; p->wr_ok = 0; p->rd_partial = 0;
	return (p);
}
static struct vf_pipe *vf_pipe_by_wfd(int fd) {
	for (int i = 0; i < VF_NPIPE; i ++)
		if (vf_pipe[i].wfd == fd && fd != 0) return (&vf_pipe[i]);
	return (NULL);
}
static struct vf_pipe *vf_pipe_by_rfd(int fd) {
	for (int i = 0; i < VF_NPIPE; i ++)
		if (vf_pipe[i].rfd == fd && fd != 0) return (&vf_pipe[i]);
	return (NULL);
}

int pipe2(int fd[2], int flags) {
	vf_pipe2_calls ++;
	vf_pipe2_flags = flags;
	if (!vf_no_faults && nondet_bool())
		return (vf_fail());
	__CPROVER_assert(vf_pipe_cnt < VF_NPIPE, "stub: ghost pipe table of the harness exhausted");
	fd[0] = vf_fd_new();
	fd[1] = vf_fd_new();
	vf_pipe_make(fd[0], fd[1]);
	return (0);
}
int close(int fd) {
	vf_close_calls ++;
	__CPROVER_assert(fd >= VF_FD_BASE && fd < VF_FD_BASE + VF_FD_MAX && vf_fd_is_open[fd - VF_FD_BASE],
	    "close: descriptor is open and owned by the caller (no double close)");
	if (fd >= VF_FD_BASE && fd < VF_FD_BASE + VF_FD_MAX && vf_fd_is_open[fd - VF_FD_BASE]) {
		vf_fd_is_open[fd - VF_FD_BASE] = 0;
		vf_fds_open --;
	}
	return (0);
}

ssize_t write(int fd, const void *buf, size_t n) {
	struct vf_pipe *p = vf_pipe_by_wfd(fd);
	vf_wr_calls ++;
	vf_wr_last_fd = fd;
	vf_wr_last_n = n;
	if (p == NULL) {
		errno = EBADF;
		return (-1);
	}
	__CPROVER_assert(n <= 4096, "write: at most PIPE_BUF bytes (the atomicity assumption applies)");
	__CPROVER_assert(__CPROVER_r_ok(buf, n), "write: source readable");
	if (n > VF_PIPE_CAP - p->len) {	/* queue full: O_NONBLOCK pipe */
		errno = EAGAIN;
		return (-1);
	}
	if (!vf_no_faults && nondet_bool())	/* EAGAIN / EPIPE / EBADF / EINTR ...: no effect */
		return (vf_fail());
	__CPROVER_assert(n == 32 && p->len % 32 == 0, "stub: the ghost pipe accepts whole 32-byte packets at packet boundaries");
	*(vf_pkt32_t *)&p->q.w[p->len / 8] = *(const vf_pkt32_t *)buf;
	p->len += 32;
	p->wr_ok ++;
	vf_wr_ok_calls ++;
	return ((ssize_t)n);
}

/* The copy into the caller's buffer has the fixed length VF_PIPE_CAP (a symbolic-length copy is
 * what makes CBMC slow); only the first `r` bytes are the data that was read. The bytes past r
 * are whatever follows in the ghost array - queued-but-unread bytes or unconstrained slack -, i.e.
 * one particular instance of "arbitrary stale memory", which is what an uninitialised stack
 * buffer holds anyway; harnesses leave that tail unconstrained, so callers are checked never to
 * depend on it. A second read after one that left bytes behind is not modelled (failed
 * obligation): the harnesses bound the read result below the caller's buffer size, and the
 * receiver reads again only after a completely filled buffer. */
ssize_t read(int fd, void *buf, size_t n) {
	struct vf_pipe *p = vf_pipe_by_rfd(fd);
	vf_rd_calls ++;
	vf_rd_last_fd = fd;
	vf_rd_last_n = n;
	if (p == NULL) {
		errno = EBADF;
		return (-1);
	}
	__CPROVER_assert(!p->rd_partial, "stub: second read after a partial read is not modelled");
	if (p->len == 0) {
		errno = EAGAIN;
		return (-1);
	}
	if (!vf_rd_no_faults && nondet_bool())
		return (vf_fail());
	size_t r;
	if (vf_rd_force >= 0) {			/* concrete length: keeps the caller's loops concrete */
		r = (size_t)vf_rd_force;
		vf_rd_force = -1;
	} else
		r = nondet_size_t();
	__CPROVER_assume(r >= 1 && r <= p->len && r <= n);
	__CPROVER_assert(n >= VF_PIPE_CAP && __CPROVER_w_ok(buf, n), "read: caller's buffer writable (and holds the fixed-size copy)");
	*(vf_blk_t *)buf = p->q;
	p->len -= r;
	p->rd_partial = (p->len != 0);
	vf_rd_buf = buf;
	vf_rd_ok_calls ++;
	vf_rd_last_ret = r;
	return ((ssize_t)r);
}

/* ---- epoll (registration of the queue's read end) ---------------------------------- */
int vf_epctl_calls, vf_epctl_ok_calls, vf_epctl_last_op, vf_epctl_last_fd, vf_epctl_last_epfd;
uint32_t vf_epctl_last_events; void *vf_epctl_last_ptr;
int epoll_ctl(int epfd, int op, int fd, struct epoll_event *event) {
	vf_epctl_calls ++;
	vf_epctl_last_epfd = epfd;
	vf_epctl_last_op = op;
	vf_epctl_last_fd = fd;
	if (event != NULL) {
		vf_epctl_last_events = event->events;
		vf_epctl_last_ptr = event->data.ptr;
	}
	if (!vf_no_faults && nondet_bool())
		return (vf_fail());
	vf_epctl_ok_calls ++;
	return (0);
}

/* ---- mutex: exclusive no-op with a ghost "held" flag --------------------------------- */
pthread_mutex_t *vf_mtx_live;		/* the initialised mutex (one per harness) */
pthread_mutex_t *vf_mtx_held;		/* != NULL: held by "this thread" */
int vf_mtx_init_calls, vf_mtx_destroy_calls, vf_mtx_lock_calls, vf_mtx_unlock_calls;
int pthread_mutexattr_init(pthread_mutexattr_t *a) { (void)a; return (0); }
int pthread_mutexattr_settype(pthread_mutexattr_t *a, int t) { (void)a; (void)t; return (0); }
int pthread_mutexattr_destroy(pthread_mutexattr_t *a) { (void)a; return (0); }
int pthread_mutex_init(pthread_mutex_t *m, const pthread_mutexattr_t *a) {
	(void)a;
	vf_mtx_init_calls ++;
	__CPROVER_assert(vf_mtx_live == NULL, "mutex: harness models one live mutex");
	vf_mtx_live = m;
#ifdef VF_MTX_INIT_HOOK
	VF_MTX_INIT_HOOK(m);
#endif
	return (0);
}
int pthread_mutex_destroy(pthread_mutex_t *m) {
	vf_mtx_destroy_calls ++;
	__CPROVER_assert(m == vf_mtx_live && m != NULL, "mutex destroy: mutex is initialised");
	__CPROVER_assert(vf_mtx_held == NULL, "mutex destroy: not held");
#ifdef VF_MTX_DESTROY_HOOK
	VF_MTX_DESTROY_HOOK(m);		/* harness observes the state protected by the mutex at its end of life */
#endif
	vf_mtx_live = NULL;
	return (0);
}
int pthread_mutex_lock(pthread_mutex_t *m) {
	vf_mtx_lock_calls ++;
	__CPROVER_assert(m == vf_mtx_live && m != NULL, "mutex lock: mutex is initialised and not destroyed");
	__CPROVER_assert(vf_mtx_held == NULL, "mutex lock: not already held (balanced use)");
	vf_mtx_held = m;
	return (0);
}
int pthread_mutex_unlock(pthread_mutex_t *m) {
	vf_mtx_unlock_calls ++;
	__CPROVER_assert(m == vf_mtx_held && m != NULL, "mutex unlock: held by the caller (balanced use)");
	vf_mtx_held = NULL;
	return (0);
}

/* ---- current thread / yielding --------------------------------------------------------- */
void *vf_current_tpt;			/* harness: what tpt_get_current() returns */
void *pthread_getspecific(pthread_key_t k) { (void)k; return (vf_current_tpt); }
void vf_other_threads_step(void);	/* harness hook: what other threads may do while we wait */
int vf_yield_calls, vf_sleep_calls;
int sched_yield(void) { vf_yield_calls ++; vf_other_threads_step(); return (0); }
int nanosleep(const struct timespec *rq, struct timespec *rm) {
	(void)rq; (void)rm; vf_sleep_calls ++; vf_other_threads_step(); return (nondet_bool() ? 0 : -1);
}
#endif
#endif
