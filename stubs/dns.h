/*
 * Assumed contracts of the libc functions called by include/proto/dns.h, for
 * `--replace-call-with-contract` in the unbounded (symbolic message size) jobs.
 * requires = ASSERTED at every call site in the code under verification (so a copy that
 * leaves either span is a failed "precondition" obligation); ensures = ASSUMED.
 *
 * memcpy: CBMC's own model copies through a variable-length array of symbolic size, which
 * does not scale to a 64 KiB symbolic message (> 300 s, > 20 GB).  The contract keeps the two
 * safety facts (both spans inside their objects, objects distinct) and abstracts the
 * copied bytes to "anything" -- which loses nothing for the safety jobs, because the
 * message bytes are arbitrary there anyway (the whole destination OBJECT is havocked: a
 * symbolic-length slice havoc is as expensive as the copy).  The bounded content jobs use
 * CBMC's byte-exact memcpy.
 */
#ifndef VF_STUBS_DNS_H
#define VF_STUBS_DNS_H
#ifndef VF_REPLAY
#include <string.h>
#include <stdint.h>

#if defined(VF_DNS_MEMCPY_LOOP)
/* byte-exact body for the bounded content jobs: a plain loop (unwound to the job's bound)
 * is far cheaper for the solver than CBMC's variable-length-array model of memcpy */
void *memcpy(void *dst, const void *src, size_t n) {
	size_t i;

	__CPROVER_precondition(n == 0 || (__CPROVER_w_ok(dst, n) && __CPROVER_r_ok(src, n)),
	    "memcpy: both spans inside their objects");
	for (i = 0; i < n; i ++)
		((uint8_t *)dst)[i] = ((const uint8_t *)src)[i];
	return (dst);
}
/* memchr, defining loop (first occurrence or NULL), for the same jobs */
void *memchr(const void *s, int c, size_t n) {
	size_t i;

	__CPROVER_precondition(n == 0 || __CPROVER_r_ok(s, n), "memchr: span inside its object");
	for (i = 0; i < n; i ++) {
		if (((const uint8_t *)s)[i] == (uint8_t)c)
			return ((void *)((const uint8_t *)s + i));
	}
	return (NULL);
}
#elif defined(VF_DNS_MEMCPY_SLICE)
/* contract form for the construction side (C15): exactly dst[0..n) is assigned and, observed at
 * the ghost index vf_dns_k (contracts/dns.h part 2), holds the source bytes */
extern size_t vf_dns_k;
void *memcpy(void *dst, const void *src, size_t n)
__CPROVER_requires(n == 0 || (__CPROVER_w_ok(dst, n) && __CPROVER_r_ok(src, n) &&
    !__CPROVER_same_object(dst, src)))
__CPROVER_assigns(n != 0: __CPROVER_object_upto(dst, n))
__CPROVER_ensures(__CPROVER_return_value == dst)
__CPROVER_ensures(vf_dns_k < n ==> ((const uint8_t *)dst)[vf_dns_k] == ((const uint8_t *)src)[vf_dns_k])
;
#elif !defined(VF_DNS_MEMCPY_BODY)
/* contract form, for `"replace": ["memcpy"]` in --dfcc jobs */
void *memcpy(void *dst, const void *src, size_t n)
__CPROVER_requires(n == 0 || (__CPROVER_w_ok(dst, n) && __CPROVER_r_ok(src, n) &&
    !__CPROVER_same_object(dst, src)))
__CPROVER_assigns(n != 0: __CPROVER_object_whole(dst))
__CPROVER_ensures(__CPROVER_return_value == dst)
;
#else
/* body form of the same assumption, for "plain" (non --dfcc) jobs: the two spans are
 * asserted, the destination object is havocked (over-approximation of the n copied bytes) */
void *memcpy(void *dst, const void *src, size_t n) {
	__CPROVER_precondition(n == 0 || (__CPROVER_w_ok(dst, n) && __CPROVER_r_ok(src, n) &&
	    !__CPROVER_same_object(dst, src)), "memcpy: both spans inside their (distinct) objects");
	if (n != 0)
		__CPROVER_havoc_object(dst);
	return (dst);
}
#endif
#endif
#endif
