/*
 * Abstract MD5 for the RADIUS constructions of include/proto/radius.h (C15).  Two forms.
 *
 * (A) default: byte-stream GHOST CONTRACTS for md5_init / md5_update / md5_final, used with
 *     `"replace": ["md5_init","md5_update","md5_final"]`.  Unlike the stream contracts of
 *     contracts/md5.h (one computation in progress, tracked in globals) the stream summary lives
 *     IN THE CONTEXT OBJECT, because radius_pkt_attr_password_encode/decode save and restore a
 *     context with memcpy (ctx_with_key) -- the summary has to be copied with it:
 *         ctx->count    == number of bytes absorbed so far
 *         ctx->hash[0]  == byte number vf_md5_k of the absorbed stream (if vf_md5_k < count)
 *     vf_md5_k is a ghost index nobody assigns: a fact about "the byte at vf_md5_k" is a fact
 *     about every byte.  md5_final appends (length, byte at vf_md5_k) of the finished input to the
 *     ghost digest table, returns an arbitrary digest and records all 16 bytes of it:
 *         vf_md5_len[i], vf_md5_at[i], vf_md5_dig[i][0..16)      i = 0 .. vf_md5_n-1, call order
 *     That MD5 is a function of its input (equal inputs => equal digests) is not part of these
 *     contracts; the chains are stated as "input of computation i == ...".
 *
 * (B) -DVF_MD5_UF: BODIES that make MD5 an arbitrary-but-fixed FUNCTION of the absorbed stream: a
 *     fold of an uninterpreted step function over the bytes, digest = uninterpreted finalisers of
 *     the state.  Used by the bounded round-trip job (decode(encode(p)) == p, tamper detection):
 *     whatever holds for every such function holds for the real MD5.
 */
#ifndef VF_STUBS_RADIUS_MD5_H
#define VF_STUBS_RADIUS_MD5_H
#include <stddef.h>
#include <stdint.h>
#undef __SSE2__
#include "crypto/hash/md5.h"

#define VF_MD5_TBL	18	/* password: <= 8 blocks, encode + decode; authenticator: 1 */
extern size_t	vf_md5_k;
extern size_t	vf_md5_n;
extern size_t	vf_md5_len[VF_MD5_TBL];
extern uint8_t	vf_md5_at[VF_MD5_TBL];
extern uint8_t	vf_md5_dig[VF_MD5_TBL][16];

#ifndef VF_REPLAY
#if defined(VF_MD5_GHOST_BODY)
/* (A') the ghost-stream model of (A) as loop-free BODIES, for plain (non --dfcc) jobs: same
 * summary in the context, same digest table, digest bytes arbitrary */
uint8_t nondet_uint8_t(void);
#define md5_init	vf_gb_md5_init
#define md5_update	vf_gb_md5_update
#define md5_final	vf_gb_md5_final
static inline void
vf_gb_md5_init(md5_ctx_p ctx) {
	ctx->count = 0;
	ctx->hash[0] = 0;
}
static inline void
vf_gb_md5_update(md5_ctx_p ctx, const uint8_t *data, const size_t data_size) {
	__CPROVER_precondition(data_size == 0 || __CPROVER_r_ok(data, data_size), "md5_update: data span inside its object");
	if (vf_md5_k >= ctx->count && vf_md5_k - ctx->count < data_size)
		ctx->hash[0] = data[vf_md5_k - ctx->count];
	ctx->count += data_size;
}
static inline void
vf_gb_md5_final(md5_ctx_p ctx, uint8_t *digest) {
	uint8_t i;
	__CPROVER_assert(vf_md5_n < VF_MD5_TBL, "ghost digest table large enough");
	vf_md5_len[vf_md5_n] = ctx->count;
	vf_md5_at[vf_md5_n] = (uint8_t)ctx->hash[0];
	for (i = 0; i < 16; i ++) {
		vf_md5_dig[vf_md5_n][i] = nondet_uint8_t();
		digest[i] = vf_md5_dig[vf_md5_n][i];
	}
	vf_md5_n ++;
	ctx->count = 0;
	ctx->hash[0] = 0;
}
#define VF_MD5_GHOST_ASSIGNS	vf_md5_n, __CPROVER_object_whole(vf_md5_len), \
	__CPROVER_object_whole(vf_md5_at), __CPROVER_object_whole(vf_md5_dig)
#define VF_HM_GHOST_ASSIGNS	vf_hm_n, __CPROVER_object_whole(vf_hm_key), __CPROVER_object_whole(vf_hm_key_len), \
	__CPROVER_object_whole(vf_hm_len), __CPROVER_object_whole(vf_hm_at), __CPROVER_object_whole(vf_hm_dig)
/* HMAC-MD5 ghost bodies (same model as the hmac_md5_* ghost contracts below) */
#define hmac_md5_init	vf_gb_hmac_md5_init
#define hmac_md5_update	vf_gb_hmac_md5_update
#define hmac_md5_final	vf_gb_hmac_md5_final
#define VF_HM_TBL	2
extern const uint8_t *vf_hm_key[VF_HM_TBL + 1];
extern size_t	vf_hm_key_len[VF_HM_TBL + 1];
extern size_t	vf_hm_n;
extern size_t	vf_hm_len[VF_HM_TBL];
extern uint8_t	vf_hm_at[VF_HM_TBL];
extern uint8_t	vf_hm_dig[VF_HM_TBL][16];
static inline void
vf_gb_hmac_md5_init(const uint8_t *key, const size_t key_len, hmac_md5_ctx_p hctx) {
	__CPROVER_precondition(key_len == 0 || __CPROVER_r_ok(key, key_len), "hmac_md5_init: key span inside its object");
	__CPROVER_assert(vf_hm_n < VF_HM_TBL, "ghost HMAC table large enough");
	vf_hm_key[vf_hm_n] = key;
	vf_hm_key_len[vf_hm_n] = key_len;
	hctx->ctx.count = 0;
	hctx->ctx.hash[0] = 0;
}
static inline void
vf_gb_hmac_md5_update(hmac_md5_ctx_p hctx, const uint8_t *data, const size_t data_size) {
	vf_gb_md5_update(&hctx->ctx, data, data_size);
}
static inline void
vf_gb_hmac_md5_final(hmac_md5_ctx_p hctx, uint8_t *digest) {
	uint8_t i;
	__CPROVER_assert(vf_hm_n < VF_HM_TBL, "ghost HMAC table large enough");
	vf_hm_len[vf_hm_n] = hctx->ctx.count;
	vf_hm_at[vf_hm_n] = (uint8_t)hctx->ctx.hash[0];
	for (i = 0; i < 16; i ++) {
		vf_hm_dig[vf_hm_n][i] = nondet_uint8_t();
		digest[i] = vf_hm_dig[vf_hm_n][i];
	}
	vf_hm_n ++;
	hctx->ctx.count = 0;
	hctx->ctx.hash[0] = 0;
}
#define VF_HM_DIG_IS(d, i)	((d)[0] == vf_hm_dig[i][0] && (d)[1] == vf_hm_dig[i][1] && \
	(d)[2] == vf_hm_dig[i][2] && (d)[3] == vf_hm_dig[i][3] && (d)[4] == vf_hm_dig[i][4] && \
	(d)[5] == vf_hm_dig[i][5] && (d)[6] == vf_hm_dig[i][6] && (d)[7] == vf_hm_dig[i][7] && \
	(d)[8] == vf_hm_dig[i][8] && (d)[9] == vf_hm_dig[i][9] && (d)[10] == vf_hm_dig[i][10] && \
	(d)[11] == vf_hm_dig[i][11] && (d)[12] == vf_hm_dig[i][12] && (d)[13] == vf_hm_dig[i][13] && \
	(d)[14] == vf_hm_dig[i][14] && (d)[15] == vf_hm_dig[i][15])
#define VF_MD5_DIG_IS(d, i)	((d)[0] == vf_md5_dig[i][0] && (d)[1] == vf_md5_dig[i][1] && \
	(d)[2] == vf_md5_dig[i][2] && (d)[3] == vf_md5_dig[i][3] && (d)[4] == vf_md5_dig[i][4] && \
	(d)[5] == vf_md5_dig[i][5] && (d)[6] == vf_md5_dig[i][6] && (d)[7] == vf_md5_dig[i][7] && \
	(d)[8] == vf_md5_dig[i][8] && (d)[9] == vf_md5_dig[i][9] && (d)[10] == vf_md5_dig[i][10] && \
	(d)[11] == vf_md5_dig[i][11] && (d)[12] == vf_md5_dig[i][12] && (d)[13] == vf_md5_dig[i][13] && \
	(d)[14] == vf_md5_dig[i][14] && (d)[15] == vf_md5_dig[i][15])
#elif !defined(VF_MD5_UF)
#define VF_MD5_GHOST_ASSIGNS	vf_md5_n, __CPROVER_object_whole(vf_md5_len), \
	__CPROVER_object_whole(vf_md5_at), __CPROVER_object_whole(vf_md5_dig)

static inline void
md5_init(md5_ctx_p ctx)
__CPROVER_requires(__CPROVER_w_ok(ctx, sizeof(md5_ctx_t)))
__CPROVER_assigns(__CPROVER_object_upto(ctx, sizeof(md5_ctx_t)))
__CPROVER_ensures(ctx->count == 0)
;
static inline void
md5_update(md5_ctx_p ctx, const uint8_t *data, const size_t data_size)
__CPROVER_requires(__CPROVER_w_ok(ctx, sizeof(md5_ctx_t)))
__CPROVER_requires(data_size == 0 || __CPROVER_r_ok(data, data_size))
__CPROVER_requires(data_size <= 65535 && ctx->count <= (1ull << 32))
__CPROVER_assigns(__CPROVER_object_upto(ctx, sizeof(md5_ctx_t)))
__CPROVER_ensures(ctx->count == __CPROVER_old(ctx->count) + data_size)
__CPROVER_ensures(ctx->hash[0] ==
    ((vf_md5_k >= __CPROVER_old(ctx->count) && vf_md5_k - __CPROVER_old(ctx->count) < data_size) ?
	(uint32_t)data[vf_md5_k - __CPROVER_old(ctx->count)] : __CPROVER_old(ctx->hash[0])))
;
#define VF_MD5_DIG_IS(d, i)	((d)[0] == vf_md5_dig[i][0] && (d)[1] == vf_md5_dig[i][1] && \
	(d)[2] == vf_md5_dig[i][2] && (d)[3] == vf_md5_dig[i][3] && (d)[4] == vf_md5_dig[i][4] && \
	(d)[5] == vf_md5_dig[i][5] && (d)[6] == vf_md5_dig[i][6] && (d)[7] == vf_md5_dig[i][7] && \
	(d)[8] == vf_md5_dig[i][8] && (d)[9] == vf_md5_dig[i][9] && (d)[10] == vf_md5_dig[i][10] && \
	(d)[11] == vf_md5_dig[i][11] && (d)[12] == vf_md5_dig[i][12] && (d)[13] == vf_md5_dig[i][13] && \
	(d)[14] == vf_md5_dig[i][14] && (d)[15] == vf_md5_dig[i][15])
static inline void
md5_final(md5_ctx_p ctx, uint8_t *digest)
__CPROVER_requires(__CPROVER_w_ok(ctx, sizeof(md5_ctx_t)))
__CPROVER_requires(__CPROVER_w_ok(digest, 16))
__CPROVER_requires(vf_md5_n < VF_MD5_TBL)
__CPROVER_assigns(__CPROVER_object_upto(ctx, sizeof(md5_ctx_t)), __CPROVER_object_upto(digest, 16))
__CPROVER_assigns(VF_MD5_GHOST_ASSIGNS)
__CPROVER_ensures(vf_md5_n == __CPROVER_old(vf_md5_n) + 1)
__CPROVER_ensures(vf_md5_len[__CPROVER_old(vf_md5_n)] == __CPROVER_old(ctx->count) &&
    vf_md5_at[__CPROVER_old(vf_md5_n)] == (uint8_t)__CPROVER_old(ctx->hash[0]))
__CPROVER_ensures(VF_MD5_DIG_IS(digest, __CPROVER_old(vf_md5_n)))
/* earlier table entries are history */
#define VF_MD5_ENTRY_KEPT(i)	(__CPROVER_old(vf_md5_n) <= (i) || (vf_md5_len[i] == __CPROVER_old(vf_md5_len[i]) && \
	vf_md5_at[i] == __CPROVER_old(vf_md5_at[i]) && vf_md5_dig[i][0] == __CPROVER_old(vf_md5_dig[i][0]) && \
	vf_md5_dig[i][1] == __CPROVER_old(vf_md5_dig[i][1]) && vf_md5_dig[i][2] == __CPROVER_old(vf_md5_dig[i][2]) && \
	vf_md5_dig[i][3] == __CPROVER_old(vf_md5_dig[i][3]) && vf_md5_dig[i][4] == __CPROVER_old(vf_md5_dig[i][4]) && \
	vf_md5_dig[i][5] == __CPROVER_old(vf_md5_dig[i][5]) && vf_md5_dig[i][6] == __CPROVER_old(vf_md5_dig[i][6]) && \
	vf_md5_dig[i][7] == __CPROVER_old(vf_md5_dig[i][7]) && vf_md5_dig[i][8] == __CPROVER_old(vf_md5_dig[i][8]) && \
	vf_md5_dig[i][9] == __CPROVER_old(vf_md5_dig[i][9]) && vf_md5_dig[i][10] == __CPROVER_old(vf_md5_dig[i][10]) && \
	vf_md5_dig[i][11] == __CPROVER_old(vf_md5_dig[i][11]) && vf_md5_dig[i][12] == __CPROVER_old(vf_md5_dig[i][12]) && \
	vf_md5_dig[i][13] == __CPROVER_old(vf_md5_dig[i][13]) && vf_md5_dig[i][14] == __CPROVER_old(vf_md5_dig[i][14]) && \
	vf_md5_dig[i][15] == __CPROVER_old(vf_md5_dig[i][15])))
__CPROVER_ensures(VF_MD5_ENTRY_KEPT(0) && VF_MD5_ENTRY_KEPT(1) && VF_MD5_ENTRY_KEPT(2) && VF_MD5_ENTRY_KEPT(3) &&
    VF_MD5_ENTRY_KEPT(4) && VF_MD5_ENTRY_KEPT(5) && VF_MD5_ENTRY_KEPT(6) && VF_MD5_ENTRY_KEPT(7) && VF_MD5_ENTRY_KEPT(8))
/* (entries 0..8 are all the --dfcc jobs use: <= 8 password blocks, 1 authenticator) */
;
/* HMAC-MD5, same idea one level up: hmac_md5_init records the key, hmac_md5_update appends to the
 * message stream kept in hctx->ctx, hmac_md5_final records (key, message length, message byte at
 * vf_md5_k, digest) as entry vf_hm_n of the ghost HMAC table.  hmac_md5_* == RFC 2104 over
 * md5_*: property C07. */
#define VF_HM_TBL	2
extern const uint8_t *vf_hm_key[VF_HM_TBL + 1];
extern size_t	vf_hm_key_len[VF_HM_TBL + 1];
extern size_t	vf_hm_n;
extern size_t	vf_hm_len[VF_HM_TBL];
extern uint8_t	vf_hm_at[VF_HM_TBL];
extern uint8_t	vf_hm_dig[VF_HM_TBL][16];
#define VF_HM_GHOST_ASSIGNS	vf_hm_n, __CPROVER_object_whole(vf_hm_key), __CPROVER_object_whole(vf_hm_key_len), \
	__CPROVER_object_whole(vf_hm_len), __CPROVER_object_whole(vf_hm_at), __CPROVER_object_whole(vf_hm_dig)
static inline void
hmac_md5_init(const uint8_t *key, const size_t key_len, hmac_md5_ctx_p hctx)
__CPROVER_requires(__CPROVER_w_ok(hctx, sizeof(hmac_md5_ctx_t)))
__CPROVER_requires(key_len == 0 || __CPROVER_r_ok(key, key_len))
__CPROVER_requires(vf_hm_n < VF_HM_TBL)
__CPROVER_assigns(__CPROVER_object_upto(hctx, sizeof(hmac_md5_ctx_t)))
__CPROVER_assigns(vf_hm_key[vf_hm_n], vf_hm_key_len[vf_hm_n])
__CPROVER_ensures(hctx->ctx.count == 0 && vf_hm_key[vf_hm_n] == key && vf_hm_key_len[vf_hm_n] == key_len)
;
static inline void
hmac_md5_update(hmac_md5_ctx_p hctx, const uint8_t *data, const size_t data_size)
__CPROVER_requires(__CPROVER_w_ok(hctx, sizeof(hmac_md5_ctx_t)))
__CPROVER_requires(data_size == 0 || __CPROVER_r_ok(data, data_size))
__CPROVER_requires(data_size <= 65535 && hctx->ctx.count <= (1ull << 32))
__CPROVER_assigns(__CPROVER_object_upto(hctx, sizeof(hmac_md5_ctx_t)))
__CPROVER_ensures(hctx->ctx.count == __CPROVER_old(hctx->ctx.count) + data_size)
__CPROVER_ensures(hctx->ctx.hash[0] ==
    ((vf_md5_k >= __CPROVER_old(hctx->ctx.count) && vf_md5_k - __CPROVER_old(hctx->ctx.count) < data_size) ?
	(uint32_t)data[vf_md5_k - __CPROVER_old(hctx->ctx.count)] : __CPROVER_old(hctx->ctx.hash[0])))
;
#define VF_HM_DIG_IS(d, i)	((d)[0] == vf_hm_dig[i][0] && (d)[1] == vf_hm_dig[i][1] && \
	(d)[2] == vf_hm_dig[i][2] && (d)[3] == vf_hm_dig[i][3] && (d)[4] == vf_hm_dig[i][4] && \
	(d)[5] == vf_hm_dig[i][5] && (d)[6] == vf_hm_dig[i][6] && (d)[7] == vf_hm_dig[i][7] && \
	(d)[8] == vf_hm_dig[i][8] && (d)[9] == vf_hm_dig[i][9] && (d)[10] == vf_hm_dig[i][10] && \
	(d)[11] == vf_hm_dig[i][11] && (d)[12] == vf_hm_dig[i][12] && (d)[13] == vf_hm_dig[i][13] && \
	(d)[14] == vf_hm_dig[i][14] && (d)[15] == vf_hm_dig[i][15])
static inline void
hmac_md5_final(hmac_md5_ctx_p hctx, uint8_t *digest)
__CPROVER_requires(__CPROVER_w_ok(hctx, sizeof(hmac_md5_ctx_t)))
__CPROVER_requires(__CPROVER_w_ok(digest, 16))
__CPROVER_requires(vf_hm_n < VF_HM_TBL)
__CPROVER_assigns(__CPROVER_object_upto(hctx, sizeof(hmac_md5_ctx_t)), __CPROVER_object_upto(digest, 16))
__CPROVER_assigns(vf_hm_n, __CPROVER_object_whole(vf_hm_len), __CPROVER_object_whole(vf_hm_at), __CPROVER_object_whole(vf_hm_dig))
__CPROVER_ensures(vf_hm_n == __CPROVER_old(vf_hm_n) + 1)
__CPROVER_ensures(vf_hm_len[__CPROVER_old(vf_hm_n)] == __CPROVER_old(hctx->ctx.count) &&
    vf_hm_at[__CPROVER_old(vf_hm_n)] == (uint8_t)__CPROVER_old(hctx->ctx.hash[0]))
__CPROVER_ensures(VF_HM_DIG_IS(digest, __CPROVER_old(vf_hm_n)))
;
#else /* VF_MD5_UF: MD5 := an arbitrary fixed function of the byte stream */
uint64_t __CPROVER_uninterpreted_vf_md5_step(uint64_t, uint64_t, uint8_t);
uint64_t __CPROVER_uninterpreted_vf_md5_fin(uint64_t, uint64_t, uint8_t);
#define md5_init	vf_uf_md5_init
#define md5_update	vf_uf_md5_update
#define md5_final	vf_uf_md5_final
static inline void
vf_uf_md5_init(md5_ctx_p ctx) {
	ctx->hash[0] = 0; ctx->hash[1] = 0; ctx->hash[2] = 0; ctx->hash[3] = 0;
	ctx->count = 0;
	ctx->buffer[0] = 0x6a09e667f3bcc908ull;	/* 64-bit folding state */
}
static inline void
vf_uf_md5_update(md5_ctx_p ctx, const uint8_t *data, const size_t data_size) {
	size_t i;
	for (i = 0; i < data_size; i ++) {
		ctx->buffer[0] = __CPROVER_uninterpreted_vf_md5_step(ctx->buffer[0], ctx->count, data[i]);
		ctx->count ++;
	}
}
static inline void
vf_uf_md5_final(md5_ctx_p ctx, uint8_t *digest) {
	uint8_t i;
	for (i = 0; i < 16; i ++)
		digest[i] = (uint8_t)__CPROVER_uninterpreted_vf_md5_fin(ctx->buffer[0], ctx->count, i);
	ctx->buffer[0] = 0; ctx->count = 0;
}
#endif /* VF_MD5_UF */
#endif /* !VF_REPLAY */
#endif
