/*
 * Build configuration of the C02 / C03 / C09 proofs: the one compiled by tests/ecdsa/main.c
 * (64-bit digits, 1408-bit numbers, compiler 128-bit multiply/divide, Jacobian coordinates with
 * mixed addition and repeated doubling, COMB_2T w=9 fixed-point, COMB_1T w=2 unknown-point,
 * interleaved twin multiplication, public-key check disabled).  Overrides per job:
 *   -DVF_EC_PUB_KEY_CHK          compile WITHOUT EC_DISABLE_PUB_KEY_CHK (validation enabled)
 *   -DVF_EC_AFFINE               affine coordinates (no EC_USE_PROJECTIVE)
 *   -DVF_EC_NO_ADD_MIX / -DVF_EC_NO_REPEAT_DOUBLE
 *   -DEC_PF_FXP_MULT_ALGO=... -DEC_PF_FXP_MULT_WIN_BITS=... -DEC_PF_UNKPT_MULT_ALGO=... etc.
 */
#ifndef VF_STUBS_EC_CONFIG_H
#define VF_STUBS_EC_CONFIG_H

#include <sys/param.h>
#include <sys/types.h>
#include <inttypes.h>
#include <stdlib.h>
#include <stdio.h>
#include <string.h>
#include <errno.h>

#ifndef BN_DIGIT_BIT_CNT
#define BN_DIGIT_BIT_CNT	64
#endif
#ifndef BN_BIT_LEN
#define BN_BIT_LEN		1408
#endif
#define BN_CC_MULL_DIV		1
#define BN_NO_POINTERS_CHK	1
#define BN_MOD_REDUCE_ALGO	BN_MOD_REDUCE_ALGO_BASIC
#ifndef VF_EC_AFFINE
#define EC_USE_PROJECTIVE	1
#endif
#ifndef VF_EC_NO_REPEAT_DOUBLE
#define EC_PROJ_REPEAT_DOUBLE	1
#endif
#ifndef VF_EC_NO_ADD_MIX
#define EC_PROJ_ADD_MIX		1
#endif
#ifndef EC_PF_FXP_MULT_ALGO
#define EC_PF_FXP_MULT_ALGO	EC_PF_FXP_MULT_ALGO_COMB_2T
#endif
#ifndef EC_PF_FXP_MULT_WIN_BITS
#define EC_PF_FXP_MULT_WIN_BITS	9
#endif
#ifndef EC_PF_UNKPT_MULT_ALGO
#define EC_PF_UNKPT_MULT_ALGO	EC_PF_UNKPT_MULT_ALGO_COMB_1T
#endif
#ifndef EC_PF_UNKPT_MULT_WIN_BITS
#define EC_PF_UNKPT_MULT_WIN_BITS 2
#endif
#ifndef EC_PF_TWIN_MULT_ALGO
#define EC_PF_TWIN_MULT_ALGO	EC_PF_TWIN_MULT_ALGO_INTER
#endif
#ifndef VF_EC_PUB_KEY_CHK
#define EC_DISABLE_PUB_KEY_CHK	1
#endif

#endif /* VF_STUBS_EC_CONFIG_H */
