/*
 * Ghost state shared by the hash / HMAC contracts (C04, C07).  DESIGN.md section 4:
 * "ghost index instead of forall" and "ghost log".
 *
 * Every sequence the contracts talk about (the blocks fed to a compression function,
 * the bytes absorbed by an abstract hash, a digest) is observed at ONE position, the
 * ghost index, which the harness leaves completely unconstrained and which no contract
 * lists in an assigns clause.  A statement proved about "the byte at position vf_*_k"
 * for an arbitrary vf_*_k is the statement for every position; no quantifier, no array.
 *
 *   block log   (C04 U/F; written only by the *_transform "LOG" contracts)
 *     vf_blk_k     ghost index into the concatenation of all blocks fed so far
 *     vf_blk_len   number of bytes fed so far (always a multiple of the block size)
 *     vf_blk_at    byte number vf_blk_k of that concatenation (meaningful if vf_blk_k < vf_blk_len)
 *     vf_blk_h[]   the (nondeterministic) chaining value the last call left in ctx->hash
 *
 *   byte stream (C07 and the one-shot entry points; written only by the *_init/_update/
 *   _final "STREAM" contracts)
 *     vf_s_k       ghost index into the byte stream of the hash computation in progress
 *     vf_s_len     bytes absorbed by the computation in progress
 *     vf_s_at      byte number vf_s_k of it
 *     vf_s_open    1 between *_init and *_final
 *     vf_s_ctx     the context the computation in progress lives in
 *     vf_s_bits    digest size in bytes selected by *_init (SHA-2, GOST)
 *   digest table: one entry per *_final call, in call order
 *     vf_d_n       number of finished computations
 *     vf_d_len[i]  length of the input of computation i
 *     vf_d_at[i]   byte number vf_s_k of the input of computation i
 *     vf_d_k       ghost index into a digest
 *     vf_d_dig[i]  byte number vf_d_k of the (nondeterministic) digest of computation i
 *   vf_c_k         ghost index into a context that must be all-zero
 *   vf_t_k         ghost index into the partial-block buffer of a context (contract U)
 */
#ifndef VF_STUBS_HASH_GHOST_H
#define VF_STUBS_HASH_GHOST_H
#include <stddef.h>
#include <stdint.h>

#define VF_D_MAX 4	/* HMAC needs at most 3 finished computations (key hash, inner, outer) */

size_t		vf_blk_k;
size_t		vf_blk_len;
uint8_t		vf_blk_at;
uint64_t	vf_blk_h[8];
/* GOST R 34.11-2012: N and Sigma after the last g_N call, operand/kind of each call */
uint64_t	vf_blk_N[8];
uint64_t	vf_blk_S[8];
size_t		vf_blk_bits;	/* bit length passed with the last g_N call */
size_t		vf_blk_lenfull;	/* bytes fed by g_N calls that declared full 512-bit blocks */
size_t		vf_g0_n;	/* number of g_0 calls (gost3411_2012_transform_1) so far */
const void	*vf_g0_ptr[4];	/* their operands */

size_t		vf_s_k;
size_t		vf_s_len;
uint8_t		vf_s_at;
int		vf_s_open;
const void	*vf_s_ctx;
size_t		vf_s_bits;

size_t		vf_d_n;
size_t		vf_d_len[VF_D_MAX];
uint8_t		vf_d_at[VF_D_MAX];
size_t		vf_d_size[VF_D_MAX];
size_t		vf_d_k;
uint8_t		vf_d_dig[VF_D_MAX];

size_t		vf_c_k;
/* ghost index into the partial-block buffer ("tail") of a context */
size_t		vf_t_k;

/* the byte at ghost position k of  (a[0..na) || b[0..))  */
#define VF_CAT2(k, a, na, b)	(((k) < (na)) ? (a)[(k)] : (b)[(k) - (na)])
/* byte i (0 = least significant) of a 64-bit value */
#define VF_BYTE_LE(v, i)	((uint8_t)(((uint64_t)(v)) >> (8 * (i))))

#endif
