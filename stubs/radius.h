/*
 * Assumed contracts of the libc functions called by the C13 part of include/proto/radius.h
 * (for `--replace-call-with-contract`): requires ASSERTED at the call sites, ensures ASSUMED.
 *   strnlen  - reads at most n bytes of s, result <= n
 *   memcpy   - the contract of stubs/dns.h (spans asserted, destination object havocked)
 */
#ifndef VF_STUBS_RADIUS_H
#define VF_STUBS_RADIUS_H
#include "stubs/dns.h"
#ifndef VF_REPLAY
#include <string.h>

size_t strnlen(const char *s, size_t n)
__CPROVER_requires(n == 0 || __CPROVER_r_ok(s, n))
__CPROVER_assigns()
__CPROVER_ensures(__CPROVER_return_value <= n)
;
#endif
#endif
