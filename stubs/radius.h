/*
 * Assumed contracts of the libc functions called by the C13 part of include/proto/radius.h
 * (for `--replace-call-with-contract`): requires ASSERTED at the call sites, ensures ASSUMED.
 *   strnlen  - reads at most n bytes of s, result <= n
 *   memcpy   - the contract of stubs/dns.h (spans asserted, destination object havocked)
 */
#ifndef VF_STUBS_RADIUS_H
#define VF_STUBS_RADIUS_H
#if !defined(VF_RAD_BUILD_STUBS) && !defined(VF_RAD_LIBC_LOOP)
#include "stubs/dns.h"
#endif
#if defined(VF_RAD_LIBC_LOOP) && !defined(VF_REPLAY)
/* defining byte loops of memcpy / memset (MD5-chain jobs: the context save/restore copies and
 * the <= 128-byte password copies must be byte-exact; unwound with --unwindset) */
#include <string.h>
#include <stdint.h>
void *memcpy(void *dst, const void *src, size_t n) {
	size_t i;
	__CPROVER_precondition(n == 0 || (__CPROVER_w_ok(dst, n) && __CPROVER_r_ok(src, n)), "memcpy: both spans inside their objects");
	for (i = 0; i < n; i ++)
		((uint8_t *)dst)[i] = ((const uint8_t *)src)[i];
	return (dst);
}
void *memset(void *dst, int c, size_t n) {
	size_t i;
	__CPROVER_precondition(n == 0 || __CPROVER_w_ok(dst, n), "memset: span inside its object");
	for (i = 0; i < n; i ++)
		((uint8_t *)dst)[i] = (uint8_t)c;
	return (dst);
}
size_t strnlen(const char *s, size_t n) {
	size_t i;
	__CPROVER_precondition(n == 0 || __CPROVER_r_ok(s, n), "strnlen: span inside its object");
	for (i = 0; i < n; i ++) {
		if (s[i] == 0)
			break;
	}
	return (i);
}
#endif
#ifndef VF_REPLAY
#ifdef VF_RAD_BUILD_STUBS
/* construction side (C15): memcpy / memset with exact frame and content observed at the ghost
 * indices of contracts/radius.h part 2 (vf_rad_k: copied bytes, vf_rad_z: zero padding) */
#include <string.h>
#include <stdint.h>
extern size_t vf_rad_k, vf_rad_z;
void *memcpy(void *dst, const void *src, size_t n)
__CPROVER_requires(n == 0 || (__CPROVER_w_ok(dst, n) && __CPROVER_r_ok(src, n) &&
    !__CPROVER_same_object(dst, src)))
__CPROVER_assigns(n != 0: __CPROVER_object_upto(dst, n))
__CPROVER_ensures(__CPROVER_return_value == dst)
__CPROVER_ensures(vf_rad_k < n ==> ((const uint8_t *)dst)[vf_rad_k] == ((const uint8_t *)src)[vf_rad_k])
;
/* memset as a body (a contract on memset trips a goto-instrument linking invariant in 6.11):
 * exactly dst[0..n) is havocked, then constrained at the ghost index */
void *memset(void *dst, int c, size_t n) {
	__CPROVER_precondition(n == 0 || __CPROVER_w_ok(dst, n), "memset: span inside its object");
	if (n != 0) {
		__CPROVER_havoc_slice(dst, n);
		__CPROVER_assume(vf_rad_z >= n || ((const uint8_t *)dst)[vf_rad_z] == (uint8_t)c);
	}
	return (dst);
}
#endif
#include <string.h>

#ifndef VF_RAD_LIBC_LOOP
size_t strnlen(const char *s, size_t n)
__CPROVER_requires(n == 0 || __CPROVER_r_ok(s, n))
__CPROVER_assigns()
__CPROVER_ensures(__CPROVER_return_value <= n)
;
#endif
#endif
#endif
