/*
 * Byte-loop bodies for memcpy / memset, used by the C08 stream harnesses INSTEAD of CBMC's
 * builtin models.
 *
 * Why: cbmc 6.11's builtin memcpy (__CPROVER_array_copy / array_replace on a
 * variable-length temporary) is wrong for a SYMBOLIC length when the destination is a
 * uint32_t array written through a uint8_t pointer (chacha_str_data_crypt copies the tail
 * of the data into ctx->ks that way): `memcpy((uint8_t *)u32array, src, n)` with
 * 1 <= n <= 5 symbolic does not even establish dst[0] == src[0] (reproducer in
 * obligations/C08.json "assumptions").  A user-supplied body takes precedence over the
 * builtin one.  These bodies ARE the C standard's specification of the two functions for
 * non-overlapping operands (7.24.2.1, 7.24.6.1); they are an assumption about libc, listed
 * in the evidence.  Loops are unwound up to the harness's stated byte bound.
 *
 * Include before any other header in the harness (CBMC side only).
 */
#ifndef VF_STUBS_CIPHER_LIBC_H
#define VF_STUBS_CIPHER_LIBC_H
#ifndef VF_REPLAY
#include <stddef.h>
#include <string.h>

void *
memcpy(void *dst, const void *src, size_t n) {
	size_t vf_i;
	for (vf_i = 0; vf_i < n; vf_i ++)
		((unsigned char *)dst)[vf_i] = ((const unsigned char *)src)[vf_i];
	return (dst);
}

void *
memset(void *dst, int c, size_t n) {
	size_t vf_i;
	for (vf_i = 0; vf_i < n; vf_i ++)
		((unsigned char *)dst)[vf_i] = (unsigned char)c;
	return (dst);
}
#endif
#endif
