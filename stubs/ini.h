/*
 * Allocator stubs for the proofs about src/utils/ini.c (CBMC side only; listed in the
 * evidence `assumptions`).  Include after "src/utils/ini.c" and "specs/ini_spec.h".
 *
 * Why.  CBMC 6.11 models a heap object of symbolic size as an unbounded byte array and
 * every struct access to it as a byte operation on that array.  ini_line_alloc__int() asks
 * for sizeof(ini_line_t) + <line length> + 16 bytes, so with the built-in calloc the parser
 * ran out of 16 GB on 4 bytes of text (dfcc and plain); a case split over constant sizes
 * made symbolic execution itself take > 10 min (dozens of candidate objects per access).
 *
 * Model.  calloc / realloc / reallocarray
 *  - may fail at every call (NULL, errno = ENOMEM): the out-of-memory paths of
 *    ini_buf_parse / ini_val_set are part of the proofs;
 *  - serve a request of at most VF_INI_RECSZ bytes (a line record of <= VF_INI_CAP data
 *    bytes) by a heap object of the CONSTANT size VF_INI_RECSZ and record the REQUESTED
 *    size in the ghost table vf_ini_req[object]; the representation invariant
 *    (specs/ini_spec.h) bounds data_size / data_allocated_size by the requested capacity.
 *    Consequence, stated as assumption: an access beyond the requested size but inside
 *    VF_INI_RECSZ is caught through the invariant / content postconditions, not by a
 *    pointer check.  The 64-entry line-pointer table is served exactly; any other size
 *    fails an assertion of the stub (the harness bounds never reach it);
 *  - realloc may return the SAME address when the new size fits into the object (a real
 *    allocator with slack does that), otherwise a new object with the old content.
 */
#ifndef VF_STUBS_INI_H
#define VF_STUBS_INI_H
#ifndef VF_REPLAY
#include <stdlib.h>
#include <string.h>
#include <errno.h>


/*
 * memcpy, size-specialised.  CBMC's built-in model copies through a variable-length
 * temporary (array theory; measured: one copy of symbolic length into a 98-byte record
 * exhausts 16 GB together with the rest of ini_buf_parse).  The lengths that occur in the
 * bounded harnesses (0..VF_MEMCPY_MAX, a job parameter) are served by a fixed-size block assignment, which
 * is exactly memcpy for non-overlapping regions; the accesses are pointer-checked like any
 * other assignment.  A longer copy fails the stub's assertion.
 */
#ifndef VF_MEMCPY_MAX
#define VF_MEMCPY_MAX	20	/* <= 40; jobs set it to the longest copy their bounds allow */
#endif
#define VF_MEMCPY_CASE(k)							\
	case (k): {								\
		struct vf_blk##k { unsigned char b[(k)]; };			\
		*(struct vf_blk##k *)dst = *(const struct vf_blk##k *)src;	\
		break;								\
	}
void *
memcpy(void *dst, const void *src, size_t n) {

	switch (n) {
	case 0:
		break;
#if VF_MEMCPY_MAX >= 1
	VF_MEMCPY_CASE(1)
#endif
#if VF_MEMCPY_MAX >= 2
	VF_MEMCPY_CASE(2)
#endif
#if VF_MEMCPY_MAX >= 3
	VF_MEMCPY_CASE(3)
#endif
#if VF_MEMCPY_MAX >= 4
	VF_MEMCPY_CASE(4)
#endif
#if VF_MEMCPY_MAX >= 5
	VF_MEMCPY_CASE(5)
#endif
#if VF_MEMCPY_MAX >= 6
	VF_MEMCPY_CASE(6)
#endif
#if VF_MEMCPY_MAX >= 7
	VF_MEMCPY_CASE(7)
#endif
#if VF_MEMCPY_MAX >= 8
	VF_MEMCPY_CASE(8)
#endif
#if VF_MEMCPY_MAX >= 9
	VF_MEMCPY_CASE(9)
#endif
#if VF_MEMCPY_MAX >= 10
	VF_MEMCPY_CASE(10)
#endif
#if VF_MEMCPY_MAX >= 11
	VF_MEMCPY_CASE(11)
#endif
#if VF_MEMCPY_MAX >= 12
	VF_MEMCPY_CASE(12)
#endif
#if VF_MEMCPY_MAX >= 13
	VF_MEMCPY_CASE(13)
#endif
#if VF_MEMCPY_MAX >= 14
	VF_MEMCPY_CASE(14)
#endif
#if VF_MEMCPY_MAX >= 15
	VF_MEMCPY_CASE(15)
#endif
#if VF_MEMCPY_MAX >= 16
	VF_MEMCPY_CASE(16)
#endif
#if VF_MEMCPY_MAX >= 17
	VF_MEMCPY_CASE(17)
#endif
#if VF_MEMCPY_MAX >= 18
	VF_MEMCPY_CASE(18)
#endif
#if VF_MEMCPY_MAX >= 19
	VF_MEMCPY_CASE(19)
#endif
#if VF_MEMCPY_MAX >= 20
	VF_MEMCPY_CASE(20)
#endif
#if VF_MEMCPY_MAX >= 21
	VF_MEMCPY_CASE(21)
#endif
#if VF_MEMCPY_MAX >= 22
	VF_MEMCPY_CASE(22)
#endif
#if VF_MEMCPY_MAX >= 23
	VF_MEMCPY_CASE(23)
#endif
#if VF_MEMCPY_MAX >= 24
	VF_MEMCPY_CASE(24)
#endif
#if VF_MEMCPY_MAX >= 25
	VF_MEMCPY_CASE(25)
#endif
#if VF_MEMCPY_MAX >= 26
	VF_MEMCPY_CASE(26)
#endif
#if VF_MEMCPY_MAX >= 27
	VF_MEMCPY_CASE(27)
#endif
#if VF_MEMCPY_MAX >= 28
	VF_MEMCPY_CASE(28)
#endif
#if VF_MEMCPY_MAX >= 29
	VF_MEMCPY_CASE(29)
#endif
#if VF_MEMCPY_MAX >= 30
	VF_MEMCPY_CASE(30)
#endif
#if VF_MEMCPY_MAX >= 31
	VF_MEMCPY_CASE(31)
#endif
#if VF_MEMCPY_MAX >= 32
	VF_MEMCPY_CASE(32)
#endif
#if VF_MEMCPY_MAX >= 33
	VF_MEMCPY_CASE(33)
#endif
#if VF_MEMCPY_MAX >= 34
	VF_MEMCPY_CASE(34)
#endif
#if VF_MEMCPY_MAX >= 35
	VF_MEMCPY_CASE(35)
#endif
#if VF_MEMCPY_MAX >= 36
	VF_MEMCPY_CASE(36)
#endif
#if VF_MEMCPY_MAX >= 37
	VF_MEMCPY_CASE(37)
#endif
#if VF_MEMCPY_MAX >= 38
	VF_MEMCPY_CASE(38)
#endif
#if VF_MEMCPY_MAX >= 39
	VF_MEMCPY_CASE(39)
#endif
#if VF_MEMCPY_MAX >= 40
	VF_MEMCPY_CASE(40)
#endif
	default:
		__CPROVER_assert(0, "memcpy stub: length within the modelled range 0..VF_MEMCPY_MAX");
		__CPROVER_assume(0);
	}
	return (dst);
}

/*
 * memmove, size-specialised like memcpy: ini_val_set shifts the tail of the line-pointer
 * table by one entry (a multiple of sizeof(pointer), at most VF_INI_MAXL_AFTER entries);
 * the block is copied through a temporary, which is memmove's overlap semantics.
 */
#define VF_MEMMOVE_CASE(k)							\
	case ((k) * sizeof(void *)): {						\
		struct vf_mv##k { void *p[(k)]; } tmp_;				\
		tmp_ = *(const struct vf_mv##k *)src;				\
		*(struct vf_mv##k *)dst = tmp_;					\
		break;								\
	}
void *
memmove(void *dst, const void *src, size_t n) {

	switch (n) {
	case 0:
		break;
	VF_MEMMOVE_CASE(1) VF_MEMMOVE_CASE(2) VF_MEMMOVE_CASE(3)
	VF_MEMMOVE_CASE(4) VF_MEMMOVE_CASE(5) VF_MEMMOVE_CASE(6)
	default:
		__CPROVER_assert(0, "memmove stub: a whole number of <= 6 table entries");
		__CPROVER_assume(0);
	}
	return (dst);
}

/*
 * memchr / memrchr: CBMC 6.11 ships no model ("no body for callee memchr": the result would
 * be an arbitrary pointer).  Reference semantics: first / last occurrence inside [s, s+n).
 */
void *
memchr(const void *s, int c, size_t n) {
	size_t i;

	for (i = 0; i < n; i ++) {
		if (((const unsigned char *)s)[i] == (unsigned char)c)
			return ((void *)(((const unsigned char *)s) + i));
	}
	return (NULL);
}

void *
memrchr(const void *s, int c, size_t n) {
	size_t i;

	for (i = n; i > 0; i --) {
		if (((const unsigned char *)s)[i - 1] == (unsigned char)c)
			return ((void *)(((const unsigned char *)s) + (i - 1)));
	}
	return (NULL);
}

/* errno as CBMC's library models it (errno == *__errno_location() == __CPROVER_errno);
 * written directly so that contracts can name it in their assigns clauses */
extern __CPROVER_thread_local int __CPROVER_errno;
#define VF_SET_ENOMEM()	(__CPROVER_errno = ENOMEM)

_Bool nondet_vf_alloc_fails(void);
_Bool nondet_vf_realloc_in_place(void);

#define VF_INI_TABLE	(INI_LINES_PREALLOC * sizeof(ini_line_p))

static inline void *
vf_ini_alloc(size_t total, int zero) {
	void *p;

	if (total <= VF_INI_RECSZ) { /* line record */
		p = malloc(VF_INI_RECSZ);
		__CPROVER_assume(p != NULL);
		if (zero)
			memset(p, 0, VF_INI_RECSZ);
		VF_INI_REQ_SET(p, total);
		return (p);
	}
	if (total == VF_INI_TABLE) { /* line-pointer table */
		p = malloc(VF_INI_TABLE);
		__CPROVER_assume(p != NULL);
		if (zero)
			memset(p, 0, VF_INI_TABLE);
		VF_INI_REQ_SET(p, total);
		return (p);
	}
	/* any other size is outside the model: reported, never silently accepted */
	__CPROVER_assert(0, "allocator stub: requested size is a line record or the 64-entry table");
	__CPROVER_assume(0);
	return (NULL);
}

void *
calloc(size_t nmemb, size_t size) {

	if (size != 0 && nmemb > ((size_t)-1) / size) {
		VF_SET_ENOMEM();
		return (NULL);
	}
	if (nondet_vf_alloc_fails()) {
		VF_SET_ENOMEM();
		return (NULL);
	}
	return (vf_ini_alloc(nmemb * size, 1));
}

void *
realloc(void *ptr, size_t size) {
	void *p;
	size_t old;

	if (ptr == NULL) {
		if (nondet_vf_alloc_fails()) {
			VF_SET_ENOMEM();
			return (NULL);
		}
		return (vf_ini_alloc(size, 0));
	}
	__CPROVER_assert(__CPROVER_POINTER_OFFSET(ptr) == 0 && __CPROVER_r_ok(ptr, 0),
	    "realloc: argument is a live heap object");
	old = VF_INI_REQ(ptr);
	if (size != 0 && size <= __CPROVER_OBJECT_SIZE(ptr) && nondet_vf_realloc_in_place()) {
		VF_INI_REQ_SET(ptr, size); /* the allocator had room: same address */
		return (ptr);
	}
	if (size == 0) {
		free(ptr);
		return (NULL);
	}
	if (nondet_vf_alloc_fails()) { /* failure leaves the old object untouched */
		VF_SET_ENOMEM();
		return (NULL);
	}
	p = vf_ini_alloc(size, 0);
	/* old content: every object of the model has one of three constant sizes; copying the
	 * whole smaller object is a superset of the min(old, new) bytes realloc preserves */
#define VF_COPY_BLK(n)								\
	do {									\
		struct vf_cb { unsigned char b[(n)]; };				\
		*(struct vf_cb *)p = *(const struct vf_cb *)ptr;		\
	} while (0)
	if (__CPROVER_OBJECT_SIZE(ptr) == VF_INI_RECSZ && __CPROVER_OBJECT_SIZE(p) == VF_INI_RECSZ)
		VF_COPY_BLK(VF_INI_RECSZ);
	else if (__CPROVER_OBJECT_SIZE(ptr) == VF_INI_SMALLTABLE && __CPROVER_OBJECT_SIZE(p) == VF_INI_TABLE)
		VF_COPY_BLK(VF_INI_SMALLTABLE);
	else if (__CPROVER_OBJECT_SIZE(ptr) == VF_INI_TABLE && __CPROVER_OBJECT_SIZE(p) == VF_INI_TABLE)
		VF_COPY_BLK(VF_INI_TABLE);
	else {
		__CPROVER_assert(0, "realloc stub: object sizes of the model");
		__CPROVER_assume(0);
	}
	(void)old;
	free(ptr);
	return (p);
}

/* reallocarray(3): realloc(ptr, nmemb * size), ENOMEM instead of overflowing */
void *
reallocarray(void *ptr, size_t nmemb, size_t size) {

	if (size != 0 && nmemb > ((size_t)-1) / size) {
		VF_SET_ENOMEM();
		return (NULL);
	}
	return (realloc(ptr, nmemb * size));
}
#endif
#endif
