/*
 * Allocator stubs for the proofs about src/utils/ini.c (CBMC side only; listed in the
 * evidence `assumptions`).  Include after "src/utils/ini.c" and "specs/ini_spec.h".
 *
 * calloc / realloc / reallocarray are given bodies that
 *  - may fail (return NULL, errno = ENOMEM) at every call: the out-of-memory paths of
 *    ini_buf_parse / ini_val_set are part of the proofs;
 *  - are SIZE-SPECIALISED: a request of a size that occurs in the bounded harnesses
 *    (a line record of 0..VF_INI_SPLIT data bytes, the line-pointer table of 64 entries)
 *    is served by malloc(<constant>), so the new object has an exact, constant size.
 *    CBMC 6.11 treats a heap object of symbolic size as an unbounded byte array and every
 *    struct access to it as a byte operation: ini_buf_parse on 4 bytes of text ran out of
 *    16 GB that way; with the case split the same proof takes seconds.  Other sizes fall
 *    through to the generic symbolic-size allocation, so nothing is assumed about sizes;
 *  - realloc may return the SAME address when the new size fits into the old object
 *    (as a real allocator with slack does), otherwise a new object with the old content.
 */
#ifndef VF_STUBS_INI_H
#define VF_STUBS_INI_H
#ifndef VF_REPLAY
#include <stdlib.h>
#include <string.h>
#include <errno.h>

_Bool nondet_vf_alloc_fails(void);
_Bool nondet_vf_realloc_in_place(void);

#ifndef VF_INI_SPLIT
#define VF_INI_SPLIT	8	/* data bytes of a line record served by constant-size objects */
#endif
#define VF_INI_REC(n)	(sizeof(ini_line_t) + (n) + INI_LINE_ALLOC_PADDING)
#define VF_INI_TABLE	(INI_LINES_PREALLOC * sizeof(ini_line_p))

/* one case: constant-size object, zero-filled with a constant-size memset if asked */
#define VF_ALLOC_CASE(total, k, zero)						\
	if ((total) == (k)) {							\
		void *q_ = malloc((k));						\
		__CPROVER_assume(q_ != NULL);					\
		if (zero)							\
			memset(q_, 0, (k));					\
		return (q_);							\
	}
static inline void *
vf_ini_alloc_split(size_t total, int zero) {
	void *p;

	VF_ALLOC_CASE(total, VF_INI_TABLE, zero);
#if VF_INI_SPLIT >= 0
	VF_ALLOC_CASE(total, VF_INI_REC(0), zero);
#endif
#if VF_INI_SPLIT >= 1
	VF_ALLOC_CASE(total, VF_INI_REC(1), zero);
#endif
#if VF_INI_SPLIT >= 2
	VF_ALLOC_CASE(total, VF_INI_REC(2), zero);
#endif
#if VF_INI_SPLIT >= 3
	VF_ALLOC_CASE(total, VF_INI_REC(3), zero);
#endif
#if VF_INI_SPLIT >= 4
	VF_ALLOC_CASE(total, VF_INI_REC(4), zero);
#endif
#if VF_INI_SPLIT >= 5
	VF_ALLOC_CASE(total, VF_INI_REC(5), zero);
#endif
#if VF_INI_SPLIT >= 6
	VF_ALLOC_CASE(total, VF_INI_REC(6), zero);
#endif
#if VF_INI_SPLIT >= 7
	VF_ALLOC_CASE(total, VF_INI_REC(7), zero);
#endif
#if VF_INI_SPLIT >= 8
	VF_ALLOC_CASE(total, VF_INI_REC(8), zero);
#endif
#if VF_INI_SPLIT >= 9
	VF_ALLOC_CASE(total, VF_INI_REC(9), zero);
#endif
#if VF_INI_SPLIT >= 10
	VF_ALLOC_CASE(total, VF_INI_REC(10), zero);
#endif
#if VF_INI_SPLIT >= 11
	VF_ALLOC_CASE(total, VF_INI_REC(11), zero);
#endif
#if VF_INI_SPLIT >= 12
	VF_ALLOC_CASE(total, VF_INI_REC(12), zero);
#endif
#if VF_INI_SPLIT >= 13
	VF_ALLOC_CASE(total, VF_INI_REC(13), zero);
#endif
#if VF_INI_SPLIT >= 14
	VF_ALLOC_CASE(total, VF_INI_REC(14), zero);
#endif
#if VF_INI_SPLIT >= 15
	VF_ALLOC_CASE(total, VF_INI_REC(15), zero);
#endif
#if VF_INI_SPLIT >= 16
	VF_ALLOC_CASE(total, VF_INI_REC(16), zero);
#endif
#if VF_INI_SPLIT >= 17
	VF_ALLOC_CASE(total, VF_INI_REC(17), zero);
#endif
#if VF_INI_SPLIT >= 18
	VF_ALLOC_CASE(total, VF_INI_REC(18), zero);
#endif
#if VF_INI_SPLIT >= 19
	VF_ALLOC_CASE(total, VF_INI_REC(19), zero);
#endif
#if VF_INI_SPLIT >= 20
	VF_ALLOC_CASE(total, VF_INI_REC(20), zero);
#endif
	p = malloc(total); /* any other size: generic symbolic-size object */
	__CPROVER_assume(p != NULL);
	if (zero)
		memset(p, 0, total);
	return (p);
}

void *
calloc(size_t nmemb, size_t size) {

	if (size != 0 && nmemb > ((size_t)-1) / size) {
		errno = ENOMEM;
		return (NULL);
	}
	if (nondet_vf_alloc_fails()) {
		errno = ENOMEM;
		return (NULL);
	}
	return (vf_ini_alloc_split(nmemb * size, 1));
}

void *
realloc(void *ptr, size_t size) {
	void *p;
	size_t old;

	if (ptr == NULL) {
		if (nondet_vf_alloc_fails()) {
			errno = ENOMEM;
			return (NULL);
		}
		return (vf_ini_alloc_split(size, 0));
	}
	__CPROVER_assert(__CPROVER_POINTER_OFFSET(ptr) == 0 && __CPROVER_r_ok(ptr, 0),
	    "realloc: argument is a live heap object");
	old = __CPROVER_OBJECT_SIZE(ptr);
	if (size != 0 && size <= old && nondet_vf_realloc_in_place())
		return (ptr); /* the allocator had room: same address */
	if (size == 0) {
		free(ptr);
		return (NULL);
	}
	if (nondet_vf_alloc_fails()) { /* failure leaves the old object untouched */
		errno = ENOMEM;
		return (NULL);
	}
	p = vf_ini_alloc_split(size, 0);
	memcpy(p, ptr, (old < size) ? old : size);
	free(ptr);
	return (p);
}

/* reallocarray(3): realloc(ptr, nmemb * size), ENOMEM instead of overflowing */
void *
reallocarray(void *ptr, size_t nmemb, size_t size) {

	if (size != 0 && nmemb > ((size_t)-1) / size) {
		errno = ENOMEM;
		return (NULL);
	}
	return (realloc(ptr, nmemb * size));
}
#endif
#endif
