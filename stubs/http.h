/*
 * Stubs used by the HTTP obligations (C13 / C20).  They REPLACE libc bodies; every job
 * that includes this file lists them under "assumptions".
 *
 * (1) UNBOUNDED route (default): abstract bodies of memchr / memmem / memcmp / strncasecmp /
 *     memmove.  Each body first ASSERTS that the spans handed to libc are
 *     accessible (an out-of-span call in the code under verification is a failed
 *     obligation named "<fn>: ... readable/writable"), then returns an arbitrary result
 *     permitted by the C standard / glibc manual:
 *       memchr   NULL or s+k, k < n, s[k] == c
 *       memmem   NULL or h+k, k <= hn-nn, first and last needle byte match at k
 *       memcmp                exact for n <= 8 (constant-bounded loop), any int otherwise
 *       strncasecmp           any int
 *       memmove               destination slice havocked, returns dst
 *     (memset is CBMC's own exact model: http_parse_req_line relies on the zeroed record)
 *     Results are built by pointer arithmetic on the argument (not as unconstrained
 *     pointers), which keeps CBMC's points-to sets exact (measured: symex 34 s -> 1.5 s).
 *     Nondeterminism comes only from nondet_* functions.  What is NOT assumed: that a NULL
 *     result means "no occurrence" (over-approximation: sound for safety).
 * (2) BOUNDED route (-DVF_HTTP_BOUNDED, plain harnesses over fixed arrays): exact models of
 *     memchr / memmem / memcmp / strncasecmp written as "choose the result, then constrain it
 *     to be the libc result" (no early loop exits; glibc manual semantics: first occurrence,
 *     byte-wise order, case-insensitive compare that stops at NUL); memmove, memset are
 *     CBMC's own models there.
 */
#ifndef VF_STUBS_HTTP_H
#define VF_STUBS_HTTP_H
#ifndef VF_REPLAY
#include <string.h>
#include <strings.h>
#include "vf/vf.h"

#ifndef VF_HTTP_BOUNDED
#ifdef VF_HTTP_GHOST_K
extern size_t vf_k;
#endif
void *
memchr(const void *s, int c, size_t n) {
	__CPROVER_assert(n == 0 || __CPROVER_r_ok(s, n), "memchr: span readable");
	__CPROVER_assume(n == 0 || __CPROVER_r_ok(s, n));
	if (n == 0 || nondet_bool()) {
#ifdef VF_HTTP_GHOST_K
		/* "NULL = no occurrence", instantiated at the ghost offset vf_k */
		size_t vf_o0 = (size_t)__CPROVER_POINTER_OFFSET(s);
		if (n != 0 && vf_k >= vf_o0 && vf_k - vf_o0 < n)
			__CPROVER_assume(((const unsigned char *)s)[vf_k - vf_o0] != (unsigned char)c);
#endif
		return (NULL);
	}
	size_t k = nondet_size_t();
	__CPROVER_assume(k < n);
	__CPROVER_assume(((const unsigned char *)s)[k] == (unsigned char)c);
#ifdef VF_HTTP_GHOST_K
	/* "first occurrence", instantiated at the one ghost offset vf_k the postcondition of the
	 * unbounded content variants talks about (the fact holds for every offset before s+k) */
	{
		size_t vf_o = (size_t)__CPROVER_POINTER_OFFSET(s);
		if (vf_k >= vf_o && vf_k - vf_o < k)
			__CPROVER_assume(((const unsigned char *)s)[vf_k - vf_o] != (unsigned char)c);
	}
#endif
	return ((void *)((const unsigned char *)s + k));
}

void *
memmem(const void *h, size_t hn, const void *nd, size_t nn) {
	__CPROVER_assert(hn == 0 || __CPROVER_r_ok(h, hn), "memmem: haystack readable");
	__CPROVER_assert(nn == 0 || __CPROVER_r_ok(nd, nn), "memmem: needle readable");
	__CPROVER_assume(hn == 0 || __CPROVER_r_ok(h, hn));
	__CPROVER_assume(nn == 0 || __CPROVER_r_ok(nd, nn));
	if (nn > hn || nondet_bool()) {
#ifdef VF_HTTP_GHOST_K
		/* "NULL = no occurrence" of a 2-byte needle, instantiated at the ghost offset vf_k */
		size_t vf_o0 = (size_t)__CPROVER_POINTER_OFFSET(h);
		if (nn == 2 && hn >= 2 && vf_k >= vf_o0 && vf_k - vf_o0 < hn - 1)
			__CPROVER_assume(!(((const unsigned char *)h)[vf_k - vf_o0] == ((const unsigned char *)nd)[0] &&
			    ((const unsigned char *)h)[vf_k - vf_o0 + 1] == ((const unsigned char *)nd)[1]));
#endif
		return (NULL);
	}
	size_t k = nondet_size_t();
	__CPROVER_assume(k <= hn - nn);
	if (nn != 0) {
		__CPROVER_assume(((const unsigned char *)h)[k] == ((const unsigned char *)nd)[0]);
		__CPROVER_assume(((const unsigned char *)h)[k + nn - 1] ==
		    ((const unsigned char *)nd)[nn - 1]);
	}
#ifdef VF_HTTP_GHOST_K
	/* "first occurrence" of a 2-byte needle (CRLF), instantiated at the ghost offset vf_k */
	if (nn == 2) {
		size_t vf_o = (size_t)__CPROVER_POINTER_OFFSET(h);
		if (vf_k >= vf_o && vf_k - vf_o < k)
			__CPROVER_assume(!(((const unsigned char *)h)[vf_k - vf_o] == ((const unsigned char *)nd)[0] &&
			    ((const unsigned char *)h)[vf_k - vf_o + 1] == ((const unsigned char *)nd)[1]));
	}
#endif
	return ((void *)((const unsigned char *)h + k));
}

int
memcmp(const void *a, const void *b, size_t n) {
	unsigned char ca, cb;

	__CPROVER_assert(n == 0 || (__CPROVER_r_ok(a, n) && __CPROVER_r_ok(b, n)),
	    "memcmp: spans readable");
	__CPROVER_assume(n == 0 || (__CPROVER_r_ok(a, n) && __CPROVER_r_ok(b, n)));
	if (n <= 8) {	/* short compares ("HTTP/", CRLF) are exact: callers rely on them.
			 * Written without a loop: with --apply-loop-contracts every loop of
			 * the program needs a contract. */
#define VF_CMP_STEP(i)								\
		if ((i) < n) {							\
			ca = ((const unsigned char *)a)[(i)];			\
			cb = ((const unsigned char *)b)[(i)];			\
			if (ca != cb)						\
				return (ca < cb ? -1 : 1);			\
		}
		VF_CMP_STEP(0) VF_CMP_STEP(1) VF_CMP_STEP(2) VF_CMP_STEP(3)
		VF_CMP_STEP(4) VF_CMP_STEP(5) VF_CMP_STEP(6) VF_CMP_STEP(7)
#undef VF_CMP_STEP
		return (0);
	}
	return (nondet_int());
}

/* reads at most n bytes of each string (stops at a NUL): requiring n readable bytes of
 * both is the caller-side discipline of mem_cmpi(), which passes spans, not C strings */
#ifdef VF_HTTP_GHOST_K
/* ghost record of the last successful compare (unbounded content variant of header lookup):
 * offset of the first operand in its object, compared length (n, or the position of the NUL
 * that both operands share), and the fact "equal ignoring case" instantiated at ghost vf_j */
extern size_t vf_cmp_off, vf_cmp_len, vf_j;
static inline unsigned char
vf_lcase(unsigned char c) {
	return ((c >= 'A' && c <= 'Z') ? (unsigned char)(c | 32) : c);
}
#endif
int
strncasecmp(const char *a, const char *b, size_t n) {
	int r;

	__CPROVER_assert(n == 0 || (__CPROVER_r_ok(a, n) && __CPROVER_r_ok(b, n)),
	    "strncasecmp: spans readable");
	r = nondet_int();
#ifdef VF_HTTP_GHOST_K
	if (r == 0) {
		size_t z = nondet_size_t();	/* compared length */
		__CPROVER_assume(n == 0 || (__CPROVER_r_ok(a, n) && __CPROVER_r_ok(b, n)));
		__CPROVER_assume(z <= n);
		__CPROVER_assume(z == n || (a[z] == 0 && b[z] == 0));
		if (vf_j < z)
			__CPROVER_assume(vf_lcase((unsigned char)a[vf_j]) == vf_lcase((unsigned char)b[vf_j]));
		vf_cmp_off = (size_t)__CPROVER_POINTER_OFFSET(a);
		vf_cmp_len = z;
	}
#endif
	return (r);
}

#ifndef VF_HTTP_BUILTIN_MEMMOVE
void *
memmove(void *dst, const void *src, size_t n) {
	__CPROVER_assert(n == 0 || __CPROVER_r_ok(src, n), "memmove: source readable");
	__CPROVER_assert(n == 0 || __CPROVER_w_ok(dst, n), "memmove: destination writable");
	__CPROVER_assume(n == 0 || __CPROVER_w_ok(dst, n));
	if (n != 0)
		__CPROVER_havoc_slice(dst, n);
	return (dst);
}

#endif /* !VF_HTTP_BUILTIN_MEMMOVE */

#else /* VF_HTTP_BOUNDED: exact models for fixed-size arrays */
/*
 * Exact, loop-exit-free models: the result is chosen nondeterministically and then
 * CONSTRAINED to be the libc result ("first occurrence": the chosen position matches and
 * no earlier position does).  Every loop runs a constant number of iterations
 * (VF_HTTP_STUB_MAX >= any length passed; checked by an assertion) and contains no early
 * exit, which keeps symbolic execution on one path per call.
 */
#ifndef VF_HTTP_STUB_MAX
#define VF_HTTP_STUB_MAX 64
#endif
void *
memchr(const void *s, int c, size_t n) {
	const unsigned char *sp = (const unsigned char *)s;
	size_t k = nondet_size_t();

	__CPROVER_assert(n <= VF_HTTP_STUB_MAX, "memchr model: length within the model bound");
	__CPROVER_assume(k <= n);
	for (size_t j = 0; j < VF_HTTP_STUB_MAX; j ++) {
		if (j < k)
			__CPROVER_assume(sp[j] != (unsigned char)c);
	}
	if (k == n)
		return (NULL);
	__CPROVER_assume(sp[k] == (unsigned char)c);
	return ((void *)(sp + k));
}

/* needles are the literals CRLF and "://" (at most 4 bytes) or short field names */
void *
memmem(const void *h, size_t hn, const void *nd, size_t nn) {
	const unsigned char *hp = (const unsigned char *)h;
	const unsigned char *np = (const unsigned char *)nd;
	size_t k = nondet_size_t(), last;

	__CPROVER_assert(hn <= VF_HTTP_STUB_MAX && nn <= 4, "memmem model: lengths within the model bound");
	if (nn == 0)
		return ((void *)hp);
	if (nn > hn)
		return (NULL);
	last = hn - nn;		/* last candidate position */
	__CPROVER_assume(k <= last + 1);
	for (size_t j = 0; j < VF_HTTP_STUB_MAX; j ++) {
		if (j <= last && j <= k) {
			_Bool m = 1;
			for (size_t t = 0; t < 4; t ++) {
				if (t < nn && hp[j + t] != np[t])
					m = 0;
			}
			__CPROVER_assume(m == (j == k));	/* match at k, none before */
		}
	}
	if (k == last + 1)
		return (NULL);
	return ((void *)(hp + k));
}

int
memcmp(const void *a, const void *b, size_t n) {
	const unsigned char *ap = (const unsigned char *)a, *bp = (const unsigned char *)b;
	int r = 0;

	__CPROVER_assert(n <= VF_HTTP_STUB_MAX, "memcmp model: length within the model bound");
	for (size_t i = 0; i < VF_HTTP_STUB_MAX; i ++) {
		if (i < n && r == 0 && ap[i] != bp[i])
			r = (ap[i] < bp[i]) ? -1 : 1;
	}
	return (r);
}

static inline unsigned char
vf_lc(unsigned char c) {
	return ((c >= 'A' && c <= 'Z') ? (unsigned char)(c | 32) : c);
}
/* compares ignoring case, at most n bytes, stops after a NUL in both */
int
strncasecmp(const char *a, const char *b, size_t n) {
	int r = 0;
	_Bool stop = 0;

	__CPROVER_assert(n <= VF_HTTP_STUB_MAX, "strncasecmp model: length within the model bound");
	for (size_t i = 0; i < VF_HTTP_STUB_MAX; i ++) {
		if (i < n && !stop) {
			unsigned char ca = vf_lc((unsigned char)a[i]), cb = vf_lc((unsigned char)b[i]);
			if (ca != cb) {
				r = (int)ca - (int)cb;
				stop = 1;
			} else if (ca == 0) {
				stop = 1;
			}
		}
	}
	return (r);
}
#endif
#endif /* !VF_REPLAY */
#endif
