/*
 * Stubs used by the HTTP obligations (C13 / C20).
 *
 * (1) Assumed contracts of memmove/memset for the UNBOUNDED route: CBMC's built-in models
 *     copy symbolic-length slices of symbolic-size objects, which exhausts memory; the
 *     contract keeps exactly what memory safety needs: the call site must prove both
 *     spans accessible (requires is ASSERTED there), the destination slice is havocked.
 * (2) Executable reference bodies of memmem / strncasecmp for the BOUNDED route (plain
 *     harnesses, no contracts): CBMC ships no model of memmem; the bodies below follow
 *     the glibc manual ("first occurrence of needle in haystack", "compares ignoring case,
 *     at most n bytes, stops at NUL") and are listed as assumptions of every job using them.
 */
#ifndef VF_STUBS_HTTP_H
#define VF_STUBS_HTTP_H
#ifndef VF_REPLAY
#include <string.h>
#include <strings.h>
#include "vf/vf.h"

#ifndef VF_HTTP_BOUNDED
void *memmove(void *dst, const void *src, size_t n)
__CPROVER_requires(n == 0 || (__CPROVER_w_ok(dst, n) && __CPROVER_r_ok(src, n)))
__CPROVER_assigns(n != 0: __CPROVER_object_whole(dst))
__CPROVER_ensures(__CPROVER_return_value == dst)
;
void *memset(void *dst, int c, size_t n)
__CPROVER_requires(n == 0 || __CPROVER_w_ok(dst, n))
__CPROVER_assigns(n != 0: __CPROVER_object_whole(dst))
__CPROVER_ensures(__CPROVER_return_value == dst)
;
#else /* VF_HTTP_BOUNDED: executable models, unwound completely */
void *
memmem(const void *h, size_t hn, const void *nd, size_t nn) {
	const unsigned char *hp = (const unsigned char *)h;
	const unsigned char *np = (const unsigned char *)nd;
	size_t i, j;

	if (nn == 0)
		return ((void *)hp);
	if (nn > hn)
		return (NULL);
	for (i = 0; i <= hn - nn; i ++) {
		for (j = 0; j < nn && hp[i + j] == np[j]; j ++)
			;
		if (j == nn)
			return ((void *)(hp + i));
	}
	return (NULL);
}

static inline unsigned char
vf_lc(unsigned char c) {
	return ((c >= 'A' && c <= 'Z') ? (unsigned char)(c | 32) : c);
}
int
strncasecmp(const char *a, const char *b, size_t n) {
	size_t i;

	for (i = 0; i < n; i ++) {
		unsigned char ca = vf_lc((unsigned char)a[i]), cb = vf_lc((unsigned char)b[i]);
		if (ca != cb)
			return ((int)ca - (int)cb);
		if (ca == 0)
			break;
	}
	return (0);
}
#endif
#endif /* !VF_REPLAY */
#endif
