/*
 * ASSUMED contracts (executable stubs with ghost state, CBMC side only) of what
 * src/threadpool/threadpool_task.c calls (property C16, per-call fragment). Nothing here is
 * proved; every item is repeated in obligations/C16.json "assumptions".
 *
 *  recv / pread / recvfrom (fd, p, len, ...)
 *        the range p[0 .. len) handed to the kernel must be writable (obligation, checked here) and
 *        lie inside the task's buffer (obligation, when the harness announced the buffer). Result:
 *        -1 with errno != 0 and no byte written; or 0 and no byte written; or k in [1, len] after
 *        writing exactly p[0 .. k) with the NEXT k bytes of the ghost arrival stream (the bytes other than
 *        the observed one are made arbitrary only in jobs built with -DVF_IO_CONTENT; no byte past
 *        p + k is touched). The arrival stream is unconstrained; the harness observes one
 *        ghost-chosen stream position vf_in_j (ghost index instead of a quantifier): its value
 *        vf_in_val and the address it was stored to.
 *  send / pwrite (fd, p, len, ...)
 *        p[0 .. len) must be readable and inside the task's buffer (obligations). Result: -1 / errno,
 *        or 0, or k in [1, len] after consuming exactly p[0 .. k) - appended to the ghost departure
 *        stream (observed at the ghost position vf_out_j).
 *  The first VF_IO_MAX_CALLS (default 3) transfer calls of one run answer freely; the next one finds
 *  "nothing more right now" (-1 / EAGAIN). This bounds the number of fragments one handler call sees.
 *  tpt_ev_add_args / tpt_ev_add_args2 / tpt_ev_del_args1 / tpt_ev_enable_args / tpt_ev_enable_args1
 *        (the registration layer, property C06): logged in vf_ev[], return 0 or any error number.
 *  skt_accept   error number, or 0 with a fresh descriptor in *skt_ret (at most 3 per run)
 *  close        logged; sockets handed out by skt_accept / skt_bind / skt_connect are kept in a ledger (closed twice = counted)
 *  skt_bind / skt_listen / skt_opts_apply_ex / skt_connect  error number without effect, or success (fresh socket)
 *  clock_gettime  monotonic, otherwise arbitrary; tp_thread_get / _get_rr / _count_max_get: a table of VF_POOL_THREADS opaque threads
 */
#ifndef VF_STUBS_SYS_IO_H
#define VF_STUBS_SYS_IO_H
#ifndef VF_REPLAY
#include <errno.h>
#include <string.h>
#include <stdlib.h>
#include <sys/types.h>
#include <sys/socket.h>
#include <sys/uio.h>
#include <unistd.h>
#include <time.h>
#include <syslog.h>
#include "threadpool/threadpool.h"
#include "net/socket.h"
#include "net/socket_options.h"

int nondet_int(void);
_Bool nondet_bool(void);
size_t nondet_size_t(void);
uint8_t nondet_uint8_t(void);
ssize_t nondet_ssize_t(void);

_Bool vf_no_faults;			/* harness: 1 = registration calls succeed */
static int vf_errno_any(void) {
	int e = nondet_int();
	__CPROVER_assume(e > 0 && e < 4096);
	return (e);
}

/* ---- the task's buffer as announced by the harness (for the "inside the window" obligation) ---- */
const uint8_t *vf_buf_base; size_t vf_buf_size;
#define VF_IO_INSIDE(p, len)								\
	(vf_buf_base == NULL || (len) == 0 ||						\
	 (__CPROVER_same_object((p), vf_buf_base) &&					\
	  __CPROVER_POINTER_OFFSET(p) >= __CPROVER_POINTER_OFFSET(vf_buf_base) &&	\
	  (size_t)(__CPROVER_POINTER_OFFSET(p) - __CPROVER_POINTER_OFFSET(vf_buf_base)) <= vf_buf_size && \
	  (len) <= vf_buf_size - (size_t)(__CPROVER_POINTER_OFFSET(p) - __CPROVER_POINTER_OFFSET(vf_buf_base))))

#ifndef VF_IO_MAX_CALLS
#define VF_IO_MAX_CALLS	3
#endif
int vf_io_calls;			/* transfer system calls issued */
int vf_io_ok_calls;			/* of these, returned k >= 1 */
int vf_io_last_fd, vf_io_last_flags, vf_io_kind;	/* kind: 1 pread 2 recv 3 pwrite 4 send 5 recvfrom */
off_t vf_io_last_off;
const void *vf_io_last_p; size_t vf_io_last_len;
ssize_t vf_io_last_ret; int vf_io_last_errno;
size_t vf_io_total;			/* sum of the k of this run */
_Bool vf_io_saw_zero, vf_io_saw_err;
size_t vf_io_k[VF_IO_MAX_CALLS + 1];	/* size of the i-th successful transfer */
int vf_io_hard_errs;			/* calls that failed with an errno other than EAGAIN / EWOULDBLOCK / EBUSY / EINTR */
#define VF_ERRNO_SOFT(e) ((e) == EAGAIN || (e) == EWOULDBLOCK || (e) == EBUSY || (e) == EINTR)
off_t vf_io_first_off; const void *vf_io_first_p; size_t vf_io_first_len;

/* arrival stream, observed at one ghost position */
size_t vf_in_j; uint8_t vf_in_val; const uint8_t *vf_in_addr; _Bool vf_in_seen;
/* departure stream, observed at one ghost position */
size_t vf_out_j; uint8_t vf_out_val; const uint8_t *vf_out_addr; _Bool vf_out_seen;

/* harness may pin the outcome of the n-th call: vf_io_force[n] = -2 free, otherwise the return value */
ssize_t vf_io_plan[VF_IO_MAX_CALLS + 1];
_Bool vf_io_planned;

static ssize_t vf_io_result(size_t len) {
	ssize_t k;
	if (vf_io_calls > VF_IO_MAX_CALLS) {		/* bound: call number VF_IO_MAX_CALLS + 1 finds nothing more right now */
		errno = EAGAIN;
		return (-1);
	}
	k = nondet_ssize_t();
	__CPROVER_assume(k >= -1 && (k < 0 || (size_t)k <= len));
	if (k == -1)
		errno = vf_errno_any();
	return (k);
}
static void vf_io_note(int kind, int fd, const void *p, size_t len, int flags, off_t off) {
	if (vf_io_calls == 0) { vf_io_first_p = p; vf_io_first_len = len; vf_io_first_off = off; }
	vf_io_calls ++;
	vf_io_kind = kind; vf_io_last_fd = fd; vf_io_last_p = p; vf_io_last_len = len;
	vf_io_last_flags = flags; vf_io_last_off = off;
}
static ssize_t vf_io_in(int kind, int fd, void *p, size_t len, int flags, off_t off) {
	ssize_t k;
	vf_io_note(kind, fd, p, len, flags, off);
	__CPROVER_assert(len == 0 || __CPROVER_w_ok(p, len), "read system call: the range handed to the kernel is writable storage");
	__CPROVER_assert(VF_IO_INSIDE(p, len), "read system call: the range handed to the kernel lies inside the buffer");
	k = vf_io_result(len);
	vf_io_last_ret = k; vf_io_last_errno = (k == -1) ? errno : 0;
	if (k == -1) { vf_io_saw_err = 1; if (!VF_ERRNO_SOFT(errno)) vf_io_hard_errs ++; return (k); }
	if (k == 0) { vf_io_saw_zero = 1; return (k); }
	vf_io_k[vf_io_ok_calls] = (size_t)k;
#ifdef VF_IO_CONTENT
	__CPROVER_havoc_slice(p, (size_t)k);		/* exactly p[0 .. k) receives the next k arrived bytes */
#endif
	if (vf_in_j >= vf_io_total && vf_in_j - vf_io_total < (size_t)k) {
		((uint8_t *)p)[vf_in_j - vf_io_total] = vf_in_val;
		vf_in_addr = &((uint8_t *)p)[vf_in_j - vf_io_total];
		vf_in_seen = 1;
	}
	vf_io_total += (size_t)k;
	vf_io_ok_calls ++;
	return (k);
}
static ssize_t vf_io_out(int kind, int fd, const void *p, size_t len, int flags, off_t off) {
	ssize_t k;
	vf_io_note(kind, fd, p, len, flags, off);
	__CPROVER_assert(len == 0 || __CPROVER_r_ok(p, len), "write system call: the range handed to the kernel is readable storage");
	__CPROVER_assert(VF_IO_INSIDE(p, len), "write system call: the range handed to the kernel lies inside the buffer");
	k = vf_io_result(len);
	vf_io_last_ret = k; vf_io_last_errno = (k == -1) ? errno : 0;
	if (k == -1) { vf_io_saw_err = 1; if (!VF_ERRNO_SOFT(errno)) vf_io_hard_errs ++; return (k); }
	if (k == 0) { vf_io_saw_zero = 1; return (k); }
	vf_io_k[vf_io_ok_calls] = (size_t)k;
	if (vf_out_j >= vf_io_total && vf_out_j - vf_io_total < (size_t)k) {
		vf_out_val = ((const uint8_t *)p)[vf_out_j - vf_io_total];
		vf_out_addr = &((const uint8_t *)p)[vf_out_j - vf_io_total];
		vf_out_seen = 1;
	}
	vf_io_total += (size_t)k;
	vf_io_ok_calls ++;
	return (k);
}
ssize_t pread(int fd, void *p, size_t len, off_t off) { return (vf_io_in(1, fd, p, len, 0, off)); }
ssize_t recv(int fd, void *p, size_t len, int flags) { return (vf_io_in(2, fd, p, len, flags, 0)); }
ssize_t pwrite(int fd, const void *p, size_t len, off_t off) { return (vf_io_out(3, fd, p, len, 0, off)); }
ssize_t send(int fd, const void *p, size_t len, int flags) { return (vf_io_out(4, fd, p, len, flags, 0)); }
ssize_t recvfrom(int fd, void *p, size_t len, int flags, struct sockaddr *addr, socklen_t *addrlen) {
	__CPROVER_assert(addr == NULL || (addrlen != NULL && __CPROVER_w_ok(addr, *addrlen)), "recvfrom: address storage of the announced length");
	return (vf_io_in(5, fd, p, len, flags, 0));
}

/* ---- registration layer (tpt_ev_*), logged -------------------------------------------------- */
#define VF_EV_ADD	1	/* tpt_ev_add_args / tpt_ev_add_args2 */
#define VF_EV_DEL	2
#define VF_EV_ENABLE	3
#define VF_EV_DISABLE	4
#ifndef VF_EV_LOG_MAX
#define VF_EV_LOG_MAX	6
#endif
struct vf_ev_rec { int op; uint16_t event, flags; uint32_t fflags; uint64_t data; tp_udata_p ud; tpt_p tpt; int ret; };
struct vf_ev_rec vf_ev[VF_EV_LOG_MAX];
int vf_ev_cnt;
static int vf_ev_note(int op, tpt_p tpt, uint16_t event, uint16_t flags, uint32_t fflags, uint64_t data, tp_udata_p ud) {
	int ret = 0;
	if (!vf_no_faults && nondet_bool())
		ret = vf_errno_any();
	__CPROVER_assert(vf_ev_cnt < VF_EV_LOG_MAX, "ghost registration log large enough");
	vf_ev[vf_ev_cnt].op = op; vf_ev[vf_ev_cnt].tpt = tpt; vf_ev[vf_ev_cnt].event = event;
	vf_ev[vf_ev_cnt].flags = flags; vf_ev[vf_ev_cnt].fflags = fflags; vf_ev[vf_ev_cnt].data = data;
	vf_ev[vf_ev_cnt].ud = ud; vf_ev[vf_ev_cnt].ret = ret;
	vf_ev_cnt ++;
	return (ret);
}
int tpt_ev_add_args(tpt_p tpt, uint16_t event, uint16_t flags, uint32_t fflags, uint64_t data, tp_udata_p ud) {
	return (vf_ev_note(VF_EV_ADD, tpt, event, flags, fflags, data, ud));
}
int tpt_ev_add_args2(tpt_p tpt, uint16_t event, uint16_t flags, tp_udata_p ud) {
	return (vf_ev_note(VF_EV_ADD, tpt, event, flags, 0, 0, ud));
}
int tpt_ev_del_args1(uint16_t event, tp_udata_p ud) {
	return (vf_ev_note(VF_EV_DEL, NULL, event, 0, 0, 0, ud));
}
int tpt_ev_enable_args(int enable, uint16_t event, uint16_t flags, uint32_t fflags, uint64_t data, tp_udata_p ud) {
	return (vf_ev_note(enable ? VF_EV_ENABLE : VF_EV_DISABLE, NULL, event, flags, fflags, data, ud));
}
int tpt_ev_enable_args1(int enable, uint16_t event, tp_udata_p ud) {
	return (vf_ev_note(enable ? VF_EV_ENABLE : VF_EV_DISABLE, NULL, event, 0, 0, 0, ud));
}

/* ---- the rest ---------------------------------------------------------------------------- */
/* sockets handed out by the stubs below (skt_accept / skt_bind / skt_connect): a small ledger, so that a
 * descriptor closed twice or never closed is seen; other descriptors (the harness' own ident) are only logged */
#define VF_SKT_BASE	200
#define VF_SKT_MAX	8
_Bool vf_skt_is_open[VF_SKT_MAX];
int vf_skt_cnt, vf_skts_open, vf_close_twice;
static uintptr_t vf_skt_new(void) {
	__CPROVER_assert(vf_skt_cnt < VF_SKT_MAX, "ghost socket table large enough");
	vf_skt_is_open[vf_skt_cnt] = 1;
	vf_skts_open ++;
	return ((uintptr_t)(VF_SKT_BASE + vf_skt_cnt ++));
}
int vf_close_calls, vf_close_last_fd;
int close(int fd) {
	vf_close_calls ++; vf_close_last_fd = fd;
	if (fd >= VF_SKT_BASE && fd < VF_SKT_BASE + vf_skt_cnt) {
		if (vf_skt_is_open[fd - VF_SKT_BASE]) { vf_skt_is_open[fd - VF_SKT_BASE] = 0; vf_skts_open --; }
		else { vf_close_twice ++; errno = EBADF; return (-1); }	/* in a real process: possibly somebody else's new descriptor */
	}
	return (0);
}
int vf_accept_calls, vf_accept_ok; uintptr_t vf_accept_last_lsn; uint32_t vf_accept_last_flags;
#ifndef VF_ACCEPT_MAX
#define VF_ACCEPT_MAX	3
#endif
int skt_accept(uintptr_t skt, sockaddr_storage_t *addr, socklen_t *addrlen, uint32_t flags, uintptr_t *skt_ret) {
	vf_accept_calls ++;
	vf_accept_last_lsn = skt; vf_accept_last_flags = flags;
	__CPROVER_assert(skt_ret != NULL && addr != NULL && addrlen != NULL && *addrlen == sizeof(*addr), "skt_accept: result and address storage supplied");
	if (vf_accept_ok >= VF_ACCEPT_MAX)
		return (EAGAIN);	/* bound: no more pending connections */
	if (nondet_bool())
		return (vf_errno_any());
	*skt_ret = vf_skt_new();
	vf_accept_ok ++;
	return (0);
}
/* skt_bind / skt_listen / skt_opts_apply_ex / skt_connect: an error number and no effect, or 0 (bind / connect: with a
 * fresh socket in *skt_ret). skt_connect is answered freely VF_CONNECT_MAX times, then fails (bound). */
int vf_bind_calls, vf_listen_calls, vf_opts_calls, vf_connect_calls; uint32_t vf_bind_flags; uintptr_t vf_listen_skt, vf_opts_skt;
const void *vf_connect_addr[4]; int vf_connect_proto;
int skt_bind(const sockaddr_storage_t *addr, int type, int protocol, uint32_t flags, uintptr_t *skt_ret) {
	vf_bind_calls ++; vf_bind_flags = flags;
	if (!vf_no_faults && nondet_bool())
		return (vf_errno_any());
	*skt_ret = vf_skt_new();
	return (0);
}
int skt_listen(uintptr_t skt, int backlog) {
	vf_listen_calls ++; vf_listen_skt = skt;
	return ((!vf_no_faults && nondet_bool()) ? vf_errno_any() : 0);
}
uint32_t nondet_uint32_t(void);
int skt_opts_apply_ex(const uintptr_t skt, const uint32_t mask, const skt_opts_p opts, const sa_family_t family, uint32_t *err_mask) {
	vf_opts_calls ++; vf_opts_skt = skt;
	if (nondet_bool()) { if (err_mask != NULL) *err_mask = nondet_uint32_t(); return (vf_errno_any()); }
	if (err_mask != NULL) *err_mask = 0;
	return (0);
}
#ifndef VF_CONNECT_MAX
#define VF_CONNECT_MAX	2
#endif
int skt_connect(const sockaddr_storage_t *addr, int type, int protocol, uint32_t flags, uintptr_t *skt_ret) {
	if (vf_connect_calls < 4) vf_connect_addr[vf_connect_calls] = addr;
	vf_connect_calls ++; vf_connect_proto = protocol;
	__CPROVER_assert(addr != NULL && __CPROVER_r_ok(addr, sizeof(*addr)), "skt_connect: the address handed over is readable storage");
	if (vf_connect_calls > VF_CONNECT_MAX)
		return (ENETUNREACH);	/* bound */
	if (nondet_bool())
		return (vf_errno_any());
	*skt_ret = vf_skt_new();
	return (0);
}
/* monotonic clock: any time not before the previous reading */
struct timespec vf_clock_now;
int clock_gettime(clockid_t id, struct timespec *ts) {
	long ds = nondet_int(), dn = nondet_int();
	__CPROVER_assume(ds >= 0 && ds < 100000 && dn >= 0 && dn < 1000000000L);
	vf_clock_now.tv_sec += ds; vf_clock_now.tv_nsec = dn;
	*ts = vf_clock_now;
	return (0);
}
/* the pool's thread table as far as tp_task_bind_accept_multi_create needs it */
#ifndef VF_POOL_THREADS
#define VF_POOL_THREADS	2
#endif
char vf_pool_thr[VF_POOL_THREADS + 1]; size_t vf_pool_rr;
size_t tp_thread_count_max_get(tp_p tp) { return (VF_POOL_THREADS); }
tpt_p tp_thread_get(tp_p tp, const size_t n) { return ((n < VF_POOL_THREADS) ? (tpt_p)(void *)&vf_pool_thr[n] : NULL); }
tpt_p tp_thread_get_rr(tp_p tp) { vf_pool_rr = (vf_pool_rr + 1) % VF_POOL_THREADS; return ((tpt_p)(void *)&vf_pool_thr[vf_pool_rr]); }
void syslog(int pri, const char *fmt, ...) { }
#endif
#endif
