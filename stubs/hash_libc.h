/*
 * Assumed contracts of memcpy / memset for the *safety halves* of the hash absorption
 * contracts (C04 U, unbounded message length).  CBMC's own memcpy model copies through a
 * variable-length array when the length is symbolic, which no back end closes for an
 * unbounded length (DESIGN.md section 2); the safety half does not talk about contents,
 * so the copy is replaced by "writes exactly dst[0..n), reads src[0..n)":
 * the requires clause is ASSERTED at every call site in the code under verification,
 * the ensures clause is ASSUMED.  The content halves use CBMC's real memcpy model.
 */
#ifndef VF_STUBS_HASH_LIBC_H
#define VF_STUBS_HASH_LIBC_H
#ifndef VF_REPLAY
#include <string.h>
#ifdef VF_LIBC_CONTRACTS
void *memcpy(void *dst, const void *src, size_t n)
__CPROVER_requires(n == 0 || (__CPROVER_r_ok(src, n) && __CPROVER_w_ok(dst, n)))
__CPROVER_assigns(n != 0: __CPROVER_object_upto(dst, n))
__CPROVER_ensures(__CPROVER_return_value == dst)
;
#endif
#ifdef VF_LIBC_BYTELOOP
/* HMAC key set-up: memcpy(k_ipad, key, key_len) has a symbolic length and a local array as
 * destination; CBMC 6.11's built-in model (array_copy into a VLA + array_replace) loses the
 * copied bytes in that shape (the destination keeps an arbitrary value), which makes every
 * statement about the pads unprovable.  memcpy and memset are therefore given their defining
 * bodies - byte-by-byte loops, fully unwound (the lengths are bounded by the block size and
 * by sizeof(ctx)) - in the C07 jobs. */
void *memcpy(void *dst, const void *src, size_t n)
{
	unsigned char *d = (unsigned char *)dst;
	const unsigned char *s = (const unsigned char *)src;
	for (size_t i = 0; i < n; i++)
		d[i] = s[i];
	return dst;
}
/* same for memset(k_ipad + i, 0, B - i) */
void *memset(void *dst, int c, size_t n)
{
	unsigned char *d = (unsigned char *)dst;
	for (size_t i = 0; i < n; i++)
		d[i] = (unsigned char)c;
	return dst;
}
#endif
#endif
#endif
