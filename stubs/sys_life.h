/*
 * ASSUMED contracts (executable stubs with ghost state, CBMC side only) of the libc / Linux /
 * pthread calls reached from the pool life-cycle code of src/threadpool/threadpool.c and
 * src/threadpool/threadpool_msg_sys.c (property C11, per-call / sequential fragment).
 * Nothing here is proved; every item is repeated in obligations/C11.json "assumptions".
 *
 * Every fallible call may fail at ANY call (one nondeterministic choice per call) unless the
 * harness sets vf_no_faults; a failing call has NO effect besides errno / its return code.
 *
 *  calloc / free      reached through the macros below (vf_calloc / vf_free): calloc returns NULL
 *                     with errno = ENOMEM, or fresh zeroed storage (CBMC's own allocator beneath,
 *                     so double free / use after free stay checked by cbmc); free preserves errno
 *                     (glibc >= 2.33, POSIX issue 8). Ghost ledger of live allocations.
 *  epoll_create1      fresh descriptor or -1 / errno != 0
 *  pipe2              two fresh descriptors or -1 / errno != 0 with fd[] untouched
 *  epoll_ctl          -1 / EBADF when epfd or fd is not an open descriptor of the ledger;
 *                     otherwise records the registration and returns 0, or -1 / errno != 0
 *  close              open descriptor of the ledger: released, 0. Negative descriptor: -1 / EBADF
 *                     (harmless, counted in vf_close_neg). Anything else (closed twice, never
 *                     handed out): counted in vf_close_foreign - a harness obligation says == 0.
 *  pthread_key_create 0 or an error number; pthread_getspecific = the harness-chosen current pool
 *                     thread (vf_current_tpt); pthread_setspecific records it.
 *  pthread_create     0 after recording (start routine, argument) in the ghost thread table - the
 *                     thread itself does NOT run (no threads in this model) - or an error number
 *                     (EAGAIN at most vf_eagain_budget times per run, so that the library's
 *                     20-step retry loop can be unwound: a stated bound)
 *  pthread_join       unknown / already joined id: ESRCH (counted in vf_join_bad). Otherwise 0 after
 *                     the thread "has run to its end" (harness hook vf_thread_finished(arg), which
 *                     performs the effects of tp_thread_proc's epilogue), or an error number.
 *  nanosleep / sched_yield   let "the other threads" make a step: harness hook vf_other_threads_step()
 *  write              n (all bytes taken) or -1 / errno != 0; counts calls per run
 *  sysconf / getdtablesize   nondeterministic plausible values (see the bodies)
 *  epoll_wait         harness-programmed single report (as stubs/sys_tp.h), then asks the thread to stop
 */
#ifndef VF_STUBS_SYS_LIFE_H
#define VF_STUBS_SYS_LIFE_H
#ifndef VF_REPLAY
#include <errno.h>
#include <string.h>
#include <strings.h>
#include <stdlib.h>
#include <stdio.h>
#include <stdarg.h>
#include <signal.h>
#include <sys/types.h>
#include <sys/epoll.h>
#include <sys/timerfd.h>
#include <sys/socket.h>
#include <sys/wait.h>
#include <unistd.h>
#include <fcntl.h>
#include <pthread.h>
#include <sched.h>
#include <time.h>
#include <syslog.h>

int nondet_int(void);
long nondet_long(void);
_Bool nondet_bool(void);

_Bool vf_no_faults;			/* harness: 1 = resources are available, calls with valid args succeed */
int vf_faults;				/* injected failures so far */

static int vf_errno_any(void) {
	int e = nondet_int();
	__CPROVER_assume(e > 0 && e < 4096);
	return (e);
}
static int vf_fail(void) {
	vf_faults ++;
	errno = vf_errno_any();
	return (-1);
}
#define VF_MAY_FAIL()	(!vf_no_faults && nondet_bool())

/* ---- descriptor ledger ------------------------------------------------------------ */
#define VF_FD_BASE	100
#ifndef VF_FD_MAX
#define VF_FD_MAX	16
#endif
int vf_next_fd = VF_FD_BASE;
_Bool vf_fd_is_open[VF_FD_MAX];		/* descriptor VF_FD_BASE + i is open */
int vf_fds_open;			/* opened minus closed */
int vf_close_calls, vf_close_neg, vf_close_foreign, vf_close_last_fd;

static int vf_fd_new(void) {
	int idx = vf_next_fd - VF_FD_BASE;
	__CPROVER_assert(idx >= 0 && idx < VF_FD_MAX, "ghost descriptor table large enough");
	vf_fd_is_open[idx] = 1;
	vf_fds_open ++;
	return (vf_next_fd ++);
}
static _Bool vf_fd_open_p(int fd) {
	return (fd >= VF_FD_BASE && fd < VF_FD_BASE + VF_FD_MAX && vf_fd_is_open[fd - VF_FD_BASE]);
}
int close(int fd) {
	vf_close_calls ++;
	vf_close_last_fd = fd;
	if (fd < 0) {
		vf_close_neg ++;
		errno = EBADF;
		return (-1);
	}
	if (!vf_fd_open_p(fd)) {	/* closed twice, or a descriptor this code never obtained */
		vf_close_foreign ++;
		errno = EBADF;
		return (-1);
	}
	vf_fd_is_open[fd - VF_FD_BASE] = 0;
	vf_fds_open --;
	return (0);
}

int vf_epcreate_calls, vf_epcreate_flags;
int epoll_create1(int flags) {
	vf_epcreate_calls ++;
	vf_epcreate_flags = flags;
	if (VF_MAY_FAIL())
		return (vf_fail());
	return (vf_fd_new());
}
int vf_pipe2_calls, vf_pipe2_flags;
int pipe2(int fd[2], int flags) {
	vf_pipe2_calls ++;
	vf_pipe2_flags = flags;
	if (VF_MAY_FAIL())
		return (vf_fail());
	fd[0] = vf_fd_new();
	fd[1] = vf_fd_new();
	return (0);
}
int vf_epctl_calls, vf_epctl_ok_calls, vf_epctl_add_ok, vf_epctl_badfd;
int vf_epctl_last_op, vf_epctl_last_fd, vf_epctl_last_epfd;
uint32_t vf_epctl_last_events; void *vf_epctl_last_ptr;
int epoll_ctl(int epfd, int op, int fd, struct epoll_event *event) {
	vf_epctl_calls ++;
	vf_epctl_last_epfd = epfd;
	vf_epctl_last_op = op;
	vf_epctl_last_fd = fd;
	if (event != NULL) {
		vf_epctl_last_events = event->events;
		vf_epctl_last_ptr = event->data.ptr;
	}
	if (!vf_fd_open_p(epfd) || !vf_fd_open_p(fd)) {
		vf_epctl_badfd ++;
		errno = EBADF;
		return (-1);
	}
	if (VF_MAY_FAIL())
		return (vf_fail());
	vf_epctl_ok_calls ++;
	if (op == EPOLL_CTL_ADD)
		vf_epctl_add_ok ++;
	return (0);
}
/* the remaining calls of tpt_ev_post (timers, process events, low-water marks): not reached by the
 * life-cycle code, present so that no reachable callee is body-less */
int timerfd_create(int clockid, int flags) {
	if (VF_MAY_FAIL())
		return (vf_fail());
	return (vf_fd_new());
}
int timerfd_settime(int fd, int flags, const struct itimerspec *new_value, struct itimerspec *old_value) {
	if (VF_MAY_FAIL())
		return (vf_fail());
	return (0);
}
int setsockopt(int s, int level, int optname, const void *optval, socklen_t optlen) {
	return (nondet_bool() ? 0 : vf_fail());
}
long syscall(long number, ...) {	/* pidfd_open */
	if (VF_MAY_FAIL())
		return (vf_fail());
	return (vf_fd_new());
}
int fcntl(int fd, int cmd, ...) {
	if (VF_MAY_FAIL())
		return (vf_fail());
	return (0);
}

/* ---- allocation ledger ------------------------------------------------------------ */
#define VF_ALLOC_MAX	6
void *vf_alloc_ptr[VF_ALLOC_MAX];
int vf_alloc_cnt;			/* successful calloc calls */
int vf_allocs_live;			/* allocated minus freed */
int vf_free_foreign;			/* free of a pointer that is not a live allocation of the ledger */
static void *vf_calloc(size_t n, size_t size) {
	void *p;
	__CPROVER_assert(vf_alloc_cnt < VF_ALLOC_MAX, "ghost allocation table large enough");
	p = calloc(n, size);		/* CBMC's allocator: may itself answer NULL (cbmc 6 default --malloc-may-fail) */
	if (vf_no_faults)
		__CPROVER_assume(p != NULL);	/* harness said: resources are available */
	if (p == NULL) {
		vf_faults ++;
		errno = ENOMEM;		/* POSIX: calloc sets errno on failure */
		return (NULL);
	}
	vf_alloc_ptr[vf_alloc_cnt ++] = p;
	vf_allocs_live ++;
	return (p);
}
#define VF_FREE_SLOT(i)	if ((i) < vf_alloc_cnt && vf_alloc_ptr[(i)] == p) { vf_alloc_ptr[(i)] = NULL; hit = 1; }
static void vf_free(void *p) {
	int hit = 0;
	if (p == NULL)
		return;
	VF_FREE_SLOT(0) VF_FREE_SLOT(1) VF_FREE_SLOT(2) VF_FREE_SLOT(3) VF_FREE_SLOT(4) VF_FREE_SLOT(5)	/* VF_ALLOC_MAX slots, no loop */
	if (hit) {
		vf_allocs_live --;
		free(p);		/* errno preserved */
	} else {
		vf_free_foreign ++;
	}
}
#define calloc	vf_calloc
#define free	vf_free

/* ---- pthread ---------------------------------------------------------------------- */
void *vf_current_tpt;			/* what tpt_get_current() yields: NULL = not a pool thread */
int vf_key_create_calls, vf_setspecific_calls;
const void *vf_setspecific_first, *vf_setspecific_last;
int pthread_key_create(pthread_key_t *key, void (*destructor)(void *)) {
	vf_key_create_calls ++;
	if (VF_MAY_FAIL()) {
		vf_faults ++;
		return (vf_errno_any());
	}
	*key = 1;
	return (0);
}
void *pthread_getspecific(pthread_key_t key) { return (vf_current_tpt); }
int pthread_setspecific(pthread_key_t key, const void *value) {
	if (vf_setspecific_calls == 0)
		vf_setspecific_first = value;
	vf_setspecific_last = value;
	vf_setspecific_calls ++;
	vf_current_tpt = (void *)value;
	return (0);
}
pthread_t vf_self_id = 7;
pthread_t pthread_self(void) { return (vf_self_id); }
int pthread_setname_np(pthread_t t, const char *name) { return (nondet_bool() ? 0 : ERANGE); }
int pthread_sigmask(int how, const sigset_t *set, sigset_t *oldset) { return (nondet_bool() ? 0 : EINVAL); }
int pthread_setaffinity_np(pthread_t t, size_t cpusetsize, const cpu_set_t *cpuset) { return (nondet_bool() ? 0 : EINVAL); }
int sigemptyset(sigset_t *set) { return (0); }
int sigaddset(sigset_t *set, int signo) { return (0); }

#define VF_THR_MAX	4
#define VF_THR_ID_BASE	1000
struct vf_thr { void *(*fn)(void *); void *arg; _Bool live; };
struct vf_thr vf_thr[VF_THR_MAX];
int vf_thr_cnt;				/* threads created so far */
int vf_threads_live;			/* created minus joined */
int vf_pcreate_calls, vf_pcreate_failed, vf_join_calls, vf_join_ok, vf_join_bad, vf_join_failed;
_Bool vf_join_edeadlk;
int vf_eagain_budget;			/* harness: how many times pthread_create may say EAGAIN */
void vf_thread_finished(void *arg);	/* harness hook: effects of the thread's epilogue */
void vf_other_threads_step(void);	/* harness hook */
int pthread_create(pthread_t *thread, const pthread_attr_t *attr, void *(*fn)(void *), void *arg) {
	vf_pcreate_calls ++;
	if (VF_MAY_FAIL()) {
		int e = vf_errno_any();
		if (e == EAGAIN) {
			if (vf_eagain_budget <= 0)
				e = ENOMEM;
			else
				vf_eagain_budget --;
		}
		vf_faults ++;
		vf_pcreate_failed ++;
		return (e);
	}
	__CPROVER_assert(vf_thr_cnt < VF_THR_MAX, "ghost thread table large enough");
	vf_thr[vf_thr_cnt].fn = fn;
	vf_thr[vf_thr_cnt].arg = arg;
	vf_thr[vf_thr_cnt].live = 1;
	*thread = (pthread_t)(VF_THR_ID_BASE + vf_thr_cnt);
	vf_thr_cnt ++;
	vf_threads_live ++;
	return (0);
}
int pthread_join(pthread_t thread, void **retval) {
	vf_join_calls ++;
	if (thread < VF_THR_ID_BASE || thread >= (pthread_t)(VF_THR_ID_BASE + vf_thr_cnt) ||
	    !vf_thr[thread - VF_THR_ID_BASE].live) {
		vf_join_bad ++;
		return (ESRCH);
	}
	if (VF_MAY_FAIL()) {
		int e = vf_errno_any();
		vf_faults ++;
		vf_join_failed ++;
		if (e == EDEADLK)
			vf_join_edeadlk = 1;
		return (e);
	}
	vf_thr[thread - VF_THR_ID_BASE].live = 0;
	vf_threads_live --;
	vf_join_ok ++;
	vf_thread_finished(vf_thr[thread - VF_THR_ID_BASE].arg);
	return (0);
}
int vf_nanosleep_calls;
int nanosleep(const struct timespec *req, struct timespec *rem) {
	vf_nanosleep_calls ++;
	vf_other_threads_step();
	return (0);
}
int sched_yield(void) { vf_other_threads_step(); return (0); }

/* ---- misc ------------------------------------------------------------------------- */
long vf_sysconf_val;			/* harness: value of _SC_NPROCESSORS_CONF, -1 = unknown */
long sysconf(int name) { return (vf_sysconf_val); }
int vf_dtablesize;			/* harness */
int getdtablesize(void) { return (vf_dtablesize); }
int vf_write_calls, vf_write_ok, vf_write_last_fd;
int vf_write_ok_by_fd[VF_FD_MAX];	/* successful writes per descriptor of the ledger */
ssize_t write(int fd, const void *buf, size_t n) {
	vf_write_calls ++;
	vf_write_last_fd = fd;
	if (!vf_fd_open_p(fd)) {
		errno = EBADF;
		return (-1);
	}
	if (VF_MAY_FAIL())
		return (vf_fail());
	vf_write_ok ++;
	vf_write_ok_by_fd[fd - VF_FD_BASE] ++;
	return ((ssize_t)n);
}
void syslog(int pri, const char *fmt, ...) { }
int snprintf(char *s, size_t n, const char *fmt, ...) {
	if (n > 0)
		s[0] = 0;
	return (0);
}
void explicit_bzero(void *p, size_t n) { memset(p, 0, n); }

/* what the (assumed) kernel reports for the wake-ups of the dispatcher: at most one report, then the
 * thread is asked to leave its loop (as the shutdown message would) */
int vf_ew_calls, vf_ew_ret; uint32_t vf_ew_events; void *vf_ew_ptr;
volatile size_t *vf_ew_state_to_stop; size_t vf_ew_stop_value;
int epoll_wait(int epfd, struct epoll_event *events, int maxevents, int timeout) {
	vf_ew_calls ++;
	if (vf_ew_state_to_stop != NULL)
		*vf_ew_state_to_stop = vf_ew_stop_value;
	if (vf_ew_calls > 1)
		return (0);
	if (vf_ew_ret == 1) {
		events[0].events = vf_ew_events;
		events[0].data.ptr = vf_ew_ptr;
	}
	if (vf_ew_ret == -1)
		errno = nondet_bool() ? EINTR : EBADF;
	return (vf_ew_ret);
}
ssize_t read(int fd, void *buf, size_t n) {
	errno = EAGAIN;
	return (-1);
}
int getsockopt(int s, int level, int optname, void *optval, socklen_t *optlen) { return (vf_fail()); }
pid_t waitpid(pid_t pid, int *status, int options) { if (status) *status = nondet_int(); return (pid); }
#endif
#endif
