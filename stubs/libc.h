/*
 * Assumed contracts of libc functions (DESIGN.md section 8 item 3).
 * Used with `--replace-call-with-contract <fn>`: the requires clause is ASSERTED at
 * every call site in the code under verification (so an out-of-span call is a failed
 * "precondition" obligation), the ensures clause is ASSUMED.  Every use is listed in
 * the evidence `assumptions`.  Include after <string.h>.
 */
#ifndef VF_STUBS_LIBC_H
#define VF_STUBS_LIBC_H
#ifndef VF_REPLAY
#include <string.h>
#include <strings.h>

#include "vf/vf.h"
#define VF_RET_IN(ret, s, n)	VF_IN_OR_NULL((ret), (s), 0, (n))

void *memchr(const void *s, int c, size_t n)
__CPROVER_requires(n == 0 || __CPROVER_r_ok(s, n))
__CPROVER_assigns()
__CPROVER_ensures(VF_RET_IN(__CPROVER_return_value, s, n))
__CPROVER_ensures(__CPROVER_return_value != NULL ==>
    *(const unsigned char *)__CPROVER_return_value == (unsigned char)c)
;

void *memrchr(const void *s, int c, size_t n)
__CPROVER_requires(n == 0 || __CPROVER_r_ok(s, n))
__CPROVER_assigns()
__CPROVER_ensures(VF_RET_IN(__CPROVER_return_value, s, n))
__CPROVER_ensures(__CPROVER_return_value != NULL ==>
    *(const unsigned char *)__CPROVER_return_value == (unsigned char)c)
;

void *memmem(const void *h, size_t hn, const void *nd, size_t nn)
__CPROVER_requires(hn == 0 || __CPROVER_r_ok(h, hn))
__CPROVER_requires(nn == 0 || __CPROVER_r_ok(nd, nn))
__CPROVER_assigns()
__CPROVER_ensures(__CPROVER_return_value == NULL || (nn <= hn &&
    VF_IN_OR_NULL(__CPROVER_return_value, h, 0, hn - nn + 1)))
;

int memcmp(const void *a, const void *b, size_t n)
__CPROVER_requires(n == 0 || (__CPROVER_r_ok(a, n) && __CPROVER_r_ok(b, n)))
__CPROVER_assigns()
__CPROVER_ensures(1)
;

/* strncasecmp on memory spans: reads at most n bytes of each (stops at NUL) */
int strncasecmp(const char *a, const char *b, size_t n)
__CPROVER_requires(n == 0 || (__CPROVER_r_ok(a, n) && __CPROVER_r_ok(b, n)))
__CPROVER_assigns()
__CPROVER_ensures(1)
;
#endif
#endif
