/*
 * Byte-loop models of memset / memcpy / memmove for the C01 (big_num.h) proofs at digit widths
 * above 8 bit.  Included by contracts/bn.h when -DVF_BN_MEM_MODELS is given.
 *
 * Why: cbmc 6.11 models these three functions with __CPROVER_array_set / array_copy /
 * array_replace over a byte view of the destination.  When the destination is an array of wider
 * elements (uint16/32/64 digits) and the length is symbolic, that model is imprecise: e.g. after
 * `memset(a, 0, n * 8)` on `uint64_t a[4]`, `a[0] == 0` is reported violated (minimal
 * reproduction in the C01 notes; with uint8 elements the builtin model is exact).  The loops
 * below are the textbook definitions of the three functions; they are unwound with
 * --unwindset memset.0:K,memcpy.0:K,memmove.0:K,memmove.1:K (K = largest byte count + 2) and
 * their unwinding assertions are checked.  Listed in every job's assumptions ("libc model").
 */
#ifndef VF_STUBS_BN_H
#define VF_STUBS_BN_H
#if defined(VF_BN_MEM_MODELS) && !defined(VF_REPLAY)
#include <stddef.h>

void *
memset(void *s, int c, size_t n) {
	unsigned char *p = (unsigned char *)s;
	for (size_t i = 0; i < n; i ++)
		p[i] = (unsigned char)c;
	return (s);
}

void *
memcpy(void *dst, const void *src, size_t n) {
	unsigned char *d = (unsigned char *)dst;
	const unsigned char *s = (const unsigned char *)src;
	for (size_t i = 0; i < n; i ++)
		d[i] = s[i];
	return (dst);
}

void *
memmove(void *dst, const void *src, size_t n) {
	unsigned char *d = (unsigned char *)dst;
	const unsigned char *s = (const unsigned char *)src;
	if (!__CPROVER_same_object(dst, src) || d <= s) {
		for (size_t i = 0; i < n; i ++)
			d[i] = s[i];
	} else {
		for (size_t i = n; i > 0; i --)
			d[i - 1] = s[i - 1];
	}
	return (dst);
}
#endif
#endif
