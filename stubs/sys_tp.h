/*
 * Assumed contracts (as executable stubs with ghost state) of the Linux calls used by
 * src/threadpool/threadpool.c event registration: timerfd_create, timerfd_settime, epoll_ctl,
 * close, setsockopt, fcntl, syscall(pidfd_open). CBMC side only. Each call may fail
 * nondeterministically unless the harness forbids it (vf_no_faults).
 */
#ifndef VF_STUBS_SYS_TP_H
#define VF_STUBS_SYS_TP_H
#ifndef VF_REPLAY
#include <errno.h>
#include <sys/epoll.h>
#include <sys/timerfd.h>
#include <sys/socket.h>
#include <unistd.h>
#include <fcntl.h>
#include <stdarg.h>
int nondet_int(void);
_Bool nondet_bool(void);

_Bool vf_no_faults;			/* harness: 1 = resources are available, calls with valid args succeed */
int vf_fds_open;			/* ghost ledger: descriptors created minus closed */
int vf_next_fd = 100;

int vf_tfd_create_calls, vf_tfd_create_clock, vf_tfd_create_flags;
int vf_settime_calls, vf_settime_ok_calls, vf_settime_fd, vf_settime_flags;
struct itimerspec vf_settime_val;
int vf_epctl_calls, vf_epctl_ok_calls, vf_epctl_last_op, vf_epctl_last_fd, vf_epctl_last_epfd;
uint32_t vf_epctl_last_events; void *vf_epctl_last_ptr;
int vf_close_calls, vf_close_last_fd;
int vf_sockopt_calls;

static int vf_fail(void) {
	int e = nondet_int();
	__CPROVER_assume(e > 0 && e < 4096);
	errno = e;
	return (-1);
}
int timerfd_create(int clockid, int flags) {
	vf_tfd_create_calls ++;
	vf_tfd_create_clock = clockid;
	vf_tfd_create_flags = flags;
	if (!vf_no_faults && nondet_bool())
		return (vf_fail());
	vf_fds_open ++;
	return (vf_next_fd ++);
}
int timerfd_settime(int fd, int flags, const struct itimerspec *new_value, struct itimerspec *old_value) {
	vf_settime_calls ++;
	vf_settime_fd = fd;
	vf_settime_flags = flags;
	vf_settime_val = *new_value;
	/* the kernel rejects denormal timespecs */
	if (new_value->it_value.tv_nsec < 0 || new_value->it_value.tv_nsec >= 1000000000L ||
	    new_value->it_interval.tv_nsec < 0 || new_value->it_interval.tv_nsec >= 1000000000L ||
	    new_value->it_value.tv_sec < 0 || new_value->it_interval.tv_sec < 0) {
		errno = EINVAL;
		return (-1);
	}
	if (!vf_no_faults && nondet_bool())
		return (vf_fail());
	vf_settime_ok_calls ++;
	return (0);
}
int epoll_ctl(int epfd, int op, int fd, struct epoll_event *event) {
	vf_epctl_calls ++;
	vf_epctl_last_epfd = epfd;
	vf_epctl_last_op = op;
	vf_epctl_last_fd = fd;
	if (event != NULL) {
		vf_epctl_last_events = event->events;
		vf_epctl_last_ptr = event->data.ptr;
	}
	if (!vf_no_faults && nondet_bool())
		return (vf_fail());
	vf_epctl_ok_calls ++;
	return (0);
}
int close(int fd) {
	vf_close_calls ++;
	vf_close_last_fd = fd;
	vf_fds_open --;
	return (0);
}
int setsockopt(int s, int level, int optname, const void *optval, socklen_t optlen) {
	vf_sockopt_calls ++;
	return (nondet_bool() ? 0 : vf_fail());
}
long syscall(long number, ...) {	/* pidfd_open */
	if (!vf_no_faults && nondet_bool())
		return (vf_fail());
	vf_fds_open ++;
	return (vf_next_fd ++);
}
int fcntl(int fd, int cmd, ...) {
	if (!vf_no_faults && nondet_bool())
		return (vf_fail());
	return (0);
}
#endif
#endif

/* ---- additional stubs for one iteration of tpt_loop (harness/C06/loop_iter.c) ---- */
#ifndef VF_REPLAY
#ifdef VF_LOOP_STUBS
#include <sys/wait.h>
#include <syslog.h>
uint32_t nondet_uint32_t(void);
/* what the (assumed) kernel reports for the single wake-up of this iteration */
int vf_ew_calls, vf_ew_ret; uint32_t vf_ew_events; void *vf_ew_ptr; int *vf_ew_state_to_stop; int vf_ew_stop_value;
int epoll_wait(int epfd, struct epoll_event *events, int maxevents, int timeout) {
	vf_ew_calls ++;
	/* after this wake-up the thread is asked to stop, so that exactly one iteration is observed */
	if (vf_ew_state_to_stop != NULL)
		*vf_ew_state_to_stop = vf_ew_stop_value;
	if (vf_ew_calls > 1)
		return (0);
	if (vf_ew_ret == 1) {
		events[0].events = vf_ew_events;
		events[0].data.ptr = vf_ew_ptr;
	}
	if (vf_ew_ret == -1)
		errno = nondet_bool() ? EINTR : EBADF;
	return (vf_ew_ret);
}
ssize_t read(int fd, void *buf, size_t n) {
	if (n >= sizeof(uint64_t) && nondet_bool()) { *(uint64_t *)buf = 1; return (8); }
	errno = EAGAIN;
	return (-1);
}
int vf_so_error_ok, vf_so_error_val;
int getsockopt(int s, int level, int optname, void *optval, socklen_t *optlen) {
	if (vf_so_error_ok) { *(int *)optval = vf_so_error_val; return (0); }
	return (vf_fail());
}
pid_t waitpid(pid_t pid, int *status, int options) { if (status) *status = nondet_int(); return (pid); }
void syslog(int pri, const char *fmt, ...) { }
#endif
#endif
