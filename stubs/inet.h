/*
 * Models of the external functions used by src/net/socket_address.c and src/net/utils.c (C18):
 * inet_ntop, inet_pton (libc resolver), strnlen, errno.
 * CBMC side only; natively (-DVF_REPLAY) the real libc functions are used.
 * Include BEFORE "src/net/socket_address.c".
 *
 * Select one of
 *   -DVF_INET_ABSTRACT  assumed contract, as an executable stub with nondeterministic result
 *                       (every behaviour the manual page allows; used by the safety/content proofs):
 *       inet_ntop(af, src, dst, size): af not INET/INET6 -> NULL, errno = EAFNOSUPPORT;
 *           otherwise reads the 4/16 address bytes and either writes a NUL-terminated string of a
 *           nondeterministic length L (7..15 / 2..45) over the alphabet [0-9a-f:.] into dst[0..L]
 *           provided L < size, or - when L >= size - fails with NULL, errno = ENOSPC, nothing written.
 *           The text and L are recorded in the ghosts vf_ntop_txt / vf_ntop_len.
 *       inet_pton(af, src, dst): reads src up to and including its terminating NUL (so an
 *           unterminated temporary is an out-of-bounds read), records the text in the ghosts
 *           vf_pton_txt / vf_pton_len, and nondeterministically rejects (0) or accepts (1, writes
 *           4/16 nondeterministic bytes to dst); af not INET/INET6 -> -1, errno = EAFNOSUPPORT.
 *   -DVF_INET_EXEC      executable reference models (used by the round-trip proofs):
 *       inet_ntop: AF_INET exact dotted quad (decimal, no leading zeros); AF_INET6 the full
 *           uncompressed lower-case form "xxxx:xxxx:xxxx:xxxx:xxxx:xxxx:xxxx:xxxx" (39 chars) - valid
 *           text that every inet_pton accepts; RFC 5952 zero compression is NOT modelled.
 *       inet_pton: AF_INET as glibc inet_pton4 (four decimal octets 0..255, no leading zero, nothing
 *           else); AF_INET6 as glibc inet_pton6 (1..4 hex digits per group, one "::") without the
 *           embedded dotted-quad tail.
 */
#ifndef VF_STUBS_INET_H
#define VF_STUBS_INET_H
#include <sys/types.h>
#include <sys/socket.h>
#include <sys/un.h>
#include <netinet/in.h>
#include <arpa/inet.h>
#include <errno.h>
#include <string.h>
#include <stdint.h>

/* strlcpy: src/net/socket_address.c gets the project's own fallback (include/al/os.h via
 * utils/mem_utils.h) because HAVE_STRLCPY is undefined - exactly what cmake decides on this
 * glibc (2.36, no strlcpy). That fallback is real library code and is verified with the caller;
 * its strlen/memcpy are CBMC's built-in models. */

#define VF_NTOP_MAX	46	/* INET6_ADDRSTRLEN */
#define VF_PTON_MAX	128	/* >= STR_ADDR_LEN (112) */

#ifndef VF_REPLAY
/* ---------------------------------------------------------------------------- CBMC ---- */
/* errno as a plain object (glibc: *__errno_location(), which no assigns clause can name) */
#undef errno
int vf_errno;
#define errno vf_errno

char nondet_char(void);
size_t nondet_size_t(void);
_Bool nondet_bool(void);
uint8_t nondet_uint8_t(void);

/* ghost log of the last successful inet_ntop / the last inet_pton call */
char vf_ntop_txt[VF_NTOP_MAX];
size_t vf_ntop_len;
char vf_pton_txt[VF_PTON_MAX];
size_t vf_pton_len;
int vf_pton_calls;
int vf_pton_last_af, vf_pton_last_ret;

/* POSIX strnlen(3) */
size_t strnlen(const char *s, size_t maxlen) {
	size_t n = 0;
	while (n < maxlen && s[n] != 0)
		n ++;
	return (n);
}

#if defined(VF_INET_ABSTRACT)
const char *inet_ntop(int af, const void *src, char *dst, socklen_t size) {
	size_t lo, hi, len;
	if (af == AF_INET) {
		lo = 7; hi = INET_ADDRSTRLEN - 1;
		__CPROVER_assert(__CPROVER_r_ok(src, 4), "inet_ntop: 4 address bytes readable");
	} else if (af == AF_INET6) {
		lo = 2; hi = INET6_ADDRSTRLEN - 1;
		__CPROVER_assert(__CPROVER_r_ok(src, 16), "inet_ntop: 16 address bytes readable");
	} else {
		errno = EAFNOSUPPORT;
		return (NULL);
	}
	len = nondet_size_t();
	__CPROVER_assume(lo <= len && len <= hi);
	if (len >= size) {
		errno = ENOSPC;
		return (NULL);
	}
	for (size_t i = 0; i < len; i ++) {
		char c = nondet_char();
		__CPROVER_assume((c >= '0' && c <= '9') || (c >= 'a' && c <= 'f') || c == ':' || c == '.');
		dst[i] = c;
		vf_ntop_txt[i] = c;
	}
	dst[len] = 0;
	vf_ntop_len = len;
	return (dst);
}

int inet_pton(int af, const char *src, void *dst) {
	size_t n = 0;
	if (af != AF_INET && af != AF_INET6) {
		errno = EAFNOSUPPORT;
		return (-1);
	}
	/* the text is read up to its NUL */
	while (src[n] != 0) {
		__CPROVER_assert(n < VF_PTON_MAX - 1, "inet_pton ghost log large enough");
		vf_pton_txt[n] = src[n];
		n ++;
	}
	vf_pton_txt[n] = 0;
	vf_pton_len = n;
	vf_pton_calls ++;
	vf_pton_last_af = af;
	if (nondet_bool()) {
		vf_pton_last_ret = 0;
		return (0);
	}
	for (size_t i = 0; i < (af == AF_INET ? 4u : 16u); i ++)
		((uint8_t *)dst)[i] = nondet_uint8_t();
	vf_pton_last_ret = 1;
	return (1);
}

#elif defined(VF_INET_EXEC)
static size_t vf_fmt_u8(uint8_t v, char *out) {
	size_t n = 0;
	if (v >= 100) out[n ++] = (char)('0' + v / 100);
	if (v >= 10) out[n ++] = (char)('0' + (v / 10) % 10);
	out[n ++] = (char)('0' + v % 10);
	return (n);
}
static char vf_hexdig(unsigned v) {
	return ((char)(v < 10 ? '0' + v : 'a' + (v - 10)));
}
const char *inet_ntop(int af, const void *src, char *dst, socklen_t size) {
	char tmp[VF_NTOP_MAX];
	size_t n = 0;
	const uint8_t *a = (const uint8_t *)src;
	if (af == AF_INET) {
		for (unsigned i = 0; i < 4; i ++) {
			if (i != 0) tmp[n ++] = '.';
			n += vf_fmt_u8(a[i], tmp + n);
		}
	} else if (af == AF_INET6) {
		for (unsigned i = 0; i < 8; i ++) {
			if (i != 0) tmp[n ++] = ':';
			tmp[n ++] = vf_hexdig(a[2 * i] >> 4);
			tmp[n ++] = vf_hexdig(a[2 * i] & 15u);
			tmp[n ++] = vf_hexdig(a[2 * i + 1] >> 4);
			tmp[n ++] = vf_hexdig(a[2 * i + 1] & 15u);
		}
	} else {
		errno = EAFNOSUPPORT;
		return (NULL);
	}
	if (n >= size) {
		errno = ENOSPC;
		return (NULL);
	}
	for (size_t i = 0; i < n; i ++)
		dst[i] = tmp[i];
	dst[n] = 0;
	return (dst);
}

/* glibc resolv/inet_pton.c inet_pton4 */
static int vf_pton4(const char *src, uint8_t *dst) {
	int saw_digit = 0, octets = 0;
	uint8_t tmp[4];
	unsigned tp = 0;
	tmp[0] = 0;
	for (size_t i = 0; src[i] != 0; i ++) {
		char ch = src[i];
		if (ch >= '0' && ch <= '9') {
			unsigned nw = tmp[tp] * 10u + (unsigned)(ch - '0');
			if (saw_digit && tmp[tp] == 0)
				return (0);
			if (nw > 255)
				return (0);
			tmp[tp] = (uint8_t)nw;
			if (!saw_digit) {
				if (++ octets > 4)
					return (0);
				saw_digit = 1;
			}
		} else if (ch == '.' && saw_digit) {
			if (octets == 4)
				return (0);
			tmp[++ tp] = 0;
			saw_digit = 0;
		} else
			return (0);
	}
	if (octets < 4)
		return (0);
	for (unsigned i = 0; i < 4; i ++)
		dst[i] = tmp[i];
	return (1);
}
static int vf_hexval(char ch) {
	if (ch >= '0' && ch <= '9') return (ch - '0');
	if (ch >= 'a' && ch <= 'f') return (ch - 'a' + 10);
	if (ch >= 'A' && ch <= 'F') return (ch - 'A' + 10);
	return (-1);
}
/* glibc resolv/inet_pton.c inet_pton6, without the embedded IPv4 tail */
static int vf_pton6(const char *src, uint8_t *dst) {
	uint8_t tmp[16];
	size_t tp = 0, colonp = 16 + 1 /* none */, i = 0, xdigits = 0;
	unsigned val = 0;
	for (unsigned k = 0; k < 16; k ++)
		tmp[k] = 0;
	if (src[0] == ':') {
		if (src[1] != ':')
			return (0);
		i = 1;
	}
	for (; src[i] != 0; i ++) {
		char ch = src[i];
		int d = vf_hexval(ch);
		if (d >= 0) {
			if (xdigits == 4)
				return (0);
			val = (val << 4) | (unsigned)d;
			xdigits ++;
			continue;
		}
		if (ch == ':') {
			if (xdigits == 0) {
				if (colonp != 17)
					return (0);
				colonp = tp;
				continue;
			} else if (src[i + 1] == 0)
				return (0);
			if (tp + 2 > 16)
				return (0);
			tmp[tp ++] = (uint8_t)(val >> 8);
			tmp[tp ++] = (uint8_t)(val & 0xff);
			xdigits = 0;
			val = 0;
			continue;
		}
		return (0);
	}
	if (xdigits > 0) {
		if (tp + 2 > 16)
			return (0);
		tmp[tp ++] = (uint8_t)(val >> 8);
		tmp[tp ++] = (uint8_t)(val & 0xff);
	}
	if (colonp != 17) {
		if (tp == 16)
			return (0);
		size_t n = tp - colonp;
		for (size_t j = 1; j <= n; j ++) {
			tmp[16 - j] = tmp[colonp + n - j];
			tmp[colonp + n - j] = 0;
		}
		tp = 16;
	}
	if (tp != 16)
		return (0);
	for (unsigned k = 0; k < 16; k ++)
		dst[k] = tmp[k];
	return (1);
}
int inet_pton(int af, const char *src, void *dst) {
	if (af == AF_INET)
		return (vf_pton4(src, (uint8_t *)dst));
	if (af == AF_INET6)
		return (vf_pton6(src, (uint8_t *)dst));
	errno = EAFNOSUPPORT;
	return (-1);
}
#endif /* model selection */

#else
/* native: the real libc inet_ntop / inet_pton / strnlen / errno */
#endif
#endif
