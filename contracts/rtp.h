/*
 * Contract for include/proto/rtp.h rtp_payload_get (property C13).
 * Redeclaration only; include BEFORE "proto/rtp.h".
 *
 * Input model: the datagram is an exact-size span of buf_size hostile bytes; buf_size is
 * symbolic (0 <= buf_size <= VF_RTP_PKT_MAX, default: no protocol bound, i.e. any size CBMC can
 * allocate); every byte (version, CSRC count, extension length, padding count) unconstrained.
 * The two out-parameters are the caller's own objects (the function does not test them for NULL).
 */
#ifndef VF_CONTRACTS_RTP_H
#define VF_CONTRACTS_RTP_H
#include "vf/vf.h"
#include <sys/types.h>
#include <errno.h>
#include <netinet/in.h>
#include <arpa/inet.h>

#ifndef VF_RTP_PKT_MAX
#define VF_RTP_PKT_MAX		(((size_t)1) << 48)
#endif
#define VF_RTP_HDR_SIZE		((size_t)12)	/* sizeof(rtp_hdr_t) */

#ifndef VF_REPLAY
static inline int
rtp_payload_get(const uint8_t *buf, const size_t buf_size, size_t *start_off, size_t *end_off)
__CPROVER_requires(buf_size <= VF_RTP_PKT_MAX)
__CPROVER_requires(__CPROVER_is_fresh(buf, buf_size))
__CPROVER_requires(__CPROVER_is_fresh(start_off, sizeof(size_t)))
__CPROVER_requires(__CPROVER_is_fresh(end_off, sizeof(size_t)))
__CPROVER_assigns(*start_off, *end_off)
__CPROVER_ensures(__CPROVER_return_value == 0 || __CPROVER_return_value == EINVAL)
/* a datagram shorter than the fixed header is refused */
__CPROVER_ensures(buf_size < VF_RTP_HDR_SIZE ==> __CPROVER_return_value == EINVAL)
/* payload = buf[start_off .. buf_size - end_off): lies inside the datagram, after the fixed header */
__CPROVER_ensures(__CPROVER_return_value == 0 ==> (VF_RTP_HDR_SIZE <= *start_off &&
    *start_off <= buf_size && *end_off <= buf_size - *start_off))
/* padding count comes from one octet */
__CPROVER_ensures(__CPROVER_return_value == 0 ==> *end_off <= 255)
/* refused datagram: outputs untouched */
__CPROVER_ensures(__CPROVER_return_value != 0 ==> (*start_off == __CPROVER_old(*start_off) &&
    *end_off == __CPROVER_old(*end_off)))
;
#endif
#endif
