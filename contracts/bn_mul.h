/*
 * C01 rung 2: multiplicative layer of include/math/big_num.h.  Included from contracts/bn.h.
 *
 * Proved modularly (callee contracts of rung 0/1 replace the callee bodies) and only for small
 * configurations (W = 8, <= 4 digits): the specifications contain products of wide values.
 */
#ifndef VF_CONTRACTS_BN_MUL_H
#define VF_CONTRACTS_BN_MUL_H
#ifndef VF_REPLAY

#define VF_MASKW(n)	(VF_POW2W(n) - 1)
/* -DVF_BN_LIGHT_CALLEES: value clauses (products, quotients, remainders) of bn_div, bn_mod_mult,
 * bn_mod_mult_digit, bn_mod_exp* are compiled out.  Only for jobs that REPLACE these functions and do not
 * need their values (bn_mod_sqrt: 45 call sites): weaker assumptions, still sound. */
#ifdef VF_BN_LIGHT_CALLEES
#define VF_HEAVY(c)	1
#else
#define VF_HEAVY(c)	(c)
#endif

/* "Term-aligned" product of an array (entry value) and a digit: the sum of the per-digit
 * double-width products, written with the operand order of the code (d * b[i]) so that every
 * product term coincides with the one in bn_digit_mult__int's contract:
 *      VF_MULD_OLD(b, n, d) = sum_{i<n} ((2W)(d) * (2W)(b[i])) << (W*i)
 * It is mathematically equal to val(b) * d (distributivity); CBMC proves the digit functions
 * against this form in seconds (adder reasoning only), whereas the closed product form is a
 * multiplier-equivalence problem that no back end decides beyond two 8-bit digits.  The closed
 * form is therefore ADDED to these contracts only under -DVF_BN_ASSUME_DISTRIB, for use by
 * callers that replace the digit functions (bn_mult, bn_mult_digit, bn_div); those jobs list the
 * identity  sum_i (d*b_i)*B^i == d * sum_i b_i*B^i  as an assumption. */
#define VF_MT(b, n, d, i) ((((i) < BN_MAX_DIGITS) && ((size_t)(i) < (size_t)(n))) ?		\
	(((vf_bnv_t)(((vf_dd_t)(d)) * ((vf_dd_t)__CPROVER_old((b)[((size_t)(i) < (size_t)(n) && (i) < BN_MAX_DIGITS) ? (i) : 0])))) << ((VF_W * (i)) % VF_BN_VBITS)) : (vf_bnv_t)0)
#define VF_MULD_OLD(b, n, d) (								\
	VF_MT(b,n,d,0) + VF_MT(b,n,d,1) + VF_MT(b,n,d,2) + VF_MT(b,n,d,3) +			\
	VF_MT(b,n,d,4) + VF_MT(b,n,d,5) + VF_MT(b,n,d,6) + VF_MT(b,n,d,7))
#if BN_BIT_LEN / BN_DIGIT_BIT_CNT > 8
#define VF_DISTRIB(c)	1	/* term-aligned specs cover at most 8 digits: rung 2 is W = 8, <= 4 digits */
#define VF_CLOSED(c)	VF_VALUE(c)
#elif defined(VF_BN_ASSUME_DISTRIB)
#define VF_DISTRIB(c)	VF_VALUE(c)
#define VF_CLOSED(c)	VF_VALUE(c)
#else
#define VF_DISTRIB(c)	VF_VALUE(c)
#define VF_CLOSED(c)	1
#endif

/* a = (a * d) mod 2^(W*a_count)  (the carry out of the top digit is dropped as coded; the only
 * caller, bn_mult_digit, extends a by one zero digit first) */
static inline void
bn_digits_mult_digit__int(bn_digit_t *a, size_t a_count, bn_digit_t d)
__CPROVER_requires(a_count == 0 || (a != NULL && VF_DS_RW(a, a_count)))
__CPROVER_requires(VF_VALUE(a != NULL && __CPROVER_r_ok(a, sizeof(bn_digit_t))))
__CPROVER_assigns(a_count != 0: __CPROVER_object_upto(a, VF_DS_SZ(a_count)))
__CPROVER_ensures(VF_DISTRIB(VF_DIGITS_VAL(a, a_count) == (VF_MULD_OLD(a, a_count, d) & VF_MASKW(a_count))))
__CPROVER_ensures(VF_CLOSED(VF_DIGITS_VAL(a, a_count) == ((VF_DIGITS_OLD(a, a_count) * d) & VF_MASKW(a_count))))
;
/* a = (a + b * d) mod 2^(W*a_count); a_count >= b_count, a and b do not overlap (bn_mult passes
 * &bn->num[j] and the digits of a temporary copy / of n) */
static inline void
bn_digits_add_digit_mult__int(bn_digit_t *a, size_t a_count, bn_digit_t *b, size_t b_count, bn_digit_t d)
__CPROVER_requires(a_count >= b_count && a != NULL && b != NULL && VF_DS_RW(a, a_count) && VF_DS_R(b, b_count))
__CPROVER_requires(VF_DS_DISJOINT(a, a_count, b, b_count))
__CPROVER_requires(VF_VALUE(__CPROVER_r_ok(a, sizeof(bn_digit_t)) && __CPROVER_r_ok(b, sizeof(bn_digit_t))))
__CPROVER_assigns(b_count != 0: __CPROVER_object_upto(a, VF_DS_SZ(a_count)))
__CPROVER_ensures(VF_DISTRIB(VF_DIGITS_VAL(a, a_count) ==
    ((VF_DIGITS_OLD(a, a_count) + VF_MULD_OLD(b, b_count, d)) & VF_MASKW(a_count))))
__CPROVER_ensures(VF_CLOSED(VF_DIGITS_VAL(a, a_count) ==
    ((VF_DIGITS_OLD(a, a_count) + VF_DIGITS_OLD(b, b_count) * d) & VF_MASKW(a_count))))
;
/* a = (a - b * d) mod 2^(W*a_count); *borrow (optional) receives what could not be subtracted:
 * 0/1 when a_count > b_count, a whole digit when a_count == b_count */
static inline void
bn_digits_sub_digit_mult__int(bn_digit_t *a, size_t a_count, bn_digit_t *b, size_t b_count, bn_digit_t d,
    bn_digit_t *borrow)
__CPROVER_requires(a_count >= b_count && a != NULL && b != NULL && VF_DS_RW(a, a_count) && VF_DS_R(b, b_count))
__CPROVER_requires(VF_DS_DISJOINT(a, a_count, b, b_count))
__CPROVER_requires(VF_VALUE(__CPROVER_r_ok(a, sizeof(bn_digit_t)) && __CPROVER_r_ok(b, sizeof(bn_digit_t))))
__CPROVER_requires(borrow == NULL || (VF_D_OK(borrow) && VF_D_OUTSIDE(borrow, a, a_count) && VF_D_OUTSIDE(borrow, b, b_count)))
__CPROVER_assigns(b_count != 0: __CPROVER_object_upto(a, VF_DS_SZ(a_count)))
__CPROVER_assigns(borrow != NULL: *borrow)
__CPROVER_ensures(VF_DISTRIB(b_count != 0 ==> VF_DIGITS_VAL(a, a_count) ==
    ((VF_DIGITS_OLD(a, a_count) + (VF_POW2W(a_count) << VF_W) - VF_MULD_OLD(b, b_count, d)) & VF_MASKW(a_count))))
__CPROVER_ensures(VF_DISTRIB((borrow != NULL && b_count != 0) ==>
    VF_DIGITS_VAL(a, a_count) + VF_MULD_OLD(b, b_count, d) ==
    VF_DIGITS_OLD(a, a_count) + (((vf_bnv_t)*borrow) << (VF_W * a_count))))
__CPROVER_ensures(VF_CLOSED(b_count != 0 ==> VF_DIGITS_VAL(a, a_count) ==
    ((VF_DIGITS_OLD(a, a_count) + (VF_POW2W(a_count) << VF_W) - VF_DIGITS_OLD(b, b_count) * d) & VF_MASKW(a_count))))
;

/* bn *= n: zero operand -> 0; EOVERFLOW exactly when both are non-zero and
 * digits(bn) + digits(n) > count (as coded: the product is not computed then); else exact. */
static inline int
bn_mult(bn_p bn, bn_p n)
__CPROVER_requires(VF_BN_BINOP_PRE(bn, n))
__CPROVER_assigns(VF_BN_FRAME(bn))
__CPROVER_ensures(__CPROVER_return_value == ((VF_BN_OLDVAL(bn) != 0 && VF_BN_OLDVAL(n) != 0 &&
    __CPROVER_old(bn->digits) + __CPROVER_old(n->digits) > bn->count) ? EOVERFLOW : 0))
__CPROVER_ensures(VF_BN_WF(*bn))
__CPROVER_ensures(__CPROVER_return_value == 0 ==> VF_BN_VAL(*bn) == VF_BN_OLDVAL(bn) * VF_BN_OLDVAL(n))
__CPROVER_ensures(__CPROVER_return_value != 0 ==> VF_BN_VAL(*bn) == VF_BN_OLDVAL(bn))
;
static inline int
bn_square(bn_p bn)
__CPROVER_requires(VF_BN_IN(bn))
__CPROVER_assigns(VF_BN_FRAME(bn))
__CPROVER_ensures(__CPROVER_return_value == ((VF_BN_OLDVAL(bn) != 0 && 2 * __CPROVER_old(bn->digits) > bn->count) ? EOVERFLOW : 0))
__CPROVER_ensures(VF_BN_WF(*bn))
__CPROVER_ensures(__CPROVER_return_value == 0 ==> VF_BN_VAL(*bn) == VF_BN_OLDVAL(bn) * VF_BN_OLDVAL(bn))
__CPROVER_ensures(__CPROVER_return_value != 0 ==> VF_BN_VAL(*bn) == VF_BN_OLDVAL(bn))
;
/* bn *= n (digit): success implies the exact product; a product that fits count - 1 digits... is
 * always accepted.  EOVERFLOW may be reported conservatively (as coded: digits == count, n > 3). */
static inline int
bn_mult_digit(bn_p bn, bn_digit_t n)
__CPROVER_requires(VF_BN_IN(bn))
__CPROVER_assigns(VF_BN_FRAME(bn))
__CPROVER_ensures(__CPROVER_return_value == 0 || __CPROVER_return_value == EOVERFLOW)
__CPROVER_ensures(__CPROVER_return_value == 0 ==> VF_BN_WF(*bn))
__CPROVER_ensures(__CPROVER_return_value == 0 ==> VF_BN_VAL(*bn) == VF_BN_OLDVAL(bn) * n)
__CPROVER_ensures((VF_BN_OLDVAL(bn) == 0 || n <= 1 || __CPROVER_old(bn->digits) < bn->count) ==> __CPROVER_return_value == 0)
;

/* bn = bn / d, remainder = bn % d.
 *   d == 0 -> EINVAL.  Otherwise 0 or EOVERFLOW; on success quotient and remainder are exact.
 *   remainder == NULL: quotient only; remainder == bn: bn receives the remainder (bn_mod);
 *   bn == d: quotient 1, remainder 0.
 *   EOVERFLOW (as coded) exactly when
 *     - bn > d and the dividend, shifted left by the leading zeros of d's top digit (Knuth D
 *       normalisation), does not fit bn's capacity:  (bn << clz(d_top)) >= 2^(W*count), or
 *     - a separate `remainder` has fewer digits of capacity than the remainder needs
 *       (only possible if remainder->count < d->digits).
 * Quotient and remainder are stated multiplication-side (q * d + r == n, r < d); only the
 * form remainder == bn, where the quotient is not returned, uses `%`. */
#define VF_DIV_DTOP(d)	__CPROVER_old((d)->num[((d)->digits != 0) ? ((d)->digits - 1) : 0])
#define VF_DIV_NOFIT(bn, d)	(VF_BN_OLDVAL(bn) > VF_BN_OLDVAL(d) &&				\
	(VF_BN_OLDVAL(bn) << vf_d_clz(VF_DIV_DTOP(d))) >= VF_BN_CAP(*(bn)))
static inline int
bn_div(bn_p bn, bn_p d, bn_p remainder)
__CPROVER_requires(VF_BN_BINOP_PRE(bn, d))
__CPROVER_requires(remainder == NULL || remainder == bn ||
    (VF_BN_OK(remainder) && VF_BN_CNT_OK(remainder) && remainder->digits <= remainder->count &&
     !__CPROVER_same_object(remainder, bn) && !__CPROVER_same_object(remainder, d)))
__CPROVER_assigns(VF_BN_FRAME(bn))
__CPROVER_assigns(remainder != NULL && remainder != bn: VF_BN_FRAME(remainder))
/* decision */
__CPROVER_ensures(__CPROVER_return_value == 0 || __CPROVER_return_value == EINVAL || __CPROVER_return_value == EOVERFLOW)
__CPROVER_ensures((__CPROVER_return_value == EINVAL) == (VF_BN_OLDVAL(d) == 0))
__CPROVER_ensures((VF_BN_OLDVAL(d) != 0 && VF_DIV_NOFIT(bn, d)) ==> __CPROVER_return_value == EOVERFLOW)
__CPROVER_ensures(__CPROVER_return_value == EOVERFLOW ==> (VF_DIV_NOFIT(bn, d) ||
    (remainder != NULL && remainder != bn && remainder->count < __CPROVER_old(d->digits))))
/* value */
__CPROVER_ensures((__CPROVER_return_value == 0 && remainder != bn) ==> VF_BN_WF(*bn))
__CPROVER_ensures((__CPROVER_return_value == 0 && remainder != NULL) ==> VF_BN_WF(*remainder))
__CPROVER_ensures(VF_HEAVY((__CPROVER_return_value == 0 && remainder != bn) ==> (
    VF_BN_VAL(*bn) * VF_BN_OLDVAL(d) <= VF_BN_OLDVAL(bn) &&
    VF_BN_OLDVAL(bn) - VF_BN_VAL(*bn) * VF_BN_OLDVAL(d) < VF_BN_OLDVAL(d))))
__CPROVER_ensures(VF_HEAVY((__CPROVER_return_value == 0 && remainder != NULL && remainder != bn) ==>
    VF_BN_VAL(*bn) * VF_BN_OLDVAL(d) + VF_BN_VAL(*remainder) == VF_BN_OLDVAL(bn)))
__CPROVER_ensures(VF_HEAVY((__CPROVER_return_value == 0 && remainder == bn) ==>
    VF_BN_VAL(*bn) == VF_BN_OLDVAL(bn) % VF_BN_OLDVAL(d)))
;

#endif /* !VF_REPLAY */
#endif
