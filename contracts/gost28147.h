/*
 * Contracts for include/crypto/cipher/gost28147.h (property C08).  Redeclarations only: the
 * header is not edited.  The clauses mention fields of gost28147_context_t, so this file
 * includes the unmodified header first and attaches the contracts to redeclarations after
 * the definitions.  Both builds: default (expanded tables) and -DGOST28147_USE_SMALL_TABLES.
 *
 * Reference semantics: specs/gost28147_spec.h (RFC 5830 / RFC 8891).
 *
 * Ghosts: vf_g_sbox - the S-box table the context was initialised with (8 rows x 16 entries,
 * every entry < 16).  "ctx carries sbox" (VF_G_CTX_OF):
 *   expanded build:  ctx->sboxx[j][i] == vf_gost_table_entry(sbox, j, i) for j < 4, i < 256
 *   small tables  :  ctx->sbox == sbox
 *
 * Round function gost28147_block32, two contracts selected by a macro:
 *   default               : result == ROTL11(t(sbox, src))          (RFC 8891 4.2, g without the key addition)
 *   -DVF_G_ABSTRACT_ROUND : result == F(src) for an UNINTERPRETED function F - used to prove
 *                           decrypt(encrypt(x)) == x structurally (any round function)
 */
#ifndef VF_CONTRACTS_GOST28147_H
#define VF_CONTRACTS_GOST28147_H
#include "vf/vf.h"
#if defined(VF_G_ABSTRACT_ROUND) && !defined(VF_REPLAY)
/* arbitrary round function: the code's gost28147_block32 (replaced by the abstract contract
 * below) and the spec's substitution + rotation are the SAME uninterpreted function of the
 * 32-bit sum.  What is proved with it holds for every round function, in particular for the
 * real one (gost.round.* jobs: gost28147_block32 == ROTL11(t(sbox, .)) pointwise). */
#include <stdint.h>
uint32_t __CPROVER_uninterpreted_vf_g_round(uint32_t src);
#define VF_GOST_ROUND_T(sbox, x)	__CPROVER_uninterpreted_vf_g_round(x)
#endif
#include "specs/gost28147_spec.h"
#include <errno.h>	/* the header uses EINVAL without including <errno.h> */
#include "crypto/cipher/gost28147.h"

/* every S-box entry is a 4-bit value */
static inline _Bool
vf_g_sbox_wf(const uint8_t sbox[128]) {
	unsigned i;
	_Bool ok = 1;
	for (i = 0; i < 128; i ++)
		ok = ok && (sbox[i] < 16);
	return (ok);
}

/* the data conventions of the two API families, as spec functions on bytes.
 * LE (gost28147_blocks_encrypt ...): RFC 5830, see specs/gost28147_spec.h.
 * BE (gost28147_*_be): GOST R 34.12-2015 / RFC 8891: key words and the block a = a1 || a0 are
 * big-endian byte strings; N1 = a0 = bytes 4..7, N2 = a1 = bytes 0..3. */
static inline uint32_t
vf_g_be32(const uint8_t *p) {
	return ((uint32_t)p[3] | ((uint32_t)p[2] << 8) | ((uint32_t)p[1] << 16) | ((uint32_t)p[0] << 24));
}
static inline uint8_t
vf_g_le_byte(uint32_t w, unsigned i) { return ((uint8_t)(w >> (8 * i))); }
static inline uint8_t
vf_g_be_byte(uint32_t w, unsigned i) { return ((uint8_t)(w >> (8 * (3 - i)))); }

#ifndef VF_REPLAY
static const uint8_t *vf_g_sbox;	/* ghost: S-box of the context */
static size_t vf_g_j, vf_g_i;		/* ghost indices (any value) */

#ifndef GOST28147_USE_SMALL_TABLES
#define VF_G_CTX_OF(ctx, sb_)								\
	(!(vf_g_j < 4 && vf_g_i < 256) ||						\
	 (ctx)->sboxx[vf_g_j][vf_g_i] == vf_gost_table_entry((sb_), (unsigned)vf_g_j, (unsigned)vf_g_i))
#define VF_G_CTX_TABLE_ASSIGNS(ctx)	__CPROVER_object_upto((ctx)->sboxx, sizeof((ctx)->sboxx))
/* the same statement for all 4 x 256 entries, written as a loop over concrete indices (for
 * the proving side of gost28147_init: symbolic indices into the freshly written tables do
 * not fit into memory) */
static inline _Bool
vf_g_tables_ok(const gost28147_context_t *ctx, const uint8_t *sb) {
	unsigned j, i;
	_Bool ok = 1;
	for (j = 0; j < 4; j ++)
		for (i = 0; i < 256; i ++)
			ok = ok && (ctx->sboxx[j][i] == vf_gost_table_entry(sb, j, i));
	return (ok);
}
#define VF_G_CTX_OF_ALL(ctx, sb_)	vf_g_tables_ok((ctx), (sb_))
#else
#define VF_G_CTX_OF_ALL(ctx, sb_)	((ctx)->sbox == (sb_))
#define VF_G_CTX_OF(ctx, sb_)		((ctx)->sbox == (sb_))
#define VF_G_CTX_TABLE_ASSIGNS(ctx)	(ctx)->sbox
#endif

/* ---- gost28147_init / gost28147_init_be ----
 * The postcondition is one predicate, used (a) as the ensures clause below and (b) verbatim
 * as the assertion of the plain-mode harness harness/C08/gost_init.c: under --dfcc the 1024
 * instrumented table writes need > 11 GB, without the instrumentation the same check takes 5 s. */
#define VF_G_INIT_ARGS_OK	(ctx != NULL && key != NULL && sbox != NULL && (key_size == 256 || key_size == GOST28147_KEY_SIZE))
static inline _Bool
vf_g_init_post(int ret, const uint8_t *key, size_t key_size, const uint8_t *sbox,
    const gost28147_context_t *ctx, _Bool big_endian_key) {
	unsigned i;
	_Bool ok = 1;
	if (!VF_G_INIT_ARGS_OK)
		return (ret == EINVAL);
	/* key words K1..K8 = key bytes little-endian (RFC 5830) resp. big-endian (RFC 8891 4.3) */
	for (i = 0; i < 8; i ++)
		ok = ok && (ctx->key[i] == (big_endian_key ? vf_g_be32(key + 4 * i) : vf_gost_le32(key + 4 * i)));
	/* expanded tables == S-box composition + rotate-11, all 4 x 256 entries / the S-box pointer;
	 * MAC accumulator zero */
	return (ret == 0 && ok && VF_G_CTX_OF_ALL(ctx, sbox) && ctx->mac[0] == 0 && ctx->mac[1] == 0);
}
static inline int
gost28147_init(const uint8_t *key, const size_t key_size, const uint8_t *sbox, gost28147_context_p ctx)
__CPROVER_requires(ctx == NULL || __CPROVER_w_ok(ctx, sizeof(gost28147_context_t)))
__CPROVER_requires(key == NULL || __CPROVER_r_ok(key, GOST28147_KEY_SIZE))
__CPROVER_requires(sbox == NULL || __CPROVER_r_ok(sbox, 128))
__CPROVER_assigns(VF_G_INIT_ARGS_OK: __CPROVER_object_upto(ctx->key, GOST28147_KEY_SIZE),
    VF_G_CTX_TABLE_ASSIGNS(ctx), ctx->mac[0], ctx->mac[1])
__CPROVER_ensures(vf_g_init_post(__CPROVER_return_value, key, key_size, sbox, ctx, 0))
;
static inline int
gost28147_init_be(const uint8_t *key, const size_t key_size, const uint8_t *sbox, gost28147_context_p ctx)
__CPROVER_requires(ctx == NULL || __CPROVER_w_ok(ctx, sizeof(gost28147_context_t)))
__CPROVER_requires(key == NULL || __CPROVER_r_ok(key, GOST28147_KEY_SIZE))
__CPROVER_requires(sbox == NULL || __CPROVER_r_ok(sbox, 128))
__CPROVER_assigns(VF_G_INIT_ARGS_OK: __CPROVER_object_upto(ctx->key, GOST28147_KEY_SIZE),
    VF_G_CTX_TABLE_ASSIGNS(ctx), ctx->mac[0], ctx->mac[1])
__CPROVER_ensures(vf_g_init_post(__CPROVER_return_value, key, key_size, sbox, ctx, 1))
;

/* ---- round function ---- */
#ifdef VF_G_ABSTRACT_ROUND
static inline uint32_t
gost28147_block32(gost28147_context_p ctx, const uint32_t src)
__CPROVER_requires(__CPROVER_r_ok(ctx, sizeof(gost28147_context_t)))
__CPROVER_assigns()
__CPROVER_ensures(__CPROVER_return_value == __CPROVER_uninterpreted_vf_g_round(src))
;
#else
static inline uint32_t
gost28147_block32(gost28147_context_p ctx, const uint32_t src)
__CPROVER_requires(__CPROVER_r_ok(ctx, sizeof(gost28147_context_t)))
__CPROVER_requires(__CPROVER_r_ok(vf_g_sbox, 128) && VF_G_CTX_OF(ctx, vf_g_sbox))
__CPROVER_assigns()
__CPROVER_ensures(__CPROVER_return_value == VF_GOST_ROTL(vf_gost_t(vf_g_sbox, src), 11))
;
#endif

/* ---- one block: 32-Z, 32-R, 16-Z cycles on words ---- */
static inline _Bool
vf_g_enc_ok(const uint32_t k[8], const uint8_t *sbox, uint32_t n1, uint32_t n2, uint32_t r1, uint32_t r2) {
	uint32_t o1, o2;
	vf_gost_encrypt_words(k, sbox, n1, n2, &o1, &o2);
	return (o1 == r1 && o2 == r2);
}
static inline _Bool
vf_g_dec_ok(const uint32_t k[8], const uint8_t *sbox, uint32_t n1, uint32_t n2, uint32_t r1, uint32_t r2) {
	uint32_t o1, o2;
	vf_gost_decrypt_words(k, sbox, n1, n2, &o1, &o2);
	return (o1 == r1 && o2 == r2);
}
static inline _Bool
vf_g_mac_ok(const uint32_t k[8], const uint8_t *sbox, uint32_t m1, uint32_t m2, uint32_t d1, uint32_t d2,
    uint32_t r1, uint32_t r2) {
	vf_gost_mac_words(k, sbox, &m1, &m2, d1, d2);
	return (m1 == r1 && m2 == r2);
}

#ifdef VF_G_ABSTRACT_ROUND
#define VF_G_CTX_REQUIRES								\
	__CPROVER_requires(__CPROVER_w_ok(ctx, sizeof(gost28147_context_t)))		\
	__CPROVER_requires(__CPROVER_r_ok(vf_g_sbox, 128))
#else
#define VF_G_CTX_REQUIRES								\
	__CPROVER_requires(__CPROVER_w_ok(ctx, sizeof(gost28147_context_t)))		\
	__CPROVER_requires(__CPROVER_r_ok(vf_g_sbox, 128) && VF_G_CTX_OF(ctx, vf_g_sbox))
#endif

static inline void
gost28147_block_encrypt(gost28147_context_p ctx, uint32_t n1, uint32_t n2, uint32_t *dst_n1, uint32_t *dst_n2)
VF_G_CTX_REQUIRES
__CPROVER_requires(__CPROVER_w_ok(dst_n1, 4) && __CPROVER_w_ok(dst_n2, 4))
__CPROVER_assigns(*dst_n1, *dst_n2)
/* key order 3 x (K1..K8) + (K8..K1), last round without the swap */
__CPROVER_ensures(vf_g_enc_ok(ctx->key, vf_g_sbox, n1, n2, *dst_n1, *dst_n2))
;
static inline void
gost28147_block_decrypt(gost28147_context_p ctx, uint32_t n1, uint32_t n2, uint32_t *dst_n1, uint32_t *dst_n2)
VF_G_CTX_REQUIRES
__CPROVER_requires(__CPROVER_w_ok(dst_n1, 4) && __CPROVER_w_ok(dst_n2, 4))
__CPROVER_assigns(*dst_n1, *dst_n2)
/* key order (K1..K8) + 3 x (K8..K1) */
__CPROVER_ensures(vf_g_dec_ok(ctx->key, vf_g_sbox, n1, n2, *dst_n1, *dst_n2))
;
static inline void
gost28147_mac_block(gost28147_context_p ctx, uint32_t n1, uint32_t n2)
VF_G_CTX_REQUIRES
__CPROVER_assigns(ctx->mac[0], ctx->mac[1])
/* accumulator ^= block, then 16 rounds (K1..K8) x 2 */
__CPROVER_ensures(vf_g_mac_ok(ctx->key, vf_g_sbox, __CPROVER_old(ctx->mac[0]), __CPROVER_old(ctx->mac[1]),
    n1, n2, ctx->mac[0], ctx->mac[1]))
;

#endif /* !VF_REPLAY */
#endif
