/*
 * Contracts for include/crypto/cipher/gost28147.h (property C08).  Redeclarations only: the
 * header is not edited.  The clauses mention fields of gost28147_context_t, so this file
 * includes the unmodified header first and attaches the contracts to redeclarations after
 * the definitions.  Both builds: default (expanded tables) and -DGOST28147_USE_SMALL_TABLES.
 *
 * Reference semantics: specs/gost28147_spec.h (RFC 5830 / RFC 8891).
 *
 * Ghosts: vf_g_sbox - the S-box table the context was initialised with (8 rows x 16 entries,
 * every entry < 16).  "ctx carries sbox" (VF_G_CTX_OF):
 *   expanded build:  ctx->sboxx[j][i] == vf_gost_table_entry(sbox, j, i) for j < 4, i < 256
 *   small tables  :  ctx->sbox == sbox
 *
 * Round function gost28147_block32, two contracts selected by a macro:
 *   default               : result == ROTL11(t(sbox, src))          (RFC 8891 4.2, g without the key addition)
 *   -DVF_G_ABSTRACT_ROUND : result == F(src) for an UNINTERPRETED function F - used to prove
 *                           decrypt(encrypt(x)) == x structurally (any round function)
 */
#ifndef VF_CONTRACTS_GOST28147_H
#define VF_CONTRACTS_GOST28147_H
#include "vf/vf.h"
#if defined(VF_G_ABSTRACT_ROUND) && !defined(VF_REPLAY)
/* arbitrary round function: the code's gost28147_block32 (replaced by the abstract contract
 * below) and the spec's substitution + rotation are the SAME uninterpreted function of the
 * 32-bit sum.  What is proved with it holds for every round function, in particular for the
 * real one (gost.round.* jobs: gost28147_block32 == ROTL11(t(sbox, .)) pointwise). */
#include <stdint.h>
uint32_t __CPROVER_uninterpreted_vf_g_round(uint32_t src);
#define VF_GOST_ROUND_T(sbox, x)	__CPROVER_uninterpreted_vf_g_round(x)
#endif
#include "specs/gost28147_spec.h"
#include <errno.h>	/* the header uses EINVAL without including <errno.h> */
#include "crypto/cipher/gost28147.h"

/* every S-box entry is a 4-bit value */
static inline _Bool
vf_g_sbox_wf(const uint8_t sbox[128]) {
	unsigned i;
	_Bool ok = 1;
	for (i = 0; i < 128; i ++)
		ok = ok && (sbox[i] < 16);
	return (ok);
}

/* the data conventions of the two API families, as spec functions on bytes.
 * LE (gost28147_blocks_encrypt ...): RFC 5830, see specs/gost28147_spec.h.
 * BE (gost28147_*_be): GOST R 34.12-2015 / RFC 8891: key words and the block a = a1 || a0 are
 * big-endian byte strings; N1 = a0 = bytes 4..7, N2 = a1 = bytes 0..3. */
static inline uint32_t
vf_g_be32(const uint8_t *p) {
	return ((uint32_t)p[3] | ((uint32_t)p[2] << 8) | ((uint32_t)p[1] << 16) | ((uint32_t)p[0] << 24));
}
static inline uint8_t
vf_g_le_byte(uint32_t w, unsigned i) { return ((uint8_t)(w >> (8 * i))); }
static inline uint8_t
vf_g_be_byte(uint32_t w, unsigned i) { return ((uint8_t)(w >> (8 * (3 - i)))); }

#ifndef VF_REPLAY
static const uint8_t *vf_g_sbox;	/* ghost: S-box of the context */
static size_t vf_g_j, vf_g_i;		/* ghost indices (any value) */

#ifndef GOST28147_USE_SMALL_TABLES
#define VF_G_CTX_OF(ctx, sb_)								\
	(!(vf_g_j < 4 && vf_g_i < 256) ||						\
	 (ctx)->sboxx[vf_g_j][vf_g_i] == vf_gost_table_entry((sb_), (unsigned)vf_g_j, (unsigned)vf_g_i))
#define VF_G_CTX_TABLE_ASSIGNS(ctx)	__CPROVER_object_upto((ctx)->sboxx, sizeof((ctx)->sboxx))
/* the same statement for all 4 x 256 entries, written as a loop over concrete indices (for
 * the proving side of gost28147_init: symbolic indices into the freshly written tables do
 * not fit into memory) */
static inline _Bool
vf_g_tables_ok(const gost28147_context_t *ctx, const uint8_t *sb) {
	unsigned j, i;
	_Bool ok = 1;
	for (j = 0; j < 4; j ++)
		for (i = 0; i < 256; i ++)
			ok = ok && (ctx->sboxx[j][i] == vf_gost_table_entry(sb, j, i));
	return (ok);
}
#define VF_G_CTX_OF_ALL(ctx, sb_)	vf_g_tables_ok((ctx), (sb_))
#else
#define VF_G_CTX_OF_ALL(ctx, sb_)	((ctx)->sbox == (sb_))
#define VF_G_CTX_OF(ctx, sb_)		((ctx)->sbox == (sb_))
#define VF_G_CTX_TABLE_ASSIGNS(ctx)	(ctx)->sbox
#endif

/* ---- gost28147_init / gost28147_init_be ----
 * The postcondition is one predicate, used (a) as the ensures clause below and (b) verbatim
 * as the assertion of the plain-mode harness harness/C08/gost_init.c: under --dfcc the 1024
 * instrumented table writes need > 11 GB, without the instrumentation the same check takes 5 s. */
#define VF_G_INIT_ARGS_OK	(ctx != NULL && key != NULL && sbox != NULL && (key_size == 256 || key_size == GOST28147_KEY_SIZE))
static inline _Bool
vf_g_init_post(int ret, const uint8_t *key, size_t key_size, const uint8_t *sbox,
    const gost28147_context_t *ctx, _Bool big_endian_key) {
	unsigned i;
	_Bool ok = 1;
	if (!VF_G_INIT_ARGS_OK)
		return (ret == EINVAL);
	/* key words K1..K8 = key bytes little-endian (RFC 5830) resp. big-endian (RFC 8891 4.3) */
	for (i = 0; i < 8; i ++)
		ok = ok && (ctx->key[i] == (big_endian_key ? vf_g_be32(key + 4 * i) : vf_gost_le32(key + 4 * i)));
	/* expanded tables == S-box composition + rotate-11, all 4 x 256 entries / the S-box pointer;
	 * MAC accumulator zero */
	return (ret == 0 && ok && VF_G_CTX_OF_ALL(ctx, sbox) && ctx->mac[0] == 0 && ctx->mac[1] == 0);
}
static inline int
gost28147_init(const uint8_t *key, const size_t key_size, const uint8_t *sbox, gost28147_context_p ctx)
__CPROVER_requires(ctx == NULL || __CPROVER_w_ok(ctx, sizeof(gost28147_context_t)))
__CPROVER_requires(key == NULL || __CPROVER_r_ok(key, GOST28147_KEY_SIZE))
__CPROVER_requires(sbox == NULL || __CPROVER_r_ok(sbox, 128))
__CPROVER_assigns(VF_G_INIT_ARGS_OK: __CPROVER_object_upto(ctx->key, GOST28147_KEY_SIZE),
    VF_G_CTX_TABLE_ASSIGNS(ctx), ctx->mac[0], ctx->mac[1])
__CPROVER_ensures(vf_g_init_post(__CPROVER_return_value, key, key_size, sbox, ctx, 0))
;
static inline int
gost28147_init_be(const uint8_t *key, const size_t key_size, const uint8_t *sbox, gost28147_context_p ctx)
__CPROVER_requires(ctx == NULL || __CPROVER_w_ok(ctx, sizeof(gost28147_context_t)))
__CPROVER_requires(key == NULL || __CPROVER_r_ok(key, GOST28147_KEY_SIZE))
__CPROVER_requires(sbox == NULL || __CPROVER_r_ok(sbox, 128))
__CPROVER_assigns(VF_G_INIT_ARGS_OK: __CPROVER_object_upto(ctx->key, GOST28147_KEY_SIZE),
    VF_G_CTX_TABLE_ASSIGNS(ctx), ctx->mac[0], ctx->mac[1])
__CPROVER_ensures(vf_g_init_post(__CPROVER_return_value, key, key_size, sbox, ctx, 1))
;

/* ---- round function ---- */
#ifdef VF_G_ABSTRACT_ROUND
static inline uint32_t
gost28147_block32(gost28147_context_p ctx, const uint32_t src)
__CPROVER_requires(__CPROVER_r_ok(ctx, sizeof(gost28147_context_t)))
__CPROVER_assigns()
__CPROVER_ensures(__CPROVER_return_value == __CPROVER_uninterpreted_vf_g_round(src))
;
#else
static inline uint32_t
gost28147_block32(gost28147_context_p ctx, const uint32_t src)
__CPROVER_requires(__CPROVER_r_ok(ctx, sizeof(gost28147_context_t)))
__CPROVER_requires(__CPROVER_r_ok(vf_g_sbox, 128) && VF_G_CTX_OF(ctx, vf_g_sbox))
__CPROVER_assigns()
__CPROVER_ensures(__CPROVER_return_value == VF_GOST_ROTL(vf_gost_t(vf_g_sbox, src), 11))
;
#endif

#endif /* !VF_REPLAY (pure predicates follow: also used by the native replay oracles) */
/* ---- one block: 32-Z, 32-R, 16-Z cycles on words ----
 * -DVF_G_ABSTRACT_BLOCK (proofs about buffers of blocks): the three cycles are uninterpreted
 * functions of their data arguments on BOTH sides (the replaced gost28147_block_encrypt /
 * _decrypt / gost28147_mac_block and the spec); the key words and the S-box are constant
 * throughout such a proof (no contract involved lists ctx->key as assignable).  What is
 * proved that way holds for every block function, in particular for the real ones, which
 * equal the spec's cycles by the gost.block.* jobs. */
#if defined(VF_G_ABSTRACT_BLOCK) && !defined(VF_REPLAY)
uint64_t __CPROVER_uninterpreted_vf_g_enc(uint32_t n1, uint32_t n2);
uint64_t __CPROVER_uninterpreted_vf_g_dec(uint32_t n1, uint32_t n2);
uint64_t __CPROVER_uninterpreted_vf_g_mac(uint32_t m1, uint32_t m2, uint32_t d1, uint32_t d2);
static inline void
vf_g_enc_words(const uint32_t k[8], const uint8_t *sbox, uint32_t n1, uint32_t n2, uint32_t *o1, uint32_t *o2) {
	uint64_t r = __CPROVER_uninterpreted_vf_g_enc(n1, n2);
	(void)k; (void)sbox;
	*o1 = (uint32_t)r; *o2 = (uint32_t)(r >> 32);
}
static inline void
vf_g_dec_words(const uint32_t k[8], const uint8_t *sbox, uint32_t n1, uint32_t n2, uint32_t *o1, uint32_t *o2) {
	uint64_t r = __CPROVER_uninterpreted_vf_g_dec(n1, n2);
	(void)k; (void)sbox;
	*o1 = (uint32_t)r; *o2 = (uint32_t)(r >> 32);
}
static inline void
vf_g_mac_words(const uint32_t k[8], const uint8_t *sbox, uint32_t *m1, uint32_t *m2, uint32_t d1, uint32_t d2) {
	uint64_t r = __CPROVER_uninterpreted_vf_g_mac(*m1, *m2, d1, d2);
	(void)k; (void)sbox;
	*m1 = (uint32_t)r; *m2 = (uint32_t)(r >> 32);
}
#else
#define vf_g_enc_words	vf_gost_encrypt_words
#define vf_g_dec_words	vf_gost_decrypt_words
#define vf_g_mac_words	vf_gost_mac_words
#endif
static inline _Bool
vf_g_enc_ok(const uint32_t k[8], const uint8_t *sbox, uint32_t n1, uint32_t n2, uint32_t r1, uint32_t r2) {
	uint32_t o1, o2;
	vf_g_enc_words(k, sbox, n1, n2, &o1, &o2);
	return (o1 == r1 && o2 == r2);
}
static inline _Bool
vf_g_dec_ok(const uint32_t k[8], const uint8_t *sbox, uint32_t n1, uint32_t n2, uint32_t r1, uint32_t r2) {
	uint32_t o1, o2;
	vf_g_dec_words(k, sbox, n1, n2, &o1, &o2);
	return (o1 == r1 && o2 == r2);
}
static inline _Bool
vf_g_mac_ok(const uint32_t k[8], const uint8_t *sbox, uint32_t m1, uint32_t m2, uint32_t d1, uint32_t d2,
    uint32_t r1, uint32_t r2) {
	vf_g_mac_words(k, sbox, &m1, &m2, d1, d2);
	return (m1 == r1 && m2 == r2);
}

#ifndef VF_REPLAY
#if defined(VF_G_ABSTRACT_ROUND) || defined(VF_G_ABSTRACT_BLOCK)
#define VF_G_CTX_REQUIRES								\
	__CPROVER_requires(__CPROVER_w_ok(ctx, sizeof(gost28147_context_t)))		\
	__CPROVER_requires(__CPROVER_r_ok(vf_g_sbox, 128))
#else
#define VF_G_CTX_REQUIRES								\
	__CPROVER_requires(__CPROVER_w_ok(ctx, sizeof(gost28147_context_t)))		\
	__CPROVER_requires(__CPROVER_r_ok(vf_g_sbox, 128) && VF_G_CTX_OF(ctx, vf_g_sbox))
#endif

static inline void
gost28147_block_encrypt(gost28147_context_p ctx, uint32_t n1, uint32_t n2, uint32_t *dst_n1, uint32_t *dst_n2)
VF_G_CTX_REQUIRES
__CPROVER_requires(__CPROVER_w_ok(dst_n1, 4) && __CPROVER_w_ok(dst_n2, 4))
__CPROVER_assigns(*dst_n1, *dst_n2)
/* key order 3 x (K1..K8) + (K8..K1), last round without the swap */
__CPROVER_ensures(vf_g_enc_ok(ctx->key, vf_g_sbox, n1, n2, *dst_n1, *dst_n2))
;
static inline void
gost28147_block_decrypt(gost28147_context_p ctx, uint32_t n1, uint32_t n2, uint32_t *dst_n1, uint32_t *dst_n2)
VF_G_CTX_REQUIRES
__CPROVER_requires(__CPROVER_w_ok(dst_n1, 4) && __CPROVER_w_ok(dst_n2, 4))
__CPROVER_assigns(*dst_n1, *dst_n2)
/* key order (K1..K8) + 3 x (K8..K1) */
__CPROVER_ensures(vf_g_dec_ok(ctx->key, vf_g_sbox, n1, n2, *dst_n1, *dst_n2))
;
static inline void
gost28147_mac_block(gost28147_context_p ctx, uint32_t n1, uint32_t n2)
VF_G_CTX_REQUIRES
__CPROVER_assigns(ctx->mac[0], ctx->mac[1])
/* accumulator ^= block, then 16 rounds (K1..K8) x 2 */
__CPROVER_ensures(vf_g_mac_ok(ctx->key, vf_g_sbox, __CPROVER_old(ctx->mac[0]), __CPROVER_old(ctx->mac[1]),
    n1, n2, ctx->mac[0], ctx->mac[1]))
;


/* ---- buffers of blocks ---- */
#ifndef VF_G_MAX_BLOCKS
#define VF_G_MAX_BLOCKS	(((size_t)1) << 56)
#endif
static const uint8_t vf_g_zero8[8] = { 0 };
static size_t vf_g_b;	/* ghost block index (any value) */

#endif /* !VF_REPLAY */
/* one block on bytes.  LE family (RFC 5830): N1 = bytes 0..3 little-endian, N2 = bytes 4..7,
 * output the same way.  BE family (RFC 8891): a = a1 || a0 big-endian, N1 = a0 = bytes 4..7,
 * N2 = a1 = bytes 0..3, output b1 || b0 the same way. */
static inline _Bool
vf_g_block8_ok(const uint32_t k[8], const uint8_t *sbox, _Bool decrypt, _Bool be,
    uint8_t i0, uint8_t i1, uint8_t i2, uint8_t i3, uint8_t i4, uint8_t i5, uint8_t i6, uint8_t i7,
    const uint8_t *out) {
	uint8_t in[8] = { i0, i1, i2, i3, i4, i5, i6, i7 };
	uint32_t n1, n2, o1, o2;
	unsigned t;
	_Bool ok = 1;
	if (!be) {
		n1 = vf_gost_le32(in);
		n2 = vf_gost_le32(in + 4);
	} else {
		n1 = vf_g_be32(in + 4);
		n2 = vf_g_be32(in);
	}
	if (decrypt)
		vf_g_dec_words(k, sbox, n1, n2, &o1, &o2);
	else
		vf_g_enc_words(k, sbox, n1, n2, &o1, &o2);
	for (t = 0; t < 4; t ++) {
		ok = ok && (out[t] == (be ? vf_g_be_byte(o2, t) : vf_g_le_byte(o1, t)));
		ok = ok && (out[4 + t] == (be ? vf_g_be_byte(o1, t) : vf_g_le_byte(o2, t)));
	}
	return (ok);
}
#ifndef VF_REPLAY
/* source byte t of block vf_g_b at entry (0 when the block index is out of range) */
#define VF_G_SRC_OLD(t)	__CPROVER_old(((vf_g_b < blocks_count) ? src : vf_g_zero8)		\
			    [(vf_g_b < blocks_count) ? GOST28147_BLK_SIZE * vf_g_b + (t) : (t)])

#define VF_G_BLOCKS_CONTRACT(fn, decrypt, be)						\
static inline void fn(gost28147_context_p ctx, const uint8_t *src, size_t blocks_count, uint8_t *dst) \
VF_G_CTX_REQUIRES									\
__CPROVER_requires(blocks_count <= VF_G_MAX_BLOCKS)					\
__CPROVER_requires(blocks_count == 0 || __CPROVER_r_ok(src, GOST28147_BLK_SIZE * blocks_count)) \
__CPROVER_requires(blocks_count == 0 || __CPROVER_w_ok(dst, GOST28147_BLK_SIZE * blocks_count)) \
__CPROVER_assigns(blocks_count != 0: __CPROVER_object_upto(dst, GOST28147_BLK_SIZE * blocks_count)) \
/* ECB: every output block is the cipher applied to the input block at the same position */ \
__CPROVER_ensures(vf_g_b < blocks_count ==> vf_g_block8_ok(ctx->key, vf_g_sbox, decrypt, be,	\
    VF_G_SRC_OLD(0), VF_G_SRC_OLD(1), VF_G_SRC_OLD(2), VF_G_SRC_OLD(3),		\
    VF_G_SRC_OLD(4), VF_G_SRC_OLD(5), VF_G_SRC_OLD(6), VF_G_SRC_OLD(7),		\
    dst + GOST28147_BLK_SIZE * vf_g_b))							\
;
VF_G_BLOCKS_CONTRACT(gost28147_blocks_encrypt, 0, 0)
VF_G_BLOCKS_CONTRACT(gost28147_blocks_decrypt, 1, 0)
VF_G_BLOCKS_CONTRACT(gost28147_blocks_encrypt_be, 0, 1)
VF_G_BLOCKS_CONTRACT(gost28147_blocks_decrypt_be, 1, 1)

#endif /* !VF_REPLAY */
/* MAC accumulator after absorbing n blocks (RFC 5830 section 6: accumulator ^= block, 16-Z, repeat) */
static inline _Bool
vf_g_macs_ok(const uint32_t k[8], const uint8_t *sbox, _Bool be, uint32_t m1, uint32_t m2,
    const uint8_t *src, size_t n, uint32_t r1, uint32_t r2) {
	size_t b;
	for (b = 0; b < n; b ++) {
		const uint8_t *p = src + GOST28147_BLK_SIZE * b;
		if (!be)
			vf_g_mac_words(k, sbox, &m1, &m2, vf_gost_le32(p), vf_gost_le32(p + 4));
		else
			vf_g_mac_words(k, sbox, &m1, &m2, vf_g_be32(p + 4), vf_g_be32(p));
	}
	return (m1 == r1 && m2 == r2);
}
#ifndef VF_REPLAY
#define VF_G_MAC_CONTRACT(fn, be)							\
static inline void fn(gost28147_context_p ctx, const uint8_t *src, size_t blocks_count)	\
VF_G_CTX_REQUIRES									\
__CPROVER_requires(blocks_count <= VF_G_MAX_BLOCKS)					\
__CPROVER_requires(blocks_count == 0 || __CPROVER_r_ok(src, GOST28147_BLK_SIZE * blocks_count)) \
__CPROVER_assigns(blocks_count != 0: ctx->mac[0], ctx->mac[1])				\
__CPROVER_ensures(vf_g_macs_ok(ctx->key, vf_g_sbox, be, __CPROVER_old(ctx->mac[0]), __CPROVER_old(ctx->mac[1]), \
    src, blocks_count, ctx->mac[0], ctx->mac[1]))					\
;
VF_G_MAC_CONTRACT(gost28147_blocks_mac, 0)
VF_G_MAC_CONTRACT(gost28147_blocks_mac_be, 1)

/* ---- gost28147_final / gost28147_final_be: MAC bytes out, context wiped ---- */
#ifndef VF_G_MAX_MAC
#define VF_G_MAX_MAC	((size_t)1 << 56)
#endif
static size_t vf_g_m;	/* ghost byte index */
#define VF_G_FINAL_CONTRACT(fn, be)							\
static inline void fn(gost28147_context_p ctx, uint8_t *mac, size_t mac_size)		\
__CPROVER_requires(__CPROVER_w_ok(ctx, sizeof(gost28147_context_t)))			\
__CPROVER_requires(mac_size <= VF_G_MAX_MAC)						\
__CPROVER_requires(mac == NULL || mac_size == 0 || __CPROVER_w_ok(mac, mac_size))	\
__CPROVER_assigns(__CPROVER_object_upto(ctx, sizeof(gost28147_context_t)))		\
__CPROVER_assigns(mac != NULL && mac_size != 0: __CPROVER_object_upto(mac, mac_size))	\
/* bytes 0..7: N1 then N2 (little-endian words resp. big-endian words), zero padding after */ \
__CPROVER_ensures((mac != NULL && vf_g_m < mac_size && vf_g_m < 8) ==>			\
    mac[vf_g_m] == ((be) ? vf_g_be_byte(vf_g_m < 4 ? __CPROVER_old(ctx->mac[0]) : __CPROVER_old(ctx->mac[1]), (unsigned)(vf_g_m & 3)) \
		       : vf_g_le_byte(vf_g_m < 4 ? __CPROVER_old(ctx->mac[0]) : __CPROVER_old(ctx->mac[1]), (unsigned)(vf_g_m & 3)))) \
__CPROVER_ensures((mac != NULL && vf_g_m < mac_size && vf_g_m >= 8) ==> mac[vf_g_m] == 0)	\
/* key material wiped */								\
__CPROVER_ensures(vf_g_i < sizeof(gost28147_context_t) ==> ((const uint8_t *)ctx)[vf_g_i] == 0) \
;
VF_G_FINAL_CONTRACT(gost28147_final, 0)
VF_G_FINAL_CONTRACT(gost28147_final_be, 1)
#endif /* !VF_REPLAY */
#endif
