/*
 * LIGHT callee contracts for the bn_mod_sqrt proofs (C01 r3.bn_mod_sqrt.*), selected with
 * -DVF_BN_LIGHT_SET: contracts/bn.h then includes THIS file instead of bn_struct.h / bn_io.h /
 * bn_mul.h / bn_mod.h (one function cannot carry two contracts in a translation unit).
 *
 * bn_mod_sqrt has 45 call sites of 19 bn_* callees.  With the full value contracts of those callees
 * (entry-value snapshots, wide products and remainders in every clause) cbmc needs > 40 GB.  Every
 * contract below has EXACTLY the `requires` and `assigns` of the enforced C01 contract of the same
 * function and an `ensures` that is a subset / logical consequence of the enforced one:
 * assuming it at a call site is sound whenever the full contract is.  Enforcing jobs:
 *   r1c.bn_{assign_init,add_digit,sub_digit,r_shift,init,assign,calc_bits,xor,ctz,assign_2exp,cmp}.*,
 *   r2.bn_div.w8.cap*, r3.bn_mod.*, r3.bn_mod_{mult,mult_digit,square}.*, r3.bn_mod_exp.loops.*,
 *   r3.bn_mod_inv_bin.loops.*, r3.bn_mod_legendre.*
 * -DVF_MS_VALUE additionally keeps the value clauses of bn_mod, bn_mod_square, bn_assign_init and
 * bn_cmp (verbatim), which is all the root property of bn_mod_sqrt needs.
 */
#ifndef VF_CONTRACTS_BN_LIGHT_H
#define VF_CONTRACTS_BN_LIGHT_H
#ifndef VF_REPLAY

#ifdef VF_MS_VALUE
#define VF_MSV(c)	(c)
#else
#define VF_MSV(c)	1
#endif
/* -DVF_MS_RANGE keeps the "result is reduced" consequences of the modular callees (x % m < m) */
#ifdef VF_MS_RANGE
#define VF_MSR(c)	(c)
#else
#define VF_MSR(c)	1
#endif

/* vocabulary copied from contracts/bn_struct.h, bn_mod.h */
size_t vf_bn_ix;
#define VF_BN_IN(p)	(VF_BN_OK(p) && VF_BN_WF(*(p)))
#define VF_BN_SEP(a, b)	((a) == (b) || !__CPROVER_same_object((a), (b)) ||	\
	(const char *)((a) + 1) <= (const char *)(b) || (const char *)((b) + 1) <= (const char *)(a))
#define VF_BN_CNT_OK(p)	((p)->count >= 1 && (p)->count <= BN_MAX_DIGITS)
#define VF_SIGN(x, y)	(((x) > (y)) ? 1 : (((x) < (y)) ? -1 : 0))
#define VF_BN_BINOP_PRE(bn, n)	(VF_BN_IN(bn) && VF_BN_IN(n) && VF_BN_SEP(bn, n))
#define VF_D_OK(p)	__CPROVER_rw_ok((p), sizeof(bn_digit_t))
#define VF_BN_DIGIT_OUTSIDE(c, bn)	(!__CPROVER_same_object((c), (bn)) ||	\
	(const char *)((c) + 1) <= (const char *)(bn) || (const char *)((bn) + 1) <= (const char *)(c))
#define VF_BN_CARRY_OK(c, bn)	((c) == NULL || (VF_D_OK(c) && VF_BN_DIGIT_OUTSIDE(c, bn)))
#define VF_BN_3PRE(bn, n, m)	(VF_BN_IN(bn) && VF_BN_IN(n) && VF_BN_IN(m) &&		\
	VF_BN_SEP(bn, n) && (bn) != (m) && VF_BN_SEP(bn, m))
#define VF_ST3(r)	((r) == 0 || (r) == EINVAL || (r) == EOVERFLOW)

static inline int
bn_init(bn_p bn, size_t bits)
__CPROVER_requires(VF_BN_OK(bn))
__CPROVER_assigns(bn->count, bn->digits)
__CPROVER_ensures(__CPROVER_return_value == ((bits == 0 || bits > BN_BIT_LEN) ? EINVAL : 0))
__CPROVER_ensures(__CPROVER_return_value == 0 ==> (bn->digits == 0 && VF_BN_WF(*bn) &&
    bn->count * BN_DIGIT_BITS >= bits && (bn->count - 1) * BN_DIGIT_BITS < bits))
;
static inline size_t
bn_calc_bits(bn_p bn)
__CPROVER_requires(VF_BN_IN(bn))
__CPROVER_assigns()
__CPROVER_ensures(__CPROVER_return_value <= bn->digits * BN_DIGIT_BITS)
/* consequence of "bit length of the value": a well-formed number with digits != 0 is non-zero */
__CPROVER_ensures(bn->digits != 0 ==> __CPROVER_return_value >= 1)
;
static inline size_t
bn_ctz(bn_p bn)
__CPROVER_requires(VF_BN_IN(bn))
__CPROVER_assigns()
__CPROVER_ensures(1)
;
static inline int
bn_cmp(bn_p a, bn_p b)
__CPROVER_requires(VF_BN_IN(a) && VF_BN_IN(b))
__CPROVER_assigns()
__CPROVER_ensures(__CPROVER_return_value == 0 || __CPROVER_return_value == 1 || __CPROVER_return_value == -1)
__CPROVER_ensures(VF_MSV(__CPROVER_return_value == VF_SIGN(VF_BN_VAL(*a), VF_BN_VAL(*b))))
;
static inline int
bn_assign(bn_p dst, bn_p src)
__CPROVER_requires(VF_BN_OK(dst) && VF_BN_CNT_OK(dst) && VF_BN_IN(src))
__CPROVER_requires(VF_BN_SEP(dst, src))
__CPROVER_requires(dst != src || VF_BN_WF(*dst))
__CPROVER_assigns(VF_BN_FRAME(dst))
__CPROVER_ensures(__CPROVER_return_value == ((dst != src && __CPROVER_old(src->digits) > dst->count) ? EOVERFLOW : 0))
/* equal value of two well-formed numbers implies equal digit count */
__CPROVER_ensures(__CPROVER_return_value == 0 ==> (VF_BN_WF(*dst) && dst->digits == __CPROVER_old(src->digits)))
;
static inline int
bn_assign_init(bn_p dst, bn_p src)
__CPROVER_requires(VF_BN_OK(dst) && VF_BN_IN(src))
__CPROVER_requires(VF_BN_SEP(dst, src))
__CPROVER_assigns(dst->count, VF_BN_FRAME(dst))
__CPROVER_ensures(__CPROVER_return_value == 0)
__CPROVER_ensures(VF_BN_WF(*dst) && dst->count == __CPROVER_old(src->count))
__CPROVER_ensures(VF_MSV(VF_BN_VAL(*dst) == VF_BN_OLDVAL(src)))
;
static inline int
bn_assign_2exp(bn_p bn, size_t exp)
__CPROVER_requires(VF_BN_OK(bn) && VF_BN_CNT_OK(bn))
__CPROVER_assigns(VF_BN_FRAME(bn))
__CPROVER_ensures(__CPROVER_return_value == ((exp / BN_DIGIT_BITS >= bn->count) ? EOVERFLOW : 0))
__CPROVER_ensures(__CPROVER_return_value == 0 ==> VF_BN_WF(*bn))
;
static inline void
bn_r_shift(bn_p bn, size_t bits)
__CPROVER_requires(VF_BN_IN(bn) && (bn->digits == 0 || bits < bn->digits * BN_DIGIT_BITS))
__CPROVER_assigns(VF_BN_FRAME(bn))
__CPROVER_ensures(VF_BN_WF(*bn))
;
static inline int
bn_xor(bn_p bn, bn_p n)
__CPROVER_requires(VF_BN_BINOP_PRE(bn, n))
__CPROVER_assigns(VF_BN_FRAME(bn))
__CPROVER_ensures(__CPROVER_return_value == ((__CPROVER_old(n->digits) > bn->count) ? EOVERFLOW : 0))
__CPROVER_ensures(__CPROVER_return_value == 0 ==> VF_BN_WF(*bn))
;
static inline void
bn_add_digit(bn_p bn, bn_digit_t n, bn_digit_t *carry)
__CPROVER_requires(VF_BN_IN(bn) && VF_BN_CARRY_OK(carry, bn))
__CPROVER_assigns(VF_BN_FRAME(bn))
__CPROVER_assigns(carry != NULL && n != 0: *carry)
__CPROVER_ensures(VF_BN_WF(*bn))
;
static inline void
bn_sub_digit(bn_p bn, bn_digit_t n, bn_digit_t *borrow)
__CPROVER_requires(VF_BN_IN(bn) && VF_BN_CARRY_OK(borrow, bn))
__CPROVER_assigns(VF_BN_FRAME(bn))
__CPROVER_assigns(borrow != NULL && n != 0: *borrow)
__CPROVER_ensures(VF_BN_WF(*bn))
;
static inline int
bn_div(bn_p bn, bn_p d, bn_p remainder)
__CPROVER_requires(VF_BN_BINOP_PRE(bn, d))
__CPROVER_requires(remainder == NULL || remainder == bn ||
    (VF_BN_OK(remainder) && VF_BN_CNT_OK(remainder) && remainder->digits <= remainder->count &&
     !__CPROVER_same_object(remainder, bn) && !__CPROVER_same_object(remainder, d)))
__CPROVER_assigns(VF_BN_FRAME(bn))
__CPROVER_assigns(remainder != NULL && remainder != bn: VF_BN_FRAME(remainder))
__CPROVER_ensures(VF_ST3(__CPROVER_return_value))
__CPROVER_ensures((__CPROVER_return_value == 0 && remainder != bn) ==> VF_BN_WF(*bn))
__CPROVER_ensures((__CPROVER_return_value == 0 && remainder != NULL) ==> VF_BN_WF(*remainder))
;
static inline int
bn_mod(bn_p bn, bn_p m, bn_mod_rd_data_p mod_rd_data)
__CPROVER_requires(VF_BN_BINOP_PRE(bn, m))
__CPROVER_assigns(VF_BN_FRAME(bn))
__CPROVER_ensures(VF_ST3(__CPROVER_return_value))
__CPROVER_ensures(__CPROVER_return_value == 0 ==> VF_BN_WF(*bn))
__CPROVER_ensures(VF_MSV(__CPROVER_return_value == 0 ==> VF_BN_VAL(*bn) == VF_BN_OLDVAL(bn) % VF_BN_OLDVAL(m)))
__CPROVER_ensures(VF_MSR(__CPROVER_return_value == 0 ==> VF_BN_VAL(*bn) < VF_BN_OLDVAL(m)))
;
static inline int
bn_mod_mult(bn_p bn, bn_p n, bn_p m, bn_mod_rd_data_p mod_rd_data)
__CPROVER_requires(VF_BN_3PRE(bn, n, m))
__CPROVER_assigns(VF_BN_FRAME(bn))
__CPROVER_ensures(VF_ST3(__CPROVER_return_value))
__CPROVER_ensures(__CPROVER_return_value == 0 ==> VF_BN_WF(*bn))
__CPROVER_ensures(VF_MSR(__CPROVER_return_value == 0 ==> VF_BN_VAL(*bn) < VF_BN_VAL(*m)))
;
static inline int
bn_mod_mult_digit(bn_p bn, bn_digit_t n, bn_p m, bn_mod_rd_data_p mod_rd_data)
__CPROVER_requires(VF_BN_BINOP_PRE(bn, m) && bn != m)
__CPROVER_assigns(VF_BN_FRAME(bn))
__CPROVER_ensures(VF_ST3(__CPROVER_return_value))
__CPROVER_ensures(__CPROVER_return_value == 0 ==> VF_BN_WF(*bn))
__CPROVER_ensures(VF_MSR(__CPROVER_return_value == 0 ==> VF_BN_VAL(*bn) < VF_BN_VAL(*m)))
;
static inline int
bn_mod_square(bn_p bn, bn_p m, bn_mod_rd_data_p mod_rd_data)
__CPROVER_requires(VF_BN_BINOP_PRE(bn, m) && bn != m)
__CPROVER_assigns(VF_BN_FRAME(bn))
__CPROVER_ensures(VF_ST3(__CPROVER_return_value))
__CPROVER_ensures(__CPROVER_return_value == 0 ==> VF_BN_WF(*bn))
__CPROVER_ensures(VF_MSV(__CPROVER_return_value == 0 ==> (VF_BN_VAL(*m) != 0 &&
    VF_BN_VAL(*bn) == (VF_BN_OLDVAL(bn) * VF_BN_OLDVAL(bn)) % VF_BN_VAL(*m))))
__CPROVER_ensures(VF_MSR(__CPROVER_return_value == 0 ==> VF_BN_VAL(*bn) < VF_BN_VAL(*m)))
;
static inline int
bn_mod_exp(bn_p bn, bn_p exp, bn_p m, bn_mod_rd_data_p mod_rd_data)
__CPROVER_requires(VF_BN_BINOP_PRE(bn, m) && bn != m && VF_BN_IN(exp) &&
    !__CPROVER_same_object(exp, bn) && !__CPROVER_same_object(exp, m))
__CPROVER_assigns(VF_BN_FRAME(bn))
__CPROVER_ensures(VF_ST3(__CPROVER_return_value))
__CPROVER_ensures(__CPROVER_return_value == 0 ==> VF_BN_WF(*bn))
__CPROVER_ensures(VF_MSR((__CPROVER_return_value == 0 && VF_BN_OLDVAL(bn) < VF_BN_VAL(*m) && VF_BN_VAL(*m) >= 2) ==>
    VF_BN_VAL(*bn) < VF_BN_VAL(*m)))
;
static inline int
bn_mod_inv_bin(bn_p bn, bn_p m, bn_mod_rd_data_p mod_rd_data)
__CPROVER_requires(VF_BN_BINOP_PRE(bn, m) && bn != m)
__CPROVER_assigns(VF_BN_FRAME(bn))
__CPROVER_ensures(VF_ST3(__CPROVER_return_value))
__CPROVER_ensures(__CPROVER_return_value == 0 ==> VF_BN_WF(*bn))
;
static inline int
bn_mod_legendre(bn_p bn, bn_p m, bn_mod_rd_data_p mod_rd_data)
__CPROVER_requires(VF_BN_IN(bn) && VF_BN_IN(m) && VF_BN_SEP(bn, m))
__CPROVER_assigns()
__CPROVER_ensures(__CPROVER_return_value == -1 || __CPROVER_return_value == 0 || __CPROVER_return_value == 1 ||
    __CPROVER_return_value == EINVAL || __CPROVER_return_value == EOVERFLOW)
;

/* ---- the function under proof: the clauses contracts/ec_bn_stubs.h assumes (frame, status, well-formed
 * result on success) plus the coded domain check, and with -DVF_MS_VALUE the root property ---- */
static inline int
bn_mod_sqrt(bn_p bn, bn_p m, bn_mod_rd_data_p mod_rd_data)
__CPROVER_requires(VF_BN_BINOP_PRE(bn, m) && bn != m)
__CPROVER_assigns(VF_BN_FRAME(bn))
__CPROVER_ensures(__CPROVER_return_value == 0 || __CPROVER_return_value == -1 ||
    __CPROVER_return_value == EINVAL || __CPROVER_return_value == EOVERFLOW)
__CPROVER_ensures((m->digits == 0 || (m->num[0] & 1) == 0) ==> __CPROVER_return_value == EINVAL)
__CPROVER_ensures(__CPROVER_return_value == 0 ==> VF_BN_WF(*bn))
__CPROVER_ensures(VF_MSV(__CPROVER_return_value == 0 ==>
    (VF_BN_VAL(*bn) * VF_BN_VAL(*bn)) % VF_BN_VAL(*m) == VF_BN_OLDVAL(bn) % VF_BN_VAL(*m)))
__CPROVER_ensures(VF_MSR(__CPROVER_return_value == 0 ==> VF_BN_VAL(*bn) < VF_BN_VAL(*m)))
;

#endif /* !VF_REPLAY */
#endif
