/*
 * C01 rung 0: digit primitives of include/math/big_num.h.
 * Included from contracts/bn.h (after the real header and specs/bn_spec.h).
 *
 * -DVF_BN_MULT_SHORTCUT_ONLY restricts the product postcondition of bn_digit_mult__int to the
 * shortcut paths (operand 0, 1 or a power of two); used ONLY for the enforced portable body at
 * W >= 16, where the general (Knuth M) path is undecided on every installed back end.
 */
#ifndef VF_CONTRACTS_BN_DIGIT_H
#define VF_CONTRACTS_BN_DIGIT_H
#ifndef VF_REPLAY

#define VF_D_OK(p)	__CPROVER_rw_ok((p), sizeof(bn_digit_t))
#define VF_D_OPT(p)	((p) == NULL || __CPROVER_rw_ok((p), sizeof(bn_digit_t)))
#define VF_DD(hi, lo)	((((vf_dd_t)(hi)) << VF_W) | (vf_dd_t)(lo))

#ifdef VF_BN_MULT_SHORTCUT_ONLY
#define VF_MULT_GUARD(a, b)	((a) == 0 || (b) == 0 || (a) == 1 || (b) == 1 ||	\
	VF_D_IS_POW2(a) || VF_D_IS_POW2(b))
#else
#define VF_MULT_GUARD(a, b)	1
#endif

/* ghost index for "greatest" in the gcd contracts (DESIGN section 4: ghost index instead of forall) */
bn_digit_t vf_bn_gcd_k;

static inline int bn_digit_is_even(bn_digit_t digit)
__CPROVER_assigns()
__CPROVER_ensures(__CPROVER_return_value == ((digit % 2) == 0))
;
static inline int bn_digit_is_odd(bn_digit_t digit)
__CPROVER_assigns()
__CPROVER_ensures(__CPROVER_return_value == ((digit % 2) == 1))
;
static inline size_t bn_digit_bits(bn_digit_t digit)
__CPROVER_assigns()
__CPROVER_ensures(__CPROVER_return_value == vf_d_popcount(digit))
;
static inline size_t bn_digit_ctz(bn_digit_t digit)
__CPROVER_assigns()
__CPROVER_ensures(__CPROVER_return_value == vf_d_ctz(digit))
;
static inline size_t bn_digit_ffs(bn_digit_t digit)
__CPROVER_assigns()
__CPROVER_ensures(__CPROVER_return_value == ((digit == 0) ? 0 : vf_d_ctz(digit) + 1))
;
static inline size_t bn_digit_clz(bn_digit_t digit)
__CPROVER_assigns()
__CPROVER_ensures(__CPROVER_return_value == vf_d_clz(digit))
;

/* hi:lo == a * b, exactly */
static inline void
bn_digit_mult__int(bn_digit_t a, bn_digit_t b, bn_digit_t *result_lo, bn_digit_t *result_hi)
__CPROVER_requires(VF_D_OK(result_lo) && VF_D_OK(result_hi) && result_lo != result_hi)
__CPROVER_assigns(*result_lo, *result_hi)
__CPROVER_ensures(VF_MULT_GUARD(a, b) ==>
    VF_DD(*result_hi, *result_lo) == ((vf_dd_t)a) * ((vf_dd_t)b))
;
static inline void
bn_digit_mult(bn_digit_t a, bn_digit_t b, bn_digit_t *result_lo, bn_digit_t *result_hi)
__CPROVER_requires(VF_D_OPT(result_lo) && VF_D_OPT(result_hi) &&
    (result_lo == NULL || result_lo != result_hi))
__CPROVER_assigns(result_lo != NULL: *result_lo)
__CPROVER_assigns(result_hi != NULL: *result_hi)
__CPROVER_ensures(result_lo != NULL ==> *result_lo == (bn_digit_t)(((vf_dd_t)a) * ((vf_dd_t)b)))
__CPROVER_ensures(result_hi != NULL ==> *result_hi == (bn_digit_t)((((vf_dd_t)a) * ((vf_dd_t)b)) >> VF_W))
;

/* (hi:lo) / divisor with remainder: q * d + r == n, r < d, stated multiplication-side in 3W bits */
#define VF_DIV_PTRS_OK(a, b, c, d)	(VF_D_OK(a) && VF_D_OK(b) && VF_D_OK(c) && VF_D_OK(d) &&	\
	(a) != (b) && (a) != (c) && (a) != (d) && (b) != (c) && (b) != (d) && (c) != (d))
static inline int
bn_digit_div__int(bn_digit_t dividend_lo, bn_digit_t dividend_hi, bn_digit_t divisor,
    bn_digit_t *result_lo, bn_digit_t *result_hi, bn_digit_t *remainder_lo, bn_digit_t *remainder_hi)
__CPROVER_requires(VF_DIV_PTRS_OK(result_lo, result_hi, remainder_lo, remainder_hi))
__CPROVER_assigns(*result_lo, *result_hi, *remainder_lo, *remainder_hi)
__CPROVER_ensures(__CPROVER_return_value == ((divisor == 0) ? EINVAL : 0))
__CPROVER_ensures(divisor != 0 ==> *remainder_hi == 0)
__CPROVER_ensures(divisor != 0 ==> *remainder_lo < divisor)
__CPROVER_ensures(divisor != 0 ==>
    ((vf_td_t)VF_DD(*result_hi, *result_lo)) * ((vf_td_t)divisor) + ((vf_td_t)*remainder_lo) ==
    (vf_td_t)VF_DD(dividend_hi, dividend_lo))
;
/* low digit of the quotient only */
static inline int
bn_digit_div__int_short(bn_digit_t dividend_lo, bn_digit_t dividend_hi, bn_digit_t divisor,
    bn_digit_t *result_lo)
__CPROVER_requires(VF_D_OK(result_lo))
__CPROVER_assigns(*result_lo)
__CPROVER_ensures(__CPROVER_return_value == ((divisor == 0) ? EINVAL : 0))
__CPROVER_ensures(divisor != 0 ==>
    *result_lo == (bn_digit_t)(VF_DD(dividend_hi, dividend_lo) / ((vf_dd_t)divisor)))
;
static inline int
bn_digit_div(bn_digit_t dividend_lo, bn_digit_t dividend_hi, bn_digit_t divisor,
    bn_digit_t *result_lo, bn_digit_t *result_hi, bn_digit_t *remainder_lo, bn_digit_t *remainder_hi)
__CPROVER_requires(VF_D_OPT(result_lo) && VF_D_OPT(result_hi) && VF_D_OPT(remainder_lo) && VF_D_OPT(remainder_hi))
__CPROVER_requires((result_lo == NULL || (result_lo != result_hi && result_lo != remainder_lo && result_lo != remainder_hi)) &&
    (result_hi == NULL || (result_hi != remainder_lo && result_hi != remainder_hi)) &&
    (remainder_lo == NULL || remainder_lo != remainder_hi))
__CPROVER_assigns(result_lo != NULL: *result_lo)
__CPROVER_assigns(result_hi != NULL: *result_hi)
__CPROVER_assigns(remainder_lo != NULL: *remainder_lo)
__CPROVER_assigns(remainder_hi != NULL: *remainder_hi)
__CPROVER_ensures(__CPROVER_return_value == ((divisor == 0) ? EINVAL : 0))
__CPROVER_ensures((divisor != 0 && remainder_hi != NULL) ==> *remainder_hi == 0)
__CPROVER_ensures((divisor != 0 && remainder_lo != NULL) ==> *remainder_lo < divisor)
__CPROVER_ensures((divisor != 0 && result_lo != NULL && result_hi != NULL && remainder_lo != NULL) ==>
    ((vf_td_t)VF_DD(*result_hi, *result_lo)) * ((vf_td_t)divisor) + ((vf_td_t)*remainder_lo) ==
    (vf_td_t)VF_DD(dividend_hi, dividend_lo))
;

/* gcd: common divisor, and no common divisor vf_bn_gcd_k is greater (ghost index) */
#define VF_GCD_CONTRACT(fn)								\
static inline bn_digit_t fn(bn_digit_t a, bn_digit_t b)					\
__CPROVER_assigns()									\
__CPROVER_ensures((a == 0 ==> __CPROVER_return_value == b) &&				\
    (b == 0 ==> __CPROVER_return_value == a))						\
__CPROVER_ensures((a != 0 || b != 0) ==> (__CPROVER_return_value != 0 &&		\
    (a % __CPROVER_return_value) == 0 && (b % __CPROVER_return_value) == 0))		\
__CPROVER_ensures(((a != 0 || b != 0) && vf_bn_gcd_k != 0 &&				\
    (a % vf_bn_gcd_k) == 0 && (b % vf_bn_gcd_k) == 0) ==>				\
    vf_bn_gcd_k <= __CPROVER_return_value)						\
;
VF_GCD_CONTRACT(bn_digit_gcd)
VF_GCD_CONTRACT(bn_digit_gcd_bin)

#endif /* !VF_REPLAY */
#endif
