/*
 * Contracts for src/net/utils.c (C18): prefix length <-> netmask, truncation to a prefix,
 * network membership, "addr/len" text. Redeclarations: the source is not edited.
 * Include BEFORE "src/net/utils.c". Spec macros: specs/netaddr_spec.h.
 */
#ifndef VF_CONTRACTS_NET_UTILS_H
#define VF_CONTRACTS_NET_UTILS_H
#include "vf/vf.h"
#include <sys/param.h>
#include <sys/types.h>
#include <sys/socket.h>
#include <netinet/in.h>
#include <arpa/inet.h>
#include <errno.h>
#include "specs/netaddr_spec.h"

#ifndef VF_REPLAY
/* ghost indices (quantifier-free "for all k / for all bit b") */
size_t vf_k;		/* byte index 0..15 */
size_t vf_b;		/* bit index 0..127, 0 = most significant bit of byte 0 */

#define VF_SIN(p)	((struct sockaddr_in *)(p))
#define VF_SIN6(p)	((struct sockaddr_in6 *)(p))
#define VF_A6(p)	(VF_SIN6(p)->sin6_addr)

/* ---- prefix length -> netmask ------------------------------------------------------------ */
int inet_len2mask(size_t len, struct in_addr *mask)
__CPROVER_requires(mask == NULL || __CPROVER_is_fresh(mask, sizeof(struct in_addr)))
/* out of range: nothing is written */
__CPROVER_assigns(mask != NULL && len <= 32: mask->s_addr)
__CPROVER_ensures(__CPROVER_return_value == 0 || __CPROVER_return_value == EINVAL)
__CPROVER_ensures((__CPROVER_return_value == EINVAL) == (len > 32 || mask == NULL))
/* the mask is the integer ~0 << (32 - len) in network byte order */
__CPROVER_ensures(__CPROVER_return_value == 0 ==> mask->s_addr == VF_MASK4_N(len))
;

int inet6_len2mask(size_t len, struct in6_addr *mask)
__CPROVER_requires(mask == NULL || __CPROVER_is_fresh(mask, sizeof(struct in6_addr)))
__CPROVER_assigns(mask != NULL && len <= 128: *mask)
__CPROVER_ensures(__CPROVER_return_value == 0 || __CPROVER_return_value == EINVAL)
__CPROVER_ensures((__CPROVER_return_value == EINVAL) == (len > 128 || mask == NULL))
/* every byte of the mask (ghost index) is the byte the prefix length prescribes */
__CPROVER_ensures((__CPROVER_return_value == 0 && vf_k < 16) ==>
    mask->s6_addr[vf_k] == VF_MASK6_BYTE(len, vf_k))
;

/* ---- netmask -> prefix length ------------------------------------------------------------ */
/* inet_mask2len has no NULL test (inet6_mask2len has one): non-NULL is its precondition. */
int inet_mask2len(const struct in_addr *mask)
__CPROVER_requires(__CPROVER_is_fresh(mask, sizeof(struct in_addr)))
__CPROVER_assigns()
__CPROVER_ensures(0 <= __CPROVER_return_value && __CPROVER_return_value <= 32)
/* a contiguous mask is the mask of the returned length (so the two conversions are inverse) */
__CPROVER_ensures(VF_CONTIG32(VF_NTOHL(mask->s_addr)) ==>
    mask->s_addr == VF_MASK4_N(__CPROVER_return_value))
/* a mask with a hole has no length */
__CPROVER_ensures(!VF_CONTIG32(VF_NTOHL(mask->s_addr)) ==> __CPROVER_return_value == 0)
;

int inet6_mask2len(const struct in6_addr *mask)
__CPROVER_requires(mask == NULL || __CPROVER_is_fresh(mask, sizeof(struct in6_addr)))
__CPROVER_assigns()
__CPROVER_ensures(0 <= __CPROVER_return_value && __CPROVER_return_value <= 128)
__CPROVER_ensures(mask == NULL ==> __CPROVER_return_value == 0)
;

/* ---- truncation to the prefix ------------------------------------------------------------ */
void net_addr_truncate_preflen(struct sockaddr_storage *net_addr, uint16_t preflen)
__CPROVER_requires(net_addr == NULL || __CPROVER_is_fresh(net_addr, sizeof(struct sockaddr_storage)))
/* frame: only the address bytes of the family in use */
__CPROVER_assigns(net_addr != NULL && net_addr->ss_family == AF_INET: VF_SIN(net_addr)->sin_addr)
__CPROVER_assigns(net_addr != NULL && net_addr->ss_family == AF_INET6: VF_A6(net_addr))
/* IPv4: host-order address AND host-order mask; an impossible length changes nothing */
__CPROVER_ensures((net_addr != NULL && net_addr->ss_family == AF_INET) ==>
    VF_NTOHL(VF_SIN(net_addr)->sin_addr.s_addr) == (preflen <= 32 ?
    (VF_NTOHL(__CPROVER_old(VF_SIN(net_addr)->sin_addr.s_addr)) & VF_MASK4_H(preflen)) :
    VF_NTOHL(__CPROVER_old(VF_SIN(net_addr)->sin_addr.s_addr))))
/* IPv6, per bit: bit b survives iff b < preflen */
__CPROVER_ensures((net_addr != NULL && net_addr->ss_family == AF_INET6 && vf_b < 128) ==>
    VF_BIT6(VF_A6(net_addr).s6_addr, vf_b) == ((preflen > 128 || vf_b < preflen) ?
    VF_BITOF(__CPROVER_old(VF_A6(net_addr).s6_addr[(vf_b / 8u) & 15u]), vf_b) : 0u))
/* IPv6, per 32-bit limb */
__CPROVER_ensures((net_addr != NULL && net_addr->ss_family == AF_INET6 && vf_k < 4) ==>
    VF_NTOHL(VF_A6(net_addr).s6_addr32[vf_k & 3u]) == (preflen <= 128 ?
    (VF_NTOHL(__CPROVER_old(VF_A6(net_addr).s6_addr32[vf_k & 3u])) & VF_MASK6_LIMB_H(preflen, vf_k)) :
    VF_NTOHL(__CPROVER_old(VF_A6(net_addr).s6_addr32[vf_k & 3u]))))
;

#define VF_ALIMBS(f)	((f) == AF_INET ? 1u : (f) == AF_INET6 ? 4u : 0u)

void net_addr_truncate_mask(sa_family_t family, uint32_t *net, uint32_t *mask)
__CPROVER_requires(net == NULL || __CPROVER_is_fresh(net, 4u * VF_ALIMBS(family)))
__CPROVER_requires(mask == NULL || __CPROVER_is_fresh(mask, 4u * VF_ALIMBS(family)))
__CPROVER_assigns(net != NULL && mask != NULL && family == AF_INET: __CPROVER_object_upto(net, 4u))
__CPROVER_assigns(net != NULL && mask != NULL && family == AF_INET6: __CPROVER_object_upto(net, 16u))
/* the mask is only read: it is not in the frame. The value net[i] == old(net[i]) & mask[i] is
 * proved for all inputs by harness/C18/prefix_inverse.c (a history variable of an optional
 * pointer plus index cannot be snapshotted: NULL + k). Here: every 1 bit of the result was a
 * 1 bit of the mask. */
__CPROVER_ensures((net != NULL && mask != NULL && vf_k < VF_ALIMBS(family)) ==>
    (net[vf_k] & ~mask[vf_k]) == 0u)
;

/* ---- membership ---------------------------------------------------------------------------- */
int is_addr_in_net(sa_family_t family, const uint32_t *net, const uint32_t *mask, const uint32_t *addr)
__CPROVER_requires(net == NULL || __CPROVER_is_fresh(net, 4u * VF_ALIMBS(family)))
__CPROVER_requires(mask == NULL || __CPROVER_is_fresh(mask, 4u * VF_ALIMBS(family)))
__CPROVER_requires(addr == NULL || __CPROVER_is_fresh(addr, 4u * VF_ALIMBS(family)))
__CPROVER_assigns()
__CPROVER_ensures(__CPROVER_return_value == 0 || __CPROVER_return_value == 1)
__CPROVER_ensures((net == NULL || mask == NULL || addr == NULL || VF_ALIMBS(family) == 0) ==>
    __CPROVER_return_value == 0)
__CPROVER_ensures((net != NULL && mask != NULL && addr != NULL && family == AF_INET) ==>
    (__CPROVER_return_value == 1) ==
    ((VF_NTOHL(addr[0]) & VF_NTOHL(mask[0])) == VF_NTOHL(net[0])))
__CPROVER_ensures((net != NULL && mask != NULL && addr != NULL && family == AF_INET6) ==>
    (__CPROVER_return_value == 1) ==
    ((VF_NTOHL(addr[0]) & VF_NTOHL(mask[0])) == VF_NTOHL(net[0]) &&
     (VF_NTOHL(addr[1]) & VF_NTOHL(mask[1])) == VF_NTOHL(net[1]) &&
     (VF_NTOHL(addr[2]) & VF_NTOHL(mask[2])) == VF_NTOHL(net[2]) &&
     (VF_NTOHL(addr[3]) & VF_NTOHL(mask[3])) == VF_NTOHL(net[3])))
;
#endif /* !VF_REPLAY */
#endif
