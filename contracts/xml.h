/* Contracts for src/utils/xml.c (C12; the C14 round trip is harness/C14/xml_roundtrip.c).
 *
 * xml_encode / xml_decode: thin wrappers of mem_replace_arr with the five XML entities; the real
 * mem_replace_arr is inlined (not replaced), so these contracts cover it with the real tables.
 * xml_get_val_arr / xml_get_val_ns_arr: tag-path extractor over hostile bytes.
 *
 * Spans are r_ok/w_ok (exact-size objects handed in by the harness, see contracts/mem_replace.h
 * for the reason); writes are confined by the assigns clauses.
 *
 * Caller contract of the extractors (legitimate preconditions): tag_arr / tag_arr_cnt have
 * tag_arr_count >= 1 entries, tag_arr[i] is a span of tag_arr_cnt[i] bytes; *next_pos is NULL
 * ("not set"), or a position inside / one past xml_data (what a previous call stored);
 * ret_ns / ret_ns_size have tag_arr_count entries.  The XML bytes are hostile input.
 */
#ifndef VF_CONTRACTS_XML_H
#define VF_CONTRACTS_XML_H
#include "contracts/mem_replace.h"

#ifndef VF_XML_SRC_MAX
#define VF_XML_SRC_MAX 4
#endif
#ifndef VF_XML_DST_MAX
#define VF_XML_DST_MAX 25
#endif
#ifndef VF_XML_DATA_MAX
#define VF_XML_DATA_MAX 8
#endif
#ifndef VF_XML_TAG_MAX
#define VF_XML_TAG_MAX 2	/* bytes per tag name */
#endif
#define VF_XML_TAGS_MAX 2	/* path depth */

#ifndef VF_REPLAY
int xml_encode(const uint8_t *xml, size_t xml_size, uint8_t *encoded, size_t encoded_buf_size,
    size_t *encoded_size)
__CPROVER_requires(xml_size <= VF_XML_SRC_MAX && encoded_buf_size <= VF_XML_DST_MAX)
__CPROVER_requires(xml == NULL || __CPROVER_r_ok(xml, xml_size))
__CPROVER_requires(encoded == NULL || __CPROVER_w_ok(encoded, encoded_buf_size))
__CPROVER_requires(encoded_size == NULL || __CPROVER_w_ok(encoded_size, sizeof(size_t)))
__CPROVER_assigns(encoded != NULL && encoded_buf_size != 0: __CPROVER_object_upto(encoded, encoded_buf_size))
__CPROVER_assigns(encoded_size != NULL: *encoded_size)
__CPROVER_ensures(__CPROVER_return_value == 0 || __CPROVER_return_value == EINVAL ||
    __CPROVER_return_value == ENOBUFS)
__CPROVER_ensures((xml == NULL || encoded == NULL) ==> __CPROVER_return_value == EINVAL)
/* reported length inside the capacity; encoding never shrinks and grows at most 6-fold */
__CPROVER_ensures((__CPROVER_return_value == 0 && encoded_size != NULL) ==>
    (*encoded_size <= encoded_buf_size && *encoded_size >= xml_size && *encoded_size <= 6 * xml_size))
/* a capacity of 6 bytes per input byte is always sufficient */
__CPROVER_ensures((xml != NULL && encoded != NULL && encoded_buf_size >= 6 * xml_size) ==>
    __CPROVER_return_value == 0)
;

int xml_decode(const uint8_t *encoded, size_t encoded_size, uint8_t *xml, size_t xml_buf_size,
    size_t *xml_size)
__CPROVER_requires(encoded_size <= VF_XML_SRC_MAX && xml_buf_size <= VF_XML_DST_MAX)
__CPROVER_requires(encoded == NULL || __CPROVER_r_ok(encoded, encoded_size))
__CPROVER_requires(xml == NULL || __CPROVER_w_ok(xml, xml_buf_size))
__CPROVER_requires(xml_size == NULL || __CPROVER_w_ok(xml_size, sizeof(size_t)))
__CPROVER_assigns(xml != NULL && xml_buf_size != 0: __CPROVER_object_upto(xml, xml_buf_size))
__CPROVER_assigns(xml_size != NULL: *xml_size)
__CPROVER_ensures(__CPROVER_return_value == 0 || __CPROVER_return_value == EINVAL ||
    __CPROVER_return_value == ENOBUFS)
__CPROVER_ensures((encoded == NULL || xml == NULL) ==> __CPROVER_return_value == EINVAL)
/* reported length inside the capacity; decoding never grows */
__CPROVER_ensures((__CPROVER_return_value == 0 && xml_size != NULL) ==>
    (*xml_size <= xml_buf_size && *xml_size <= encoded_size))
/* a capacity of the input size is always sufficient */
__CPROVER_ensures((encoded != NULL && xml != NULL && xml_buf_size >= encoded_size) ==>
    __CPROVER_return_value == 0)
;

#define VF_XML_TAG_ENTRY(i)							\
	(tag_arr_count <= (i) || (tag_arr_cnt[i] <= VF_XML_TAG_MAX &&		\
	    __CPROVER_r_ok(tag_arr[i], tag_arr_cnt[i])))
#define VF_XML_OUT(p, T)	((p) == NULL || __CPROVER_w_ok((p), sizeof(T)))
/* result span (q,len) inside xml_data, or the "no data" result NULL/0 */
#define VF_XML_RES_INSIDE(q, len)						\
	(((q) == NULL && (len) == 0) || VF_INSIDE((q), (len), xml_data, xml_data_size))

int xml_get_val_arr(const uint8_t *xml_data, size_t xml_data_size, const uint8_t **next_pos,
    size_t tag_arr_count, const uint8_t **tag_arr, size_t *tag_arr_cnt,
    const uint8_t **ret_attr, size_t *ret_attr_size,
    const uint8_t **ret_value, size_t *ret_value_size)
__CPROVER_requires(xml_data_size <= VF_XML_DATA_MAX)
__CPROVER_requires(__CPROVER_r_ok(xml_data, xml_data_size))
__CPROVER_requires(tag_arr_count >= 1 && tag_arr_count <= VF_XML_TAGS_MAX)
__CPROVER_requires(__CPROVER_r_ok(tag_arr, tag_arr_count * sizeof(uint8_t *)) &&
    __CPROVER_r_ok(tag_arr_cnt, tag_arr_count * sizeof(size_t)) &&
    VF_XML_TAG_ENTRY(0) && VF_XML_TAG_ENTRY(1))
__CPROVER_requires(next_pos == NULL || (__CPROVER_w_ok(next_pos, sizeof(uint8_t *)) &&
    (*next_pos == NULL || VF_PTR_INSIDE(*next_pos, xml_data, xml_data_size))))
__CPROVER_requires(VF_XML_OUT(ret_attr, uint8_t *) && VF_XML_OUT(ret_attr_size, size_t) &&
    VF_XML_OUT(ret_value, uint8_t *) && VF_XML_OUT(ret_value_size, size_t))
__CPROVER_assigns(next_pos != NULL: *next_pos; ret_attr != NULL: *ret_attr;
    ret_attr_size != NULL: *ret_attr_size; ret_value != NULL: *ret_value;
    ret_value_size != NULL: *ret_value_size)
__CPROVER_ensures(__CPROVER_return_value == 0 || __CPROVER_return_value == ESPIPE)
/* everything handed back lies inside the caller's buffer */
__CPROVER_ensures((__CPROVER_return_value == 0 && ret_value != NULL && ret_value_size != NULL) ==>
    VF_XML_RES_INSIDE(*ret_value, *ret_value_size))
__CPROVER_ensures((__CPROVER_return_value == 0 && ret_attr != NULL && ret_attr_size != NULL) ==>
    VF_XML_RES_INSIDE(*ret_attr, *ret_attr_size))
__CPROVER_ensures((__CPROVER_return_value == 0 && next_pos != NULL) ==>
    VF_PTR_INSIDE(*next_pos, xml_data, xml_data_size))
/* a failed search leaves the iteration state alone */
__CPROVER_ensures((__CPROVER_return_value != 0 && next_pos != NULL) ==>
    *next_pos == __CPROVER_old(*next_pos))
;

int xml_get_val_ns_arr(const uint8_t *xml_data, size_t xml_data_size, const uint8_t **next_pos,
    size_t tag_arr_count, const uint8_t **tag_arr, size_t *tag_arr_cnt,
    const uint8_t **ret_ns, size_t *ret_ns_size,
    const uint8_t **ret_attr, size_t *ret_attr_size,
    const uint8_t **ret_value, size_t *ret_value_size)
__CPROVER_requires(xml_data_size <= VF_XML_DATA_MAX)
__CPROVER_requires(xml_data == NULL || __CPROVER_r_ok(xml_data, xml_data_size))
__CPROVER_requires(tag_arr_count <= VF_XML_TAGS_MAX)
__CPROVER_requires(tag_arr == NULL || tag_arr_cnt == NULL ||
    (__CPROVER_r_ok(tag_arr, tag_arr_count * sizeof(uint8_t *)) &&
    __CPROVER_r_ok(tag_arr_cnt, tag_arr_count * sizeof(size_t)) &&
    VF_XML_TAG_ENTRY(0) && VF_XML_TAG_ENTRY(1)))
__CPROVER_requires(ret_ns == NULL || __CPROVER_w_ok(ret_ns, tag_arr_count * sizeof(uint8_t *)))
__CPROVER_requires(ret_ns_size == NULL || __CPROVER_w_ok(ret_ns_size, tag_arr_count * sizeof(size_t)))
__CPROVER_requires(next_pos == NULL || (__CPROVER_w_ok(next_pos, sizeof(uint8_t *)) &&
    (*next_pos == NULL || xml_data == NULL || VF_PTR_INSIDE(*next_pos, xml_data, xml_data_size))))
__CPROVER_requires(VF_XML_OUT(ret_attr, uint8_t *) && VF_XML_OUT(ret_attr_size, size_t) &&
    VF_XML_OUT(ret_value, uint8_t *) && VF_XML_OUT(ret_value_size, size_t))
__CPROVER_assigns(next_pos != NULL: *next_pos; ret_attr != NULL: *ret_attr;
    ret_attr_size != NULL: *ret_attr_size; ret_value != NULL: *ret_value;
    ret_value_size != NULL: *ret_value_size;
    ret_ns != NULL && tag_arr_count != 0: __CPROVER_object_upto(ret_ns, tag_arr_count * sizeof(uint8_t *));
    ret_ns_size != NULL && tag_arr_count != 0: __CPROVER_object_upto(ret_ns_size, tag_arr_count * sizeof(size_t)))
__CPROVER_ensures(__CPROVER_return_value == 0 || __CPROVER_return_value == ESPIPE ||
    __CPROVER_return_value == EINVAL)
__CPROVER_ensures((xml_data == NULL || xml_data_size == 0 || tag_arr_count == 0 || tag_arr == NULL ||
    tag_arr_cnt == NULL || ret_ns_size == NULL) ==> __CPROVER_return_value == EINVAL)
__CPROVER_ensures((__CPROVER_return_value == 0 && ret_value != NULL && ret_value_size != NULL) ==>
    VF_XML_RES_INSIDE(*ret_value, *ret_value_size))
__CPROVER_ensures((__CPROVER_return_value == 0 && ret_attr != NULL && ret_attr_size != NULL) ==>
    VF_XML_RES_INSIDE(*ret_attr, *ret_attr_size))
__CPROVER_ensures((__CPROVER_return_value == 0 && next_pos != NULL) ==>
    VF_PTR_INSIDE(*next_pos, xml_data, xml_data_size))
/* the name-space prefix reported for the last path element lies inside the buffer */
__CPROVER_ensures((__CPROVER_return_value == 0 && ret_ns != NULL) ==>
    (ret_ns_size[tag_arr_count - 1] == 0 ||
     VF_INSIDE(ret_ns[tag_arr_count - 1], ret_ns_size[tag_arr_count - 1], xml_data, xml_data_size)))
__CPROVER_ensures((__CPROVER_return_value != 0 && next_pos != NULL) ==>
    *next_pos == __CPROVER_old(*next_pos))
;
#endif
#endif
