/*
 * Contracts for include/crypto/hash/gost3411-2012.h (C04: GOST R 34.11-2012 "Streebog" 256/512
 * == RFC 6986; C07: HMAC-Streebog == RFC 2104 / RFC 7836).  Redeclarations only; the header is
 * compiled unmodified with the SIMD macros removed exactly as tests/hash/main.c does (no SSE,
 * no AVX path); -DGOST3411_2012_USE_SMALL_TABLES selects the library's small-table variant.
 * Ghost vocabulary: stubs/hash_ghost.h, clause macros: stubs/hash_clauses.h.
 *
 * State of the standard's algorithm (RFC 6986 section 8): h = ctx->hash, N = ctx->counter,
 * Sigma = ctx->sigma, all 512-bit little-endian integers in eight 64-bit words.
 *   gost3411_2012_transform_n(ctx, bits, blocks..)  per 64-byte block m:
 *         h = g_N(h, m);  N = N + bits;  Sigma = Sigma + m            (stage 2 / first half of stage 3)
 *   gost3411_2012_transform_1(ctx, m)               h = g_0(h, m)     (finalisation with N, Sigma)
 *
 * Build modes: (none) contract T on the transforms; VF_TRANSFORM_LOG block-logging contracts;
 * VF_HASH_STREAM byte-stream contracts; -DVF_BITS=256|512 fixes the variant.
 */
#ifndef VF_CONTRACTS_GOST3411_H
#define VF_CONTRACTS_GOST3411_H
#include "vf/vf.h"
#include "stubs/hash_ghost.h"
#include "stubs/hash_clauses.h"
#undef __SSE2__
#undef __AVX__
#undef __AVX2__
#include "crypto/hash/gost3411-2012.h"
/* T jobs compare against the table form of LPS over the library's own expanded table, which
 * job gost.tables proves entry by entry equal to the standard's pi / A (specs/gost3411_spec.h) */
#if defined(VF_GOST_T) && !defined(GOST3411_2012_USE_SMALL_TABLES) && !defined(VF_GOST_LPS_ABSTRACT) && !defined(VF_GOST_LPS_ORACLE)
#define VF_GOST_USE_LIB_TABLE 1
#define VF_GOST_LPS(out, in)	vf_gost_lps_tab(out, in)
#endif
#if defined(VF_GOST_T) && defined(GOST3411_2012_USE_SMALL_TABLES) && defined(VF_GOST_USE_LIB_SMALL)
#define VF_GOST_PI(x)	gost3411_2012_sbox[x]
#define VF_GOST_AROW(t)	gost3411_2012_A[t]
#define VF_GOST_LPS(out, in)	vf_gost_lps_scatter(out, in)
#endif
#include "specs/gost3411_spec.h"
#include "stubs/hash_libc.h"

#ifndef VF_REPLAY

#define VF_GOST_B	64
#ifdef VF_BITS
#define VF_HS		((size_t)(VF_BITS / 8))
#endif
#define VF_GOST_BITS_HS(b)	(((b) == 256 || (b) == 32) ? (size_t)32 : (size_t)64)

#define VF_GOST_EQ8(a, b)								\
    ((a)[0] == (b)[0] && (a)[1] == (b)[1] && (a)[2] == (b)[2] && (a)[3] == (b)[3] &&	\
     (a)[4] == (b)[4] && (a)[5] == (b)[5] && (a)[6] == (b)[6] && (a)[7] == (b)[7])
#define VF_GOST_EQ8_OLD(a)								\
    ((a)[0] == __CPROVER_old((a)[0]) && (a)[1] == __CPROVER_old((a)[1]) &&		\
     (a)[2] == __CPROVER_old((a)[2]) && (a)[3] == __CPROVER_old((a)[3]) &&		\
     (a)[4] == __CPROVER_old((a)[4]) && (a)[5] == __CPROVER_old((a)[5]) &&		\
     (a)[6] == __CPROVER_old((a)[6]) && (a)[7] == __CPROVER_old((a)[7]))
/* scratch written by every transform */
#define VF_GOST_SCRATCH_ASSIGNS(ctx)							\
__CPROVER_assigns(__CPROVER_object_upto((ctx)->kbuf, sizeof((ctx)->kbuf)),		\
    __CPROVER_object_upto((ctx)->tbuf, sizeof((ctx)->tbuf)),				\
    __CPROVER_object_upto((ctx)->sbuf, sizeof((ctx)->sbuf)))

/* ------------------------------------------------------------------ T / LOG ---- */
#ifndef VF_TRANSFORM_LOG
#ifdef VF_GOST_T
#ifndef VF_T_NBLK
#define VF_T_NBLK 1
#endif
/* T: per block  h = g_N(h, m), N += bits, Sigma += m  (RFC 6986 section 8 stages 2/3) */
static inline _Bool
vf_gost_Tn_post(const uint64_t *h0, const uint64_t *n0, const uint64_t *s0, size_t bits,
    const uint8_t *blocks, const uint64_t *h, const uint64_t *n, const uint64_t *s) {
	uint64_t eh[8], en[8], es[8];
	for (unsigned i = 0; i < 8; i++) { eh[i] = h0[i]; en[i] = n0[i]; es[i] = s0[i]; }
	for (unsigned b = 0; b < VF_T_NBLK; b++)
		vf_gost_stage(eh, en, es, blocks + 64 * b, bits);
	return VF_GOST_EQ8(eh, h) && VF_GOST_EQ8(en, n) && VF_GOST_EQ8(es, s);
}
static inline _Bool
vf_gost_T1_post(const uint64_t *h0, const uint64_t *m, const uint64_t *h) {
	uint64_t eh[8], zero[8] = { 0, 0, 0, 0, 0, 0, 0, 0 };
	for (unsigned i = 0; i < 8; i++) eh[i] = h0[i];
	vf_gost_g(eh, zero, (const uint8_t *)m);
	return VF_GOST_EQ8(eh, h);
}
/* pre-state copies for the postconditions (the state is 3 x 512 bit) */
uint64_t vf_gost_h0[8], vf_gost_n0[8], vf_gost_s0[8];
static inline _Bool
vf_gost_snapshot(const gost3411_2012_ctx_t *ctx) {
	for (unsigned i = 0; i < 8; i++) {
		vf_gost_h0[i] = ctx->hash[i]; vf_gost_n0[i] = ctx->counter[i]; vf_gost_s0[i] = ctx->sigma[i];
	}
	return 1;
}
/* The two 512-bit adders (N += bits, Sigma += m) under their own contracts: result == the
 * specification's addition modulo 2^512 (vf_gost_add512; job gost.addmod512 states the same
 * against one 512-bit bit-vector sum).  ENFORCED by jobs gost.add512 / gost.add512_digit,
 * REPLACED inside the g_N step (jobs gost.T.gN*), which then only has to show the composition:
 * K from h xor N with the OLD N, N advanced by the declared bit length, Sigma by the block. */
static inline _Bool
vf_gost_add_post(uint64_t a0, uint64_t a1, uint64_t a2, uint64_t a3, uint64_t a4, uint64_t a5,
    uint64_t a6, uint64_t a7, const uint64_t *b, const uint64_t *now) {
	uint64_t e[8], bb[8];
	e[0] = a0; e[1] = a1; e[2] = a2; e[3] = a3; e[4] = a4; e[5] = a5; e[6] = a6; e[7] = a7;
	for (unsigned i = 0; i < 8; i++) bb[i] = b[i];
	vf_gost_add512(e, bb);
	return VF_GOST_EQ8(e, now);
}
static inline _Bool
vf_gost_add_digit_post(uint64_t a0, uint64_t a1, uint64_t a2, uint64_t a3, uint64_t a4, uint64_t a5,
    uint64_t a6, uint64_t a7, uint64_t d, const uint64_t *now) {
	uint64_t e[8], nb[8] = { 0, 0, 0, 0, 0, 0, 0, 0 };
	e[0] = a0; e[1] = a1; e[2] = a2; e[3] = a3; e[4] = a4; e[5] = a5; e[6] = a6; e[7] = a7;
	nb[0] = d;
	vf_gost_add512(e, nb);
	return VF_GOST_EQ8(e, now);
}
#define VF_GOST_OLD8(a)	__CPROVER_old((a)[0]), __CPROVER_old((a)[1]), __CPROVER_old((a)[2]), __CPROVER_old((a)[3]), \
			__CPROVER_old((a)[4]), __CPROVER_old((a)[5]), __CPROVER_old((a)[6]), __CPROVER_old((a)[7])
#ifdef VF_GOST_ADD_ENFORCE
#define VF_GOST_ADD_RW(a)	__CPROVER_is_fresh(a, 64)
#define VF_GOST_ADD_RO(b)	__CPROVER_is_fresh(b, 64)
#else
#define VF_GOST_ADD_RW(a)	__CPROVER_w_ok(a, 64)
#define VF_GOST_ADD_RO(b)	__CPROVER_r_ok(b, 64)
#endif
static inline void
gost3411_2012_addmod512(uint64_t *a, const uint64_t *b)
__CPROVER_requires(VF_GOST_ADD_RW(a) && VF_GOST_ADD_RO(b))
__CPROVER_assigns(__CPROVER_object_upto(a, 64))
__CPROVER_ensures(vf_gost_add_post(VF_GOST_OLD8(a), b, a))
;
static inline void
gost3411_2012_addmod512_digit(uint64_t *a, const uint64_t b)
__CPROVER_requires(VF_GOST_ADD_RW(a))
__CPROVER_assigns(__CPROVER_object_upto(a, 64))
__CPROVER_ensures(vf_gost_add_digit_post(VF_GOST_OLD8(a), b, a))
;

/* X then L.P.S on 512 bits: dst = LPS(a xor b) (RFC 6986 section 6), the only place where the
 * tables are used by the g_N step.  ENFORCED by jobs gost.XSLP.* (all call shapes, incl.
 * dst == a), REPLACED inside jobs gost.T.gN*: the g_N step is then pure composition. */
static inline _Bool
vf_gost_xslp_post(uint64_t a0, uint64_t a1, uint64_t a2, uint64_t a3, uint64_t a4, uint64_t a5,
    uint64_t a6, uint64_t a7, uint64_t b0, uint64_t b1, uint64_t b2, uint64_t b3, uint64_t b4,
    uint64_t b5, uint64_t b6, uint64_t b7, const uint64_t *now) {
	uint64_t t[8], e[8];
	t[0] = a0 ^ b0; t[1] = a1 ^ b1; t[2] = a2 ^ b2; t[3] = a3 ^ b3;
	t[4] = a4 ^ b4; t[5] = a5 ^ b5; t[6] = a6 ^ b6; t[7] = a7 ^ b7;
	VF_GOST_LPS(e, t);
	return VF_GOST_EQ8(e, now);
}
#ifndef VF_GOST_LPS_ORACLE
static inline void
gost3411_2012_XSLP(gost3411_2012_ctx_p ctx, uint64_t *dst, const uint64_t *a, const uint64_t *b)
__CPROVER_requires(__CPROVER_w_ok(ctx, sizeof(gost3411_2012_ctx_t)) && __CPROVER_w_ok(dst, 64) &&
    __CPROVER_r_ok(a, 64) && __CPROVER_r_ok(b, 64))
__CPROVER_assigns(__CPROVER_object_upto(dst, 64), __CPROVER_object_upto(ctx->sbuf, sizeof(ctx->sbuf)))
__CPROVER_ensures(vf_gost_xslp_post(VF_GOST_OLD8(a), VF_GOST_OLD8(b), dst))
;
/* dst = LPS(src): the first step of g_0 (K_1 = LPS(h xor 0)) */
static inline _Bool
vf_gost_slp_post(uint64_t a0, uint64_t a1, uint64_t a2, uint64_t a3, uint64_t a4, uint64_t a5,
    uint64_t a6, uint64_t a7, const uint64_t *now) {
	uint64_t t[8], e[8];
	t[0] = a0; t[1] = a1; t[2] = a2; t[3] = a3; t[4] = a4; t[5] = a5; t[6] = a6; t[7] = a7;
	VF_GOST_LPS(e, t);
	return VF_GOST_EQ8(e, now);
}
static inline void
gost3411_2012_SLP(gost3411_2012_ctx_p ctx, uint64_t *dst, const uint64_t *src)
__CPROVER_requires(__CPROVER_w_ok(ctx, sizeof(gost3411_2012_ctx_t)) && __CPROVER_w_ok(dst, 64) && __CPROVER_r_ok(src, 64))
__CPROVER_assigns(__CPROVER_object_upto(dst, 64), __CPROVER_object_upto(ctx->sbuf, sizeof(ctx->sbuf)))
__CPROVER_ensures(vf_gost_slp_post(VF_GOST_OLD8(src), dst))
;
#else
/* oracle form of the same contract (see specs/gost3411_spec.h, VF_GOST_LPS_ORACLE) */
#define VF_LPS_IN(i)	(vf_lps_in[__CPROVER_old(vf_lps_n)][i] == (__CPROVER_old(a[i]) ^ __CPROVER_old(b[i])))
#define VF_LPS_OUT(i)	(dst[i] == vf_lps_out[__CPROVER_old(vf_lps_n)][i])
static inline void
gost3411_2012_XSLP(gost3411_2012_ctx_p ctx, uint64_t *dst, const uint64_t *a, const uint64_t *b)
__CPROVER_requires(__CPROVER_w_ok(ctx, sizeof(gost3411_2012_ctx_t)) && __CPROVER_w_ok(dst, 64) &&
    __CPROVER_r_ok(a, 64) && __CPROVER_r_ok(b, 64))
__CPROVER_requires(vf_lps_n < VF_LPS_MAX)
__CPROVER_assigns(__CPROVER_object_upto(dst, 64), __CPROVER_object_upto(ctx->sbuf, sizeof(ctx->sbuf)))
__CPROVER_assigns(vf_lps_n, __CPROVER_object_upto(vf_lps_in[vf_lps_n], 64))
__CPROVER_ensures(vf_lps_n == __CPROVER_old(vf_lps_n) + 1)
__CPROVER_ensures(VF_LPS_IN(0) && VF_LPS_IN(1) && VF_LPS_IN(2) && VF_LPS_IN(3) &&
    VF_LPS_IN(4) && VF_LPS_IN(5) && VF_LPS_IN(6) && VF_LPS_IN(7))
__CPROVER_ensures(VF_LPS_OUT(0) && VF_LPS_OUT(1) && VF_LPS_OUT(2) && VF_LPS_OUT(3) &&
    VF_LPS_OUT(4) && VF_LPS_OUT(5) && VF_LPS_OUT(6) && VF_LPS_OUT(7))
;
#define VF_LPS_IN1(i)	(vf_lps_in[__CPROVER_old(vf_lps_n)][i] == __CPROVER_old(src[i]))
static inline void
gost3411_2012_SLP(gost3411_2012_ctx_p ctx, uint64_t *dst, const uint64_t *src)
__CPROVER_requires(__CPROVER_w_ok(ctx, sizeof(gost3411_2012_ctx_t)) && __CPROVER_w_ok(dst, 64) && __CPROVER_r_ok(src, 64))
__CPROVER_requires(vf_lps_n < VF_LPS_MAX)
__CPROVER_assigns(__CPROVER_object_upto(dst, 64), __CPROVER_object_upto(ctx->sbuf, sizeof(ctx->sbuf)))
__CPROVER_assigns(vf_lps_n, __CPROVER_object_upto(vf_lps_in[vf_lps_n], 64))
__CPROVER_ensures(vf_lps_n == __CPROVER_old(vf_lps_n) + 1)
__CPROVER_ensures(VF_LPS_IN1(0) && VF_LPS_IN1(1) && VF_LPS_IN1(2) && VF_LPS_IN1(3) &&
    VF_LPS_IN1(4) && VF_LPS_IN1(5) && VF_LPS_IN1(6) && VF_LPS_IN1(7))
__CPROVER_ensures(VF_LPS_OUT(0) && VF_LPS_OUT(1) && VF_LPS_OUT(2) && VF_LPS_OUT(3) &&
    VF_LPS_OUT(4) && VF_LPS_OUT(5) && VF_LPS_OUT(6) && VF_LPS_OUT(7))
;
#endif

/* VF_T_OWNCTX: the harness owns the context object (concrete pointers to its members keep
 * the verifier's field sensitivity; needed by the composition jobs) */
#ifdef VF_T_OWNCTX
#define VF_GOST_T_CTX_REQ(ctx)	__CPROVER_requires(__CPROVER_w_ok(ctx, sizeof(gost3411_2012_ctx_t)))
#else
#define VF_GOST_T_CTX_REQ(ctx)	__CPROVER_requires(__CPROVER_is_fresh(ctx, sizeof(gost3411_2012_ctx_t)))
#endif
#define VF_GOST_TN_CONTRACT(fn)								\
static inline void									\
fn(gost3411_2012_ctx_p ctx, const size_t block_size_bits, const uint8_t *blocks,	\
    const uint8_t *blocks_max)								\
VF_GOST_T_CTX_REQ(ctx)									\
__CPROVER_requires(__CPROVER_r_ok(blocks, VF_T_NBLK * VF_GOST_B) && blocks_max == blocks + VF_T_NBLK * VF_GOST_B) \
__CPROVER_requires(block_size_bits <= 512)						\
__CPROVER_requires(vf_gost_snapshot(ctx))						\
__CPROVER_assigns(__CPROVER_object_upto(ctx->hash, sizeof(ctx->hash)),			\
    __CPROVER_object_upto(ctx->counter, sizeof(ctx->counter)),				\
    __CPROVER_object_upto(ctx->sigma, sizeof(ctx->sigma)))				\
__CPROVER_assigns((((size_t)blocks) & 7) != 0: __CPROVER_object_upto(ctx->buffer, sizeof(ctx->buffer))) \
VF_GOST_SCRATCH_ASSIGNS(ctx)								\
__CPROVER_ensures(vf_gost_Tn_post(vf_gost_h0, vf_gost_n0, vf_gost_s0, block_size_bits, blocks,	\
    ctx->hash, ctx->counter, ctx->sigma))						\
;
#define VF_GOST_T1_CONTRACT(fn)								\
static inline void									\
fn(gost3411_2012_ctx_p ctx, const uint64_t *block)					\
VF_GOST_T_CTX_REQ(ctx)									\
__CPROVER_requires(__CPROVER_r_ok(block, VF_GOST_B))					\
__CPROVER_requires(vf_gost_snapshot(ctx))						\
__CPROVER_assigns(__CPROVER_object_upto(ctx->hash, sizeof(ctx->hash)))			\
VF_GOST_SCRATCH_ASSIGNS(ctx)								\
__CPROVER_ensures(vf_gost_T1_post(vf_gost_h0, block, ctx->hash))			\
;
VF_GOST_TN_CONTRACT(gost3411_2012_transform_n_generic)
VF_GOST_TN_CONTRACT(gost3411_2012_transform_n)
VF_GOST_T1_CONTRACT(gost3411_2012_transform_1_generic)
VF_GOST_T1_CONTRACT(gost3411_2012_transform_1)
#endif /* VF_GOST_T */

#else /* VF_TRANSFORM_LOG */
/* LOG: g_N steps append their blocks to the ghost log and leave arbitrary (recorded) h, N,
 * Sigma; g_0 steps record their operand pointer and leave an arbitrary (recorded) h */
static inline void
gost3411_2012_transform_n(gost3411_2012_ctx_p ctx, const size_t block_size_bits,
    const uint8_t *blocks, const uint8_t *blocks_max)
__CPROVER_requires(__CPROVER_w_ok(ctx, sizeof(gost3411_2012_ctx_t)))
VF_LOG_REQUIRES(blocks, blocks_max, VF_GOST_B)
__CPROVER_requires(block_size_bits <= 512)
__CPROVER_assigns(__CPROVER_object_upto(ctx->hash, sizeof(ctx->hash)),
    __CPROVER_object_upto(ctx->counter, sizeof(ctx->counter)),
    __CPROVER_object_upto(ctx->sigma, sizeof(ctx->sigma)))
__CPROVER_assigns((((size_t)blocks) & 7) != 0: __CPROVER_object_upto(ctx->buffer, sizeof(ctx->buffer)))
VF_GOST_SCRATCH_ASSIGNS(ctx)
__CPROVER_assigns(vf_blk_len, vf_blk_at, vf_blk_bits, vf_blk_lenfull, __CPROVER_object_whole(vf_blk_h),
    __CPROVER_object_whole(vf_blk_N), __CPROVER_object_whole(vf_blk_S))
VF_LOG_ENSURES(blocks, blocks_max)
__CPROVER_ensures(vf_blk_bits == block_size_bits)
__CPROVER_ensures(vf_blk_lenfull == __CPROVER_old(vf_blk_lenfull) +
    ((block_size_bits == 512) ? VF_LOG_NBYTES(blocks, blocks_max) : 0))
__CPROVER_ensures(VF_GOST_EQ8(ctx->hash, vf_blk_h) && VF_GOST_EQ8(ctx->counter, vf_blk_N) &&
    VF_GOST_EQ8(ctx->sigma, vf_blk_S))
;
static inline void
gost3411_2012_transform_1(gost3411_2012_ctx_p ctx, const uint64_t *block)
__CPROVER_requires(__CPROVER_w_ok(ctx, sizeof(gost3411_2012_ctx_t)))
__CPROVER_requires(__CPROVER_r_ok(block, VF_GOST_B))
__CPROVER_requires(vf_g0_n < 4)
__CPROVER_assigns(__CPROVER_object_upto(ctx->hash, sizeof(ctx->hash)))
VF_GOST_SCRATCH_ASSIGNS(ctx)
__CPROVER_assigns(vf_g0_n, __CPROVER_object_whole(vf_g0_ptr), __CPROVER_object_whole(vf_blk_h))
__CPROVER_ensures(vf_g0_n == __CPROVER_old(vf_g0_n) + 1 && vf_g0_ptr[__CPROVER_old(vf_g0_n)] == block)
/* the other recorded operands are kept */
__CPROVER_ensures((__CPROVER_old(vf_g0_n) == 0 || vf_g0_ptr[0] == __CPROVER_old(vf_g0_ptr[0])) &&
    (__CPROVER_old(vf_g0_n) == 1 || vf_g0_ptr[1] == __CPROVER_old(vf_g0_ptr[1])) &&
    (__CPROVER_old(vf_g0_n) == 2 || vf_g0_ptr[2] == __CPROVER_old(vf_g0_ptr[2])) &&
    (__CPROVER_old(vf_g0_n) == 3 || vf_g0_ptr[3] == __CPROVER_old(vf_g0_ptr[3])))
__CPROVER_ensures(VF_GOST_EQ8(ctx->hash, vf_blk_h))
;
#endif

/* ------------------------------------------------------------------ I / U / F -- */
#if !defined(VF_HASH_STREAM)
#ifdef VF_BITS
/* I: RFC 6986 section 5.1 / 8.1: h = IV (all bytes 0x01 for 256 bit, 0x00 for 512 bit), N = 0, Sigma = 0 */
static inline void
gost3411_2012_init(const size_t bits, gost3411_2012_ctx_p ctx)
__CPROVER_requires(__CPROVER_is_fresh(ctx, sizeof(gost3411_2012_ctx_t)))
__CPROVER_requires(bits == VF_BITS || bits == VF_BITS / 8)
__CPROVER_assigns(__CPROVER_object_whole(ctx))
__CPROVER_ensures(ctx->hash_size == VF_HS && ctx->buffer_usage == 0 && ctx->use_sse == 0 && ctx->use_avx == 0)
__CPROVER_ensures(vf_d_k < 64 ==> ((const uint8_t *)ctx->hash)[vf_d_k] == ((VF_BITS == 256) ? 0x01 : 0x00))
__CPROVER_ensures(vf_d_k < 64 ==> (((const uint8_t *)ctx->counter)[vf_d_k] == 0 && ((const uint8_t *)ctx->sigma)[vf_d_k] == 0))
;
#endif

#define VF_GOST_T0(ctx)		((size_t)__CPROVER_old((ctx)->buffer_usage))
#define VF_GOST_STATE_OLD(ctx)	(VF_GOST_EQ8_OLD((ctx)->hash) && VF_GOST_EQ8_OLD((ctx)->counter) && VF_GOST_EQ8_OLD((ctx)->sigma))
#define VF_GOST_STATE_GHOST(ctx) (VF_GOST_EQ8((ctx)->hash, vf_blk_h) && VF_GOST_EQ8((ctx)->counter, vf_blk_N) && VF_GOST_EQ8((ctx)->sigma, vf_blk_S))

static inline void
gost3411_2012_update(gost3411_2012_ctx_p ctx, const uint8_t *data, const size_t data_size)
__CPROVER_requires(__CPROVER_is_fresh(ctx, sizeof(gost3411_2012_ctx_t)))
__CPROVER_requires(ctx->buffer_usage < VF_GOST_B)	/* context invariant */
#ifdef VF_TAIL
__CPROVER_requires(ctx->buffer_usage == VF_TAIL)
#endif
#ifdef VF_U_NMAX
__CPROVER_requires(data_size <= VF_U_NMAX && __CPROVER_is_fresh(data, VF_U_NMAX))
#elif defined(VF_U_NSAFE)
__CPROVER_requires(data_size <= VF_U_NSAFE && (data_size == 0 || __CPROVER_is_fresh(data, data_size)))
#else
__CPROVER_requires(data_size == 0 || __CPROVER_is_fresh(data, data_size))
#endif
__CPROVER_assigns(ctx->buffer_usage, __CPROVER_object_upto(ctx->hash, sizeof(ctx->hash)),
    __CPROVER_object_upto(ctx->counter, sizeof(ctx->counter)), __CPROVER_object_upto(ctx->sigma, sizeof(ctx->sigma)),
    __CPROVER_object_upto(ctx->buffer, sizeof(ctx->buffer)))
VF_GOST_SCRATCH_ASSIGNS(ctx)
__CPROVER_assigns(vf_blk_len, vf_blk_at, vf_blk_bits, vf_blk_lenfull, __CPROVER_object_whole(vf_blk_h),
    __CPROVER_object_whole(vf_blk_N), __CPROVER_object_whole(vf_blk_S))
/* the buffered byte count is the tail length and stays below one block */
__CPROVER_ensures(ctx->buffer_usage == ((VF_GOST_T0(ctx) + data_size) & (VF_GOST_B - 1)))
VF_U_POST_LEN(VF_GOST_T0(ctx), data_size, VF_GOST_B)
/* every block handed over during update is declared as a full 512-bit block */
__CPROVER_ensures(vf_blk_lenfull == __CPROVER_old(vf_blk_lenfull) + VF_FED(VF_GOST_T0(ctx), data_size, VF_GOST_B))
#ifndef VF_U_NOCONTENT
VF_U_POST_CONTENT(VF_GOST_T0(ctx), data_size, VF_GOST_B, ctx->buffer, data)
#endif
__CPROVER_ensures(VF_FED(VF_GOST_T0(ctx), data_size, VF_GOST_B) == 0 ==> VF_GOST_STATE_OLD(ctx))
__CPROVER_ensures(VF_FED(VF_GOST_T0(ctx), data_size, VF_GOST_B) != 0 ==> VF_GOST_STATE_GHOST(ctx))
;

#ifdef VF_BITS
/* F: RFC 6986 section 8.3: m = 0..0 1 || M (byte 0x01 after the tail, zeros above),
 * h = g_N(h, m); N += |M|; Sigma += m; h = g_0(h, N); h = g_0(h, Sigma); output h or MSB_256(h); wipe */
static inline void
gost3411_2012_final(gost3411_2012_ctx_p ctx, uint8_t *digest)
__CPROVER_requires(__CPROVER_is_fresh(ctx, sizeof(gost3411_2012_ctx_t)))
__CPROVER_requires(ctx->buffer_usage < VF_GOST_B && ctx->hash_size == VF_HS)
#ifdef VF_TAIL
__CPROVER_requires(ctx->buffer_usage == VF_TAIL)
#endif
__CPROVER_requires(__CPROVER_is_fresh(digest, VF_HS))
__CPROVER_requires(vf_g0_n == 0)
__CPROVER_assigns(__CPROVER_object_whole(ctx), __CPROVER_object_upto(digest, VF_HS))
__CPROVER_assigns(vf_blk_len, vf_blk_at, vf_blk_bits, vf_blk_lenfull, __CPROVER_object_whole(vf_blk_h),
    __CPROVER_object_whole(vf_blk_N), __CPROVER_object_whole(vf_blk_S), vf_g0_n, __CPROVER_object_whole(vf_g0_ptr))
/* exactly one more g_N step, over the padded tail, declared with the tail's bit length */
__CPROVER_ensures(vf_blk_len == __CPROVER_old(vf_blk_len) + VF_GOST_B && vf_blk_bits == VF_GOST_T0(ctx) * 8 &&
    vf_blk_lenfull == __CPROVER_old(vf_blk_lenfull))
__CPROVER_ensures(VF_BLK_IN(VF_GOST_B) ==> vf_blk_at == (
    (VF_BLK_J < VF_GOST_T0(ctx)) ? VF_OLDBUF_K(ctx->buffer, VF_GOST_B) :
    (VF_BLK_J == VF_GOST_T0(ctx)) ? (uint8_t)0x01 : (uint8_t)0x00))
__CPROVER_ensures(!VF_BLK_IN(VF_GOST_B) ==> vf_blk_at == __CPROVER_old(vf_blk_at))
/* then g_0 with N and g_0 with Sigma, in this order, on the context's own N and Sigma */
__CPROVER_ensures(vf_g0_n == 2 && vf_g0_ptr[0] == (const void *)ctx->counter && vf_g0_ptr[1] == (const void *)ctx->sigma)
/* digest == h (512) or its most significant half (256), least significant byte first */
__CPROVER_ensures(vf_d_k < VF_HS ==> digest[vf_d_k] ==
    VF_BYTE_LE(vf_blk_h[(64 - VF_HS + vf_d_k) >> 3], (64 - VF_HS + vf_d_k) & 7))
__CPROVER_ensures(vf_c_k < sizeof(gost3411_2012_ctx_t) ==> ((const uint8_t *)ctx)[vf_c_k] == 0)
;
#endif
#endif /* I/U/F */

#if defined(VF_HASH_STREAM) && defined(VF_BITS) /* ------------------------ STREAM -- */
static inline void
gost3411_2012_init(const size_t bits, gost3411_2012_ctx_p ctx)
__CPROVER_requires(__CPROVER_w_ok(ctx, sizeof(gost3411_2012_ctx_t)))
__CPROVER_assigns(__CPROVER_object_upto(ctx, sizeof(gost3411_2012_ctx_t)))
__CPROVER_assigns(vf_s_len, vf_s_open, vf_s_ctx, vf_s_bits)
__CPROVER_ensures(vf_s_len == 0 && vf_s_open == 1 && vf_s_ctx == ctx && vf_s_bits == VF_GOST_BITS_HS(bits))
__CPROVER_ensures(ctx->hash_size == VF_GOST_BITS_HS(bits))
;
static inline void
gost3411_2012_update(gost3411_2012_ctx_p ctx, const uint8_t *data, const size_t data_size)
__CPROVER_requires(__CPROVER_w_ok(ctx, sizeof(gost3411_2012_ctx_t)))
__CPROVER_requires(vf_s_open == 1 && vf_s_ctx == ctx)
__CPROVER_requires(data_size == 0 || __CPROVER_r_ok(data, data_size))
__CPROVER_assigns(__CPROVER_object_upto(ctx, sizeof(gost3411_2012_ctx_t)))
__CPROVER_assigns(vf_s_len, vf_s_at)
__CPROVER_ensures(vf_s_len == __CPROVER_old(vf_s_len) + data_size)
__CPROVER_ensures(vf_s_at ==
    ((vf_s_k >= __CPROVER_old(vf_s_len) && vf_s_k - __CPROVER_old(vf_s_len) < data_size) ?
	data[vf_s_k - __CPROVER_old(vf_s_len)] : __CPROVER_old(vf_s_at)))
__CPROVER_ensures(ctx->hash_size == __CPROVER_old(ctx->hash_size))
;
static inline void
gost3411_2012_final(gost3411_2012_ctx_p ctx, uint8_t *digest)
__CPROVER_requires(__CPROVER_w_ok(ctx, sizeof(gost3411_2012_ctx_t)))
__CPROVER_requires(vf_s_open == 1 && vf_s_ctx == ctx && ctx->hash_size == vf_s_bits)
__CPROVER_requires(__CPROVER_w_ok(digest, vf_s_bits))
__CPROVER_requires(vf_d_n < VF_D_MAX)
__CPROVER_assigns(__CPROVER_object_upto(ctx, sizeof(gost3411_2012_ctx_t)), __CPROVER_object_upto(digest, vf_s_bits))
__CPROVER_assigns(vf_s_open, vf_d_n, vf_d_len[vf_d_n], vf_d_at[vf_d_n], vf_d_size[vf_d_n], vf_d_dig[vf_d_n])
__CPROVER_ensures(vf_s_open == 0 && vf_d_n == __CPROVER_old(vf_d_n) + 1)
__CPROVER_ensures(vf_d_len[__CPROVER_old(vf_d_n)] == vf_s_len && vf_d_at[__CPROVER_old(vf_d_n)] == vf_s_at &&
    vf_d_size[__CPROVER_old(vf_d_n)] == vf_s_bits)
__CPROVER_ensures(vf_d_k < vf_s_bits ==> digest[vf_d_k] == vf_d_dig[__CPROVER_old(vf_d_n)])
__CPROVER_ensures(vf_c_k < sizeof(gost3411_2012_ctx_t) ==> ((const uint8_t *)ctx)[vf_c_k] == 0)
;

#define VF_BITS_REQ(bits)	__CPROVER_requires((bits) == VF_BITS || (bits) == VF_BITS / 8)
#define VF_SIZE_RET_REQ(p)	__CPROVER_requires((p) == NULL || __CPROVER_is_fresh((p), sizeof(size_t)))
#define VF_SIZE_RET_POST(p, v)	__CPROVER_ensures((p) != NULL ==> *(p) == (v))

/* ---- C07: HMAC-Streebog (RFC 7836); B = 64 ---- */
static inline void
hmac_gost3411_2012_init(const size_t bits, const uint8_t *key, const size_t key_len,
    hmac_gost3411_2012_ctx_p hctx)
__CPROVER_requires(__CPROVER_is_fresh(hctx, sizeof(hmac_gost3411_2012_ctx_t)))
VF_BITS_REQ(bits)
__CPROVER_requires(VF_KEY_FRESH(key, key_len))
__CPROVER_requires(vf_d_n == 0)
__CPROVER_assigns(__CPROVER_object_whole(hctx))
VF_STREAM_GHOST_ASSIGNS
VF_HMAC_INIT_POST(key, key_len, hctx, VF_GOST_B, VF_HS)
__CPROVER_ensures(hctx->ctx.hash_size == VF_HS && vf_s_bits == VF_HS)
;
static inline void
hmac_gost3411_2012_update(hmac_gost3411_2012_ctx_p hctx, const uint8_t *data, const size_t data_size)
__CPROVER_requires(__CPROVER_is_fresh(hctx, sizeof(hmac_gost3411_2012_ctx_t)))
__CPROVER_requires(data_size == 0 || __CPROVER_is_fresh(data, data_size))
__CPROVER_requires(vf_s_open == 1 && vf_s_ctx == &hctx->ctx)
__CPROVER_assigns(__CPROVER_object_upto(&hctx->ctx, sizeof(gost3411_2012_ctx_t)), vf_s_len, vf_s_at)
__CPROVER_ensures(vf_s_open == 1 && vf_s_len == __CPROVER_old(vf_s_len) + data_size)
__CPROVER_ensures(vf_s_at ==
    ((vf_s_k >= __CPROVER_old(vf_s_len) && vf_s_k - __CPROVER_old(vf_s_len) < data_size) ?
	data[vf_s_k - __CPROVER_old(vf_s_len)] : __CPROVER_old(vf_s_at)))
__CPROVER_ensures(hctx->ctx.hash_size == __CPROVER_old(hctx->ctx.hash_size))
;
static inline void
hmac_gost3411_2012_final(hmac_gost3411_2012_ctx_p hctx, uint8_t *digest, size_t *digest_size)
__CPROVER_requires(__CPROVER_is_fresh(hctx, sizeof(hmac_gost3411_2012_ctx_t)))
__CPROVER_requires(__CPROVER_is_fresh(digest, VF_HS))
VF_SIZE_RET_REQ(digest_size)
__CPROVER_requires(vf_s_open == 1 && vf_s_ctx == &hctx->ctx && vf_d_n <= 1)
__CPROVER_requires(hctx->ctx.hash_size == VF_HS && vf_s_bits == VF_HS)
__CPROVER_assigns(__CPROVER_object_whole(hctx), __CPROVER_object_upto(digest, VF_HS))
__CPROVER_assigns(digest_size != NULL: *digest_size)
VF_STREAM_GHOST_ASSIGNS
VF_HMAC_FINAL_POST(hctx, hmac_gost3411_2012_ctx_t, digest, VF_GOST_B, VF_HS)
VF_SIZE_RET_POST(digest_size, VF_HS)
;
static inline void
hmac_gost3411_2012(const size_t bits, const uint8_t *key, const size_t key_len,
    const uint8_t *data, const size_t data_size, uint8_t *digest, size_t *digest_size)
VF_BITS_REQ(bits)
__CPROVER_requires(VF_KEY_FRESH(key, key_len))
__CPROVER_requires(data_size == 0 || __CPROVER_is_fresh(data, data_size))
__CPROVER_requires(__CPROVER_is_fresh(digest, VF_HS))
VF_SIZE_RET_REQ(digest_size)
__CPROVER_requires(vf_d_n == 0)
__CPROVER_assigns(__CPROVER_object_upto(digest, VF_HS))
__CPROVER_assigns(digest_size != NULL: *digest_size)
VF_STREAM_GHOST_ASSIGNS
VF_HMAC_ONESHOT_POST(key, key_len, data, data_size, digest, VF_GOST_B, VF_HS)
VF_SIZE_RET_POST(digest_size, VF_HS)
;
static inline void
gost3411_2012_hmac_get_digest(const size_t bits, const void *key, const size_t key_size,
    const void *data, const size_t data_size, uint8_t *digest, size_t *digest_size)
VF_BITS_REQ(bits)
__CPROVER_requires(VF_KEY_FRESH(key, key_size))
__CPROVER_requires(data_size == 0 || __CPROVER_is_fresh(data, data_size))
__CPROVER_requires(__CPROVER_is_fresh(digest, VF_HS))
VF_SIZE_RET_REQ(digest_size)
__CPROVER_requires(vf_d_n == 0)
__CPROVER_assigns(__CPROVER_object_upto(digest, VF_HS))
__CPROVER_assigns(digest_size != NULL: *digest_size)
VF_STREAM_GHOST_ASSIGNS
VF_HMAC_ONESHOT_POST(key, key_size, data, data_size, digest, VF_GOST_B, VF_HS)
VF_SIZE_RET_POST(digest_size, VF_HS)
;
static inline void
gost3411_2012_hmac_get_digest_str(size_t bits, const char *key, const size_t key_size,
    const char *data, const size_t data_size, char *digest_str, size_t *digest_str_size)
VF_BITS_REQ(bits)
__CPROVER_requires(VF_KEY_FRESH(key, key_size))
__CPROVER_requires(data_size == 0 || __CPROVER_is_fresh(data, data_size))
__CPROVER_requires(__CPROVER_is_fresh(digest_str, 2 * VF_HS + 1))
VF_SIZE_RET_REQ(digest_str_size)
__CPROVER_requires(vf_d_n == 0)
__CPROVER_assigns(__CPROVER_object_upto(digest_str, 2 * VF_HS + 1))
__CPROVER_assigns(digest_str_size != NULL: *digest_str_size)
VF_STREAM_GHOST_ASSIGNS
__CPROVER_ensures(vf_d_n == VF_HMAC_NK(key_size, VF_GOST_B) + 2)
VF_HEXSTR_POST(digest_str, VF_HS, vf_d_dig[VF_HMAC_NK(key_size, VF_GOST_B) + 1])
VF_SIZE_RET_POST(digest_str_size, 2 * VF_HS)
;

/* ---- C04: one-shot and hex-string entry points ---- */
static inline void
gost3411_2012_cvt_hex(const uint8_t *bin, const size_t bin_size, uint8_t *hex)
__CPROVER_requires(bin_size <= GOST3411_2012_HASH_MAX_SIZE)
__CPROVER_requires((bin_size == 0 || __CPROVER_r_ok(bin, bin_size)) && __CPROVER_w_ok(hex, 2 * bin_size + 1))
__CPROVER_assigns(__CPROVER_object_upto(hex, 2 * bin_size + 1))
VF_HEXSTR_POST(hex, bin_size, bin[vf_d_k])
;
static inline void
gost3411_2012_get_digest(const size_t bits, const void *data, const size_t data_size,
    uint8_t *digest, size_t *digest_size)
VF_BITS_REQ(bits)
__CPROVER_requires(data_size == 0 || __CPROVER_is_fresh(data, data_size))
__CPROVER_requires(__CPROVER_is_fresh(digest, VF_HS))
VF_SIZE_RET_REQ(digest_size)
__CPROVER_requires(vf_d_n == 0)
__CPROVER_assigns(__CPROVER_object_upto(digest, VF_HS))
__CPROVER_assigns(digest_size != NULL: *digest_size)
VF_STREAM_GHOST_ASSIGNS
VF_HASH_ONESHOT_POST(data, data_size, VF_HS)
__CPROVER_ensures(vf_d_k < VF_HS ==> digest[vf_d_k] == vf_d_dig[0])
VF_SIZE_RET_POST(digest_size, VF_HS)
;
static inline void
gost3411_2012_get_digest_str(const size_t bits, const char *data, const size_t data_size,
    char *digest_str, size_t *digest_str_size)
VF_BITS_REQ(bits)
__CPROVER_requires(data_size == 0 || __CPROVER_is_fresh(data, data_size))
__CPROVER_requires(__CPROVER_is_fresh(digest_str, 2 * VF_HS + 1))
VF_SIZE_RET_REQ(digest_str_size)
__CPROVER_requires(vf_d_n == 0)
__CPROVER_assigns(__CPROVER_object_upto(digest_str, 2 * VF_HS + 1))
__CPROVER_assigns(digest_str_size != NULL: *digest_str_size)
VF_STREAM_GHOST_ASSIGNS
VF_HASH_ONESHOT_POST(data, data_size, VF_HS)
VF_HEXSTR_POST(digest_str, VF_HS, vf_d_dig[0])
VF_SIZE_RET_POST(digest_str_size, 2 * VF_HS)
;
#endif /* VF_HASH_STREAM */

#endif /* !VF_REPLAY */
#endif
