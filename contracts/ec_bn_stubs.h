/*
 * ASSUMED callee contracts of include/math/big_num.h for the modular proofs of C02 / C03 / C09
 * (elliptic_curve.h, ecdsa.h verified against CONTRACTS of their bn_* callees,
 * --replace-call-with-contract).  Included by contracts/ec.h after the unmodified headers.
 *
 * Deliberately weak, but sound over-approximations of the real functions:
 *   frame    the function writes only the digits/num[] of its result operand (never `count`),
 *            and the ghost status words;
 *   status   it returns an int; WHICH status is unspecified (any operation may fail, e.g. with
 *            EOVERFLOW), except where the first lines of the real function decide it
 *            (documented per contract);
 *   failure  on status != 0 the result operand is UNSPECIFIED (not even well-formed);
 *   success  on status 0 the result operand is well-formed (VF_BN_WF); for results of a
 *            reduction modulo m additionally value < m.
 * Values (VF_BN_VAL, specs/bn_spec.h) are only compared, never computed with: bn_cmp / bn_is_equal
 * carry the C01 value contract verbatim (contracts/bn_struct.h), bn_assign / bn_import copy.
 * No product / quotient / inverse is specified: that is C01's business, at the capacities C01
 * reaches.  The stronger C01 contracts (contracts/bn_*.h) imply these wherever both exist; they
 * cannot be used here because their value clauses (wide * and %) put 2880-bit multipliers and
 * dividers into every formula.
 *
 * The preconditions are ASSERTED at every call site in elliptic_curve.h / ecdsa.h: operands are
 * valid objects and well-formed numbers.  That is a real obligation on the callers (e.g. nothing
 * may be computed from the output of a failed operation).
 *
 * Trivial loop-free functions keep their REAL bodies: bn_init, bn_is_zero, bn_is_one, bn_is_odd,
 * bn_is_even, bn_assign_zero.
 */
#ifndef VF_CONTRACTS_EC_BN_STUBS_H
#define VF_CONTRACTS_EC_BN_STUBS_H
#ifndef VF_REPLAY

/* k-th logged call: slot i of array arr receives val when the counter was i, else keeps its value */
#define VF_IO_SLOT(cnt, arr, i, val)	((__CPROVER_old(cnt) == (i)) ? ((arr)[i] == (val)) : ((arr)[i] == __CPROVER_old((arr)[i])))
#define VF_IO_SLOTS4(cnt, arr, val)	(VF_IO_SLOT(cnt, arr, 0, val) && VF_IO_SLOT(cnt, arr, 1, val) && VF_IO_SLOT(cnt, arr, 2, val) && VF_IO_SLOT(cnt, arr, 3, val))
/* -DVF_EC_LIGHT: the "result < m" clauses of the modular operations are dropped (weaker, still sound
 * assumptions) for jobs whose obligations do not need them and whose formula is otherwise too large */
#ifdef VF_EC_LIGHT
#define VF_LT(x, y)	1
#else
#define VF_LT(x, y)	((x) < (y))
#endif
#define VF_SIGN(x, y)		(((x) > (y)) ? 1 : (((x) < (y)) ? -1 : 0))
#define VF_BN_CNT_OK(p)		((p)->count >= 1 && (p)->count <= BN_MAX_DIGITS)
#define VF_ECBN_RW(p)		(VF_BN_OK(p) && vf_bn_wf(*(p)))
#define VF_ECBN_R(p)		(VF_BN_ROK(p) && vf_bn_wf(*(p)))
/* result-only operand: valid object with a valid capacity, content irrelevant */
#define VF_ECBN_OUT(p)		(VF_BN_OK(p) && VF_BN_CNT_OK(p))

/* ------------------------------------------------------------------ comparisons ---- */
/* = contracts/bn_struct.h (C01 r1c.bn_cmp.*, r1c.bn_is_equal.*) */
static inline int
bn_cmp(bn_p a, bn_p b)
__CPROVER_requires(VF_ECBN_R(a) && VF_ECBN_R(b))
__CPROVER_assigns(vf_g.cmp)
__CPROVER_ensures(__CPROVER_return_value == VF_SIGN(vf_bn_val(*a), vf_bn_val(*b)))
__CPROVER_ensures(vf_n_cmp == __CPROVER_old(vf_n_cmp) + 1u && vf_cmp_a == VF_ID(a) && vf_cmp_b == VF_ID(b) &&
    vf_cmp_r == __CPROVER_return_value)
__CPROVER_ensures(vf_cmp_r0 == ((__CPROVER_old(vf_n_cmp) == 0) ? __CPROVER_return_value : __CPROVER_old(vf_cmp_r0)) &&
    vf_cmp_r1 == ((__CPROVER_old(vf_n_cmp) == 1) ? __CPROVER_return_value : __CPROVER_old(vf_cmp_r1)))
;
static inline int
bn_is_equal(bn_p a, bn_p b)
__CPROVER_requires(VF_ECBN_R(a) && VF_ECBN_R(b))
__CPROVER_assigns()
__CPROVER_ensures((__CPROVER_return_value != 0) == (vf_bn_val(*a) == vf_bn_val(*b)))
;

/* bn_is_zero keeps its real body (digits == 0) in most jobs; a job that lists it in `replace` gets the
 * same answer plus a log of WHICH number was tested (ecdsa_sign: the GOST e == 0 test) */
static inline int
bn_is_zero(bn_p bn)
__CPROVER_requires(VF_ECBN_R(bn))
__CPROVER_assigns(vf_g.iz)
__CPROVER_ensures((__CPROVER_return_value != 0) == (bn->digits == 0))
__CPROVER_ensures(vf_n_iz == __CPROVER_old(vf_n_iz) + 1u &&
    VF_IO_SLOTS4(vf_n_iz, vf_iz_bn, VF_ID(bn)) && VF_IO_SLOTS4(vf_n_iz, vf_iz_r, __CPROVER_return_value))
;

/* ------------------------------------------------------------------ assignments ---- */
/* dst = src; dst == src is a no-op; EOVERFLOW iff src does not fit (first lines of the function) */
static inline int
bn_assign(bn_p dst, bn_p src)
__CPROVER_requires(VF_ECBN_OUT(dst) && VF_ECBN_R(src))
__CPROVER_assigns(dst != src: VF_BN_FRAME(dst))
__CPROVER_assigns(VF_EC_STATUS_ASSIGNS, vf_g.assign)
__CPROVER_ensures(VF_EC_STATUS_ENSURES)
__CPROVER_ensures(vf_n_assign == __CPROVER_old(vf_n_assign) + 1u)
__CPROVER_ensures(VF_IO_SLOTS4(vf_n_assign, vf_assign_dst, VF_ID(dst)) && VF_IO_SLOTS4(vf_n_assign, vf_assign_src, VF_ID(src)))
__CPROVER_ensures(__CPROVER_return_value == ((dst != src && src->digits > dst->count) ? EOVERFLOW : 0))
__CPROVER_ensures(__CPROVER_return_value == 0 ==> (vf_bn_wf(*dst) && vf_bn_val(*dst) == vf_bn_val(*src)))
;
static inline int
bn_assign_init(bn_p dst, bn_p src)
__CPROVER_requires(VF_BN_OK(dst) && VF_ECBN_R(src) && dst != src)
__CPROVER_assigns(dst->count, VF_BN_FRAME(dst))
__CPROVER_assigns(VF_EC_STATUS_ASSIGNS)
__CPROVER_ensures(VF_EC_STATUS_ENSURES)
__CPROVER_ensures(__CPROVER_return_value == 0)
__CPROVER_ensures(vf_bn_wf(*dst) && dst->count == src->count && vf_bn_val(*dst) == vf_bn_val(*src))
;
static inline int
bn_assign_digit(bn_p bn, bn_digit_t digit)
__CPROVER_requires(VF_ECBN_OUT(bn))
__CPROVER_assigns(VF_BN_FRAME(bn))
__CPROVER_assigns(VF_EC_STATUS_ASSIGNS)
__CPROVER_ensures(VF_EC_STATUS_ENSURES)
__CPROVER_ensures(__CPROVER_return_value == 0)
__CPROVER_ensures(vf_bn_wf(*bn) && vf_bn_val(*bn) == digit)
;
static inline int
bn_assign_2exp(bn_p bn, size_t exp)
__CPROVER_requires(VF_ECBN_OUT(bn))
__CPROVER_assigns(VF_BN_FRAME(bn))
__CPROVER_assigns(VF_EC_STATUS_ASSIGNS)
__CPROVER_ensures(VF_EC_STATUS_ENSURES)
__CPROVER_ensures(__CPROVER_return_value == 0 ==> vf_bn_wf(*bn))
;

/* ------------------------------------------------------------------ generic shapes ---- */
/* bn = op(bn [, n]) mod m : result < m on success */
#define VF_ECBN_MODOP2(fn)								\
static inline int fn(bn_p bn, bn_p n, bn_p m, bn_mod_rd_data_p mod_rd_data)		\
__CPROVER_requires(VF_ECBN_RW(bn) && VF_ECBN_R(n) && VF_ECBN_R(m) && bn != m)		\
__CPROVER_assigns(VF_BN_FRAME(bn))							\
__CPROVER_assigns(VF_EC_STATUS_ASSIGNS)							\
__CPROVER_ensures(VF_EC_STATUS_ENSURES)							\
__CPROVER_ensures(__CPROVER_return_value == 0 ==> vf_bn_wf(*bn))			\
;
#define VF_ECBN_MODOP1(fn)								\
static inline int fn(bn_p bn, bn_p m, bn_mod_rd_data_p mod_rd_data)			\
__CPROVER_requires(VF_ECBN_RW(bn) && VF_ECBN_R(m) && bn != m)				\
__CPROVER_assigns(VF_BN_FRAME(bn))							\
__CPROVER_assigns(VF_EC_STATUS_ASSIGNS)							\
__CPROVER_ensures(VF_EC_STATUS_ENSURES)							\
__CPROVER_ensures(__CPROVER_return_value == 0 ==> vf_bn_wf(*bn))			\
;

/* bn = bn mod m: result < m (m == 0 is EINVAL in the real function) */
static inline int
bn_mod(bn_p bn, bn_p m, bn_mod_rd_data_p mod_rd_data)
__CPROVER_requires(VF_ECBN_RW(bn) && VF_ECBN_R(m) && bn != m)
__CPROVER_assigns(VF_BN_FRAME(bn))
__CPROVER_assigns(VF_EC_STATUS_ASSIGNS, vf_g.mod)
__CPROVER_ensures(VF_EC_STATUS_ENSURES)
__CPROVER_ensures(vf_n_mod == __CPROVER_old(vf_n_mod) + 1u && vf_mod_last_bn == VF_ID(bn) && vf_mod_last_m == VF_ID(m))
__CPROVER_ensures(VF_IO_SLOTS4(vf_n_mod, vf_mod_bn, VF_ID(bn)) && VF_IO_SLOTS4(vf_n_mod, vf_mod_m, VF_ID(m)))
__CPROVER_ensures(__CPROVER_return_value == 0 ==> vf_mod_val == vf_bn_val(*bn))
__CPROVER_ensures(__CPROVER_return_value == 0 ==> (vf_bn_wf(*bn) && VF_LT(vf_bn_val(*bn), vf_bn_val(*m))))
;
/* (bn * n) mod m: result < m */
static inline int
bn_mod_mult(bn_p bn, bn_p n, bn_p m, bn_mod_rd_data_p mod_rd_data)
__CPROVER_requires(VF_ECBN_RW(bn) && VF_ECBN_R(n) && VF_ECBN_R(m) && bn != m)
__CPROVER_assigns(VF_BN_FRAME(bn))
__CPROVER_assigns(VF_EC_STATUS_ASSIGNS, vf_g.mmul)
__CPROVER_ensures(VF_EC_STATUS_ENSURES)
__CPROVER_ensures(vf_n_mmul == __CPROVER_old(vf_n_mmul) + 1u &&
    VF_IO_SLOTS4(vf_n_mmul, vf_mmul_bn, VF_ID(bn)) && VF_IO_SLOTS4(vf_n_mmul, vf_mmul_nn, VF_ID(n)))
__CPROVER_ensures(__CPROVER_return_value == 0 ==> (vf_bn_wf(*bn) && VF_LT(vf_bn_val(*bn), vf_bn_val(*m))))
;
static inline int
bn_mod_square(bn_p bn, bn_p m, bn_mod_rd_data_p mod_rd_data)
__CPROVER_requires(VF_ECBN_RW(bn) && VF_ECBN_R(m) && bn != m)
__CPROVER_assigns(VF_BN_FRAME(bn))
__CPROVER_assigns(VF_EC_STATUS_ASSIGNS)
__CPROVER_ensures(VF_EC_STATUS_ENSURES)
__CPROVER_ensures(__CPROVER_return_value == 0 ==> (vf_bn_wf(*bn) && VF_LT(vf_bn_val(*bn), vf_bn_val(*m))))
;
static inline int
bn_mod_mult_digit(bn_p bn, bn_digit_t n, bn_p m, bn_mod_rd_data_p mod_rd_data)
__CPROVER_requires(VF_ECBN_RW(bn) && VF_ECBN_R(m) && bn != m)
__CPROVER_assigns(VF_BN_FRAME(bn))
__CPROVER_assigns(VF_EC_STATUS_ASSIGNS, vf_g.mult_digit)
__CPROVER_ensures(VF_EC_STATUS_ENSURES)
__CPROVER_ensures(vf_n_mult_digit3 == __CPROVER_old(vf_n_mult_digit3) + ((n == 3) ? 1u : 0u))
__CPROVER_ensures(vf_n_mult_digit == __CPROVER_old(vf_n_mult_digit) + 1u && vf_mult_digit_d == n &&
    vf_mult_digit_bn == VF_ID(bn) && vf_mult_digit_m == VF_ID(m))
__CPROVER_ensures(__CPROVER_return_value == 0 ==> (vf_bn_wf(*bn) && VF_LT(vf_bn_val(*bn), vf_bn_val(*m))))
;
static inline int
bn_mod_exp_digit(bn_p bn, size_t exp, bn_p m, bn_mod_rd_data_p mod_rd_data)
__CPROVER_requires(VF_ECBN_RW(bn) && VF_ECBN_R(m) && bn != m)
__CPROVER_assigns(VF_BN_FRAME(bn))
__CPROVER_assigns(VF_EC_STATUS_ASSIGNS)
__CPROVER_ensures(VF_EC_STATUS_ENSURES)
__CPROVER_ensures(__CPROVER_return_value == 0 ==> vf_bn_wf(*bn))
;
/* (bn + n) mod m by one conditional subtraction: residues in, residue out (C01 r3.bn_mod_add.*) */
static inline int
bn_mod_add(bn_p bn, bn_p n, bn_p m, bn_mod_rd_data_p mod_rd_data)
__CPROVER_requires(VF_ECBN_RW(bn) && VF_ECBN_R(n) && VF_ECBN_R(m) && bn != m)
__CPROVER_assigns(VF_BN_FRAME(bn))
__CPROVER_assigns(VF_EC_STATUS_ASSIGNS)
__CPROVER_ensures(VF_EC_STATUS_ENSURES)
__CPROVER_ensures(__CPROVER_return_value == 0 ==> vf_bn_wf(*bn))
__CPROVER_ensures((__CPROVER_return_value == 0 && vf_bn_val(__CPROVER_old(*bn)) < vf_bn_val(*m) &&
    vf_bn_val(__CPROVER_old(*n)) < vf_bn_val(*m)) ==> vf_bn_val(*bn) < vf_bn_val(*m))
;
/* (bn - n) mod m: frame, status, well-formed result (C01 r3.bn_mod_sub.* enforces this and the value for
 * residue operands; no value clause is used here) */
static inline int
bn_mod_sub(bn_p bn, bn_p n, bn_p m, bn_mod_rd_data_p mod_rd_data)
__CPROVER_requires(VF_ECBN_RW(bn) && VF_ECBN_R(n) && VF_ECBN_R(m) && bn != m)
__CPROVER_assigns(VF_BN_FRAME(bn))
__CPROVER_assigns(VF_EC_STATUS_ASSIGNS, vf_g.msub)
__CPROVER_ensures(VF_EC_STATUS_ENSURES)
__CPROVER_ensures(vf_n_msub == __CPROVER_old(vf_n_msub) + 1u &&
    vf_msub_z0 == ((__CPROVER_old(vf_n_msub) == 0) ? (__CPROVER_return_value == 0 && bn->digits == 0) : __CPROVER_old(vf_msub_z0)) &&
    vf_msub_z1 == ((__CPROVER_old(vf_n_msub) == 1) ? (__CPROVER_return_value == 0 && bn->digits == 0) : __CPROVER_old(vf_msub_z1)))
__CPROVER_ensures((__CPROVER_old(vf_n_msub) == 0) ? (vf_msub_bn0 == VF_ID(bn) && vf_msub_n0 == VF_ID(n) && vf_msub_m0 == VF_ID(m)) :
    (vf_msub_bn0 == __CPROVER_old(vf_msub_bn0) && vf_msub_n0 == __CPROVER_old(vf_msub_n0) && vf_msub_m0 == __CPROVER_old(vf_msub_m0)))
__CPROVER_ensures(__CPROVER_return_value == 0 ==> vf_bn_wf(*bn))
;
VF_ECBN_MODOP1(bn_mod_sqrt)
/* bn^-1 mod m.  Same clauses as the contract ENFORCED in C01 (r3.bn_mod_inv_bin.loops.w8.n7): bn == 0,
 * m == 0, bn >= m or an even modulus is EINVAL; on success the result is a well-formed residue.
 * ("result != 0 and result * bn == 1 mod m" is NOT used here.) */
static inline int
bn_mod_inv_bin(bn_p bn, bn_p m, bn_mod_rd_data_p mod_rd_data)
__CPROVER_requires(VF_ECBN_RW(bn) && VF_ECBN_R(m) && bn != m)
__CPROVER_assigns(VF_BN_FRAME(bn))
__CPROVER_assigns(VF_EC_STATUS_ASSIGNS)
__CPROVER_ensures(VF_EC_STATUS_ENSURES)
__CPROVER_ensures((vf_bn_val(__CPROVER_old(*bn)) == 0 || vf_bn_val(*m) == 0 ||
    vf_bn_val(__CPROVER_old(*bn)) >= vf_bn_val(*m) || (vf_bn_val(*m) & 1) == 0) ==> __CPROVER_return_value == EINVAL)
__CPROVER_ensures(__CPROVER_return_value == 0 ==> (vf_bn_wf(*bn) && VF_LT(vf_bn_val(*bn), vf_bn_val(*m))))
;
/* bn unchanged if bn < m, else (bn mod (m - 1)) + 1: in both cases the result is < m, and it is
 * non-zero unless bn was zero (first lines of the function; C01 r3.bn_mod_reduce.*) */
static inline int
bn_mod_reduce(bn_p bn, bn_p m, bn_mod_rd_data_p mod_rd_data)
__CPROVER_requires(VF_ECBN_RW(bn) && VF_ECBN_R(m) && bn != m)
__CPROVER_requires(vf_bn_ge2(*m))
__CPROVER_assigns(VF_BN_FRAME(bn))
__CPROVER_assigns(VF_EC_STATUS_ASSIGNS, vf_g.reduce)
__CPROVER_ensures(VF_EC_STATUS_ENSURES)
__CPROVER_ensures(vf_n_reduce == __CPROVER_old(vf_n_reduce) + 1u)
__CPROVER_ensures((__CPROVER_old(vf_n_reduce) == 0) ? (vf_reduce_bn[0] == VF_ID(bn) && vf_reduce_m[0] == VF_ID(m)) :
    (vf_reduce_bn[0] == __CPROVER_old(vf_reduce_bn[0]) && vf_reduce_m[0] == __CPROVER_old(vf_reduce_m[0])))
__CPROVER_ensures((__CPROVER_old(vf_n_reduce) == 1) ? (vf_reduce_bn[1] == VF_ID(bn) && vf_reduce_m[1] == VF_ID(m)) :
    (vf_reduce_bn[1] == __CPROVER_old(vf_reduce_bn[1]) && vf_reduce_m[1] == __CPROVER_old(vf_reduce_m[1])))
__CPROVER_ensures(vf_bn_val(__CPROVER_old(*bn)) < vf_bn_val(*m) ==>
    (__CPROVER_return_value == 0 && vf_bn_val(*bn) == vf_bn_val(__CPROVER_old(*bn))))
__CPROVER_ensures(__CPROVER_return_value == 0 ==> (vf_bn_wf(*bn) && vf_bn_val(*bn) < vf_bn_val(*m) &&
    (vf_bn_val(__CPROVER_old(*bn)) == 0 || vf_bn_val(*bn) != 0)))
;

/* halving in the doubling formulas: y2 += p (if odd); y2 >>= 1 */
static inline int
bn_add(bn_p bn, bn_p n, bn_digit_t *carry)
__CPROVER_requires(VF_ECBN_RW(bn) && VF_ECBN_R(n) && carry == NULL)
__CPROVER_assigns(VF_BN_FRAME(bn))
__CPROVER_assigns(VF_EC_STATUS_ASSIGNS)
__CPROVER_ensures(VF_EC_STATUS_ENSURES)
__CPROVER_ensures(__CPROVER_return_value == 0 ==> vf_bn_wf(*bn))
;
static inline void
bn_r_shift(bn_p bn, size_t bits)
__CPROVER_requires(VF_ECBN_RW(bn) && (bn->digits == 0 || bits < bn->digits * BN_DIGIT_BITS))
__CPROVER_assigns(VF_BN_FRAME(bn))
__CPROVER_ensures(vf_bn_wf(*bn))
;
/* plain arithmetic used by ec_point_is_inverse / ec_curve_validate */
static inline int
bn_sub(bn_p bn, bn_p n, bn_digit_t *borrow)
__CPROVER_requires(VF_ECBN_RW(bn) && VF_ECBN_R(n) && borrow == NULL)
__CPROVER_assigns(VF_BN_FRAME(bn))
__CPROVER_assigns(VF_EC_STATUS_ASSIGNS)
__CPROVER_ensures(VF_EC_STATUS_ENSURES)
__CPROVER_ensures(__CPROVER_return_value == 0 ==> vf_bn_wf(*bn))
;
/* = contracts/bn_struct.h: bn = (bn - d) mod 2^(W*count) (C01 r1c.bn_sub_digit.*) */
static inline void
bn_sub_digit(bn_p bn, bn_digit_t n, bn_digit_t *borrow)
__CPROVER_requires(VF_ECBN_RW(bn) && borrow == NULL)
__CPROVER_assigns(VF_BN_FRAME(bn))
__CPROVER_ensures(vf_bn_wf(*bn))
__CPROVER_ensures(vf_bn_val(*bn) == ((vf_bn_val(__CPROVER_old(*bn)) + VF_BN_CAP(*bn) - n) & (VF_BN_CAP(*bn) - 1)))
;
static inline void
bn_add_digit(bn_p bn, bn_digit_t n, bn_digit_t *carry)
__CPROVER_requires(VF_ECBN_RW(bn) && carry == NULL)
__CPROVER_assigns(VF_BN_FRAME(bn))
__CPROVER_ensures(vf_bn_wf(*bn))
;
#define VF_ECBN_OP0(fn)									\
static inline int fn(bn_p bn)								\
__CPROVER_requires(VF_ECBN_RW(bn))							\
__CPROVER_assigns(VF_BN_FRAME(bn))							\
__CPROVER_assigns(VF_EC_STATUS_ASSIGNS)							\
__CPROVER_ensures(VF_EC_STATUS_ENSURES)							\
__CPROVER_ensures(__CPROVER_return_value == 0 ==> vf_bn_wf(*bn))			\
;
VF_ECBN_OP0(bn_sqrt)
VF_ECBN_OP0(bn_square)
static inline int
bn_mult_digit(bn_p bn, bn_digit_t n)
__CPROVER_requires(VF_ECBN_RW(bn))
__CPROVER_assigns(VF_BN_FRAME(bn))
__CPROVER_assigns(VF_EC_STATUS_ASSIGNS)
__CPROVER_ensures(VF_EC_STATUS_ENSURES)
__CPROVER_ensures(__CPROVER_return_value == 0 ==> vf_bn_wf(*bn))
;
static inline int
bn_div(bn_p bn, bn_p d, bn_p remainder)
__CPROVER_requires(VF_ECBN_RW(bn) && VF_ECBN_R(d) && remainder == NULL && bn != d)
__CPROVER_assigns(VF_BN_FRAME(bn))
__CPROVER_assigns(VF_EC_STATUS_ASSIGNS)
__CPROVER_ensures(VF_EC_STATUS_ENSURES)
__CPROVER_ensures(__CPROVER_return_value == 0 ==> vf_bn_wf(*bn))
;

/* ------------------------------------------------------------------ byte strings ---- */
/* reads exactly buf[0 .. buf_size), writes only the number; first lines of bn_digits_import_*_bin:
 * buf_size == 0 is EINVAL, more bytes than the capacity is EOVERFLOW, anything else succeeds.
 * The k-th call (k < 4) is logged: which buffer, how many bytes, into which number. */
#define VF_IO_LOGGED(cnt, B, S, N, buf, size, bn)					\
	(VF_IO_SLOT(cnt, B, 0, VF_ID(buf)) && VF_IO_SLOT(cnt, B, 1, VF_ID(buf)) &&	\
	 VF_IO_SLOT(cnt, B, 2, VF_ID(buf)) && VF_IO_SLOT(cnt, B, 3, VF_ID(buf)) &&	\
	 VF_IO_SLOT(cnt, S, 0, (size)) && VF_IO_SLOT(cnt, S, 1, (size)) &&		\
	 VF_IO_SLOT(cnt, S, 2, (size)) && VF_IO_SLOT(cnt, S, 3, (size)) &&		\
	 VF_IO_SLOT(cnt, N, 0, VF_ID(bn)) && VF_IO_SLOT(cnt, N, 1, VF_ID(bn)) &&	\
	 VF_IO_SLOT(cnt, N, 2, VF_ID(bn)) && VF_IO_SLOT(cnt, N, 3, VF_ID(bn)))

#define VF_ECBN_IMPORT(fn)								\
static inline int fn(bn_p bn, const uint8_t *buf, size_t buf_size)			\
__CPROVER_requires(VF_ECBN_OUT(bn) && bn->digits <= bn->count)				\
__CPROVER_requires(buf != NULL && __CPROVER_r_ok(buf, buf_size))			\
__CPROVER_assigns(VF_BN_FRAME(bn))							\
__CPROVER_assigns(VF_EC_STATUS_ASSIGNS, vf_g.imp)					\
__CPROVER_ensures(VF_EC_STATUS_ENSURES)							\
__CPROVER_ensures(vf_n_imp == __CPROVER_old(vf_n_imp) + 1u)				\
__CPROVER_ensures(VF_IO_LOGGED(vf_n_imp, vf_imp_buf, vf_imp_size, vf_imp_bn, buf, buf_size, bn))	\
__CPROVER_ensures(__CPROVER_return_value == ((buf_size == 0) ? EINVAL :			\
    ((bn->count * sizeof(bn_digit_t) < buf_size) ? EOVERFLOW : 0)))			\
__CPROVER_ensures(__CPROVER_return_value == 0 ==> vf_bn_wf(*bn))			\
;
VF_ECBN_IMPORT(bn_import_be_bin)
VF_ECBN_IMPORT(bn_import_le_bin)

/* writes exactly buf[0 .. buf_size) (flags == 0: fixed width, zero padded), reads only the number.
 * EINVAL iff buf_size == 0; otherwise 0 or EOVERFLOW (number does not fit). */
#define VF_ECBN_EXPORT(fn)								\
static inline int fn(bn_p bn, uint32_t flags, uint8_t *buf, size_t buf_size, size_t *buf_size_ret)	\
__CPROVER_requires(VF_ECBN_R(bn) && flags == 0 && buf_size_ret == NULL)			\
__CPROVER_requires(buf != NULL && __CPROVER_w_ok(buf, buf_size))			\
__CPROVER_assigns(buf_size != 0: __CPROVER_object_upto(buf, buf_size))			\
__CPROVER_assigns(VF_EC_STATUS_ASSIGNS, vf_g.exp)					\
__CPROVER_ensures(VF_EC_STATUS_ENSURES)							\
__CPROVER_ensures(vf_n_exp == __CPROVER_old(vf_n_exp) + 1u)				\
__CPROVER_ensures(VF_IO_LOGGED(vf_n_exp, vf_exp_buf, vf_exp_size, vf_exp_bn, buf, buf_size, bn))	\
__CPROVER_ensures(__CPROVER_return_value == 0 || __CPROVER_return_value == EINVAL || __CPROVER_return_value == EOVERFLOW)	\
__CPROVER_ensures((__CPROVER_return_value == EINVAL) == (buf_size == 0))		\
;
VF_ECBN_EXPORT(bn_export_be_bin)
VF_ECBN_EXPORT(bn_export_le_bin)

#endif /* !VF_REPLAY */
#endif /* VF_CONTRACTS_EC_BN_STUBS_H */
