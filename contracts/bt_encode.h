/* Specification vocabulary for src/utils/bt_encode.c (C12): bencode decoder and dictionary lookup.
 *
 * STATUS: registered are the modular one-level jobs bt_encode.level.* (harness/C12/bt_level.c: the
 * real body of bt_en_decode against its level contract, recursive calls replaced by that contract).
 * NOT registered: the whole-recursion harness harness/C12/bt_decode.c and the tree predicate
 * vf_bt_wf below (kept for a later attempt):
 *   - symbolic execution of the full recursion does not finish within 20-40 min even for 3..6
 *     input bytes (six recursive call sites per level, recursive bt_en_free on every error path,
 *     64-entry pre-allocated item arrays); --dfcc --enforce-contract-rec needs > 20 GB;
 *   - CBMC 6.11 loses a pointer that is stored in a non-first member of the `val` union of
 *     bt_en_node_t and then dereferenced (node->val.d[i].key, node->val.l[i]): the access goes to
 *     `invalid_object`, so every walk over a decoded tree (bt_en_free, bt_dict_find, vf_bt_wf)
 *     raises false alarms.  Reproducer: struct S { union { uint8_t *s; struct D *d; } val; };
 *     p->val.d = arr; p->val.d[0].key = &x; assert(arr[0].key == &x) fails.
 *
 * bt_en_decode is recursive and builds a heap tree; its "contract" is stated as an executable
 * well-formedness predicate over the returned tree (vf_bt_wf below) that the bounded plain
 * harness harness/C12/bt_decode.c asserts:
 *   - reads only buf[0..buf_size) (exact-size object, pointer obligations of the real code);
 *   - success: *ret_data != NULL, 1 <= *ret_buf_off <= buf_size, and for every node of the tree
 *     raw/raw_size and val.s lie inside buf, lists/dictionaries have val_count entries with
 *     non-NULL children, dictionary keys are byte strings;
 *   - failure: *ret_data == NULL, return code in {EINVAL, EBADMSG, ENOMEM};
 *   - terminates: recursion and loops fully unwound with unwinding assertions;
 *   - allocation may fail (cbmc --malloc-may-fail --malloc-fail-null): every calloc /
 *     reallocarray result is possibly NULL.
 * bt_dict_find is run on every dictionary the real decoder produced (symbolic key, type and
 * start index).
 */
#ifndef VF_CONTRACTS_BT_ENCODE_H
#define VF_CONTRACTS_BT_ENCODE_H
#define VF_MRA_NO_CONTRACT
#include "contracts/mem_replace.h"	/* VF_EXACT8 / VF_EXACT16 */
#include <errno.h>
#include <stdlib.h>
#include "utils/bt_encode.h"

#ifndef VF_BT_MAX
#define VF_BT_MAX 6	/* buf_size bound */
#endif

#ifndef VF_REPLAY
/* reallocarray(3): glibc/BSD semantics on top of CBMC's realloc model (CBMC has no model) */
void *reallocarray(void *ptr, size_t nmemb, size_t size) {
	if (size != 0 && nmemb > ((size_t)-1) / size) {
		errno = ENOMEM;
		return (NULL);
	}
	return (realloc(ptr, nmemb * size));
}
#endif

/* span (p, n) inside buf[0..buf_size) - plain C, also compiled natively */
static inline int
vf_bt_inside(const uint8_t *p, size_t n, const uint8_t *buf, size_t buf_size) {
#ifndef VF_REPLAY
	if (!__CPROVER_same_object(p, buf))
		return (0);
	size_t off = (size_t)__CPROVER_POINTER_OFFSET(p) - (size_t)__CPROVER_POINTER_OFFSET(buf);
	return (__CPROVER_POINTER_OFFSET(p) >= __CPROVER_POINTER_OFFSET(buf) && off <= buf_size && n <= buf_size - off);
#else
	return (p >= buf && (size_t)(p - buf) <= buf_size && n <= buf_size - (size_t)(p - buf));
#endif
}

/* well-formedness of a decoded tree w.r.t. the buffer it was decoded from */
static int
vf_bt_wf(bt_en_node_p node, const uint8_t *buf, size_t buf_size) {
	size_t i;

	if (NULL == node)
		return (0);
	if (!vf_bt_inside(node->raw, node->raw_size, buf, buf_size))
		return (0);
	switch (node->type) {
	case BT_EN_TYPE_STR:
		return (node->val_count == 1 && node->val.s == node->raw);
	case BT_EN_TYPE_NUM:
		return (node->val_count == 1);
	case BT_EN_TYPE_LIST:
		if (node->val_count != 0 && NULL == node->val.l)
			return (0);
		for (i = 0; i < node->val_count; i ++) {
			if (!vf_bt_wf(node->val.l[i], buf, buf_size))
				return (0);
		}
		return (1);
	case BT_EN_TYPE_DICT:
		if (node->val_count != 0 && NULL == node->val.d)
			return (0);
		for (i = 0; i < node->val_count; i ++) {
			if (NULL == node->val.d[i].key || node->val.d[i].key->type != BT_EN_TYPE_STR)
				return (0);
			if (!vf_bt_wf(node->val.d[i].key, buf, buf_size) ||
			    !vf_bt_wf(node->val.d[i].val, buf, buf_size))
				return (0);
		}
		return (1);
	}
	return (0);
}
#endif
