/* Specification vocabulary for src/utils/bt_encode.c (C12): bencode decoder and dictionary lookup.
 *
 * bt_en_decode is recursive and builds a heap tree; its "contract" is stated as an executable
 * well-formedness predicate over the returned tree (vf_bt_wf below) that the bounded plain
 * harness harness/C12/bt_decode.c asserts:
 *   - reads only buf[0..buf_size) (exact-size object, pointer obligations of the real code);
 *   - success: *ret_data != NULL, 1 <= *ret_buf_off <= buf_size, and for every node of the tree
 *     raw/raw_size and val.s lie inside buf, lists/dictionaries have val_count entries with
 *     non-NULL children, dictionary keys are byte strings;
 *   - failure: *ret_data == NULL, return code in {EINVAL, EBADMSG, ENOMEM};
 *   - terminates: recursion and loops fully unwound with unwinding assertions;
 *   - allocation may fail (cbmc --malloc-may-fail --malloc-fail-null): every calloc /
 *     reallocarray result is possibly NULL.
 * bt_dict_find is run on every dictionary the real decoder produced (symbolic key, type and
 * start index).
 */
#ifndef VF_CONTRACTS_BT_ENCODE_H
#define VF_CONTRACTS_BT_ENCODE_H
#define VF_MRA_NO_CONTRACT
#include "contracts/mem_replace.h"	/* VF_EXACT8 / VF_EXACT16 */
#include <errno.h>
#include <stdlib.h>
#include "utils/bt_encode.h"

#ifndef VF_BT_MAX
#define VF_BT_MAX 6	/* buf_size bound */
#endif

#ifndef VF_REPLAY
/* reallocarray(3): glibc/BSD semantics on top of CBMC's realloc model (CBMC has no model) */
void *reallocarray(void *ptr, size_t nmemb, size_t size) {
	if (size != 0 && nmemb > ((size_t)-1) / size) {
		errno = ENOMEM;
		return (NULL);
	}
	return (realloc(ptr, nmemb * size));
}
#endif

#if defined(VF_BT_DFCC) && !defined(VF_REPLAY)
/* ------------------------------------------------------------------------------------------
 * Modular contract of ONE level of bt_en_decode (jobs bt_encode.decode_rec.*, goto-instrument
 * --enforce-contract-rec): the recursive calls are replaced by this same contract (induction
 * on the buffer length: every recursive call gets a strictly shorter buffer, cur_pos >= buf + 1),
 * bt_en_free by the contract below.  What a caller may rely on after success: a fresh node whose
 * raw span lies inside buf, a consumed length 1..buf_size; after failure: no node.
 * At the recursive call sites the requires clause is ASSERTED: the sub-buffer handed down must
 * be readable, i.e. lie inside the caller's buffer.
 * ------------------------------------------------------------------------------------------ */
/* the node handed back: known type, raw span inside the buffer, byte string = its raw span */
static int
vf_bt_node_ok(const bt_en_node_t *node, const uint8_t *buf, size_t buf_size) {
	return (node->type <= BT_EN_TYPE_DICT &&
	    VF_PTR_INSIDE(node->raw, buf, buf_size) &&
	    VF_INSIDE(node->raw, node->raw_size, buf, buf_size) &&
	    (node->type != BT_EN_TYPE_STR || (node->val.s == node->raw && node->val_count == 1)));
}
int bt_en_decode(uint8_t *buf, size_t buf_size, bt_en_node_p *ret_data, size_t *ret_buf_off)
__CPROVER_requires(buf_size <= VF_BT_MAX)
__CPROVER_requires(buf == NULL || __CPROVER_is_fresh(buf, buf_size))
__CPROVER_requires(ret_data == NULL || __CPROVER_w_ok(ret_data, sizeof(bt_en_node_p)))
__CPROVER_requires(ret_buf_off == NULL || __CPROVER_w_ok(ret_buf_off, sizeof(size_t)))
__CPROVER_assigns(ret_data != NULL: *ret_data; ret_buf_off != NULL: *ret_buf_off)
__CPROVER_ensures(__CPROVER_return_value == 0 || __CPROVER_return_value == EINVAL ||
    __CPROVER_return_value == EBADMSG || __CPROVER_return_value == ENOMEM)
__CPROVER_ensures((buf == NULL || buf_size == 0 || ret_data == NULL) ==> __CPROVER_return_value == EINVAL)
__CPROVER_ensures((__CPROVER_return_value != 0 && __CPROVER_return_value != EINVAL) ==> *ret_data == NULL)
__CPROVER_ensures(__CPROVER_return_value == 0 ==> __CPROVER_is_fresh(*ret_data, sizeof(bt_en_node_t)))
__CPROVER_ensures(__CPROVER_return_value == 0 ==> vf_bt_node_ok(*ret_data, buf, buf_size))
/* the consumed length stays inside the buffer */
__CPROVER_ensures((__CPROVER_return_value == 0 && ret_buf_off != NULL) ==>
    (*ret_buf_off >= 1 && *ret_buf_off <= buf_size))
;
void bt_en_free(bt_en_node_p node)
__CPROVER_requires(node == NULL || __CPROVER_is_freeable(node))
__CPROVER_assigns()
__CPROVER_frees(node)
__CPROVER_ensures(node == NULL || __CPROVER_was_freed(node))
;
#endif

/* span (p, n) inside buf[0..buf_size) - plain C, also compiled natively */
static inline int
vf_bt_inside(const uint8_t *p, size_t n, const uint8_t *buf, size_t buf_size) {
#ifndef VF_REPLAY
	if (!__CPROVER_same_object(p, buf))
		return (0);
	size_t off = (size_t)__CPROVER_POINTER_OFFSET(p) - (size_t)__CPROVER_POINTER_OFFSET(buf);
	return (__CPROVER_POINTER_OFFSET(p) >= __CPROVER_POINTER_OFFSET(buf) && off <= buf_size && n <= buf_size - off);
#else
	return (p >= buf && (size_t)(p - buf) <= buf_size && n <= buf_size - (size_t)(p - buf));
#endif
}

/* well-formedness of a decoded tree w.r.t. the buffer it was decoded from */
static int
vf_bt_wf(bt_en_node_p node, const uint8_t *buf, size_t buf_size) {
	size_t i;

	if (NULL == node)
		return (0);
	if (!vf_bt_inside(node->raw, node->raw_size, buf, buf_size))
		return (0);
	switch (node->type) {
	case BT_EN_TYPE_STR:
		return (node->val_count == 1 && node->val.s == node->raw);
	case BT_EN_TYPE_NUM:
		return (node->val_count == 1);
	case BT_EN_TYPE_LIST:
		if (node->val_count != 0 && NULL == node->val.l)
			return (0);
		for (i = 0; i < node->val_count; i ++) {
			if (!vf_bt_wf(node->val.l[i], buf, buf_size))
				return (0);
		}
		return (1);
	case BT_EN_TYPE_DICT:
		if (node->val_count != 0 && NULL == node->val.d)
			return (0);
		for (i = 0; i < node->val_count; i ++) {
			if (NULL == node->val.d[i].key || node->val.d[i].key->type != BT_EN_TYPE_STR)
				return (0);
			if (!vf_bt_wf(node->val.d[i].key, buf, buf_size) ||
			    !vf_bt_wf(node->val.d[i].val, buf, buf_size))
				return (0);
		}
		return (1);
	}
	return (0);
}
#endif
