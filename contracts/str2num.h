/* Contracts for include/utils/str2num.h: read-only scan of exactly the given span. */
#ifndef VF_CONTRACTS_STR2NUM_H
#define VF_CONTRACTS_STR2NUM_H
#include "vf/vf.h"
#ifndef VF_REPLAY
#define VF_STR2NUM_CONTRACT(fn, RT, CT)					\
static inline RT fn(const CT *str, const size_t str_len)		\
__CPROVER_requires(str == NULL || str_len == 0 || __CPROVER_is_fresh(str, str_len)) \
__CPROVER_assigns()							\
__CPROVER_ensures((str == NULL || str_len == 0) ==> __CPROVER_return_value == 0) \
;
VF_STR2NUM_CONTRACT(str2usize, size_t, char)
VF_STR2NUM_CONTRACT(ustr2usize, size_t, uint8_t)
VF_STR2NUM_CONTRACT(str2u8, uint8_t, char)
VF_STR2NUM_CONTRACT(ustr2u8, uint8_t, uint8_t)
VF_STR2NUM_CONTRACT(str2u16, uint16_t, char)
VF_STR2NUM_CONTRACT(ustr2u16, uint16_t, uint8_t)
VF_STR2NUM_CONTRACT(str2u32, uint32_t, char)
VF_STR2NUM_CONTRACT(ustr2u32, uint32_t, uint8_t)
VF_STR2NUM_CONTRACT(str2u64, uint64_t, char)
VF_STR2NUM_CONTRACT(ustr2u64, uint64_t, uint8_t)
VF_STR2NUM_CONTRACT(str2ssize, ssize_t, char)
VF_STR2NUM_CONTRACT(ustr2ssize, ssize_t, uint8_t)
VF_STR2NUM_CONTRACT(str2s8, int8_t, char)
VF_STR2NUM_CONTRACT(ustr2s8, int8_t, uint8_t)
VF_STR2NUM_CONTRACT(str2s16, int16_t, char)
VF_STR2NUM_CONTRACT(ustr2s16, int16_t, uint8_t)
VF_STR2NUM_CONTRACT(str2s32, int32_t, char)
VF_STR2NUM_CONTRACT(ustr2s32, int32_t, uint8_t)
VF_STR2NUM_CONTRACT(str2s64, int64_t, char)
VF_STR2NUM_CONTRACT(ustr2s64, int64_t, uint8_t)
#endif
#endif
