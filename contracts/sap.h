/*
 * Contracts for include/proto/sap.h (property C13): sap_packet_is_valid and the
 * sap_packet_get_* accessors.  Redeclarations only; include BEFORE "proto/sap.h".
 *
 * Input model: the datagram is NULL or an exact-size span of pkt_size hostile bytes, pkt_size
 * symbolic (0 <= pkt_size <= VF_SAP_PKT_MAX), every byte (version, address-type bit, auth_len,
 * id hash, payload) unconstrained.
 *
 * The accessors sap_packet_get_orig_src / _orig_src_type / _auth_data take NO size: they can only
 * be specified for a packet that sap_packet_is_valid accepted (the documented call protocol).
 * That precondition is expressed with the ghost size vf_sap_pkt_size (set by the harness) and the
 * byte-level predicate VF_SAP_VALID, which is exactly the postcondition of sap_packet_is_valid:
 * the job sap.validated.* checks the composition (validator's ensures => accessors' requires).
 *
 * sap_packet_get_payload takes pkt_size, so it is specified for EVERY packet (no validity
 * precondition); -DVF_SAP_PAYLOAD_VALIDATED selects the weaker "validated packet" contract.
 *
 * Span model.  The usual `__CPROVER_is_fresh(pkt, pkt_size)` (an object of SYMBOLIC size) cannot be
 * used for this header: CBMC 6.11 mis-lowers the read of a struct that consists of bit-fields only
 * (struct sap_hdr_flags_s, one byte) out of a byte array of non-constant size - the bit-fields come
 * out unrelated to the byte (measured: byte 0 == 0x10 gives v == 4, a == 0, c == 1; with a
 * constant-size object the same read is exact).  The packet is therefore modelled as the LAST
 * pkt_size bytes of an object of constant capacity VF_SAP_PKT_MAX: VF_SAP_SPAN = readable and
 * ending exactly at the end of its object, so one
 * byte past the packet is still a failed dereference; pkt_size and all bytes stay symbolic.
 * Cost grows with the capacity (1024: 3-30 s per job, 65535: does not finish), so the SAP jobs are
 * route "bounded": capacity 1024 in the quick tier (RFC 2974 section 3 recommends packets below
 * 1 kByte), 4096 in the thorough tier.  The largest header extent is 4 + 16 + 255 + 16 = 291 bytes.
 */
#ifndef VF_CONTRACTS_SAP_H
#define VF_CONTRACTS_SAP_H
#include "vf/vf.h"
#include <sys/types.h>
#include <sys/socket.h>

#ifndef VF_SAP_PKT_MAX
#define VF_SAP_PKT_MAX		((size_t)1024)
#endif
#define VF_SAP_HDR_SIZE		((size_t)4)	/* sizeof(sap_hdr_t) */
#define VF_SAP_MIN_PAYLOAD	((size_t)16)	/* SAP_MIN_PAYLOAD */
#define VF_SAP_B(pkt, i)	(((const uint8_t *)(pkt))[(i)])
/* RFC 2974 section 3: |V=1|A|R|T|E|C|  auth len  |  msg id hash  | */
#define VF_SAP_VER(pkt)		((unsigned)(VF_SAP_B(pkt, 0) >> 5))
#define VF_SAP_ALEN(pkt)	((size_t)((VF_SAP_B(pkt, 0) & 0x10) ? 16 : 4))
#define VF_SAP_AUTH_OFF(pkt)	(VF_SAP_HDR_SIZE + VF_SAP_ALEN(pkt))
#define VF_SAP_DATA_OFF(pkt)	(VF_SAP_AUTH_OFF(pkt) + (size_t)VF_SAP_B(pkt, 1))
/* header + originating source + authentication data + minimal payload lie inside the packet */
#define VF_SAP_VALID(pkt, n)							\
	((n) >= VF_SAP_HDR_SIZE && VF_SAP_VER(pkt) == 1 &&			\
	 (VF_SAP_B(pkt, 2) != 0 || VF_SAP_B(pkt, 3) != 0) &&			\
	 (n) >= VF_SAP_DATA_OFF(pkt) + VF_SAP_MIN_PAYLOAD)

#ifndef VF_REPLAY
/* exact span: n readable bytes that end where the underlying object ends */
#define VF_SAP_SPAN(pkt, n)							\
	(((n) == 0 || __CPROVER_r_ok((pkt), (n))) &&				\
	 (size_t)__CPROVER_OBJECT_SIZE(pkt) == VF_OFF(pkt) + (size_t)(n))
/* ghost: size of the datagram behind a size-less accessor call */
size_t vf_sap_pkt_size;
#define VF_SAP_VALIDATED(pkt)							\
	((pkt) == NULL || (vf_sap_pkt_size <= VF_SAP_PKT_MAX &&		\
	    VF_SAP_SPAN((pkt), vf_sap_pkt_size) && VF_SAP_VALID((pkt), vf_sap_pkt_size)))

static inline int
sap_packet_is_valid(uint8_t *pkt, size_t pkt_size)
__CPROVER_requires(pkt_size <= VF_SAP_PKT_MAX)
__CPROVER_requires(pkt == NULL || VF_SAP_SPAN(pkt, pkt_size))
__CPROVER_assigns()
__CPROVER_ensures(__CPROVER_return_value == 0 || __CPROVER_return_value == 1)
__CPROVER_ensures((__CPROVER_return_value == 1) == (pkt != NULL && VF_SAP_VALID(pkt, pkt_size)))
;

static inline uint8_t *
sap_packet_get_orig_src(uint8_t *pkt)
__CPROVER_requires(VF_SAP_VALIDATED(pkt))
__CPROVER_assigns()
__CPROVER_ensures((__CPROVER_return_value == NULL) == (pkt == NULL))
/* the 4/16 address bytes lie inside the packet */
__CPROVER_ensures(pkt != NULL ==> (VF_OFF(__CPROVER_return_value) - VF_OFF(pkt) == VF_SAP_HDR_SIZE &&
    VF_INSIDE(__CPROVER_return_value, VF_SAP_ALEN(pkt), pkt, vf_sap_pkt_size)))
;

static inline uint16_t
sap_packet_get_orig_src_type(uint8_t *pkt)
__CPROVER_requires(VF_SAP_VALIDATED(pkt))
__CPROVER_assigns()
__CPROVER_ensures(pkt == NULL ==> __CPROVER_return_value == 0)
__CPROVER_ensures(pkt != NULL ==> __CPROVER_return_value == (VF_SAP_ALEN(pkt) == 4 ? AF_INET : AF_INET6))
;

static inline uint8_t *
sap_packet_get_auth_data(uint8_t *pkt)
__CPROVER_requires(VF_SAP_VALIDATED(pkt))
__CPROVER_assigns()
__CPROVER_ensures((__CPROVER_return_value == NULL) == (pkt == NULL))
/* the auth_len authentication bytes lie inside the packet */
__CPROVER_ensures(pkt != NULL ==> (VF_OFF(__CPROVER_return_value) - VF_OFF(pkt) == VF_SAP_AUTH_OFF(pkt) &&
    VF_INSIDE(__CPROVER_return_value, VF_SAP_B(pkt, 1), pkt, vf_sap_pkt_size)))
;

static inline uint8_t *
sap_packet_get_payload(uint8_t *pkt, size_t pkt_size)
__CPROVER_requires(pkt_size <= VF_SAP_PKT_MAX)
#ifdef VF_SAP_PAYLOAD_VALIDATED
__CPROVER_requires(pkt == NULL || (VF_SAP_SPAN(pkt, pkt_size) && VF_SAP_VALID(pkt, pkt_size)))
#else
__CPROVER_requires(pkt == NULL || VF_SAP_SPAN(pkt, pkt_size))
#endif
__CPROVER_assigns()
__CPROVER_ensures(pkt == NULL ==> __CPROVER_return_value == NULL)
/* payload start lies inside the packet (== end: empty payload), never before the auth data end */
__CPROVER_ensures(__CPROVER_return_value != NULL ==> (VF_PTR_INSIDE(__CPROVER_return_value, pkt, pkt_size) &&
    VF_OFF(__CPROVER_return_value) - VF_OFF(pkt) >= VF_SAP_DATA_OFF(pkt)))
#ifdef VF_SAP_PAYLOAD_VALIDATED
__CPROVER_ensures(pkt != NULL ==> __CPROVER_return_value != NULL)
#endif
;
#endif
#endif
